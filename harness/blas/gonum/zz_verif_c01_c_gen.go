// Code generated from zz_verif_c01_z.go, zz_verif_c01_z2.go by gen_c.py (see notes/C01.md, notes/C01_more.md); DO NOT EDIT.

package gonum

import (
	"math"

	"gonum.org/v1/gonum/blas"
)

func verifC01eqC64(a, b complex64, msg string) { verifAssertEqC(complex128(a), complex128(b), msg) }

// complex64 counterparts of a representative subset of the C01 harnesses.

func verifC01zcloneC(s []complex64) []complex64 { return append([]complex64(nil), s...) }

func verifC01zsameOneC(a, b complex64) bool {
	return verifAnd(verifSame(float64(real(a)), float64(real(b))), verifSame(float64(imag(a)), float64(imag(b))))
}

func verifC01zsameC(got, want []complex64, msg string) {
	for i := range got {
		verifAssert(verifC01zsameOneC(got[i], want[i]), msg)
	}
}

func verifC01zeqC(got, want []complex64, msg string) {
	for i := range got {
		verifC01eqC64(got[i], want[i], msg)
	}
}

func verifC01conjC(z complex64) complex64 { return complex(real(z), -imag(z)) }

func verifC01zscalarsC() (alpha, beta complex64) {
	alpha = complex(verifFloat32("alpha.re"), verifFloat32("alpha.im"))
	beta = complex(verifFloat32("beta.re"), verifFloat32("beta.im"))
	switch verifChoose("alphabeta", 0, 4) {
	case 1:
		alpha = 0
	case 2:
		beta = 0
	case 3:
		beta = 1
	case 4:
		alpha, beta = 0, 1
	}
	return alpha, beta
}

func verifC01zalphaC() complex64 {
	if verifChoose("alphaZero", 0, 1) == 1 {
		return 0
	}
	return complex(verifFloat32("alpha.re"), verifFloat32("alpha.im"))
}

// op(A)[i][j] of a rows x cols dense matrix
func verifC01zopC(t blas.Transpose, a []complex64, lda, i, j int) complex64 {
	switch t {
	case blas.NoTrans:
		return a[i*lda+j]
	case blas.Trans:
		return a[j*lda+i]
	}
	return verifC01conjC(a[j*lda+i])
}

// VerifC01_Caxpy: y[i] += alpha*x[i].
func VerifC01_Caxpy() {
	n := verifChoose("n", 0, verifParam("l1n", 4)-1)
	incX := verifC01inc("incX")
	incY := verifC01inc("incY")
	slack := verifChoose("slack", 0, 1)
	x := verifComplex64s("x", verifC01vlen(n, incX, slack))
	y := verifComplex64s("y", verifC01vlen(n, incY, slack))
	alpha := verifC01zalphaC()
	x0, y0 := verifC01zcloneC(x), verifC01zcloneC(y)
	Implementation{}.Caxpy(n, alpha, x, incX, y, incY)
	verifC01zsameC(x, x0, "Caxpy: x unchanged")
	want := verifC01zcloneC(y0)
	for i := 0; i < n; i++ {
		iy := verifVecIdx(n, incY, i)
		want[iy] = y0[iy] + alpha*x0[verifVecIdx(n, incX, i)]
	}
	verifC01zeqC(y, want, "Caxpy: y += alpha*x on addressed elements, rest untouched")
	for i := range y {
		if n == 0 || i%verifAbs(incY) != 0 || i/verifAbs(incY) >= n {
			verifAssert(verifC01zsameOneC(y[i], y0[i]), "Caxpy: skipped slots / slack untouched")
		}
	}
	verifReach("end")
}

// VerifC01_Cdot: Zdotu = sum x[i]*y[i], Zdotc = sum conj(x[i])*y[i].
func VerifC01_Cdot() {
	n := verifChoose("n", 0, verifParam("l1n", 4)-1)
	incX := verifC01inc("incX")
	incY := verifC01inc("incY")
	slack := verifChoose("slack", 0, 1)
	conj := verifChoose("conj", 0, 1) == 1
	x := verifComplex64s("x", verifC01vlen(n, incX, slack))
	y := verifComplex64s("y", verifC01vlen(n, incY, slack))
	x0, y0 := verifC01zcloneC(x), verifC01zcloneC(y)
	var got complex64
	if conj {
		got = Implementation{}.Cdotc(n, x, incX, y, incY)
	} else {
		got = Implementation{}.Cdotu(n, x, incX, y, incY)
	}
	verifC01zsameC(x, x0, "Cdot: x unchanged")
	verifC01zsameC(y, y0, "Cdot: y unchanged")
	var want complex64
	for i := 0; i < n; i++ {
		xi := x0[verifVecIdx(n, incX, i)]
		if conj {
			xi = verifC01conjC(xi)
		}
		want += xi * y0[verifVecIdx(n, incY, i)]
	}
	verifC01eqC64(got, want, "Cdotu/Cdotc: sum of (conjugated) products of addressed elements")
	verifReach("end")
}

// VerifC01_Cscal: x[i] *= alpha (complex alpha: Zscal; real alpha: Csscal).
func VerifC01_Cscal() {
	n := verifChoose("n", 0, verifParam("l1n", 4))
	incX := verifC01posinc("incX")
	slack := verifChoose("slack", 0, 1)
	realAlpha := verifChoose("realAlpha", 0, 1) == 1
	x := verifComplex64s("x", verifC01vlen(n, incX, slack))
	ar, ai := verifFloat32("alpha.re"), verifFloat32("alpha.im")
	switch verifChoose("alphaKind", 0, 2) {
	case 1:
		ar, ai = 0, 0
	case 2:
		ar, ai = 1, 0
	}
	if realAlpha {
		ai = 0
	}
	x0 := verifC01zcloneC(x)
	if realAlpha {
		Implementation{}.Csscal(n, ar, x, incX)
	} else {
		Implementation{}.Cscal(n, complex(ar, ai), x, incX)
	}
	want := verifC01zcloneC(x0)
	for i := 0; i < n; i++ {
		want[i*incX] = complex(ar, ai) * x0[i*incX]
	}
	verifC01zeqC(x, want, "Cscal/Csscal: x = alpha*x on addressed elements, rest untouched")
	for i := range x {
		if n == 0 || i%incX != 0 || i/incX >= n {
			verifAssert(verifC01zsameOneC(x[i], x0[i]), "Cscal/Csscal: unaddressed slot untouched")
		}
	}
	verifReach("end")
}

// VerifC01_Cgemv: y = alpha*op(A)*x + beta*y, op in {A, AT, AH}.
func VerifC01_Cgemv() {
	maxN := verifParam("zn", 2)
	tA := verifC01trans("trans")
	m := verifChoose("m", 0, maxN)
	n := verifChoose("n", 0, maxN)
	lda := verifC01lda(n)
	incX := verifC01inc("incX")
	incY := verifC01inc("incY")
	slack := verifChoose("slack", 0, 1)
	lenX, lenY := n, m
	if tA != blas.NoTrans {
		lenX, lenY = m, n
	}
	la := slack
	if m > 0 {
		la = lda*(m-1) + n + slack
	}
	a := verifComplex64s("a", la)
	x := verifComplex64s("x", verifC01vlen(lenX, incX, slack))
	y := verifComplex64s("y", verifC01vlen(lenY, incY, slack))
	alpha, beta := verifC01zscalarsC()
	a0, x0, y0 := verifC01zcloneC(a), verifC01zcloneC(x), verifC01zcloneC(y)
	Implementation{}.Cgemv(tA, m, n, alpha, a, lda, x, incX, beta, y, incY)
	verifC01zsameC(a, a0, "Cgemv: A unchanged")
	verifC01zsameC(x, x0, "Cgemv: x unchanged")
	want := verifC01zcloneC(y0)
	for i := 0; i < lenY && m > 0 && n > 0; i++ {
		var s complex64
		for j := 0; j < lenX; j++ {
			s += verifC01zopC(tA, a0, lda, i, j) * x0[verifVecIdx(lenX, incX, j)]
		}
		yi := verifVecIdx(lenY, incY, i)
		want[yi] = alpha*s + beta*y0[yi]
	}
	verifC01zeqC(y, want, "Cgemv: y = alpha*op(A)*x + beta*y on addressed elements, rest untouched")
	for i := range y {
		if m == 0 || n == 0 || i%verifAbs(incY) != 0 || i/verifAbs(incY) >= lenY {
			verifAssert(verifC01zsameOneC(y[i], y0[i]), "Cgemv: skipped slots / slack untouched")
		}
	}
	verifReach("end")
}

// VerifC01_Cger: A += alpha*x*yT (Zgeru) or alpha*x*yH (Zgerc).
func VerifC01_Cger() {
	maxN := verifParam("zn", 2)
	conj := verifChoose("conj", 0, 1) == 1
	m := verifChoose("m", 0, maxN)
	n := verifChoose("n", 0, maxN)
	lda := verifC01lda(n)
	incX := verifC01inc("incX")
	incY := verifC01inc("incY")
	slack := verifChoose("slack", 0, 1)
	la := slack
	if m > 0 {
		la = lda*(m-1) + n + slack
	}
	a := verifComplex64s("a", la)
	x := verifComplex64s("x", verifC01vlen(m, incX, slack))
	y := verifComplex64s("y", verifC01vlen(n, incY, slack))
	alpha := verifC01zalphaC()
	a0, x0, y0 := verifC01zcloneC(a), verifC01zcloneC(x), verifC01zcloneC(y)
	if conj {
		Implementation{}.Cgerc(m, n, alpha, x, incX, y, incY, a, lda)
	} else {
		Implementation{}.Cgeru(m, n, alpha, x, incX, y, incY, a, lda)
	}
	verifC01zsameC(x, x0, "Cger: x unchanged")
	verifC01zsameC(y, y0, "Cger: y unchanged")
	for p := range a {
		i, j := p/lda, p%lda
		if i < m && j < n {
			yj := y0[verifVecIdx(n, incY, j)]
			if conj {
				yj = verifC01conjC(yj)
			}
			verifC01eqC64(a[p], a0[p]+alpha*x0[verifVecIdx(m, incX, i)]*yj, "Cgeru/Cgerc: A += alpha*x*y^T/H")
		} else {
			verifAssert(verifC01zsameOneC(a[p], a0[p]), "Cgeru/Cgerc: padding / slack untouched")
		}
	}
	verifReach("end")
}

// hermitian matrix from the referenced triangle; imaginary parts of the diagonal are ignored
func verifC01denseHermC(ul blas.Uplo, n int, a []complex64, lda int) []complex64 {
	d := make([]complex64, n*n)
	for i := 0; i < n; i++ {
		for j := 0; j < n; j++ {
			switch {
			case i == j:
				d[i*n+j] = complex(real(a[i*lda+i]), 0)
			case verifC01inTri(ul, i, j):
				d[i*n+j] = a[i*lda+j]
			default:
				d[i*n+j] = verifC01conjC(a[j*lda+i])
			}
		}
	}
	return d
}

// VerifC01_Chemv: y = alpha*A*x + beta*y, A Hermitian given by one triangle.
func VerifC01_Chemv() {
	ul := verifC01uplo("uplo")
	n := verifChoose("n", 0, verifParam("zn", 2)+1)
	lda := verifC01lda(n)
	incX := verifC01inc("incX")
	incY := verifC01inc("incY")
	slack := verifChoose("slack", 0, 1)
	la := slack
	if n > 0 {
		la = lda*(n-1) + n + slack
	}
	a := verifComplex64s("a", la)
	x := verifComplex64s("x", verifC01vlen(n, incX, slack))
	y := verifComplex64s("y", verifC01vlen(n, incY, slack))
	alpha, beta := verifC01zscalarsC()
	a0, x0, y0 := verifC01zcloneC(a), verifC01zcloneC(x), verifC01zcloneC(y)
	Implementation{}.Chemv(ul, n, alpha, a, lda, x, incX, beta, y, incY)
	verifC01zsameC(a, a0, "Chemv: A unchanged")
	verifC01zsameC(x, x0, "Chemv: x unchanged")
	d := verifC01denseHermC(ul, n, a0, lda)
	want := verifC01zcloneC(y0)
	for i := 0; i < n; i++ {
		var s complex64
		for j := 0; j < n; j++ {
			s += d[i*n+j] * x0[verifVecIdx(n, incX, j)]
		}
		yi := verifVecIdx(n, incY, i)
		want[yi] = alpha*s + beta*y0[yi]
	}
	verifC01zeqC(y, want, "Chemv: y = alpha*A*x + beta*y on addressed elements, rest untouched")
	verifReach("end")
}

// VerifC01_Cher: referenced triangle of A += alpha*x*xH (alpha real); imaginary parts of the
// diagonal are set to zero (documented) unless the call returns early (n == 0 or alpha == 0).
func VerifC01_Cher() {
	ul := verifC01uplo("uplo")
	n := verifChoose("n", 0, verifParam("zn", 2)+1)
	lda := verifC01lda(n)
	incX := verifC01inc("incX")
	slack := verifChoose("slack", 0, 1)
	la := slack
	if n > 0 {
		la = lda*(n-1) + n + slack
	}
	a := verifComplex64s("a", la)
	x := verifComplex64s("x", verifC01vlen(n, incX, slack))
	alphaZero := verifChoose("alphaZero", 0, 1) == 1
	alpha := verifFloat32("alpha")
	if alphaZero {
		alpha = 0
	} else {
		verifAssume(alpha != 0)
	}
	a0, x0 := verifC01zcloneC(a), verifC01zcloneC(x)
	Implementation{}.Cher(ul, n, alpha, x, incX, a, lda)
	verifC01zsameC(x, x0, "Cher: x unchanged")
	for p := range a {
		i, j := p/lda, p%lda
		if !alphaZero && i < n && j < n && verifC01inTri(ul, i, j) {
			xi, xj := x0[verifVecIdx(n, incX, i)], x0[verifVecIdx(n, incX, j)]
			upd := complex(alpha, 0) * xi * verifC01conjC(xj)
			if i == j {
				verifC01eqC64(a[p], complex(real(a0[p])+real(upd), 0), "Cher: diagonal += alpha*|x_i|^2, imaginary part zero")
			} else {
				verifC01eqC64(a[p], a0[p]+upd, "Cher: triangle += alpha*x*xH")
			}
		} else {
			verifAssert(verifC01zsameOneC(a[p], a0[p]), "Cher: other triangle / padding / slack untouched")
		}
	}
	verifReach("end")
}

// VerifC01_Cgemm: C = alpha*op(A)*op(B) + beta*C with op in {X, XT, XH} for both operands.
func VerifC01_Cgemm() {
	maxN := verifParam("zn", 2)
	tA := verifC01trans("transA")
	tB := verifC01trans("transB")
	m := verifChoose("m", 0, maxN)
	n := verifChoose("n", 0, maxN)
	k := verifChoose("k", 0, maxN)
	padA, padB, padC := verifC01pads3()
	ra, ca := m, k
	if tA != blas.NoTrans {
		ra, ca = k, m
	}
	rb, cb := k, n
	if tB != blas.NoTrans {
		rb, cb = n, k
	}
	lda, ldb, ldc := verifC01ld(ca, padA), verifC01ld(cb, padB), verifC01ld(n, padC)
	a := verifComplex64s("a", verifC01mlen(ra, ca, lda, padA))
	b := verifComplex64s("b", verifC01mlen(rb, cb, ldb, padB))
	c := verifComplex64s("c", verifC01mlen(m, n, ldc, padC))
	alpha, beta := verifC01zscalarsC()
	a0, b0, c0 := verifC01zcloneC(a), verifC01zcloneC(b), verifC01zcloneC(c)
	Implementation{}.Cgemm(tA, tB, m, n, k, alpha, a, lda, b, ldb, beta, c, ldc)
	verifC01zsameC(a, a0, "Cgemm: A unchanged")
	verifC01zsameC(b, b0, "Cgemm: B unchanged")
	for p := range c {
		i, j := p/ldc, p%ldc
		if n > 0 && i < m && j < n {
			var s complex64
			for l := 0; l < k; l++ {
				s += verifC01zopC(tA, a0, lda, i, l) * verifC01zopC(tB, b0, ldb, l, j)
			}
			verifC01eqC64(c[p], alpha*s+beta*c0[p], "Cgemm: C = alpha*op(A)*op(B) + beta*C")
		} else {
			verifAssert(verifC01zsameOneC(c[p], c0[p]), "Cgemm: padding / slack untouched")
		}
	}
	verifReach("end")
}

// VerifC01_Cherk: referenced triangle of C = alpha*A*AH + beta*C (NoTrans) or alpha*AH*A + beta*C
// (ConjTrans), alpha and beta real; imaginary parts of the diagonal of C are set to zero.
func VerifC01_Cherk() {
	maxN := verifParam("zn", 2)
	ul := verifC01uplo("uplo")
	tA := blas.NoTrans
	if verifChoose("trans", 0, 1) == 1 {
		tA = blas.ConjTrans
	}
	n := verifChoose("n", 0, maxN)
	k := verifChoose("k", 0, maxN)
	padA, padC := verifChoose("padA", 0, 1), verifChoose("padC", 0, 1)
	ra, ca := n, k
	if tA != blas.NoTrans {
		ra, ca = k, n
	}
	lda, ldc := verifC01ld(ca, padA), verifC01ld(n, padC)
	a := verifComplex64s("a", verifC01mlen(ra, ca, lda, padA))
	c := verifComplex64s("c", verifC01mlen(n, n, ldc, padC))
	alpha, beta := verifC01alphabetaS()
	a0, c0 := verifC01zcloneC(a), verifC01zcloneC(c)
	Implementation{}.Cherk(ul, tA, n, k, alpha, a, lda, beta, c, ldc)
	verifC01zsameC(a, a0, "Cherk: A unchanged")
	if (alpha == 0 || k == 0) && beta == 1 { // BLAS quick return: C (including diagonal imaginary parts) untouched
		verifC01zsameC(c, c0, "Cherk: quick return leaves C untouched")
		verifReach("end")
		return
	}
	for p := range c {
		i, j := p/ldc, p%ldc
		if i < n && j < n && verifC01inTri(ul, i, j) {
			var s complex64
			for l := 0; l < k; l++ {
				// op(A) = A (n x k) for NoTrans, AH for ConjTrans: op(A)[i][l]
				var ail, ajl complex64
				if tA == blas.NoTrans {
					ail, ajl = a0[i*lda+l], a0[j*lda+l]
				} else {
					ail, ajl = verifC01conjC(a0[l*lda+i]), verifC01conjC(a0[l*lda+j])
				}
				s += ail * verifC01conjC(ajl)
			}
			cij := c0[p]
			if i == j {
				cij = complex(real(cij), 0)
			}
			want := complex(alpha, 0)*s + complex(beta, 0)*cij
			if i == j {
				want = complex(real(want), 0)
			}
			verifC01eqC64(c[p], want, "Cherk: triangle of C = alpha*op(A)*op(A)H + beta*C, diagonal real")
		} else {
			verifAssert(verifC01zsameOneC(c[p], c0[p]), "Cherk: other triangle / padding / slack untouched")
		}
	}
	verifReach("end")
}

// complex64 Level 2 / Level 3 routines not covered by zz_verif_c01_z.go.

const (
	verifC01kTriC  = 0 // triangular: zero outside the referenced triangle, optional unit diagonal
	verifC01kHermC = 1 // Hermitian: mirrored conjugate, imaginary part of the diagonal ignored
	verifC01kSymC  = 2 // symmetric: mirrored
)

// verifC01zdenseC expands a structured n x n complex matrix to a flat dense one. idx(i,j) is the
// storage index of element (i,j) of the referenced triangle (-1: outside the band).
func verifC01zdenseC(ul blas.Uplo, kind int, dg blas.Diag, n int, a []complex64, idx func(i, j int) int) []complex64 {
	d := make([]complex64, n*n)
	for i := 0; i < n; i++ {
		for j := 0; j < n; j++ {
			var v complex64
			if verifC01inTri(ul, i, j) {
				if p := idx(i, j); p >= 0 {
					v = a[p]
				}
			} else if kind != verifC01kTriC {
				if p := idx(j, i); p >= 0 {
					v = a[p]
					if kind == verifC01kHermC {
						v = verifC01conjC(v)
					}
				}
			}
			if i == j {
				switch {
				case kind == verifC01kHermC:
					v = complex(real(v), 0)
				case kind == verifC01kTriC && dg == blas.Unit:
					v = 1
				}
			}
			d[i*n+j] = v
		}
	}
	return d
}

// op(D)[i][j] for a flat n x n complex matrix
func verifC01zopDC(t blas.Transpose, d []complex64, n, i, j int) complex64 {
	switch t {
	case blas.NoTrans:
		return d[i*n+j]
	case blas.Trans:
		return d[j*n+i]
	}
	return verifC01conjC(d[j*n+i])
}

// want = alpha*op(D)*x + beta*y on the addressed elements of y
func verifC01zmvRefC(t blas.Transpose, n int, alpha complex64, d []complex64, x0 []complex64, incX int, beta complex64, y0 []complex64, incY int) []complex64 {
	want := verifC01zcloneC(y0)
	for i := 0; i < n; i++ {
		var s complex64
		for j := 0; j < n; j++ {
			s += verifC01zopDC(t, d, n, i, j) * x0[verifVecIdx(n, incX, j)]
		}
		yi := verifVecIdx(n, incY, i)
		want[yi] = alpha*s + beta*y0[yi]
	}
	return want
}

func verifC01addressedC(n, inc, p int) bool {
	return n > 0 && p%verifAbs(inc) == 0 && p/verifAbs(inc) < n
}

// ---- storage schemes: 0 dense, 1 band, 2 packed ----

type verifC01zstoreC struct {
	scheme  int
	ul      blas.Uplo
	n, k    int
	lda     int
	a       []complex64
	idx     func(i, j int) int
	diagIdx func(i int) int
}

func verifC01zmkStoreC(scheme int, ul blas.Uplo, n int) *verifC01zstoreC {
	st := &verifC01zstoreC{scheme: scheme, ul: ul, n: n}
	pad := verifChoose("pad", 0, 1)
	switch scheme {
	case 0:
		st.lda = verifC01ld(n, pad)
		la := pad
		if n > 0 {
			la = st.lda*(n-1) + n + pad
		}
		st.a = verifComplex64s("a", la)
		st.idx = func(i, j int) int { return i*st.lda + j }
	case 1:
		st.k = verifChoose("k", 0, verifParam("zk", 1))
		st.lda = st.k + 1 + pad
		st.a = verifComplex64s("a", verifC01bandLen(n, st.k, st.lda, pad))
		st.idx = func(i, j int) int { return verifC01bandIdx(ul, st.k, st.lda, i, j) }
	default:
		st.a = verifComplex64s("ap", verifC01packedLen(n)+pad)
		st.idx = func(i, j int) int { return verifC01packedIdx(ul, n, i, j) }
	}
	return st
}

// ---- general band ----

// VerifC01_Cgbmv: y = alpha*op(A)*x + beta*y, A general band, op in {A, AT, AH}.
func VerifC01_Cgbmv() {
	maxN := verifParam("zn", 2)
	maxK := verifParam("zk", 1)
	tA := verifC01trans("trans")
	m := verifChoose("m", 0, maxN)
	n := verifChoose("n", 0, maxN)
	kL := verifChoose("kL", 0, maxK)
	kU := verifChoose("kU", 0, maxK)
	pad := verifChoose("pad", 0, 1)
	lda := kL + kU + 1 + pad
	incX := verifC01inc("incX")
	incY := verifC01inc("incY")
	rows := m
	if n+kL < rows {
		rows = n + kL
	}
	la := pad
	if m > 0 && n > 0 {
		la = lda*(rows-1) + kL + kU + 1 + pad
	}
	lenX, lenY := n, m
	if tA != blas.NoTrans {
		lenX, lenY = m, n
	}
	a := verifComplex64s("a", la)
	x := verifComplex64s("x", verifC01vlen(lenX, incX, pad))
	y := verifComplex64s("y", verifC01vlen(lenY, incY, pad))
	alpha, beta := verifC01zscalarsC()
	a0, x0, y0 := verifC01zcloneC(a), verifC01zcloneC(x), verifC01zcloneC(y)
	Implementation{}.Cgbmv(tA, m, n, kL, kU, alpha, a, lda, x, incX, beta, y, incY)
	verifC01zsameC(a, a0, "Cgbmv: A unchanged")
	verifC01zsameC(x, x0, "Cgbmv: x unchanged")
	want := verifC01zcloneC(y0)
	for i := 0; i < lenY && m > 0 && n > 0; i++ {
		var s complex64
		for j := 0; j < lenX; j++ {
			r, c := i, j
			if tA != blas.NoTrans {
				r, c = j, i
			}
			if c-r <= kU && r-c <= kL {
				v := a0[r*lda+kL+c-r]
				if tA == blas.ConjTrans {
					v = verifC01conjC(v)
				}
				s += v * x0[verifVecIdx(lenX, incX, j)]
			}
		}
		yi := verifVecIdx(lenY, incY, i)
		want[yi] = alpha*s + beta*y0[yi]
	}
	verifC01zeqC(y, want, "Cgbmv: y = alpha*op(A)*x + beta*y on addressed elements, rest untouched")
	verifReach("end")
}

// ---- Hermitian matrix-vector: band and packed ----

func verifC01zhmvC(name string, scheme int) {
	ul := verifC01uplo("uplo")
	n := verifChoose("n", 0, verifParam("zn", 2)+1)
	st := verifC01zmkStoreC(scheme, ul, n)
	incX := verifC01inc("incX")
	incY := verifC01inc("incY")
	slack := verifChoose("slack", 0, 1)
	x := verifComplex64s("x", verifC01vlen(n, incX, slack))
	y := verifComplex64s("y", verifC01vlen(n, incY, slack))
	alpha, beta := verifC01zscalarsC()
	a0, x0, y0 := verifC01zcloneC(st.a), verifC01zcloneC(x), verifC01zcloneC(y)
	if scheme == 1 {
		Implementation{}.Chbmv(ul, n, st.k, alpha, st.a, st.lda, x, incX, beta, y, incY)
	} else {
		Implementation{}.Chpmv(ul, n, alpha, st.a, x, incX, beta, y, incY)
	}
	verifC01zsameC(st.a, a0, name+": A unchanged")
	verifC01zsameC(x, x0, name+": x unchanged")
	d := verifC01zdenseC(ul, verifC01kHermC, blas.NonUnit, n, a0, st.idx)
	want := verifC01zmvRefC(blas.NoTrans, n, alpha, d, x0, incX, beta, y0, incY)
	verifC01zeqC(y, want, name+": y = alpha*A*x + beta*y on addressed elements, rest untouched")
	verifReach("end")
}

func VerifC01_Chbmv() { verifC01zhmvC("Chbmv", 1) }
func VerifC01_Chpmv() { verifC01zhmvC("Chpmv", 2) }

// ---- Hermitian rank updates: Zher2 (dense), Zhpr, Zhpr2 (packed) ----

// rank 1 (two == false): A += alpha*x*xH with real alpha; rank 2: A += alpha*x*yH + conj(alpha)*y*xH.
// Referenced triangle only; imaginary part of the diagonal set to zero; everything else
// untouched; BLAS quick return (alpha == 0) leaves A untouched.
func verifC01zhrC(name string, scheme int, two bool) {
	ul := verifC01uplo("uplo")
	n := verifChoose("n", 0, verifParam("zn", 2)+1)
	st := verifC01zmkStoreC(scheme, ul, n)
	incX := verifC01inc("incX")
	incY := 1
	if two {
		incY = verifC01inc("incY")
	}
	slack := verifChoose("slack", 0, 1)
	x := verifComplex64s("x", verifC01vlen(n, incX, slack))
	y := verifComplex64s("y", verifC01vlen(n, incY, slack))
	alphaZero := verifChoose("alphaZero", 0, 1) == 1
	ar, ai := verifFloat32("alpha.re"), verifFloat32("alpha.im")
	if !two {
		ai = 0
	}
	if alphaZero {
		ar, ai = 0, 0
	} else {
		verifAssume(verifOr(ar != 0, ai != 0))
	}
	alpha := complex(ar, ai)
	a0, x0, y0 := verifC01zcloneC(st.a), verifC01zcloneC(x), verifC01zcloneC(y)
	switch {
	case scheme == 0 && two:
		Implementation{}.Cher2(ul, n, alpha, x, incX, y, incY, st.a, st.lda)
	case scheme == 2 && two:
		Implementation{}.Chpr2(ul, n, alpha, x, incX, y, incY, st.a)
	default:
		Implementation{}.Chpr(ul, n, ar, x, incX, st.a)
	}
	verifC01zsameC(x, x0, name+": x unchanged")
	verifC01zsameC(y, y0, name+": y unchanged")
	addr := make([]int, len(st.a)) // 0: not addressed, 1: off-diagonal, 2: diagonal
	want := verifC01zcloneC(a0)
	for i := 0; i < n && !alphaZero; i++ {
		for j := 0; j < n; j++ {
			if !verifC01inTri(ul, i, j) {
				continue
			}
			p := st.idx(i, j)
			xi, xj := x0[verifVecIdx(n, incX, i)], x0[verifVecIdx(n, incX, j)]
			var upd complex64
			if two {
				yi, yj := y0[verifVecIdx(n, incY, i)], y0[verifVecIdx(n, incY, j)]
				upd = alpha*xi*verifC01conjC(yj) + verifC01conjC(alpha)*yi*verifC01conjC(xj)
			} else {
				upd = alpha * xi * verifC01conjC(xj)
			}
			if i == j {
				addr[p] = 2
				want[p] = complex(real(a0[p])+real(upd), 0)
			} else {
				addr[p] = 1
				want[p] = a0[p] + upd
			}
		}
	}
	for p := range st.a {
		if addr[p] != 0 {
			verifC01eqC64(st.a[p], want[p], name+": referenced triangle updated, diagonal real")
		} else {
			verifAssert(verifC01zsameOneC(st.a[p], a0[p]), name+": other triangle / padding / slack untouched")
		}
	}
	verifReach("end")
}

func VerifC01_Cher2() { verifC01zhrC("Cher2", 0, true) }
func VerifC01_Chpr()  { verifC01zhrC("Chpr", 2, false) }
func VerifC01_Chpr2() { verifC01zhrC("Chpr2", 2, true) }

// ---- triangular matrix-vector products and solves: dense, band, packed ----

// verifC01z2solveDiagC prepares the diagonal of a non-unit triangular solve of order n.
// n <= zsym (param, default 1): symbolic diagonal entries assumed non-zero (documented: no test for
// singularity). Larger n: the diagonal entries are fixed, pairwise different, non-real values
// 1+1i, 2-2i, 4+4i, ... (|d|^2 a power of two: Ztrsm multiplies by the concretely evaluated reciprocal
// 1/d, which must be exact for an exact-real oracle) while every other cell stays symbolic: a complex division by a
// symbolic value is (ac+bd)/(c^2+d^2), and op(A)*x_out == x_in with nested quotients of that kind
// costs z3 minutes per query from n == 2 on (Ztrsm m,n <= 2: 84 min of solver time); division by a
// constant keeps the obligations polynomial.
func verifC01z2solveDiagC(n int, a []complex64, idx func(i, j int) int) {
	for i := 0; i < n; i++ {
		p := idx(i, i)
		if n <= verifParam("zsym", 1) {
			verifAssume(verifOr(real(a[p]) != 0, imag(a[p]) != 0))
			continue
		}
		re := float32(int(1) << uint(i))
		im := re
		if i%2 == 1 {
			im = -im
		}
		a[p] = complex(re, im)
	}
}

func verifC01ztrC(name string, scheme int, solve bool) {
	ul := verifC01uplo("uplo")
	tA := verifC01trans("trans")
	dg := verifC01diag("diag")
	n := verifChoose("n", 0, verifParam("zn", 2)+1)
	st := verifC01zmkStoreC(scheme, ul, n)
	incX := verifC01inc("incX")
	slack := verifChoose("slack", 0, 1)
	x := verifComplex64s("x", verifC01vlen(n, incX, slack))
	if solve && dg == blas.NonUnit {
		verifC01z2solveDiagC(n, st.a, st.idx)
	}
	a0, x0 := verifC01zcloneC(st.a), verifC01zcloneC(x)
	im := Implementation{}
	switch {
	case scheme == 0 && !solve:
		im.Ctrmv(ul, tA, dg, n, st.a, st.lda, x, incX)
	case scheme == 0 && solve:
		im.Ctrsv(ul, tA, dg, n, st.a, st.lda, x, incX)
	case scheme == 1 && !solve:
		im.Ctbmv(ul, tA, dg, n, st.k, st.a, st.lda, x, incX)
	case scheme == 1 && solve:
		im.Ctbsv(ul, tA, dg, n, st.k, st.a, st.lda, x, incX)
	case scheme == 2 && !solve:
		im.Ctpmv(ul, tA, dg, n, st.a, x, incX)
	default:
		im.Ctpsv(ul, tA, dg, n, st.a, x, incX)
	}
	verifC01zsameC(st.a, a0, name+": A unchanged")
	d := verifC01zdenseC(ul, verifC01kTriC, dg, n, a0, st.idx)
	if !solve {
		want := verifC01zmvRefC(tA, n, 1, d, x0, incX, 0, x0, incX)
		for p := range x {
			if verifC01addressedC(n, incX, p) {
				verifC01eqC64(x[p], want[p], name+": x = op(A)*x")
			} else {
				verifAssert(verifC01zsameOneC(x[p], x0[p]), name+": skipped slots / slack untouched")
			}
		}
	} else {
		back := verifC01zmvRefC(tA, n, 1, d, x, incX, 0, x, incX) // op(A)*x_out
		for p := range x {
			if verifC01addressedC(n, incX, p) {
				verifC01eqC64(back[p], x0[p], name+": op(A)*x_out = x_in")
			} else {
				verifAssert(verifC01zsameOneC(x[p], x0[p]), name+": skipped slots / slack untouched")
			}
		}
	}
	verifReach("end")
}

func VerifC01_Ctrmv() { verifC01ztrC("Ctrmv", 0, false) }
func VerifC01_Ctrsv() { verifC01ztrC("Ctrsv", 0, true) }
func VerifC01_Ctbmv() { verifC01ztrC("Ctbmv", 1, false) }
func VerifC01_Ctbsv() { verifC01ztrC("Ctbsv", 1, true) }
func VerifC01_Ctpmv() { verifC01ztrC("Ctpmv", 2, false) }
func VerifC01_Ctpsv() { verifC01ztrC("Ctpsv", 2, true) }

// ---- Level 3 ----

// flat complex matrix helpers
func verifC01zmatC(a []complex64, ld, rows, cols int) []complex64 {
	d := make([]complex64, rows*cols)
	for i := 0; i < rows; i++ {
		for j := 0; j < cols; j++ {
			d[i*cols+j] = a[i*ld+j]
		}
	}
	return d
}

// (m x k) * (k x n)
func verifC01zmmC(m, n, k int, a, b []complex64) []complex64 {
	c := make([]complex64, m*n)
	for i := 0; i < m; i++ {
		for j := 0; j < n; j++ {
			var s complex64
			for l := 0; l < k; l++ {
				s += a[i*k+l] * b[l*n+j]
			}
			c[i*n+j] = s
		}
	}
	return c
}

// op applied to a flat r x c matrix: result is r x c (NoTrans) or c x r
func verifC01zopMatC(t blas.Transpose, d []complex64, r, c int) []complex64 {
	if t == blas.NoTrans {
		return d
	}
	o := make([]complex64, r*c)
	for i := 0; i < r; i++ {
		for j := 0; j < c; j++ {
			v := d[i*c+j]
			if t == blas.ConjTrans {
				v = verifC01conjC(v)
			}
			o[j*r+i] = v
		}
	}
	return o
}

func verifC01zdenseIdxC(lda int) func(i, j int) int {
	return func(i, j int) int { return i*lda + j }
}

// VerifC01_Chemm / Zsymm: C = alpha*A*B + beta*C (Left) or alpha*B*A + beta*C (Right).
func verifC01zxxmmC(name string, kind int) {
	maxN := verifParam("zn", 2)
	s := verifC01side("side")
	ul := verifC01uplo("uplo")
	m := verifChoose("m", 0, maxN)
	n := verifChoose("n", 0, maxN)
	padA, padB, padC := verifC01pads3()
	ka := n
	if s == blas.Left {
		ka = m
	}
	lda, ldb, ldc := verifC01ld(ka, padA), verifC01ld(n, padB), verifC01ld(n, padC)
	a := verifComplex64s("a", verifC01mlen(ka, ka, lda, padA))
	b := verifComplex64s("b", verifC01mlen(m, n, ldb, padB))
	c := verifComplex64s("c", verifC01mlen(m, n, ldc, padC))
	alpha, beta := verifC01zscalarsC()
	a0, b0, c0 := verifC01zcloneC(a), verifC01zcloneC(b), verifC01zcloneC(c)
	if kind == verifC01kHermC {
		Implementation{}.Chemm(s, ul, m, n, alpha, a, lda, b, ldb, beta, c, ldc)
	} else {
		Implementation{}.Csymm(s, ul, m, n, alpha, a, lda, b, ldb, beta, c, ldc)
	}
	verifC01zsameC(a, a0, name+": A unchanged")
	verifC01zsameC(b, b0, name+": B unchanged")
	var ab []complex64
	if m > 0 && n > 0 {
		d := verifC01zdenseC(ul, kind, blas.NonUnit, ka, a0, verifC01zdenseIdxC(lda))
		bm := verifC01zmatC(b0, ldb, m, n)
		if s == blas.Left {
			ab = verifC01zmmC(m, n, m, d, bm)
		} else {
			ab = verifC01zmmC(m, n, n, bm, d)
		}
	}
	for p := range c {
		i, j := p/ldc, p%ldc
		if n > 0 && i < m && j < n {
			verifC01eqC64(c[p], alpha*ab[i*n+j]+beta*c0[p], name+": C = alpha*A*B + beta*C resp. alpha*B*A + beta*C")
		} else {
			verifAssert(verifC01zsameOneC(c[p], c0[p]), name+": padding / slack untouched")
		}
	}
	verifReach("end")
}

func VerifC01_Chemm() { verifC01zxxmmC("Chemm", verifC01kHermC) }
func VerifC01_Csymm() { verifC01zxxmmC("Csymm", verifC01kSymC) }

// verifC01zr2kC: rank-k / rank-2k updates of the referenced triangle of C.
//
//	which 0: Zsyrk  C = alpha*op(A)*op(A)T + beta*C                      (trans N/T)
//	which 1: Zsyr2k C = alpha*op(A)*op(B)T + alpha*op(B)*op(A)T + beta*C (trans N/T)
//	which 2: Zher2k C = alpha*op(A)*op(B)H + conj(alpha)*op(B)*op(A)H + beta*C (trans N/C, beta real,
//	         diagonal of C real; BLAS quick return (alpha==0||k==0)&&beta==1 leaves C untouched)
func verifC01zr2kC(name string, which int) {
	maxN := verifParam("zn", 2)
	ul := verifC01uplo("uplo")
	tA := blas.NoTrans
	if verifChoose("trans", 0, 1) == 1 {
		tA = blas.Trans
		if which == 2 {
			tA = blas.ConjTrans
		}
	}
	n := verifChoose("n", 0, maxN)
	k := verifChoose("k", 0, maxN)
	padA, padB, padC := verifC01pads3()
	ra, ca := n, k
	if tA != blas.NoTrans {
		ra, ca = k, n
	}
	lda, ldb, ldc := verifC01ld(ca, padA), verifC01ld(ca, padB), verifC01ld(n, padC)
	a := verifComplex64s("a", verifC01mlen(ra, ca, lda, padA))
	b := verifComplex64s("b", verifC01mlen(ra, ca, ldb, padB))
	c := verifComplex64s("c", verifC01mlen(n, n, ldc, padC))
	alpha, beta := verifC01zscalarsC()
	if which == 2 {
		beta = complex(real(beta), 0)
	}
	a0, b0, c0 := verifC01zcloneC(a), verifC01zcloneC(b), verifC01zcloneC(c)
	switch which {
	case 0:
		Implementation{}.Csyrk(ul, tA, n, k, alpha, a, lda, beta, c, ldc)
	case 1:
		Implementation{}.Csyr2k(ul, tA, n, k, alpha, a, lda, b, ldb, beta, c, ldc)
	default:
		Implementation{}.Cher2k(ul, tA, n, k, alpha, a, lda, b, ldb, real(beta), c, ldc)
	}
	verifC01zsameC(a, a0, name+": A unchanged")
	verifC01zsameC(b, b0, name+": B unchanged")
	if which == 2 && (alpha == 0 || k == 0) && beta == 1 {
		verifC01zsameC(c, c0, name+": quick return leaves C untouched")
		verifReach("end")
		return
	}
	// op(A), op(B): n x k
	var opA, opB []complex64
	if n > 0 && k > 0 {
		opA = verifC01zopMatC(tA, verifC01zmatC(a0, lda, ra, ca), ra, ca)
		opB = verifC01zopMatC(tA, verifC01zmatC(b0, ldb, ra, ca), ra, ca)
	}
	second := blas.Trans // (.)T for the symmetric updates, (.)H for the Hermitian one
	if which == 2 {
		second = blas.ConjTrans
	}
	for p := range c {
		i, j := p/ldc, p%ldc
		if i < n && j < n && verifC01inTri(ul, i, j) {
			var s1, s2 complex64
			for l := 0; l < k; l++ {
				ail, ajl, bil, bjl := opA[i*k+l], opA[j*k+l], opB[i*k+l], opB[j*k+l]
				if second == blas.ConjTrans {
					ajl, bjl = verifC01conjC(ajl), verifC01conjC(bjl)
				}
				switch which {
				case 0:
					s1 += ail * ajl
				default:
					s1 += ail * bjl
					s2 += bil * ajl
				}
			}
			cij := c0[p]
			var want complex64
			switch which {
			case 0:
				want = alpha*s1 + beta*cij
			case 1:
				want = alpha*s1 + alpha*s2 + beta*cij
			default:
				if i == j {
					cij = complex(real(cij), 0)
				}
				want = alpha*s1 + verifC01conjC(alpha)*s2 + beta*cij
				if i == j {
					want = complex(real(want), 0)
				}
			}
			verifC01eqC64(c[p], want, name+": referenced triangle of C holds the rank-k update")
		} else {
			verifAssert(verifC01zsameOneC(c[p], c0[p]), name+": other triangle / padding / slack untouched")
		}
	}
	verifReach("end")
}

func VerifC01_Csyrk()  { verifC01zr2kC("Csyrk", 0) }
func VerifC01_Csyr2k() { verifC01zr2kC("Csyr2k", 1) }
func VerifC01_Cher2k() { verifC01zr2kC("Cher2k", 2) }

// VerifC01_Ctrmm / Ztrsm: B = alpha*op(A)*B resp. alpha*B*op(A); op(A)*X = alpha*B resp. X*op(A) = alpha*B.
func verifC01ztrmC(name string, solve bool) {
	maxN := verifParam("zn", 2)
	s := verifC01side("side")
	ul := verifC01uplo("uplo")
	tA := verifC01trans("trans")
	dg := verifC01diag("diag")
	m := verifChoose("m", 0, maxN)
	n := verifChoose("n", 0, maxN)
	padA, padB := verifChoose("padA", 0, 1), verifChoose("padB", 0, 1)
	ka := n
	if s == blas.Left {
		ka = m
	}
	lda, ldb := verifC01ld(ka, padA), verifC01ld(n, padB)
	a := verifComplex64s("a", verifC01mlen(ka, ka, lda, padA))
	b := verifComplex64s("b", verifC01mlen(m, n, ldb, padB))
	alpha := verifC01zalphaC()
	if solve && dg == blas.NonUnit && m > 0 && n > 0 {
		verifC01z2solveDiagC(ka, a, verifC01zdenseIdxC(lda))
	}
	a0, b0 := verifC01zcloneC(a), verifC01zcloneC(b)
	if solve {
		Implementation{}.Ctrsm(s, ul, tA, dg, m, n, alpha, a, lda, b, ldb)
	} else {
		Implementation{}.Ctrmm(s, ul, tA, dg, m, n, alpha, a, lda, b, ldb)
	}
	verifC01zsameC(a, a0, name+": A unchanged")
	var prod []complex64 // op(A)*M resp. M*op(A), M = B_in (product) or X_out (solve)
	if m > 0 && n > 0 {
		d := verifC01zopMatC(tA, verifC01zdenseC(ul, verifC01kTriC, dg, ka, a0, verifC01zdenseIdxC(lda)), ka, ka)
		src := b0
		if solve {
			src = b
		}
		mm := verifC01zmatC(src, ldb, m, n)
		if s == blas.Left {
			prod = verifC01zmmC(m, n, m, d, mm)
		} else {
			prod = verifC01zmmC(m, n, n, mm, d)
		}
	}
	for p := range b {
		i, j := p/ldb, p%ldb
		if n > 0 && i < m && j < n {
			if solve {
				verifC01eqC64(prod[i*n+j], alpha*b0[p], name+": op(A)*X = alpha*B resp. X*op(A) = alpha*B")
			} else {
				verifC01eqC64(b[p], alpha*prod[i*n+j], name+": B = alpha*op(A)*B resp. alpha*B*op(A)")
			}
		} else {
			verifAssert(verifC01zsameOneC(b[p], b0[p]), name+": padding / slack untouched")
		}
	}
	verifReach("end")
}

func VerifC01_Ctrmm() { verifC01ztrmC("Ctrmm", false) }
func VerifC01_Ctrsm() { verifC01ztrmC("Ctrsm", true) }

// ---- Level 1: Scasum, Scnrm2, Icamax, Zcopy, Zswap ----

// |Re z| + |Im z| (the BLAS "cabs1")
func verifC01z2abs1C(z complex64) float32 {
	return verifC01z2absFC(real(z)) + verifC01z2absFC(imag(z))
}

func verifC01z2absFC(x float32) float32 {
	return float32(verifIteF(x < 0, float64(-x), float64(x)))
}

// verifC01z2finiteC: the cells are finite values of their type. In model R a symbolic value is an
// arbitrary real number; code that tests against the largest finite value (math32.IsInf in Scnrm2 is
// f > MaxFloat32) needs the range stated.
func verifC01z2finiteC(x []complex64) {
	for _, v := range x {
		verifAssume(verifAnd(real(v) <= math.MaxFloat32, real(v) >= -math.MaxFloat32))
		verifAssume(verifAnd(imag(v) <= math.MaxFloat32, imag(v) >= -math.MaxFloat32))
	}
}

// VerifC01_Scasum: result = sum |Re x[i]| + |Im x[i]| over addressed elements; x unchanged.
// (n <= zl1n: math32.Abs forks three ways per call, the complex64 twin has 9^n paths.)
func VerifC01_Scasum() {
	n := verifChoose("n", 0, verifParam("zl1n", 3))
	incX := verifC01posinc("incX")
	slack := verifChoose("slack", 0, 1)
	x := verifComplex64s("x", verifC01vlen(n, incX, slack))
	x0 := verifC01zcloneC(x)
	got := Implementation{}.Scasum(n, x, incX)
	verifC01zsameC(x, x0, "Scasum: x unchanged")
	var want float32
	for i := 0; i < n; i++ {
		want += verifC01z2abs1C(x0[i*incX])
	}
	verifC01eqF32(got, want, "Scasum: sum of |Re|+|Im| over addressed elements")
	verifReach("end")
}

// VerifC01_Icamax: first index of the maximum |Re x[i]|+|Im x[i]| over addressed elements; -1 for n == 0.
func VerifC01_Icamax() {
	n := verifChoose("n", 0, verifParam("zl1n", 3))
	incX := verifC01posinc("incX")
	slack := verifChoose("slack", 0, 1)
	x := verifComplex64s("x", verifC01vlen(n, incX, slack))
	x0 := verifC01zcloneC(x)
	got := Implementation{}.Icamax(n, x, incX)
	verifC01zsameC(x, x0, "Icamax: x unchanged")
	if n == 0 {
		verifAssert(got == -1, "Icamax: -1 for n == 0")
		verifReach("end")
		return
	}
	verifAssert(verifAnd(got >= 0, got < n), "Icamax: index in range")
	for i := 0; i < n; i++ {
		if got == i { // fork on the result; at most n feasible values
			g := verifC01z2abs1C(x0[i*incX])
			for j := 0; j < n; j++ {
				a := verifC01z2abs1C(x0[j*incX])
				verifAssert(a <= g, "Icamax: |Re|+|Im| of x[idx] is the maximum")
				if j < i {
					verifAssert(a < g, "Icamax: earliest index among ties")
				}
			}
		}
	}
	verifReach("end")
}

// VerifC01_Scnrm2: r >= 0 and r*r == sum Re(x[i])^2+Im(x[i])^2 over addressed elements (exact reals).
func VerifC01_Scnrm2() {
	n := verifChoose("n", 0, verifParam("znrm2n", 1))
	incX := verifC01posinc("incX")
	slack := verifChoose("slack", 0, 1)
	x := verifComplex64s("x", verifC01vlen(n, incX, slack))
	verifC01z2finiteC(x)
	x0 := verifC01zcloneC(x)
	got := Implementation{}.Scnrm2(n, x, incX)
	verifC01zsameC(x, x0, "Scnrm2: x unchanged")
	var ss float32
	for i := 0; i < n; i++ {
		v := x0[i*incX]
		ss += real(v)*real(v) + imag(v)*imag(v)
	}
	verifAssert(got >= 0, "Scnrm2: result non-negative")
	verifC01eqF32(got*got, ss, "Scnrm2: r*r = sum |x[i]|^2 over addressed elements")
	verifReach("end")
}

// VerifC01_CL1NegInc: documented: Scasum and Scnrm2 return 0, Icamax returns -1, Zscal and Csscal
// have no effect when incX is negative; x is never written.
func VerifC01_CL1NegInc() {
	n := verifChoose("n", 0, 3)
	incX := -verifChoose("negIncX", 1, 2)
	slack := verifChoose("slack", 0, 1)
	x := verifComplex64s("x", verifC01vlen(n, incX, slack))
	alpha := complex(verifFloat32("alpha.re"), verifFloat32("alpha.im"))
	x0 := verifC01zcloneC(x)
	switch verifChoose("routine", 0, 4) {
	case 0:
		verifC01eqF32(Implementation{}.Scasum(n, x, incX), 0, "Scasum: 0 for negative increment")
	case 1:
		verifC01eqF32(Implementation{}.Scnrm2(n, x, incX), 0, "Scnrm2: 0 for negative increment")
	case 2:
		verifAssert(Implementation{}.Icamax(n, x, incX) == -1, "Icamax: -1 for negative increment")
	case 3:
		Implementation{}.Cscal(n, alpha, x, incX)
	default:
		Implementation{}.Csscal(n, real(alpha), x, incX)
	}
	verifC01zsameC(x, x0, "negative increment: x untouched")
	verifReach("end")
}

// VerifC01_Ccopy: y[i] = x[i] bit for bit on addressed elements; x and the rest of y unchanged.
func VerifC01_Ccopy() {
	n := verifChoose("n", 0, verifParam("l1n", 4))
	incX := verifC01inc("incX")
	incY := verifC01inc("incY")
	slack := verifChoose("slack", 0, 1)
	x := verifComplex64s("x", verifC01vlen(n, incX, slack))
	y := verifComplex64s("y", verifC01vlen(n, incY, slack))
	x0, y0 := verifC01zcloneC(x), verifC01zcloneC(y)
	Implementation{}.Ccopy(n, x, incX, y, incY)
	verifC01zsameC(x, x0, "Ccopy: x unchanged")
	want := verifC01zcloneC(y0)
	for i := 0; i < n; i++ {
		want[verifVecIdx(n, incY, i)] = x0[verifVecIdx(n, incX, i)]
	}
	verifC01zsameC(y, want, "Ccopy: y[i] = x[i] bit for bit on addressed elements, rest untouched")
	verifReach("end")
}

// VerifC01_Cswap: x[i], y[i] exchanged on addressed elements; everything else unchanged.
func VerifC01_Cswap() {
	n := verifChoose("n", 0, verifParam("l1n", 4))
	incX := verifC01inc("incX")
	incY := verifC01inc("incY")
	slack := verifChoose("slack", 0, 1)
	x := verifComplex64s("x", verifC01vlen(n, incX, slack))
	y := verifComplex64s("y", verifC01vlen(n, incY, slack))
	x0, y0 := verifC01zcloneC(x), verifC01zcloneC(y)
	Implementation{}.Cswap(n, x, incX, y, incY)
	wx, wy := verifC01zcloneC(x0), verifC01zcloneC(y0)
	for i := 0; i < n; i++ {
		ix, iy := verifVecIdx(n, incX, i), verifVecIdx(n, incY, i)
		wx[ix], wy[iy] = y0[iy], x0[ix]
	}
	verifC01zsameC(x, wx, "Cswap: x gets y bit for bit on addressed elements, rest untouched")
	verifC01zsameC(y, wy, "Cswap: y gets x bit for bit on addressed elements, rest untouched")
	verifReach("end")
}
