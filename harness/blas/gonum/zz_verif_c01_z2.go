package gonum

import (
	"math"

	"gonum.org/v1/gonum/blas"
)

// complex128 Level 2 / Level 3 routines not covered by zz_verif_c01_z.go.

const (
	verifC01kTri  = 0 // triangular: zero outside the referenced triangle, optional unit diagonal
	verifC01kHerm = 1 // Hermitian: mirrored conjugate, imaginary part of the diagonal ignored
	verifC01kSym  = 2 // symmetric: mirrored
)

// verifC01zdense expands a structured n x n complex matrix to a flat dense one. idx(i,j) is the
// storage index of element (i,j) of the referenced triangle (-1: outside the band).
func verifC01zdense(ul blas.Uplo, kind int, dg blas.Diag, n int, a []complex128, idx func(i, j int) int) []complex128 {
	d := make([]complex128, n*n)
	for i := 0; i < n; i++ {
		for j := 0; j < n; j++ {
			var v complex128
			if verifC01inTri(ul, i, j) {
				if p := idx(i, j); p >= 0 {
					v = a[p]
				}
			} else if kind != verifC01kTri {
				if p := idx(j, i); p >= 0 {
					v = a[p]
					if kind == verifC01kHerm {
						v = verifC01conj(v)
					}
				}
			}
			if i == j {
				switch {
				case kind == verifC01kHerm:
					v = complex(real(v), 0)
				case kind == verifC01kTri && dg == blas.Unit:
					v = 1
				}
			}
			d[i*n+j] = v
		}
	}
	return d
}

// op(D)[i][j] for a flat n x n complex matrix
func verifC01zopD(t blas.Transpose, d []complex128, n, i, j int) complex128 {
	switch t {
	case blas.NoTrans:
		return d[i*n+j]
	case blas.Trans:
		return d[j*n+i]
	}
	return verifC01conj(d[j*n+i])
}

// want = alpha*op(D)*x + beta*y on the addressed elements of y
func verifC01zmvRef(t blas.Transpose, n int, alpha complex128, d []complex128, x0 []complex128, incX int, beta complex128, y0 []complex128, incY int) []complex128 {
	want := verifC01zclone(y0)
	for i := 0; i < n; i++ {
		var s complex128
		for j := 0; j < n; j++ {
			s += verifC01zopD(t, d, n, i, j) * x0[verifVecIdx(n, incX, j)]
		}
		yi := verifVecIdx(n, incY, i)
		want[yi] = alpha*s + beta*y0[yi]
	}
	return want
}

func verifC01addressed(n, inc, p int) bool {
	return n > 0 && p%verifAbs(inc) == 0 && p/verifAbs(inc) < n
}

// ---- storage schemes: 0 dense, 1 band, 2 packed ----

type verifC01zstore struct {
	scheme  int
	ul      blas.Uplo
	n, k    int
	lda     int
	a       []complex128
	idx     func(i, j int) int
	diagIdx func(i int) int
}

func verifC01zmkStore(scheme int, ul blas.Uplo, n int) *verifC01zstore {
	st := &verifC01zstore{scheme: scheme, ul: ul, n: n}
	pad := verifChoose("pad", 0, 1)
	switch scheme {
	case 0:
		st.lda = verifC01ld(n, pad)
		la := pad
		if n > 0 {
			la = st.lda*(n-1) + n + pad
		}
		st.a = verifComplexes("a", la)
		st.idx = func(i, j int) int { return i*st.lda + j }
	case 1:
		st.k = verifChoose("k", 0, verifParam("zk", 1))
		st.lda = st.k + 1 + pad
		st.a = verifComplexes("a", verifC01bandLen(n, st.k, st.lda, pad))
		st.idx = func(i, j int) int { return verifC01bandIdx(ul, st.k, st.lda, i, j) }
	default:
		st.a = verifComplexes("ap", verifC01packedLen(n)+pad)
		st.idx = func(i, j int) int { return verifC01packedIdx(ul, n, i, j) }
	}
	return st
}

// ---- general band ----

// VerifC01_Zgbmv: y = alpha*op(A)*x + beta*y, A general band, op in {A, AT, AH}.
func VerifC01_Zgbmv() {
	maxN := verifParam("zn", 2)
	maxK := verifParam("zk", 1)
	tA := verifC01trans("trans")
	m := verifChoose("m", 0, maxN)
	n := verifChoose("n", 0, maxN)
	kL := verifChoose("kL", 0, maxK)
	kU := verifChoose("kU", 0, maxK)
	pad := verifChoose("pad", 0, 1)
	lda := kL + kU + 1 + pad
	incX := verifC01inc("incX")
	incY := verifC01inc("incY")
	rows := m
	if n+kL < rows {
		rows = n + kL
	}
	la := pad
	if m > 0 && n > 0 {
		la = lda*(rows-1) + kL + kU + 1 + pad
	}
	lenX, lenY := n, m
	if tA != blas.NoTrans {
		lenX, lenY = m, n
	}
	a := verifComplexes("a", la)
	x := verifComplexes("x", verifC01vlen(lenX, incX, pad))
	y := verifComplexes("y", verifC01vlen(lenY, incY, pad))
	alpha, beta := verifC01zscalars()
	a0, x0, y0 := verifC01zclone(a), verifC01zclone(x), verifC01zclone(y)
	Implementation{}.Zgbmv(tA, m, n, kL, kU, alpha, a, lda, x, incX, beta, y, incY)
	verifC01zsame(a, a0, "Zgbmv: A unchanged")
	verifC01zsame(x, x0, "Zgbmv: x unchanged")
	want := verifC01zclone(y0)
	for i := 0; i < lenY && m > 0 && n > 0; i++ {
		var s complex128
		for j := 0; j < lenX; j++ {
			r, c := i, j
			if tA != blas.NoTrans {
				r, c = j, i
			}
			if c-r <= kU && r-c <= kL {
				v := a0[r*lda+kL+c-r]
				if tA == blas.ConjTrans {
					v = verifC01conj(v)
				}
				s += v * x0[verifVecIdx(lenX, incX, j)]
			}
		}
		yi := verifVecIdx(lenY, incY, i)
		want[yi] = alpha*s + beta*y0[yi]
	}
	verifC01zeq(y, want, "Zgbmv: y = alpha*op(A)*x + beta*y on addressed elements, rest untouched")
	verifReach("end")
}

// ---- Hermitian matrix-vector: band and packed ----

func verifC01zhmv(name string, scheme int) {
	ul := verifC01uplo("uplo")
	n := verifChoose("n", 0, verifParam("zn", 2)+1)
	st := verifC01zmkStore(scheme, ul, n)
	incX := verifC01inc("incX")
	incY := verifC01inc("incY")
	slack := verifChoose("slack", 0, 1)
	x := verifComplexes("x", verifC01vlen(n, incX, slack))
	y := verifComplexes("y", verifC01vlen(n, incY, slack))
	alpha, beta := verifC01zscalars()
	a0, x0, y0 := verifC01zclone(st.a), verifC01zclone(x), verifC01zclone(y)
	if scheme == 1 {
		Implementation{}.Zhbmv(ul, n, st.k, alpha, st.a, st.lda, x, incX, beta, y, incY)
	} else {
		Implementation{}.Zhpmv(ul, n, alpha, st.a, x, incX, beta, y, incY)
	}
	verifC01zsame(st.a, a0, name+": A unchanged")
	verifC01zsame(x, x0, name+": x unchanged")
	d := verifC01zdense(ul, verifC01kHerm, blas.NonUnit, n, a0, st.idx)
	want := verifC01zmvRef(blas.NoTrans, n, alpha, d, x0, incX, beta, y0, incY)
	verifC01zeq(y, want, name+": y = alpha*A*x + beta*y on addressed elements, rest untouched")
	verifReach("end")
}

func VerifC01_Zhbmv() { verifC01zhmv("Zhbmv", 1) }
func VerifC01_Zhpmv() { verifC01zhmv("Zhpmv", 2) }

// ---- Hermitian rank updates: Zher2 (dense), Zhpr, Zhpr2 (packed) ----

// rank 1 (two == false): A += alpha*x*xH with real alpha; rank 2: A += alpha*x*yH + conj(alpha)*y*xH.
// Referenced triangle only; imaginary part of the diagonal set to zero; everything else
// untouched; BLAS quick return (alpha == 0) leaves A untouched.
func verifC01zhr(name string, scheme int, two bool) {
	ul := verifC01uplo("uplo")
	n := verifChoose("n", 0, verifParam("zn", 2)+1)
	st := verifC01zmkStore(scheme, ul, n)
	incX := verifC01inc("incX")
	incY := 1
	if two {
		incY = verifC01inc("incY")
	}
	slack := verifChoose("slack", 0, 1)
	x := verifComplexes("x", verifC01vlen(n, incX, slack))
	y := verifComplexes("y", verifC01vlen(n, incY, slack))
	alphaZero := verifChoose("alphaZero", 0, 1) == 1
	ar, ai := verifFloat("alpha.re"), verifFloat("alpha.im")
	if !two {
		ai = 0
	}
	if alphaZero {
		ar, ai = 0, 0
	} else {
		verifAssume(verifOr(ar != 0, ai != 0))
	}
	alpha := complex(ar, ai)
	a0, x0, y0 := verifC01zclone(st.a), verifC01zclone(x), verifC01zclone(y)
	switch {
	case scheme == 0 && two:
		Implementation{}.Zher2(ul, n, alpha, x, incX, y, incY, st.a, st.lda)
	case scheme == 2 && two:
		Implementation{}.Zhpr2(ul, n, alpha, x, incX, y, incY, st.a)
	default:
		Implementation{}.Zhpr(ul, n, ar, x, incX, st.a)
	}
	verifC01zsame(x, x0, name+": x unchanged")
	verifC01zsame(y, y0, name+": y unchanged")
	addr := make([]int, len(st.a)) // 0: not addressed, 1: off-diagonal, 2: diagonal
	want := verifC01zclone(a0)
	for i := 0; i < n && !alphaZero; i++ {
		for j := 0; j < n; j++ {
			if !verifC01inTri(ul, i, j) {
				continue
			}
			p := st.idx(i, j)
			xi, xj := x0[verifVecIdx(n, incX, i)], x0[verifVecIdx(n, incX, j)]
			var upd complex128
			if two {
				yi, yj := y0[verifVecIdx(n, incY, i)], y0[verifVecIdx(n, incY, j)]
				upd = alpha*xi*verifC01conj(yj) + verifC01conj(alpha)*yi*verifC01conj(xj)
			} else {
				upd = alpha * xi * verifC01conj(xj)
			}
			if i == j {
				addr[p] = 2
				want[p] = complex(real(a0[p])+real(upd), 0)
			} else {
				addr[p] = 1
				want[p] = a0[p] + upd
			}
		}
	}
	for p := range st.a {
		if addr[p] != 0 {
			verifAssertEqC(st.a[p], want[p], name+": referenced triangle updated, diagonal real")
		} else {
			verifAssert(verifC01zsameOne(st.a[p], a0[p]), name+": other triangle / padding / slack untouched")
		}
	}
	verifReach("end")
}

func VerifC01_Zher2() { verifC01zhr("Zher2", 0, true) }
func VerifC01_Zhpr()  { verifC01zhr("Zhpr", 2, false) }
func VerifC01_Zhpr2() { verifC01zhr("Zhpr2", 2, true) }

// ---- triangular matrix-vector products and solves: dense, band, packed ----

// verifC01z2solveDiag prepares the diagonal of a non-unit triangular solve of order n.
// n <= zsym (param, default 1): symbolic diagonal entries assumed non-zero (documented: no test for
// singularity). Larger n: the diagonal entries are fixed, pairwise different, non-real values
// 1+1i, 2-2i, 4+4i, ... (|d|^2 a power of two: Ztrsm multiplies by the concretely evaluated reciprocal
// 1/d, which must be exact for an exact-real oracle) while every other cell stays symbolic: a complex division by a
// symbolic value is (ac+bd)/(c^2+d^2), and op(A)*x_out == x_in with nested quotients of that kind
// costs z3 minutes per query from n == 2 on (Ztrsm m,n <= 2: 84 min of solver time); division by a
// constant keeps the obligations polynomial.
func verifC01z2solveDiag(n int, a []complex128, idx func(i, j int) int) {
	for i := 0; i < n; i++ {
		p := idx(i, i)
		if n <= verifParam("zsym", 1) {
			verifAssume(verifOr(real(a[p]) != 0, imag(a[p]) != 0))
			continue
		}
		re := float64(int(1) << uint(i))
		im := re
		if i%2 == 1 {
			im = -im
		}
		a[p] = complex(re, im)
	}
}

func verifC01ztr(name string, scheme int, solve bool) {
	ul := verifC01uplo("uplo")
	tA := verifC01trans("trans")
	dg := verifC01diag("diag")
	n := verifChoose("n", 0, verifParam("zn", 2)+1)
	st := verifC01zmkStore(scheme, ul, n)
	incX := verifC01inc("incX")
	slack := verifChoose("slack", 0, 1)
	x := verifComplexes("x", verifC01vlen(n, incX, slack))
	if solve && dg == blas.NonUnit {
		verifC01z2solveDiag(n, st.a, st.idx)
	}
	a0, x0 := verifC01zclone(st.a), verifC01zclone(x)
	im := Implementation{}
	switch {
	case scheme == 0 && !solve:
		im.Ztrmv(ul, tA, dg, n, st.a, st.lda, x, incX)
	case scheme == 0 && solve:
		im.Ztrsv(ul, tA, dg, n, st.a, st.lda, x, incX)
	case scheme == 1 && !solve:
		im.Ztbmv(ul, tA, dg, n, st.k, st.a, st.lda, x, incX)
	case scheme == 1 && solve:
		im.Ztbsv(ul, tA, dg, n, st.k, st.a, st.lda, x, incX)
	case scheme == 2 && !solve:
		im.Ztpmv(ul, tA, dg, n, st.a, x, incX)
	default:
		im.Ztpsv(ul, tA, dg, n, st.a, x, incX)
	}
	verifC01zsame(st.a, a0, name+": A unchanged")
	d := verifC01zdense(ul, verifC01kTri, dg, n, a0, st.idx)
	if !solve {
		want := verifC01zmvRef(tA, n, 1, d, x0, incX, 0, x0, incX)
		for p := range x {
			if verifC01addressed(n, incX, p) {
				verifAssertEqC(x[p], want[p], name+": x = op(A)*x")
			} else {
				verifAssert(verifC01zsameOne(x[p], x0[p]), name+": skipped slots / slack untouched")
			}
		}
	} else {
		back := verifC01zmvRef(tA, n, 1, d, x, incX, 0, x, incX) // op(A)*x_out
		for p := range x {
			if verifC01addressed(n, incX, p) {
				verifAssertEqC(back[p], x0[p], name+": op(A)*x_out = x_in")
			} else {
				verifAssert(verifC01zsameOne(x[p], x0[p]), name+": skipped slots / slack untouched")
			}
		}
	}
	verifReach("end")
}

func VerifC01_Ztrmv() { verifC01ztr("Ztrmv", 0, false) }
func VerifC01_Ztrsv() { verifC01ztr("Ztrsv", 0, true) }
func VerifC01_Ztbmv() { verifC01ztr("Ztbmv", 1, false) }
func VerifC01_Ztbsv() { verifC01ztr("Ztbsv", 1, true) }
func VerifC01_Ztpmv() { verifC01ztr("Ztpmv", 2, false) }
func VerifC01_Ztpsv() { verifC01ztr("Ztpsv", 2, true) }

// ---- Level 3 ----

// flat complex matrix helpers
func verifC01zmat(a []complex128, ld, rows, cols int) []complex128 {
	d := make([]complex128, rows*cols)
	for i := 0; i < rows; i++ {
		for j := 0; j < cols; j++ {
			d[i*cols+j] = a[i*ld+j]
		}
	}
	return d
}

// (m x k) * (k x n)
func verifC01zmm(m, n, k int, a, b []complex128) []complex128 {
	c := make([]complex128, m*n)
	for i := 0; i < m; i++ {
		for j := 0; j < n; j++ {
			var s complex128
			for l := 0; l < k; l++ {
				s += a[i*k+l] * b[l*n+j]
			}
			c[i*n+j] = s
		}
	}
	return c
}

// op applied to a flat r x c matrix: result is r x c (NoTrans) or c x r
func verifC01zopMat(t blas.Transpose, d []complex128, r, c int) []complex128 {
	if t == blas.NoTrans {
		return d
	}
	o := make([]complex128, r*c)
	for i := 0; i < r; i++ {
		for j := 0; j < c; j++ {
			v := d[i*c+j]
			if t == blas.ConjTrans {
				v = verifC01conj(v)
			}
			o[j*r+i] = v
		}
	}
	return o
}

func verifC01zdenseIdx(lda int) func(i, j int) int {
	return func(i, j int) int { return i*lda + j }
}

// VerifC01_Zhemm / Zsymm: C = alpha*A*B + beta*C (Left) or alpha*B*A + beta*C (Right).
func verifC01zxxmm(name string, kind int) {
	maxN := verifParam("zn", 2)
	s := verifC01side("side")
	ul := verifC01uplo("uplo")
	m := verifChoose("m", 0, maxN)
	n := verifChoose("n", 0, maxN)
	padA, padB, padC := verifC01pads3()
	ka := n
	if s == blas.Left {
		ka = m
	}
	lda, ldb, ldc := verifC01ld(ka, padA), verifC01ld(n, padB), verifC01ld(n, padC)
	a := verifComplexes("a", verifC01mlen(ka, ka, lda, padA))
	b := verifComplexes("b", verifC01mlen(m, n, ldb, padB))
	c := verifComplexes("c", verifC01mlen(m, n, ldc, padC))
	alpha, beta := verifC01zscalars()
	a0, b0, c0 := verifC01zclone(a), verifC01zclone(b), verifC01zclone(c)
	if kind == verifC01kHerm {
		Implementation{}.Zhemm(s, ul, m, n, alpha, a, lda, b, ldb, beta, c, ldc)
	} else {
		Implementation{}.Zsymm(s, ul, m, n, alpha, a, lda, b, ldb, beta, c, ldc)
	}
	verifC01zsame(a, a0, name+": A unchanged")
	verifC01zsame(b, b0, name+": B unchanged")
	var ab []complex128
	if m > 0 && n > 0 {
		d := verifC01zdense(ul, kind, blas.NonUnit, ka, a0, verifC01zdenseIdx(lda))
		bm := verifC01zmat(b0, ldb, m, n)
		if s == blas.Left {
			ab = verifC01zmm(m, n, m, d, bm)
		} else {
			ab = verifC01zmm(m, n, n, bm, d)
		}
	}
	for p := range c {
		i, j := p/ldc, p%ldc
		if n > 0 && i < m && j < n {
			verifAssertEqC(c[p], alpha*ab[i*n+j]+beta*c0[p], name+": C = alpha*A*B + beta*C resp. alpha*B*A + beta*C")
		} else {
			verifAssert(verifC01zsameOne(c[p], c0[p]), name+": padding / slack untouched")
		}
	}
	verifReach("end")
}

func VerifC01_Zhemm() { verifC01zxxmm("Zhemm", verifC01kHerm) }
func VerifC01_Zsymm() { verifC01zxxmm("Zsymm", verifC01kSym) }

// verifC01zr2k: rank-k / rank-2k updates of the referenced triangle of C.
//
//	which 0: Zsyrk  C = alpha*op(A)*op(A)T + beta*C                      (trans N/T)
//	which 1: Zsyr2k C = alpha*op(A)*op(B)T + alpha*op(B)*op(A)T + beta*C (trans N/T)
//	which 2: Zher2k C = alpha*op(A)*op(B)H + conj(alpha)*op(B)*op(A)H + beta*C (trans N/C, beta real,
//	         diagonal of C real; BLAS quick return (alpha==0||k==0)&&beta==1 leaves C untouched)
func verifC01zr2k(name string, which int) {
	maxN := verifParam("zn", 2)
	ul := verifC01uplo("uplo")
	tA := blas.NoTrans
	if verifChoose("trans", 0, 1) == 1 {
		tA = blas.Trans
		if which == 2 {
			tA = blas.ConjTrans
		}
	}
	n := verifChoose("n", 0, maxN)
	k := verifChoose("k", 0, maxN)
	padA, padB, padC := verifC01pads3()
	ra, ca := n, k
	if tA != blas.NoTrans {
		ra, ca = k, n
	}
	lda, ldb, ldc := verifC01ld(ca, padA), verifC01ld(ca, padB), verifC01ld(n, padC)
	a := verifComplexes("a", verifC01mlen(ra, ca, lda, padA))
	b := verifComplexes("b", verifC01mlen(ra, ca, ldb, padB))
	c := verifComplexes("c", verifC01mlen(n, n, ldc, padC))
	alpha, beta := verifC01zscalars()
	if which == 2 {
		beta = complex(real(beta), 0)
	}
	a0, b0, c0 := verifC01zclone(a), verifC01zclone(b), verifC01zclone(c)
	switch which {
	case 0:
		Implementation{}.Zsyrk(ul, tA, n, k, alpha, a, lda, beta, c, ldc)
	case 1:
		Implementation{}.Zsyr2k(ul, tA, n, k, alpha, a, lda, b, ldb, beta, c, ldc)
	default:
		Implementation{}.Zher2k(ul, tA, n, k, alpha, a, lda, b, ldb, real(beta), c, ldc)
	}
	verifC01zsame(a, a0, name+": A unchanged")
	verifC01zsame(b, b0, name+": B unchanged")
	if which == 2 && (alpha == 0 || k == 0) && beta == 1 {
		verifC01zsame(c, c0, name+": quick return leaves C untouched")
		verifReach("end")
		return
	}
	// op(A), op(B): n x k
	var opA, opB []complex128
	if n > 0 && k > 0 {
		opA = verifC01zopMat(tA, verifC01zmat(a0, lda, ra, ca), ra, ca)
		opB = verifC01zopMat(tA, verifC01zmat(b0, ldb, ra, ca), ra, ca)
	}
	second := blas.Trans // (.)T for the symmetric updates, (.)H for the Hermitian one
	if which == 2 {
		second = blas.ConjTrans
	}
	for p := range c {
		i, j := p/ldc, p%ldc
		if i < n && j < n && verifC01inTri(ul, i, j) {
			var s1, s2 complex128
			for l := 0; l < k; l++ {
				ail, ajl, bil, bjl := opA[i*k+l], opA[j*k+l], opB[i*k+l], opB[j*k+l]
				if second == blas.ConjTrans {
					ajl, bjl = verifC01conj(ajl), verifC01conj(bjl)
				}
				switch which {
				case 0:
					s1 += ail * ajl
				default:
					s1 += ail * bjl
					s2 += bil * ajl
				}
			}
			cij := c0[p]
			var want complex128
			switch which {
			case 0:
				want = alpha*s1 + beta*cij
			case 1:
				want = alpha*s1 + alpha*s2 + beta*cij
			default:
				if i == j {
					cij = complex(real(cij), 0)
				}
				want = alpha*s1 + verifC01conj(alpha)*s2 + beta*cij
				if i == j {
					want = complex(real(want), 0)
				}
			}
			verifAssertEqC(c[p], want, name+": referenced triangle of C holds the rank-k update")
		} else {
			verifAssert(verifC01zsameOne(c[p], c0[p]), name+": other triangle / padding / slack untouched")
		}
	}
	verifReach("end")
}

func VerifC01_Zsyrk()  { verifC01zr2k("Zsyrk", 0) }
func VerifC01_Zsyr2k() { verifC01zr2k("Zsyr2k", 1) }
func VerifC01_Zher2k() { verifC01zr2k("Zher2k", 2) }

// VerifC01_Ztrmm / Ztrsm: B = alpha*op(A)*B resp. alpha*B*op(A); op(A)*X = alpha*B resp. X*op(A) = alpha*B.
func verifC01ztrm(name string, solve bool) {
	maxN := verifParam("zn", 2)
	s := verifC01side("side")
	ul := verifC01uplo("uplo")
	tA := verifC01trans("trans")
	dg := verifC01diag("diag")
	m := verifChoose("m", 0, maxN)
	n := verifChoose("n", 0, maxN)
	padA, padB := verifChoose("padA", 0, 1), verifChoose("padB", 0, 1)
	ka := n
	if s == blas.Left {
		ka = m
	}
	lda, ldb := verifC01ld(ka, padA), verifC01ld(n, padB)
	a := verifComplexes("a", verifC01mlen(ka, ka, lda, padA))
	b := verifComplexes("b", verifC01mlen(m, n, ldb, padB))
	alpha := verifC01zalpha()
	if solve && dg == blas.NonUnit && m > 0 && n > 0 {
		verifC01z2solveDiag(ka, a, verifC01zdenseIdx(lda))
	}
	a0, b0 := verifC01zclone(a), verifC01zclone(b)
	if solve {
		Implementation{}.Ztrsm(s, ul, tA, dg, m, n, alpha, a, lda, b, ldb)
	} else {
		Implementation{}.Ztrmm(s, ul, tA, dg, m, n, alpha, a, lda, b, ldb)
	}
	verifC01zsame(a, a0, name+": A unchanged")
	var prod []complex128 // op(A)*M resp. M*op(A), M = B_in (product) or X_out (solve)
	if m > 0 && n > 0 {
		d := verifC01zopMat(tA, verifC01zdense(ul, verifC01kTri, dg, ka, a0, verifC01zdenseIdx(lda)), ka, ka)
		src := b0
		if solve {
			src = b
		}
		mm := verifC01zmat(src, ldb, m, n)
		if s == blas.Left {
			prod = verifC01zmm(m, n, m, d, mm)
		} else {
			prod = verifC01zmm(m, n, n, mm, d)
		}
	}
	for p := range b {
		i, j := p/ldb, p%ldb
		if n > 0 && i < m && j < n {
			if solve {
				verifAssertEqC(prod[i*n+j], alpha*b0[p], name+": op(A)*X = alpha*B resp. X*op(A) = alpha*B")
			} else {
				verifAssertEqC(b[p], alpha*prod[i*n+j], name+": B = alpha*op(A)*B resp. alpha*B*op(A)")
			}
		} else {
			verifAssert(verifC01zsameOne(b[p], b0[p]), name+": padding / slack untouched")
		}
	}
	verifReach("end")
}

func VerifC01_Ztrmm() { verifC01ztrm("Ztrmm", false) }
func VerifC01_Ztrsm() { verifC01ztrm("Ztrsm", true) }

// ---- Level 1: Dzasum, Dznrm2, Izamax, Zcopy, Zswap ----

// |Re z| + |Im z| (the BLAS "cabs1")
func verifC01z2abs1(z complex128) float64 {
	return verifC01z2absF(real(z)) + verifC01z2absF(imag(z))
}

func verifC01z2absF(x float64) float64 {
	return verifIteF(x < 0, -x, x)
}

// verifC01z2finite: the cells are finite values of their type. In model R a symbolic value is an
// arbitrary real number; code that tests against the largest finite value (math32.IsInf in Scnrm2 is
// f > MaxFloat32) needs the range stated.
func verifC01z2finite(x []complex128) {
	for _, v := range x {
		verifAssume(verifAnd(real(v) <= math.MaxFloat64, real(v) >= -math.MaxFloat64))
		verifAssume(verifAnd(imag(v) <= math.MaxFloat64, imag(v) >= -math.MaxFloat64))
	}
}

// VerifC01_Dzasum: result = sum |Re x[i]| + |Im x[i]| over addressed elements; x unchanged.
// (n <= zl1n: math32.Abs forks three ways per call, the complex64 twin has 9^n paths.)
func VerifC01_Dzasum() {
	n := verifChoose("n", 0, verifParam("zl1n", 3))
	incX := verifC01posinc("incX")
	slack := verifChoose("slack", 0, 1)
	x := verifComplexes("x", verifC01vlen(n, incX, slack))
	x0 := verifC01zclone(x)
	got := Implementation{}.Dzasum(n, x, incX)
	verifC01zsame(x, x0, "Dzasum: x unchanged")
	var want float64
	for i := 0; i < n; i++ {
		want += verifC01z2abs1(x0[i*incX])
	}
	verifAssertEqF(got, want, "Dzasum: sum of |Re|+|Im| over addressed elements")
	verifReach("end")
}

// VerifC01_Izamax: first index of the maximum |Re x[i]|+|Im x[i]| over addressed elements; -1 for n == 0.
func VerifC01_Izamax() {
	n := verifChoose("n", 0, verifParam("zl1n", 3))
	incX := verifC01posinc("incX")
	slack := verifChoose("slack", 0, 1)
	x := verifComplexes("x", verifC01vlen(n, incX, slack))
	x0 := verifC01zclone(x)
	got := Implementation{}.Izamax(n, x, incX)
	verifC01zsame(x, x0, "Izamax: x unchanged")
	if n == 0 {
		verifAssert(got == -1, "Izamax: -1 for n == 0")
		verifReach("end")
		return
	}
	verifAssert(verifAnd(got >= 0, got < n), "Izamax: index in range")
	for i := 0; i < n; i++ {
		if got == i { // fork on the result; at most n feasible values
			g := verifC01z2abs1(x0[i*incX])
			for j := 0; j < n; j++ {
				a := verifC01z2abs1(x0[j*incX])
				verifAssert(a <= g, "Izamax: |Re|+|Im| of x[idx] is the maximum")
				if j < i {
					verifAssert(a < g, "Izamax: earliest index among ties")
				}
			}
		}
	}
	verifReach("end")
}

// VerifC01_Dznrm2: r >= 0 and r*r == sum Re(x[i])^2+Im(x[i])^2 over addressed elements (exact reals).
func VerifC01_Dznrm2() {
	n := verifChoose("n", 0, verifParam("znrm2n", 1))
	incX := verifC01posinc("incX")
	slack := verifChoose("slack", 0, 1)
	x := verifComplexes("x", verifC01vlen(n, incX, slack))
	verifC01z2finite(x)
	x0 := verifC01zclone(x)
	got := Implementation{}.Dznrm2(n, x, incX)
	verifC01zsame(x, x0, "Dznrm2: x unchanged")
	var ss float64
	for i := 0; i < n; i++ {
		v := x0[i*incX]
		ss += real(v)*real(v) + imag(v)*imag(v)
	}
	verifAssert(got >= 0, "Dznrm2: result non-negative")
	verifAssertEqF(got*got, ss, "Dznrm2: r*r = sum |x[i]|^2 over addressed elements")
	verifReach("end")
}

// VerifC01_ZL1NegInc: documented: Dzasum and Dznrm2 return 0, Izamax returns -1, Zscal and Zdscal
// have no effect when incX is negative; x is never written.
func VerifC01_ZL1NegInc() {
	n := verifChoose("n", 0, 3)
	incX := -verifChoose("negIncX", 1, 2)
	slack := verifChoose("slack", 0, 1)
	x := verifComplexes("x", verifC01vlen(n, incX, slack))
	alpha := complex(verifFloat("alpha.re"), verifFloat("alpha.im"))
	x0 := verifC01zclone(x)
	switch verifChoose("routine", 0, 4) {
	case 0:
		verifAssertEqF(Implementation{}.Dzasum(n, x, incX), 0, "Dzasum: 0 for negative increment")
	case 1:
		verifAssertEqF(Implementation{}.Dznrm2(n, x, incX), 0, "Dznrm2: 0 for negative increment")
	case 2:
		verifAssert(Implementation{}.Izamax(n, x, incX) == -1, "Izamax: -1 for negative increment")
	case 3:
		Implementation{}.Zscal(n, alpha, x, incX)
	default:
		Implementation{}.Zdscal(n, real(alpha), x, incX)
	}
	verifC01zsame(x, x0, "negative increment: x untouched")
	verifReach("end")
}

// VerifC01_Zcopy: y[i] = x[i] bit for bit on addressed elements; x and the rest of y unchanged.
func VerifC01_Zcopy() {
	n := verifChoose("n", 0, verifParam("l1n", 4))
	incX := verifC01inc("incX")
	incY := verifC01inc("incY")
	slack := verifChoose("slack", 0, 1)
	x := verifComplexes("x", verifC01vlen(n, incX, slack))
	y := verifComplexes("y", verifC01vlen(n, incY, slack))
	x0, y0 := verifC01zclone(x), verifC01zclone(y)
	Implementation{}.Zcopy(n, x, incX, y, incY)
	verifC01zsame(x, x0, "Zcopy: x unchanged")
	want := verifC01zclone(y0)
	for i := 0; i < n; i++ {
		want[verifVecIdx(n, incY, i)] = x0[verifVecIdx(n, incX, i)]
	}
	verifC01zsame(y, want, "Zcopy: y[i] = x[i] bit for bit on addressed elements, rest untouched")
	verifReach("end")
}

// VerifC01_Zswap: x[i], y[i] exchanged on addressed elements; everything else unchanged.
func VerifC01_Zswap() {
	n := verifChoose("n", 0, verifParam("l1n", 4))
	incX := verifC01inc("incX")
	incY := verifC01inc("incY")
	slack := verifChoose("slack", 0, 1)
	x := verifComplexes("x", verifC01vlen(n, incX, slack))
	y := verifComplexes("y", verifC01vlen(n, incY, slack))
	x0, y0 := verifC01zclone(x), verifC01zclone(y)
	Implementation{}.Zswap(n, x, incX, y, incY)
	wx, wy := verifC01zclone(x0), verifC01zclone(y0)
	for i := 0; i < n; i++ {
		ix, iy := verifVecIdx(n, incX, i), verifVecIdx(n, incY, i)
		wx[ix], wy[iy] = y0[iy], x0[ix]
	}
	verifC01zsame(x, wx, "Zswap: x gets y bit for bit on addressed elements, rest untouched")
	verifC01zsame(y, wy, "Zswap: y gets x bit for bit on addressed elements, rest untouched")
	verifReach("end")
}
