package gonum

import "gonum.org/v1/gonum/blas"

// complex128 counterparts of a representative subset of the C01 harnesses.

func verifC01zclone(s []complex128) []complex128 { return append([]complex128(nil), s...) }

func verifC01zsameOne(a, b complex128) bool {
	return verifAnd(verifSame(real(a), real(b)), verifSame(imag(a), imag(b)))
}

func verifC01zsame(got, want []complex128, msg string) {
	for i := range got {
		verifAssert(verifC01zsameOne(got[i], want[i]), msg)
	}
}

func verifC01zeq(got, want []complex128, msg string) {
	for i := range got {
		verifAssertEqC(got[i], want[i], msg)
	}
}

func verifC01conj(z complex128) complex128 { return complex(real(z), -imag(z)) }

func verifC01zscalars() (alpha, beta complex128) {
	alpha = complex(verifFloat("alpha.re"), verifFloat("alpha.im"))
	beta = complex(verifFloat("beta.re"), verifFloat("beta.im"))
	switch verifChoose("alphabeta", 0, 4) {
	case 1:
		alpha = 0
	case 2:
		beta = 0
	case 3:
		beta = 1
	case 4:
		alpha, beta = 0, 1
	}
	return alpha, beta
}

func verifC01zalpha() complex128 {
	if verifChoose("alphaZero", 0, 1) == 1 {
		return 0
	}
	return complex(verifFloat("alpha.re"), verifFloat("alpha.im"))
}

// op(A)[i][j] of a rows x cols dense matrix
func verifC01zop(t blas.Transpose, a []complex128, lda, i, j int) complex128 {
	switch t {
	case blas.NoTrans:
		return a[i*lda+j]
	case blas.Trans:
		return a[j*lda+i]
	}
	return verifC01conj(a[j*lda+i])
}

// VerifC01_Zaxpy: y[i] += alpha*x[i].
func VerifC01_Zaxpy() {
	n := verifChoose("n", 0, verifParam("l1n", 4)-1)
	incX := verifC01inc("incX")
	incY := verifC01inc("incY")
	slack := verifChoose("slack", 0, 1)
	x := verifComplexes("x", verifC01vlen(n, incX, slack))
	y := verifComplexes("y", verifC01vlen(n, incY, slack))
	alpha := verifC01zalpha()
	x0, y0 := verifC01zclone(x), verifC01zclone(y)
	Implementation{}.Zaxpy(n, alpha, x, incX, y, incY)
	verifC01zsame(x, x0, "Zaxpy: x unchanged")
	want := verifC01zclone(y0)
	for i := 0; i < n; i++ {
		iy := verifVecIdx(n, incY, i)
		want[iy] = y0[iy] + alpha*x0[verifVecIdx(n, incX, i)]
	}
	verifC01zeq(y, want, "Zaxpy: y += alpha*x on addressed elements, rest untouched")
	for i := range y {
		if n == 0 || i%verifAbs(incY) != 0 || i/verifAbs(incY) >= n {
			verifAssert(verifC01zsameOne(y[i], y0[i]), "Zaxpy: skipped slots / slack untouched")
		}
	}
	verifReach("end")
}

// VerifC01_Zdot: Zdotu = sum x[i]*y[i], Zdotc = sum conj(x[i])*y[i].
func VerifC01_Zdot() {
	n := verifChoose("n", 0, verifParam("l1n", 4)-1)
	incX := verifC01inc("incX")
	incY := verifC01inc("incY")
	slack := verifChoose("slack", 0, 1)
	conj := verifChoose("conj", 0, 1) == 1
	x := verifComplexes("x", verifC01vlen(n, incX, slack))
	y := verifComplexes("y", verifC01vlen(n, incY, slack))
	x0, y0 := verifC01zclone(x), verifC01zclone(y)
	var got complex128
	if conj {
		got = Implementation{}.Zdotc(n, x, incX, y, incY)
	} else {
		got = Implementation{}.Zdotu(n, x, incX, y, incY)
	}
	verifC01zsame(x, x0, "Zdot: x unchanged")
	verifC01zsame(y, y0, "Zdot: y unchanged")
	var want complex128
	for i := 0; i < n; i++ {
		xi := x0[verifVecIdx(n, incX, i)]
		if conj {
			xi = verifC01conj(xi)
		}
		want += xi * y0[verifVecIdx(n, incY, i)]
	}
	verifAssertEqC(got, want, "Zdotu/Zdotc: sum of (conjugated) products of addressed elements")
	verifReach("end")
}

// VerifC01_Zscal: x[i] *= alpha (complex alpha: Zscal; real alpha: Zdscal).
func VerifC01_Zscal() {
	n := verifChoose("n", 0, verifParam("l1n", 4))
	incX := verifC01posinc("incX")
	slack := verifChoose("slack", 0, 1)
	realAlpha := verifChoose("realAlpha", 0, 1) == 1
	x := verifComplexes("x", verifC01vlen(n, incX, slack))
	ar, ai := verifFloat("alpha.re"), verifFloat("alpha.im")
	switch verifChoose("alphaKind", 0, 2) {
	case 1:
		ar, ai = 0, 0
	case 2:
		ar, ai = 1, 0
	}
	if realAlpha {
		ai = 0
	}
	x0 := verifC01zclone(x)
	if realAlpha {
		Implementation{}.Zdscal(n, ar, x, incX)
	} else {
		Implementation{}.Zscal(n, complex(ar, ai), x, incX)
	}
	want := verifC01zclone(x0)
	for i := 0; i < n; i++ {
		want[i*incX] = complex(ar, ai) * x0[i*incX]
	}
	verifC01zeq(x, want, "Zscal/Zdscal: x = alpha*x on addressed elements, rest untouched")
	for i := range x {
		if n == 0 || i%incX != 0 || i/incX >= n {
			verifAssert(verifC01zsameOne(x[i], x0[i]), "Zscal/Zdscal: unaddressed slot untouched")
		}
	}
	verifReach("end")
}

// VerifC01_Zgemv: y = alpha*op(A)*x + beta*y, op in {A, AT, AH}.
func VerifC01_Zgemv() {
	maxN := verifParam("zn", 2)
	tA := verifC01trans("trans")
	m := verifChoose("m", 0, maxN)
	n := verifChoose("n", 0, maxN)
	lda := verifC01lda(n)
	incX := verifC01inc("incX")
	incY := verifC01inc("incY")
	slack := verifChoose("slack", 0, 1)
	lenX, lenY := n, m
	if tA != blas.NoTrans {
		lenX, lenY = m, n
	}
	la := slack
	if m > 0 {
		la = lda*(m-1) + n + slack
	}
	a := verifComplexes("a", la)
	x := verifComplexes("x", verifC01vlen(lenX, incX, slack))
	y := verifComplexes("y", verifC01vlen(lenY, incY, slack))
	alpha, beta := verifC01zscalars()
	a0, x0, y0 := verifC01zclone(a), verifC01zclone(x), verifC01zclone(y)
	Implementation{}.Zgemv(tA, m, n, alpha, a, lda, x, incX, beta, y, incY)
	verifC01zsame(a, a0, "Zgemv: A unchanged")
	verifC01zsame(x, x0, "Zgemv: x unchanged")
	want := verifC01zclone(y0)
	for i := 0; i < lenY && m > 0 && n > 0; i++ {
		var s complex128
		for j := 0; j < lenX; j++ {
			s += verifC01zop(tA, a0, lda, i, j) * x0[verifVecIdx(lenX, incX, j)]
		}
		yi := verifVecIdx(lenY, incY, i)
		want[yi] = alpha*s + beta*y0[yi]
	}
	verifC01zeq(y, want, "Zgemv: y = alpha*op(A)*x + beta*y on addressed elements, rest untouched")
	for i := range y {
		if m == 0 || n == 0 || i%verifAbs(incY) != 0 || i/verifAbs(incY) >= lenY {
			verifAssert(verifC01zsameOne(y[i], y0[i]), "Zgemv: skipped slots / slack untouched")
		}
	}
	verifReach("end")
}

// VerifC01_Zger: A += alpha*x*yT (Zgeru) or alpha*x*yH (Zgerc).
func VerifC01_Zger() {
	maxN := verifParam("zn", 2)
	conj := verifChoose("conj", 0, 1) == 1
	m := verifChoose("m", 0, maxN)
	n := verifChoose("n", 0, maxN)
	lda := verifC01lda(n)
	incX := verifC01inc("incX")
	incY := verifC01inc("incY")
	slack := verifChoose("slack", 0, 1)
	la := slack
	if m > 0 {
		la = lda*(m-1) + n + slack
	}
	a := verifComplexes("a", la)
	x := verifComplexes("x", verifC01vlen(m, incX, slack))
	y := verifComplexes("y", verifC01vlen(n, incY, slack))
	alpha := verifC01zalpha()
	a0, x0, y0 := verifC01zclone(a), verifC01zclone(x), verifC01zclone(y)
	if conj {
		Implementation{}.Zgerc(m, n, alpha, x, incX, y, incY, a, lda)
	} else {
		Implementation{}.Zgeru(m, n, alpha, x, incX, y, incY, a, lda)
	}
	verifC01zsame(x, x0, "Zger: x unchanged")
	verifC01zsame(y, y0, "Zger: y unchanged")
	for p := range a {
		i, j := p/lda, p%lda
		if i < m && j < n {
			yj := y0[verifVecIdx(n, incY, j)]
			if conj {
				yj = verifC01conj(yj)
			}
			verifAssertEqC(a[p], a0[p]+alpha*x0[verifVecIdx(m, incX, i)]*yj, "Zgeru/Zgerc: A += alpha*x*y^T/H")
		} else {
			verifAssert(verifC01zsameOne(a[p], a0[p]), "Zgeru/Zgerc: padding / slack untouched")
		}
	}
	verifReach("end")
}

// hermitian matrix from the referenced triangle; imaginary parts of the diagonal are ignored
func verifC01denseHerm(ul blas.Uplo, n int, a []complex128, lda int) []complex128 {
	d := make([]complex128, n*n)
	for i := 0; i < n; i++ {
		for j := 0; j < n; j++ {
			switch {
			case i == j:
				d[i*n+j] = complex(real(a[i*lda+i]), 0)
			case verifC01inTri(ul, i, j):
				d[i*n+j] = a[i*lda+j]
			default:
				d[i*n+j] = verifC01conj(a[j*lda+i])
			}
		}
	}
	return d
}

// VerifC01_Zhemv: y = alpha*A*x + beta*y, A Hermitian given by one triangle.
func VerifC01_Zhemv() {
	ul := verifC01uplo("uplo")
	n := verifChoose("n", 0, verifParam("zn", 2)+1)
	lda := verifC01lda(n)
	incX := verifC01inc("incX")
	incY := verifC01inc("incY")
	slack := verifChoose("slack", 0, 1)
	la := slack
	if n > 0 {
		la = lda*(n-1) + n + slack
	}
	a := verifComplexes("a", la)
	x := verifComplexes("x", verifC01vlen(n, incX, slack))
	y := verifComplexes("y", verifC01vlen(n, incY, slack))
	alpha, beta := verifC01zscalars()
	a0, x0, y0 := verifC01zclone(a), verifC01zclone(x), verifC01zclone(y)
	Implementation{}.Zhemv(ul, n, alpha, a, lda, x, incX, beta, y, incY)
	verifC01zsame(a, a0, "Zhemv: A unchanged")
	verifC01zsame(x, x0, "Zhemv: x unchanged")
	d := verifC01denseHerm(ul, n, a0, lda)
	want := verifC01zclone(y0)
	for i := 0; i < n; i++ {
		var s complex128
		for j := 0; j < n; j++ {
			s += d[i*n+j] * x0[verifVecIdx(n, incX, j)]
		}
		yi := verifVecIdx(n, incY, i)
		want[yi] = alpha*s + beta*y0[yi]
	}
	verifC01zeq(y, want, "Zhemv: y = alpha*A*x + beta*y on addressed elements, rest untouched")
	verifReach("end")
}

// VerifC01_Zher: referenced triangle of A += alpha*x*xH (alpha real); imaginary parts of the
// diagonal are set to zero (documented) unless the call returns early (n == 0 or alpha == 0).
func VerifC01_Zher() {
	ul := verifC01uplo("uplo")
	n := verifChoose("n", 0, verifParam("zn", 2)+1)
	lda := verifC01lda(n)
	incX := verifC01inc("incX")
	slack := verifChoose("slack", 0, 1)
	la := slack
	if n > 0 {
		la = lda*(n-1) + n + slack
	}
	a := verifComplexes("a", la)
	x := verifComplexes("x", verifC01vlen(n, incX, slack))
	alphaZero := verifChoose("alphaZero", 0, 1) == 1
	alpha := verifFloat("alpha")
	if alphaZero {
		alpha = 0
	} else {
		verifAssume(alpha != 0)
	}
	a0, x0 := verifC01zclone(a), verifC01zclone(x)
	Implementation{}.Zher(ul, n, alpha, x, incX, a, lda)
	verifC01zsame(x, x0, "Zher: x unchanged")
	for p := range a {
		i, j := p/lda, p%lda
		if !alphaZero && i < n && j < n && verifC01inTri(ul, i, j) {
			xi, xj := x0[verifVecIdx(n, incX, i)], x0[verifVecIdx(n, incX, j)]
			upd := complex(alpha, 0) * xi * verifC01conj(xj)
			if i == j {
				verifAssertEqC(a[p], complex(real(a0[p])+real(upd), 0), "Zher: diagonal += alpha*|x_i|^2, imaginary part zero")
			} else {
				verifAssertEqC(a[p], a0[p]+upd, "Zher: triangle += alpha*x*xH")
			}
		} else {
			verifAssert(verifC01zsameOne(a[p], a0[p]), "Zher: other triangle / padding / slack untouched")
		}
	}
	verifReach("end")
}

// VerifC01_Zgemm: C = alpha*op(A)*op(B) + beta*C with op in {X, XT, XH} for both operands.
func VerifC01_Zgemm() {
	maxN := verifParam("zn", 2)
	tA := verifC01trans("transA")
	tB := verifC01trans("transB")
	m := verifChoose("m", 0, maxN)
	n := verifChoose("n", 0, maxN)
	k := verifChoose("k", 0, maxN)
	padA, padB, padC := verifC01pads3()
	ra, ca := m, k
	if tA != blas.NoTrans {
		ra, ca = k, m
	}
	rb, cb := k, n
	if tB != blas.NoTrans {
		rb, cb = n, k
	}
	lda, ldb, ldc := verifC01ld(ca, padA), verifC01ld(cb, padB), verifC01ld(n, padC)
	a := verifComplexes("a", verifC01mlen(ra, ca, lda, padA))
	b := verifComplexes("b", verifC01mlen(rb, cb, ldb, padB))
	c := verifComplexes("c", verifC01mlen(m, n, ldc, padC))
	alpha, beta := verifC01zscalars()
	a0, b0, c0 := verifC01zclone(a), verifC01zclone(b), verifC01zclone(c)
	Implementation{}.Zgemm(tA, tB, m, n, k, alpha, a, lda, b, ldb, beta, c, ldc)
	verifC01zsame(a, a0, "Zgemm: A unchanged")
	verifC01zsame(b, b0, "Zgemm: B unchanged")
	for p := range c {
		i, j := p/ldc, p%ldc
		if n > 0 && i < m && j < n {
			var s complex128
			for l := 0; l < k; l++ {
				s += verifC01zop(tA, a0, lda, i, l) * verifC01zop(tB, b0, ldb, l, j)
			}
			verifAssertEqC(c[p], alpha*s+beta*c0[p], "Zgemm: C = alpha*op(A)*op(B) + beta*C")
		} else {
			verifAssert(verifC01zsameOne(c[p], c0[p]), "Zgemm: padding / slack untouched")
		}
	}
	verifReach("end")
}

// VerifC01_Zherk: referenced triangle of C = alpha*A*AH + beta*C (NoTrans) or alpha*AH*A + beta*C
// (ConjTrans), alpha and beta real; imaginary parts of the diagonal of C are set to zero.
func VerifC01_Zherk() {
	maxN := verifParam("zn", 2)
	ul := verifC01uplo("uplo")
	tA := blas.NoTrans
	if verifChoose("trans", 0, 1) == 1 {
		tA = blas.ConjTrans
	}
	n := verifChoose("n", 0, maxN)
	k := verifChoose("k", 0, maxN)
	padA, padC := verifChoose("padA", 0, 1), verifChoose("padC", 0, 1)
	ra, ca := n, k
	if tA != blas.NoTrans {
		ra, ca = k, n
	}
	lda, ldc := verifC01ld(ca, padA), verifC01ld(n, padC)
	a := verifComplexes("a", verifC01mlen(ra, ca, lda, padA))
	c := verifComplexes("c", verifC01mlen(n, n, ldc, padC))
	alpha, beta := verifC01alphabeta()
	a0, c0 := verifC01zclone(a), verifC01zclone(c)
	Implementation{}.Zherk(ul, tA, n, k, alpha, a, lda, beta, c, ldc)
	verifC01zsame(a, a0, "Zherk: A unchanged")
	if (alpha == 0 || k == 0) && beta == 1 { // BLAS quick return: C (including diagonal imaginary parts) untouched
		verifC01zsame(c, c0, "Zherk: quick return leaves C untouched")
		verifReach("end")
		return
	}
	for p := range c {
		i, j := p/ldc, p%ldc
		if i < n && j < n && verifC01inTri(ul, i, j) {
			var s complex128
			for l := 0; l < k; l++ {
				// op(A) = A (n x k) for NoTrans, AH for ConjTrans: op(A)[i][l]
				var ail, ajl complex128
				if tA == blas.NoTrans {
					ail, ajl = a0[i*lda+l], a0[j*lda+l]
				} else {
					ail, ajl = verifC01conj(a0[l*lda+i]), verifC01conj(a0[l*lda+j])
				}
				s += ail * verifC01conj(ajl)
			}
			cij := c0[p]
			if i == j {
				cij = complex(real(cij), 0)
			}
			want := complex(alpha, 0)*s + complex(beta, 0)*cij
			if i == j {
				want = complex(real(want), 0)
			}
			verifAssertEqC(c[p], want, "Zherk: triangle of C = alpha*op(A)*op(A)H + beta*C, diagonal real")
		} else {
			verifAssert(verifC01zsameOne(c[p], c0[p]), "Zherk: other triangle / padding / slack untouched")
		}
	}
	verifReach("end")
}
