package gonum

import (
	"math"
	"runtime"

	"gonum.org/v1/gonum/blas"
)

// C09: the premise on which schedule independence of the parallel Dgemm rests.
// Every goroutine spawned by dgemmParallel is a task; the serial kernel is
// replaced by a frame summary that logs the windows it is handed (its own
// frame behaviour - writes only c[i*ldc+j], i<m, j<n; reads a, b, c windows -
// is what C01 establishes). The solver then shows, for ALL m, n, k in the
// bound and a symbolic cell of C, that exactly one task owns the cell, that a
// task walks k sequentially in increasing order tiling [0,k), and that the A
// and B windows it is given are the matching blocks.

type verifC09Entry struct {
	task             int
	m, n, k          int
	aoff, boff, coff int
	lena, lenb, lenc int
	lda, ldb, ldc    int
	at, bt           bool
}

var verifC09Log []verifC09Entry

func verifC09Stub(aTrans, bTrans bool, m, n, k int, a []float64, lda int, b []float64, ldb int, c []float64, ldc int, alpha float64) {
	verifC09Log = append(verifC09Log, verifC09Entry{
		task: verifTask(), m: m, n: n, k: k,
		aoff: verifSliceOff(a), boff: verifSliceOff(b), coff: verifSliceOff(c),
		lena: len(a), lenb: len(b), lenc: len(c), lda: lda, ldb: ldb, ldc: ldc, at: aTrans, bt: bTrans,
	})
}

func verifC09Min(a, b int) int { return verifIteInt(a < b, a, b) }

func VerifC09_DgemmBlockOwnership() {
	verifSymSlices(true)
	maxD := verifParam("c09max", 200)
	const ld = 256 // concrete leading dimension >= every dimension in the bound
	aT := verifChoose("aTrans", 0, 1) == 1
	bT := verifChoose("bTrans", 0, 1) == 1
	m := verifInt("m", 1, maxD)
	n := verifInt("n", 1, maxD)
	k := verifInt("k", 1, maxD)
	if !verifInEngine() {
		// native replay of a solver counterexample: an ownership defect must
		// show as a wrong product on integer-valued data (exact in float64)
		verifC09Native(tAof(aT), tAof(bT), m, n, k, ld)
		verifC09NativeProcs(tAof(aT), tAof(bT), m, n, k, ld, verifInt("env.GOMAXPROCS#1", 1, 64), verifInt("env.GOMAXPROCS#2", 1, 64))
		return
	}
	a := make([]float64, ld*ld)
	b := make([]float64, ld*ld)
	c := make([]float64, ld*ld)
	verifC09Log = verifC09Log[:0]
	verifStubFunc("gonum.org/v1/gonum/blas/gonum.dgemmSerial", verifC09Stub)
	tA, tB := blas.NoTrans, blas.NoTrans
	if aT {
		tA = blas.Trans
	}
	if bT {
		tB = blas.Trans
	}
	Implementation{}.Dgemm(tA, tB, m, n, k, 1, a, ld, b, ld, 1, c, ld)

	// the same call under a second, independent GOMAXPROCS value must hand the
	// kernel exactly the same sequence of windows (same accumulation order per
	// cell => bit-identical results for every GOMAXPROCS)
	log1 := append([]verifC09Entry(nil), verifC09Log...)
	verifC09Log = verifC09Log[:0]
	Implementation{}.Dgemm(tA, tB, m, n, k, 1, a, ld, b, ld, 1, c, ld)
	{
		// for a symbolic cell and a symbolic position t in [0,k): the k-block
		// that accumulates position t into that cell must be the same block
		// under both GOMAXPROCS values
		r := verifInt("rel.r", 0, maxD-1)
		cc := verifInt("rel.c", 0, maxD-1)
		t := verifInt("rel.t", 0, maxD-1)
		verifAssume(verifAnd(verifAnd(r < m, cc < n), t < k))
		s1, n1 := verifC09BlockOf(log1, aT, ld, r, cc, t)
		s2, n2 := verifC09BlockOf(verifC09Log, aT, ld, r, cc, t)
		verifAssert(verifAnd(n1 == 1, n2 == 1), "each (cell, k position) is accumulated by exactly one kernel call")
		verifAssert(s1 == s2, "the k-block partition seen by a cell does not depend on GOMAXPROCS")
	}

	log := verifC09Log
	verifAssert(len(log) > 0, "Dgemm with positive dimensions reaches the serial kernel")
	// a symbolic cell of the logical m x n result
	r := verifInt("cell.r", 0, maxD-1)
	cc := verifInt("cell.c", 0, maxD-1)
	verifAssume(verifAnd(r < m, cc < n))
	owners := 0
	lastTask := -1
	ksum := 0
	for idx := range log {
		e := log[idx]
		i0 := e.coff / ld
		j0 := e.coff % ld
		verifAssert(verifAnd(e.lda == ld, verifAnd(e.ldb == ld, e.ldc == ld)), "kernel is given the caller's leading dimensions")
		verifAssert(verifAnd(e.at == aT, e.bt == bT), "kernel is given the caller's transposition flags")
		verifAssert(verifAnd(verifAnd(e.m >= 1, e.n >= 1), verifAnd(i0+e.m <= m, j0+e.n <= n)), "C window lies inside the logical matrix")
		verifAssert(e.lenc >= (e.m-1)*ld+e.n, "C window slice is long enough for its block")
		if e.task != lastTask {
			// first k-block of a new task
			if lastTask != -1 || idx > 0 {
				verifAssert(ksum == k, "previous task tiled [0,k) completely")
			}
			ksum = 0
			lastTask = e.task
			in := verifAnd(verifAnd(r >= i0, r < i0+e.m), verifAnd(cc >= j0, cc < j0+e.n))
			owners += verifIteInt(in, 1, 0)
		} else {
			p := log[idx-1]
			verifAssert(verifAnd(p.coff == e.coff, verifAnd(p.m == e.m, p.n == e.n)), "a task keeps one C window over its k loop")
		}
		// A and B windows are the blocks matching (i0, j0, ksum)
		var wantA, wantB int
		if aT {
			wantA = ksum*ld + i0
		} else {
			wantA = i0*ld + ksum
		}
		if bT {
			wantB = j0*ld + ksum
		} else {
			wantB = ksum*ld + j0
		}
		verifAssert(e.aoff == wantA, "A window is block (i, k) of op(A)")
		verifAssert(e.boff == wantB, "B window is block (k, j) of op(B)")
		verifAssert(verifAnd(e.k >= 1, ksum+e.k <= k), "k blocks are visited in increasing order inside [0,k)")
		ksum += e.k
	}
	verifAssert(ksum == k, "last task tiled [0,k) completely")
	verifAssert(owners == 1, "every cell of C is owned by exactly one task (no two goroutines share a cell, none is left out)")
	verifReach("end")
}

func tAof(t bool) blas.Transpose {
	if t {
		return blas.Trans
	}
	return blas.NoTrans
}

func verifC09Native(tA, tB blas.Transpose, m, n, k, ld int) {
	a := make([]float64, ld*ld)
	b := make([]float64, ld*ld)
	c := make([]float64, ld*ld)
	for i := range a {
		a[i] = float64(i%7 - 3)
		b[i] = float64(i%5 - 2)
		c[i] = float64(i%3 - 1)
	}
	c0 := append([]float64(nil), c...)
	Implementation{}.Dgemm(tA, tB, m, n, k, 1, a, ld, b, ld, 1, c, ld)
	bad := 0
	for i := 0; i < ld; i++ {
		for j := 0; j < ld; j++ {
			want := c0[i*ld+j]
			if i < m && j < n {
				for l := 0; l < k; l++ {
					var x, y float64
					if tA == blas.NoTrans {
						x = a[i*ld+l]
					} else {
						x = a[l*ld+i]
					}
					if tB == blas.NoTrans {
						y = b[l*ld+j]
					} else {
						y = b[j*ld+l]
					}
					want += x * y
				}
			}
			if c[i*ld+j] != want {
				bad++
			}
		}
	}
	verifAssert(bad == 0, "parallel Dgemm equals the serial triple loop on every cell (native replay)")
}

// verifC09NativeProcs: native replay of a GOMAXPROCS-dependence counterexample:
// the real Dgemm must give bit-identical results under the two settings.
func verifC09NativeProcs(tA, tB blas.Transpose, m, n, k, ld, g1, g2 int) {
	run := func(g int) []float64 {
		old := runtime.GOMAXPROCS(g)
		defer runtime.GOMAXPROCS(old)
		a := make([]float64, ld*ld)
		b := make([]float64, ld*ld)
		c := make([]float64, ld*ld)
		for i := range a {
			a[i] = math.Sqrt(float64(i%97 + 2))
			b[i] = 1 / math.Sqrt(float64(i%89+3))
		}
		Implementation{}.Dgemm(tA, tB, m, n, k, 1, a, ld, b, ld, 1, c, ld)
		return c
	}
	c1, c2 := run(g1), run(g2)
	bad := 0
	for i := range c1 {
		if math.Float64bits(c1[i]) != math.Float64bits(c2[i]) {
			bad++
		}
	}
	verifAssert(bad == 0, "Dgemm is bit-identical under the two GOMAXPROCS settings (native replay)")
}

// verifC09BlockOf returns the start of the k-block that covers position t for
// cell (r,c) in the given call log, and how many calls cover it.
func verifC09BlockOf(log []verifC09Entry, aT bool, ld, r, c, t int) (start, count int) {
	for _, e := range log {
		i0 := e.coff / ld
		j0 := e.coff % ld
		var ks int
		if aT {
			ks = (e.aoff - i0) / ld
		} else {
			ks = e.aoff - i0*ld
		}
		in := verifAnd(verifAnd(verifAnd(r >= i0, r < i0+e.m), verifAnd(c >= j0, c < j0+e.n)), verifAnd(t >= ks, t < ks+e.k))
		start += verifIteInt(in, ks, 0)
		count += verifIteInt(in, 1, 0)
	}
	return start, count
}

// VerifC09_DgemmScheduled: the REAL parallel Dgemm (real kernels, no frame
// summary) on concrete integer-valued 65x65x65 operands (2x2 blocks of C, two
// k blocks) executed under the goroutine scheduler for GOMAXPROCS in {1,2,4}:
// on every explored schedule the result is bit-identical to the serial
// product, no goroutine is left behind and no cell is accessed by two
// goroutines without happens-before order.
func VerifC09_DgemmScheduled() {
	const n = 65
	aT := verifChoose("aTrans", 0, 1) == 1
	bT := verifChoose("bTrans", 0, 1) == 1
	procs := 1 << uint(verifChoose("procsLog2", 0, 2))
	a := make([]float64, n*n)
	b := make([]float64, n*n)
	for i := range a {
		a[i] = float64(i%7 - 3)
		b[i] = float64(i%5 - 2)
	}
	want := make([]float64, n*n)
	dgemmSerial(aT, bT, n, n, n, a, n, b, n, want, n, 1)
	verifStubFunc("runtime.GOMAXPROCS", func(int) int { return procs })
	c := make([]float64, n*n)
	verifSched(verifParam("c09gsched", 1))
	verifSchedPreempt(verifParam("c09gpreempt", 0) == 1)
	dgemmParallel(aT, bT, n, n, n, a, n, b, n, c, n, 1)
	verifAssert(verifSchedDrain() == 0, "parallel Dgemm leaves no goroutine behind")
	same := true
	for i := range c {
		if !verifSame(c[i], want[i]) {
			same = false
		}
	}
	verifAssert(same, "parallel Dgemm is bit-identical to the serial product on every schedule")
	verifReach("end")
}
