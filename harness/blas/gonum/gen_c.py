#!/usr/bin/env python3
# gen_c.py: derive the complex64 twins of the hand-written complex128 C01 harnesses.
#
#   python3 gen_c.py | gofmt > zz_verif_c01_c_gen.go
#
# (gonum's complex64 BLAS code is itself generated from the complex128 code; the
# harnesses follow the same route.)  Only *.go files are overlaid by the engine, so this
# script is inert for the checks.
import re, sys

d = '/verif/harness/blas/gonum/'
FILES = ['zz_verif_c01_z.go', 'zz_verif_c01_z2.go']

src = ''
for f in FILES:
    t = open(d + f).read()
    t = re.sub(r'^package gonum\n', '', t)
    t = re.sub(r'^import "gonum.org/v1/gonum/blas"\n', '', t, flags=re.M)
    t = re.sub(r'^import \(\n(?:\t"[^"]+"\n|\n)+\)\n', '', t, flags=re.M)
    src += t

# every identifier defined in the source files gets the suffix C
names = set(re.findall(r'^func (verifC01\w+)\(', src, flags=re.M))
names |= set(re.findall(r'^type (verifC01\w+) ', src, flags=re.M))
names |= set(re.findall(r'^\t(verifC01k\w+)\s*=', src, flags=re.M))
for h in sorted(names, key=len, reverse=True):
    src = re.sub(r'\b' + h + r'\b', h + 'C', src)

src = src.replace('complex128', 'complex64').replace('float64', 'float32')
src = src.replace('verifComplexes(', 'verifComplex64s(')
src = src.replace('verifFloats(', 'verifFloat32s(').replace('verifFloat(', 'verifFloat32(')
src = src.replace('verifAssertEqC(', 'verifC01eqC64(')
src = src.replace('verifAssertEqF(', 'verifC01eqF32(')          # defined in zz_verif_c01_s_gen.go
src = re.sub(r'verifSame\((real|imag)\((\w+)\), (real|imag)\((\w+)\)\)',
             r'verifSame(float64(\1(\2)), float64(\3(\4)))', src)
src = re.sub(r'verifSame\((\w+), (\w+)\)', r'verifSame(float64(\1), float64(\2))', src)
src = re.sub(r'return verifIteF\(x < 0, -x, x\)', 'return float32(verifIteF(x < 0, float64(-x), float64(x)))', src)
src = src.replace('verifC01alphabeta()', 'verifC01alphabetaS()')   # float32 twin of the real (alpha, beta) split
src = src.replace('math.MaxFloat64', 'math.MaxFloat32')
# routine names
src = src.replace('Zdscal', 'Csscal')
src = src.replace('Dzasum', 'Scasum').replace('Dznrm2', 'Scnrm2').replace('Izamax', 'Icamax')
src = re.sub(r'Implementation\{\}\.Z', 'Implementation{}.C', src)
src = re.sub(r'\bim\.Z', 'im.C', src)
src = re.sub(r'VerifC01_Z(\w+)', r'VerifC01_C\1', src)
src = re.sub(r'(?<=["/])Z(?=[a-z0-9]+["/:])', 'C', src)            # message prefixes
src = re.sub(r'^(// complex)64 (counterparts|Level)', r'\g<1>64 \2', src, flags=re.M)

hdr = '''// Code generated from zz_verif_c01_z.go, zz_verif_c01_z2.go by gen_c.py (see notes/C01.md, notes/C01_more.md); DO NOT EDIT.

package gonum

import (
	"math"

	"gonum.org/v1/gonum/blas"
)

func verifC01eqC64(a, b complex64, msg string) { verifAssertEqC(complex128(a), complex128(b), msg) }
'''
sys.stdout.write(hdr + src)
