package gonum

import "gonum.org/v1/gonum/blas"

// complex128 argument-contract harnesses (representative subset).

func verifC07zslice(name string) (backing, view []complex128) {
	backing = verifComplexes(name, verifC07cap)
	view = verifSetLen(backing, verifInt("len_"+name, 0, verifC07cap))
	return backing, view
}

func verifC07zverdict(name string, accept, reject, panicked, fault bool, msg string, now, before [][]complex128) {
	verifAssert(verifNot(verifAnd(accept, reject)), name+": harness sanity: accept and reject classes are disjoint")
	verifAssert(verifNot(fault), name+": no runtime fault for any argument tuple")
	verifAssert(verifImplies(accept, verifNot(panicked)), name+": contract-valid arguments are accepted")
	verifAssert(verifImplies(reject, panicked), name+": contract-invalid arguments panic")
	if panicked {
		if !fault {
			verifAssert(len(msg) > 6 && msg[:6] == "blas: ", name+": the panic carries the package's own \"blas: ...\" message")
		}
		for k := range now {
			for i := range now[k] {
				verifAssert(verifC01zsameOne(now[k][i], before[k][i]), name+": no operand cell written before the panic")
			}
		}
		verifReach("panic")
	} else {
		verifReach("return")
	}
}

func verifC07zscalar(name string) complex128 {
	return complex(verifFloat(name+".re"), verifFloat(name+".im"))
}

func VerifC07_Zaxpy() {
	n := verifC07dim("n")
	incX := verifInt("incX", -2, 2)
	incY := verifInt("incY", -2, 2)
	xb, x := verifC07zslice("x")
	yb, y := verifC07zslice("y")
	alpha := verifC07zscalar("alpha")
	x0, y0 := verifC01zclone(xb), verifC01zclone(yb)
	panicked, fault, msg := verifCatch(func() { Implementation{}.Zaxpy(n, alpha, x, incX, y, incY) })
	valid := verifC07l1valid(n, incX, incY, len(x), len(y))
	verifC07zverdict("Zaxpy", valid, verifNot(valid), panicked, fault, msg, [][]complex128{xb, yb}, [][]complex128{x0, y0})
}

func VerifC07_Zdotc() {
	n := verifC07dim("n")
	incX := verifInt("incX", -2, 2)
	incY := verifInt("incY", -2, 2)
	xb, x := verifC07zslice("x")
	yb, y := verifC07zslice("y")
	x0, y0 := verifC01zclone(xb), verifC01zclone(yb)
	panicked, fault, msg := verifCatch(func() { Implementation{}.Zdotc(n, x, incX, y, incY) })
	valid := verifC07l1valid(n, incX, incY, len(x), len(y))
	verifC07zverdict("Zdotc", valid, verifNot(valid), panicked, fault, msg, [][]complex128{xb, yb}, [][]complex128{x0, y0})
}

func VerifC07_Zgemv() {
	tA := blas.Transpose(verifByte("tA"))
	m := verifC07dim("m")
	n := verifC07dim("n")
	lda := verifInt("lda", 0, 5)
	incX := verifInt("incX", -2, 2)
	incY := verifInt("incY", -2, 2)
	ab, a := verifC07zslice("a")
	xb, x := verifC07zslice("x")
	yb, y := verifC07zslice("y")
	alpha, beta := verifC07zscalar("alpha"), verifC07zscalar("beta")
	a0, x0, y0 := verifC01zclone(ab), verifC01zclone(xb), verifC01zclone(yb)
	panicked, fault, msg := verifCatch(func() {
		Implementation{}.Zgemv(tA, m, n, alpha, a, lda, x, incX, beta, y, incY)
	})
	lenX := verifIteInt(tA == blas.NoTrans, n, m)
	lenY := verifIteInt(tA == blas.NoTrans, m, n)
	empty := verifOr(m == 0, n == 0)
	valid := verifC07and(verifC07transOK(tA), m >= 0, n >= 0, lda >= verifC07maxI(1, n), incX != 0, incY != 0,
		verifOr(empty, verifC07and(verifC07vecOK(lenX, incX, len(x)), verifC07vecOK(lenY, incY, len(y)), verifC07matOK(m, n, lda, len(a)))))
	verifC07zverdict("Zgemv", valid, verifNot(valid), panicked, fault, msg, [][]complex128{ab, xb, yb}, [][]complex128{a0, x0, y0})
}

func VerifC07_Zhemv() {
	ul := blas.Uplo(verifByte("ul"))
	n := verifC07dim("n")
	lda := verifInt("lda", 0, 5)
	incX := verifInt("incX", -2, 2)
	incY := verifInt("incY", -2, 2)
	ab, a := verifC07zslice("a")
	xb, x := verifC07zslice("x")
	yb, y := verifC07zslice("y")
	alpha, beta := verifC07zscalar("alpha"), verifC07zscalar("beta")
	a0, x0, y0 := verifC01zclone(ab), verifC01zclone(xb), verifC01zclone(yb)
	panicked, fault, msg := verifCatch(func() { Implementation{}.Zhemv(ul, n, alpha, a, lda, x, incX, beta, y, incY) })
	valid := verifC07and(verifC07uploOK(ul), n >= 0, lda >= verifC07maxI(1, n), incX != 0, incY != 0,
		verifOr(n == 0, verifC07and(verifC07vecOK(n, incX, len(x)), verifC07vecOK(n, incY, len(y)), verifC07matOK(n, n, lda, len(a)))))
	verifC07zverdict("Zhemv", valid, verifNot(valid), panicked, fault, msg, [][]complex128{ab, xb, yb}, [][]complex128{a0, x0, y0})
}

func VerifC07_Zgemm() {
	tA := blas.Transpose(verifByte("tA"))
	tB := blas.Transpose(verifByte("tB"))
	m, n, k := verifC07dim3("m"), verifC07dim3("n"), verifC07dim3("k")
	lda, ldb, ldc := verifInt("lda", 0, 4), verifInt("ldb", 0, 4), verifInt("ldc", 0, 4)
	ab, a := verifC07zslice("a")
	bb, b := verifC07zslice("b")
	cb, c := verifC07zslice("c")
	alpha, beta := verifC07zscalar("alpha"), verifC07zscalar("beta")
	a0, b0, c0 := verifC01zclone(ab), verifC01zclone(bb), verifC01zclone(cb)
	panicked, fault, msg := verifCatch(func() {
		Implementation{}.Zgemm(tA, tB, m, n, k, alpha, a, lda, b, ldb, beta, c, ldc)
	})
	rowsA, colsA := verifIteInt(tA == blas.NoTrans, m, k), verifIteInt(tA == blas.NoTrans, k, m)
	rowsB, colsB := verifIteInt(tB == blas.NoTrans, k, n), verifIteInt(tB == blas.NoTrans, n, k)
	scalars := verifC07and(verifC07transOK(tA), verifC07transOK(tB), m >= 0, n >= 0, k >= 0,
		lda >= verifC07maxI(1, colsA), ldb >= verifC07maxI(1, colsB), ldc >= verifC07maxI(1, n))
	empty := verifOr(m == 0, n == 0)
	storage := verifC07and(verifC07matOK(rowsA, colsA, lda, len(a)), verifC07matOK(rowsB, colsB, ldb, len(b)), verifC07matOK(m, n, ldc, len(c)))
	addressed := verifC07and(verifC07matAddrOK(rowsA, colsA, lda, len(a)), verifC07matAddrOK(rowsB, colsB, ldb, len(b)), verifC07matAddrOK(m, n, ldc, len(c)))
	accept := verifAnd(scalars, verifOr(empty, storage))
	reject := verifOr(verifNot(scalars), verifAnd(verifNot(empty), verifNot(addressed)))
	verifC07zverdict("Zgemm", accept, reject, panicked, fault, msg, [][]complex128{ab, bb, cb}, [][]complex128{a0, b0, c0})
}
