package gonum

import "gonum.org/v1/gonum/blas"

// ---- flag splits ----

func verifC01trans(name string) blas.Transpose {
	switch verifChoose(name, 0, 2) {
	case 0:
		return blas.NoTrans
	case 1:
		return blas.Trans
	}
	return blas.ConjTrans
}

func verifC01uplo(name string) blas.Uplo {
	if verifChoose(name, 0, 1) == 0 {
		return blas.Upper
	}
	return blas.Lower
}

func verifC01diag(name string) blas.Diag {
	if verifChoose(name, 0, 1) == 0 {
		return blas.NonUnit
	}
	return blas.Unit
}

// verifC01alphabeta: generic symbolic alpha/beta plus the special concrete values
// alpha=0, beta=0, beta=1, alpha=0&&beta=1.
func verifC01alphabeta() (alpha, beta float64) {
	alpha = verifFloat("alpha")
	beta = verifFloat("beta")
	switch verifChoose("alphabeta", 0, 4) {
	case 1:
		alpha = 0
	case 2:
		beta = 0
	case 3:
		beta = 1
	case 4:
		alpha, beta = 0, 1
	}
	return alpha, beta
}

// verifC01alpha: symbolic alpha or concrete 0.
func verifC01alpha() float64 {
	if verifChoose("alphaZero", 0, 1) == 1 {
		return 0
	}
	return verifFloat("alpha")
}

func verifC01lda(cols int) int {
	lda := cols + verifChoose("ldaPad", 0, 1)
	if lda < 1 {
		lda = 1
	}
	return lda
}

// ---- dense expansions of the storage schemes (n x n, row major, flat) ----

// verifC01inTri: (i,j) lies in the referenced triangle.
func verifC01inTri(ul blas.Uplo, i, j int) bool {
	if ul == blas.Upper {
		return j >= i
	}
	return j <= i
}

// symmetric matrix from the referenced triangle of a dense backing
func verifC01denseSym(ul blas.Uplo, n int, a []float64, lda int) []float64 {
	d := make([]float64, n*n)
	for i := 0; i < n; i++ {
		for j := 0; j < n; j++ {
			if verifC01inTri(ul, i, j) {
				d[i*n+j] = a[i*lda+j]
			} else {
				d[i*n+j] = a[j*lda+i]
			}
		}
	}
	return d
}

// triangular matrix from the referenced triangle of a dense backing
func verifC01denseTri(ul blas.Uplo, dg blas.Diag, n int, a []float64, lda int) []float64 {
	d := make([]float64, n*n)
	for i := 0; i < n; i++ {
		for j := 0; j < n; j++ {
			switch {
			case i == j && dg == blas.Unit:
				d[i*n+j] = 1
			case verifC01inTri(ul, i, j):
				d[i*n+j] = a[i*lda+j]
			}
		}
	}
	return d
}

// index in row-major packed storage of element (i,j) of the referenced triangle
func verifC01packedIdx(ul blas.Uplo, n, i, j int) int {
	if ul == blas.Upper {
		// rows i hold columns i..n-1; rows before i hold n, n-1, ... elements
		off := 0
		for r := 0; r < i; r++ {
			off += n - r
		}
		return off + j - i
	}
	off := 0
	for r := 0; r < i; r++ {
		off += r + 1
	}
	return off + j
}

// index in row-major band storage (k diagonals beside the main one) of element (i,j)
// of the referenced triangle; -1 if outside the band
func verifC01bandIdx(ul blas.Uplo, k, lda, i, j int) int {
	if ul == blas.Upper {
		if j < i || j > i+k {
			return -1
		}
		return i*lda + j - i
	}
	if j > i || j < i-k {
		return -1
	}
	return i*lda + k + j - i
}

// verifC01denseFromIdx builds a symmetric (sym) or triangular dense matrix from an
// index function of the referenced triangle.
func verifC01denseFromIdx(ul blas.Uplo, sym bool, dg blas.Diag, n int, a []float64, idx func(i, j int) int) []float64 {
	d := make([]float64, n*n)
	for i := 0; i < n; i++ {
		for j := 0; j < n; j++ {
			p := -1
			if verifC01inTri(ul, i, j) {
				p = idx(i, j)
			} else if sym {
				p = idx(j, i)
			}
			if p >= 0 {
				d[i*n+j] = a[p]
			}
			if i == j && !sym && dg == blas.Unit {
				d[i*n+j] = 1
			}
		}
	}
	return d
}

// op(D)[i][j] for a square n x n flat matrix
func verifC01op(t blas.Transpose, d []float64, n, i, j int) float64 {
	if t == blas.NoTrans {
		return d[i*n+j]
	}
	return d[j*n+i]
}

// want = alpha*op(D)*x + beta*y on the addressed elements of y (D is n x n)
func verifC01mvRef(t blas.Transpose, n int, alpha float64, d []float64, x0 []float64, incX int, beta float64, y0 []float64, incY int) []float64 {
	want := verifC01clone(y0)
	for i := 0; i < n; i++ {
		var s float64
		for j := 0; j < n; j++ {
			s += verifC01op(t, d, n, i, j) * x0[verifVecIdx(n, incX, j)]
		}
		yi := verifVecIdx(n, incY, i)
		want[yi] = alpha*s + beta*y0[yi]
	}
	return want
}

// ---- general rank one ----

// VerifC01_Dger: A += alpha*x*yT on the m x n block; padding/slack and x, y untouched.
func VerifC01_Dger() {
	maxN := verifParam("l2n", 3)
	m := verifChoose("m", 0, maxN)
	n := verifChoose("n", 0, maxN)
	lda := verifC01lda(n)
	incX := verifC01inc("incX")
	incY := verifC01inc("incY")
	slack := verifChoose("slack", 0, 1)
	la := slack
	if m > 0 {
		la = lda*(m-1) + n + slack
	}
	a := verifFloats("a", la)
	x := verifFloats("x", verifC01vlen(m, incX, slack))
	y := verifFloats("y", verifC01vlen(n, incY, slack))
	alpha := verifC01alpha()
	a0, x0, y0 := verifC01clone(a), verifC01clone(x), verifC01clone(y)
	Implementation{}.Dger(m, n, alpha, x, incX, y, incY, a, lda)
	verifC01same(x, x0, "Dger: x unchanged")
	verifC01same(y, y0, "Dger: y unchanged")
	want := verifC01clone(a0)
	for i := 0; i < m; i++ {
		for j := 0; j < n; j++ {
			want[i*lda+j] = a0[i*lda+j] + alpha*x0[verifVecIdx(m, incX, i)]*y0[verifVecIdx(n, incY, j)]
		}
	}
	verifC01eq(a, want, "Dger: A += alpha*x*yT on the m x n block, rest untouched")
	for i := range a {
		if n == 0 || i%lda >= n {
			verifAssert(verifSame(a[i], a0[i]), "Dger: padding bit-identical")
		}
	}
	verifReach("end")
}

// ---- symmetric / triangular, dense storage ----

// VerifC01_Dsymv: y = alpha*A*x + beta*y with A given by one triangle.
func VerifC01_Dsymv() {
	ul := verifC01uplo("uplo")
	n := verifChoose("n", 0, verifParam("l2n", 3))
	lda := verifC01lda(n)
	incX := verifC01inc("incX")
	incY := verifC01inc("incY")
	slack := verifChoose("slack", 0, 1)
	la := slack
	if n > 0 {
		la = lda*(n-1) + n + slack
	}
	a := verifFloats("a", la)
	x := verifFloats("x", verifC01vlen(n, incX, slack))
	y := verifFloats("y", verifC01vlen(n, incY, slack))
	alpha, beta := verifC01alphabeta()
	a0, x0, y0 := verifC01clone(a), verifC01clone(x), verifC01clone(y)
	Implementation{}.Dsymv(ul, n, alpha, a, lda, x, incX, beta, y, incY)
	verifC01same(a, a0, "Dsymv: A unchanged")
	verifC01same(x, x0, "Dsymv: x unchanged")
	d := verifC01denseSym(ul, n, a0, lda)
	want := verifC01mvRef(blas.NoTrans, n, alpha, d, x0, incX, beta, y0, incY)
	verifC01eq(y, want, "Dsymv: y = alpha*A*x + beta*y on addressed elements, rest untouched")
	verifReach("end")
}

// VerifC01_Dsyr: referenced triangle of A += alpha*x*xT; other triangle, padding untouched.
func VerifC01_Dsyr() {
	ul := verifC01uplo("uplo")
	n := verifChoose("n", 0, verifParam("l2n", 3))
	lda := verifC01lda(n)
	incX := verifC01inc("incX")
	slack := verifChoose("slack", 0, 1)
	la := slack
	if n > 0 {
		la = lda*(n-1) + n + slack
	}
	a := verifFloats("a", la)
	x := verifFloats("x", verifC01vlen(n, incX, slack))
	alpha := verifC01alpha()
	a0, x0 := verifC01clone(a), verifC01clone(x)
	Implementation{}.Dsyr(ul, n, alpha, x, incX, a, lda)
	verifC01same(x, x0, "Dsyr: x unchanged")
	want := verifC01clone(a0)
	addr := make([]bool, len(a))
	for i := 0; i < n; i++ {
		for j := 0; j < n; j++ {
			if verifC01inTri(ul, i, j) {
				addr[i*lda+j] = true
				want[i*lda+j] = a0[i*lda+j] + alpha*x0[verifVecIdx(n, incX, i)]*x0[verifVecIdx(n, incX, j)]
			}
		}
	}
	for i := range a {
		if addr[i] {
			verifAssertEqF(a[i], want[i], "Dsyr: triangle += alpha*x*xT")
		} else {
			verifAssert(verifSame(a[i], a0[i]), "Dsyr: other triangle / padding / slack untouched")
		}
	}
	verifReach("end")
}

// VerifC01_Dsyr2: referenced triangle of A += alpha*x*yT + alpha*y*xT.
func VerifC01_Dsyr2() {
	ul := verifC01uplo("uplo")
	n := verifChoose("n", 0, verifParam("l2n", 3))
	lda := verifC01lda(n)
	incX := verifC01inc("incX")
	incY := verifC01inc("incY")
	slack := verifChoose("slack", 0, 1)
	la := slack
	if n > 0 {
		la = lda*(n-1) + n + slack
	}
	a := verifFloats("a", la)
	x := verifFloats("x", verifC01vlen(n, incX, slack))
	y := verifFloats("y", verifC01vlen(n, incY, slack))
	alpha := verifC01alpha()
	a0, x0, y0 := verifC01clone(a), verifC01clone(x), verifC01clone(y)
	Implementation{}.Dsyr2(ul, n, alpha, x, incX, y, incY, a, lda)
	verifC01same(x, x0, "Dsyr2: x unchanged")
	verifC01same(y, y0, "Dsyr2: y unchanged")
	for p := range a {
		i, j := p/lda, p%lda
		if i < n && j < n && verifC01inTri(ul, i, j) {
			xi, xj := x0[verifVecIdx(n, incX, i)], x0[verifVecIdx(n, incX, j)]
			yi, yj := y0[verifVecIdx(n, incY, i)], y0[verifVecIdx(n, incY, j)]
			verifAssertEqF(a[p], a0[p]+alpha*xi*yj+alpha*yi*xj, "Dsyr2: triangle += alpha*x*yT + alpha*y*xT")
		} else {
			verifAssert(verifSame(a[p], a0[p]), "Dsyr2: other triangle / padding / slack untouched")
		}
	}
	verifReach("end")
}

// VerifC01_Dtrmv: x = op(A)*x with triangular A (unit or non-unit diagonal).
func VerifC01_Dtrmv() {
	ul := verifC01uplo("uplo")
	tA := verifC01trans("trans")
	dg := verifC01diag("diag")
	n := verifChoose("n", 0, verifParam("l2n", 3))
	lda := verifC01lda(n)
	incX := verifC01inc("incX")
	slack := verifChoose("slack", 0, 1)
	la := slack
	if n > 0 {
		la = lda*(n-1) + n + slack
	}
	a := verifFloats("a", la)
	x := verifFloats("x", verifC01vlen(n, incX, slack))
	a0, x0 := verifC01clone(a), verifC01clone(x)
	Implementation{}.Dtrmv(ul, tA, dg, n, a, lda, x, incX)
	verifC01same(a, a0, "Dtrmv: A unchanged")
	d := verifC01denseTri(ul, dg, n, a0, lda)
	want := verifC01mvRef(tA, n, 1, d, x0, incX, 0, x0, incX)
	for i := range x {
		if n > 0 && i%verifAbs(incX) == 0 && i/verifAbs(incX) < n {
			verifAssertEqF(x[i], want[i], "Dtrmv: x = op(A)*x")
		} else {
			verifAssert(verifSame(x[i], x0[i]), "Dtrmv: skipped slots / slack untouched")
		}
	}
	verifReach("end")
}

// VerifC01_Dtrsv: op(A)*x_out = x_in for a non-zero diagonal.
func VerifC01_Dtrsv() {
	ul := verifC01uplo("uplo")
	tA := verifC01trans("trans")
	dg := verifC01diag("diag")
	n := verifChoose("n", 0, verifParam("l2n", 3))
	lda := verifC01lda(n)
	incX := verifC01inc("incX")
	slack := verifChoose("slack", 0, 1)
	la := slack
	if n > 0 {
		la = lda*(n-1) + n + slack
	}
	a := verifFloats("a", la)
	x := verifFloats("x", verifC01vlen(n, incX, slack))
	if dg == blas.NonUnit {
		for i := 0; i < n; i++ {
			verifAssume(a[i*lda+i] != 0)
		}
	}
	a0, x0 := verifC01clone(a), verifC01clone(x)
	Implementation{}.Dtrsv(ul, tA, dg, n, a, lda, x, incX)
	verifC01same(a, a0, "Dtrsv: A unchanged")
	d := verifC01denseTri(ul, dg, n, a0, lda)
	back := verifC01mvRef(tA, n, 1, d, x, incX, 0, x, incX) // op(A)*x_out
	for i := range x {
		if n > 0 && i%verifAbs(incX) == 0 && i/verifAbs(incX) < n {
			verifAssertEqF(back[i], x0[i], "Dtrsv: op(A)*x_out = x_in")
		} else {
			verifAssert(verifSame(x[i], x0[i]), "Dtrsv: skipped slots / slack untouched")
		}
	}
	verifReach("end")
}

// ---- packed storage ----

func verifC01packedLen(n int) int { return n * (n + 1) / 2 }

// VerifC01_Dspmv: y = alpha*A*x + beta*y, A symmetric packed.
func VerifC01_Dspmv() {
	ul := verifC01uplo("uplo")
	n := verifChoose("n", 0, verifParam("l2n", 3))
	incX := verifC01inc("incX")
	incY := verifC01inc("incY")
	slack := verifChoose("slack", 0, 1)
	ap := verifFloats("ap", verifC01packedLen(n)+slack)
	x := verifFloats("x", verifC01vlen(n, incX, slack))
	y := verifFloats("y", verifC01vlen(n, incY, slack))
	alpha, beta := verifC01alphabeta()
	a0, x0, y0 := verifC01clone(ap), verifC01clone(x), verifC01clone(y)
	Implementation{}.Dspmv(ul, n, alpha, ap, x, incX, beta, y, incY)
	verifC01same(ap, a0, "Dspmv: ap unchanged")
	verifC01same(x, x0, "Dspmv: x unchanged")
	d := verifC01denseFromIdx(ul, true, blas.NonUnit, n, a0, func(i, j int) int { return verifC01packedIdx(ul, n, i, j) })
	want := verifC01mvRef(blas.NoTrans, n, alpha, d, x0, incX, beta, y0, incY)
	verifC01eq(y, want, "Dspmv: y = alpha*A*x + beta*y on addressed elements, rest untouched")
	verifReach("end")
}

// VerifC01_Dspr: packed triangle += alpha*x*xT; slack untouched.
func VerifC01_Dspr() {
	ul := verifC01uplo("uplo")
	n := verifChoose("n", 0, verifParam("l2n", 3))
	incX := verifC01inc("incX")
	slack := verifChoose("slack", 0, 1)
	ap := verifFloats("ap", verifC01packedLen(n)+slack)
	x := verifFloats("x", verifC01vlen(n, incX, slack))
	alpha := verifC01alpha()
	a0, x0 := verifC01clone(ap), verifC01clone(x)
	Implementation{}.Dspr(ul, n, alpha, x, incX, ap)
	verifC01same(x, x0, "Dspr: x unchanged")
	want := verifC01clone(a0)
	for i := 0; i < n; i++ {
		for j := 0; j < n; j++ {
			if verifC01inTri(ul, i, j) {
				p := verifC01packedIdx(ul, n, i, j)
				want[p] = a0[p] + alpha*x0[verifVecIdx(n, incX, i)]*x0[verifVecIdx(n, incX, j)]
			}
		}
	}
	verifC01eq(ap, want, "Dspr: packed triangle += alpha*x*xT, slack untouched")
	verifReach("end")
}

// VerifC01_Dspr2: packed triangle += alpha*x*yT + alpha*y*xT.
func VerifC01_Dspr2() {
	ul := verifC01uplo("uplo")
	n := verifChoose("n", 0, verifParam("l2n", 3))
	incX := verifC01inc("incX")
	incY := verifC01inc("incY")
	slack := verifChoose("slack", 0, 1)
	ap := verifFloats("ap", verifC01packedLen(n)+slack)
	x := verifFloats("x", verifC01vlen(n, incX, slack))
	y := verifFloats("y", verifC01vlen(n, incY, slack))
	alpha := verifC01alpha()
	a0, x0, y0 := verifC01clone(ap), verifC01clone(x), verifC01clone(y)
	Implementation{}.Dspr2(ul, n, alpha, x, incX, y, incY, ap)
	verifC01same(x, x0, "Dspr2: x unchanged")
	verifC01same(y, y0, "Dspr2: y unchanged")
	want := verifC01clone(a0)
	for i := 0; i < n; i++ {
		for j := 0; j < n; j++ {
			if verifC01inTri(ul, i, j) {
				p := verifC01packedIdx(ul, n, i, j)
				xi, xj := x0[verifVecIdx(n, incX, i)], x0[verifVecIdx(n, incX, j)]
				yi, yj := y0[verifVecIdx(n, incY, i)], y0[verifVecIdx(n, incY, j)]
				want[p] = a0[p] + alpha*xi*yj + alpha*yi*xj
			}
		}
	}
	verifC01eq(ap, want, "Dspr2: packed triangle += alpha*x*yT + alpha*y*xT, slack untouched")
	verifReach("end")
}

// VerifC01_Dtpmv: x = op(A)*x, A triangular packed.
func VerifC01_Dtpmv() {
	ul := verifC01uplo("uplo")
	tA := verifC01trans("trans")
	dg := verifC01diag("diag")
	n := verifChoose("n", 0, verifParam("l2n", 3))
	incX := verifC01inc("incX")
	slack := verifChoose("slack", 0, 1)
	ap := verifFloats("ap", verifC01packedLen(n)+slack)
	x := verifFloats("x", verifC01vlen(n, incX, slack))
	a0, x0 := verifC01clone(ap), verifC01clone(x)
	Implementation{}.Dtpmv(ul, tA, dg, n, ap, x, incX)
	verifC01same(ap, a0, "Dtpmv: ap unchanged")
	d := verifC01denseFromIdx(ul, false, dg, n, a0, func(i, j int) int { return verifC01packedIdx(ul, n, i, j) })
	want := verifC01mvRef(tA, n, 1, d, x0, incX, 0, x0, incX)
	for i := range x {
		if n > 0 && i%verifAbs(incX) == 0 && i/verifAbs(incX) < n {
			verifAssertEqF(x[i], want[i], "Dtpmv: x = op(A)*x")
		} else {
			verifAssert(verifSame(x[i], x0[i]), "Dtpmv: skipped slots / slack untouched")
		}
	}
	verifReach("end")
}

// VerifC01_Dtpsv: op(A)*x_out = x_in, A triangular packed with non-zero diagonal.
func VerifC01_Dtpsv() {
	ul := verifC01uplo("uplo")
	tA := verifC01trans("trans")
	dg := verifC01diag("diag")
	n := verifChoose("n", 0, verifParam("l2n", 3))
	incX := verifC01inc("incX")
	slack := verifChoose("slack", 0, 1)
	ap := verifFloats("ap", verifC01packedLen(n)+slack)
	x := verifFloats("x", verifC01vlen(n, incX, slack))
	if dg == blas.NonUnit {
		for i := 0; i < n; i++ {
			verifAssume(ap[verifC01packedIdx(ul, n, i, i)] != 0)
		}
	}
	a0, x0 := verifC01clone(ap), verifC01clone(x)
	Implementation{}.Dtpsv(ul, tA, dg, n, ap, x, incX)
	verifC01same(ap, a0, "Dtpsv: ap unchanged")
	d := verifC01denseFromIdx(ul, false, dg, n, a0, func(i, j int) int { return verifC01packedIdx(ul, n, i, j) })
	back := verifC01mvRef(tA, n, 1, d, x, incX, 0, x, incX)
	for i := range x {
		if n > 0 && i%verifAbs(incX) == 0 && i/verifAbs(incX) < n {
			verifAssertEqF(back[i], x0[i], "Dtpsv: op(A)*x_out = x_in")
		} else {
			verifAssert(verifSame(x[i], x0[i]), "Dtpsv: skipped slots / slack untouched")
		}
	}
	verifReach("end")
}

// ---- band storage ----

// VerifC01_Dgbmv: y = alpha*op(A)*x + beta*y, A general m x n band (kL sub-, kU super-diagonals).
func VerifC01_Dgbmv() {
	maxN := verifParam("gbn", 2)
	maxK := verifParam("gbk", 1)
	tA := verifC01trans("trans")
	m := verifChoose("m", 0, maxN)
	n := verifChoose("n", 0, maxN)
	kL := verifChoose("kL", 0, maxK)
	kU := verifChoose("kU", 0, maxK)
	pad := verifChoose("pad", 0, 1) // lda padding and trailing slack together
	lda := kL + kU + 1 + pad
	incX := verifC01inc("incX")
	incY := verifC01inc("incY")
	rows := m
	if n+kL < rows {
		rows = n + kL
	}
	la := pad
	if m > 0 && n > 0 {
		la = lda*(rows-1) + kL + kU + 1 + pad
	}
	lenX, lenY := n, m
	if tA != blas.NoTrans {
		lenX, lenY = m, n
	}
	a := verifFloats("a", la)
	x := verifFloats("x", verifC01vlen(lenX, incX, pad))
	y := verifFloats("y", verifC01vlen(lenY, incY, pad))
	alpha, beta := verifC01alphabeta()
	a0, x0, y0 := verifC01clone(a), verifC01clone(x), verifC01clone(y)
	Implementation{}.Dgbmv(tA, m, n, kL, kU, alpha, a, lda, x, incX, beta, y, incY)
	verifC01same(a, a0, "Dgbmv: A unchanged")
	verifC01same(x, x0, "Dgbmv: x unchanged")
	want := verifC01clone(y0)
	for i := 0; i < lenY && m > 0 && n > 0; i++ { // m==0 or n==0: documented quick return
		var s float64
		for j := 0; j < lenX; j++ {
			r, c := i, j // element of A used: op(A)[i][j]
			if tA != blas.NoTrans {
				r, c = j, i
			}
			if c-r <= kU && r-c <= kL {
				s += a0[r*lda+kL+c-r] * x0[verifVecIdx(lenX, incX, j)]
			}
		}
		yi := verifVecIdx(lenY, incY, i)
		want[yi] = alpha*s + beta*y0[yi]
	}
	verifC01eq(y, want, "Dgbmv: y = alpha*op(A)*x + beta*y on addressed elements, rest untouched")
	verifReach("end")
}

func verifC01bandLen(n, k, lda, slack int) int {
	if n == 0 {
		return slack
	}
	return lda*(n-1) + k + 1 + slack
}

// VerifC01_Dsbmv: y = alpha*A*x + beta*y, A symmetric band with k off-diagonals.
func VerifC01_Dsbmv() {
	ul := verifC01uplo("uplo")
	n := verifChoose("n", 0, verifParam("l2n", 3))
	k := verifChoose("k", 0, verifParam("sbk", 2))
	pad := verifChoose("pad", 0, 1)
	lda := k + 1 + pad
	incX := verifC01inc("incX")
	incY := verifC01inc("incY")
	a := verifFloats("a", verifC01bandLen(n, k, lda, pad))
	x := verifFloats("x", verifC01vlen(n, incX, pad))
	y := verifFloats("y", verifC01vlen(n, incY, pad))
	alpha, beta := verifC01alphabeta()
	a0, x0, y0 := verifC01clone(a), verifC01clone(x), verifC01clone(y)
	Implementation{}.Dsbmv(ul, n, k, alpha, a, lda, x, incX, beta, y, incY)
	verifC01same(a, a0, "Dsbmv: A unchanged")
	verifC01same(x, x0, "Dsbmv: x unchanged")
	d := verifC01denseFromIdx(ul, true, blas.NonUnit, n, a0, func(i, j int) int { return verifC01bandIdx(ul, k, lda, i, j) })
	want := verifC01mvRef(blas.NoTrans, n, alpha, d, x0, incX, beta, y0, incY)
	verifC01eq(y, want, "Dsbmv: y = alpha*A*x + beta*y on addressed elements, rest untouched")
	verifReach("end")
}

// VerifC01_Dtbmv: x = op(A)*x, A triangular band.
func VerifC01_Dtbmv() {
	ul := verifC01uplo("uplo")
	tA := verifC01trans("trans")
	dg := verifC01diag("diag")
	n := verifChoose("n", 0, verifParam("l2n", 3))
	k := verifChoose("k", 0, verifParam("sbk", 2))
	pad := verifChoose("pad", 0, 1)
	lda := k + 1 + pad
	incX := verifC01inc("incX")
	a := verifFloats("a", verifC01bandLen(n, k, lda, pad))
	x := verifFloats("x", verifC01vlen(n, incX, pad))
	a0, x0 := verifC01clone(a), verifC01clone(x)
	Implementation{}.Dtbmv(ul, tA, dg, n, k, a, lda, x, incX)
	verifC01same(a, a0, "Dtbmv: A unchanged")
	d := verifC01denseFromIdx(ul, false, dg, n, a0, func(i, j int) int { return verifC01bandIdx(ul, k, lda, i, j) })
	want := verifC01mvRef(tA, n, 1, d, x0, incX, 0, x0, incX)
	for i := range x {
		if n > 0 && i%verifAbs(incX) == 0 && i/verifAbs(incX) < n {
			verifAssertEqF(x[i], want[i], "Dtbmv: x = op(A)*x")
		} else {
			verifAssert(verifSame(x[i], x0[i]), "Dtbmv: skipped slots / slack untouched")
		}
	}
	verifReach("end")
}

// VerifC01_Dtbsv: op(A)*x_out = x_in, A triangular band with non-zero diagonal.
func VerifC01_Dtbsv() {
	ul := verifC01uplo("uplo")
	tA := verifC01trans("trans")
	dg := verifC01diag("diag")
	n := verifChoose("n", 0, verifParam("l2n", 3))
	k := verifChoose("k", 0, verifParam("sbk", 2))
	pad := verifChoose("pad", 0, 1)
	lda := k + 1 + pad
	incX := verifC01inc("incX")
	a := verifFloats("a", verifC01bandLen(n, k, lda, pad))
	x := verifFloats("x", verifC01vlen(n, incX, pad))
	if dg == blas.NonUnit {
		for i := 0; i < n; i++ {
			verifAssume(a[verifC01bandIdx(ul, k, lda, i, i)] != 0)
		}
	}
	a0, x0 := verifC01clone(a), verifC01clone(x)
	Implementation{}.Dtbsv(ul, tA, dg, n, k, a, lda, x, incX)
	verifC01same(a, a0, "Dtbsv: A unchanged")
	d := verifC01denseFromIdx(ul, false, dg, n, a0, func(i, j int) int { return verifC01bandIdx(ul, k, lda, i, j) })
	back := verifC01mvRef(tA, n, 1, d, x, incX, 0, x, incX)
	for i := range x {
		if n > 0 && i%verifAbs(incX) == 0 && i/verifAbs(incX) < n {
			verifAssertEqF(back[i], x0[i], "Dtbsv: op(A)*x_out = x_in")
		} else {
			verifAssert(verifSame(x[i], x0[i]), "Dtbsv: skipped slots / slack untouched")
		}
	}
	verifReach("end")
}
