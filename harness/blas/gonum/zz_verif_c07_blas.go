package gonum

import "gonum.org/v1/gonum/blas"

// Helpers of the C07 (argument contract) harnesses, prefix verifC07.

const verifC07cap = 14 // cells per operand backing

func verifC07absI(x int) int { return verifIteInt(x < 0, -x, x) }

func verifC07maxI(a, b int) int { return verifIteInt(a > b, a, b) }
func verifC07minI(a, b int) int { return verifIteInt(a < b, a, b) }

// verifC07slice: a backing of verifC07cap symbolic cells and a view with symbolic length.
func verifC07slice(name string) (backing, view []float64) {
	backing = verifFloats(name, verifC07cap)
	view = verifSetLen(backing, verifInt("len_"+name, 0, verifC07cap))
	return backing, view
}

// verifC07dim: a dimension in [-1, maxdim]; case split (dimsym=0, default) or symbolic (dimsym=1).
func verifC07dim(name string) int {
	hi := verifParam("maxdim", 3)
	if verifParam("dimsym", 0) == 1 {
		return verifInt(name, -1, hi)
	}
	return verifChoose(name, -1, hi)
}

// verifC07vecOK: a vector of n elements with increment inc fits in l cells
// (BLAS: 1+(n-1)*|inc| cells; nothing is required for n <= 0).
func verifC07vecOK(n, inc, l int) bool {
	return verifOr(n <= 0, l >= 1+(n-1)*verifC07absI(inc))
}

// verifC07matOK: a rows x cols matrix with stride ld fits in l cells.
func verifC07matOK(rows, cols, ld, l int) bool {
	return verifOr(rows <= 0, l >= ld*(rows-1)+cols)
}

func verifC07transOK(t blas.Transpose) bool {
	return verifOr(t == blas.NoTrans, verifOr(t == blas.Trans, t == blas.ConjTrans))
}
func verifC07uploOK(u blas.Uplo) bool { return verifOr(u == blas.Upper, u == blas.Lower) }
func verifC07diagOK(d blas.Diag) bool { return verifOr(d == blas.NonUnit, d == blas.Unit) }
func verifC07sideOK(s blas.Side) bool { return verifOr(s == blas.Left, s == blas.Right) }

func verifC07and(c ...bool) bool {
	r := true
	for _, v := range c {
		r = verifAnd(r, v)
	}
	return r
}

// verifC07verdict2: the obligations of C07 for one call.
//
//	accept  => normal return (no panic of either kind)
//	reject  => explicit panic, never a normal return
//	always  => no runtime fault; on a panic every operand cell is identical to its value before the call
//
// accept and reject are disjoint; tuples in neither class (documented ambiguities, see notes/C07.md)
// only get the "always" obligations.
func verifC07verdict2(name string, accept, reject, panicked, fault bool, msg string, now, before [][]float64) {
	verifAssert(verifNot(verifAnd(accept, reject)), name+": harness sanity: accept and reject classes are disjoint")
	verifAssert(verifNot(fault), name+": no runtime fault for any argument tuple")
	verifAssert(verifImplies(accept, verifNot(panicked)), name+": contract-valid arguments are accepted")
	verifAssert(verifImplies(reject, panicked), name+": contract-invalid arguments panic")
	if panicked {
		if !fault {
			verifAssert(len(msg) > 6 && msg[:6] == "blas: ", name+": the panic carries the package's own \"blas: ...\" message")
		}
		for k := range now {
			for i := range now[k] {
				verifAssert(verifSame(now[k][i], before[k][i]), name+": no operand cell written before the panic")
			}
		}
		verifReach("panic")
	} else {
		verifReach("return")
	}
}

func verifC07verdict(name string, valid, panicked, fault bool, msg string, now, before [][]float64) {
	verifC07verdict2(name, valid, verifNot(valid), panicked, fault, msg, now, before)
}

// VerifC07_Dgemv: flag, dimension, stride, increment and length contract of Dgemv.
func VerifC07_Dgemv() {
	tA := blas.Transpose(verifByte("tA"))
	m := verifC07dim("m")
	n := verifC07dim("n")
	lda := verifInt("lda", 0, 5)
	incX := verifInt("incX", -2, 2)
	incY := verifInt("incY", -2, 2)
	ab, a := verifC07slice("a")
	xb, x := verifC07slice("x")
	yb, y := verifC07slice("y")
	alpha, beta := verifFloat("alpha"), verifFloat("beta")
	a0, x0, y0 := verifC01clone(ab), verifC01clone(xb), verifC01clone(yb)
	panicked, fault, msg := verifCatch(func() {
		Implementation{}.Dgemv(tA, m, n, alpha, a, lda, x, incX, beta, y, incY)
	})
	lenX := verifIteInt(tA == blas.NoTrans, n, m)
	lenY := verifIteInt(tA == blas.NoTrans, m, n)
	empty := verifOr(m == 0, n == 0)
	valid := verifC07and(verifC07transOK(tA), m >= 0, n >= 0, lda >= verifC07maxI(1, n), incX != 0, incY != 0,
		verifOr(empty, verifC07and(verifC07vecOK(lenX, incX, len(x)), verifC07vecOK(lenY, incY, len(y)), verifC07matOK(m, n, lda, len(a)))))
	verifC07verdict("Dgemv", valid, panicked, fault, msg, [][]float64{ab, xb, yb}, [][]float64{a0, x0, y0})
}

// ---------------- Level 1 ----------------

// two-vector Level 1 contract: n >= 0, non-zero increments, both vectors long enough
func verifC07l1valid(n, incX, incY, lx, ly int) bool {
	return verifC07and(n >= 0, incX != 0, incY != 0, verifC07vecOK(n, incX, lx), verifC07vecOK(n, incY, ly))
}

type verifC07two struct {
	n, incX, incY  int
	xb, x, yb, y   []float64
	x0, y0         []float64
	panicked, fail bool
	msg            string
}

func verifC07twoSetup() *verifC07two {
	t := &verifC07two{}
	t.n = verifC07dim("n")
	t.incX = verifInt("incX", -2, 2)
	t.incY = verifInt("incY", -2, 2)
	t.xb, t.x = verifC07slice("x")
	t.yb, t.y = verifC07slice("y")
	t.x0, t.y0 = verifC01clone(t.xb), verifC01clone(t.yb)
	return t
}

func (t *verifC07two) done(name string) {
	valid := verifC07l1valid(t.n, t.incX, t.incY, len(t.x), len(t.y))
	verifC07verdict(name, valid, t.panicked, t.fail, t.msg, [][]float64{t.xb, t.yb}, [][]float64{t.x0, t.y0})
}

func VerifC07_Daxpy() {
	t := verifC07twoSetup()
	alpha := verifFloat("alpha")
	t.panicked, t.fail, t.msg = verifCatch(func() { Implementation{}.Daxpy(t.n, alpha, t.x, t.incX, t.y, t.incY) })
	t.done("Daxpy")
}

func VerifC07_Ddot() {
	t := verifC07twoSetup()
	t.panicked, t.fail, t.msg = verifCatch(func() { Implementation{}.Ddot(t.n, t.x, t.incX, t.y, t.incY) })
	t.done("Ddot")
}

func VerifC07_Dcopy() {
	t := verifC07twoSetup()
	t.panicked, t.fail, t.msg = verifCatch(func() { Implementation{}.Dcopy(t.n, t.x, t.incX, t.y, t.incY) })
	t.done("Dcopy")
}

func VerifC07_Dswap() {
	t := verifC07twoSetup()
	t.panicked, t.fail, t.msg = verifCatch(func() { Implementation{}.Dswap(t.n, t.x, t.incX, t.y, t.incY) })
	t.done("Dswap")
}

func VerifC07_Drot() {
	t := verifC07twoSetup()
	c, s := verifFloat("c"), verifFloat("s")
	t.panicked, t.fail, t.msg = verifCatch(func() { Implementation{}.Drot(t.n, t.x, t.incX, t.y, t.incY, c, s) })
	t.done("Drot")
}

// VerifC07_Drotm: the four legal flags (the flag is case split).
func VerifC07_Drotm() {
	t := verifC07twoSetup()
	var p blas.DrotmParams
	p.Flag = blas.Flag(verifChoose("flag", -2, 1))
	copy(p.H[:], verifFloats("h", 4))
	t.panicked, t.fail, t.msg = verifCatch(func() { Implementation{}.Drotm(t.n, t.x, t.incX, t.y, t.incY, p) })
	t.done("Drotm")
}

// VerifC07_DrotmFlag: an illegal rotm flag (not one of -2,-1,0,1) with otherwise valid arguments
// is rejected with a panic (errors.go has the message "blas: illegal rotm flag").
func VerifC07_DrotmFlag() {
	n := verifChoose("n", 1, 2)
	x := verifFloats("x", 3)
	y := verifFloats("y", 3)
	var p blas.DrotmParams
	f := verifInt("flag", -4, 3)
	verifAssume(verifOr(f < -2, f > 1))
	p.Flag = blas.Flag(f)
	copy(p.H[:], verifFloats("h", 4))
	panicked, fault, _ := verifCatch(func() { Implementation{}.Drotm(n, x, 1, y, 1, p) })
	verifAssert(verifNot(fault), "Drotm: no runtime fault")
	verifAssert(panicked, "Drotm: illegal flag panics")
	verifReach("end")
}

// single-vector routines: incX < 0 is a documented no-op (result 0 / -1); n < 0 together with
// incX < 0 is left unspecified by the documentation (neither accept nor reject class).
func verifC07oneVerdict(name string, n, incX int, xb, x, x0 []float64, panicked, fault bool, msg string) {
	accept := verifC07and(n >= 0, incX != 0, verifOr(incX < 0, verifC07vecOK(n, incX, len(x))))
	reject := verifOr(incX == 0, verifAnd(incX > 0, verifOr(n < 0, verifNot(verifC07vecOK(n, incX, len(x))))))
	verifC07verdict2(name, accept, reject, panicked, fault, msg, [][]float64{xb}, [][]float64{x0})
}

func VerifC07_Dscal() {
	n := verifC07dim("n")
	incX := verifInt("incX", -2, 2)
	xb, x := verifC07slice("x")
	x0 := verifC01clone(xb)
	alpha := verifFloat("alpha")
	panicked, fault, msg := verifCatch(func() { Implementation{}.Dscal(n, alpha, x, incX) })
	verifC07oneVerdict("Dscal", n, incX, xb, x, x0, panicked, fault, msg)
}

func VerifC07_Dasum() {
	n := verifC07dim("n")
	incX := verifInt("incX", -2, 2)
	xb, x := verifC07slice("x")
	x0 := verifC01clone(xb)
	panicked, fault, msg := verifCatch(func() { Implementation{}.Dasum(n, x, incX) })
	verifC07oneVerdict("Dasum", n, incX, xb, x, x0, panicked, fault, msg)
}

func VerifC07_Dnrm2() {
	n := verifC07dim("n")
	incX := verifInt("incX", -2, 2)
	xb, x := verifC07slice("x")
	// values are irrelevant to the argument contract: pin them so that the scaled sum of squares
	// (divisions by running maxima) is concrete
	for i := range xb {
		verifAssume(xb[i] == 1)
	}
	x0 := verifC01clone(xb)
	panicked, fault, msg := verifCatch(func() { Implementation{}.Dnrm2(n, x, incX) })
	verifC07oneVerdict("Dnrm2", n, incX, xb, x, x0, panicked, fault, msg)
}

func VerifC07_Idamax() {
	n := verifC07dim("n")
	incX := verifInt("incX", -2, 2)
	xb, x := verifC07slice("x")
	x0 := verifC01clone(xb)
	panicked, fault, msg := verifCatch(func() { Implementation{}.Idamax(n, x, incX) })
	verifC07oneVerdict("Idamax", n, incX, xb, x, x0, panicked, fault, msg)
}

// ---------------- Level 2 ----------------

func verifC07nonzero(s []float64) {
	for i := range s {
		verifAssume(s[i] != 0)
	}
}

func VerifC07_Dger() {
	m := verifC07dim("m")
	n := verifC07dim("n")
	lda := verifInt("lda", 0, 5)
	incX := verifInt("incX", -2, 2)
	incY := verifInt("incY", -2, 2)
	ab, a := verifC07slice("a")
	xb, x := verifC07slice("x")
	yb, y := verifC07slice("y")
	alpha := verifFloat("alpha")
	a0, x0, y0 := verifC01clone(ab), verifC01clone(xb), verifC01clone(yb)
	panicked, fault, msg := verifCatch(func() { Implementation{}.Dger(m, n, alpha, x, incX, y, incY, a, lda) })
	empty := verifOr(m == 0, n == 0)
	valid := verifC07and(m >= 0, n >= 0, lda >= verifC07maxI(1, n), incX != 0, incY != 0,
		verifOr(empty, verifC07and(verifC07vecOK(m, incX, len(x)), verifC07vecOK(n, incY, len(y)), verifC07matOK(m, n, lda, len(a)))))
	verifC07verdict("Dger", valid, panicked, fault, msg, [][]float64{ab, xb, yb}, [][]float64{a0, x0, y0})
}

// VerifC07_Dgbmv: band contract lda >= kL+kU+1; accept class: the full band storage of m rows is
// present; reject class: the last addressed band element lies outside a.
func VerifC07_Dgbmv() {
	tA := blas.Transpose(verifByte("tA"))
	hi := verifParam("maxdim", 3)
	m := verifChoose("m", -1, hi)
	n := verifChoose("n", -1, hi)
	kL := verifChoose("kL", -1, verifParam("maxk", 1)+1) // kL != kU must occur
	kU := verifChoose("kU", -1, verifParam("maxk", 1)+1)
	lda := verifInt("lda", 0, 5)
	incX := verifInt("incX", -2, 2)
	incY := verifInt("incY", -2, 2)
	ab, a := verifC07slice("a")
	xb, x := verifC07slice("x")
	yb, y := verifC07slice("y")
	alpha, beta := verifFloat("alpha"), verifFloat("beta")
	a0, x0, y0 := verifC01clone(ab), verifC01clone(xb), verifC01clone(yb)
	panicked, fault, msg := verifCatch(func() {
		Implementation{}.Dgbmv(tA, m, n, kL, kU, alpha, a, lda, x, incX, beta, y, incY)
	})
	lenX := verifIteInt(tA == blas.NoTrans, n, m)
	lenY := verifIteInt(tA == blas.NoTrans, m, n)
	empty := verifOr(m == 0, n == 0)
	scalars := verifC07and(verifC07transOK(tA), m >= 0, n >= 0, kL >= 0, kU >= 0, lda >= kL+kU+1, incX != 0, incY != 0)
	vecs := verifAnd(verifC07vecOK(lenX, incX, len(x)), verifC07vecOK(lenY, incY, len(y)))
	// extent of the addressed band elements (concrete m, n, kL, kU)
	r := m
	if n+kL < r {
		r = n + kL
	}
	r-- // last row holding band elements
	jmax := n - 1
	if r+kU < jmax {
		jmax = r + kU
	}
	extent := r*lda + kL + jmax - r + 1
	accept := verifAnd(scalars, verifOr(empty, verifAnd(vecs, len(a) >= lda*(m-1)+kL+kU+1)))
	reject := verifOr(verifNot(scalars), verifAnd(verifNot(empty), verifOr(verifNot(vecs), len(a) < extent)))
	verifC07verdict2("Dgbmv", accept, reject, panicked, fault, msg, [][]float64{ab, xb, yb}, [][]float64{a0, x0, y0})
}

// triangular matrix-vector family (dense storage)
func verifC07trv(name string, call func(ul blas.Uplo, tA blas.Transpose, d blas.Diag, n int, a []float64, lda int, x []float64, incX int)) {
	ul := blas.Uplo(verifByte("ul"))
	tA := blas.Transpose(verifByte("tA"))
	d := blas.Diag(verifByte("d"))
	n := verifC07dim("n")
	lda := verifInt("lda", 0, 5)
	incX := verifInt("incX", -2, 2)
	ab, a := verifC07slice("a")
	xb, x := verifC07slice("x")
	verifC07nonzero(ab)
	a0, x0 := verifC01clone(ab), verifC01clone(xb)
	panicked, fault, msg := verifCatch(func() { call(ul, tA, d, n, a, lda, x, incX) })
	valid := verifC07and(verifC07uploOK(ul), verifC07transOK(tA), verifC07diagOK(d), n >= 0, lda >= verifC07maxI(1, n), incX != 0,
		verifOr(n == 0, verifAnd(verifC07vecOK(n, incX, len(x)), verifC07matOK(n, n, lda, len(a)))))
	verifC07verdict(name, valid, panicked, fault, msg, [][]float64{ab, xb}, [][]float64{a0, x0})
}

func VerifC07_Dtrmv() { verifC07trv("Dtrmv", Implementation{}.Dtrmv) }
func VerifC07_Dtrsv() { verifC07trv("Dtrsv", Implementation{}.Dtrsv) }

// triangular packed family: len(ap) >= n*(n+1)/2
func verifC07tpv(name string, call func(ul blas.Uplo, tA blas.Transpose, d blas.Diag, n int, ap []float64, x []float64, incX int)) {
	ul := blas.Uplo(verifByte("ul"))
	tA := blas.Transpose(verifByte("tA"))
	d := blas.Diag(verifByte("d"))
	n := verifC07dim("n")
	incX := verifInt("incX", -2, 2)
	ab, a := verifC07slice("ap")
	xb, x := verifC07slice("x")
	verifC07nonzero(ab)
	a0, x0 := verifC01clone(ab), verifC01clone(xb)
	panicked, fault, msg := verifCatch(func() { call(ul, tA, d, n, a, x, incX) })
	valid := verifC07and(verifC07uploOK(ul), verifC07transOK(tA), verifC07diagOK(d), n >= 0, incX != 0,
		verifOr(n == 0, verifAnd(verifC07vecOK(n, incX, len(x)), len(a) >= n*(n+1)/2)))
	verifC07verdict(name, valid, panicked, fault, msg, [][]float64{ab, xb}, [][]float64{a0, x0})
}

func VerifC07_Dtpmv() { verifC07tpv("Dtpmv", Implementation{}.Dtpmv) }
func VerifC07_Dtpsv() { verifC07tpv("Dtpsv", Implementation{}.Dtpsv) }

// band extents of a triangular / symmetric band matrix (n > 0, k >= 0 concrete)
func verifC07bandAcceptReject(ul blas.Uplo, n, k, lda, la int) (storageOK, addressedOK bool) {
	storageOK = la >= lda*(n-1)+k+1
	// Upper: the last row holds only the diagonal element at column 0 of the band row;
	// Lower: the diagonal is at column k.
	addressedOK = verifIteInt(ul == blas.Upper, lda*(n-1)+1, lda*(n-1)+k+1) <= la
	return storageOK, addressedOK
}

// triangular band family: lda >= k+1
func verifC07tbv(name string, call func(ul blas.Uplo, tA blas.Transpose, d blas.Diag, n, k int, a []float64, lda int, x []float64, incX int)) {
	ul := blas.Uplo(verifByte("ul"))
	tA := blas.Transpose(verifByte("tA"))
	d := blas.Diag(verifByte("d"))
	n := verifC07dim("n")
	k := verifChoose("k", -1, verifParam("maxk", 1)+1)
	lda := verifInt("lda", 0, 5)
	incX := verifInt("incX", -2, 2)
	ab, a := verifC07slice("a")
	xb, x := verifC07slice("x")
	verifC07nonzero(ab)
	a0, x0 := verifC01clone(ab), verifC01clone(xb)
	panicked, fault, msg := verifCatch(func() { call(ul, tA, d, n, k, a, lda, x, incX) })
	scalars := verifC07and(verifC07uploOK(ul), verifC07transOK(tA), verifC07diagOK(d), n >= 0, k >= 0, lda >= k+1, incX != 0)
	storageOK, addressedOK := verifC07bandAcceptReject(ul, n, k, lda, len(a))
	vec := verifC07vecOK(n, incX, len(x))
	accept := verifAnd(scalars, verifOr(n == 0, verifAnd(vec, storageOK)))
	reject := verifOr(verifNot(scalars), verifAnd(n != 0, verifOr(verifNot(vec), verifNot(addressedOK))))
	verifC07verdict2(name, accept, reject, panicked, fault, msg, [][]float64{ab, xb}, [][]float64{a0, x0})
}

func VerifC07_Dtbmv() { verifC07tbv("Dtbmv", Implementation{}.Dtbmv) }
func VerifC07_Dtbsv() { verifC07tbv("Dtbsv", Implementation{}.Dtbsv) }

func VerifC07_Dsymv() {
	ul := blas.Uplo(verifByte("ul"))
	n := verifC07dim("n")
	lda := verifInt("lda", 0, 5)
	incX := verifInt("incX", -2, 2)
	incY := verifInt("incY", -2, 2)
	ab, a := verifC07slice("a")
	xb, x := verifC07slice("x")
	yb, y := verifC07slice("y")
	alpha, beta := verifFloat("alpha"), verifFloat("beta")
	a0, x0, y0 := verifC01clone(ab), verifC01clone(xb), verifC01clone(yb)
	panicked, fault, msg := verifCatch(func() { Implementation{}.Dsymv(ul, n, alpha, a, lda, x, incX, beta, y, incY) })
	valid := verifC07and(verifC07uploOK(ul), n >= 0, lda >= verifC07maxI(1, n), incX != 0, incY != 0,
		verifOr(n == 0, verifC07and(verifC07vecOK(n, incX, len(x)), verifC07vecOK(n, incY, len(y)), verifC07matOK(n, n, lda, len(a)))))
	verifC07verdict("Dsymv", valid, panicked, fault, msg, [][]float64{ab, xb, yb}, [][]float64{a0, x0, y0})
}

func VerifC07_Dsbmv() {
	ul := blas.Uplo(verifByte("ul"))
	n := verifC07dim("n")
	k := verifChoose("k", -1, verifParam("maxk", 1)+1)
	lda := verifInt("lda", 0, 5)
	incX := verifInt("incX", -2, 2)
	incY := verifInt("incY", -2, 2)
	ab, a := verifC07slice("a")
	xb, x := verifC07slice("x")
	yb, y := verifC07slice("y")
	alpha, beta := verifFloat("alpha"), verifFloat("beta")
	a0, x0, y0 := verifC01clone(ab), verifC01clone(xb), verifC01clone(yb)
	panicked, fault, msg := verifCatch(func() { Implementation{}.Dsbmv(ul, n, k, alpha, a, lda, x, incX, beta, y, incY) })
	scalars := verifC07and(verifC07uploOK(ul), n >= 0, k >= 0, lda >= k+1, incX != 0, incY != 0)
	storageOK, addressedOK := verifC07bandAcceptReject(ul, n, k, lda, len(a))
	vecs := verifAnd(verifC07vecOK(n, incX, len(x)), verifC07vecOK(n, incY, len(y)))
	accept := verifAnd(scalars, verifOr(n == 0, verifAnd(vecs, storageOK)))
	reject := verifOr(verifNot(scalars), verifAnd(n != 0, verifOr(verifNot(vecs), verifNot(addressedOK))))
	verifC07verdict2("Dsbmv", accept, reject, panicked, fault, msg, [][]float64{ab, xb, yb}, [][]float64{a0, x0, y0})
}

func VerifC07_Dspmv() {
	ul := blas.Uplo(verifByte("ul"))
	n := verifC07dim("n")
	incX := verifInt("incX", -2, 2)
	incY := verifInt("incY", -2, 2)
	ab, a := verifC07slice("ap")
	xb, x := verifC07slice("x")
	yb, y := verifC07slice("y")
	alpha, beta := verifFloat("alpha"), verifFloat("beta")
	a0, x0, y0 := verifC01clone(ab), verifC01clone(xb), verifC01clone(yb)
	panicked, fault, msg := verifCatch(func() { Implementation{}.Dspmv(ul, n, alpha, a, x, incX, beta, y, incY) })
	valid := verifC07and(verifC07uploOK(ul), n >= 0, incX != 0, incY != 0,
		verifOr(n == 0, verifC07and(verifC07vecOK(n, incX, len(x)), verifC07vecOK(n, incY, len(y)), len(a) >= n*(n+1)/2)))
	verifC07verdict("Dspmv", valid, panicked, fault, msg, [][]float64{ab, xb, yb}, [][]float64{a0, x0, y0})
}

func VerifC07_Dsyr() {
	ul := blas.Uplo(verifByte("ul"))
	n := verifC07dim("n")
	lda := verifInt("lda", 0, 5)
	incX := verifInt("incX", -2, 2)
	ab, a := verifC07slice("a")
	xb, x := verifC07slice("x")
	alpha := verifFloat("alpha")
	a0, x0 := verifC01clone(ab), verifC01clone(xb)
	panicked, fault, msg := verifCatch(func() { Implementation{}.Dsyr(ul, n, alpha, x, incX, a, lda) })
	valid := verifC07and(verifC07uploOK(ul), n >= 0, lda >= verifC07maxI(1, n), incX != 0,
		verifOr(n == 0, verifAnd(verifC07vecOK(n, incX, len(x)), verifC07matOK(n, n, lda, len(a)))))
	verifC07verdict("Dsyr", valid, panicked, fault, msg, [][]float64{ab, xb}, [][]float64{a0, x0})
}

func VerifC07_Dsyr2() {
	ul := blas.Uplo(verifByte("ul"))
	n := verifC07dim("n")
	lda := verifInt("lda", 0, 5)
	incX := verifInt("incX", -2, 2)
	incY := verifInt("incY", -2, 2)
	ab, a := verifC07slice("a")
	xb, x := verifC07slice("x")
	yb, y := verifC07slice("y")
	alpha := verifFloat("alpha")
	a0, x0, y0 := verifC01clone(ab), verifC01clone(xb), verifC01clone(yb)
	panicked, fault, msg := verifCatch(func() { Implementation{}.Dsyr2(ul, n, alpha, x, incX, y, incY, a, lda) })
	valid := verifC07and(verifC07uploOK(ul), n >= 0, lda >= verifC07maxI(1, n), incX != 0, incY != 0,
		verifOr(n == 0, verifC07and(verifC07vecOK(n, incX, len(x)), verifC07vecOK(n, incY, len(y)), verifC07matOK(n, n, lda, len(a)))))
	verifC07verdict("Dsyr2", valid, panicked, fault, msg, [][]float64{ab, xb, yb}, [][]float64{a0, x0, y0})
}

func VerifC07_Dspr() {
	ul := blas.Uplo(verifByte("ul"))
	n := verifC07dim("n")
	incX := verifInt("incX", -2, 2)
	ab, a := verifC07slice("ap")
	xb, x := verifC07slice("x")
	alpha := verifFloat("alpha")
	a0, x0 := verifC01clone(ab), verifC01clone(xb)
	panicked, fault, msg := verifCatch(func() { Implementation{}.Dspr(ul, n, alpha, x, incX, a) })
	valid := verifC07and(verifC07uploOK(ul), n >= 0, incX != 0,
		verifOr(n == 0, verifAnd(verifC07vecOK(n, incX, len(x)), len(a) >= n*(n+1)/2)))
	verifC07verdict("Dspr", valid, panicked, fault, msg, [][]float64{ab, xb}, [][]float64{a0, x0})
}

func VerifC07_Dspr2() {
	ul := blas.Uplo(verifByte("ul"))
	n := verifC07dim("n")
	incX := verifInt("incX", -2, 2)
	incY := verifInt("incY", -2, 2)
	ab, a := verifC07slice("ap")
	xb, x := verifC07slice("x")
	yb, y := verifC07slice("y")
	alpha := verifFloat("alpha")
	a0, x0, y0 := verifC01clone(ab), verifC01clone(xb), verifC01clone(yb)
	panicked, fault, msg := verifCatch(func() { Implementation{}.Dspr2(ul, n, alpha, x, incX, y, incY, a) })
	valid := verifC07and(verifC07uploOK(ul), n >= 0, incX != 0, incY != 0,
		verifOr(n == 0, verifC07and(verifC07vecOK(n, incX, len(x)), verifC07vecOK(n, incY, len(y)), len(a) >= n*(n+1)/2)))
	verifC07verdict("Dspr2", valid, panicked, fault, msg, [][]float64{ab, xb, yb}, [][]float64{a0, x0, y0})
}

// ---------------- Level 3 ----------------

// verifC07scal: symbolic alpha and beta. The Level 3 harnesses assume non-zero matrix cells so that
// the "tmp != 0" guards of the kernels do not double the path count (values are irrelevant for
// the argument contract; the alpha == 0, beta == 0 and beta == 1 branches are still explored).
func verifC07scal() (alpha, beta float64) {
	return verifFloat("alpha"), verifFloat("beta")
}

func verifC07dim3(name string) int {
	hi := verifParam("maxdim3", 2)
	if verifParam("dimsym", 0) == 1 {
		return verifInt(name, -1, hi)
	}
	return verifChoose(name, -1, hi)
}

// verifC07matAddrOK: every addressed element of a rows x cols matrix lies inside l cells
// (nothing is addressed when a dimension is zero).
func verifC07matAddrOK(rows, cols, ld, l int) bool {
	return verifOr(verifOr(rows <= 0, cols <= 0), l >= ld*(rows-1)+cols)
}

func VerifC07_Dgemm() {
	tA := blas.Transpose(verifByte("tA"))
	tB := blas.Transpose(verifByte("tB"))
	m, n, k := verifC07dim3("m"), verifC07dim3("n"), verifC07dim3("k")
	lda, ldb, ldc := verifInt("lda", 0, 4), verifInt("ldb", 0, 4), verifInt("ldc", 0, 4)
	ab, a := verifC07slice("a")
	bb, b := verifC07slice("b")
	cb, c := verifC07slice("c")
	verifC07nonzero(ab)
	verifC07nonzero(bb)
	alpha, beta := verifC07scal()
	a0, b0, c0 := verifC01clone(ab), verifC01clone(bb), verifC01clone(cb)
	panicked, fault, msg := verifCatch(func() {
		Implementation{}.Dgemm(tA, tB, m, n, k, alpha, a, lda, b, ldb, beta, c, ldc)
	})
	rowsA, colsA := verifIteInt(tA == blas.NoTrans, m, k), verifIteInt(tA == blas.NoTrans, k, m)
	rowsB, colsB := verifIteInt(tB == blas.NoTrans, k, n), verifIteInt(tB == blas.NoTrans, n, k)
	scalars := verifC07and(verifC07transOK(tA), verifC07transOK(tB), m >= 0, n >= 0, k >= 0,
		lda >= verifC07maxI(1, colsA), ldb >= verifC07maxI(1, colsB), ldc >= verifC07maxI(1, n))
	empty := verifOr(m == 0, n == 0)
	storage := verifC07and(verifC07matOK(rowsA, colsA, lda, len(a)), verifC07matOK(rowsB, colsB, ldb, len(b)), verifC07matOK(m, n, ldc, len(c)))
	addressed := verifC07and(verifC07matAddrOK(rowsA, colsA, lda, len(a)), verifC07matAddrOK(rowsB, colsB, ldb, len(b)), verifC07matAddrOK(m, n, ldc, len(c)))
	accept := verifAnd(scalars, verifOr(empty, storage))
	reject := verifOr(verifNot(scalars), verifAnd(verifNot(empty), verifNot(addressed)))
	verifC07verdict2("Dgemm", accept, reject, panicked, fault, msg, [][]float64{ab, bb, cb}, [][]float64{a0, b0, c0})
}

func verifC07trm(name string, call func(s blas.Side, ul blas.Uplo, tA blas.Transpose, d blas.Diag, m, n int, alpha float64, a []float64, lda int, b []float64, ldb int)) {
	s := blas.Side(verifByte("s"))
	ul := blas.Uplo(verifByte("ul"))
	tA := blas.Transpose(verifByte("tA"))
	d := blas.Diag(verifByte("d"))
	m, n := verifC07dim3("m"), verifC07dim3("n")
	lda, ldb := verifInt("lda", 0, 4), verifInt("ldb", 0, 4)
	ab, a := verifC07slice("a")
	bb, b := verifC07slice("b")
	verifC07nonzero(ab)
	verifC07nonzero(bb)
	alpha, _ := verifC07scal()
	a0, b0 := verifC01clone(ab), verifC01clone(bb)
	panicked, fault, msg := verifCatch(func() { call(s, ul, tA, d, m, n, alpha, a, lda, b, ldb) })
	ka := verifIteInt(s == blas.Left, m, n)
	scalars := verifC07and(verifC07sideOK(s), verifC07uploOK(ul), verifC07transOK(tA), verifC07diagOK(d), m >= 0, n >= 0,
		lda >= verifC07maxI(1, ka), ldb >= verifC07maxI(1, n))
	empty := verifOr(m == 0, n == 0)
	valid := verifAnd(scalars, verifOr(empty, verifAnd(verifC07matOK(ka, ka, lda, len(a)), verifC07matOK(m, n, ldb, len(b)))))
	verifC07verdict(name, valid, panicked, fault, msg, [][]float64{ab, bb}, [][]float64{a0, b0})
}

func VerifC07_Dtrsm() { verifC07trm("Dtrsm", Implementation{}.Dtrsm) }
func VerifC07_Dtrmm() { verifC07trm("Dtrmm", Implementation{}.Dtrmm) }

func VerifC07_Dsymm() {
	s := blas.Side(verifByte("s"))
	ul := blas.Uplo(verifByte("ul"))
	m, n := verifC07dim3("m"), verifC07dim3("n")
	lda, ldb, ldc := verifInt("lda", 0, 4), verifInt("ldb", 0, 4), verifInt("ldc", 0, 4)
	ab, a := verifC07slice("a")
	bb, b := verifC07slice("b")
	cb, c := verifC07slice("c")
	verifC07nonzero(ab)
	verifC07nonzero(bb)
	alpha, beta := verifC07scal()
	a0, b0, c0 := verifC01clone(ab), verifC01clone(bb), verifC01clone(cb)
	panicked, fault, msg := verifCatch(func() { Implementation{}.Dsymm(s, ul, m, n, alpha, a, lda, b, ldb, beta, c, ldc) })
	ka := verifIteInt(s == blas.Left, m, n)
	scalars := verifC07and(verifC07sideOK(s), verifC07uploOK(ul), m >= 0, n >= 0,
		lda >= verifC07maxI(1, ka), ldb >= verifC07maxI(1, n), ldc >= verifC07maxI(1, n))
	empty := verifOr(m == 0, n == 0)
	valid := verifAnd(scalars, verifOr(empty, verifC07and(verifC07matOK(ka, ka, lda, len(a)), verifC07matOK(m, n, ldb, len(b)), verifC07matOK(m, n, ldc, len(c)))))
	verifC07verdict("Dsymm", valid, panicked, fault, msg, [][]float64{ab, bb, cb}, [][]float64{a0, b0, c0})
}

func VerifC07_Dsyrk() {
	ul := blas.Uplo(verifByte("ul"))
	tA := blas.Transpose(verifByte("tA"))
	n, k := verifC07dim3("n"), verifC07dim3("k")
	lda, ldc := verifInt("lda", 0, 4), verifInt("ldc", 0, 4)
	ab, a := verifC07slice("a")
	cb, c := verifC07slice("c")
	verifC07nonzero(ab)
	alpha, beta := verifC07scal()
	a0, c0 := verifC01clone(ab), verifC01clone(cb)
	panicked, fault, msg := verifCatch(func() { Implementation{}.Dsyrk(ul, tA, n, k, alpha, a, lda, beta, c, ldc) })
	rowsA, colsA := verifIteInt(tA == blas.NoTrans, n, k), verifIteInt(tA == blas.NoTrans, k, n)
	scalars := verifC07and(verifC07uploOK(ul), verifC07transOK(tA), n >= 0, k >= 0, lda >= verifC07maxI(1, colsA), ldc >= verifC07maxI(1, n))
	accept := verifAnd(scalars, verifOr(n == 0, verifAnd(verifC07matOK(rowsA, colsA, lda, len(a)), verifC07matOK(n, n, ldc, len(c)))))
	reject := verifOr(verifNot(scalars), verifAnd(n != 0, verifNot(verifAnd(verifC07matAddrOK(rowsA, colsA, lda, len(a)), verifC07matAddrOK(n, n, ldc, len(c))))))
	verifC07verdict2("Dsyrk", accept, reject, panicked, fault, msg, [][]float64{ab, cb}, [][]float64{a0, c0})
}

func VerifC07_Dsyr2k() {
	ul := blas.Uplo(verifByte("ul"))
	tA := blas.Transpose(verifByte("tA"))
	n, k := verifC07dim3("n"), verifC07dim3("k")
	lda, ldb, ldc := verifInt("lda", 0, 4), verifInt("ldb", 0, 4), verifInt("ldc", 0, 4)
	ab, a := verifC07slice("a")
	bb, b := verifC07slice("b")
	cb, c := verifC07slice("c")
	verifC07nonzero(ab)
	verifC07nonzero(bb)
	alpha, beta := verifC07scal()
	a0, b0, c0 := verifC01clone(ab), verifC01clone(bb), verifC01clone(cb)
	panicked, fault, msg := verifCatch(func() { Implementation{}.Dsyr2k(ul, tA, n, k, alpha, a, lda, b, ldb, beta, c, ldc) })
	rowsA, colsA := verifIteInt(tA == blas.NoTrans, n, k), verifIteInt(tA == blas.NoTrans, k, n)
	scalars := verifC07and(verifC07uploOK(ul), verifC07transOK(tA), n >= 0, k >= 0,
		lda >= verifC07maxI(1, colsA), ldb >= verifC07maxI(1, colsA), ldc >= verifC07maxI(1, n))
	accept := verifAnd(scalars, verifOr(n == 0, verifC07and(verifC07matOK(rowsA, colsA, lda, len(a)), verifC07matOK(rowsA, colsA, ldb, len(b)), verifC07matOK(n, n, ldc, len(c)))))
	reject := verifOr(verifNot(scalars), verifAnd(n != 0, verifNot(verifC07and(verifC07matAddrOK(rowsA, colsA, lda, len(a)), verifC07matAddrOK(rowsA, colsA, ldb, len(b)), verifC07matAddrOK(n, n, ldc, len(c))))))
	verifC07verdict2("Dsyr2k", accept, reject, panicked, fault, msg, [][]float64{ab, bb, cb}, [][]float64{a0, b0, c0})
}
