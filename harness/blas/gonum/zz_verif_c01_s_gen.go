// Code generated from the float64 C01 harnesses by gen_s.py (see notes/C01.md); DO NOT EDIT.

package gonum

import "gonum.org/v1/gonum/blas"

func verifC01sameF32(a, b float32) bool { return verifSame(float64(a), float64(b)) }

func verifC01eqF32(a, b float32, msg string) { verifAssertEqF(float64(a), float64(b), msg) }

// VerifC01_Saxpy: y[i] += alpha*x[i] on exactly the addressed elements.
func VerifC01_Saxpy() {
	n := verifChoose("n", 0, verifParam("l1n", 4))
	incX := verifChoose("incX", -2, 2)
	incY := verifChoose("incY", -2, 2)
	if incX == 0 || incY == 0 {
		return
	}
	slack := verifChoose("slack", 0, 1)
	lx := 1 + (n-1)*verifAbs(incX) + slack
	ly := 1 + (n-1)*verifAbs(incY) + slack
	if n == 0 {
		lx, ly = slack, slack
	}
	x := verifFloat32s("x", lx)
	y := verifFloat32s("y", ly)
	alpha := verifFloat32("alpha")
	x0 := append([]float32(nil), x...)
	y0 := append([]float32(nil), y...)
	Implementation{}.Saxpy(n, alpha, x, incX, y, incY)
	for i := range x {
		verifAssert(verifC01sameF32(x[i], x0[i]), "Saxpy: x unchanged")
	}
	want := append([]float32(nil), y0...)
	for i := 0; i < n; i++ {
		want[verifVecIdx(n, incY, i)] = y0[verifVecIdx(n, incY, i)] + alpha*x0[verifVecIdx(n, incX, i)]
	}
	for i := range y {
		verifC01eqF32(y[i], want[i], "Saxpy: y = alpha*x + y on addressed elements, rest untouched")
	}
	verifReach("end")
}

// VerifC01_Sgemv: y = alpha*op(A)*x + beta*y; padding, slack and operands untouched.
func VerifC01_Sgemv() {
	maxN := verifParam("l2n", 3)
	tA := blas.NoTrans
	if verifChoose("trans", 0, 1) == 1 {
		tA = blas.Trans
	}
	m := verifChoose("m", 0, maxN)
	n := verifChoose("n", 0, maxN)
	lda := n + verifChoose("ldaPad", 0, 1)
	if lda < 1 {
		lda = 1
	}
	incX := verifChoose("incX", -2, 2)
	incY := verifChoose("incY", -1, 2)
	if incX == 0 || incY == 0 {
		return
	}
	slack := verifChoose("slack", 0, 1)
	lenX, lenY := n, m
	if tA == blas.Trans {
		lenX, lenY = m, n
	}
	la := 0
	if m > 0 {
		la = lda*(m-1) + n
	}
	a := verifFloat32s("a", la+slack)
	lx, ly := slack, slack
	if lenX > 0 {
		lx = 1 + (lenX-1)*verifAbs(incX) + slack
	}
	if lenY > 0 {
		ly = 1 + (lenY-1)*verifAbs(incY) + slack
	}
	x := verifFloat32s("x", lx)
	y := verifFloat32s("y", ly)
	alpha := verifFloat32("alpha")
	beta := verifFloat32("beta")
	ab := verifChoose("alphabeta", 0, 3) // special scalar values
	switch ab {
	case 1:
		alpha = 0
	case 2:
		beta = 0
	case 3:
		beta = 1
	}
	a0 := append([]float32(nil), a...)
	x0 := append([]float32(nil), x...)
	y0 := append([]float32(nil), y...)
	Implementation{}.Sgemv(tA, m, n, alpha, a, lda, x, incX, beta, y, incY)
	for i := range a {
		verifAssert(verifC01sameF32(a[i], a0[i]), "Sgemv: A unchanged")
	}
	for i := range x {
		verifAssert(verifC01sameF32(x[i], x0[i]), "Sgemv: x unchanged")
	}
	want := append([]float32(nil), y0...)
	for i := 0; i < lenY && m > 0 && n > 0; i++ { // m==0 or n==0: documented BLAS quick return
		var s float32
		for j := 0; j < lenX; j++ {
			var aij float32
			if tA == blas.NoTrans {
				aij = a0[i*lda+j]
			} else {
				aij = a0[j*lda+i]
			}
			s += aij * x0[verifVecIdx(lenX, incX, j)]
		}
		yi := verifVecIdx(lenY, incY, i)
		want[yi] = alpha*s + beta*y0[yi]
	}
	for i := range y {
		verifC01eqF32(y[i], want[i], "Sgemv: y = alpha*op(A)*x + beta*y on addressed elements, rest untouched")
	}
	verifReach("end")
}

// Shared helpers of the C01 harnesses (prefix verifC01).

// verifC01vlenS: backing length of a strided vector with n elements plus slack cells.
func verifC01vlenS(n, inc, slack int) int {
	if n <= 0 {
		return slack
	}
	return 1 + (n-1)*verifAbs(inc) + slack
}

func verifC01cloneS(s []float32) []float32 { return append([]float32(nil), s...) }

func verifC01sameS(got, want []float32, msg string) {
	for i := range got {
		verifAssert(verifC01sameF32(got[i], want[i]), msg)
	}
}

func verifC01eqS(got, want []float32, msg string) {
	for i := range got {
		verifC01eqF32(got[i], want[i], msg)
	}
}

func verifC01absFS(x float32) float32 {
	return float32(verifIteF(x < 0, float64(-x), float64(x)))
}

// verifC01incS: case split over the non-zero increments -2,-1,1,2.
func verifC01incS(name string) int {
	v := verifChoose(name, 0, 3)
	switch v {
	case 0:
		return -2
	case 1:
		return -1
	case 2:
		return 1
	}
	return 2
}

// verifC01posincS: case split over positive increments 1..3.
func verifC01posincS(name string) int { return verifChoose(name, 1, 3) }

// VerifC01_Sdot: result = sum x[i]*y[i] over the addressed elements; x, y unchanged.
func VerifC01_Sdot() {
	n := verifChoose("n", 0, verifParam("l1n", 4))
	incX := verifC01incS("incX")
	incY := verifC01incS("incY")
	slack := verifChoose("slack", 0, 1)
	x := verifFloat32s("x", verifC01vlenS(n, incX, slack))
	y := verifFloat32s("y", verifC01vlenS(n, incY, slack))
	x0, y0 := verifC01cloneS(x), verifC01cloneS(y)
	got := Implementation{}.Sdot(n, x, incX, y, incY)
	verifC01sameS(x, x0, "Sdot: x unchanged")
	verifC01sameS(y, y0, "Sdot: y unchanged")
	var want float32
	for i := 0; i < n; i++ {
		want += x0[verifVecIdx(n, incX, i)] * y0[verifVecIdx(n, incY, i)]
	}
	verifC01eqF32(got, want, "Sdot: sum of products of addressed elements")
	verifReach("end")
}

// VerifC01_Sscal: x[i] *= alpha on addressed elements (alpha symbolic, and concrete 0 / 1).
func VerifC01_Sscal() {
	n := verifChoose("n", 0, verifParam("l1n", 4)+1)
	incX := verifC01posincS("incX")
	slack := verifChoose("slack", 0, 1)
	x := verifFloat32s("x", verifC01vlenS(n, incX, slack))
	alpha := verifFloat32("alpha")
	switch verifChoose("alphaKind", 0, 2) {
	case 1:
		alpha = 0
	case 2:
		alpha = 1
	}
	x0 := verifC01cloneS(x)
	Implementation{}.Sscal(n, alpha, x, incX)
	want := verifC01cloneS(x0)
	for i := 0; i < n; i++ {
		want[i*incX] = alpha * x0[i*incX]
	}
	verifC01eqS(x, want, "Sscal: x = alpha*x on addressed elements, rest untouched")
	// skipped slots and slack are bit-identical
	for i := range x {
		if n == 0 || i%incX != 0 || i/incX >= n {
			verifAssert(verifC01sameF32(x[i], x0[i]), "Sscal: unaddressed slot untouched")
		}
	}
	verifReach("end")
}

// VerifC01_SscalNegInc: documented: Dscal has no effect if incX < 0.
func VerifC01_SscalNegInc() {
	n := verifChoose("n", 0, 3)
	incX := -verifChoose("negIncX", 1, 2)
	slack := verifChoose("slack", 0, 1)
	x := verifFloat32s("x", verifC01vlenS(n, incX, slack))
	alpha := verifFloat32("alpha")
	x0 := verifC01cloneS(x)
	Implementation{}.Sscal(n, alpha, x, incX)
	verifC01sameS(x, x0, "Sscal: no effect for negative increment")
	verifReach("end")
}

// VerifC01_Scopy: y[i] = x[i] on addressed elements; x and the rest of y unchanged.
func VerifC01_Scopy() {
	n := verifChoose("n", 0, verifParam("l1n", 4))
	incX := verifC01incS("incX")
	incY := verifC01incS("incY")
	slack := verifChoose("slack", 0, 1)
	x := verifFloat32s("x", verifC01vlenS(n, incX, slack))
	y := verifFloat32s("y", verifC01vlenS(n, incY, slack))
	x0, y0 := verifC01cloneS(x), verifC01cloneS(y)
	Implementation{}.Scopy(n, x, incX, y, incY)
	verifC01sameS(x, x0, "Scopy: x unchanged")
	want := verifC01cloneS(y0)
	for i := 0; i < n; i++ {
		want[verifVecIdx(n, incY, i)] = x0[verifVecIdx(n, incX, i)]
	}
	verifC01sameS(y, want, "Scopy: y[i] = x[i] bit for bit on addressed elements, rest untouched")
	verifReach("end")
}

// VerifC01_Sswap: x[i], y[i] exchanged on addressed elements; everything else unchanged.
func VerifC01_Sswap() {
	n := verifChoose("n", 0, verifParam("l1n", 4))
	incX := verifC01incS("incX")
	incY := verifC01incS("incY")
	slack := verifChoose("slack", 0, 1)
	x := verifFloat32s("x", verifC01vlenS(n, incX, slack))
	y := verifFloat32s("y", verifC01vlenS(n, incY, slack))
	x0, y0 := verifC01cloneS(x), verifC01cloneS(y)
	Implementation{}.Sswap(n, x, incX, y, incY)
	wx, wy := verifC01cloneS(x0), verifC01cloneS(y0)
	for i := 0; i < n; i++ {
		ix, iy := verifVecIdx(n, incX, i), verifVecIdx(n, incY, i)
		wx[ix], wy[iy] = y0[iy], x0[ix]
	}
	verifC01sameS(x, wx, "Sswap: x gets y bit for bit on addressed elements, rest untouched")
	verifC01sameS(y, wy, "Sswap: y gets x bit for bit on addressed elements, rest untouched")
	verifReach("end")
}

// VerifC01_Srot: x[i] = c*x[i]+s*y[i], y[i] = c*y[i]-s*x[i].
func VerifC01_Srot() {
	n := verifChoose("n", 0, verifParam("l1n", 4))
	incX := verifC01incS("incX")
	incY := verifC01incS("incY")
	slack := verifChoose("slack", 0, 1)
	x := verifFloat32s("x", verifC01vlenS(n, incX, slack))
	y := verifFloat32s("y", verifC01vlenS(n, incY, slack))
	c, s := verifFloat32("c"), verifFloat32("s")
	x0, y0 := verifC01cloneS(x), verifC01cloneS(y)
	Implementation{}.Srot(n, x, incX, y, incY, c, s)
	wx, wy := verifC01cloneS(x0), verifC01cloneS(y0)
	for i := 0; i < n; i++ {
		ix, iy := verifVecIdx(n, incX, i), verifVecIdx(n, incY, i)
		wx[ix] = c*x0[ix] + s*y0[iy]
		wy[iy] = c*y0[iy] - s*x0[ix]
	}
	verifC01eqS(x, wx, "Srot: x = c*x+s*y on addressed elements, rest untouched")
	verifC01eqS(y, wy, "Srot: y = c*y-s*x on addressed elements, rest untouched")
	for i := range x {
		if n == 0 || i%verifAbs(incX) != 0 {
			verifAssert(verifC01sameF32(x[i], x0[i]), "Srot: skipped x slot untouched")
		}
	}
	for i := range y {
		if n == 0 || i%verifAbs(incY) != 0 {
			verifAssert(verifC01sameF32(y[i], y0[i]), "Srot: skipped y slot untouched")
		}
	}
	verifReach("end")
}

// VerifC01_Srotm: [x;y] = H*[x;y] with H selected by the flag (reference BLAS drotm).
func VerifC01_Srotm() {
	n := verifChoose("n", 0, verifParam("l1n", 4)-1)
	incX := verifC01incS("incX")
	incY := verifC01incS("incY")
	slack := verifChoose("slack", 0, 1)
	flag := blas.Flag(verifChoose("flag", -2, 1))
	x := verifFloat32s("x", verifC01vlenS(n, incX, slack))
	y := verifFloat32s("y", verifC01vlenS(n, incY, slack))
	h := verifFloat32s("h", 4)
	var p blas.SrotmParams
	p.Flag = flag
	copy(p.H[:], h)
	x0, y0 := verifC01cloneS(x), verifC01cloneS(y)
	Implementation{}.Srotm(n, x, incX, y, incY, p)
	// H = [h11 h12; h21 h22] stored column major in p.H.
	var h11, h12, h21, h22 float32
	switch flag {
	case blas.Identity: // -2
		h11, h12, h21, h22 = 1, 0, 0, 1
	case blas.Rescaling: // -1
		h11, h21, h12, h22 = h[0], h[1], h[2], h[3]
	case blas.OffDiagonal: // 0
		h11, h21, h12, h22 = 1, h[1], h[2], 1
	case blas.Diagonal: // 1
		h11, h21, h12, h22 = h[0], -1, 1, h[3]
	}
	wx, wy := verifC01cloneS(x0), verifC01cloneS(y0)
	for i := 0; i < n; i++ {
		ix, iy := verifVecIdx(n, incX, i), verifVecIdx(n, incY, i)
		wx[ix] = h11*x0[ix] + h12*y0[iy]
		wy[iy] = h21*x0[ix] + h22*y0[iy]
	}
	verifC01eqS(x, wx, "Srotm: x = h11*x+h12*y on addressed elements, rest untouched")
	verifC01eqS(y, wy, "Srotm: y = h21*x+h22*y on addressed elements, rest untouched")
	verifReach("end")
}

// VerifC01_Sasum: result = sum |x[i]| over addressed elements; x unchanged.
func VerifC01_Sasum() {
	n := verifChoose("n", 0, verifParam("l1n", 4)+1)
	incX := verifC01posincS("incX")
	slack := verifChoose("slack", 0, 1)
	x := verifFloat32s("x", verifC01vlenS(n, incX, slack))
	x0 := verifC01cloneS(x)
	got := Implementation{}.Sasum(n, x, incX)
	verifC01sameS(x, x0, "Sasum: x unchanged")
	var want float32
	for i := 0; i < n; i++ {
		want += verifC01absFS(x0[i*incX])
	}
	verifC01eqF32(got, want, "Sasum: sum of |x[i]| over addressed elements")
	verifReach("end")
}

// VerifC01_Isamax: first index of the maximum |x[i]| over addressed elements; -1 for n==0.
func VerifC01_Isamax() {
	n := verifChoose("n", 0, verifParam("l1n", 4))
	incX := verifC01posincS("incX")
	slack := verifChoose("slack", 0, 1)
	x := verifFloat32s("x", verifC01vlenS(n, incX, slack))
	x0 := verifC01cloneS(x)
	got := Implementation{}.Isamax(n, x, incX)
	verifC01sameS(x, x0, "Isamax: x unchanged")
	if n == 0 {
		verifAssert(got == -1, "Isamax: -1 for n == 0")
		verifReach("end")
		return
	}
	verifAssert(verifAnd(got >= 0, got < n), "Isamax: index in range")
	for i := 0; i < n; i++ {
		if got == i { // fork on the result; at most n feasible values
			g := verifC01absFS(x0[i*incX])
			for j := 0; j < n; j++ {
				a := verifC01absFS(x0[j*incX])
				verifAssert(a <= g, "Isamax: |x[idx]| is the maximum")
				if j < i {
					verifAssert(a < g, "Isamax: earliest index among ties")
				}
			}
		}
	}
	verifReach("end")
}

// ---- flag splits ----

func verifC01transS(name string) blas.Transpose {
	switch verifChoose(name, 0, 2) {
	case 0:
		return blas.NoTrans
	case 1:
		return blas.Trans
	}
	return blas.ConjTrans
}

func verifC01uploS(name string) blas.Uplo {
	if verifChoose(name, 0, 1) == 0 {
		return blas.Upper
	}
	return blas.Lower
}

func verifC01diagS(name string) blas.Diag {
	if verifChoose(name, 0, 1) == 0 {
		return blas.NonUnit
	}
	return blas.Unit
}

// verifC01alphabetaS: generic symbolic alpha/beta plus the special concrete values
// alpha=0, beta=0, beta=1, alpha=0&&beta=1.
func verifC01alphabetaS() (alpha, beta float32) {
	alpha = verifFloat32("alpha")
	beta = verifFloat32("beta")
	switch verifChoose("alphabeta", 0, 4) {
	case 1:
		alpha = 0
	case 2:
		beta = 0
	case 3:
		beta = 1
	case 4:
		alpha, beta = 0, 1
	}
	return alpha, beta
}

// verifC01alphaS: symbolic alpha or concrete 0.
func verifC01alphaS() float32 {
	if verifChoose("alphaZero", 0, 1) == 1 {
		return 0
	}
	return verifFloat32("alpha")
}

func verifC01ldaS(cols int) int {
	lda := cols + verifChoose("ldaPad", 0, 1)
	if lda < 1 {
		lda = 1
	}
	return lda
}

// ---- dense expansions of the storage schemes (n x n, row major, flat) ----

// verifC01inTriS: (i,j) lies in the referenced triangle.
func verifC01inTriS(ul blas.Uplo, i, j int) bool {
	if ul == blas.Upper {
		return j >= i
	}
	return j <= i
}

// symmetric matrix from the referenced triangle of a dense backing
func verifC01denseSymS(ul blas.Uplo, n int, a []float32, lda int) []float32 {
	d := make([]float32, n*n)
	for i := 0; i < n; i++ {
		for j := 0; j < n; j++ {
			if verifC01inTriS(ul, i, j) {
				d[i*n+j] = a[i*lda+j]
			} else {
				d[i*n+j] = a[j*lda+i]
			}
		}
	}
	return d
}

// triangular matrix from the referenced triangle of a dense backing
func verifC01denseTriS(ul blas.Uplo, dg blas.Diag, n int, a []float32, lda int) []float32 {
	d := make([]float32, n*n)
	for i := 0; i < n; i++ {
		for j := 0; j < n; j++ {
			switch {
			case i == j && dg == blas.Unit:
				d[i*n+j] = 1
			case verifC01inTriS(ul, i, j):
				d[i*n+j] = a[i*lda+j]
			}
		}
	}
	return d
}

// index in row-major packed storage of element (i,j) of the referenced triangle
func verifC01packedIdxS(ul blas.Uplo, n, i, j int) int {
	if ul == blas.Upper {
		// rows i hold columns i..n-1; rows before i hold n, n-1, ... elements
		off := 0
		for r := 0; r < i; r++ {
			off += n - r
		}
		return off + j - i
	}
	off := 0
	for r := 0; r < i; r++ {
		off += r + 1
	}
	return off + j
}

// index in row-major band storage (k diagonals beside the main one) of element (i,j)
// of the referenced triangle; -1 if outside the band
func verifC01bandIdxS(ul blas.Uplo, k, lda, i, j int) int {
	if ul == blas.Upper {
		if j < i || j > i+k {
			return -1
		}
		return i*lda + j - i
	}
	if j > i || j < i-k {
		return -1
	}
	return i*lda + k + j - i
}

// verifC01denseFromIdxS builds a symmetric (sym) or triangular dense matrix from an
// index function of the referenced triangle.
func verifC01denseFromIdxS(ul blas.Uplo, sym bool, dg blas.Diag, n int, a []float32, idx func(i, j int) int) []float32 {
	d := make([]float32, n*n)
	for i := 0; i < n; i++ {
		for j := 0; j < n; j++ {
			p := -1
			if verifC01inTriS(ul, i, j) {
				p = idx(i, j)
			} else if sym {
				p = idx(j, i)
			}
			if p >= 0 {
				d[i*n+j] = a[p]
			}
			if i == j && !sym && dg == blas.Unit {
				d[i*n+j] = 1
			}
		}
	}
	return d
}

// op(D)[i][j] for a square n x n flat matrix
func verifC01opS(t blas.Transpose, d []float32, n, i, j int) float32 {
	if t == blas.NoTrans {
		return d[i*n+j]
	}
	return d[j*n+i]
}

// want = alpha*op(D)*x + beta*y on the addressed elements of y (D is n x n)
func verifC01mvRefS(t blas.Transpose, n int, alpha float32, d []float32, x0 []float32, incX int, beta float32, y0 []float32, incY int) []float32 {
	want := verifC01cloneS(y0)
	for i := 0; i < n; i++ {
		var s float32
		for j := 0; j < n; j++ {
			s += verifC01opS(t, d, n, i, j) * x0[verifVecIdx(n, incX, j)]
		}
		yi := verifVecIdx(n, incY, i)
		want[yi] = alpha*s + beta*y0[yi]
	}
	return want
}

// ---- general rank one ----

// VerifC01_Sger: A += alpha*x*yT on the m x n block; padding/slack and x, y untouched.
func VerifC01_Sger() {
	maxN := verifParam("l2n", 3)
	m := verifChoose("m", 0, maxN)
	n := verifChoose("n", 0, maxN)
	lda := verifC01ldaS(n)
	incX := verifC01incS("incX")
	incY := verifC01incS("incY")
	slack := verifChoose("slack", 0, 1)
	la := slack
	if m > 0 {
		la = lda*(m-1) + n + slack
	}
	a := verifFloat32s("a", la)
	x := verifFloat32s("x", verifC01vlenS(m, incX, slack))
	y := verifFloat32s("y", verifC01vlenS(n, incY, slack))
	alpha := verifC01alphaS()
	a0, x0, y0 := verifC01cloneS(a), verifC01cloneS(x), verifC01cloneS(y)
	Implementation{}.Sger(m, n, alpha, x, incX, y, incY, a, lda)
	verifC01sameS(x, x0, "Sger: x unchanged")
	verifC01sameS(y, y0, "Sger: y unchanged")
	want := verifC01cloneS(a0)
	for i := 0; i < m; i++ {
		for j := 0; j < n; j++ {
			want[i*lda+j] = a0[i*lda+j] + alpha*x0[verifVecIdx(m, incX, i)]*y0[verifVecIdx(n, incY, j)]
		}
	}
	verifC01eqS(a, want, "Sger: A += alpha*x*yT on the m x n block, rest untouched")
	for i := range a {
		if n == 0 || i%lda >= n {
			verifAssert(verifC01sameF32(a[i], a0[i]), "Sger: padding bit-identical")
		}
	}
	verifReach("end")
}

// ---- symmetric / triangular, dense storage ----

// VerifC01_Ssymv: y = alpha*A*x + beta*y with A given by one triangle.
func VerifC01_Ssymv() {
	ul := verifC01uploS("uplo")
	n := verifChoose("n", 0, verifParam("l2n", 3))
	lda := verifC01ldaS(n)
	incX := verifC01incS("incX")
	incY := verifC01incS("incY")
	slack := verifChoose("slack", 0, 1)
	la := slack
	if n > 0 {
		la = lda*(n-1) + n + slack
	}
	a := verifFloat32s("a", la)
	x := verifFloat32s("x", verifC01vlenS(n, incX, slack))
	y := verifFloat32s("y", verifC01vlenS(n, incY, slack))
	alpha, beta := verifC01alphabetaS()
	a0, x0, y0 := verifC01cloneS(a), verifC01cloneS(x), verifC01cloneS(y)
	Implementation{}.Ssymv(ul, n, alpha, a, lda, x, incX, beta, y, incY)
	verifC01sameS(a, a0, "Ssymv: A unchanged")
	verifC01sameS(x, x0, "Ssymv: x unchanged")
	d := verifC01denseSymS(ul, n, a0, lda)
	want := verifC01mvRefS(blas.NoTrans, n, alpha, d, x0, incX, beta, y0, incY)
	verifC01eqS(y, want, "Ssymv: y = alpha*A*x + beta*y on addressed elements, rest untouched")
	verifReach("end")
}

// VerifC01_Ssyr: referenced triangle of A += alpha*x*xT; other triangle, padding untouched.
func VerifC01_Ssyr() {
	ul := verifC01uploS("uplo")
	n := verifChoose("n", 0, verifParam("l2n", 3))
	lda := verifC01ldaS(n)
	incX := verifC01incS("incX")
	slack := verifChoose("slack", 0, 1)
	la := slack
	if n > 0 {
		la = lda*(n-1) + n + slack
	}
	a := verifFloat32s("a", la)
	x := verifFloat32s("x", verifC01vlenS(n, incX, slack))
	alpha := verifC01alphaS()
	a0, x0 := verifC01cloneS(a), verifC01cloneS(x)
	Implementation{}.Ssyr(ul, n, alpha, x, incX, a, lda)
	verifC01sameS(x, x0, "Ssyr: x unchanged")
	want := verifC01cloneS(a0)
	addr := make([]bool, len(a))
	for i := 0; i < n; i++ {
		for j := 0; j < n; j++ {
			if verifC01inTriS(ul, i, j) {
				addr[i*lda+j] = true
				want[i*lda+j] = a0[i*lda+j] + alpha*x0[verifVecIdx(n, incX, i)]*x0[verifVecIdx(n, incX, j)]
			}
		}
	}
	for i := range a {
		if addr[i] {
			verifC01eqF32(a[i], want[i], "Ssyr: triangle += alpha*x*xT")
		} else {
			verifAssert(verifC01sameF32(a[i], a0[i]), "Ssyr: other triangle / padding / slack untouched")
		}
	}
	verifReach("end")
}

// VerifC01_Ssyr2: referenced triangle of A += alpha*x*yT + alpha*y*xT.
func VerifC01_Ssyr2() {
	ul := verifC01uploS("uplo")
	n := verifChoose("n", 0, verifParam("l2n", 3))
	lda := verifC01ldaS(n)
	incX := verifC01incS("incX")
	incY := verifC01incS("incY")
	slack := verifChoose("slack", 0, 1)
	la := slack
	if n > 0 {
		la = lda*(n-1) + n + slack
	}
	a := verifFloat32s("a", la)
	x := verifFloat32s("x", verifC01vlenS(n, incX, slack))
	y := verifFloat32s("y", verifC01vlenS(n, incY, slack))
	alpha := verifC01alphaS()
	a0, x0, y0 := verifC01cloneS(a), verifC01cloneS(x), verifC01cloneS(y)
	Implementation{}.Ssyr2(ul, n, alpha, x, incX, y, incY, a, lda)
	verifC01sameS(x, x0, "Ssyr2: x unchanged")
	verifC01sameS(y, y0, "Ssyr2: y unchanged")
	for p := range a {
		i, j := p/lda, p%lda
		if i < n && j < n && verifC01inTriS(ul, i, j) {
			xi, xj := x0[verifVecIdx(n, incX, i)], x0[verifVecIdx(n, incX, j)]
			yi, yj := y0[verifVecIdx(n, incY, i)], y0[verifVecIdx(n, incY, j)]
			verifC01eqF32(a[p], a0[p]+alpha*xi*yj+alpha*yi*xj, "Ssyr2: triangle += alpha*x*yT + alpha*y*xT")
		} else {
			verifAssert(verifC01sameF32(a[p], a0[p]), "Ssyr2: other triangle / padding / slack untouched")
		}
	}
	verifReach("end")
}

// VerifC01_Strmv: x = op(A)*x with triangular A (unit or non-unit diagonal).
func VerifC01_Strmv() {
	ul := verifC01uploS("uplo")
	tA := verifC01transS("trans")
	dg := verifC01diagS("diag")
	n := verifChoose("n", 0, verifParam("l2n", 3))
	lda := verifC01ldaS(n)
	incX := verifC01incS("incX")
	slack := verifChoose("slack", 0, 1)
	la := slack
	if n > 0 {
		la = lda*(n-1) + n + slack
	}
	a := verifFloat32s("a", la)
	x := verifFloat32s("x", verifC01vlenS(n, incX, slack))
	a0, x0 := verifC01cloneS(a), verifC01cloneS(x)
	Implementation{}.Strmv(ul, tA, dg, n, a, lda, x, incX)
	verifC01sameS(a, a0, "Strmv: A unchanged")
	d := verifC01denseTriS(ul, dg, n, a0, lda)
	want := verifC01mvRefS(tA, n, 1, d, x0, incX, 0, x0, incX)
	for i := range x {
		if n > 0 && i%verifAbs(incX) == 0 && i/verifAbs(incX) < n {
			verifC01eqF32(x[i], want[i], "Strmv: x = op(A)*x")
		} else {
			verifAssert(verifC01sameF32(x[i], x0[i]), "Strmv: skipped slots / slack untouched")
		}
	}
	verifReach("end")
}

// VerifC01_Strsv: op(A)*x_out = x_in for a non-zero diagonal.
func VerifC01_Strsv() {
	ul := verifC01uploS("uplo")
	tA := verifC01transS("trans")
	dg := verifC01diagS("diag")
	n := verifChoose("n", 0, verifParam("l2n", 3))
	lda := verifC01ldaS(n)
	incX := verifC01incS("incX")
	slack := verifChoose("slack", 0, 1)
	la := slack
	if n > 0 {
		la = lda*(n-1) + n + slack
	}
	a := verifFloat32s("a", la)
	x := verifFloat32s("x", verifC01vlenS(n, incX, slack))
	if dg == blas.NonUnit {
		for i := 0; i < n; i++ {
			verifAssume(a[i*lda+i] != 0)
		}
	}
	a0, x0 := verifC01cloneS(a), verifC01cloneS(x)
	Implementation{}.Strsv(ul, tA, dg, n, a, lda, x, incX)
	verifC01sameS(a, a0, "Strsv: A unchanged")
	d := verifC01denseTriS(ul, dg, n, a0, lda)
	back := verifC01mvRefS(tA, n, 1, d, x, incX, 0, x, incX) // op(A)*x_out
	for i := range x {
		if n > 0 && i%verifAbs(incX) == 0 && i/verifAbs(incX) < n {
			verifC01eqF32(back[i], x0[i], "Strsv: op(A)*x_out = x_in")
		} else {
			verifAssert(verifC01sameF32(x[i], x0[i]), "Strsv: skipped slots / slack untouched")
		}
	}
	verifReach("end")
}

// ---- packed storage ----

func verifC01packedLenS(n int) int { return n * (n + 1) / 2 }

// VerifC01_Sspmv: y = alpha*A*x + beta*y, A symmetric packed.
func VerifC01_Sspmv() {
	ul := verifC01uploS("uplo")
	n := verifChoose("n", 0, verifParam("l2n", 3))
	incX := verifC01incS("incX")
	incY := verifC01incS("incY")
	slack := verifChoose("slack", 0, 1)
	ap := verifFloat32s("ap", verifC01packedLenS(n)+slack)
	x := verifFloat32s("x", verifC01vlenS(n, incX, slack))
	y := verifFloat32s("y", verifC01vlenS(n, incY, slack))
	alpha, beta := verifC01alphabetaS()
	a0, x0, y0 := verifC01cloneS(ap), verifC01cloneS(x), verifC01cloneS(y)
	Implementation{}.Sspmv(ul, n, alpha, ap, x, incX, beta, y, incY)
	verifC01sameS(ap, a0, "Sspmv: ap unchanged")
	verifC01sameS(x, x0, "Sspmv: x unchanged")
	d := verifC01denseFromIdxS(ul, true, blas.NonUnit, n, a0, func(i, j int) int { return verifC01packedIdxS(ul, n, i, j) })
	want := verifC01mvRefS(blas.NoTrans, n, alpha, d, x0, incX, beta, y0, incY)
	verifC01eqS(y, want, "Sspmv: y = alpha*A*x + beta*y on addressed elements, rest untouched")
	verifReach("end")
}

// VerifC01_Sspr: packed triangle += alpha*x*xT; slack untouched.
func VerifC01_Sspr() {
	ul := verifC01uploS("uplo")
	n := verifChoose("n", 0, verifParam("l2n", 3))
	incX := verifC01incS("incX")
	slack := verifChoose("slack", 0, 1)
	ap := verifFloat32s("ap", verifC01packedLenS(n)+slack)
	x := verifFloat32s("x", verifC01vlenS(n, incX, slack))
	alpha := verifC01alphaS()
	a0, x0 := verifC01cloneS(ap), verifC01cloneS(x)
	Implementation{}.Sspr(ul, n, alpha, x, incX, ap)
	verifC01sameS(x, x0, "Sspr: x unchanged")
	want := verifC01cloneS(a0)
	for i := 0; i < n; i++ {
		for j := 0; j < n; j++ {
			if verifC01inTriS(ul, i, j) {
				p := verifC01packedIdxS(ul, n, i, j)
				want[p] = a0[p] + alpha*x0[verifVecIdx(n, incX, i)]*x0[verifVecIdx(n, incX, j)]
			}
		}
	}
	verifC01eqS(ap, want, "Sspr: packed triangle += alpha*x*xT, slack untouched")
	verifReach("end")
}

// VerifC01_Sspr2: packed triangle += alpha*x*yT + alpha*y*xT.
func VerifC01_Sspr2() {
	ul := verifC01uploS("uplo")
	n := verifChoose("n", 0, verifParam("l2n", 3))
	incX := verifC01incS("incX")
	incY := verifC01incS("incY")
	slack := verifChoose("slack", 0, 1)
	ap := verifFloat32s("ap", verifC01packedLenS(n)+slack)
	x := verifFloat32s("x", verifC01vlenS(n, incX, slack))
	y := verifFloat32s("y", verifC01vlenS(n, incY, slack))
	alpha := verifC01alphaS()
	a0, x0, y0 := verifC01cloneS(ap), verifC01cloneS(x), verifC01cloneS(y)
	Implementation{}.Sspr2(ul, n, alpha, x, incX, y, incY, ap)
	verifC01sameS(x, x0, "Sspr2: x unchanged")
	verifC01sameS(y, y0, "Sspr2: y unchanged")
	want := verifC01cloneS(a0)
	for i := 0; i < n; i++ {
		for j := 0; j < n; j++ {
			if verifC01inTriS(ul, i, j) {
				p := verifC01packedIdxS(ul, n, i, j)
				xi, xj := x0[verifVecIdx(n, incX, i)], x0[verifVecIdx(n, incX, j)]
				yi, yj := y0[verifVecIdx(n, incY, i)], y0[verifVecIdx(n, incY, j)]
				want[p] = a0[p] + alpha*xi*yj + alpha*yi*xj
			}
		}
	}
	verifC01eqS(ap, want, "Sspr2: packed triangle += alpha*x*yT + alpha*y*xT, slack untouched")
	verifReach("end")
}

// VerifC01_Stpmv: x = op(A)*x, A triangular packed.
func VerifC01_Stpmv() {
	ul := verifC01uploS("uplo")
	tA := verifC01transS("trans")
	dg := verifC01diagS("diag")
	n := verifChoose("n", 0, verifParam("l2n", 3))
	incX := verifC01incS("incX")
	slack := verifChoose("slack", 0, 1)
	ap := verifFloat32s("ap", verifC01packedLenS(n)+slack)
	x := verifFloat32s("x", verifC01vlenS(n, incX, slack))
	a0, x0 := verifC01cloneS(ap), verifC01cloneS(x)
	Implementation{}.Stpmv(ul, tA, dg, n, ap, x, incX)
	verifC01sameS(ap, a0, "Stpmv: ap unchanged")
	d := verifC01denseFromIdxS(ul, false, dg, n, a0, func(i, j int) int { return verifC01packedIdxS(ul, n, i, j) })
	want := verifC01mvRefS(tA, n, 1, d, x0, incX, 0, x0, incX)
	for i := range x {
		if n > 0 && i%verifAbs(incX) == 0 && i/verifAbs(incX) < n {
			verifC01eqF32(x[i], want[i], "Stpmv: x = op(A)*x")
		} else {
			verifAssert(verifC01sameF32(x[i], x0[i]), "Stpmv: skipped slots / slack untouched")
		}
	}
	verifReach("end")
}

// VerifC01_Stpsv: op(A)*x_out = x_in, A triangular packed with non-zero diagonal.
func VerifC01_Stpsv() {
	ul := verifC01uploS("uplo")
	tA := verifC01transS("trans")
	dg := verifC01diagS("diag")
	n := verifChoose("n", 0, verifParam("l2n", 3))
	incX := verifC01incS("incX")
	slack := verifChoose("slack", 0, 1)
	ap := verifFloat32s("ap", verifC01packedLenS(n)+slack)
	x := verifFloat32s("x", verifC01vlenS(n, incX, slack))
	if dg == blas.NonUnit {
		for i := 0; i < n; i++ {
			verifAssume(ap[verifC01packedIdxS(ul, n, i, i)] != 0)
		}
	}
	a0, x0 := verifC01cloneS(ap), verifC01cloneS(x)
	Implementation{}.Stpsv(ul, tA, dg, n, ap, x, incX)
	verifC01sameS(ap, a0, "Stpsv: ap unchanged")
	d := verifC01denseFromIdxS(ul, false, dg, n, a0, func(i, j int) int { return verifC01packedIdxS(ul, n, i, j) })
	back := verifC01mvRefS(tA, n, 1, d, x, incX, 0, x, incX)
	for i := range x {
		if n > 0 && i%verifAbs(incX) == 0 && i/verifAbs(incX) < n {
			verifC01eqF32(back[i], x0[i], "Stpsv: op(A)*x_out = x_in")
		} else {
			verifAssert(verifC01sameF32(x[i], x0[i]), "Stpsv: skipped slots / slack untouched")
		}
	}
	verifReach("end")
}

// ---- band storage ----

// VerifC01_Sgbmv: y = alpha*op(A)*x + beta*y, A general m x n band (kL sub-, kU super-diagonals).
func VerifC01_Sgbmv() {
	maxN := verifParam("gbn", 2)
	maxK := verifParam("gbk", 1)
	tA := verifC01transS("trans")
	m := verifChoose("m", 0, maxN)
	n := verifChoose("n", 0, maxN)
	kL := verifChoose("kL", 0, maxK)
	kU := verifChoose("kU", 0, maxK)
	pad := verifChoose("pad", 0, 1) // lda padding and trailing slack together
	lda := kL + kU + 1 + pad
	incX := verifC01incS("incX")
	incY := verifC01incS("incY")
	rows := m
	if n+kL < rows {
		rows = n + kL
	}
	la := pad
	if m > 0 && n > 0 {
		la = lda*(rows-1) + kL + kU + 1 + pad
	}
	lenX, lenY := n, m
	if tA != blas.NoTrans {
		lenX, lenY = m, n
	}
	a := verifFloat32s("a", la)
	x := verifFloat32s("x", verifC01vlenS(lenX, incX, pad))
	y := verifFloat32s("y", verifC01vlenS(lenY, incY, pad))
	alpha, beta := verifC01alphabetaS()
	a0, x0, y0 := verifC01cloneS(a), verifC01cloneS(x), verifC01cloneS(y)
	Implementation{}.Sgbmv(tA, m, n, kL, kU, alpha, a, lda, x, incX, beta, y, incY)
	verifC01sameS(a, a0, "Sgbmv: A unchanged")
	verifC01sameS(x, x0, "Sgbmv: x unchanged")
	want := verifC01cloneS(y0)
	for i := 0; i < lenY && m > 0 && n > 0; i++ { // m==0 or n==0: documented quick return
		var s float32
		for j := 0; j < lenX; j++ {
			r, c := i, j // element of A used: op(A)[i][j]
			if tA != blas.NoTrans {
				r, c = j, i
			}
			if c-r <= kU && r-c <= kL {
				s += a0[r*lda+kL+c-r] * x0[verifVecIdx(lenX, incX, j)]
			}
		}
		yi := verifVecIdx(lenY, incY, i)
		want[yi] = alpha*s + beta*y0[yi]
	}
	verifC01eqS(y, want, "Sgbmv: y = alpha*op(A)*x + beta*y on addressed elements, rest untouched")
	verifReach("end")
}

func verifC01bandLenS(n, k, lda, slack int) int {
	if n == 0 {
		return slack
	}
	return lda*(n-1) + k + 1 + slack
}

// VerifC01_Ssbmv: y = alpha*A*x + beta*y, A symmetric band with k off-diagonals.
func VerifC01_Ssbmv() {
	ul := verifC01uploS("uplo")
	n := verifChoose("n", 0, verifParam("l2n", 3))
	k := verifChoose("k", 0, verifParam("sbk", 2))
	pad := verifChoose("pad", 0, 1)
	lda := k + 1 + pad
	incX := verifC01incS("incX")
	incY := verifC01incS("incY")
	a := verifFloat32s("a", verifC01bandLenS(n, k, lda, pad))
	x := verifFloat32s("x", verifC01vlenS(n, incX, pad))
	y := verifFloat32s("y", verifC01vlenS(n, incY, pad))
	alpha, beta := verifC01alphabetaS()
	a0, x0, y0 := verifC01cloneS(a), verifC01cloneS(x), verifC01cloneS(y)
	Implementation{}.Ssbmv(ul, n, k, alpha, a, lda, x, incX, beta, y, incY)
	verifC01sameS(a, a0, "Ssbmv: A unchanged")
	verifC01sameS(x, x0, "Ssbmv: x unchanged")
	d := verifC01denseFromIdxS(ul, true, blas.NonUnit, n, a0, func(i, j int) int { return verifC01bandIdxS(ul, k, lda, i, j) })
	want := verifC01mvRefS(blas.NoTrans, n, alpha, d, x0, incX, beta, y0, incY)
	verifC01eqS(y, want, "Ssbmv: y = alpha*A*x + beta*y on addressed elements, rest untouched")
	verifReach("end")
}

// VerifC01_Stbmv: x = op(A)*x, A triangular band.
func VerifC01_Stbmv() {
	ul := verifC01uploS("uplo")
	tA := verifC01transS("trans")
	dg := verifC01diagS("diag")
	n := verifChoose("n", 0, verifParam("l2n", 3))
	k := verifChoose("k", 0, verifParam("sbk", 2))
	pad := verifChoose("pad", 0, 1)
	lda := k + 1 + pad
	incX := verifC01incS("incX")
	a := verifFloat32s("a", verifC01bandLenS(n, k, lda, pad))
	x := verifFloat32s("x", verifC01vlenS(n, incX, pad))
	a0, x0 := verifC01cloneS(a), verifC01cloneS(x)
	Implementation{}.Stbmv(ul, tA, dg, n, k, a, lda, x, incX)
	verifC01sameS(a, a0, "Stbmv: A unchanged")
	d := verifC01denseFromIdxS(ul, false, dg, n, a0, func(i, j int) int { return verifC01bandIdxS(ul, k, lda, i, j) })
	want := verifC01mvRefS(tA, n, 1, d, x0, incX, 0, x0, incX)
	for i := range x {
		if n > 0 && i%verifAbs(incX) == 0 && i/verifAbs(incX) < n {
			verifC01eqF32(x[i], want[i], "Stbmv: x = op(A)*x")
		} else {
			verifAssert(verifC01sameF32(x[i], x0[i]), "Stbmv: skipped slots / slack untouched")
		}
	}
	verifReach("end")
}

// VerifC01_Stbsv: op(A)*x_out = x_in, A triangular band with non-zero diagonal.
func VerifC01_Stbsv() {
	ul := verifC01uploS("uplo")
	tA := verifC01transS("trans")
	dg := verifC01diagS("diag")
	n := verifChoose("n", 0, verifParam("l2n", 3))
	k := verifChoose("k", 0, verifParam("sbk", 2))
	pad := verifChoose("pad", 0, 1)
	lda := k + 1 + pad
	incX := verifC01incS("incX")
	a := verifFloat32s("a", verifC01bandLenS(n, k, lda, pad))
	x := verifFloat32s("x", verifC01vlenS(n, incX, pad))
	if dg == blas.NonUnit {
		for i := 0; i < n; i++ {
			verifAssume(a[verifC01bandIdxS(ul, k, lda, i, i)] != 0)
		}
	}
	a0, x0 := verifC01cloneS(a), verifC01cloneS(x)
	Implementation{}.Stbsv(ul, tA, dg, n, k, a, lda, x, incX)
	verifC01sameS(a, a0, "Stbsv: A unchanged")
	d := verifC01denseFromIdxS(ul, false, dg, n, a0, func(i, j int) int { return verifC01bandIdxS(ul, k, lda, i, j) })
	back := verifC01mvRefS(tA, n, 1, d, x, incX, 0, x, incX)
	for i := range x {
		if n > 0 && i%verifAbs(incX) == 0 && i/verifAbs(incX) < n {
			verifC01eqF32(back[i], x0[i], "Stbsv: op(A)*x_out = x_in")
		} else {
			verifAssert(verifC01sameF32(x[i], x0[i]), "Stbsv: skipped slots / slack untouched")
		}
	}
	verifReach("end")
}

func verifC01sideS(name string) blas.Side {
	if verifChoose(name, 0, 1) == 0 {
		return blas.Left
	}
	return blas.Right
}

// backing length of a rows x cols dense matrix with stride ld plus slack
func verifC01mlenS(rows, cols, ld, slack int) int {
	if rows == 0 {
		return slack
	}
	// also for cols == 0: gonum requires ld*(rows-1)+cols cells of every operand that
	// is not skipped by a quick return
	return ld*(rows-1) + cols + slack
}

// verifC01pads3S: stride padding (0/1) of three matrix operands. Every operand is padded on its own
// at least once so that lda != ldb, lda != ldc and ldb != ldc occur in both orders; with
// -params fullpads=1 all eight combinations are explored.
func verifC01pads3S() (a, b, c int) {
	if verifParam("fullpads", 0) == 1 {
		return verifChoose("padA", 0, 1), verifChoose("padB", 0, 1), verifChoose("padC", 0, 1)
	}
	switch verifChoose("pads", 0, 4) {
	case 1:
		return 1, 1, 1
	case 2:
		return 1, 0, 0
	case 3:
		return 0, 1, 0
	case 4:
		return 0, 0, 1
	}
	return 0, 0, 0
}

func verifC01ldS(cols, pad int) int {
	ld := cols + pad
	if ld < 1 {
		ld = 1
	}
	return ld
}

// verifC01opMatS returns op(A) as a flat r x c matrix where A is stored rows x cols with stride ld
// (r,c = rows,cols for NoTrans; cols,rows otherwise).
func verifC01opMatS(t blas.Transpose, a []float32, ld, rows, cols int) (d []float32, r, c int) {
	if t == blas.NoTrans {
		d = make([]float32, rows*cols)
		for i := 0; i < rows; i++ {
			for j := 0; j < cols; j++ {
				d[i*cols+j] = a[i*ld+j]
			}
		}
		return d, rows, cols
	}
	d = make([]float32, rows*cols)
	for i := 0; i < rows; i++ {
		for j := 0; j < cols; j++ {
			d[j*rows+i] = a[i*ld+j]
		}
	}
	return d, cols, rows
}

func verifC01transposeS(d []float32, r, c int) []float32 {
	t := make([]float32, r*c)
	for i := 0; i < r; i++ {
		for j := 0; j < c; j++ {
			t[j*r+i] = d[i*c+j]
		}
	}
	return t
}

// naive product of flat matrices: (m x k) * (k x n)
func verifC01mmS(m, n, k int, a, b []float32) []float32 {
	c := make([]float32, m*n)
	for i := 0; i < m; i++ {
		for j := 0; j < n; j++ {
			var s float32
			for l := 0; l < k; l++ {
				s += a[i*k+l] * b[l*n+j]
			}
			c[i*n+j] = s
		}
	}
	return c
}

// verifC01checkBlockS: cells (i,j), i<m, j<n, selected by sel hold want (flat m x n); all other
// cells of the backing are bit-identical to c0.
func verifC01checkBlockS(c, c0 []float32, ldc, m, n int, want []float32, sel func(i, j int) bool, msg string) {
	for p := range c {
		i, j := p/ldc, p%ldc
		if n > 0 && i < m && j < n && sel(i, j) {
			verifC01eqF32(c[p], want[i*n+j], msg+": value on addressed cell")
		} else {
			verifAssert(verifC01sameF32(c[p], c0[p]), msg+": unaddressed cell untouched")
		}
	}
}

func verifC01allS(i, j int) bool { return true }

// VerifC01_Sgemm: C = alpha*op(A)*op(B) + beta*C for all transpose combinations.
func VerifC01_Sgemm() {
	maxN := verifParam("l3n", 2)
	tA := verifC01transS("transA")
	tB := verifC01transS("transB")
	m := verifChoose("m", 0, maxN)
	n := verifChoose("n", 0, maxN)
	k := verifChoose("k", 0, maxN)
	// every matrix gets its own stride padding so that lda != ldb != ldc occurs; the trailing
	// slack follows the padding of the same operand
	padA, padB, padC := verifC01pads3S()
	ra, ca := m, k
	if tA != blas.NoTrans {
		ra, ca = k, m
	}
	rb, cb := k, n
	if tB != blas.NoTrans {
		rb, cb = n, k
	}
	lda, ldb, ldc := verifC01ldS(ca, padA), verifC01ldS(cb, padB), verifC01ldS(n, padC)
	a := verifFloat32s("a", verifC01mlenS(ra, ca, lda, padA))
	b := verifFloat32s("b", verifC01mlenS(rb, cb, ldb, padB))
	c := verifFloat32s("c", verifC01mlenS(m, n, ldc, padC))
	alpha, beta := verifC01alphabetaS()
	a0, b0, c0 := verifC01cloneS(a), verifC01cloneS(b), verifC01cloneS(c)
	Implementation{}.Sgemm(tA, tB, m, n, k, alpha, a, lda, b, ldb, beta, c, ldc)
	verifC01sameS(a, a0, "Sgemm: A unchanged")
	verifC01sameS(b, b0, "Sgemm: B unchanged")
	var opA, opB []float32
	if m > 0 && n > 0 && k > 0 {
		opA, _, _ = verifC01opMatS(tA, a0, lda, ra, ca)
		opB, _, _ = verifC01opMatS(tB, b0, ldb, rb, cb)
	}
	ab := verifC01mmS(m, n, k, opA, opB)
	want := make([]float32, m*n)
	for i := 0; i < m; i++ {
		for j := 0; j < n; j++ {
			want[i*n+j] = alpha*ab[i*n+j] + beta*c0[i*ldc+j]
		}
	}
	verifC01checkBlockS(c, c0, ldc, m, n, want, verifC01allS, "Sgemm")
	verifReach("end")
}

// VerifC01_Ssymm: C = alpha*A*B + beta*C (Left) or alpha*B*A + beta*C (Right), A symmetric.
func VerifC01_Ssymm() {
	maxN := verifParam("l3n", 2)
	s := verifC01sideS("side")
	ul := verifC01uploS("uplo")
	m := verifChoose("m", 0, maxN)
	n := verifChoose("n", 0, maxN)
	padA, padB, padC := verifC01pads3S()
	ka := n
	if s == blas.Left {
		ka = m
	}
	lda, ldb, ldc := verifC01ldS(ka, padA), verifC01ldS(n, padB), verifC01ldS(n, padC)
	a := verifFloat32s("a", verifC01mlenS(ka, ka, lda, padA))
	b := verifFloat32s("b", verifC01mlenS(m, n, ldb, padB))
	c := verifFloat32s("c", verifC01mlenS(m, n, ldc, padC))
	alpha, beta := verifC01alphabetaS()
	a0, b0, c0 := verifC01cloneS(a), verifC01cloneS(b), verifC01cloneS(c)
	Implementation{}.Ssymm(s, ul, m, n, alpha, a, lda, b, ldb, beta, c, ldc)
	verifC01sameS(a, a0, "Ssymm: A unchanged")
	verifC01sameS(b, b0, "Ssymm: B unchanged")
	want := make([]float32, m*n)
	if m > 0 && n > 0 {
		d := verifC01denseSymS(ul, ka, a0, lda)
		bm, _, _ := verifC01opMatS(blas.NoTrans, b0, ldb, m, n)
		var ab []float32
		if s == blas.Left {
			ab = verifC01mmS(m, n, m, d, bm)
		} else {
			ab = verifC01mmS(m, n, n, bm, d)
		}
		for i := 0; i < m; i++ {
			for j := 0; j < n; j++ {
				want[i*n+j] = alpha*ab[i*n+j] + beta*c0[i*ldc+j]
			}
		}
	}
	verifC01checkBlockS(c, c0, ldc, m, n, want, verifC01allS, "Ssymm")
	verifReach("end")
}

// VerifC01_Ssyrk: referenced triangle of C = alpha*op(A)*op(A)T + beta*C.
func VerifC01_Ssyrk() {
	maxN := verifParam("l3n", 2)
	ul := verifC01uploS("uplo")
	tA := verifC01transS("trans")
	n := verifChoose("n", 0, maxN)
	k := verifChoose("k", 0, maxN)
	padA, padC := verifChoose("padA", 0, 1), verifChoose("padC", 0, 1)
	ra, ca := n, k
	if tA != blas.NoTrans {
		ra, ca = k, n
	}
	lda, ldc := verifC01ldS(ca, padA), verifC01ldS(n, padC)
	a := verifFloat32s("a", verifC01mlenS(ra, ca, lda, padA))
	c := verifFloat32s("c", verifC01mlenS(n, n, ldc, padC))
	alpha, beta := verifC01alphabetaS()
	a0, c0 := verifC01cloneS(a), verifC01cloneS(c)
	Implementation{}.Ssyrk(ul, tA, n, k, alpha, a, lda, beta, c, ldc)
	verifC01sameS(a, a0, "Ssyrk: A unchanged")
	want := make([]float32, n*n)
	if n > 0 {
		var aat []float32
		if k > 0 {
			opA, _, _ := verifC01opMatS(tA, a0, lda, ra, ca) // n x k
			aat = verifC01mmS(n, n, k, opA, verifC01transposeS(opA, n, k))
		} else {
			aat = make([]float32, n*n)
		}
		for i := 0; i < n; i++ {
			for j := 0; j < n; j++ {
				want[i*n+j] = alpha*aat[i*n+j] + beta*c0[i*ldc+j]
			}
		}
	}
	verifC01checkBlockS(c, c0, ldc, n, n, want, func(i, j int) bool { return verifC01inTriS(ul, i, j) }, "Ssyrk")
	verifReach("end")
}

// VerifC01_Ssyr2k: referenced triangle of C = alpha*op(A)*op(B)T + alpha*op(B)*op(A)T + beta*C.
func VerifC01_Ssyr2k() {
	maxN := verifParam("l3n", 2)
	ul := verifC01uploS("uplo")
	tA := verifC01transS("trans")
	n := verifChoose("n", 0, maxN)
	k := verifChoose("k", 0, maxN)
	padA, padB, padC := verifC01pads3S()
	ra, ca := n, k
	if tA != blas.NoTrans {
		ra, ca = k, n
	}
	lda, ldb, ldc := verifC01ldS(ca, padA), verifC01ldS(ca, padB), verifC01ldS(n, padC)
	a := verifFloat32s("a", verifC01mlenS(ra, ca, lda, padA))
	b := verifFloat32s("b", verifC01mlenS(ra, ca, ldb, padB))
	c := verifFloat32s("c", verifC01mlenS(n, n, ldc, padC))
	alpha, beta := verifC01alphabetaS()
	a0, b0, c0 := verifC01cloneS(a), verifC01cloneS(b), verifC01cloneS(c)
	Implementation{}.Ssyr2k(ul, tA, n, k, alpha, a, lda, b, ldb, beta, c, ldc)
	verifC01sameS(a, a0, "Ssyr2k: A unchanged")
	verifC01sameS(b, b0, "Ssyr2k: B unchanged")
	want := make([]float32, n*n)
	if n > 0 {
		abt, bat := make([]float32, n*n), make([]float32, n*n)
		if k > 0 {
			opA, _, _ := verifC01opMatS(tA, a0, lda, ra, ca)
			opB, _, _ := verifC01opMatS(tA, b0, ldb, ra, ca)
			abt = verifC01mmS(n, n, k, opA, verifC01transposeS(opB, n, k))
			bat = verifC01mmS(n, n, k, opB, verifC01transposeS(opA, n, k))
		}
		for i := 0; i < n; i++ {
			for j := 0; j < n; j++ {
				want[i*n+j] = alpha*abt[i*n+j] + alpha*bat[i*n+j] + beta*c0[i*ldc+j]
			}
		}
	}
	verifC01checkBlockS(c, c0, ldc, n, n, want, func(i, j int) bool { return verifC01inTriS(ul, i, j) }, "Ssyr2k")
	verifReach("end")
}

// VerifC01_Strmm: B = alpha*op(A)*B (Left) or alpha*B*op(A) (Right), A triangular.
func VerifC01_Strmm() {
	maxN := verifParam("l3n", 2)
	s := verifC01sideS("side")
	ul := verifC01uploS("uplo")
	tA := verifC01transS("trans")
	dg := verifC01diagS("diag")
	m := verifChoose("m", 0, maxN)
	n := verifChoose("n", 0, maxN)
	padA, padB := verifChoose("padA", 0, 1), verifChoose("padB", 0, 1)
	ka := n
	if s == blas.Left {
		ka = m
	}
	lda, ldb := verifC01ldS(ka, padA), verifC01ldS(n, padB)
	a := verifFloat32s("a", verifC01mlenS(ka, ka, lda, padA))
	b := verifFloat32s("b", verifC01mlenS(m, n, ldb, padB))
	alpha := verifC01alphaS()
	a0, b0 := verifC01cloneS(a), verifC01cloneS(b)
	Implementation{}.Strmm(s, ul, tA, dg, m, n, alpha, a, lda, b, ldb)
	verifC01sameS(a, a0, "Strmm: A unchanged")
	want := make([]float32, m*n)
	if m > 0 && n > 0 {
		d := verifC01denseTriS(ul, dg, ka, a0, lda)
		if tA != blas.NoTrans {
			d = verifC01transposeS(d, ka, ka)
		}
		bm, _, _ := verifC01opMatS(blas.NoTrans, b0, ldb, m, n)
		var ab []float32
		if s == blas.Left {
			ab = verifC01mmS(m, n, m, d, bm)
		} else {
			ab = verifC01mmS(m, n, n, bm, d)
		}
		for i := range want {
			want[i] = alpha * ab[i]
		}
	}
	verifC01checkBlockS(b, b0, ldb, m, n, want, verifC01allS, "Strmm")
	verifReach("end")
}

// VerifC01_Strsm: op(A)*X = alpha*B (Left) or X*op(A) = alpha*B (Right) for a non-zero diagonal.
func VerifC01_Strsm() {
	maxN := verifParam("l3n", 2)
	s := verifC01sideS("side")
	ul := verifC01uploS("uplo")
	tA := verifC01transS("trans")
	dg := verifC01diagS("diag")
	m := verifChoose("m", 0, maxN)
	n := verifChoose("n", 0, maxN)
	padA, padB := verifChoose("padA", 0, 1), verifChoose("padB", 0, 1)
	ka := n
	if s == blas.Left {
		ka = m
	}
	lda, ldb := verifC01ldS(ka, padA), verifC01ldS(n, padB)
	a := verifFloat32s("a", verifC01mlenS(ka, ka, lda, padA))
	b := verifFloat32s("b", verifC01mlenS(m, n, ldb, padB))
	alpha := verifC01alphaS()
	if dg == blas.NonUnit && m > 0 && n > 0 {
		for i := 0; i < ka; i++ {
			verifAssume(a[i*lda+i] != 0)
		}
	}
	a0, b0 := verifC01cloneS(a), verifC01cloneS(b)
	Implementation{}.Strsm(s, ul, tA, dg, m, n, alpha, a, lda, b, ldb)
	verifC01sameS(a, a0, "Strsm: A unchanged")
	if m > 0 && n > 0 {
		d := verifC01denseTriS(ul, dg, ka, a0, lda)
		if tA != blas.NoTrans {
			d = verifC01transposeS(d, ka, ka)
		}
		xm, _, _ := verifC01opMatS(blas.NoTrans, b, ldb, m, n)
		var ax []float32
		if s == blas.Left {
			ax = verifC01mmS(m, n, m, d, xm)
		} else {
			ax = verifC01mmS(m, n, n, xm, d)
		}
		for i := 0; i < m; i++ {
			for j := 0; j < n; j++ {
				verifC01eqF32(ax[i*n+j], alpha*b0[i*ldb+j], "Strsm: op(A)*X = alpha*B resp. X*op(A) = alpha*B")
			}
		}
	}
	for p := range b {
		if m == 0 || n == 0 || p%ldb >= n || p/ldb >= m {
			verifAssert(verifC01sameF32(b[p], b0[p]), "Strsm: padding / slack untouched")
		}
	}
	verifReach("end")
}
