package gonum

import "gonum.org/v1/gonum/blas"

// C01, Level 1 routines not covered by zz_verif_c01_l1.go: Drotmg (float32 twin Srotmg generated
// by gen_s2.py into zz_verif_c01_l1b_s_gen.go), Dsdot, Sdsdot.

// VerifC01_Drotmg: modified Givens transformation. With D = diag(d1, d2), D' = diag(rd1, rd2) and H the
// matrix encoded by (p.Flag, p.H) (same decoding as Drotm), G = D'^(1/2) * H * D^(-1/2) is orthogonal and
// maps (sqrt(d1)*x1, sqrt(d2)*y1) to (sqrt(rd1)*rx1, 0). Without square roots (exact reals):
//
//	H^T * D' * H == D                       (three identities)
//	rd2 * (h21*x1 + h22*y1) == 0            (second component annihilated)
//	rx1 == h11*x1 + h12*y1
//	rd1 == 0 or rgamsq < rd1 <= gamsq, rd2 == 0 or rgamsq < |rd2| <= gamsq   (rescaling postcondition, flag != Identity)
//
// Error state (reference BLAS: flag = -1, H = 0, d1 = d2 = x1 = 0) only for a negative d1 or d2.
// d2 == 0 or y1 == 0: flag = Identity and (d1, d2, x1) are returned unchanged.
//
// Bound that keeps the rescaling loops finite: |d1|, |d2| are 0 or in [gam^-2k, gam^2k] with
// k = param rotmgk (default 2: 2^-48..2^48, at most 3 rescaling steps per loop) and for d2 < 0
// |d2*y1^2| <= |d1*x1^2|/2 (so that the divisor u = 1 + q2/q1 stays >= 1/2; u -> 0 makes d/u unbounded).
func VerifC01_Drotmg() {
	const (
		gam    = 4096.0
		gamsq  = gam * gam
		rgamsq = 1.0 / gamsq
	)
	k := verifParam("rotmgk", 2)
	hi := 1.0
	for i := 0; i < k; i++ {
		hi *= gamsq
	}
	lo := 1 / hi
	d1, d2, x1, y1 := verifFloat("d1"), verifFloat("d2"), verifFloat("x1"), verifFloat("y1")
	// sign / zero classes are forked here so that the arms of Drotmg are decided by the path condition
	switch verifChoose("d1class", 0, 2) {
	case 0:
		verifAssume(d1 < 0)
	case 1:
		d1 = 0
	default:
		verifAssume(d1 >= lo)
		verifAssume(d1 <= hi)
	}
	d2neg := false
	switch verifChoose("d2class", 0, 2) {
	case 0:
		d2neg = true
		verifAssume(d2 <= -lo)
		verifAssume(d2 >= -hi)
	case 1:
		d2 = 0
	default:
		verifAssume(d2 >= lo)
		verifAssume(d2 <= hi)
	}
	if verifChoose("x1zero", 0, 1) == 1 {
		x1 = 0
	} else {
		verifAssume(x1 != 0)
	}
	if verifChoose("y1zero", 0, 1) == 1 {
		y1 = 0
	} else {
		verifAssume(y1 != 0)
	}
	if d2neg {
		verifAssume(-2*(d2*y1*y1) <= d1*x1*x1)
	}
	p, rd1, rd2, rx1 := Implementation{}.Drotmg(d1, d2, x1, y1)
	h := p.H
	var h11, h12, h21, h22 float64
	switch p.Flag {
	case blas.Identity:
		h11, h12, h21, h22 = 1, 0, 0, 1
	case blas.Rescaling:
		h11, h21, h12, h22 = h[0], h[1], h[2], h[3]
	case blas.OffDiagonal:
		h11, h21, h12, h22 = 1, h[1], h[2], 1
	case blas.Diagonal:
		h11, h21, h12, h22 = h[0], -1, 1, h[3]
	default:
		verifAssert(false, "Drotmg: flag is one of -2, -1, 0, 1")
	}
	if d2 == 0 || y1 == 0 {
		if d1 >= 0 {
			verifAssert(p.Flag == blas.Identity, "Drotmg: d2 == 0 or y1 == 0 gives the identity flag")
			verifAssert(verifAnd(verifSame(rd1, d1), verifAnd(verifSame(rd2, d2), verifSame(rx1, x1))), "Drotmg: identity leaves d1, d2, x1 unchanged")
		}
	}
	errState := p.Flag == blas.Rescaling && h11 == 0 && h12 == 0 && h21 == 0 && h22 == 0
	if errState {
		verifAssert(verifOr(d1 < 0, d2 < 0), "Drotmg: error state only for a negative d1 or d2")
		verifAssert(verifAnd(rd1 == 0, verifAnd(rd2 == 0, rx1 == 0)), "Drotmg: error state returns zeros")
		verifReach("error")
		return
	}
	verifAssert(d1 >= 0, "Drotmg: negative d1 gives the error state")
	verifAssertEqF(rd1*h11*h11+rd2*h21*h21, d1, "Drotmg: (H^T D' H)[0][0] = d1")
	verifAssertEqF(rd1*h11*h12+rd2*h21*h22, 0, "Drotmg: (H^T D' H)[0][1] = 0")
	verifAssertEqF(rd1*h12*h12+rd2*h22*h22, d2, "Drotmg: (H^T D' H)[1][1] = d2")
	verifAssertEqF(rd2*(h21*x1+h22*y1), 0, "Drotmg: second component annihilated")
	verifAssertEqF(rx1, h11*x1+h12*y1, "Drotmg: rx1 = h11*x1 + h12*y1")
	if p.Flag != blas.Identity { // the quick return (d2 == 0 or y1 == 0) does not rescale, as in the reference BLAS
		verifAssert(verifOr(rd1 == 0, verifAnd(rd1 > rgamsq, rd1 <= gamsq)), "Drotmg: rd1 is 0 or in (gam^-2, gam^2]")
		ard2 := verifC01absF(rd2)
		verifAssert(verifOr(rd2 == 0, verifAnd(ard2 > rgamsq, ard2 <= gamsq)), "Drotmg: |rd2| is 0 or in (gam^-2, gam^2]")
	}
	verifReach("end")
}

// ---- mixed precision dot products (float32 operands, float64 accumulation) ----
// (The helpers with suffix S are the float32 twins in zz_verif_c01_s_gen.go.)

// VerifC01_Dsdot: result = sum float64(x[i])*float64(y[i]) over the addressed elements; x, y unchanged.
func VerifC01_Dsdot() {
	n := verifChoose("n", 0, verifParam("l1n", 4))
	incX := verifC01inc("incX")
	incY := verifC01inc("incY")
	slack := verifChoose("slack", 0, 1)
	x := verifFloat32s("x", verifC01vlen(n, incX, slack))
	y := verifFloat32s("y", verifC01vlen(n, incY, slack))
	x0, y0 := verifC01cloneS(x), verifC01cloneS(y)
	got := Implementation{}.Dsdot(n, x, incX, y, incY)
	verifC01sameS(x, x0, "Dsdot: x unchanged")
	verifC01sameS(y, y0, "Dsdot: y unchanged")
	var want float64
	for i := 0; i < n; i++ {
		want += float64(x0[verifVecIdx(n, incX, i)]) * float64(y0[verifVecIdx(n, incY, i)])
	}
	verifAssertEqF(got, want, "Dsdot: sum of products of addressed elements")
	verifReach("end")
}

// VerifC01_Sdsdot: result = alpha + sum x[i]*y[i] over the addressed elements (n >= 1); x, y unchanged.
func VerifC01_Sdsdot() {
	n := verifChoose("n", 1, verifParam("l1n", 4))
	verifC01sdsdot(n)
}

// VerifC01_SdsdotN0: n == 0: the sum is empty, the defined result alpha + sum is alpha (the reference
// BLAS sdsdot returns sb for n <= 0). OPEN VIOLATION on the unchanged tree, see notes/C01_more.md.
func VerifC01_SdsdotN0() {
	verifC01sdsdot(0)
}

func verifC01sdsdot(n int) {
	incX := verifC01inc("incX")
	incY := verifC01inc("incY")
	slack := verifChoose("slack", 0, 1)
	x := verifFloat32s("x", verifC01vlen(n, incX, slack))
	y := verifFloat32s("y", verifC01vlen(n, incY, slack))
	alpha := verifFloat32("alpha")
	x0, y0 := verifC01cloneS(x), verifC01cloneS(y)
	got := Implementation{}.Sdsdot(n, alpha, x, incX, y, incY)
	verifC01sameS(x, x0, "Sdsdot: x unchanged")
	verifC01sameS(y, y0, "Sdsdot: y unchanged")
	var sum float64
	for i := 0; i < n; i++ {
		sum += float64(x0[verifVecIdx(n, incX, i)]) * float64(y0[verifVecIdx(n, incY, i)])
	}
	verifC01eqF32(got, alpha+float32(sum), "Sdsdot: alpha + sum of products of addressed elements")
	verifReach("end")
}
