#!/usr/bin/env python3
# gen_s2.py: float32 twin of VerifC01_Drotmg (zz_verif_c01_l1b.go).
#
#   python3 gen_s2.py | gofmt > zz_verif_c01_l1b_s_gen.go
import re, sys
t = open('/verif/harness/blas/gonum/zz_verif_c01_l1b.go').read()
i = t.index('// VerifC01_Drotmg')
j = t.index('\n}\n', i) + 3
src = t[i:j]
src = src.replace('float64', 'float32').replace('verifFloat(', 'verifFloat32(')
src = src.replace('verifSame(', 'verifC01sameF32(').replace('verifAssertEqF(', 'verifC01eqF32(')
src = src.replace('verifC01absF(', 'verifC01absFS(')
src = src.replace('hi := 1.0', 'hi := float32(1.0)')
src = src.replace('Drotmg', 'Srotmg').replace('Drotm', 'Srotm')
hdr = '''// Code generated from zz_verif_c01_l1b.go by gen_s2.py; DO NOT EDIT.

package gonum

import "gonum.org/v1/gonum/blas"

'''
sys.stdout.write(hdr + src)
