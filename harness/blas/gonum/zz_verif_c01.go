package gonum

import "gonum.org/v1/gonum/blas"

func verifAbs(x int) int {
	if x < 0 {
		return -x
	}
	return x
}

// vector start index for BLAS increments
func verifVecIdx(n, inc, i int) int {
	if inc > 0 {
		return i * inc
	}
	return (n - 1 - i) * (-inc)
}

// VerifC01_Daxpy: y[i] += alpha*x[i] on exactly the addressed elements.
func VerifC01_Daxpy() {
	n := verifChoose("n", 0, verifParam("l1n", 4))
	incX := verifChoose("incX", -2, 2)
	incY := verifChoose("incY", -2, 2)
	if incX == 0 || incY == 0 {
		return
	}
	slack := verifChoose("slack", 0, 1)
	lx := 1 + (n-1)*verifAbs(incX) + slack
	ly := 1 + (n-1)*verifAbs(incY) + slack
	if n == 0 {
		lx, ly = slack, slack
	}
	x := verifFloats("x", lx)
	y := verifFloats("y", ly)
	alpha := verifFloat("alpha")
	x0 := append([]float64(nil), x...)
	y0 := append([]float64(nil), y...)
	Implementation{}.Daxpy(n, alpha, x, incX, y, incY)
	for i := range x {
		verifAssert(verifSame(x[i], x0[i]), "Daxpy: x unchanged")
	}
	want := append([]float64(nil), y0...)
	for i := 0; i < n; i++ {
		want[verifVecIdx(n, incY, i)] = y0[verifVecIdx(n, incY, i)] + alpha*x0[verifVecIdx(n, incX, i)]
	}
	for i := range y {
		verifAssertEqF(y[i], want[i], "Daxpy: y = alpha*x + y on addressed elements, rest untouched")
	}
	verifReach("end")
}

// VerifC01_Dgemv: y = alpha*op(A)*x + beta*y; padding, slack and operands untouched.
func VerifC01_Dgemv() {
	maxN := verifParam("l2n", 3)
	tA := blas.NoTrans
	if verifChoose("trans", 0, 1) == 1 {
		tA = blas.Trans
	}
	m := verifChoose("m", 0, maxN)
	n := verifChoose("n", 0, maxN)
	lda := n + verifChoose("ldaPad", 0, 1)
	if lda < 1 {
		lda = 1
	}
	incX := verifChoose("incX", -2, 2)
	incY := verifChoose("incY", -1, 2)
	if incX == 0 || incY == 0 {
		return
	}
	slack := verifChoose("slack", 0, 1)
	lenX, lenY := n, m
	if tA == blas.Trans {
		lenX, lenY = m, n
	}
	la := 0
	if m > 0 {
		la = lda*(m-1) + n
	}
	a := verifFloats("a", la+slack)
	lx, ly := slack, slack
	if lenX > 0 {
		lx = 1 + (lenX-1)*verifAbs(incX) + slack
	}
	if lenY > 0 {
		ly = 1 + (lenY-1)*verifAbs(incY) + slack
	}
	x := verifFloats("x", lx)
	y := verifFloats("y", ly)
	alpha := verifFloat("alpha")
	beta := verifFloat("beta")
	ab := verifChoose("alphabeta", 0, 3) // special scalar values
	switch ab {
	case 1:
		alpha = 0
	case 2:
		beta = 0
	case 3:
		beta = 1
	}
	a0 := append([]float64(nil), a...)
	x0 := append([]float64(nil), x...)
	y0 := append([]float64(nil), y...)
	Implementation{}.Dgemv(tA, m, n, alpha, a, lda, x, incX, beta, y, incY)
	for i := range a {
		verifAssert(verifSame(a[i], a0[i]), "Dgemv: A unchanged")
	}
	for i := range x {
		verifAssert(verifSame(x[i], x0[i]), "Dgemv: x unchanged")
	}
	want := append([]float64(nil), y0...)
	for i := 0; i < lenY && m > 0 && n > 0; i++ { // m==0 or n==0: documented BLAS quick return
		var s float64
		for j := 0; j < lenX; j++ {
			var aij float64
			if tA == blas.NoTrans {
				aij = a0[i*lda+j]
			} else {
				aij = a0[j*lda+i]
			}
			s += aij * x0[verifVecIdx(lenX, incX, j)]
		}
		yi := verifVecIdx(lenY, incY, i)
		want[yi] = alpha*s + beta*y0[yi]
	}
	for i := range y {
		verifAssertEqF(y[i], want[i], "Dgemv: y = alpha*op(A)*x + beta*y on addressed elements, rest untouched")
	}
	verifReach("end")
}
