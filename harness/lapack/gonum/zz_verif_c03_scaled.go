package gonum

import (
	"math"

	"gonum.org/v1/gonum/blas"
	"gonum.org/v1/gonum/lapack"
)

// C03, extreme magnitudes ("graded" inputs): every driver rescales a matrix
// whose norm lies outside [smlnum, bignum] and must undo the scaling on ALL of
// its outputs. With concrete data and a power-of-two factor s (exact scaling)
// the eigen/singular values of s*A are s times those of A and the vectors are
// unchanged: VerifC03_ConfigScaled compares the run on s*A (s = 2^500, 2^-500:
// beyond the scaling thresholds of Dgeev, Dsyev and Dgesvd) with the run on A
// for every job option, sizes 2..4, at the queried workspace.
func VerifC03_ConfigScaled() {
	impl := Implementation{}
	routine := verifChoose("routine", 0, 2)
	n := verifChoose("n", 2, verifParam("scaledn", 4))
	s := []float64{math.Ldexp(1, 500), math.Ldexp(1, -500)}[verifChoose("scale", 0, 1)]
	vecs := verifChoose("vectors", 0, 1) == 1
	a0 := verifC03cMat(n, n, n, 37*n+routine)
	if routine == 1 {
		verifC03cSym(n, n, a0)
	}
	as := verifC03cClone(a0)
	for i := range as {
		as[i] *= s
	}
	const rel = 1e-9
	close := func(x, y, scale float64) bool { return math.Abs(x-y) <= rel*scale }
	switch routine {
	case 0: // Dgeev
		jobvl, jobvr := lapack.LeftEVNone, lapack.RightEVNone
		if vecs {
			jobvl, jobvr = lapack.LeftEVCompute, lapack.RightEVCompute
		}
		run := func(a []float64) (wr, wi, vl, vr []float64) {
			wr, wi = make([]float64, n), make([]float64, n)
			vl, vr = make([]float64, n*n), make([]float64, n*n)
			q := make([]float64, 1)
			impl.Dgeev(jobvl, jobvr, n, verifC03cClone(a), n, wr, wi, vl, n, vr, n, q, -1)
			work := make([]float64, int(q[0]))
			first := impl.Dgeev(jobvl, jobvr, n, verifC03cClone(a), n, wr, wi, vl, n, vr, n, work, len(work))
			verifAssert(first == 0, "Dgeev: converged")
			return
		}
		wr, wi, vl, vr := run(a0)
		swr, swi, svl, svr := run(as)
		big := 0.0
		for i := 0; i < n; i++ {
			big = math.Max(big, math.Max(math.Abs(wr[i]), math.Abs(wi[i])))
		}
		// the order of the eigenvalues is not specified: compare as sorted lists
		ur, ui := make([]float64, n), make([]float64, n)
		for i := 0; i < n; i++ {
			ur[i], ui[i] = swr[i]/s, swi[i]/s // exact: s is a power of two
		}
		r1, i1 := verifC03cEigSorted(wr, wi)
		r2, i2 := verifC03cEigSorted(ur, ui)
		ok := true
		for i := 0; i < n; i++ {
			ok = ok && close(r2[i], r1[i], big) && close(i2[i], i1[i], big)
		}
		verifAssert(ok, "Dgeev: the eigenvalues (real and imaginary parts) of s*A are s times those of A")
		verifAssert(verifC03cPairs(swr, swi), "Dgeev: conjugate pairs adjacent, positive imaginary part first")
		if vecs {
			// residuals instead of vector comparison (order and sign free)
			res, nrm, real := verifC03cEigVecs(false, n, as, n, swr, swi, svr, n)
			verifAssert(res <= 1e-9*float64(n)*s*big && nrm <= 1e-10 && real, "Dgeev: (s*A)*v = lambda*v with unit-norm right eigenvectors")
			res, nrm, real = verifC03cEigVecs(true, n, as, n, swr, swi, svl, n)
			verifAssert(res <= 1e-9*float64(n)*s*big && nrm <= 1e-10 && real, "Dgeev: uH*(s*A) = lambda*uH with unit-norm left eigenvectors")
			_, _ = vl, vr
		}
	case 1: // Dsyev
		jobz := lapack.EVNone
		if vecs {
			jobz = lapack.EVCompute
		}
		uplo := []blas.Uplo{blas.Upper, blas.Lower}[verifChoose("uplo", 0, 1)]
		run := func(a []float64) (w, z []float64) {
			w = make([]float64, n)
			z = verifC03cClone(a)
			q := make([]float64, 1)
			impl.Dsyev(jobz, uplo, n, verifC03cClone(a), n, w, q, -1)
			work := make([]float64, int(q[0]))
			ok := impl.Dsyev(jobz, uplo, n, z, n, w, work, len(work))
			verifAssert(ok, "Dsyev: converged")
			return
		}
		w, z := run(a0)
		sw, sz := run(as)
		big := math.Max(math.Abs(w[0]), math.Abs(w[n-1]))
		ok := true
		for i := 0; i < n; i++ {
			ok = ok && close(sw[i], s*w[i], s*big)
			if i > 0 {
				ok = ok && sw[i-1] <= sw[i]
			}
		}
		verifAssert(ok, "Dsyev: the eigenvalues of s*A are s times those of A, ascending")
		if vecs {
			ok = true
			for i := range z {
				ok = ok && close(sz[i], z[i], 1)
			}
			verifAssert(ok, "Dsyev: the eigenvectors of s*A are those of A")
		}
	case 2: // Dgesvd
		job := lapack.SVDNone
		if vecs {
			job = lapack.SVDAll
		}
		run := func(a []float64) (sv, u, vt []float64) {
			sv = make([]float64, n)
			u, vt = make([]float64, n*n), make([]float64, n*n)
			q := make([]float64, 1)
			impl.Dgesvd(job, job, n, n, verifC03cClone(a), n, sv, u, n, vt, n, q, -1)
			work := make([]float64, int(q[0]))
			ok := impl.Dgesvd(job, job, n, n, verifC03cClone(a), n, sv, u, n, vt, n, work, len(work))
			verifAssert(ok, "Dgesvd: converged")
			return
		}
		sv, u, vt := run(a0)
		ssv, su, svt := run(as)
		ok := true
		for i := 0; i < n; i++ {
			ok = ok && close(ssv[i], s*sv[i], s*sv[0]) && ssv[i] >= 0
			if i > 0 {
				ok = ok && ssv[i-1] >= ssv[i]
			}
		}
		verifAssert(ok, "Dgesvd: the singular values of s*A are s times those of A, non-negative and descending")
		if vecs {
			ok = true
			for i := range u {
				ok = ok && close(su[i], u[i], 1) && close(svt[i], vt[i], 1)
			}
			verifAssert(ok, "Dgesvd: the singular vectors of s*A are those of A")
		}
	}
	verifReach("end")
}
