package gonum

import (
	"math"

	"gonum.org/v1/gonum/blas"
)

// C02, Dlatrs (the overflow-safe triangular solve beneath the condition
// estimators): for a concrete non-singular triangular matrix whose diagonal,
// off-diagonal part and right-hand side carry independent power-of-two
// magnitudes (2^-400, 1, 2^400: the largest intermediate, 2^1200, overflows, while every scaled solution and the scale factor itself stay representable) the returned (x, scale) satisfies
// op(A)*x = scale*b row by row, with 0 < scale <= 1 and x finite - including
// the combinations where the plain solve would overflow (tiny diagonal, huge
// right-hand side), which is exactly what scale is for. The residual is
// evaluated on mantissas: every quantity is divided by an exact power of two
// first, so the oracle itself cannot overflow.
func VerifC02_DlatrsMagnitude() {
	impl := Implementation{}
	n := verifChoose("n", 1, verifParam("latrsn", 3))
	uplo := []blas.Uplo{blas.Upper, blas.Lower}[verifChoose("uplo", 0, 1)]
	trans := []blas.Transpose{blas.NoTrans, blas.Trans}[verifChoose("trans", 0, 1)]
	diag := []blas.Diag{blas.NonUnit, blas.Unit}[verifChoose("diag", 0, 1)]
	exps := []int{0, -400, 400}
	ed := exps[verifChoose("ediag", 0, 2)]
	eo := exps[verifChoose("eoff", 0, 2)]
	eb := exps[verifChoose("erhs", 0, 2)]
	if diag == blas.Unit && ed != 0 {
		return // the stored diagonal is not referenced
	}
	// The exact solution grows like 2^(eb-ed) * 2^((n-1)*(eo-ed)). Beyond about
	// 2^1500 the scale factor of the (reference) algorithm itself underflows to
	// zero - it rescales once per column - so nothing representable is left to
	// check; those combinations are outside this harness.
	if eb-ed+(n-1)*max(0, eo-ed) > 1500 {
		return
	}
	a := make([]float64, n*n)
	b := make([]float64, n)
	for i := 0; i < n; i++ {
		b[i] = math.Ldexp(float64(2+i)*(1-2*float64(i%2)), eb)
		for j := 0; j < n; j++ {
			switch {
			case i == j:
				a[i*n+j] = math.Ldexp(float64(3+i), ed)
			case (uplo == blas.Upper) == (i < j):
				a[i*n+j] = math.Ldexp(float64(1+i+2*j)/8*(1-2*float64((i+j)%2)), eo)
			default:
				a[i*n+j] = math.NaN() // the other triangle is not referenced
			}
		}
	}
	x := append([]float64(nil), b...)
	cnorm := make([]float64, n)
	scale := impl.Dlatrs(uplo, trans, diag, false, n, a, n, x, cnorm)
	verifAssert(scale > 0 && scale <= 1, "Dlatrs: 0 < scale <= 1 for a non-singular matrix")
	// op(A)[i][j] with the unit diagonal substituted
	at := func(i, j int) float64 {
		if trans == blas.Trans {
			i, j = j, i
		}
		if i == j {
			if diag == blas.Unit {
				return 1
			}
			return a[i*n+j]
		}
		if (uplo == blas.Upper) == (i < j) {
			return a[i*n+j]
		}
		return 0
	}
	ok := true
	for i := 0; i < n; i++ {
		ok = ok && !math.IsNaN(x[i]) && !math.IsInf(x[i], 0)
	}
	verifAssert(ok, "Dlatrs: the solution is finite")
	if ok && scale > 0 {
		for i := 0; i < n; i++ {
			// exponent of the largest term of row i
			emax := math.MinInt32
			for j := 0; j < n; j++ {
				if at(i, j) != 0 && x[j] != 0 {
					_, e1 := math.Frexp(at(i, j))
					_, e2 := math.Frexp(x[j])
					emax = max(emax, e1+e2)
				}
			}
			_, es := math.Frexp(scale)
			_, e3 := math.Frexp(b[i])
			emax = max(emax, es+e3)
			var r, mag float64
			for j := 0; j < n; j++ {
				if at(i, j) != 0 && x[j] != 0 {
					f1, e1 := math.Frexp(at(i, j))
					f2, e2 := math.Frexp(x[j])
					t := math.Ldexp(f1*f2, e1+e2-emax)
					r += t
					mag += math.Abs(t)
				}
			}
			f3, _ := math.Frexp(b[i])
			fs, _ := math.Frexp(scale)
			t := math.Ldexp(fs*f3, es+e3-emax)
			r -= t
			mag += math.Abs(t)
			ok = ok && math.Abs(r) <= 1e-10*mag
		}
		verifAssert(ok, "Dlatrs: op(A)*x = scale*b row by row (relative to the largest term of the row)")
	}
	verifReach("end")
}
