package gonum

import (
	"gonum.org/v1/gonum/blas"
	"gonum.org/v1/gonum/lapack"
)

// ---- orthogonal-factor routines for ARBITRARY reflector vectors v_i and scalars tau_i ----
//
// The documented factorizations store the reflectors H_i = I - tau_i v_i v_i^T as
//
//	QR (Dgeqrf): v_i[0:i] = 0, v_i[i] = 1, v_i[i+1:] in column i of A;        Q = H_0 H_1 ... H_{k-1}
//	LQ (Dgelqf): v_i[0:i] = 0, v_i[i] = 1, v_i[i+1:] in row i of A;           Q = H_{k-1} ... H_1 H_0
//	QL (Dgeqlf): v_i[p+1:] = 0, v_i[p] = 1, v_i[0:p] in column n-k+i, p = m-k+i;  Q = H_{k-1} ... H_1 H_0
//	RQ (Dgerqf): v_i[p+1:] = 0, v_i[p] = 1, v_i[0:p] in row m-k+i,   p = n-k+i;  Q = H_0 H_1 ... H_{k-1}
//
// and the generate / multiply routines are checked against exactly these
// products, written as naive dense products in the harness. All cells of the
// arrays (reflector part, the part the routines must ignore, padding, work)
// are symbolic reals; everything is a polynomial identity in model R.

// verifC02qOrder: indices of the factors of Q from left to right.
func verifC02qOrder(k int, ascending bool) []int {
	o := make([]int, k)
	for i := range o {
		if ascending {
			o[i] = i
		} else {
			o[i] = k - 1 - i
		}
	}
	return o
}

// verifC02qDense returns the nq x nq matrix H_{order[0]} * H_{order[1]} * ... (row major, ld nq).
func verifC02qDense(nq int, vs [][]float64, tau []float64, order []int) []float64 {
	q := make([]float64, nq*nq)
	for i := 0; i < nq; i++ {
		q[i*nq+i] = 1
	}
	for _, i := range order {
		verifC02applyH(blas.Right, nq, nq, q, nq, vs[i], tau[i])
	}
	return q
}

// verifC02applyQ overwrites the m x n matrix c with op(Q)*c (Left) or c*op(Q)
// (Right), Q = H_{order[0]} * H_{order[1]} * ..., by applying one reflector at a time.
func verifC02applyQ(side blas.Side, trans blas.Transpose, m, n int, c []float64, ldc int, vs [][]float64, tau []float64, order []int) {
	k := len(order)
	for s := 0; s < k; s++ {
		// factors of op(Q) from left to right: order (NoTrans) or reversed (Trans, H_i symmetric).
		// Left: the rightmost factor acts first; Right: the leftmost factor acts first.
		pos := s
		if side == blas.Left {
			pos = k - 1 - s
		}
		if trans == blas.Trans {
			pos = k - 1 - pos
		}
		i := order[pos]
		verifC02applyH(side, m, n, c, ldc, vs[i], tau[i])
	}
}

// verifC02vecs extracts the k reflector vectors of order nq for the four storage
// schemes. kind: 0 QR (columns, unit at i), 1 LQ (rows, unit at i),
// 2 QL (column cols-k+i, unit at nq-k+i), 3 RQ (row rows-k+i, unit at nq-k+i).
// a is rows x cols with leading dimension lda.
func verifC02vecs(kind, nq, k, rows, cols int, a []float64, lda int) [][]float64 {
	vs := make([][]float64, k)
	for i := 0; i < k; i++ {
		v := make([]float64, nq)
		switch kind {
		case 0:
			v[i] = 1
			for r := i + 1; r < nq; r++ {
				v[r] = a[r*lda+i]
			}
		case 1:
			v[i] = 1
			for r := i + 1; r < nq; r++ {
				v[r] = a[i*lda+r]
			}
		case 2:
			p := nq - k + i
			v[p] = 1
			for r := 0; r < p; r++ {
				v[r] = a[r*lda+cols-k+i]
			}
		case 3:
			p := nq - k + i
			v[p] = 1
			for r := 0; r < p; r++ {
				v[r] = a[(rows-k+i)*lda+r]
			}
		}
		vs[i] = v
	}
	return vs
}

// verifC02lworkChoice: minimum, minimum+1, or a generous value.
func verifC02lworkChoice(name string, min int) int {
	switch verifChoose(name, 0, 2) {
	case 0:
		return min
	case 1:
		return min + 1
	}
	return 4*min + 7
}

// VerifC02_OrgGenerate: Dorgqr, Dorgl2, Dorglq, Dorg2l, Dorgql, Dorgr2 generate
// the documented sub-block of the documented product of reflectors.
// (Dorg2r is covered by VerifC02_Dorg2r.)
func VerifC02_OrgGenerate() {
	maxN := verifParam("orggn", 3)
	routine := verifChoose("routine", 0, 5) // 0 Dorgqr 1 Dorgl2 2 Dorglq 3 Dorg2l 4 Dorgql 5 Dorgr2
	var m, n int
	rowsWise := routine == 1 || routine == 2 || routine == 5 // m <= n, reflectors in rows
	if rowsWise {
		n = verifChoose("n", 0, maxN)
		m = verifChoose("m", 0, n)
	} else {
		m = verifChoose("m", 0, maxN)
		n = verifChoose("n", 0, m)
	}
	kmax := n
	if rowsWise {
		kmax = m
	}
	k := verifChoose("k", 0, kmax)
	lda := verifC02ld("ldaPad", n)
	a := verifC02mat("a", m, n, lda)
	tau := verifFloats("tau", k)
	a0, tau0 := verifC02clone(a), verifC02clone(tau)
	impl := Implementation{}
	var who string
	var kind, nq int
	var ascending bool
	switch routine {
	case 0:
		who, kind, nq, ascending = "Dorgqr", 0, m, true
		lwork := verifC02lworkChoice("lwork", verifC02max(1, n))
		work := verifFloats("work", lwork)
		impl.Dorgqr(m, n, k, a, lda, tau, work, lwork)
	case 1:
		who, kind, nq, ascending = "Dorgl2", 1, n, false
		impl.Dorgl2(m, n, k, a, lda, tau, verifFloats("work", m))
	case 2:
		who, kind, nq, ascending = "Dorglq", 1, n, false
		lwork := verifC02lworkChoice("lwork", verifC02max(1, m))
		work := verifFloats("work", lwork)
		impl.Dorglq(m, n, k, a, lda, tau, work, lwork)
	case 3:
		who, kind, nq, ascending = "Dorg2l", 2, m, false
		impl.Dorg2l(m, n, k, a, lda, tau, verifFloats("work", n))
	case 4:
		who, kind, nq, ascending = "Dorgql", 2, m, false
		lwork := verifC02lworkChoice("lwork", verifC02max(1, n))
		work := verifFloats("work", lwork)
		impl.Dorgql(m, n, k, a, lda, tau, work, lwork)
	case 5:
		who, kind, nq, ascending = "Dorgr2", 3, n, true
		impl.Dorgr2(m, n, k, a, lda, tau, verifFloats("work", m))
	}
	verifC02sameAll(tau, tau0, who+": tau unchanged")
	verifC02samePad(a, a0, m, n, lda, who+": padding untouched")
	vs := verifC02vecs(kind, nq, k, m, n, a0, lda)
	q := verifC02qDense(nq, vs, tau0, verifC02qOrder(k, ascending))
	for i := 0; i < m; i++ {
		for j := 0; j < n; j++ {
			var want float64
			switch kind {
			case 0: // first n columns of the m x m product
				want = q[i*nq+j]
			case 1: // first m rows of the n x n product
				want = q[i*nq+j]
			case 2: // last n columns of the m x m product
				want = q[i*nq+(m-n+j)]
			case 3: // last m rows of the n x n product
				want = q[(n-m+i)*nq+j]
			}
			verifAssertEqF(a[i*lda+j], want, who+": Q == documented block of the documented product of reflectors")
		}
	}
	verifReach("end")
}

// VerifC02_OrmMultiply: Dormqr, Dorml2, Dormlq, Dormr2 overwrite C with
// op(Q)*C or C*op(Q) for the documented Q; A and tau are restored/unchanged.
// (Dorm2r is covered by VerifC02_Dorm2r.)
func VerifC02_OrmMultiply() {
	maxN := verifParam("ormmn", 2)
	routine := verifChoose("routine", 0, 3) // 0 Dormqr 1 Dorml2 2 Dormlq 3 Dormr2
	m := verifChoose("m", 0, maxN)
	n := verifChoose("n", 0, maxN)
	side := verifC02side("side")
	trans := blas.NoTrans
	if verifChoose("trans", 0, 1) == 1 {
		trans = blas.Trans
	}
	nq, nw := m, n
	if side == blas.Right {
		nq, nw = n, m
	}
	k := verifChoose("k", 0, verifC02min(nq, verifParam("ormmk", 2)))
	var lda int
	var a []float64
	if routine == 0 {
		lda = verifC02ld("ldaPad", k)
		a = verifC02mat("a", nq, k, lda)
	} else {
		lda = verifC02ld("ldaPad", nq)
		a = verifC02mat("a", k, nq, lda)
	}
	ldc := verifC02ld("ldcPad", n)
	tau := verifFloats("tau", k)
	c := verifC02mat("c", m, n, ldc)
	a0, tau0, c0 := verifC02clone(a), verifC02clone(tau), verifC02clone(c)
	impl := Implementation{}
	var who string
	var vs [][]float64
	var ascending bool
	switch routine {
	case 0:
		who, ascending = "Dormqr", true
		vs = verifC02vecs(0, nq, k, nq, k, a0, lda)
		lwork := verifC02lworkChoice("lwork", verifC02max(1, nw))
		work := verifFloats("work", lwork)
		impl.Dormqr(side, trans, m, n, k, a, lda, tau, c, ldc, work, lwork)
	case 1:
		who, ascending = "Dorml2", false
		vs = verifC02vecs(1, nq, k, k, nq, a0, lda)
		impl.Dorml2(side, trans, m, n, k, a, lda, tau, c, ldc, verifFloats("work", nw))
	case 2:
		who, ascending = "Dormlq", false
		vs = verifC02vecs(1, nq, k, k, nq, a0, lda)
		lwork := verifC02lworkChoice("lwork", verifC02max(1, nw))
		work := verifFloats("work", lwork)
		impl.Dormlq(side, trans, m, n, k, a, lda, tau, c, ldc, work, lwork)
	case 3:
		who, ascending = "Dormr2", true
		vs = verifC02vecs(3, nq, k, k, nq, a0, lda)
		impl.Dormr2(side, trans, m, n, k, a, lda, tau, c, ldc, verifFloats("work", nw))
	}
	verifC02sameAll(a, a0, who+": A restored")
	verifC02sameAll(tau, tau0, who+": tau unchanged")
	verifC02samePad(c, c0, m, n, ldc, who+": padding of C untouched")
	want := verifC02clone(c0)
	verifC02applyQ(side, trans, m, n, want, ldc, vs, tau0, verifC02qOrder(k, ascending))
	for i := 0; i < m; i++ {
		for j := 0; j < n; j++ {
			verifAssertEqF(c[i*ldc+j], want[i*ldc+j], who+": C == op(Q) C resp. C op(Q) for the documented product of reflectors")
		}
	}
	verifReach("end")
}

// verifC02shiftVecs: reflectors of the "shifted" layouts used by Dgebrd when the
// matrix has fewer rows (Q) resp. columns (P) than the other dimension, and by
// Dsytrd(Lower): v_i[0:i+1] = 0, v_i[i+1] = 1, v_i[i+2:] stored in column i
// (byCol) or row i (!byCol) of a. Returns nq-1 vectors of order nq.
func verifC02shiftVecs(nq int, byCol bool, a []float64, lda int) [][]float64 {
	var vs [][]float64
	for i := 0; i+1 < nq; i++ {
		v := make([]float64, nq)
		v[i+1] = 1
		for r := i + 2; r < nq; r++ {
			if byCol {
				v[r] = a[r*lda+i]
			} else {
				v[r] = a[i*lda+r]
			}
		}
		vs = append(vs, v)
	}
	return vs
}

// VerifC02_Dorgbr: Q (first n columns) resp. P^T (first m rows) of the
// bidiagonal reduction for arbitrary reflectors, all four shape regimes:
//
//	GenerateQ,  m >= k: Q   = H_0 ... H_{k-1},   v_i = (0_i, 1, A[i+1:m, i])
//	GenerateQ,  m <  k: Q   = H_0 ... H_{m-2},   v_i = (0_{i+1}, 1, A[i+2:m, i]),  n == m
//	GeneratePT, k <  n: P^T = G_{k-1} ... G_0,   u_i = (0_i, 1, A[i, i+1:n])
//	GeneratePT, k >= n: P^T = G_{n-2} ... G_0,   u_i = (0_{i+1}, 1, A[i, i+2:n]),  m == n
func VerifC02_Dorgbr() {
	maxN := verifParam("orgbn", 3)
	wantq := verifChoose("vect", 0, 1) == 0
	m := verifChoose("m", 0, maxN)
	n := verifChoose("n", 0, maxN)
	k := verifChoose("k", 0, maxN+1)
	if wantq && (n > m || n < verifC02min(m, k)) {
		return
	}
	if !wantq && (m > n || m < verifC02min(n, k)) {
		return
	}
	lda := verifC02ld("ldaPad", n)
	a := verifC02mat("a", m, n, lda)
	ntau := verifC02min(m, k)
	if !wantq {
		ntau = verifC02min(n, k)
	}
	tau := verifFloats("tau", ntau)
	a0, tau0 := verifC02clone(a), verifC02clone(tau)
	lwork := verifC02lworkChoice("lwork", verifC02max(1, verifC02min(m, n)))
	work := verifFloats("work", lwork)
	vect := lapack.GenerateQ
	if !wantq {
		vect = lapack.GeneratePT
	}
	Implementation{}.Dorgbr(vect, m, n, k, a, lda, tau, work, lwork)
	verifC02sameAll(tau, tau0, "Dorgbr: tau unchanged")
	verifC02samePad(a, a0, m, n, lda, "Dorgbr: padding untouched")
	var q []float64
	var nq int
	switch {
	case wantq && m >= k:
		nq = m
		q = verifC02qDense(nq, verifC02vecs(0, nq, k, m, n, a0, lda), tau0, verifC02qOrder(k, true))
	case wantq:
		nq = m
		vs := verifC02shiftVecs(nq, true, a0, lda)
		q = verifC02qDense(nq, vs, tau0, verifC02qOrder(len(vs), true))
	case k < n:
		nq = n
		q = verifC02qDense(nq, verifC02vecs(1, nq, k, m, n, a0, lda), tau0, verifC02qOrder(k, false))
	default:
		nq = n
		vs := verifC02shiftVecs(nq, false, a0, lda)
		q = verifC02qDense(nq, vs, tau0, verifC02qOrder(len(vs), false))
	}
	for i := 0; i < m; i++ {
		for j := 0; j < n; j++ {
			verifAssertEqF(a[i*lda+j], q[i*nq+j], "Dorgbr: result == leading block of the documented product of reflectors")
		}
	}
	verifReach("end")
}

// VerifC02_Dormbr: C := op(Q)*C, C*op(Q), op(P)*C, C*op(P) with
//
//	ApplyQ, nq >= k: Q = H_0 ... H_{k-1}  (QR layout, A is nq x k)
//	ApplyQ, nq <  k: Q = H_0 ... H_{nq-2} (shifted columns, A is nq x nq)
//	ApplyP, nq >  k: P = G_0 ... G_{k-1}  (LQ layout, A is k x nq)
//	ApplyP, nq <= k: P = G_0 ... G_{nq-2} (shifted rows, A is nq x nq)
func VerifC02_Dormbr() {
	// The order of Q resp. P (nq) goes up to ormbn = 3: that is the smallest
	// order at which the shifted layouts hold two reflectors, so that the product
	// order and trans matter; the other dimension of C (nw) stays <= ormbw.
	maxN := verifParam("ormbn", 3)
	applyQ := verifChoose("vect", 0, 1) == 0
	side := verifC02side("side")
	nq := verifChoose("nq", 0, maxN)
	nw := verifChoose("nw", 0, verifParam("ormbw", 2))
	m, n := nq, nw
	if side == blas.Right {
		m, n = nw, nq
	}
	trans := blas.NoTrans
	if verifChoose("trans", 0, 1) == 1 {
		trans = blas.Trans
	}
	k := verifChoose("k", 0, verifParam("ormbk", maxN+1)) // k > nq and k == nq select the same regime
	minnqk := verifC02min(nq, k)
	var lda int
	var a []float64
	pad := verifChoose("pad", 0, 1) // lda and ldc both minimal or both minimal+1
	if applyQ {
		lda = verifC02max(1, minnqk) + pad
		a = verifC02mat("a", nq, minnqk, lda)
	} else {
		lda = verifC02max(1, nq) + pad
		a = verifC02mat("a", minnqk, nq, lda)
	}
	ldc := verifC02max(1, n) + pad
	tau := verifFloats("tau", minnqk)
	c := verifC02mat("c", m, n, ldc)
	a0, tau0, c0 := verifC02clone(a), verifC02clone(tau), verifC02clone(c)
	lwork := verifC02max(1, nw) // documented minimum or generous
	if verifParam("ormblw", 1) == 1 && verifChoose("lwork", 0, 1) == 1 {
		lwork = 4*lwork + 7
	}
	work := verifFloats("work", lwork)
	vect := lapack.ApplyQ
	if !applyQ {
		vect = lapack.ApplyP
	}
	Implementation{}.Dormbr(vect, side, trans, m, n, k, a, lda, tau, c, ldc, work, lwork)
	verifC02sameAll(a, a0, "Dormbr: A restored")
	verifC02sameAll(tau, tau0, "Dormbr: tau unchanged")
	verifC02samePad(c, c0, m, n, ldc, "Dormbr: padding of C untouched")
	var vs [][]float64
	switch {
	case applyQ && nq >= k:
		vs = verifC02vecs(0, nq, k, nq, k, a0, lda)
	case applyQ:
		vs = verifC02shiftVecs(nq, true, a0, lda)
	case nq > k:
		vs = verifC02vecs(1, nq, k, k, nq, a0, lda)
	default:
		vs = verifC02shiftVecs(nq, false, a0, lda)
	}
	want := verifC02clone(c0)
	verifC02applyQ(side, trans, m, n, want, ldc, vs, tau0, verifC02qOrder(len(vs), true))
	for i := 0; i < m; i++ {
		for j := 0; j < n; j++ {
			verifAssertEqF(c[i*ldc+j], want[i*ldc+j], "Dormbr: C == op(Q|P) C resp. C op(Q|P) for the documented product of reflectors")
		}
	}
	verifReach("end")
}

// VerifC02_Dorgtr: Q of the tridiagonal reduction for arbitrary reflectors:
//
//	Upper: Q = H_{n-2} ... H_0, v_i = (A[0:i, i+1], 1, 0...)   (unit at i)
//	Lower: Q = H_0 ... H_{n-2}, v_i = (0_{i+1}, 1, A[i+2:n, i])
func VerifC02_Dorgtr() {
	n := verifChoose("n", 0, verifParam("orgtn", 4))
	uplo := verifC02uplo("uplo")
	lda := verifC02ld("ldaPad", n)
	a := verifC02mat("a", n, n, lda)
	tau := verifFloats("tau", verifC02max(n-1, 0))
	a0, tau0 := verifC02clone(a), verifC02clone(tau)
	lwork := verifC02lworkChoice("lwork", verifC02max(1, n-1))
	work := verifFloats("work", lwork)
	Implementation{}.Dorgtr(uplo, n, a, lda, tau, work, lwork)
	verifC02sameAll(tau, tau0, "Dorgtr: tau unchanged")
	verifC02samePad(a, a0, n, n, lda, "Dorgtr: padding untouched")
	var vs [][]float64
	ascending := true
	if uplo == blas.Upper {
		ascending = false
		for i := 0; i+1 < n; i++ {
			v := make([]float64, n)
			v[i] = 1
			for r := 0; r < i; r++ {
				v[r] = a0[r*lda+i+1]
			}
			vs = append(vs, v)
		}
	} else {
		vs = verifC02shiftVecs(n, true, a0, lda)
	}
	q := verifC02qDense(n, vs, tau0, verifC02qOrder(len(vs), ascending))
	for i := 0; i < n; i++ {
		for j := 0; j < n; j++ {
			verifAssertEqF(a[i*lda+j], q[i*n+j], "Dorgtr: Q == documented product of reflectors")
		}
	}
	verifReach("end")
}
