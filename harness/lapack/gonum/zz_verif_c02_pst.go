package gonum

import "gonum.org/v1/gonum/blas"

// ---- pivoted Cholesky: Dpstf2 / Dpstrf ----

// verifC02pstFac returns element (k,i), k <= i, of the upper factor U (Upper)
// resp. of L^T (Lower) stored in a.
func verifC02pstFac(uplo blas.Uplo, a []float64, lda, k, i int) float64 {
	if uplo == blas.Upper {
		return a[k*lda+i]
	}
	return a[i*lda+k]
}

// verifC02pstCheck: the contract of Dpstf2/Dpstrf for an ARBITRARY symmetric A
// (given by the uplo triangle of a0) and an arbitrary tolerance:
//   - piv is a permutation, ok == (rank == n), the other triangle and padding are untouched;
//   - the first rank rows of the factor are final:
//     (P^T A P)[i][j] == sum_{k<=i} F[k][i]*F[k][j] for i < rank, i <= j, with F[i][i] > 0;
//   - every accepted pivot after the first exceeds the stopping value
//     dstop = tol (tol >= 0) or n*eps*max_k A[k][k] (tol < 0);
//   - when the factorization stops at step rank < n, every diagonal entry of the
//     remaining Schur complement is <= dstop (rank >= 1) resp. no diagonal
//     entry of A is positive (rank == 0).
func verifC02pstCheck(who string, uplo blas.Uplo, n, lda int, a, a0 []float64, piv []int, tol float64, rank int, ok bool) {
	verifC02otherTriSame(uplo, blas.NonUnit, a, a0, n, lda, who+": other triangle and padding untouched")
	verifAssert(ok == (rank == n), who+": ok exactly when rank == n")
	verifAssert(verifAnd(0 <= rank, rank <= n), who+": 0 <= rank <= n")
	for i := 0; i < n; i++ {
		verifAssert(verifAnd(0 <= piv[i], piv[i] < n), who+": piv[i] in [0,n)")
		for j := i + 1; j < n; j++ {
			verifAssert(piv[i] != piv[j], who+": piv is a permutation")
		}
	}
	if rank < 0 || rank > n {
		return
	}
	for i := 0; i < n; i++ {
		if piv[i] < 0 || piv[i] >= n {
			return
		}
	}
	if n == 0 {
		return
	}
	mx := a0[0]
	for i := 1; i < n; i++ {
		mx = verifIteF(a0[i*lda+i] > mx, a0[i*lda+i], mx)
	}
	dstop := verifIteF(tol < 0, float64(n)*dlamchE*mx, tol)
	pa := func(i, j int) float64 { return verifC02sym(uplo, a0, lda, piv[i], piv[j]) }
	for i := 0; i < rank; i++ {
		verifAssert(verifC02pstFac(uplo, a, lda, i, i) > 0, who+": diagonal of the computed rows of the factor is positive")
		if i > 0 {
			d := verifC02pstFac(uplo, a, lda, i, i)
			verifAssert(d*d > dstop, who+": an accepted pivot exceeds the stopping value")
		}
		for j := i; j < n; j++ {
			var s float64
			for k := 0; k <= i; k++ {
				s += verifC02pstFac(uplo, a, lda, k, i) * verifC02pstFac(uplo, a, lda, k, j)
			}
			verifAssertEqF(s, pa(i, j), who+": P^T*A*P == U^T*U (L*L^T) on the computed rows")
		}
	}
	if rank == 0 {
		for i := 0; i < n; i++ {
			verifAssert(a0[i*lda+i] <= 0, who+": rank 0 is reported only when no diagonal entry is positive")
		}
		verifReach("rank0")
		return
	}
	for i := rank; i < n; i++ {
		s := pa(i, i)
		for k := 0; k < rank; k++ {
			f := verifC02pstFac(uplo, a, lda, k, i)
			s -= f * f
		}
		verifAssert(s <= dstop, who+": stopped only when every remaining pivot candidate is <= the stopping value")
	}
}

func verifC02pst(blocked bool) {
	who := "Dpstf2"
	if blocked {
		who = "Dpstrf"
	}
	n := verifChoose("n", verifParam("pstnmin", 0), verifParam("pstn", 3))
	uplo := verifC02uplo("uplo")
	lda := verifC02ld("ldaPad", n)
	a := verifC02mat("a", n, n, lda)
	a0 := verifC02clone(a)
	tol := verifFloat("tol")
	if verifParam("psttolzero", 0) == 1 {
		tol = 0 // cheaper variant used to probe n = 3
	}
	piv := make([]int, n)
	for i := range piv {
		piv[i] = -7 // must be overwritten
	}
	work := verifFloats("work", 2*n)
	var rank int
	var ok bool
	if blocked {
		rank, ok = Implementation{}.Dpstrf(uplo, n, a, lda, piv, tol, work)
	} else {
		rank, ok = Implementation{}.Dpstf2(uplo, n, a, lda, piv, tol, work)
	}
	verifC02pstCheck(who, uplo, n, lda, a, a0, piv, tol, rank, ok)
	verifReach("end")
}

// VerifC02_Dpstf2: unblocked pivoted Cholesky on an arbitrary symmetric matrix.
func VerifC02_Dpstf2() { verifC02pst(false) }

// VerifC02_Dpstrf: blocked driver (dispatches to Dpstf2 at these sizes).
func VerifC02_Dpstrf() { verifC02pst(true) }

// VerifC02_DpstrfFromFactor: A := R^T*R (L*L^T) for a symbolic triangular R with
// positive diagonal, i.e. an arbitrary positive definite A, and tol = 0 (in exact
// arithmetic a positive definite matrix has positive pivots, but not pivots
// above n*eps*max diag, so the default tolerance is not used here): the
// factorization must report full rank.
func VerifC02_DpstrfFromFactor() {
	n := verifChoose("n", verifParam("pstfnmin", 1), verifParam("pstfn", 3))
	uplo := verifC02uplo("uplo")
	blocked := verifChoose("blocked", 0, 1) == 1
	lda := verifC02ld("ldaPad", n)
	r := verifC02mat("r", n, n, lda)
	for i := 0; i < n; i++ {
		verifAssume(r[i*lda+i] > 0)
	}
	a := verifC02mat("a", n, n, lda)
	for i := 0; i < n; i++ {
		for j := 0; j < n; j++ {
			if !verifC02inTri(uplo, i, j) {
				continue
			}
			var s float64
			for k := 0; k < n; k++ {
				if uplo == blas.Upper {
					s += verifC02tri(uplo, blas.NonUnit, r, lda, k, i) * verifC02tri(uplo, blas.NonUnit, r, lda, k, j)
				} else {
					s += verifC02tri(uplo, blas.NonUnit, r, lda, i, k) * verifC02tri(uplo, blas.NonUnit, r, lda, j, k)
				}
			}
			a[i*lda+j] = s
		}
	}
	piv := make([]int, n)
	work := verifFloats("work", 2*n)
	var rank int
	var ok bool
	if blocked {
		rank, ok = Implementation{}.Dpstrf(uplo, n, a, lda, piv, 0, work)
	} else {
		rank, ok = Implementation{}.Dpstf2(uplo, n, a, lda, piv, 0, work)
	}
	verifAssert(ok, "Dpstrf: a positive definite matrix has full computed rank with tol = 0")
	verifAssert(rank == n, "Dpstrf: rank == n for a positive definite matrix with tol = 0")
	verifReach("end")
}

// VerifC02_DpstrfNoPositiveDiagF (model F: IEEE comparisons exact, arithmetic
// uninterpreted, cells may be NaN/Inf/-0): when no diagonal entry of A is
// positive (exact zeros, negative values, NaN) the routines report rank 0,
// ok == false, piv is still a permutation and the unreferenced triangle and
// the padding are bit-identical.
func VerifC02_DpstrfNoPositiveDiagF() {
	n := verifChoose("n", 1, verifParam("pstn", 3))
	uplo := verifC02uplo("uplo")
	blocked := verifChoose("blocked", 0, 1) == 1
	lda := verifC02ld("ldaPad", n)
	a := verifC02mat("a", n, n, lda)
	for i := 0; i < n; i++ {
		verifAssume(verifNot(a[i*lda+i] > 0))
	}
	a0 := verifC02clone(a)
	tol := verifFloat("tol")
	piv := make([]int, n)
	for i := range piv {
		piv[i] = -7
	}
	work := verifFloats("work", 2*n)
	var rank int
	var ok bool
	if blocked {
		rank, ok = Implementation{}.Dpstrf(uplo, n, a, lda, piv, tol, work)
	} else {
		rank, ok = Implementation{}.Dpstf2(uplo, n, a, lda, piv, tol, work)
	}
	verifAssert(verifAnd(rank == 0, !ok), "Dpstrf: no positive diagonal entry gives rank 0 and ok == false")
	for i := range piv {
		verifAssert(verifAnd(0 <= piv[i], piv[i] < n), "Dpstrf: piv[i] in [0,n)")
		for j := i + 1; j < n; j++ {
			verifAssert(piv[i] != piv[j], "Dpstrf: piv is a permutation also when nothing was factored")
		}
	}
	verifC02otherTriSame(uplo, blas.NonUnit, a, a0, n, lda, "Dpstrf: other triangle and padding untouched")
	verifReach("end")
}

// VerifC02_DpstrfStructureF (model F: arithmetic uninterpreted, so every pivot
// order and every stopping step is a feasible path; cells may be NaN/Inf): for
// an arbitrary matrix and tolerance piv is a permutation, 0 <= rank <= n,
// ok == (rank == n), and the unreferenced triangle and the padding are
// bit-identical. Covers n = 3, where the algebraic identity is not decided.
func VerifC02_DpstrfStructureF() {
	n := verifChoose("n", 0, verifParam("pstsn", 3))
	uplo := verifC02uplo("uplo")
	blocked := verifParam("pstsblocked", 1) == 1 // Dpstrf dispatches to Dpstf2 at these sizes: one call covers both
	var lda int
	if fp := verifParam("pstspad", -1); fp >= 0 {
		lda = verifC02max(1, n) + fp // quick tier: one layout only
	} else {
		lda = verifC02ld("ldaPad", n)
	}
	a := verifC02mat("a", n, n, lda)
	a0 := verifC02clone(a)
	tol := verifFloat("tol")
	piv := make([]int, n)
	for i := range piv {
		piv[i] = -7
	}
	work := verifFloats("work", 2*n)
	var rank int
	var ok bool
	if blocked {
		rank, ok = Implementation{}.Dpstrf(uplo, n, a, lda, piv, tol, work)
	} else {
		rank, ok = Implementation{}.Dpstf2(uplo, n, a, lda, piv, tol, work)
	}
	verifAssert(verifAnd(0 <= rank, rank <= n), "Dpstrf: 0 <= rank <= n")
	verifAssert(ok == (rank == n), "Dpstrf: ok exactly when rank == n")
	for i := range piv {
		verifAssert(verifAnd(0 <= piv[i], piv[i] < n), "Dpstrf: piv[i] in [0,n)")
		for j := i + 1; j < n; j++ {
			verifAssert(piv[i] != piv[j], "Dpstrf: piv is a permutation")
		}
	}
	verifC02otherTriSame(uplo, blas.NonUnit, a, a0, n, lda, "Dpstrf: other triangle and padding untouched")
	verifReach("end")
}
