package gonum

import "gonum.org/v1/gonum/blas"

// ---- shared helpers of the C02/C03 harnesses (prefix verifC02) ----

func verifC02max(a, b int) int {
	if a > b {
		return a
	}
	return b
}

func verifC02min(a, b int) int {
	if a < b {
		return a
	}
	return b
}

// verifC02ld returns a leading dimension max(1,cols)+pad with pad case-split in {0,1}.
func verifC02ld(name string, cols int) int {
	return verifC02max(1, cols) + verifChoose(name, 0, 1)
}

// verifC02mat returns a symbolic rows x cols matrix with leading dimension ld
// stored in a slice of exactly the minimal admissible length (rows-1)*ld+cols
// (so every padding cell that exists lies between two rows). With cols == 0 the
// slice still has (rows-1)*ld cells: several routines (Dtrtrs, Dtbtrs) check
// len(b) >= (n-1)*ldb+nrhs before any quick return.
func verifC02mat(name string, rows, cols, ld int) []float64 {
	if rows <= 0 {
		return verifFloats(name, 0)
	}
	return verifFloats(name, (rows-1)*ld+cols)
}

func verifC02clone(a []float64) []float64 {
	return append([]float64(nil), a...)
}

// verifC02samePad asserts that every cell of a outside the rows x cols window is bit-identical to a0.
func verifC02samePad(a, a0 []float64, rows, cols, ld int, msg string) {
	for i := range a {
		if i/ld < rows && i%ld < cols {
			continue
		}
		verifAssert(verifSame(a[i], a0[i]), msg)
	}
}

func verifC02sameAll(a, a0 []float64, msg string) {
	for i := range a {
		verifAssert(verifSame(a[i], a0[i]), msg)
	}
}

// verifC02luCheck checks P*A0 == L*U, the pivot range, padding and the ok flag.
func verifC02luCheck(who string, m, n, lda int, a, a0 []float64, ipiv []int, ok bool) {
	mn := verifC02min(m, n)
	if verifParam("tinypiv", 1) == 0 {
		// Exclude the paths on which a pivot p with 0 < |p| < dlamchS was met
		// (Dgetf2's unscaled-division branch, see notes/C02.md finding F5).
		for j := 0; j < mn; j++ {
			p := a[j*lda+j]
			verifAssume(verifOr(p == 0, verifOr(p >= dlamchS, p <= -dlamchS)))
		}
	}
	verifC02samePad(a, a0, m, n, lda, who+": padding cells untouched")
	// P*A0: apply the row interchanges in order.
	pa := verifC02clone(a0)
	for j := 0; j < mn; j++ {
		p := ipiv[j]
		verifAssert(verifAnd(j <= p, p < m), who+": ipiv[j] in [j,m)")
		for c := 0; c < n; c++ {
			t := pa[j*lda+c]
			pa[j*lda+c] = pa[p*lda+c]
			pa[p*lda+c] = t
		}
	}
	for i := 0; i < m; i++ {
		for j := 0; j < n; j++ {
			// (L*U)[i][j] = sum_{k<=min(i,j), k<mn} L[i][k]*U[k][j], L unit lower.
			var s float64
			for k := 0; k < mn && k <= i && k <= j; k++ {
				l := a[i*lda+k]
				if k == i {
					l = 1
				}
				s += l * a[k*lda+j]
			}
			verifAssertEqF(pa[i*lda+j], s, who+": P*A == L*U")
		}
	}
	zero := false
	for j := 0; j < mn; j++ {
		zero = verifOr(zero, a[j*lda+j] == 0)
	}
	verifAssert(verifIff(ok, verifNot(zero)), who+": ok == false exactly when U has an exactly zero diagonal entry")
}

// VerifC02_Dgetf2: unblocked LU with partial pivoting.
func VerifC02_Dgetf2() {
	maxN := verifParam("lun", 3)
	m := verifChoose("m", verifParam("lunmin", 0), maxN)
	n := verifChoose("n", verifParam("lunmin", 0), maxN)
	lda := verifC02ld("ldaPad", n)
	a := verifC02mat("a", m, n, lda)
	a0 := verifC02clone(a)
	ipiv := make([]int, verifC02min(m, n))
	ok := Implementation{}.Dgetf2(m, n, a, lda, ipiv)
	verifC02luCheck("Dgetf2", m, n, lda, a, a0, ipiv, ok)
	verifReach("end")
}

// VerifC02_Dgetrf: blocked driver (dispatches to Dgetf2 at these sizes).
func VerifC02_Dgetrf() {
	maxN := verifParam("lun", 3)
	m := verifChoose("m", verifParam("lunmin", 0), maxN)
	n := verifChoose("n", verifParam("lunmin", 0), maxN)
	lda := verifC02ld("ldaPad", n)
	a := verifC02mat("a", m, n, lda)
	a0 := verifC02clone(a)
	ipiv := make([]int, verifC02min(m, n))
	ok := Implementation{}.Dgetrf(m, n, a, lda, ipiv)
	verifC02luCheck("Dgetrf", m, n, lda, a, a0, ipiv, ok)
	verifReach("end")
}

// verifC02opA returns op(A)[i][j] of an n x n matrix.
func verifC02opA(trans blas.Transpose, a []float64, lda, i, j int) float64 {
	if trans == blas.NoTrans {
		return a[i*lda+j]
	}
	return a[j*lda+i]
}

func verifC02trans(name string) blas.Transpose {
	switch verifChoose(name, 0, 2) {
	case 0:
		return blas.NoTrans
	case 1:
		return blas.Trans
	}
	return blas.ConjTrans
}

// VerifC02_DgetrfDgetrs: factor then solve; op(A)*X == B when ok.
func VerifC02_DgetrfDgetrs() {
	maxN := verifParam("solven", 3)
	n := verifChoose("n", 0, maxN)
	nrhs := verifChoose("nrhs", 0, verifParam("nrhs", 2))
	trans := verifC02trans("trans")
	lda := verifC02ld("ldaPad", n)
	ldb := verifC02ld("ldbPad", nrhs)
	a := verifC02mat("a", n, n, lda)
	b := verifC02mat("b", n, nrhs, ldb)
	a0 := verifC02clone(a)
	b0 := verifC02clone(b)
	ipiv := make([]int, n)
	ok := Implementation{}.Dgetrf(n, n, a, lda, ipiv)
	if !ok {
		return
	}
	af := verifC02clone(a)
	ip0 := append([]int(nil), ipiv...)
	Implementation{}.Dgetrs(trans, n, nrhs, a, lda, ipiv, b, ldb)
	verifC02sameAll(a, af, "Dgetrs: factor unchanged")
	for i := range ipiv {
		verifAssert(ipiv[i] == ip0[i], "Dgetrs: ipiv unchanged")
	}
	verifC02samePad(b, b0, n, nrhs, ldb, "Dgetrs: padding of B untouched")
	for i := 0; i < n; i++ {
		for j := 0; j < nrhs; j++ {
			var s float64
			for k := 0; k < n; k++ {
				s += verifC02opA(trans, a0, lda, i, k) * b[k*ldb+j]
			}
			verifAssertEqF(s, b0[i*ldb+j], "Dgetrs: op(A)*X == B")
		}
	}
	verifReach("end")
}

// VerifC02_Dgesv: A*X == B when ok; factors returned in A are the LU factors.
func VerifC02_Dgesv() {
	maxN := verifParam("solven", 3)
	n := verifChoose("n", 0, maxN)
	nrhs := verifChoose("nrhs", 0, verifParam("nrhs", 2))
	lda := verifC02ld("ldaPad", n)
	ldb := verifC02ld("ldbPad", nrhs)
	a := verifC02mat("a", n, n, lda)
	b := verifC02mat("b", n, nrhs, ldb)
	a0 := verifC02clone(a)
	b0 := verifC02clone(b)
	ipiv := make([]int, n)
	ok := Implementation{}.Dgesv(n, nrhs, a, lda, ipiv, b, ldb)
	if n == 0 || nrhs == 0 {
		// gonum's documented-in-code quick return: nothing is factored.
		verifAssert(ok, "Dgesv: quick return reports success")
		verifC02sameAll(a, a0, "Dgesv: quick return modifies nothing")
		verifC02sameAll(b, b0, "Dgesv: quick return modifies nothing")
		return
	}
	verifC02luCheck("Dgesv", n, n, lda, a, a0, ipiv, ok)
	verifC02samePad(b, b0, n, nrhs, ldb, "Dgesv: padding of B untouched")
	if !ok {
		verifC02sameAll(b, b0, "Dgesv: B not modified when the factorization reports singularity")
		return
	}
	for i := 0; i < n; i++ {
		for j := 0; j < nrhs; j++ {
			var s float64
			for k := 0; k < n; k++ {
				s += a0[i*lda+k] * b[k*ldb+j]
			}
			verifAssertEqF(s, b0[i*ldb+j], "Dgesv: A*X == B")
		}
	}
	verifReach("end")
}

// VerifC02_Dgetri: A * inv(A) == I from the LU factors, with minimal and larger workspace.
func VerifC02_Dgetri() {
	maxN := verifParam("invn", 3)
	n := verifChoose("n", 0, maxN)
	lda := verifC02ld("ldaPad", n)
	a := verifC02mat("a", n, n, lda)
	a0 := verifC02clone(a)
	ipiv := make([]int, n)
	ok := Implementation{}.Dgetrf(n, n, a, lda, ipiv)
	if !ok {
		return
	}
	lwork := verifC02max(1, n) + verifChoose("extra", 0, 1)*n*3
	work := make([]float64, lwork)
	ok = Implementation{}.Dgetri(n, a, lda, ipiv, work, lwork)
	verifAssert(ok, "Dgetri: ok for a nonsingular factor")
	verifC02samePad(a, a0, n, n, lda, "Dgetri: padding untouched")
	for i := 0; i < n; i++ {
		for j := 0; j < n; j++ {
			var s float64
			for k := 0; k < n; k++ {
				s += a0[i*lda+k] * a[k*lda+j]
			}
			want := 0.0
			if i == j {
				want = 1
			}
			verifAssertEqF(s, want, "Dgetri: A*inv(A) == I")
		}
	}
	verifReach("end")
}
