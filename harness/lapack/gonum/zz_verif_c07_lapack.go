package gonum

import (
	"gonum.org/v1/gonum/blas"
	"gonum.org/v1/gonum/lapack"
)

// C07, LAPACK part: argument contracts of the prologues (helpers prefixed verifC07l).
//
// Shape of every harness (see notes/C07_lapack.md):
//   - dimensions are case split in [-1, lmaxdim]; flags are arbitrary bytes; leading dimensions are
//     symbolic in [0, lmaxld]; the length of every slice is symbolic in [0,cap] over a concrete backing;
//     lwork is symbolic in [-1, min+2];
//   - the contract is stated BEFORE the call, from the doc comment and the LAPACK conventions, as two
//     classes:
//     accept: every flag legal, every dimension legal, every leading dimension >= its minimum,
//     lwork == -1 or >= max(1, documented minimum), and every slice at least as long as its
//     documented / storage-formula length (ipiv, tau with a documented exact length: exactly that);
//     reject: an illegal flag / dimension / lwork, or (not a workspace query) a bad leading dimension,
//     or (not a query, every dimension > 0) a slice shorter than what the routine addresses;
//     tuples in neither class (empty problems with short slices, workspace queries with placeholder
//     operands, ConjTrans where the doc lists only NoTrans/Trans, ...: the documentation is silent)
//     only get the obligations "no runtime fault" and "nothing written before a panic";
//   - values are irrelevant to the contract: cells hold concrete numbers so that the numeric part
//     behind the prologue stays concrete; increments and lwork are case split (verifConcrete) for every
//     tuple, the leading dimensions on the branch that is not rejected (there well conditioned
//     matrices are laid out) and, with lrejconc=1, on the rejected branch as well;
//   - work / iwork scratch arrays are not operands for "nothing written before a panic".
//
// Harnesses marked OPEN VIOLATION report a genuine defect of the unchanged tree and are not listed in
// checks/C07.json (see notes/C07_lapack.md); the variant next to each of them excludes exactly the
// failing sub-domain and is listed.

const verifC07lCap = 20 // cells per operand backing

func verifC07lMax(a, b int) int { return verifIteInt(a > b, a, b) }
func verifC07lMin(a, b int) int { return verifIteInt(a < b, a, b) }
func verifC07lAbs(a int) int    { return verifIteInt(a < 0, -a, a) }

// verifC07lMatOK: a rows x cols matrix with stride ld fits in l cells (storage formula
// (rows-1)*ld+cols; nothing is required without rows).
func verifC07lMatOK(rows, cols, ld, l int) bool {
	return verifOr(rows <= 0, l >= ld*(rows-1)+cols)
}

type verifC07lMat struct {
	b          []float64
	rows, cols int
	ld         *int
	band       bool // band storage: the diagonal is in column 0 (upper) or column cols-1 (lower)
	upper      bool
}

// verifC07lT collects the contract of one call.
type verifC07lT struct {
	name    string
	flags   bool // every flag, dimension, scalar legal (checked by the reference before anything else)
	gap     bool // a documented-ambiguous scalar value is present (neither class)
	lds     bool // every leading dimension large enough
	store   bool // every slice long enough (accept level)
	short   bool // some slice shorter than the addressed extent (reject level, needs nonempty)
	always  bool // some slice too short in a way that is documented to panic regardless of emptiness
	nonemp  bool // every problem dimension > 0
	query   bool // lwork == -1
	fs, fs0 [][]float64
	is, is0 [][]int
	ldp     []*int // leading dimensions
	stp     []*int // increments, lwork: they steer loops and block sizes
	mats    []verifC07lMat
	fill    func() // optional routine-specific layout, run after the default one
}

func verifC07lBegin(name string) *verifC07lT {
	return &verifC07lT{name: name, flags: true, lds: true, store: true, nonemp: true}
}

// flag: an arbitrary byte; legal lists the values of the accept class.
func (t *verifC07lT) flag(name string, legal ...byte) byte {
	b := verifByte(name)
	ok := false
	for _, v := range legal {
		ok = verifOr(ok, b == v)
	}
	t.flags = verifAnd(t.flags, ok)
	return b
}

// flagAny: an arbitrary byte, every value legal.
func (t *verifC07lT) flagAny(name string) byte { return verifByte(name) }

// flagGap: values in gap are neither accepted nor rejected by the documentation.
func (t *verifC07lT) flagGap(name string, legal []byte, gap []byte) byte {
	b := verifByte(name)
	ok, g := false, false
	for _, v := range legal {
		ok = verifOr(ok, b == v)
	}
	for _, v := range gap {
		g = verifOr(g, b == v)
	}
	t.flags = verifAnd(t.flags, verifOr(ok, g))
	t.gap = verifOr(t.gap, g)
	return b
}

func (t *verifC07lT) uplo(name string) blas.Uplo {
	return blas.Uplo(t.flag(name, byte(blas.Upper), byte(blas.Lower)))
}
func (t *verifC07lT) diag(name string) blas.Diag {
	return blas.Diag(t.flag(name, byte(blas.NonUnit), byte(blas.Unit)))
}
func (t *verifC07lT) side(name string) blas.Side {
	return blas.Side(t.flag(name, byte(blas.Left), byte(blas.Right)))
}

// trans3: NoTrans, Trans and ConjTrans are legal.
func (t *verifC07lT) trans3(name string) blas.Transpose {
	return blas.Transpose(t.flag(name, byte(blas.NoTrans), byte(blas.Trans), byte(blas.ConjTrans)))
}

// trans2: the doc comment lists NoTrans and Trans only; ConjTrans is in neither class.
func (t *verifC07lT) trans2(name string) blas.Transpose {
	return blas.Transpose(t.flagGap(name, []byte{byte(blas.NoTrans), byte(blas.Trans)}, []byte{byte(blas.ConjTrans)}))
}
func (t *verifC07lT) norm(name string) lapack.MatrixNorm {
	return lapack.MatrixNorm(t.flag(name, byte(lapack.MaxAbs), byte(lapack.MaxColumnSum), byte(lapack.MaxRowSum), byte(lapack.Frobenius)))
}

// dim: a problem dimension, case split in [-1, lmaxdim]; must be >= 0; the problem is empty when it is 0.
func (t *verifC07lT) dim(name string) int {
	d := verifChoose(name, -1, verifParam("lmaxdim", 2))
	t.flags = verifAnd(t.flags, d >= 0)
	t.nonemp = verifAnd(t.nonemp, d > 0)
	return d
}

// dimDrv: a problem dimension of an expensive driver, case split in [-1, ldrvdim].
func (t *verifC07lT) dimDrv(name string) int {
	d := verifChoose(name, -1, verifParam("ldrvdim", 1))
	t.flags = verifAnd(t.flags, d >= 0)
	t.nonemp = verifAnd(t.nonemp, d > 0)
	return d
}

// rhs: a number of right-hand sides, case split in [-1, lmaxrhs].
func (t *verifC07lT) rhs(name string) int {
	d := verifChoose(name, -1, verifParam("lmaxrhs", 2))
	t.flags = verifAnd(t.flags, d >= 0)
	t.nonemp = verifAnd(t.nonemp, d > 0)
	return d
}

// par: an integer parameter case split in [lo, hi]; ok states its legality; zero does not make the problem empty.
func (t *verifC07lT) par(name string, lo, hi int) int { return verifChoose(name, lo, hi) }

// need adds a legality condition on scalars (flags / dimensions).
func (t *verifC07lT) need(c bool) { t.flags = verifAnd(t.flags, c) }

// inc: an increment, symbolic in [-2,2]; case split on the accept branch like the leading dimensions.
func (t *verifC07lT) inc(name string) *int {
	p := new(int)
	*p = verifInt(name, -2, 2)
	t.stp = append(t.stp, p)
	return p
}

// emptyIf marks further empty-problem shapes.
func (t *verifC07lT) emptyIf(c bool) { t.nonemp = verifAnd(t.nonemp, verifNot(c)) }

// gapIf marks a tuple as belonging to neither class.
func (t *verifC07lT) gapIf(c bool) { t.gap = verifOr(t.gap, c) }

// ld: a leading dimension, symbolic in [0,lmaxld], legal when >= min.
func (t *verifC07lT) ld(name string, min int) *int {
	p := new(int)
	*p = verifInt(name, 0, verifParam("lmaxld", 4))
	t.lds = verifAnd(t.lds, *p >= min)
	t.ldp = append(t.ldp, p)
	return p
}

// ldDrv: a leading dimension of an expensive driver, symbolic in [0, ldrvld].
func (t *verifC07lT) ldDrv(name string, min int) *int {
	p := new(int)
	*p = verifInt(name, 0, verifParam("ldrvld", 2))
	t.lds = verifAnd(t.lds, *p >= min)
	t.ldp = append(t.ldp, p)
	return p
}

func (t *verifC07lT) slice(name string) (backing, view []float64) {
	backing, view = t.scratchSlice(name)
	t.fs = append(t.fs, backing)
	return backing, view
}

// scratchSlice: like slice, but not an operand: work arrays are documented as temporary storage
// without defined content, so they are not part of the "nothing written before a panic" obligation
// (Dgels, for one, stores the optimal size in work[0] before it checks len(a) and len(b)).
func (t *verifC07lT) scratchSlice(name string) (backing, view []float64) {
	backing = make([]float64, verifC07lCap)
	for i := range backing {
		backing[i] = 0.3 + 0.01*float64(i)
	}
	view = verifSetLen(backing, verifInt("len_"+name, 0, verifC07lCap))
	return backing, view
}

// scratch: a work array that must hold at least need cells.
func (t *verifC07lT) scratch(name string, need int) []float64 {
	_, v := t.scratchSlice(name)
	t.store = verifAnd(t.store, len(v) >= need)
	t.short = verifOr(t.short, len(v) < need)
	return v
}

// iscratch: an integer work array that must hold at least need cells.
func (t *verifC07lT) iscratch(name string, need int) []int {
	backing := make([]int, verifC07lCap)
	v := verifSetLen(backing, verifInt("len_"+name, 0, verifC07lCap))
	t.store = verifAnd(t.store, len(v) >= need)
	t.short = verifOr(t.short, len(v) < need)
	return v
}

// mat: a rows x cols matrix operand with stride *ld.
func (t *verifC07lT) mat(name string, rows, cols int, ld *int) []float64 {
	b, v := t.slice(name)
	ok := verifC07lMatOK(rows, cols, *ld, len(v))
	t.store = verifAnd(t.store, ok)
	t.short = verifOr(t.short, verifAnd(verifAnd(rows > 0, cols > 0), verifNot(ok)))
	t.mats = append(t.mats, verifC07lMat{b: b, rows: rows, cols: cols, ld: ld})
	return v
}

// matScratch: a work matrix (laid out like mat, but not an operand).
func (t *verifC07lT) matScratch(name string, rows, cols int, ld *int) []float64 {
	v := t.mat(name, rows, cols, ld)
	t.fs = t.fs[:len(t.fs)-1]
	return v
}

// band: an n-row band matrix with kd+1 stored diagonals per row and stride *ld.
// accept: the full (n-1)*ld+kd+1 cells; reject: the last addressed element (upper: the diagonal in
// column 0 of the last row; lower: column kd of the last row) lies outside.
func (t *verifC07lT) band(name string, upper bool, n, kd int, ld *int) []float64 {
	b, v := t.slice(name)
	ok := verifC07lMatOK(n, kd+1, *ld, len(v))
	last := verifIteInt(upper, *ld*(n-1)+1, *ld*(n-1)+kd+1)
	t.store = verifAnd(t.store, ok)
	t.short = verifOr(t.short, verifAnd(verifAnd(n > 0, kd >= 0), len(v) < last))
	t.mats = append(t.mats, verifC07lMat{b: b, rows: n, cols: kd + 1, ld: ld, band: true, upper: upper})
	return v
}

// vec: a slice that must hold at least need cells.
func (t *verifC07lT) vec(name string, need int) []float64 {
	_, v := t.slice(name)
	t.store = verifAnd(t.store, len(v) >= need)
	t.short = verifOr(t.short, len(v) < need)
	return v
}

// vecExact: a slice documented as "must have length need, otherwise the routine panics":
// accept needs exactly need cells; reject: fewer (strict: any other length).
func (t *verifC07lT) vecExact(name string, need int, strict bool) []float64 {
	_, v := t.slice(name)
	t.store = verifAnd(t.store, len(v) == need)
	if strict {
		t.short = verifOr(t.short, len(v) != need)
	} else {
		t.short = verifOr(t.short, len(v) < need)
	}
	return v
}

// vecAlways: a slice whose minimal length is documented to be enforced unconditionally.
func (t *verifC07lT) vecAlways(name string, need int) []float64 {
	_, v := t.slice(name)
	t.store = verifAnd(t.store, len(v) >= need)
	t.always = verifOr(t.always, len(v) < need)
	return v
}

// ints: an integer slice (cell i holds i); exact: accept needs len == need, otherwise len >= need;
// reject: len < need.
func (t *verifC07lT) ints(name string, need int, exact bool) []int {
	return t.ints2(name, need, exact, false)
}

// intsStrict: documented as "must have length need, otherwise the routine will panic": reject len != need.
func (t *verifC07lT) intsStrict(name string, need int) []int { return t.ints2(name, need, true, true) }

func (t *verifC07lT) ints2(name string, need int, exact, strict bool) []int {
	backing := make([]int, verifC07lCap)
	for i := range backing {
		backing[i] = i
	}
	v := verifSetLen(backing, verifInt("len_"+name, 0, verifC07lCap))
	t.is = append(t.is, backing)
	if exact {
		t.store = verifAnd(t.store, len(v) == need)
	} else {
		t.store = verifAnd(t.store, len(v) >= need)
	}
	if strict {
		t.short = verifOr(t.short, len(v) != need)
	} else {
		t.short = verifOr(t.short, len(v) < need)
	}
	return v
}

// intsAlways: an integer slice whose length is checked unconditionally (documented "must have
// length need ... otherwise the routine will panic"): accept needs exactly need cells; reject: fewer
// (strict: any other length), also for empty problems and workspace queries.
func (t *verifC07lT) intsAlways(name string, need int, strict bool) []int {
	backing := make([]int, verifC07lCap)
	for i := range backing {
		backing[i] = i
	}
	v := verifSetLen(backing, verifInt("len_"+name, 0, verifC07lCap))
	t.is = append(t.is, backing)
	t.store = verifAnd(t.store, len(v) == need)
	if strict {
		t.always = verifOr(t.always, len(v) != need)
	} else {
		t.always = verifOr(t.always, len(v) < need)
	}
	return v
}

// work: the (work, lwork) pair: lwork symbolic in [-1, hi+2] (hi: a concrete upper bound of min),
// legal when -1 or >= max(1,min); len(work) >= max(1,lwork) is required for every call including queries.
// The returned lwork is case split on the accept branch (it steers the blocking of the numeric part).
func (t *verifC07lT) work(min, hi int) ([]float64, *int) { return t.work2(min, min, hi) }

// work2: the documentation gives two different minima (doc comment vs reference LAPACK): accept
// needs lwork >= max(1, the larger), reject lwork < max(1, the smaller).
func (t *verifC07lT) work2(minLo, minHi, hi int) ([]float64, *int) {
	lo1, hi1 := verifC07lMax(1, minLo), verifC07lMax(1, minHi)
	if hi < 1 {
		hi = 1
	}
	lwork := verifInt("lwork", -1, hi+2)
	_, v := t.scratchSlice("work")
	t.query = lwork == -1
	t.flags = verifAnd(t.flags, verifOr(lwork == -1, lwork >= lo1))
	t.gap = verifOr(t.gap, verifAnd(lwork != -1, lwork < hi1))
	need := verifC07lMax(1, lwork)
	t.store = verifAnd(t.store, len(v) >= need)
	t.always = verifOr(t.always, len(v) < need)
	p := new(int)
	*p = lwork
	t.stp = append(t.stp, p)
	return v, p
}

// run computes the two classes, lays out the data on the accept branch, performs the call and
// states the obligations of C07.
func (t *verifC07lT) run(call func()) {
	name := t.name
	accept := verifAnd(verifAnd(t.flags, verifNot(t.gap)), verifAnd(t.lds, t.store))
	reject := verifOr(verifNot(t.flags),
		verifAnd(verifNot(t.query), verifOr(verifNot(t.lds), verifOr(t.always, verifAnd(t.nonemp, t.short)))))
	// The increments and lwork steer loop bounds and block sizes: they are case split for every
	// tuple, so that a prologue that wrongly lets a rejected tuple through is reported as a violation
	// instead of an unbounded exploration.
	for _, p := range t.stp {
		*p = verifConcrete(*p)
	}
	if reject && verifParam("lrejconc", 0) == 1 {
		// the same for the leading dimensions (thorough tier: about three times the paths)
		for _, p := range t.ldp {
			*p = verifConcrete(*p)
		}
	}
	if !reject {
		// accept class or undocumented: the call may run the numeric part; case split what steers it
		for _, p := range t.ldp {
			*p = verifConcrete(*p)
		}
		for _, m := range t.mats {
			verifC07lFill(m)
		}
		if t.fill != nil {
			t.fill()
		}
		verifReach("not rejected")
	}
	for _, s := range t.fs {
		t.fs0 = append(t.fs0, append([]float64(nil), s...))
	}
	for _, s := range t.is {
		t.is0 = append(t.is0, append([]int(nil), s...))
	}
	panicked, fault, msg := verifCatch(call)
	verifAssert(verifNot(verifAnd(accept, reject)), name+": harness sanity: accept and reject classes are disjoint")
	verifAssert(verifNot(fault), name+": no runtime fault for any argument tuple")
	verifAssert(verifImplies(accept, verifNot(panicked)), name+": contract-valid arguments are accepted")
	verifAssert(verifImplies(reject, panicked), name+": contract-invalid arguments panic")
	if panicked {
		if !fault {
			verifAssert(len(msg) > 8 && msg[:8] == "lapack: ", name+": the panic carries the package's own \"lapack: ...\" message")
		}
		for k := range t.fs {
			for i := range t.fs[k] {
				verifAssert(verifSame(t.fs[k][i], t.fs0[k][i]), name+": no operand cell written before the panic")
			}
		}
		for k := range t.is {
			for i := range t.is[k] {
				verifAssert(t.is[k][i] == t.is0[k][i], name+": no integer operand cell written before the panic")
			}
		}
		verifReach("panic")
	} else {
		verifReach("return")
	}
	verifReach("end")
}

// verifC07lFill lays out a well conditioned matrix (dominant diagonal 4+i, small positive
// off-diagonal entries) with the concrete stride; cells outside the matrix keep their junk.
func verifC07lFill(m verifC07lMat) {
	ld := *m.ld
	dcol := -1
	if m.band {
		dcol = m.cols - 1
		if m.upper {
			dcol = 0
		}
	}
	for i := 0; i < m.rows; i++ {
		for j := 0; j < m.cols; j++ {
			k := i*ld + j
			if k >= len(m.b) {
				continue
			}
			dg := i == j
			if m.band {
				dg = j == dcol
			}
			if dg {
				m.b[k] = 4 + float64(i)
			} else {
				m.b[k] = 0.5 / float64(1+i+j)
			}
		}
	}
}

var verifC07lImpl = Implementation{}

// ---------------- LU family ----------------

// Dgetrf / Dgetf2: m, n >= 0, lda >= max(1,n), a holds m x n, "ipiv must have length min(m,n), and
// Dgetrf will panic otherwise".
func verifC07lGetrf(name string, call func(m, n int, a []float64, lda int, ipiv []int) bool) {
	t := verifC07lBegin(name)
	m, n := t.dim("m"), t.dim("n")
	lda := t.ld("lda", verifC07lMax(1, n))
	a := t.mat("a", m, n, lda)
	ipiv := t.intsStrict("ipiv", verifC07lMin(m, n))
	t.run(func() { call(m, n, a, *lda, ipiv) })
}

func VerifC07_Dgetrf() { verifC07lGetrf("Dgetrf", verifC07lImpl.Dgetrf) }
func VerifC07_Dgetf2() { verifC07lGetrf("Dgetf2", verifC07lImpl.Dgetf2) }

// Dgetrs: trans legal, n, nrhs >= 0, lda >= max(1,n), ldb >= max(1,nrhs), a n x n, b n x nrhs, ipiv of length n.
func VerifC07_Dgetrs() {
	t := verifC07lBegin("Dgetrs")
	tr := t.trans3("trans")
	n, nrhs := t.dim("n"), t.rhs("nrhs")
	lda, ldb := t.ld("lda", verifC07lMax(1, n)), t.ld("ldb", verifC07lMax(1, nrhs))
	a := t.mat("a", n, n, lda)
	ipiv := t.ints("ipiv", n, true)
	b := t.mat("b", n, nrhs, ldb)
	t.run(func() { verifC07lImpl.Dgetrs(tr, n, nrhs, a, *lda, ipiv, b, *ldb) })
}

// Dgetri: lwork >= n (LAPACK: max(1,n)) or -1; a n x n; ipiv of length n.
func VerifC07_Dgetri() {
	t := verifC07lBegin("Dgetri")
	n := t.dim("n")
	lda := t.ld("lda", verifC07lMax(1, n))
	a := t.mat("a", n, n, lda)
	ipiv := t.ints("ipiv", n, true)
	work, lwork := t.work(n, n)
	t.run(func() { verifC07lImpl.Dgetri(n, a, *lda, ipiv, work, *lwork) })
}

func VerifC07_Dgesv() {
	t := verifC07lBegin("Dgesv")
	n, nrhs := t.dim("n"), t.rhs("nrhs")
	lda, ldb := t.ld("lda", verifC07lMax(1, n)), t.ld("ldb", verifC07lMax(1, nrhs))
	a := t.mat("a", n, n, lda)
	ipiv := t.ints("ipiv", n, true)
	b := t.mat("b", n, nrhs, ldb)
	t.run(func() { verifC07lImpl.Dgesv(n, nrhs, a, *lda, ipiv, b, *ldb) })
}

// ---------------- Cholesky family ----------------

func verifC07lPo(name string, call func(ul blas.Uplo, n int, a []float64, lda int) bool) {
	t := verifC07lBegin(name)
	ul := t.uplo("uplo")
	n := t.dim("n")
	lda := t.ld("lda", verifC07lMax(1, n))
	a := t.mat("a", n, n, lda)
	t.run(func() { call(ul, n, a, *lda) })
}

func VerifC07_Dpotrf() { verifC07lPo("Dpotrf", verifC07lImpl.Dpotrf) }
func VerifC07_Dpotf2() { verifC07lPo("Dpotf2", verifC07lImpl.Dpotf2) }
func VerifC07_Dpotri() { verifC07lPo("Dpotri", verifC07lImpl.Dpotri) }

func VerifC07_Dpotrs() {
	t := verifC07lBegin("Dpotrs")
	ul := t.uplo("uplo")
	n, nrhs := t.dim("n"), t.rhs("nrhs")
	lda, ldb := t.ld("lda", verifC07lMax(1, n)), t.ld("ldb", verifC07lMax(1, nrhs))
	a := t.mat("a", n, n, lda)
	b := t.mat("b", n, nrhs, ldb)
	t.run(func() { verifC07lImpl.Dpotrs(ul, n, nrhs, a, *lda, b, *ldb) })
}

// Dpbtrf: kd >= 0, ldab >= kd+1, ab holds the band storage of n rows.
func VerifC07_Dpbtrf() {
	t := verifC07lBegin("Dpbtrf")
	ul := t.uplo("uplo")
	n := t.dim("n")
	kd := t.par("kd", -1, verifParam("lmaxk", 1))
	t.need(kd >= 0)
	ldab := t.ld("ldab", kd+1)
	ab := t.band("ab", ul == blas.Upper, n, kd, ldab)
	t.run(func() { verifC07lImpl.Dpbtrf(ul, n, kd, ab, *ldab) })
}

func VerifC07_Dpbtrs() {
	t := verifC07lBegin("Dpbtrs")
	ul := t.uplo("uplo")
	n := t.dim("n")
	kd := t.par("kd", -1, verifParam("lmaxk", 1))
	t.need(kd >= 0)
	nrhs := t.rhs("nrhs")
	ldab, ldb := t.ld("ldab", kd+1), t.ld("ldb", verifC07lMax(1, nrhs))
	ab := t.band("ab", ul == blas.Upper, n, kd, ldab)
	b := t.mat("b", n, nrhs, ldb)
	t.run(func() { verifC07lImpl.Dpbtrs(ul, n, kd, nrhs, ab, *ldab, b, *ldb) })
}

// ---------------- triangular ----------------

func VerifC07_Dtrtri() {
	t := verifC07lBegin("Dtrtri")
	ul, d := t.uplo("uplo"), t.diag("diag")
	n := t.dim("n")
	lda := t.ld("lda", verifC07lMax(1, n))
	a := t.mat("a", n, n, lda)
	t.run(func() { verifC07lImpl.Dtrtri(ul, d, n, a, *lda) })
}

func VerifC07_Dtrti2() {
	t := verifC07lBegin("Dtrti2")
	ul, d := t.uplo("uplo"), t.diag("diag")
	n := t.dim("n")
	lda := t.ld("lda", verifC07lMax(1, n))
	a := t.mat("a", n, n, lda)
	t.run(func() { verifC07lImpl.Dtrti2(ul, d, n, a, *lda) })
}

func VerifC07_Dtrtrs() {
	t := verifC07lBegin("Dtrtrs")
	ul, tr, d := t.uplo("uplo"), t.trans3("trans"), t.diag("diag")
	n, nrhs := t.dim("n"), t.rhs("nrhs")
	lda, ldb := t.ld("lda", verifC07lMax(1, n)), t.ld("ldb", verifC07lMax(1, nrhs))
	a := t.mat("a", n, n, lda)
	b := t.mat("b", n, nrhs, ldb)
	t.run(func() { verifC07lImpl.Dtrtrs(ul, tr, d, n, nrhs, a, *lda, b, *ldb) })
}

func VerifC07_Dtbtrs() {
	t := verifC07lBegin("Dtbtrs")
	ul, tr, d := t.uplo("uplo"), t.trans3("trans"), t.diag("diag")
	n := t.dim("n")
	kd := t.par("kd", -1, verifParam("lmaxk", 1))
	t.need(kd >= 0)
	nrhs := t.rhs("nrhs")
	lda, ldb := t.ld("lda", kd+1), t.ld("ldb", verifC07lMax(1, nrhs))
	a := t.band("a", ul == blas.Upper, n, kd, lda)
	b := t.mat("b", n, nrhs, ldb)
	t.run(func() { verifC07lImpl.Dtbtrs(ul, tr, d, n, kd, nrhs, a, *lda, b, *ldb) })
}

// ---------------- tridiagonal ----------------

// Dgtsv: dl, du hold n-1, d holds n elements; b is n x nrhs.
func VerifC07_Dgtsv() {
	t := verifC07lBegin("Dgtsv")
	n, nrhs := t.dim("n"), t.rhs("nrhs")
	ldb := t.ld("ldb", verifC07lMax(1, nrhs))
	dl := t.vec("dl", n-1)
	d := t.vec("d", n)
	du := t.vec("du", n-1)
	b := t.mat("b", n, nrhs, ldb)
	t.run(func() { verifC07lImpl.Dgtsv(n, nrhs, dl, d, du, b, *ldb) })
}

func VerifC07_Dpttrf() {
	t := verifC07lBegin("Dpttrf")
	n := t.dim("n")
	d := t.vec("d", n)
	e := t.vec("e", n-1)
	t.run(func() { verifC07lImpl.Dpttrf(n, d, e) })
}

func verifC07lPt(name string, call func(n, nrhs int, d, e, b []float64, ldb int)) {
	t := verifC07lBegin(name)
	n, nrhs := t.dim("n"), t.rhs("nrhs")
	ldb := t.ld("ldb", verifC07lMax(1, nrhs))
	d := t.vec("d", n)
	e := t.vec("e", n-1)
	b := t.mat("b", n, nrhs, ldb)
	t.run(func() { call(n, nrhs, d, e, b, *ldb) })
}

func VerifC07_Dpttrs() { verifC07lPt("Dpttrs", verifC07lImpl.Dpttrs) }
func VerifC07_Dptsv() {
	verifC07lPt("Dptsv", func(n, nrhs int, d, e, b []float64, ldb int) { verifC07lImpl.Dptsv(n, nrhs, d, e, b, ldb) })
}

// ---------------- permutations, copies, norms ----------------

// Dlaswp: n >= 0, 0 <= k1 <= k2, lda >= max(1,n), a has at least k2+1 rows, "ipiv must have length
// k2+1, otherwise Dlaswp will panic", incX is 1 or -1 ("For other values of incX Dlaswp will panic").
// No quick return is documented: every check applies to n == 0 as well.
func VerifC07_Dlaswp() {
	t := verifC07lBegin("Dlaswp")
	n := t.dim("n")
	hi := verifParam("lmaxdim", 2)
	k1, k2 := t.par("k1", -1, hi), t.par("k2", -1, hi)
	t.need(verifAnd(k1 >= 0, k2 >= k1))
	incX := verifInt("incX", -2, 2)
	t.need(verifOr(incX == 1, incX == -1))
	lda := t.ld("lda", verifC07lMax(1, n))
	a := t.mat("a", k2+1, n, lda)
	ipiv := t.intsStrict("ipiv", k2+1)
	t.run(func() { verifC07lImpl.Dlaswp(n, a, *lda, k1, k2, ipiv, incX) })
}

// Dlapmt: "k must have length n, otherwise Dlapmt will panic".
func VerifC07_Dlapmt() {
	t := verifC07lBegin("Dlapmt")
	fw := verifBool("forward")
	m, n := t.dim("m"), t.dim("n")
	ldx := t.ld("ldx", verifC07lMax(1, n))
	x := t.mat("x", m, n, ldx)
	k := t.intsStrict("k", n)
	t.run(func() { verifC07lImpl.Dlapmt(fw, m, n, x, *ldx, k) })
}

// Dlapmr: "k must have length m, otherwise Dlapmr will panic".
func VerifC07_Dlapmr() {
	t := verifC07lBegin("Dlapmr")
	fw := verifBool("forward")
	m, n := t.dim("m"), t.dim("n")
	ldx := t.ld("ldx", verifC07lMax(1, n))
	x := t.mat("x", m, n, ldx)
	k := t.intsStrict("k", m)
	t.run(func() { verifC07lImpl.Dlapmr(fw, m, n, x, *ldx, k) })
}

// Dlacpy: uplo is Upper, Lower or All.
func VerifC07_Dlacpy() {
	t := verifC07lBegin("Dlacpy")
	ul := blas.Uplo(t.flag("uplo", byte(blas.Upper), byte(blas.Lower), byte(blas.All)))
	m, n := t.dim("m"), t.dim("n")
	lda, ldb := t.ld("lda", verifC07lMax(1, n)), t.ld("ldb", verifC07lMax(1, n))
	a := t.mat("a", m, n, lda)
	b := t.mat("b", m, n, ldb)
	t.run(func() { verifC07lImpl.Dlacpy(ul, m, n, a, *lda, b, *ldb) })
}

// Dlaset: "If uplo is otherwise, all of the elements of A are set": every byte is legal.
func VerifC07_Dlaset() {
	t := verifC07lBegin("Dlaset")
	ul := blas.Uplo(t.flagAny("uplo"))
	m, n := t.dim("m"), t.dim("n")
	lda := t.ld("lda", verifC07lMax(1, n))
	a := t.mat("a", m, n, lda)
	t.run(func() { verifC07lImpl.Dlaset(ul, m, n, 0.25, 1.5, a, *lda) })
}

// Dlange: work must hold n cells for MaxColumnSum, "no restrictions on work for the other matrix norms".
func VerifC07_Dlange() {
	t := verifC07lBegin("Dlange")
	nm := t.norm("norm")
	m, n := t.dim("m"), t.dim("n")
	lda := t.ld("lda", verifC07lMax(1, n))
	a := t.mat("a", m, n, lda)
	work := t.scratch("work", verifIteInt(nm == lapack.MaxColumnSum, n, 0))
	t.run(func() { verifC07lImpl.Dlange(nm, m, n, a, *lda, work) })
}

// Dlansy: work of length at least n for MaxColumnSum and MaxRowSum.
func VerifC07_Dlansy() {
	t := verifC07lBegin("Dlansy")
	nm, ul := t.norm("norm"), t.uplo("uplo")
	n := t.dim("n")
	lda := t.ld("lda", verifC07lMax(1, n))
	a := t.mat("a", n, n, lda)
	work := t.scratch("work", verifIteInt(verifOr(nm == lapack.MaxColumnSum, nm == lapack.MaxRowSum), n, 0))
	t.run(func() { verifC07lImpl.Dlansy(nm, ul, n, a, *lda, work) })
}

// Dlantr: m x n trapezoidal; work of length at least n for MaxColumnSum.
func VerifC07_Dlantr() {
	t := verifC07lBegin("Dlantr")
	nm, ul, d := t.norm("norm"), t.uplo("uplo"), t.diag("diag")
	m, n := t.dim("m"), t.dim("n")
	lda := t.ld("lda", verifC07lMax(1, n))
	a := t.mat("a", m, n, lda)
	work := t.scratch("work", verifIteInt(nm == lapack.MaxColumnSum, n, 0))
	t.run(func() { verifC07lImpl.Dlantr(nm, ul, d, m, n, a, *lda, work) })
}

func VerifC07_Dlanst() {
	t := verifC07lBegin("Dlanst")
	nm := t.norm("norm")
	n := t.dim("n")
	d := t.vec("d", n)
	e := t.vec("e", n-1)
	t.run(func() { verifC07lImpl.Dlanst(nm, n, d, e) })
}

func VerifC07_Dlansb() {
	t := verifC07lBegin("Dlansb")
	nm, ul := t.norm("norm"), t.uplo("uplo")
	n := t.dim("n")
	kd := t.par("kd", -1, verifParam("lmaxk", 1))
	t.need(kd >= 0)
	ldab := t.ld("ldab", kd+1)
	ab := t.band("ab", ul == blas.Upper, n, kd, ldab)
	work := t.scratch("work", verifIteInt(verifOr(nm == lapack.MaxColumnSum, nm == lapack.MaxRowSum), n, 0))
	t.run(func() { verifC07lImpl.Dlansb(nm, ul, n, kd, ab, *ldab, work) })
}

// Dlantb: the doc comment does not say what an illegal diag does (the sister routines Dlantr, Dtrcon,
// Dtbtrs panic badDiag): illegal diag bytes are in neither class here, see VerifC07_DlantbDiag.
func verifC07lLantb(diagGap bool) {
	t := verifC07lBegin("Dlantb")
	nm, ul := t.norm("norm"), t.uplo("uplo")
	var d blas.Diag
	if diagGap {
		d = blas.Diag(verifByte("diag"))
		t.gapIf(verifNot(verifOr(d == blas.Unit, d == blas.NonUnit)))
	} else {
		d = t.diag("diag")
	}
	n := t.dim("n")
	k := t.par("k", -1, verifParam("lmaxk", 1))
	t.need(k >= 0)
	lda := t.ld("lda", k+1)
	a := t.band("a", ul == blas.Upper, n, k, lda)
	work := t.scratch("work", verifIteInt(nm == lapack.MaxColumnSum, n, 0))
	t.run(func() { verifC07lImpl.Dlantb(nm, ul, d, n, k, a, *lda, work) })
}

func VerifC07_Dlantb() { verifC07lLantb(true) }

// VerifC07_DlantbDiag (OPEN VIOLATION, not in the check spec): diag must be Unit or NonUnit like for
// every other routine taking a blas.Diag; Dlantb has no such check and treats any other byte as NonUnit.
func VerifC07_DlantbDiag() { verifC07lLantb(false) }

// ---------------- elementary reflectors ----------------

// Dlarf: incv != 0, ldc >= max(1,n), v holds 1+(lenV-1)*|incv| cells (lenV = m if Left, n if Right),
// "work must have length at least m if side == blas.Left and at least n if side == blas.Right"
// -- the doc comment has the two cases swapped with respect to reference LAPACK (n if Left, m if
// Right) and the code; accept needs max(m,n) cells, reject fewer than the reference value.
func VerifC07_Dlarf() {
	t := verifC07lBegin("Dlarf")
	sd := t.side("side")
	m, n := t.dim("m"), t.dim("n")
	incv := t.inc("incv")
	t.need(*incv != 0)
	ldc := t.ld("ldc", verifC07lMax(1, n))
	lenV := verifIteInt(sd == blas.Left, m, n)
	v := t.vec("v", 1+(lenV-1)*verifC07lAbs(*incv))
	c := t.mat("c", m, n, ldc)
	_, work := t.scratchSlice("work")
	t.store = verifAnd(t.store, len(work) >= verifC07lMax(m, n))
	t.short = verifOr(t.short, len(work) < verifIteInt(sd == blas.Left, n, m))
	t.run(func() { verifC07lImpl.Dlarf(sd, m, n, v, *incv, 0.75, c, *ldc, work) })
}

// Dlarfg: n >= 0, incX > 0 (reference LAPACK), x holds the n-1 trailing elements: 1+(n-2)*incX cells for n >= 2.
func VerifC07_Dlarfg() {
	t := verifC07lBegin("Dlarfg")
	n := verifChoose("n", -1, verifParam("lmaxdim", 2)+1)
	t.need(n >= 0)
	t.emptyIf(n <= 1)
	incX := t.inc("incX")
	t.need(*incX > 0)
	x := t.vec("x", verifIteInt(n >= 2, 1+(n-2)**incX, 0))
	t.run(func() { verifC07lImpl.Dlarfg(n, 1.25, x, *incX) })
}

// Dlarft: direct, store legal, n >= 0, k >= 1 (reference LAPACK), ldv >= max(1, k) (ColumnWise: v is
// n x k) or max(1, n) (RowWise: v is k x n), ldt >= max(1,k), tau holds k, t holds k x k.
// k reflectors of order n with the unit diagonal of the layouts shown under Dlarfb need k <= n; the
// doc comment does not say so: k > n is excluded here and examined by VerifC07_DlarftKGTN.
func verifC07lLarft(kgtn bool) {
	t := verifC07lBegin("Dlarft")
	dr := lapack.Direct(t.flag("direct", byte(lapack.Forward), byte(lapack.Backward)))
	st := lapack.StoreV(t.flag("store", byte(lapack.ColumnWise), byte(lapack.RowWise)))
	n := t.dim("n")
	k := t.par("k", -1, verifParam("lmaxdim", 2)+1)
	t.need(k >= 1)
	if kgtn != (k > n && n > 0) {
		return
	}
	t.gapIf(k > n)
	col := st == lapack.ColumnWise
	mv, nv := verifIteInt(col, n, k), verifIteInt(col, k, n)
	ldv := t.ld("ldv", verifC07lMax(1, nv))
	ldt := t.ld("ldt", verifC07lMax(1, k))
	v := t.mat("v", mv, nv, ldv)
	tau := t.vec("tau", k)
	tt := t.mat("t", k, k, ldt)
	t.run(func() { verifC07lImpl.Dlarft(dr, st, n, k, v, *ldv, tau, tt, *ldt) })
}

func VerifC07_Dlarft() { verifC07lLarft(false) }

// VerifC07_DlarftKGTN (OPEN VIOLATION, not in the check spec): more reflectors than their order
// (k > n > 0): neither documented nor rejected; the obligation "no runtime fault" fails.
func VerifC07_DlarftKGTN() { verifC07lLarft(true) }

// Dlarfb: side, trans (NoTrans/Trans listed), direct, store legal; m, n, k >= 0; v is nv x k
// (ColumnWise) or k x nv (RowWise) with nv = m if Left, n if Right; t is k x k; c is m x n;
// "work must be of size at least n x k side == Left and m x k if side == Right" with stride ldwork >= max(1,k).
func verifC07lLarfb(k0 bool) {
	t := verifC07lBegin("Dlarfb")
	sd, tr := t.side("side"), t.trans2("trans")
	dr := lapack.Direct(t.flag("direct", byte(lapack.Forward), byte(lapack.Backward)))
	st := lapack.StoreV(t.flag("store", byte(lapack.ColumnWise), byte(lapack.RowWise)))
	m, n := t.dim("m"), t.dim("n")
	k := t.par("k", -1, verifParam("lmaxdim", 2))
	t.need(k >= 0)
	nv := verifIteInt(sd == blas.Left, m, n)
	nw := verifIteInt(sd == blas.Left, n, m)
	// the reflectors are columns (rows) of an nv x k (k x nv) matrix: k <= nv is implied by the layouts shown
	if k0 != (k == 0 && m > 0 && n > 0) {
		return
	}
	verifAssume(k <= nv)
	col := st == lapack.ColumnWise
	ldv := t.ld("ldv", verifC07lMax(1, verifIteInt(col, k, nv)))
	ldt := t.ld("ldt", verifC07lMax(1, k))
	ldc := t.ld("ldc", verifC07lMax(1, n))
	ldw := t.ld("ldwork", verifC07lMax(1, k))
	v := t.mat("v", verifIteInt(col, nv, k), verifIteInt(col, k, nv), ldv)
	tt := t.mat("t", k, k, ldt)
	c := t.mat("c", m, n, ldc)
	work := t.matScratch("work", nw, k, ldw)
	t.run(func() { verifC07lImpl.Dlarfb(sd, tr, dr, st, m, n, k, v, *ldv, tt, *ldt, c, *ldc, work, *ldw) })
}

// VerifC07_Dlarfb: every tuple with k <= nv except k == 0 on a non-empty C.
func VerifC07_Dlarfb() { verifC07lLarfb(false) }

// VerifC07_DlarfbK0 (OPEN VIOLATION, not in the check spec): k == 0 (accepted by the prologue,
// which only rejects k < 0) with m, n > 0 and v of the minimal length (nv-1)*ldv+0.
func VerifC07_DlarfbK0() { verifC07lLarfb(true) }

// ---------------- orthogonal matrices from QR / LQ ----------------

// Dorg2r: "len(tau) = k, 0 <= k <= n, 0 <= n <= m, len(work) >= n. Dorg2r will panic if these conditions are not met."
func VerifC07_Dorg2r() {
	t := verifC07lBegin("Dorg2r")
	m, n := t.dim("m"), t.dim("n")
	k := t.par("k", -1, verifParam("lmaxdim", 2))
	t.need(verifAnd(n <= m, verifAnd(k >= 0, k <= n)))
	lda := t.ld("lda", verifC07lMax(1, n))
	a := t.mat("a", m, n, lda)
	tau := t.vecExact("tau", k, true)
	work := t.scratch("work", n)
	t.run(func() { verifC07lImpl.Dorg2r(m, n, k, a, *lda, tau, work) })
}

// Dorgqr: "The length of tau must be k"; 0 <= k <= n <= m; lwork >= n (max(1,n)) or -1.
func VerifC07_Dorgqr() {
	t := verifC07lBegin("Dorgqr")
	m, n := t.dim("m"), t.dim("n")
	k := t.par("k", -1, verifParam("lmaxdim", 2))
	t.need(verifAnd(n <= m, verifAnd(k >= 0, k <= n)))
	lda := t.ld("lda", verifC07lMax(1, n))
	a := t.mat("a", m, n, lda)
	tau := t.vecExact("tau", k, true)
	work, lwork := t.work(n, n)
	t.run(func() { verifC07lImpl.Dorgqr(m, n, k, a, *lda, tau, work, *lwork) })
}

// Dorgl2: "tau must have length at least k, work must have length at least m, and it must hold
// that 0 <= k <= m <= n, otherwise Dorgl2 will panic."
func VerifC07_Dorgl2() {
	t := verifC07lBegin("Dorgl2")
	m, n := t.dim("m"), t.dim("n")
	k := t.par("k", -1, verifParam("lmaxdim", 2))
	t.need(verifAnd(m <= n, verifAnd(k >= 0, k <= m)))
	lda := t.ld("lda", verifC07lMax(1, n))
	a := t.mat("a", m, n, lda)
	tau := t.vec("tau", k)
	work := t.scratch("work", m)
	t.run(func() { verifC07lImpl.Dorgl2(m, n, k, a, *lda, tau, work) })
}

// Dorglq: tau at least k, lwork at least max(1,m) or -1, 0 <= k <= m <= n.
func VerifC07_Dorglq() {
	t := verifC07lBegin("Dorglq")
	m, n := t.dim("m"), t.dim("n")
	k := t.par("k", -1, verifParam("lmaxdim", 2))
	t.need(verifAnd(m <= n, verifAnd(k >= 0, k <= m)))
	lda := t.ld("lda", verifC07lMax(1, n))
	a := t.mat("a", m, n, lda)
	tau := t.vec("tau", k)
	work, lwork := t.work(m, m)
	t.run(func() { verifC07lImpl.Dorglq(m, n, k, a, *lda, tau, work, *lwork) })
}

// Dorm2r / Dormqr (qr == true): a is nq x k, lda >= max(1,k); Dorml2 / Dormlq: a is k x nq, lda >= max(1,nq);
// nq = m if Left, n if Right; 0 <= k <= nq; c is m x n; the work minimum is nw = n if Left, m if Right.
// The doc comments list NoTrans and Trans.
type verifC07lOrmArgs struct {
	side      blas.Side
	trans     blas.Transpose
	m, n, k   int
	a, tau, c []float64
	lda, ldc  *int
	nw        int
	t         *verifC07lT
}

func verifC07lOrm(name string, qr, tauExact bool) *verifC07lOrmArgs {
	return verifC07lOrm2(name, qr, tauExact, false)
}

func verifC07lOrm2(name string, qr, tauExact, ldcOK bool) *verifC07lOrmArgs {
	t := verifC07lBegin(name)
	g := &verifC07lOrmArgs{t: t}
	g.side, g.trans = t.side("side"), t.trans2("trans")
	g.m, g.n, g.k = t.dim("m"), t.dim("n"), t.dim("k")
	left := g.side == blas.Left
	nq := verifIteInt(left, g.m, g.n)
	g.nw = verifIteInt(left, g.n, g.m)
	t.need(g.k <= nq)
	if qr {
		g.lda = t.ld("lda", verifC07lMax(1, g.k))
	} else {
		g.lda = t.ld("lda", verifC07lMax(1, nq))
	}
	g.ldc = t.ld("ldc", verifC07lMax(1, g.n))
	if ldcOK {
		verifAssume(*g.ldc >= verifC07lMax(1, g.n))
	}
	if qr {
		g.a = t.mat("a", nq, g.k, g.lda)
	} else {
		g.a = t.mat("a", g.k, nq, g.lda)
	}
	if tauExact {
		g.tau = t.vecExact("tau", g.k, true)
	} else {
		g.tau = t.vec("tau", g.k)
	}
	g.c = t.mat("c", g.m, g.n, g.ldc)
	return g
}

// Dorm2r: "tau ... must have length k and this function will panic otherwise".
func VerifC07_Dorm2r() {
	g := verifC07lOrm("Dorm2r", true, true)
	work := g.t.scratch("work", g.nw)
	g.t.run(func() { verifC07lImpl.Dorm2r(g.side, g.trans, g.m, g.n, g.k, g.a, *g.lda, g.tau, g.c, *g.ldc, work) })
}

// Dormqr: "tau must have length k and Dormqr will panic otherwise"; lwork >= nw.
func VerifC07_Dormqr() {
	g := verifC07lOrm("Dormqr", true, true)
	work, lwork := g.t.work(g.nw, verifParam("lmaxdim", 2))
	g.t.run(func() {
		verifC07lImpl.Dormqr(g.side, g.trans, g.m, g.n, g.k, g.a, *g.lda, g.tau, g.c, *g.ldc, work, *lwork)
	})
}

// Dorml2: tau "of length at least k".
// VerifC07_Dorml2 and VerifC07_Dormlq are OPEN VIOLATIONS (not in the check spec): the prologues
// have no ldc check. The ...LdcOK variants assume ldc >= max(1,n) and are in the spec.
func verifC07lOrml2(ldcOK bool) {
	g := verifC07lOrm2("Dorml2", false, false, ldcOK)
	work := g.t.scratch("work", g.nw)
	g.t.run(func() { verifC07lImpl.Dorml2(g.side, g.trans, g.m, g.n, g.k, g.a, *g.lda, g.tau, g.c, *g.ldc, work) })
}

func VerifC07_Dorml2()      { verifC07lOrml2(false) }
func VerifC07_Dorml2LdcOK() { verifC07lOrml2(true) }

// Dormlq: the doc comment says "lwork >= m if side == blas.Left and lwork >= n if side == blas.Right",
// reference LAPACK (and Dormqr's comment) n if Left, m if Right: accept needs max(1,m,n), reject
// less than max(1, min(m,n)).
func verifC07lOrmlq(ldcOK bool) {
	g := verifC07lOrm2("Dormlq", false, false, ldcOK)
	work, lwork := g.t.work2(verifC07lMin(g.m, g.n), verifC07lMax(g.m, g.n), verifParam("lmaxdim", 2))
	g.t.run(func() {
		verifC07lImpl.Dormlq(g.side, g.trans, g.m, g.n, g.k, g.a, *g.lda, g.tau, g.c, *g.ldc, work, *lwork)
	})
}

func VerifC07_Dormlq()      { verifC07lOrmlq(false) }
func VerifC07_DormlqLdcOK() { verifC07lOrmlq(true) }

// ---------------- QR / LQ factorizations ----------------

// Dgeqr2: "tau must have length min(m,n), and this function will panic otherwise"; work at least n.
func VerifC07_Dgeqr2() {
	t := verifC07lBegin("Dgeqr2")
	m, n := t.dim("m"), t.dim("n")
	lda := t.ld("lda", verifC07lMax(1, n))
	a := t.mat("a", m, n, lda)
	tau := t.vecExact("tau", verifC07lMin(m, n), true)
	work := t.scratch("work", n)
	t.run(func() { verifC07lImpl.Dgeqr2(m, n, a, *lda, tau, work) })
}

// Dgeqrf: "lwork must be -1 or at least n"; "tau must have length min(m,n), and this function will panic otherwise".
func VerifC07_Dgeqrf() {
	t := verifC07lBegin("Dgeqrf")
	m, n := t.dim("m"), t.dim("n")
	lda := t.ld("lda", verifC07lMax(1, n))
	a := t.mat("a", m, n, lda)
	tau := t.vecExact("tau", verifC07lMin(m, n), true)
	work, lwork := t.work(n, n)
	t.run(func() { verifC07lImpl.Dgeqrf(m, n, a, *lda, tau, work, *lwork) })
}

// Dgelq2: tau at least min(m,n); work at least m.
func VerifC07_Dgelq2() {
	t := verifC07lBegin("Dgelq2")
	m, n := t.dim("m"), t.dim("n")
	lda := t.ld("lda", verifC07lMax(1, n))
	a := t.mat("a", m, n, lda)
	tau := t.vec("tau", verifC07lMin(m, n))
	work := t.scratch("work", m)
	t.run(func() { verifC07lImpl.Dgelq2(m, n, a, *lda, tau, work) })
}

func VerifC07_Dgelqf() {
	t := verifC07lBegin("Dgelqf")
	m, n := t.dim("m"), t.dim("n")
	lda := t.ld("lda", verifC07lMax(1, n))
	a := t.mat("a", m, n, lda)
	tau := t.vec("tau", verifC07lMin(m, n))
	work, lwork := t.work(m, m)
	t.run(func() { verifC07lImpl.Dgelqf(m, n, a, *lda, tau, work, *lwork) })
}

// Dgeqp3: "jpvt must have length n or Dgeqp3 will panic" (entries >= -1: here column j is a leading
// column j); tau "must have length min(m,n)"; lwork >= 3*n+1 (1 for an empty matrix) or -1.
func VerifC07_Dgeqp3() {
	t := verifC07lBegin("Dgeqp3")
	m, n := t.dim("m"), t.dim("n")
	lda := t.ld("lda", verifC07lMax(1, n))
	a := t.mat("a", m, n, lda)
	jpvt := t.intsStrict("jpvt", n)
	tau := t.vecExact("tau", verifC07lMin(m, n), false)
	min := 3*n + 1
	if m <= 0 || n <= 0 {
		min = 1
	}
	work, lwork := t.work(min, min)
	t.run(func() { verifC07lImpl.Dgeqp3(m, n, a, *lda, jpvt, tau, work, *lwork) })
}

// Dgels: b is max(m,n) x nrhs; the doc comment says lwork >= max(m,n) + max(m,n,nrhs), reference
// LAPACK min(m,n) + max(min(m,n), nrhs); NoTrans and Trans are listed.
func VerifC07_Dgels() {
	t := verifC07lBegin("Dgels")
	tr := t.trans2("trans")
	m, n, nrhs := t.dimDrv("m"), t.dimDrv("n"), t.rhs("nrhs")
	lda, ldb := t.ldDrv("lda", verifC07lMax(1, n)), t.ldDrv("ldb", verifC07lMax(1, nrhs))
	a := t.mat("a", m, n, lda)
	mx, mn := verifC07lMax(m, n), verifC07lMin(m, n)
	b := t.mat("b", mx, nrhs, ldb)
	work, lwork := t.work2(mn+verifC07lMax(mn, nrhs), mx+verifC07lMax(mx, nrhs), mx+verifC07lMax(mx, nrhs))
	t.run(func() { verifC07lImpl.Dgels(tr, m, n, nrhs, a, *lda, b, *ldb, work, *lwork) })
}

// ---------------- condition estimators ----------------

// verifC07lAnorm: anorm case split over {-1, 0, 1.5}.
func verifC07lAnorm() float64 {
	switch verifChoose("anorm", 0, 2) {
	case 0:
		return -1
	case 1:
		return 0
	}
	return 1.5
}

// Dgecon: norm is MaxColumnSum or MaxRowSum; "anorm must be non-negative, otherwise Dgecon will
// panic"; "work must have length at least 4*n and iwork must have length at least n".
func VerifC07_Dgecon() {
	t := verifC07lBegin("Dgecon")
	nm := lapack.MatrixNorm(t.flag("norm", byte(lapack.MaxColumnSum), byte(lapack.MaxRowSum)))
	n := t.dim("n")
	lda := t.ld("lda", verifC07lMax(1, n))
	anorm := verifC07lAnorm()
	t.need(anorm >= 0)
	a := t.mat("a", n, n, lda)
	work := t.scratch("work", 4*n)
	iwork := t.iscratch("iwork", n)
	t.run(func() { verifC07lImpl.Dgecon(nm, n, a, *lda, anorm, work, iwork) })
}

// Dpocon: work at least 3*n, iwork at least n; a negative anorm is not mentioned (neither class).
func VerifC07_Dpocon() {
	t := verifC07lBegin("Dpocon")
	ul := t.uplo("uplo")
	n := t.dim("n")
	lda := t.ld("lda", verifC07lMax(1, n))
	anorm := verifC07lAnorm()
	t.gapIf(anorm < 0)
	a := t.mat("a", n, n, lda)
	work := t.scratch("work", 3*n)
	iwork := t.iscratch("iwork", n)
	t.run(func() { verifC07lImpl.Dpocon(ul, n, a, *lda, anorm, work, iwork) })
}

// Dtrcon: norm is MaxColumnSum or MaxRowSum; work at least 3*n, iwork at least n.
func VerifC07_Dtrcon() {
	t := verifC07lBegin("Dtrcon")
	nm := lapack.MatrixNorm(t.flag("norm", byte(lapack.MaxColumnSum), byte(lapack.MaxRowSum)))
	ul, d := t.uplo("uplo"), t.diag("diag")
	n := t.dim("n")
	lda := t.ld("lda", verifC07lMax(1, n))
	a := t.mat("a", n, n, lda)
	work := t.scratch("work", 3*n)
	iwork := t.iscratch("iwork", n)
	t.run(func() { verifC07lImpl.Dtrcon(nm, ul, d, n, a, *lda, work, iwork) })
}

// ---------------- eigenvalue / singular value drivers and their building blocks ----------------
// (concrete well conditioned data; the numeric part runs concretely)

// Dsyev: jobz is EVNone or EVCompute; w at least n; lwork >= 3*n-1 (max(1,.)) or -1.
func VerifC07_Dsyev() {
	t := verifC07lBegin("Dsyev")
	jobz := lapack.EVJob(t.flag("jobz", byte(lapack.EVNone), byte(lapack.EVCompute)))
	ul := t.uplo("uplo")
	n := t.dim("n")
	lda := t.ld("lda", verifC07lMax(1, n))
	a := t.mat("a", n, n, lda)
	w := t.vec("w", n)
	work, lwork := t.work(3*n-1, 3*n-1)
	t.run(func() { verifC07lImpl.Dsyev(jobz, ul, n, a, *lda, w, work, *lwork) })
}

// Dsytrd: "d must have length n, and e and tau must have length n-1"; lwork >= 1 or -1.
func VerifC07_Dsytrd() {
	t := verifC07lBegin("Dsytrd")
	ul := t.uplo("uplo")
	n := t.dim("n")
	lda := t.ld("lda", verifC07lMax(1, n))
	a := t.mat("a", n, n, lda)
	d := t.vecExact("d", n, false)
	e := t.vecExact("e", n-1, false)
	tau := t.vecExact("tau", n-1, false)
	work, lwork := t.work(1, 1)
	t.run(func() { verifC07lImpl.Dsytrd(ul, n, a, *lda, d, e, tau, work, *lwork) })
}

// Dgebrd: d, tauQ, tauP at least min(m,n), e min(m,n)-1; lwork >= max(1,m,n) or -1.
func VerifC07_Dgebrd() {
	t := verifC07lBegin("Dgebrd")
	m, n := t.dim("m"), t.dim("n")
	lda := t.ld("lda", verifC07lMax(1, n))
	a := t.mat("a", m, n, lda)
	mn := verifC07lMin(m, n)
	d := t.vec("d", mn)
	e := t.vec("e", mn-1)
	tauQ := t.vec("tauQ", mn)
	tauP := t.vec("tauP", mn)
	work, lwork := t.work(verifC07lMax(m, n), verifC07lMax(m, n))
	t.run(func() { verifC07lImpl.Dgebrd(m, n, a, *lda, d, e, tauQ, tauP, work, *lwork) })
}

// Dgesvd: jobU, jobVT in {SVDAll, SVDStore, SVDNone} (SVDOverwrite is documented but "not coded":
// excluded); s at least min(m,n); u is m x m (All) or m x min(m,n) (Store), vt is n x n (All) or
// min(m,n) x n (Store); ldu, ldvt >= 1; lwork >= max(1, 5*min(m,n), 3*min(m,n)+max(m,n)) or -1.
func VerifC07_Dgesvd() {
	t := verifC07lBegin("Dgesvd")
	ju, jv := verifByte("jobU"), verifByte("jobVT")
	verifAssume(verifAnd(ju != byte(lapack.SVDOverwrite), jv != byte(lapack.SVDOverwrite)))
	legal := func(b byte) bool {
		return verifOr(b == byte(lapack.SVDAll), verifOr(b == byte(lapack.SVDStore), b == byte(lapack.SVDNone)))
	}
	t.need(verifAnd(legal(ju), legal(jv)))
	jobU, jobVT := lapack.SVDJob(ju), lapack.SVDJob(jv)
	m, n := t.dimDrv("m"), t.dimDrv("n")
	mn, mx := verifC07lMin(m, n), verifC07lMax(m, n)
	ucols := verifIteInt(jobU == lapack.SVDAll, m, verifIteInt(jobU == lapack.SVDStore, mn, 0))
	urows := verifIteInt(ucols > 0, m, 0)
	vrows := verifIteInt(jobVT == lapack.SVDAll, n, verifIteInt(jobVT == lapack.SVDStore, mn, 0))
	vcols := verifIteInt(vrows > 0, n, 0)
	lda := t.ldDrv("lda", verifC07lMax(1, n))
	ldu := t.ldDrv("ldu", verifC07lMax(1, ucols))
	ldvt := t.ldDrv("ldvt", verifC07lMax(1, vcols))
	a := t.mat("a", m, n, lda)
	s := t.vec("s", mn)
	u := t.mat("u", urows, ucols, ldu)
	vt := t.mat("vt", vrows, vcols, ldvt)
	minw := verifC07lMax(5*mn, 3*mn+mx)
	work, lwork := t.work(minw, minw)
	t.run(func() { verifC07lImpl.Dgesvd(jobU, jobVT, m, n, a, *lda, s, u, *ldu, vt, *ldvt, work, *lwork) })
}

// Dgeev: jobvl, jobvr legal; "wr and wi must have length n, and Dgeev will panic otherwise";
// vl, vr are n x n when computed; ldvl, ldvr >= 1; lwork >= max(1,4*n) with vectors, max(1,3*n) without, or -1.
func verifC07lGeev(work1 bool) {
	t := verifC07lBegin("Dgeev")
	jl := lapack.LeftEVJob(t.flag("jobvl", byte(lapack.LeftEVCompute), byte(lapack.LeftEVNone)))
	jr := lapack.RightEVJob(t.flag("jobvr", byte(lapack.RightEVCompute), byte(lapack.RightEVNone)))
	n := t.dimDrv("n")
	wl, wr := jl == lapack.LeftEVCompute, jr == lapack.RightEVCompute
	lda := t.ldDrv("lda", verifC07lMax(1, n))
	ldvl := t.ldDrv("ldvl", verifC07lMax(1, verifIteInt(wl, n, 0)))
	ldvr := t.ldDrv("ldvr", verifC07lMax(1, verifIteInt(wr, n, 0)))
	a := t.mat("a", n, n, lda)
	wre := t.vecExact("wr", n, true)
	wim := t.vecExact("wi", n, true)
	vl := t.mat("vl", verifIteInt(wl, n, 0), verifIteInt(wl, n, 0), ldvl)
	vr := t.mat("vr", verifIteInt(wr, n, 0), verifIteInt(wr, n, 0), ldvr)
	minw := verifIteInt(verifOr(wl, wr), 4*n, 3*n)
	work, lwork := t.work(minw, 4*n)
	if work1 {
		verifAssume(len(work) >= 1)
	}
	t.run(func() { verifC07lImpl.Dgeev(jl, jr, n, a, *lda, wre, wim, vl, *ldvl, vr, *ldvr, work, *lwork) })
}

// VerifC07_Dgeev is an OPEN VIOLATION (not in the check spec): a workspace query (or n == 0) with an
// empty work faults. VerifC07_DgeevWork1 assumes len(work) >= 1 and is in the spec.
func VerifC07_Dgeev()      { verifC07lGeev(false) }
func VerifC07_DgeevWork1() { verifC07lGeev(true) }

// verifC07lIloIhi: "0 <= ilo <= ihi < n if n > 0, and ilo == 0 and ihi == -1 if n == 0".
func verifC07lIloIhi(t *verifC07lT, n int) (ilo, ihi int) {
	hi := verifParam("lmaxdim", 2)
	if hi > n+1 {
		hi = n + 1
	}
	ilo, ihi = t.par("ilo", -1, hi), t.par("ihi", -1, hi)
	t.need(verifOr(verifAnd(n > 0, verifAnd(0 <= ilo, verifAnd(ilo <= ihi, ihi < n))),
		verifAnd(n == 0, verifAnd(ilo == 0, ihi == -1))))
	return ilo, ihi
}

// Dgehrd: "tau must have length equal to n-1 if n > 0, otherwise Dgehrd will panic"; lwork >= max(1,n) or -1.
// VerifC07_Dgehrd is an OPEN VIOLATION (not in the check spec): a workspace query with an empty work
// faults. VerifC07_DgehrdWork1 assumes len(work) >= 1 and is in the spec.
func verifC07lGehrd(work1 bool) {
	t := verifC07lBegin("Dgehrd")
	n := t.dim("n")
	ilo, ihi := verifC07lIloIhi(t, n)
	lda := t.ld("lda", verifC07lMax(1, n))
	a := t.mat("a", n, n, lda)
	tau := t.vecExact("tau", verifC07lMax(0, n-1), true)
	work, lwork := t.work(n, n)
	if work1 {
		verifAssume(len(work) >= 1)
	}
	t.run(func() { verifC07lImpl.Dgehrd(n, ilo, ihi, a, *lda, tau, work, *lwork) })
}

func VerifC07_Dgehrd()      { verifC07lGehrd(false) }
func VerifC07_DgehrdWork1() { verifC07lGehrd(true) }

// Dhseqr: job, compz legal; ilo, ihi as for Dgehrd; ldh >= max(1,n); ldz >= 1 and >= n when Z is
// wanted; "wr and wi must have length n"; lwork >= max(1,n) or -1. H is laid out upper Hessenberg
// with the block ilo..ihi isolated (a non-isolated block is a documented panic on VALUES).
func VerifC07_Dhseqr() {
	t := verifC07lBegin("Dhseqr")
	job := lapack.SchurJob(t.flag("job", byte(lapack.EigenvaluesOnly), byte(lapack.EigenvaluesAndSchur)))
	cz := lapack.SchurComp(t.flag("compz", byte(lapack.SchurNone), byte(lapack.SchurHess), byte(lapack.SchurOrig)))
	n := t.dimDrv("n")
	ilo, ihi := verifC07lIloIhi(t, n)
	wantz := cz != lapack.SchurNone
	ldh := t.ldDrv("ldh", verifC07lMax(1, n))
	ldz := t.ldDrv("ldz", verifC07lMax(1, verifIteInt(wantz, n, 0)))
	hb, h := t.slice("h")
	t.store = verifAnd(t.store, verifC07lMatOK(n, n, *ldh, len(h)))
	t.short = verifOr(t.short, verifNot(verifC07lMatOK(n, n, *ldh, len(h))))
	wr := t.vecExact("wr", n, false)
	wi := t.vecExact("wi", n, false)
	z := t.mat("z", verifIteInt(wantz, n, 0), verifIteInt(wantz, n, 0), ldz)
	work, lwork := t.work(n, n)
	t.fill = func() {
		ld := *ldh
		for i := 0; i < n; i++ {
			for j := 0; j < n; j++ {
				k := i*ld + j
				if k >= len(hb) {
					continue
				}
				switch {
				case i == j:
					hb[k] = 4 + float64(i)
				case i < j:
					hb[k] = 0.5 / float64(1+i+j)
				case i == j+1 && ilo <= j && i <= ihi:
					hb[k] = 0.25
				default:
					hb[k] = 0
				}
			}
		}
	}
	t.run(func() { verifC07lImpl.Dhseqr(job, cz, n, ilo, ihi, h, *ldh, wr, wi, z, *ldz, work, *lwork) })
}

// Dbdsqr: uplo legal; n, ncvt, nru, ncc >= 0; ldvt >= max(1,ncvt), ldu >= max(1,n) ("U is not used if nru == 0": then ldu >= 1), ldc >= max(1,ncc);
// d at least n, e at least n-1; vt is n x ncvt, u is nru x n, c is n x ncc;
// "work ... must have length at least 4*(n-1)".
// VerifC07_Dbdsqr is an OPEN VIOLATION (not in the check spec): with ncvt == nru == ncc == 0 the
// routine needs 4*n work cells. VerifC07_DbdsqrWork4n gives 4*n cells and is in the spec.
func verifC07lBdsqr(work4n bool) {
	t := verifC07lBegin("Dbdsqr")
	ul := t.uplo("uplo")
	n := t.dimDrv("n")
	hi := verifParam("lmaxrhs", 1)
	ncvt, nru, ncc := t.par("ncvt", -1, hi), t.par("nru", -1, hi), t.par("ncc", -1, hi)
	t.need(verifAnd(ncvt >= 0, verifAnd(nru >= 0, ncc >= 0)))
	ldvt := t.ldDrv("ldvt", verifC07lMax(1, ncvt))
	ldu := t.ldDrv("ldu", verifC07lMax(1, verifIteInt(nru > 0, n, 0)))
	ldc := t.ldDrv("ldc", verifC07lMax(1, ncc))
	d := t.vec("d", n)
	e := t.vec("e", n-1)
	vt := t.mat("vt", n, ncvt, ldvt)
	u := t.mat("u", nru, n, ldu)
	c := t.mat("c", n, ncc, ldc)
	var work []float64
	if work4n {
		_, work = t.scratchSlice("work")
		t.store = verifAnd(t.store, len(work) >= 4*n)
		t.short = verifOr(t.short, len(work) < 4*(n-1))
	} else {
		work = t.scratch("work", 4*(n-1))
	}
	t.run(func() { verifC07lImpl.Dbdsqr(ul, n, ncvt, nru, ncc, d, e, vt, *ldvt, u, *ldu, c, *ldc, work) })
}

func VerifC07_Dbdsqr()       { verifC07lBdsqr(false) }
func VerifC07_DbdsqrWork4n() { verifC07lBdsqr(true) }

// Dsteqr: compz legal; ldz >= 1 and >= n when eigenvectors are computed; "d must have length n",
// "e must have length n-1"; z is n x n and work holds max(1,2*n-2) cells when eigenvectors are computed.
func VerifC07_Dsteqr() {
	t := verifC07lBegin("Dsteqr")
	cz := lapack.EVComp(t.flag("compz", byte(lapack.EVCompNone), byte(lapack.EVTridiag), byte(lapack.EVOrig)))
	n := t.dim("n")
	wantz := cz != lapack.EVCompNone
	ldz := t.ld("ldz", verifC07lMax(1, verifIteInt(wantz, n, 0)))
	d := t.vecExact("d", n, false)
	e := t.vecExact("e", n-1, false)
	z := t.mat("z", verifIteInt(wantz, n, 0), verifIteInt(wantz, n, 0), ldz)
	work := t.scratch("work", verifIteInt(wantz, verifC07lMax(1, 2*n-2), 0))
	t.run(func() { verifC07lImpl.Dsteqr(cz, n, d, e, z, *ldz, work) })
}

func VerifC07_Dsterf() {
	t := verifC07lBegin("Dsterf")
	n := t.dim("n")
	d := t.vec("d", n)
	e := t.vec("e", n-1)
	t.run(func() { verifC07lImpl.Dsterf(n, d, e) })
}

// Dlasrt: "For other values of s Dlasrt will panic"; d holds n numbers. No quick return is documented.
func VerifC07_Dlasrt() {
	t := verifC07lBegin("Dlasrt")
	s := lapack.Sort(t.flag("s", byte(lapack.SortIncreasing), byte(lapack.SortDecreasing)))
	n := verifChoose("n", -1, verifParam("lmaxdim", 2)+1)
	t.need(n >= 0)
	_, d := t.slice("d")
	t.store = verifAnd(t.store, len(d) >= n)
	t.always = verifOr(t.always, len(d) < n)
	t.run(func() { verifC07lImpl.Dlasrt(s, n, d) })
}

// Dlasr: side, pivot, direct legal; "s and c have length m - 1 if side == blas.Left, and n - 1 if side == blas.Right".
func VerifC07_Dlasr() {
	t := verifC07lBegin("Dlasr")
	sd := t.side("side")
	pv := lapack.Pivot(t.flag("pivot", byte(lapack.Variable), byte(lapack.Top), byte(lapack.Bottom)))
	dr := lapack.Direct(t.flag("direct", byte(lapack.Forward), byte(lapack.Backward)))
	m, n := t.dim("m"), t.dim("n")
	lda := t.ld("lda", verifC07lMax(1, n))
	nr := verifIteInt(sd == blas.Left, m-1, n-1)
	c := t.vec("c", nr)
	s := t.vec("s", nr)
	a := t.mat("a", m, n, lda)
	t.run(func() { verifC07lImpl.Dlasr(sd, pv, dr, m, n, c, s, a, *lda) })
}

// Dgebal: job legal; "scale must have length equal to n, otherwise Dgebal will panic".
func VerifC07_Dgebal() {
	t := verifC07lBegin("Dgebal")
	job := lapack.BalanceJob(t.flag("job", byte(lapack.BalanceNone), byte(lapack.Permute), byte(lapack.Scale), byte(lapack.PermuteScale)))
	n := t.dim("n")
	// "If job is lapack.BalanceNone, Dgebal sets scale[i] = 1 for all i and returns": a is not looked at
	t.emptyIf(job == lapack.BalanceNone)
	lda := t.ld("lda", verifC07lMax(1, n))
	a := t.mat("a", n, n, lda)
	scale := t.vecExact("scale", n, true)
	t.run(func() { verifC07lImpl.Dgebal(job, n, a, *lda, scale) })
}

// Dgebak: job, side (EVLeft, EVRight) legal; ilo, ihi as returned by Dgebal; v is n x m; scale holds n cells
// (entries outside ilo..ihi are row indices: the junk 0.3.. denotes row 0).
func VerifC07_Dgebak() {
	t := verifC07lBegin("Dgebak")
	job := lapack.BalanceJob(t.flag("job", byte(lapack.BalanceNone), byte(lapack.Permute), byte(lapack.Scale), byte(lapack.PermuteScale)))
	sd := lapack.EVSide(t.flag("side", byte(lapack.EVLeft), byte(lapack.EVRight)))
	n := t.dim("n")
	ilo, ihi := verifC07lIloIhi(t, n)
	m := t.dim("m")
	ldv := t.ld("ldv", verifC07lMax(1, m))
	scale := t.vec("scale", n)
	v := t.mat("v", n, m, ldv)
	t.run(func() { verifC07lImpl.Dgebak(job, sd, n, ilo, ihi, scale, m, v, *ldv) })
}

// ---------------- generalized SVD ----------------

type verifC07lGsvd struct {
	t                       *verifC07lT
	jobU, jobV, jobQ        lapack.GSVDJob
	m, p, n                 int
	lda, ldb, ldu, ldv, ldq *int
	a, b, u, v, q           []float64
}

// verifC07lGsvdArgs: jobU in {GSVDU, GSVDNone} (unit: also GSVDUnit), likewise jobV, jobQ; m, p, n >= 0;
// lda, ldb >= max(1,n); ldu, ldv, ldq >= 1 and >= m, p, n when the matrix is wanted;
// a is m x n, b is p x n, "U, V and Q must be m x m, p x p and n x n respectively unless the relevant
// job parameter is lapack.GSVDNone".
func verifC07lGsvdArgs(name string, unit bool) *verifC07lGsvd {
	t := verifC07lBegin(name)
	g := &verifC07lGsvd{t: t}
	job := func(nm string, c lapack.GSVDJob) lapack.GSVDJob {
		if unit {
			return lapack.GSVDJob(t.flag(nm, byte(c), byte(lapack.GSVDUnit), byte(lapack.GSVDNone)))
		}
		return lapack.GSVDJob(t.flag(nm, byte(c), byte(lapack.GSVDNone)))
	}
	g.jobU, g.jobV, g.jobQ = job("jobU", lapack.GSVDU), job("jobV", lapack.GSVDV), job("jobQ", lapack.GSVDQ)
	g.m, g.p, g.n = t.dimDrv("m"), t.dimDrv("p"), t.dimDrv("n")
	wu, wv, wq := g.jobU != lapack.GSVDNone, g.jobV != lapack.GSVDNone, g.jobQ != lapack.GSVDNone
	um, vp, qn := verifIteInt(wu, g.m, 0), verifIteInt(wv, g.p, 0), verifIteInt(wq, g.n, 0)
	g.lda, g.ldb = t.ldDrv("lda", verifC07lMax(1, g.n)), t.ldDrv("ldb", verifC07lMax(1, g.n))
	g.ldu, g.ldv, g.ldq = t.ldDrv("ldu", verifC07lMax(1, um)), t.ldDrv("ldv", verifC07lMax(1, vp)), t.ldDrv("ldq", verifC07lMax(1, qn))
	g.a, g.b = t.mat("a", g.m, g.n, g.lda), t.mat("b", g.p, g.n, g.ldb)
	g.u, g.v, g.q = t.mat("u", um, um, g.ldu), t.mat("v", vp, vp, g.ldv), t.mat("q", qn, qn, g.ldq)
	return g
}

// Dggsvp3: "iwork must have length n, work must have length at least max(1, lwork), and lwork must
// be -1 or greater than zero, otherwise Dggsvp3 will panic"; tau (not mentioned) holds n cells (reference LAPACK).
func VerifC07_Dggsvp3() {
	g := verifC07lGsvdArgs("Dggsvp3", false)
	t := g.t
	iwork := t.intsAlways("iwork", g.n, true)
	tau := t.vec("tau", g.n)
	work, lwork := t.work(1, 1)
	t.run(func() {
		verifC07lImpl.Dggsvp3(g.jobU, g.jobV, g.jobQ, g.m, g.p, g.n, g.a, *g.lda, g.b, *g.ldb, 1e-8, 1e-8,
			g.u, *g.ldu, g.v, *g.ldv, g.q, *g.ldq, iwork, tau, work, *lwork)
	})
}

// Dggsvd3: "alpha and beta must have length n or Dggsvd3 will panic"; "iwork must have length n, work
// must have length at least max(1, lwork), and lwork must be -1 or greater than n, otherwise Dggsvd3
// will panic" (the code and the reference demand lwork >= 1: values in [1, n] are in neither class).
func VerifC07_Dggsvd3() {
	g := verifC07lGsvdArgs("Dggsvd3", false)
	t := g.t
	alpha := t.vecExact("alpha", g.n, true)
	beta := t.vecExact("beta", g.n, true)
	work, lwork := t.work2(1, g.n+1, verifParam("ldrvdim", 1)+1)
	iwork := t.intsAlways("iwork", g.n, false)
	t.run(func() {
		verifC07lImpl.Dggsvd3(g.jobU, g.jobV, g.jobQ, g.m, g.n, g.p, g.a, *g.lda, g.b, *g.ldb, alpha, beta,
			g.u, *g.ldu, g.v, *g.ldv, g.q, *g.ldq, work, *lwork, iwork)
	})
}

// Dtgsja: jobs may also be GSVDUnit; k, l describe the sub-blocks of the documented forms of A and B:
// 0 <= k <= m, 0 <= l <= p, k+l <= n (other values are excluded: nothing is documented for them);
// "work must have length at least 2*n", "alpha and beta must have length n or Dtgsja will panic".
func VerifC07_Dtgsja() {
	g := verifC07lGsvdArgs("Dtgsja", true)
	t := g.t
	hi := verifParam("ldrvdim", 1)
	k, l := verifChoose("k", 0, hi), verifChoose("l", 0, hi)
	if k > g.m || l > g.p || k+l > g.n {
		return
	}
	alpha := t.vecExact("alpha", g.n, true)
	beta := t.vecExact("beta", g.n, true)
	work := t.scratch("work", 2*g.n)
	t.run(func() {
		verifC07lImpl.Dtgsja(g.jobU, g.jobV, g.jobQ, g.m, g.p, g.n, k, l, g.a, *g.lda, g.b, *g.ldb, 1e-8, 1e-8,
			alpha, beta, g.u, *g.ldu, g.v, *g.ldv, g.q, *g.ldq, work)
	})
}
