package gonum

// ---- norms of band / Hessenberg / tridiagonal matrices (max-abs, one, infinity) ----
//
// Every cell of the storage (band elements, cells of the band rows that lie
// outside the matrix, leading-dimension padding, the part of a full matrix below
// the first subdiagonal, work) is a symbolic real. The asserted value is
// "max of the defining candidates" computed from the addressed elements only,
// so a routine that reads any other cell cannot satisfy the assertion for all
// values of that cell.

// VerifC02_Dlansb: norms of the symmetric band matrix given by the uplo band.
func VerifC02_Dlansb() {
	n := verifChoose("n", 0, verifParam("bnormn", 3))
	kd := verifChoose("kd", 0, verifParam("bnormkd", 2))
	norm := verifC02normKind("norm")
	uplo := verifC02uplo("uplo")
	ldab := kd + 1 + verifChoose("ldabPad", 0, 1)
	ab := verifC02bandAlloc("ab", n, kd, ldab)
	ab0 := verifC02clone(ab)
	work := verifFloats("work", n)
	v := Implementation{}.Dlansb(norm, uplo, n, kd, ab, ldab, work)
	verifC02sameAll(ab, ab0, "Dlansb: AB unchanged")
	verifC02isMax(v, verifC02normOf(norm, n, n, func(i, j int) float64 { return verifC02bandSym(uplo, kd, ab0, ldab, i, j) }), 0,
		"Dlansb: norm of the symmetric band matrix given by the referenced band")
	verifReach("end")
}

// VerifC02_Dlantb: norms of the triangular band matrix (unit or non-unit diagonal).
func VerifC02_Dlantb() {
	n := verifChoose("n", 0, verifParam("bnormn", 3))
	kd := verifChoose("kd", 0, verifParam("bnormkd", 2))
	norm := verifC02normKind("norm")
	uplo := verifC02uplo("uplo")
	diag := verifC02diag("diag")
	ldab := kd + 1 + verifChoose("ldabPad", 0, 1)
	ab := verifC02bandAlloc("ab", n, kd, ldab)
	ab0 := verifC02clone(ab)
	work := verifFloats("work", n)
	v := Implementation{}.Dlantb(norm, uplo, diag, n, kd, ab, ldab, work)
	verifC02sameAll(ab, ab0, "Dlantb: AB unchanged")
	verifC02isMax(v, verifC02normOf(norm, n, n, func(i, j int) float64 { return verifC02bandTri(uplo, diag, kd, ab0, ldab, i, j) }), 0,
		"Dlantb: norm of the triangular band matrix given by the referenced band")
	verifReach("end")
}

// VerifC02_Dlanhs: norms of the upper Hessenberg matrix stored in a full array;
// the cells below the first subdiagonal are junk.
func VerifC02_Dlanhs() {
	n := verifChoose("n", 0, verifParam("bnormn", 3)+1)
	norm := verifC02normKind("norm")
	lda := verifC02ld("ldaPad", n)
	a := verifC02mat("a", n, n, lda)
	a0 := verifC02clone(a)
	work := verifFloats("work", n)
	v := Implementation{}.Dlanhs(norm, n, a, lda, work)
	verifC02sameAll(a, a0, "Dlanhs: A unchanged")
	verifC02isMax(v, verifC02normOf(norm, n, n, func(i, j int) float64 {
		if j < i-1 {
			return 0
		}
		return a0[i*lda+j]
	}), 0, "Dlanhs: norm of the Hessenberg matrix given by the cells on and above the first subdiagonal")
	verifReach("end")
}

// VerifC02_Dlangt: norms of the general tridiagonal matrix (dl, d, du).
func VerifC02_Dlangt() {
	n := verifChoose("n", 0, verifParam("gtnormn", 4))
	norm := verifC02normKind("norm")
	slack := verifChoose("slack", 0, 1)
	nm1 := verifC02max(n-1, 0)
	dl := verifFloats("dl", nm1+slack)
	d := verifFloats("d", n+slack)
	du := verifFloats("du", nm1+slack)
	dl0, d0, du0 := verifC02clone(dl), verifC02clone(d), verifC02clone(du)
	v := Implementation{}.Dlangt(norm, n, dl, d, du)
	verifC02sameAll(dl, dl0, "Dlangt: dl unchanged")
	verifC02sameAll(d, d0, "Dlangt: d unchanged")
	verifC02sameAll(du, du0, "Dlangt: du unchanged")
	verifC02isMax(v, verifC02normOf(norm, n, n, func(i, j int) float64 {
		switch {
		case i == j:
			return d0[i]
		case i == j+1:
			return dl0[j]
		case j == i+1:
			return du0[i]
		}
		return 0
	}), 0, "Dlangt: norm equals its definition")
	verifReach("end")
}

// verifC02gbIdx: index in ab of element (i,j) of the m x n band matrix with kl
// sub- and ku super-diagonals (row-major band storage), or -1 outside the band.
func verifC02gbIdx(kl, ku, ldab, i, j int) int {
	if j < i-kl || j > i+ku {
		return -1
	}
	return i*ldab + kl + j - i
}

// VerifC02_Dlangb: norms of the general band matrix.
func VerifC02_Dlangb() {
	maxN := verifParam("gbn", 3)
	m := verifChoose("m", 0, maxN)
	n := verifChoose("n", 0, maxN)
	kl := verifChoose("kl", 0, verifParam("gbk", 1))
	ku := verifChoose("ku", 0, verifParam("gbk", 1))
	norm := verifC02normKind("norm")
	ldab := kl + ku + 1 + verifChoose("ldabPad", 0, 1)
	rows := verifC02min(m, n+kl)
	nab := 0
	if m > 0 && n > 0 {
		nab = rows * ldab // what the routine demands (shortAB otherwise)
	}
	ab := verifFloats("ab", nab)
	ab0 := verifC02clone(ab)
	v := Implementation{}.Dlangb(norm, m, n, kl, ku, ab, ldab)
	verifC02sameAll(ab, ab0, "Dlangb: AB unchanged")
	if m == 0 || n == 0 {
		verifAssert(v == 0, "Dlangb: empty matrix has norm 0")
		verifReach("end")
		return
	}
	verifC02isMax(v, verifC02normOf(norm, m, n, func(i, j int) float64 {
		k := verifC02gbIdx(kl, ku, ldab, i, j)
		if k < 0 {
			return 0
		}
		return ab0[k]
	}), 0, "Dlangb: norm of the band matrix given by the referenced band")
	verifReach("end")
}
