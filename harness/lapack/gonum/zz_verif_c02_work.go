package gonum

import "gonum.org/v1/gonum/blas"

// Workspace-length contract of the C02 routines that take lwork.
//
//   lwork == -1     : no panic, work[0] >= documented minimum, nothing else written
//   lwork == min-1  : panics with badLWork (an explicit panic, not a runtime fault), nothing written
//   lwork == min    : the routine runs to completion without panicking (small concrete inputs)

const verifC02nWsRoutines = 10

var verifC02wsNames = [verifC02nWsRoutines]string{"Dgetri", "Dgeqrf", "Dgelqf", "Dgerqf", "Dormqr", "Dormlq", "Dorgqr", "Dorglq", "Dgels", "Dgeqp3"}

// verifC02wsDims holds the (possibly symbolic) shape arguments of one call.
type verifC02wsDims struct {
	m, n, k, nrhs int
	side          blas.Side
	trans         blas.Transpose
}

// verifC02wsMin returns the documented minimum lwork.
func verifC02wsMin(r int, d verifC02wsDims) int {
	one := func(x int) int { return verifIteInt(x > 1, x, 1) }
	switch r {
	case 0: // Dgetri: lwork >= n
		return one(d.n)
	case 1: // Dgeqrf: lwork >= n
		return one(d.n)
	case 2, 3: // Dgelqf, Dgerqf: lwork >= m
		return one(d.m)
	case 4, 5: // Dormqr, Dormlq: n if Left, m if Right
		if d.side == blas.Left {
			return one(d.n)
		}
		return one(d.m)
	case 6: // Dorgqr: lwork >= n
		return one(d.n)
	case 7: // Dorglq: lwork >= m
		return one(d.m)
	case 8: // Dgels: min(m,n) + max(min(m,n), nrhs) (reference LAPACK; what the code enforces)
		mn := verifIteInt(d.m < d.n, d.m, d.n)
		return one(mn + verifIteInt(mn > d.nrhs, mn, d.nrhs))
	case 9: // Dgeqp3: 3n+1 (1 for an empty matrix)
		return verifIteInt(verifOr(d.m == 0, d.n == 0), 1, 3*d.n+1)
	}
	panic("bad routine")
}

// verifC02wsAssumeDims states the admissible shapes of each routine.
func verifC02wsAssumeDims(r int, d verifC02wsDims) {
	switch r {
	case 4, 5: // k <= order of Q
		if d.side == blas.Left {
			verifAssume(d.k <= d.m)
		} else {
			verifAssume(d.k <= d.n)
		}
	case 6: // k <= n <= m
		verifAssume(verifAnd(d.k <= d.n, d.n <= d.m))
	case 7: // k <= m <= n
		verifAssume(verifAnd(d.k <= d.m, d.m <= d.n))
	}
}

// verifC02wsCall invokes routine r.
func verifC02wsCall(r int, d verifC02wsDims, a []float64, lda int, b []float64, ldb int, tau []float64, ip []int, work []float64, lwork int) {
	impl := Implementation{}
	switch r {
	case 0:
		impl.Dgetri(d.n, a, lda, ip, work, lwork)
	case 1:
		impl.Dgeqrf(d.m, d.n, a, lda, tau, work, lwork)
	case 2:
		impl.Dgelqf(d.m, d.n, a, lda, tau, work, lwork)
	case 3:
		impl.Dgerqf(d.m, d.n, a, lda, tau, work, lwork)
	case 4:
		impl.Dormqr(d.side, d.trans, d.m, d.n, d.k, a, lda, tau, b, ldb, work, lwork)
	case 5:
		impl.Dormlq(d.side, d.trans, d.m, d.n, d.k, a, lda, tau, b, ldb, work, lwork)
	case 6:
		impl.Dorgqr(d.m, d.n, d.k, a, lda, tau, work, lwork)
	case 7:
		impl.Dorglq(d.m, d.n, d.k, a, lda, tau, work, lwork)
	case 8:
		impl.Dgels(d.trans, d.m, d.n, d.nrhs, a, lda, b, ldb, work, lwork)
	case 9:
		impl.Dgeqp3(d.m, d.n, a, lda, ip, tau, work, lwork)
	}
}

// verifC02wsLd returns admissible leading dimensions (lda, ldb) for routine r.
func verifC02wsLd(r int, d verifC02wsDims, pad int) (lda, ldb int) {
	one := func(x int) int { return verifIteInt(x > 1, x, 1) }
	switch r {
	case 4: // a is nq x k, c is m x n
		return one(d.k) + pad, one(d.n) + pad
	case 5: // a is k x nq, c is m x n
		if d.side == blas.Left {
			return one(d.m) + pad, one(d.n) + pad
		}
		return one(d.n) + pad, one(d.n) + pad
	case 8:
		return one(d.n) + pad, one(d.nrhs) + pad
	}
	return one(d.n) + pad, 1
}

// With empty == false every dimension is >= 1; with empty == true at least one
// of the dimensions the routine takes is 0 (the quick-return shapes).
func verifC02wsSymDims(r int, empty bool) verifC02wsDims {
	hi := verifParam("wsmax", 300)
	lo := 1
	if empty {
		lo = 0
	}
	d := verifC02wsDims{side: blas.Left, trans: blas.NoTrans}
	d.m = verifInt("m", lo, hi)
	d.n = verifInt("n", lo, hi)
	anyZero := verifOr(d.m == 0, d.n == 0)
	switch r {
	case 0:
		d.m = d.n
		anyZero = d.n == 0
	case 4, 5, 6, 7:
		d.k = verifInt("k", lo, hi)
		anyZero = verifOr(anyZero, d.k == 0)
	case 8:
		d.nrhs = verifInt("nrhs", lo, hi)
		anyZero = verifOr(anyZero, d.nrhs == 0)
	}
	if empty {
		verifAssume(anyZero)
	}
	if r == 4 || r == 5 {
		d.side = verifC02side("side")
	}
	if r == 4 || r == 5 || r == 8 {
		if verifChoose("trans", 0, 1) == 1 {
			d.trans = blas.Trans
		}
	}
	verifC02wsAssumeDims(r, d)
	return d
}

// VerifC02_WorkspaceQuery: lwork == -1 for symbolic shapes: no panic, work[0] is a
// sufficient length, and neither an operand nor any other work cell is written.
func VerifC02_WorkspaceQuery() { verifC02wsQuery(false) }

// VerifC02_WorkspaceQueryEmpty: the same for shapes with a zero dimension (quick returns).
// This harness found findings F8, F9 (fixed in /repo 2241050), see notes/C02.md.
func VerifC02_WorkspaceQueryEmpty() { verifC02wsQuery(true) }

func verifC02wsQuery(empty bool) {
	r := verifChoose("routine", 0, verifC02nWsRoutines-1)
	d := verifC02wsSymDims(r, empty)
	lda, ldb := verifC02wsLd(r, d, verifChoose("ldPad", 0, 1))
	a, b, tau, work := verifFloats("a", 3), verifFloats("b", 3), verifFloats("tau", 3), verifFloats("work", 3)
	ip := []int{7, 8, 9}
	a0, b0, tau0, work0 := verifC02clone(a), verifC02clone(b), verifC02clone(tau), verifC02clone(work)
	panicked, _, _ := verifCatch(func() { verifC02wsCall(r, d, a, lda, b, ldb, tau, ip, work, -1) })
	who := verifC02wsNames[r]
	verifAssert(!panicked, who+": workspace query does not panic")
	if panicked {
		return
	}
	verifAssert(work[0] >= float64(verifC02wsMin(r, d)), who+": queried length is at least the documented minimum")
	verifAssert(work[0] >= 1, who+": queried length is at least 1")
	verifAssert(verifAnd(verifSame(work[1], work0[1]), verifSame(work[2], work0[2])), who+": query writes only work[0]")
	verifC02sameAll(a, a0, who+": query does not touch A")
	verifC02sameAll(b, b0, who+": query does not touch B/C")
	verifC02sameAll(tau, tau0, who+": query does not touch tau")
	verifAssert(verifAnd(ip[0] == 7, verifAnd(ip[1] == 8, ip[2] == 9)), who+": query does not touch ipiv/jpvt")
	verifReach("end")
}

// VerifC02_WorkspaceTooSmall: lwork == documented minimum - 1 panics with badLWork.
func VerifC02_WorkspaceTooSmall() { verifC02wsTooSmall(false) }

// VerifC02_WorkspaceTooSmallEmpty: the same for shapes with a zero dimension.
func VerifC02_WorkspaceTooSmallEmpty() { verifC02wsTooSmall(true) }

func verifC02wsTooSmall(empty bool) {
	r := verifChoose("routine", 0, verifC02nWsRoutines-1)
	d := verifC02wsSymDims(r, empty)
	lda, ldb := verifC02wsLd(r, d, verifChoose("ldPad", 0, 1))
	a, b, tau, work := verifFloats("a", 3), verifFloats("b", 3), verifFloats("tau", 3), verifFloats("work", 3)
	ip := []int{7, 8, 9}
	a0, b0, tau0, work0 := verifC02clone(a), verifC02clone(b), verifC02clone(tau), verifC02clone(work)
	lwork := verifC02wsMin(r, d) - 1
	verifAssume(lwork != -1)
	panicked, fault, msg := verifCatch(func() { verifC02wsCall(r, d, a, lda, b, ldb, tau, ip, work, lwork) })
	who := verifC02wsNames[r]
	verifAssert(verifAnd(panicked, verifNot(fault)), who+": lwork below the documented minimum panics explicitly")
	verifAssert(msg == badLWork, who+": the panic message is badLWork")
	verifC02sameAll(a, a0, who+": nothing written before the panic")
	verifC02sameAll(b, b0, who+": nothing written before the panic")
	verifC02sameAll(tau, tau0, who+": nothing written before the panic")
	verifC02sameAll(work, work0, who+": nothing written before the panic")
	verifReach("end")
}

// verifC02wsData fills a slice with fixed, well-conditioned concrete values.
func verifC02wsData(n, seed int) []float64 {
	s := make([]float64, n)
	x := uint32(seed*2654435761 + 12345)
	for i := range s {
		x = x*1664525 + 1013904223
		s[i] = float64(int(x>>20)%19-9)/4 + 0.125
	}
	return s
}

// VerifC02_WorkspaceMinimum: with lwork == documented minimum (and work of exactly that
// length) each routine runs to completion on concrete data; work[0] then reports a length >= minimum.
// Also run with the queried optimum and optimum+1.
func VerifC02_WorkspaceMinimum() { verifC02wsRun(false) }

// VerifC02_WorkspaceMinimumEmpty: the same for shapes with a zero dimension. Found finding F8 (fixed).
func VerifC02_WorkspaceMinimumEmpty() { verifC02wsRun(true) }

func verifC02wsRun(empty bool) {
	r := verifChoose("routine", 0, verifC02nWsRoutines-1)
	hi := verifParam("wsrun", 3)
	d := verifC02wsDims{side: blas.Left, trans: blas.NoTrans}
	d.m = verifChoose("m", 0, hi)
	d.n = verifChoose("n", 0, hi)
	switch r {
	case 0:
		d.m = d.n
	case 4, 5:
		d.side = verifC02side("side")
		if verifChoose("trans", 0, 1) == 1 {
			d.trans = blas.Trans
		}
		nq := d.n
		if d.side == blas.Left {
			nq = d.m
		}
		d.k = verifChoose("k", 0, nq)
	case 6:
		if d.n > d.m {
			return
		}
		d.k = verifChoose("k", 0, d.n)
	case 7:
		if d.m > d.n {
			return
		}
		d.k = verifChoose("k", 0, d.m)
	case 8:
		d.nrhs = verifChoose("nrhs", 0, 2)
		if verifChoose("trans", 0, 1) == 1 {
			d.trans = blas.Trans
		}
	}
	hasZero := d.m == 0 || d.n == 0
	switch r {
	case 0:
		hasZero = d.n == 0
	case 4, 5, 6, 7:
		hasZero = hasZero || d.k == 0
	case 8:
		hasZero = hasZero || d.nrhs == 0
	}
	if hasZero != empty {
		return
	}
	pad := verifChoose("ldPad", 0, 1)
	lda, ldb := verifC02wsLd(r, d, pad)
	rowsA, rowsB := d.m, 0
	switch r {
	case 4:
		rowsA, rowsB = d.m, d.m
		if d.side == blas.Right {
			rowsA = d.n
		}
	case 5:
		rowsA, rowsB = d.k, d.m
	case 8:
		rowsB = verifC02max(d.m, d.n)
	}
	a := verifC02wsData(verifC02max(rowsA, 1)*lda, 1)
	b := verifC02wsData(verifC02max(rowsB, 1)*ldb, 2)
	nTau := verifC02min(d.m, d.n)
	if r >= 4 && r <= 7 {
		nTau = d.k
	}
	tau := verifC02wsData(nTau, 3)
	for i := range tau {
		tau[i] = 1 + tau[i]/8
	}
	ip := make([]int, d.n)
	for i := range ip {
		ip[i] = i // Dgetri: identity pivots; Dgeqp3: every column free except none
	}
	if r == 9 {
		for i := range ip {
			ip[i] = -1
		}
	}
	who := verifC02wsNames[r]
	minw := verifC02wsMin(r, d)
	lwork := minw
	if kind := verifChoose("lworkKind", 0, 2); kind > 0 {
		// 1: the queried optimum, 2: one more than the optimum
		q := make([]float64, 1)
		verifC02wsCall(r, d, a, lda, b, ldb, tau, ip, q, -1)
		lwork = int(q[0]) + kind - 1
	}
	work := make([]float64, verifC02max(1, lwork))
	panicked, fault, msg := verifCatch(func() { verifC02wsCall(r, d, a, lda, b, ldb, tau, ip, work, lwork) })
	verifAssert(verifNot(fault), who+": no runtime fault with an admissible workspace length")
	verifAssert(verifNot(panicked), who+": an admissible workspace length does not panic ("+msg+")")
	if !panicked {
		verifAssert(work[0] >= float64(minw), who+": work[0] on return is a sufficient length")
	}
	verifReach("end")
}
