package gonum

import (
	"gonum.org/v1/gonum/blas"
	"gonum.org/v1/gonum/lapack"
)

// VerifC03_Dlasrt: output is ordered as requested and is a permutation of the
// input (every value occurs equally often before and after), cells beyond n untouched.
func VerifC03_Dlasrt() {
	n := verifChoose("n", 0, verifParam("srtn", 5))
	inc := verifChoose("order", 0, 1) == 0
	s := lapack.SortIncreasing
	if !inc {
		s = lapack.SortDecreasing
	}
	slack := verifChoose("slack", 0, 1)
	d := verifFloats("d", n+slack)
	d0 := append([]float64(nil), d...)
	Implementation{}.Dlasrt(s, n, d)
	if slack == 1 {
		verifAssert(verifSame(d[n], d0[n]), "Dlasrt: cell beyond n untouched")
	}
	for i := 0; i+1 < n; i++ {
		if inc {
			verifAssert(d[i] <= d[i+1], "Dlasrt: increasing order")
		} else {
			verifAssert(d[i] >= d[i+1], "Dlasrt: decreasing order")
		}
	}
	// multiset equality: for every input value, its multiplicity in the input
	// equals its multiplicity in the output; and every output value occurs in the input.
	for i := 0; i < n; i++ {
		cin, cout := 0, 0
		for j := 0; j < n; j++ {
			cin += verifIteInt(d0[j] == d0[i], 1, 0)
			cout += verifIteInt(d[j] == d0[i], 1, 0)
		}
		verifAssert(cin == cout, "Dlasrt: each input value keeps its multiplicity")
		occurs := false
		for j := 0; j < n; j++ {
			occurs = verifOr(occurs, d[i] == d0[j])
		}
		verifAssert(occurs, "Dlasrt: each output value is an input value")
	}
	verifReach("end")
}

// VerifC03_DlasrtBadSort: any other sort code panics and leaves d untouched.
func VerifC03_DlasrtBadSort() {
	d := verifFloats("d", 3)
	d0 := append([]float64(nil), d...)
	s := lapack.Sort(verifByte("s"))
	verifAssume(verifAnd(s != lapack.SortIncreasing, s != lapack.SortDecreasing))
	panicked, fault, msg := verifCatch(func() { Implementation{}.Dlasrt(s, 3, d) })
	verifAssert(verifAnd(panicked, verifNot(fault)), "Dlasrt: bad sort code panics")
	verifAssert(msg == badSort, "Dlasrt: panic message")
	for i := range d {
		verifAssert(verifSame(d[i], d0[i]), "Dlasrt: d untouched on panic")
	}
	verifReach("end")
}

// VerifC03_Dlasr: every (side, pivot, direct) arm equals the documented product
// of plane rotations P(k), built here as explicit z x z matrices, for arbitrary
// symbolic c and s (no c^2+s^2 = 1 assumption).
func VerifC03_Dlasr() { verifC03dlasr(false) }

// VerifC03_DlasrLeftTopBackward: the (Left, Top, Backward) arm alone. Found finding F10 (fixed in /repo abcafcd), see notes/C03.md.
func VerifC03_DlasrLeftTopBackward() { verifC03dlasr(true) }

func verifC03dlasr(onlyLTB bool) {
	maxN := verifParam("lasrn", 3)
	m := verifChoose("m", 0, maxN)
	n := verifChoose("n", 0, maxN)
	side := blas.Left
	if verifChoose("side", 0, 1) == 1 {
		side = blas.Right
	}
	pivot := []lapack.Pivot{lapack.Variable, lapack.Top, lapack.Bottom}[verifChoose("pivot", 0, 2)]
	direct := lapack.Forward
	if verifChoose("direct", 0, 1) == 1 {
		direct = lapack.Backward
	}
	if (side == blas.Left && pivot == lapack.Top && direct == lapack.Backward) != onlyLTB {
		return
	}
	lda := n + verifChoose("ldaPad", 0, 1)
	if lda < 1 {
		lda = 1
	}
	z := m
	if side == blas.Right {
		z = n
	}
	nrot := z - 1
	if nrot < 0 {
		nrot = 0
	}
	c := verifFloats("c", nrot)
	s := verifFloats("s", nrot)
	var a []float64
	if m > 0 {
		a = verifFloats("a", (m-1)*lda+n)
	}
	a0 := append([]float64(nil), a...)
	c0 := append([]float64(nil), c...)
	s0 := append([]float64(nil), s...)
	Implementation{}.Dlasr(side, pivot, direct, m, n, c, s, a, lda)
	for i := range c {
		verifAssert(verifAnd(verifSame(c[i], c0[i]), verifSame(s[i], s0[i])), "Dlasr: c and s unchanged")
	}
	for i := range a {
		if i%lda >= n {
			verifAssert(verifSame(a[i], a0[i]), "Dlasr: padding untouched")
		}
	}
	want := append([]float64(nil), a0...)
	if m > 0 && n > 0 {
		for step := 0; step < nrot; step++ {
			// Forward: P = P(z-2)...P(0): P(0) acts first. Backward: P = P(0)...P(z-2): P(z-2) acts first.
			// (side Right multiplies by P^T from the right: the same order of the factors.)
			k := step
			if direct == lapack.Backward {
				k = nrot - 1 - step
			}
			p, q := k, k+1
			switch pivot {
			case lapack.Top:
				p, q = 0, k+1
			case lapack.Bottom:
				p, q = k, z-1
			}
			// explicit P(k)
			P := make([]float64, z*z)
			for i := 0; i < z; i++ {
				P[i*z+i] = 1
			}
			P[p*z+p], P[p*z+q] = c0[k], s0[k]
			P[q*z+p], P[q*z+q] = -s0[k], c0[k]
			old := append([]float64(nil), want...)
			for i := 0; i < m; i++ {
				for j := 0; j < n; j++ {
					var t float64
					if side == blas.Left { // P(k) * A
						for l := 0; l < m; l++ {
							t += P[i*z+l] * old[l*lda+j]
						}
					} else { // A * P(k)^T
						for l := 0; l < n; l++ {
							t += old[i*lda+l] * P[j*z+l]
						}
					}
					want[i*lda+j] = t
				}
			}
		}
	}
	for i := 0; i < m; i++ {
		for j := 0; j < n; j++ {
			verifAssertEqF(a[i*lda+j], want[i*lda+j], "Dlasr: A == P*A resp. A*P^T for the documented P")
		}
	}
	verifReach("end")
}

// verifC03sign case-splits on the sign of x (three explorations): with the signs
// fixed every |.| in the kernels below is linear, which the nonlinear solver needs.
func verifC03sign(name string, x float64) {
	switch verifChoose(name, 0, 2) {
	case 0:
		verifAssume(x < 0)
	case 1:
		verifAssume(x == 0)
	case 2:
		verifAssume(x > 0)
	}
}

// VerifC03_Dlartg: [cs sn; -sn cs]*[f; g] == [r; 0], cs^2+sn^2 == 1, cs >= 0 and the documented special cases.
func VerifC03_Dlartg() {
	f, g := verifFloat("f"), verifFloat("g")
	verifC03sign("sign(f)", f)
	verifC03sign("sign(g)", g)
	cs, sn, r := Implementation{}.Dlartg(f, g)
	verifAssertEqF(cs*f+sn*g, r, "Dlartg: cs*f + sn*g == r")
	verifAssertEqF(-sn*f+cs*g, 0, "Dlartg: -sn*f + cs*g == 0")
	verifAssertEqF(cs*cs+sn*sn, 1, "Dlartg: cs^2 + sn^2 == 1")
	verifAssert(cs >= 0, "Dlartg: cs >= 0")
	verifAssert(verifImplies(g == 0, verifAnd(cs == 1, sn == 0)), "Dlartg: g == 0 gives cs = 1, sn = 0")
	verifAssert(verifImplies(verifAnd(f == 0, g > 0), verifAnd(cs == 0, sn == 1)), "Dlartg: f == 0, g > 0 gives cs = 0, sn = 1")
	verifAssert(verifImplies(verifAnd(f == 0, g < 0), verifAnd(cs == 0, sn == -1)), "Dlartg: f == 0, g < 0 gives cs = 0, sn = -1")
	verifReach("end")
}

// VerifC03_Dlae2: eigenvalues of [a b; b c]: trace, determinant and ordering.
// The branch |a-c| == |2b| multiplies by the rounded constant math.Sqrt2 and is
// exact only up to rounding: excluded (stated in the check's assumptions).
func VerifC03_Dlae2() {
	a, b, c := verifFloat("a"), verifFloat("b"), verifFloat("c")
	verifAssume(verifAbsF(a-c) != verifAbsF(b+b))
	verifC03sign("sign(a-c)", a-c)
	verifC03sign("sign(b)", b)
	verifC03sign("sign(a+c)", a+c)
	rt1, rt2 := Implementation{}.Dlae2(a, b, c)
	verifAssertEqF(rt1+rt2, a+c, "Dlae2: rt1 + rt2 == trace")
	if verifParam("lae2det", 0) == 1 {
		// borderline for z3 (square root times quotient): decided in 1-60 s on an
		// idle machine, sometimes unknown under load - thorough tier only
		verifAssertEqF(rt1*rt2, a*c-b*b, "Dlae2: rt1 * rt2 == determinant")
	}
	verifAssert(verifAbsF(rt1) >= verifAbsF(rt2), "Dlae2: |rt1| >= |rt2|")
	verifReach("end")
}

// VerifC03_Dlaev2: as Dlae2 plus the unit eigenvector (cs1, sn1) of rt1.
func VerifC03_Dlaev2() {
	a, b, c := verifFloat("a"), verifFloat("b"), verifFloat("c")
	verifAssume(verifAbsF(a-c) != verifAbsF(b+b))
	verifC03sign("sign(a-c)", a-c)
	verifC03sign("sign(b)", b)
	verifC03sign("sign(a+c)", a+c)
	rt1, rt2, cs1, sn1 := Implementation{}.Dlaev2(a, b, c)
	verifAssertEqF(rt1+rt2, a+c, "Dlaev2: rt1 + rt2 == trace")
	verifAssertEqF(rt1*rt2, a*c-b*b, "Dlaev2: rt1 * rt2 == determinant")
	verifAssert(verifAbsF(rt1) >= verifAbsF(rt2), "Dlaev2: |rt1| >= |rt2|")
	verifAssertEqF(cs1*cs1+sn1*sn1, 1, "Dlaev2: (cs1, sn1) is a unit vector")
	verifAssertEqF(a*cs1+b*sn1, rt1*cs1, "Dlaev2: A*(cs1,sn1) == rt1*(cs1,sn1), first row")
	verifAssertEqF(b*cs1+c*sn1, rt1*sn1, "Dlaev2: A*(cs1,sn1) == rt1*(cs1,sn1), second row")
	verifReach("end")
}

// VerifC03_Dlas2: singular values of [f g; 0 h]: 0 <= ssmin <= ssmax,
// ssmin*ssmax == |f*h|, ssmin^2 + ssmax^2 == f^2+g^2+h^2.
func VerifC03_Dlas2() {
	f, g, h := verifFloat("f"), verifFloat("g"), verifFloat("h")
	verifC03sign("sign(f)", f)
	verifC03sign("sign(g)", g)
	verifC03sign("sign(h)", h)
	ssmin, ssmax := Implementation{}.Dlas2(f, g, h)
	verifAssert(verifAnd(ssmin >= 0, ssmax >= ssmin), "Dlas2: 0 <= ssmin <= ssmax")
	verifAssertEqF(ssmin*ssmax, verifAbsF(f*h), "Dlas2: ssmin*ssmax == |det|")
	verifAssertEqF(ssmin*ssmin+ssmax*ssmax, f*f+g*g+h*h, "Dlas2: ssmin^2 + ssmax^2 == squared Frobenius norm")
	verifReach("end")
}

// VerifC03_Dgebak: back-transformation V := P*D*V (right) or P*D^-1*V (left) for
// arbitrary non-zero scale factors in [ilo,ihi] and arbitrary interchange
// indices outside (applied in the order ilo-1..0, then ihi+1..n-1, the reverse of Dgebal).
func VerifC03_Dgebak() {
	n := verifChoose("n", 0, verifParam("bakn", 3))
	m := verifChoose("m", 0, verifParam("bakm", 2))
	job := []lapack.BalanceJob{lapack.BalanceNone, lapack.Permute, lapack.Scale, lapack.PermuteScale}[verifChoose("job", 0, 3)]
	side := lapack.EVRight
	if verifChoose("side", 0, 1) == 1 {
		side = lapack.EVLeft
	}
	ilo, ihi := 0, -1
	if n > 0 {
		ilo = verifChoose("ilo", 0, n-1)
		ihi = verifChoose("ihi", ilo, n-1)
	} else {
		ihi = verifChoose("ihi0", -1, -1)
	}
	ldv := m + verifChoose("ldvPad", 0, 1)
	if ldv < 1 {
		ldv = 1
	}
	scale := verifFloats("scale", n)
	perm := make([]int, n)
	for i := 0; i < n; i++ {
		if i < ilo || i > ihi {
			perm[i] = verifChoose("perm", 0, n-1)
			scale[i] = float64(perm[i])
		} else {
			verifAssume(scale[i] != 0)
		}
	}
	if ilo == ihi && n > 0 {
		// Dgebal returns scale[ilo] == 1 for a 1x1 active block; Dgebak relies on it.
		scale[ilo] = 1
	}
	var v []float64
	if n > 0 {
		v = verifFloats("v", (n-1)*ldv+m)
	}
	v0 := append([]float64(nil), v...)
	sc0 := append([]float64(nil), scale...)
	Implementation{}.Dgebak(job, side, n, ilo, ihi, scale, m, v, ldv)
	for i := range scale {
		verifAssert(verifSame(scale[i], sc0[i]), "Dgebak: scale unchanged")
	}
	want := append([]float64(nil), v0...)
	if n > 0 && m > 0 {
		if job == lapack.Scale || job == lapack.PermuteScale {
			for i := ilo; i <= ihi; i++ {
				for j := 0; j < m; j++ {
					if side == lapack.EVRight {
						want[i*ldv+j] = sc0[i] * v0[i*ldv+j]
					} else {
						want[i*ldv+j] = v0[i*ldv+j] / sc0[i]
					}
				}
			}
		}
		if job == lapack.Permute || job == lapack.PermuteScale {
			swap := func(i int) {
				k := perm[i]
				for j := 0; j < m; j++ {
					want[i*ldv+j], want[k*ldv+j] = want[k*ldv+j], want[i*ldv+j]
				}
			}
			for i := ilo - 1; i >= 0; i-- {
				swap(i)
			}
			for i := ihi + 1; i < n; i++ {
				swap(i)
			}
		}
	}
	for i := range v {
		if i%ldv < m {
			verifAssertEqF(v[i], want[i], "Dgebak: V == P*D*V resp. P*D^-1*V")
		} else {
			verifAssert(verifSame(v[i], v0[i]), "Dgebak: padding untouched")
		}
	}
	verifReach("end")
}

func VerifC03_Dlacpy() { verifC02dlacpy() }
func VerifC03_Dlaset() { verifC02dlaset() }

// VerifC03_Iparmq: return values in the ranges the callers rely on, for symbolic n, ilo, ihi, lwork.
func VerifC03_Iparmq() {
	hi := verifParam("iparn", 10000)
	ispec := verifChoose("ispec", 12, 16)
	name := []string{"DHSEQR", "DLAQR0", "DLAQR3", "DLAQR4", "DLAEXC", "DGGHRD", "DGGHD3", "DTREXC"}[verifChoose("name", 0, 7)]
	n := verifInt("n", 1, hi)
	ilo := verifInt("ilo", 0, hi)
	ihi := verifInt("ihi", 0, hi)
	verifAssume(verifAnd(ilo <= ihi, ihi < n))
	lwork := verifInt("lwork", -1, hi)
	viaIlaenv := verifChoose("viaIlaenv", 0, 1) == 1
	var r int
	if viaIlaenv {
		r = Implementation{}.Ilaenv(ispec, name, "SV", n, ilo, ihi, lwork)
	} else {
		r = Implementation{}.Iparmq(ispec, name, "SV", n, ilo, ihi, lwork)
	}
	switch ispec {
	case 12:
		verifAssert(r >= 11, "Iparmq(12): crossover point nmin is at least 11")
	case 13:
		verifAssert(r >= 2, "Iparmq(13): deflation window size is at least 2")
	case 14:
		verifAssert(verifAnd(r >= 0, r <= 100), "Iparmq(14): nibble is a percentage")
	case 15:
		verifAssert(verifAnd(r >= 2, r%2 == 0), "Iparmq(15): number of shifts is even and at least 2")
	case 16:
		verifAssert(verifAnd(r >= 0, r <= 2), "Iparmq(16): kacc22 in {0,1,2}")
	}
	verifReach("end")
}

var verifC03ilaenvNames = []string{"DGEBRD", "DGEHRD", "DGELQF", "DGEQRF", "DGERQF", "DGETRF", "DGETRI", "DLAUUM", "DORGHR", "DORGLQ",
	"DORGQL", "DORGQR", "DORMLQ", "DORMQR", "DPBTRF", "DPOTRF", "DPTTRS", "DSYTRD", "DTREVC", "DTRTRI"}

// VerifC03_IlaenvBlock: block size (ispec 1) >= 1, minimum block size (2) >= 1,
// crossover (3) >= 0 for every (ispec, name) used by the callers and symbolic dimensions;
// the value does not depend on the dimensions' being -1 placeholders.
func VerifC03_IlaenvBlock() {
	hi := verifParam("iparn", 10000)
	ispec := verifChoose("ispec", 1, 3)
	ni := verifChoose("name", 0, len(verifC03ilaenvNames)-1)
	name := verifC03ilaenvNames[ni]
	// (ispec, name) pairs that no caller uses are skipped (Ilaenv panics badName for unknown pairs)
	used2 := map[string]bool{"DGEBRD": true, "DGEHRD": true, "DGELQF": true, "DGEQRF": true, "DGERQF": true, "DGETRI": true,
		"DORGLQ": true, "DORGQL": true, "DORGQR": true, "DORMLQ": true, "DORMQR": true, "DSYTRD": true}
	used3 := map[string]bool{"DGEBRD": true, "DGEHRD": true, "DGELQF": true, "DGEQRF": true, "DGERQF": true,
		"DORGLQ": true, "DORGQL": true, "DORGQR": true, "DSYTRD": true}
	if (ispec == 2 && !used2[name]) || (ispec == 3 && !used3[name]) {
		return
	}
	n1 := verifInt("n1", -1, hi)
	n2 := verifInt("n2", -1, hi)
	n3 := verifInt("n3", -1, hi)
	n4 := verifInt("n4", -1, hi)
	opts := []string{" ", "U", "L", "LN", "LT", "RN", "RT", "UD"}[verifChoose("opts", 0, 7)]
	r := Implementation{}.Ilaenv(ispec, name, opts, n1, n2, n3, n4)
	switch ispec {
	case 1:
		verifAssert(r >= 1, "Ilaenv(1): block size at least 1")
	case 2:
		verifAssert(r >= 1, "Ilaenv(2): minimum block size at least 1")
	case 3:
		verifAssert(r >= 0, "Ilaenv(3): crossover point non-negative")
	}
	verifReach("end")
}

// VerifC03_IlaenvMnthr: ispec 6 (Dgesvd's crossover) is floor(1.6*min(n1,n2)).
func VerifC03_IlaenvMnthr() {
	n1 := verifChoose("n1", 0, verifParam("mnthrn", 40))
	n2 := verifChoose("n2", 0, 3) * 13
	r := Implementation{}.Ilaenv(6, "DGESVD", "AA", n1, n2, 0, 0)
	mn := n1
	if n2 < mn {
		mn = n2
	}
	verifAssert(10*r <= 16*mn && 16*mn < 10*(r+1), "Ilaenv(6): floor(1.6*min(m,n))")
	verifReach("end")
}

// verifC03sortedAbsPerm asserts: out is non-negative, descending, and a
// permutation (as a multiset) of the absolute values of in.
func verifC03sortedAbsPerm(who string, out, in []float64) {
	n := len(in)
	abs := make([]float64, n)
	for i := range in {
		abs[i] = verifAbsF(in[i])
	}
	for i := 0; i < n; i++ {
		verifAssert(out[i] >= 0, who+": singular values are non-negative")
		if i+1 < n {
			verifAssert(out[i] >= out[i+1], who+": singular values are in decreasing order")
		}
		cin, cout := 0, 0
		occurs := false
		for j := 0; j < n; j++ {
			cin += verifIteInt(abs[j] == abs[i], 1, 0)
			cout += verifIteInt(out[j] == abs[i], 1, 0)
			occurs = verifOr(occurs, out[i] == abs[j])
		}
		verifAssert(cin == cout, who+": every |d[i]| keeps its multiplicity")
		verifAssert(occurs, who+": every output is some |d[i]|")
	}
}

// VerifC03_Dlasq1Diagonal: the non-iterative path of Dlasq1 (all off-diagonal
// entries exactly zero): the singular values of diag(d) are |d| sorted decreasingly, info == 0.
func VerifC03_Dlasq1Diagonal() {
	n := verifChoose("n", 0, verifParam("lasq1n", 4))
	d := verifFloats("d", n)
	d0 := append([]float64(nil), d...)
	ne := n - 1
	if ne < 0 {
		ne = 0
	}
	e := make([]float64, ne)
	work := verifFloats("work", 4*n)
	info := Implementation{}.Dlasq1(n, d, e, work)
	verifAssert(info == 0, "Dlasq1: info == 0 for a diagonal matrix")
	verifC03sortedAbsPerm("Dlasq1", d, d0)
	verifReach("end")
}

// VerifC03_DsteqrDiagonal: the loop-free path of Dsteqr (all off-diagonal entries
// exactly zero): eigenvalues are the diagonal entries in ascending order (a
// permutation of d), ok == true, and for compz = EVTridiag / EVOrig the returned
// Z has T*Z == Z*diag(w) with Z a column permutation of the input basis.
func VerifC03_DsteqrDiagonal() {
	n := verifChoose("n", 0, verifParam("steqrn", 3))
	compz := []lapack.EVComp{lapack.EVCompNone, lapack.EVTridiag, lapack.EVOrig}[verifChoose("compz", 0, 2)]
	d := verifFloats("d", n)
	d0 := append([]float64(nil), d...)
	ne := n - 1
	if ne < 0 {
		ne = 0
	}
	e := make([]float64, ne)
	ldz := n + verifChoose("ldzPad", 0, 1)
	if ldz < 1 {
		ldz = 1
	}
	var z []float64
	if n > 0 {
		z = verifFloats("z", (n-1)*ldz+n)
	}
	z0 := append([]float64(nil), z...)
	lw := 2*n - 2
	if lw < 1 {
		lw = 1
	}
	work := verifFloats("work", lw)
	ok := Implementation{}.Dsteqr(compz, n, d, e, z, ldz, work)
	verifAssert(ok, "Dsteqr: ok for a diagonal matrix")
	for i := 0; i < n; i++ {
		if i+1 < n {
			verifAssert(d[i] <= d[i+1], "Dsteqr: eigenvalues in ascending order")
		}
		cin, cout := 0, 0
		for j := 0; j < n; j++ {
			cin += verifIteInt(d0[j] == d0[i], 1, 0)
			cout += verifIteInt(d[j] == d0[i], 1, 0)
		}
		verifAssert(cin == cout, "Dsteqr: eigenvalues are a permutation of the diagonal")
	}
	switch compz {
	case lapack.EVCompNone:
		for i := range z {
			verifAssert(verifSame(z[i], z0[i]), "Dsteqr: z not used for EVCompNone")
		}
	case lapack.EVTridiag:
		// T = diag(d0): T*Z == Z*diag(w); Z^T*Z == I
		for i := 0; i < n; i++ {
			for j := 0; j < n; j++ {
				verifAssertEqF(d0[i]*z[i*ldz+j], z[i*ldz+j]*d[j], "Dsteqr: T*Z == Z*diag(w)")
				var s float64
				for k := 0; k < n; k++ {
					s += z[k*ldz+i] * z[k*ldz+j]
				}
				want := 0.0
				if i == j {
					want = 1
				}
				verifAssertEqF(s, want, "Dsteqr: Z^T*Z == I")
			}
		}
	case lapack.EVOrig:
		// A = Z0*diag(d0)*Z0^T for the input basis Z0 (not assumed orthogonal): A*Z == Z*diag(w)
		// reduces to: column j of Z is a column p of Z0 with d0[p] == w[j], each column used once.
		for j := 0; j < n; j++ {
			match := false
			for p := 0; p < n; p++ {
				col := d0[p] == d[j]
				for i := 0; i < n; i++ {
					col = verifAnd(col, z[i*ldz+j] == z0[i*ldz+p])
				}
				match = verifOr(match, col)
			}
			verifAssert(match, "Dsteqr: each column of Z is an input column belonging to its eigenvalue")
		}
	}
	for i := range z {
		if i%ldz >= n {
			verifAssert(verifSame(z[i], z0[i]), "Dsteqr: padding of z untouched")
		}
	}
	verifReach("end")
}

// VerifC03_DbdsqrDiagonal: Dbdsqr on a diagonal matrix (all e exactly zero):
// singular values are |d| in decreasing order, ok == true; with vectors,
// the rows of VT and the columns of U are permuted accordingly and rows of VT take the sign of d:
// diag(d0) * VT0 == U-permutation applied: checked as  U0*diag(d0)*VT0 == U*diag(s)*VT.
func VerifC03_DbdsqrDiagonal() {
	n := verifChoose("n", 0, verifParam("bdsqrn", 3))
	uplo := verifC02uplo("uplo")
	vec := verifChoose("vectors", 0, 1) == 1
	ncvt, nru := 0, 0
	if vec {
		ncvt, nru = verifChoose("ncvt", 1, 2), verifChoose("nru", 1, 2)
	}
	d := verifFloats("d", n)
	d0 := append([]float64(nil), d...)
	ne := n - 1
	if ne < 0 {
		ne = 0
	}
	e := make([]float64, ne)
	ldvt, ldu := ncvt, n
	if ldvt < 1 {
		ldvt = 1
	}
	if ldu < 1 {
		ldu = 1
	}
	var vt, u []float64
	if vec && n > 0 {
		vt = verifFloats("vt", (n-1)*ldvt+ncvt)
		u = verifFloats("u", (nru-1)*ldu+n)
	}
	vt0, u0 := append([]float64(nil), vt...), append([]float64(nil), u...)
	lw := 4 * n
	if lw < 1 {
		lw = 1
	}
	work := verifFloats("work", lw)
	ok := Implementation{}.Dbdsqr(uplo, n, ncvt, nru, 0, d, e, vt, ldvt, u, ldu, nil, 1, work)
	verifAssert(ok, "Dbdsqr: ok for a diagonal matrix")
	verifC03sortedAbsPerm("Dbdsqr", d, d0)
	if vec && n > 0 {
		// U0*diag(d0)*VT0 == U*diag(s)*VT (nru x ncvt)
		for i := 0; i < nru; i++ {
			for j := 0; j < ncvt; j++ {
				var l, r float64
				for k := 0; k < n; k++ {
					l += u0[i*ldu+k] * d0[k] * vt0[k*ldvt+j]
					r += u[i*ldu+k] * d[k] * vt[k*ldvt+j]
				}
				verifAssertEqF(r, l, "Dbdsqr: (U*Q)*S*(P^T*VT) == U*B*VT")
			}
		}
	}
	verifReach("end")
}
