package gonum

import (
	"math"

	"gonum.org/v1/gonum/blas"
)

// C02, extreme magnitudes: Dgels rescales A and B separately when their norms
// lie outside [smlnum, bignum] (about 1e-292 .. 1e292) and must undo both
// scalings on the solution. With concrete well-conditioned data and exact
// power-of-two factors, X(sa*A, sb*B) = (sb/sa) * X(A, B) in all four
// configurations (m >= n / m < n, NoTrans / Trans): the run on the scaled
// operands is compared with the run on the unscaled ones.
func VerifC02_DgelsScaled() {
	impl := Implementation{}
	shapes := [][2]int{{2, 2}, {3, 2}, {2, 3}, {4, 2}, {3, 3}}
	sh := shapes[verifChoose("shape", 0, len(shapes)-1)]
	m, n := sh[0], sh[1]
	trans := []blas.Transpose{blas.NoTrans, blas.Trans}[verifChoose("trans", 0, 1)]
	nrhs := verifChoose("nrhs", 1, 2)
	pairs := [][2]int{{-1000, 0}, {1000, 0}, {0, -1000}, {0, 1000}, {1000, 1000}, {-1000, -1000}}
	pr := pairs[verifChoose("scales", 0, len(pairs)-1)]
	sa, sb := math.Ldexp(1, pr[0]), math.Ldexp(1, pr[1])
	mx := max(m, n)
	a0 := verifC03cMat(m, n, n, 67*m+n)
	for i := 0; i < min(m, n); i++ {
		a0[i*n+i] += 4 // well conditioned
	}
	b0 := verifC03cMat(mx, nrhs, nrhs, 71*mx+nrhs)
	run := func(a, b []float64) []float64 {
		q := make([]float64, 1)
		impl.Dgels(trans, m, n, nrhs, verifC03cClone(a), n, verifC03cClone(b), nrhs, q, -1)
		work := make([]float64, int(q[0]))
		x := verifC03cClone(b)
		ok := impl.Dgels(trans, m, n, nrhs, verifC03cClone(a), n, x, nrhs, work, len(work))
		verifAssert(ok, "Dgels: full-rank A is reported as solved")
		return x
	}
	as, bs := verifC03cClone(a0), verifC03cClone(b0)
	for i := range as {
		as[i] *= sa
	}
	for i := range bs {
		bs[i] *= sb
	}
	x0 := run(a0, b0)
	xs := run(as, bs)
	rows := n // rows of the solution
	if trans == blas.Trans {
		rows = m
	}
	f := math.Ldexp(1, pr[1]-pr[0]) // sb/sa, exact
	big := 0.0
	for i := 0; i < rows*nrhs; i++ {
		big = math.Max(big, math.Abs(x0[i]))
	}
	ok := true
	for i := 0; i < rows*nrhs; i++ {
		ok = ok && math.Abs(xs[i]-f*x0[i]) <= 1e-9*f*big
	}
	verifAssert(ok, "Dgels: X(sa*A, sb*B) = (sb/sa)*X(A, B): both scalings are undone on the solution")
	verifReach("end")
}
