package gonum

import (
	"gonum.org/v1/gonum/blas"
	"gonum.org/v1/gonum/lapack"
)

// ---- condition estimators Dtrcon / Dgecon / Dpocon: the two exact end points ----
//
// Only what is exact is asserted: the reciprocal condition number of the
// identity is exactly 1, of an exactly singular triangular factor exactly 0.
// The referenced entries are concrete (condsym=0) or symbolic (condsym=1, only
// the singular case); every other cell (unreferenced triangle, padding, work,
// iwork) is symbolic junk and must neither influence the result nor be
// modified in A.

func verifC02conNorm(name string) lapack.MatrixNorm {
	if verifChoose(name, 0, 1) == 0 {
		return lapack.MaxColumnSum
	}
	return lapack.MaxRowSum
}

// verifC02conCall runs routine r (0 Dtrcon, 1 Dgecon, 2 Dpocon) with junk workspaces.
func verifC02conCall(r int, norm lapack.MatrixNorm, uplo blas.Uplo, diag blas.Diag, n int, a []float64, lda int, anorm float64) float64 {
	iwork := verifInts("iwork", n, -5, 5)
	switch r {
	case 0:
		return Implementation{}.Dtrcon(norm, uplo, diag, n, a, lda, verifFloats("work", 3*n), iwork)
	case 1:
		return Implementation{}.Dgecon(norm, n, a, lda, anorm, verifFloats("work", 4*n), iwork)
	}
	return Implementation{}.Dpocon(uplo, n, a, lda, anorm, verifFloats("work", 3*n), iwork)
}

// VerifC02_ConIdentity: rcond of the identity (as a triangular matrix with unit
// or explicit diagonal, as the LU factors of I, as the Cholesky factor of I) is
// exactly 1; A is not modified.
func VerifC02_ConIdentity() {
	n := verifChoose("n", 0, verifParam("conn", 4))
	r := verifChoose("routine", 0, 2)
	norm := lapack.MaxColumnSum
	uplo := blas.Upper
	diag := blas.NonUnit
	if r <= 1 {
		norm = verifC02conNorm("norm")
	}
	if r != 1 {
		uplo = verifC02uplo("uplo")
	}
	if r == 0 {
		diag = verifC02diag("diag")
	}
	lda := verifC02ld("ldaPad", n)
	a := verifC02mat("a", n, n, lda)
	for i := 0; i < n; i++ {
		for j := 0; j < n; j++ {
			ref := r == 1 || verifC02inTri(uplo, i, j)
			if i == j && r == 0 && diag == blas.Unit {
				ref = false // the diagonal of a unit triangular matrix is not referenced
			}
			if !ref {
				continue
			}
			if i == j {
				a[i*lda+j] = 1
			} else {
				a[i*lda+j] = 0
			}
		}
	}
	a0 := verifC02clone(a)
	rcond := verifC02conCall(r, norm, uplo, diag, n, a, lda, 1)
	verifAssert(rcond == 1, "Dtrcon/Dgecon/Dpocon: rcond of the identity is exactly 1")
	verifC02sameAll(a, a0, "Dtrcon/Dgecon/Dpocon: A unchanged")
	verifReach("end")
}

// VerifC02_ConSingular: a triangular factor with an exactly zero diagonal entry
// (Dtrcon non-unit, U of Dgecon, the Cholesky factor of Dpocon) has rcond
// exactly 0, also anorm == 0 for Dgecon/Dpocon; A is not modified.
func VerifC02_ConSingular() {
	n := verifChoose("n", 1, verifParam("consn", 3))
	r := verifChoose("routine", 0, 2)
	norm := lapack.MaxColumnSum
	uplo := blas.Upper
	if r <= 1 {
		norm = verifC02conNorm("norm")
	}
	if r != 1 {
		uplo = verifC02uplo("uplo")
	}
	z := verifChoose("zeroAt", 0, n-1)
	lda := verifC02ld("ldaPad", n)
	a := verifC02mat("a", n, n, lda)
	if verifParam("condsym", 0) == 0 {
		for i := 0; i < n; i++ {
			for j := 0; j < n; j++ {
				if r != 1 && !verifC02inTri(uplo, i, j) {
					continue
				}
				switch {
				case i == j:
					a[i*lda+j] = float64(2 + i)
				case i < j:
					a[i*lda+j] = 0.5 + float64(j-i)
				default:
					a[i*lda+j] = -0.25 * float64(i+j)
				}
			}
		}
	}
	a[z*lda+z] = 0
	anorm := 1.0
	zeroNorm := false
	if r != 0 {
		zeroNorm = verifChoose("anormZero", 0, 1) == 1
		if zeroNorm {
			anorm = 0
		}
	}
	a0 := verifC02clone(a)
	rcond := verifC02conCall(r, norm, uplo, blas.NonUnit, n, a, lda, anorm)
	verifAssert(rcond == 0, "Dtrcon/Dgecon/Dpocon: rcond of an exactly singular factor (or with anorm == 0) is exactly 0")
	verifC02sameAll(a, a0, "Dtrcon/Dgecon/Dpocon: A unchanged")
	verifReach("end")
}
