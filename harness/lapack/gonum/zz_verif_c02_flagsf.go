package gonum

import "gonum.org/v1/gonum/blas"

// VerifC02_SingularFlagsF (model F: IEEE comparisons exact, arithmetic
// uninterpreted, cells may be NaN/Inf/-0): an exactly zero (or non-positive)
// pivot in a place that needs no arithmetic to be seen must be reported through
// ok == false, and routines documented to do nothing in that case leave their
// operands bit-identical. Complements the model-R harnesses, where a path that
// divides by an exact zero is pruned instead of being observed.
func VerifC02_SingularFlagsF() {
	n := verifChoose("n", 1, verifParam("flagn", 3))
	which := verifChoose("routine", 0, 7)
	lda := verifC02ld("ldaPad", n)
	impl := Implementation{}
	switch which {
	case 0, 1, 2: // Dtrtri, Dtrtrs, Dpotri: any zero on the diagonal
		uplo := verifC02uplo("uplo")
		a := verifC02mat("a", n, n, lda)
		z := verifChoose("zeroAt", 0, n-1)
		a[z*lda+z] = 0
		b := verifC02mat("b", n, 1, 1)
		a0, b0 := verifC02clone(a), verifC02clone(b)
		var ok bool
		switch which {
		case 0:
			ok = impl.Dtrtri(uplo, blas.NonUnit, n, a, lda)
		case 1:
			ok = impl.Dtrtrs(uplo, verifC02trans("trans"), blas.NonUnit, n, 1, a, lda, b, 1)
		case 2:
			ok = impl.Dpotri(uplo, n, a, lda)
		}
		verifAssert(!ok, "triangular routine: exactly zero diagonal entry gives ok == false")
		verifC02sameAll(a, a0, "triangular routine: A untouched when singular")
		verifC02sameAll(b, b0, "triangular routine: B untouched when singular")
	case 3: // Dtbtrs
		uplo := verifC02uplo("uplo")
		kd := verifChoose("kd", 0, 1)
		ldab := kd + 1
		a := verifC02bandAlloc("a", n, kd, ldab)
		z := verifChoose("zeroAt", 0, n-1)
		a[verifC02bandIdx(uplo, kd, ldab, z, z)] = 0
		b := verifC02mat("b", n, 1, 1)
		a0, b0 := verifC02clone(a), verifC02clone(b)
		ok := impl.Dtbtrs(uplo, verifC02trans("trans"), blas.NonUnit, n, kd, 1, a, ldab, b, 1)
		verifAssert(!ok, "Dtbtrs: exactly zero diagonal entry gives ok == false")
		verifC02sameAll(a, a0, "Dtbtrs: A untouched when singular")
		verifC02sameAll(b, b0, "Dtbtrs: B untouched when singular")
	case 4: // Dgetf2 / Dgetrf / Dgesv: first column exactly zero
		a := verifC02mat("a", n, n, lda)
		for i := 0; i < n; i++ {
			a[i*lda] = 0
		}
		ipiv := make([]int, n)
		b := verifC02mat("b", n, 1, 1)
		b0 := verifC02clone(b)
		var ok bool
		switch verifChoose("lu", 0, 2) {
		case 0:
			ok = impl.Dgetf2(n, n, a, lda, ipiv)
		case 1:
			ok = impl.Dgetrf(n, n, a, lda, ipiv)
		case 2:
			ok = impl.Dgesv(n, 1, a, lda, ipiv, b, 1)
			verifC02sameAll(b, b0, "Dgesv: B untouched when the factorization reports singularity")
		}
		verifAssert(!ok, "LU: exactly zero first column gives ok == false")
	case 5: // Dpotf2 / Dpotrf: a[0][0] not positive (<= 0 or NaN)
		uplo := verifC02uplo("uplo")
		a := verifC02mat("a", n, n, lda)
		verifAssume(verifNot(a[0] > 0))
		var ok bool
		if verifChoose("blocked", 0, 1) == 1 {
			ok = impl.Dpotrf(uplo, n, a, lda)
		} else {
			ok = impl.Dpotf2(uplo, n, a, lda)
		}
		verifAssert(!ok, "Cholesky: non-positive (or NaN) leading entry gives ok == false")
	case 6: // Dpttrf / Dptsv: d[0] <= 0
		d := verifFloats("d", n)
		e := verifFloats("e", n-1)
		verifAssume(d[0] <= 0)
		b := verifC02mat("b", n, 1, 1)
		b0 := verifC02clone(b)
		var ok bool
		if verifChoose("driver", 0, 1) == 1 {
			ok = impl.Dptsv(n, 1, d, e, b, 1)
			verifC02sameAll(b, b0, "Dptsv: B untouched when the factorization fails")
		} else {
			ok = impl.Dpttrf(n, d, e)
		}
		verifAssert(!ok, "Dpttrf/Dptsv: non-positive leading entry gives ok == false")
	case 7: // Dpbtf2 / Dpbtrf: leading entry <= 0
		uplo := verifC02uplo("uplo")
		kd := verifChoose("kd", 0, 1)
		ldab := kd + 1
		ab := verifC02bandAlloc("ab", n, kd, ldab)
		verifAssume(ab[verifC02bandIdx(uplo, kd, ldab, 0, 0)] <= 0)
		var ok bool
		if verifChoose("blocked", 0, 1) == 1 {
			ok = impl.Dpbtrf(uplo, n, kd, ab, ldab)
		} else {
			ok = impl.Dpbtf2(uplo, n, kd, ab, ldab)
		}
		verifAssert(!ok, "band Cholesky: non-positive leading entry gives ok == false")
	}
	verifReach("end")
}
