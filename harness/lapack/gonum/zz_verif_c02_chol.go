package gonum

import "gonum.org/v1/gonum/blas"

func verifC02uplo(name string) blas.Uplo {
	if verifChoose(name, 0, 1) == 0 {
		return blas.Upper
	}
	return blas.Lower
}

func verifC02diag(name string) blas.Diag {
	if verifChoose(name, 0, 1) == 0 {
		return blas.NonUnit
	}
	return blas.Unit
}

// verifC02inTri reports whether (i,j) lies in the referenced triangle.
func verifC02inTri(uplo blas.Uplo, i, j int) bool {
	if uplo == blas.Upper {
		return i <= j
	}
	return i >= j
}

// verifC02tri returns element (i,j) of the triangular matrix stored in the uplo
// triangle of a (0 outside the triangle, 1 on the diagonal when diag is Unit).
func verifC02tri(uplo blas.Uplo, diag blas.Diag, a []float64, lda, i, j int) float64 {
	if i == j && diag == blas.Unit {
		return 1
	}
	if !verifC02inTri(uplo, i, j) {
		return 0
	}
	return a[i*lda+j]
}

// verifC02sym returns element (i,j) of the symmetric matrix stored in the uplo triangle of a.
func verifC02sym(uplo blas.Uplo, a []float64, lda, i, j int) float64 {
	if verifC02inTri(uplo, i, j) {
		return a[i*lda+j]
	}
	return a[j*lda+i]
}

// verifC02otherTriSame asserts that the strict other triangle and the padding are bit-identical.
func verifC02otherTriSame(uplo blas.Uplo, diag blas.Diag, a, a0 []float64, n, lda int, msg string) {
	for i := range a {
		r, c := i/lda, i%lda
		if r < n && c < n && verifC02inTri(uplo, r, c) && !(r == c && diag == blas.Unit) {
			continue
		}
		verifAssert(verifSame(a[i], a0[i]), msg)
	}
}

// verifC02minorsPos: all leading principal minors of the symmetric matrix are > 0 (n <= 3).
func verifC02minorsPos(uplo blas.Uplo, a []float64, lda, n int) bool {
	s := func(i, j int) float64 { return verifC02sym(uplo, a, lda, i, j) }
	pos := true
	if n >= 1 {
		pos = verifAnd(pos, s(0, 0) > 0)
	}
	if n >= 2 {
		pos = verifAnd(pos, s(0, 0)*s(1, 1)-s(0, 1)*s(1, 0) > 0)
	}
	if n >= 3 {
		d := s(0, 0)*(s(1, 1)*s(2, 2)-s(1, 2)*s(2, 1)) - s(0, 1)*(s(1, 0)*s(2, 2)-s(1, 2)*s(2, 0)) + s(0, 2)*(s(1, 0)*s(2, 1)-s(1, 1)*s(2, 0))
		pos = verifAnd(pos, d > 0)
	}
	return pos
}

// verifC02cholCheck: factor structure, A == U^T*U / L*L^T on the referenced triangle when ok.
func verifC02cholCheck(who string, uplo blas.Uplo, n, lda int, a, a0 []float64, ok bool) {
	verifC02otherTriSame(uplo, blas.NonUnit, a, a0, n, lda, who+": other triangle and padding untouched")
	if n <= verifParam("cholpdn", 2) {
		verifAssert(verifIff(ok, verifC02minorsPos(uplo, a0, lda, n)), who+": ok exactly when A is positive definite (all leading minors > 0)")
	}
	// (at n = 3 neither direction of the equivalence is decided by z3 within 40 s; see notes/C02.md)
	if !ok {
		verifReach("notposdef")
		return
	}
	for i := 0; i < n; i++ {
		verifAssert(a[i*lda+i] > 0, who+": diagonal of the factor is positive")
	}
	for i := 0; i < n; i++ {
		for j := 0; j < n; j++ {
			if !verifC02inTri(uplo, i, j) {
				continue
			}
			var s float64
			for k := 0; k < n; k++ {
				if uplo == blas.Upper {
					// (U^T U)[i][j] = sum_k U[k][i] U[k][j]
					s += verifC02tri(uplo, blas.NonUnit, a, lda, k, i) * verifC02tri(uplo, blas.NonUnit, a, lda, k, j)
				} else {
					s += verifC02tri(uplo, blas.NonUnit, a, lda, i, k) * verifC02tri(uplo, blas.NonUnit, a, lda, j, k)
				}
			}
			verifAssertEqF(s, a0[i*lda+j], who+": A == U^T*U (L*L^T)")
		}
	}
}

func VerifC02_Dpotf2() {
	n := verifChoose("n", verifParam("cholnmin", 0), verifParam("choln", 3))
	uplo := verifC02uplo("uplo")
	lda := verifC02ld("ldaPad", n)
	a := verifC02mat("a", n, n, lda)
	a0 := verifC02clone(a)
	ok := Implementation{}.Dpotf2(uplo, n, a, lda)
	verifC02cholCheck("Dpotf2", uplo, n, lda, a, a0, ok)
	verifReach("end")
}

func VerifC02_Dpotrf() {
	n := verifChoose("n", verifParam("cholnmin", 0), verifParam("choln", 3))
	uplo := verifC02uplo("uplo")
	lda := verifC02ld("ldaPad", n)
	a := verifC02mat("a", n, n, lda)
	a0 := verifC02clone(a)
	ok := Implementation{}.Dpotrf(uplo, n, a, lda)
	verifC02cholCheck("Dpotrf", uplo, n, lda, a, a0, ok)
	verifReach("end")
}

// VerifC02_Dpotrs: for an ARBITRARY triangular factor with non-zero diagonal
// (no positive-definiteness needed), X solves (U^T U) X = B resp. (L L^T) X = B.
func VerifC02_Dpotrs() {
	n := verifChoose("n", 0, verifParam("solven", 3))
	nrhs := verifChoose("nrhs", 0, verifParam("nrhs", 2))
	uplo := verifC02uplo("uplo")
	lda := verifC02ld("ldaPad", n)
	ldb := verifC02ld("ldbPad", nrhs)
	a := verifC02mat("a", n, n, lda)
	b := verifC02mat("b", n, nrhs, ldb)
	for i := 0; i < n; i++ {
		verifAssume(a[i*lda+i] != 0)
	}
	a0 := verifC02clone(a)
	b0 := verifC02clone(b)
	Implementation{}.Dpotrs(uplo, n, nrhs, a, lda, b, ldb)
	verifC02sameAll(a, a0, "Dpotrs: factor unchanged")
	verifC02samePad(b, b0, n, nrhs, ldb, "Dpotrs: padding of B untouched")
	// M = U^T U or L L^T
	for i := 0; i < n; i++ {
		for j := 0; j < nrhs; j++ {
			var s float64
			for k := 0; k < n; k++ {
				var mik float64
				for l := 0; l < n; l++ {
					if uplo == blas.Upper {
						mik += verifC02tri(uplo, blas.NonUnit, a0, lda, l, i) * verifC02tri(uplo, blas.NonUnit, a0, lda, l, k)
					} else {
						mik += verifC02tri(uplo, blas.NonUnit, a0, lda, i, l) * verifC02tri(uplo, blas.NonUnit, a0, lda, k, l)
					}
				}
				s += mik * b[k*ldb+j]
			}
			verifAssertEqF(s, b0[i*ldb+j], "Dpotrs: (U^T U) X == B")
		}
	}
	verifReach("end")
}

// VerifC02_Dpotri: from an arbitrary triangular factor with non-zero diagonal,
// the result R (referenced triangle, symmetric) satisfies (U^T U) * R == I.
func VerifC02_Dpotri() {
	n := verifChoose("n", 0, verifParam("invn", 3))
	uplo := verifC02uplo("uplo")
	lda := verifC02ld("ldaPad", n)
	a := verifC02mat("a", n, n, lda)
	for i := 0; i < n; i++ {
		verifAssume(a[i*lda+i] != 0)
	}
	a0 := verifC02clone(a)
	ok := Implementation{}.Dpotri(uplo, n, a, lda)
	verifAssert(ok, "Dpotri: ok for a factor with non-zero diagonal")
	verifC02otherTriSame(uplo, blas.NonUnit, a, a0, n, lda, "Dpotri: other triangle and padding untouched")
	for i := 0; i < n; i++ {
		for j := 0; j < n; j++ {
			var s float64
			for k := 0; k < n; k++ {
				var mik float64
				for l := 0; l < n; l++ {
					if uplo == blas.Upper {
						mik += verifC02tri(uplo, blas.NonUnit, a0, lda, l, i) * verifC02tri(uplo, blas.NonUnit, a0, lda, l, k)
					} else {
						mik += verifC02tri(uplo, blas.NonUnit, a0, lda, i, l) * verifC02tri(uplo, blas.NonUnit, a0, lda, k, l)
					}
				}
				s += mik * verifC02sym(uplo, a, lda, k, j)
			}
			want := 0.0
			if i == j {
				want = 1
			}
			verifAssertEqF(s, want, "Dpotri: A * inv(A) == I")
		}
	}
	verifReach("end")
}

// VerifC02_DpotriSingular: a zero on the diagonal of the factor gives ok == false and leaves A untouched.
func VerifC02_DpotriSingular() {
	n := verifChoose("n", 1, verifParam("invn", 3))
	uplo := verifC02uplo("uplo")
	lda := verifC02ld("ldaPad", n)
	a := verifC02mat("a", n, n, lda)
	z := verifChoose("zeroAt", 0, n-1)
	a[z*lda+z] = 0
	a0 := verifC02clone(a)
	ok := Implementation{}.Dpotri(uplo, n, a, lda)
	verifAssert(!ok, "Dpotri: singular factor reported")
	verifC02sameAll(a, a0, "Dpotri: nothing modified for a singular factor")
	verifReach("end")
}

// verifC02trInvCheck: T(a0) * T(a) == I for the triangular matrices stored in a0 and a.
func verifC02trInvCheck(who string, uplo blas.Uplo, diag blas.Diag, n, lda int, a, a0 []float64) {
	verifC02otherTriSame(uplo, diag, a, a0, n, lda, who+": unreferenced cells untouched")
	for i := 0; i < n; i++ {
		for j := 0; j < n; j++ {
			var s float64
			for k := 0; k < n; k++ {
				s += verifC02tri(uplo, diag, a0, lda, i, k) * verifC02tri(uplo, diag, a, lda, k, j)
			}
			want := 0.0
			if i == j {
				want = 1
			}
			verifAssertEqF(s, want, who+": T * inv(T) == I")
		}
	}
}

func VerifC02_Dtrti2() {
	n := verifChoose("n", 0, verifParam("trin", 3))
	uplo := verifC02uplo("uplo")
	diag := verifC02diag("diag")
	lda := verifC02ld("ldaPad", n)
	a := verifC02mat("a", n, n, lda)
	if diag == blas.NonUnit {
		for i := 0; i < n; i++ {
			verifAssume(a[i*lda+i] != 0)
		}
	}
	a0 := verifC02clone(a)
	Implementation{}.Dtrti2(uplo, diag, n, a, lda)
	verifC02trInvCheck("Dtrti2", uplo, diag, n, lda, a, a0)
	verifReach("end")
}

func VerifC02_Dtrtri() {
	n := verifChoose("n", 0, verifParam("trin", 3))
	uplo := verifC02uplo("uplo")
	diag := verifC02diag("diag")
	lda := verifC02ld("ldaPad", n)
	a := verifC02mat("a", n, n, lda)
	a0 := verifC02clone(a)
	ok := Implementation{}.Dtrtri(uplo, diag, n, a, lda)
	sing := false
	if diag == blas.NonUnit {
		for i := 0; i < n; i++ {
			sing = verifOr(sing, a0[i*lda+i] == 0)
		}
	}
	verifAssert(verifIff(ok, verifNot(sing)), "Dtrtri: ok == false exactly when a diagonal entry is exactly zero")
	if !ok {
		verifC02sameAll(a, a0, "Dtrtri: nothing modified for a singular matrix")
		verifReach("singular")
		return
	}
	verifC02trInvCheck("Dtrtri", uplo, diag, n, lda, a, a0)
	verifReach("end")
}

func VerifC02_Dtrtrs() {
	n := verifChoose("n", 0, verifParam("solven", 3))
	nrhs := verifChoose("nrhs", 0, verifParam("nrhs", 2))
	uplo := verifC02uplo("uplo")
	diag := verifC02diag("diag")
	trans := verifC02trans("trans")
	lda := verifC02ld("ldaPad", n)
	ldb := verifC02ld("ldbPad", nrhs)
	a := verifC02mat("a", n, n, lda)
	b := verifC02mat("b", n, nrhs, ldb)
	a0 := verifC02clone(a)
	b0 := verifC02clone(b)
	ok := Implementation{}.Dtrtrs(uplo, trans, diag, n, nrhs, a, lda, b, ldb)
	verifC02sameAll(a, a0, "Dtrtrs: A unchanged")
	sing := false
	if diag == blas.NonUnit {
		for i := 0; i < n; i++ {
			sing = verifOr(sing, a0[i*lda+i] == 0)
		}
	}
	verifAssert(verifIff(ok, verifNot(sing)), "Dtrtrs: ok == false exactly when a diagonal entry is exactly zero")
	if !ok {
		verifC02sameAll(b, b0, "Dtrtrs: B not modified for a singular matrix")
		verifReach("singular")
		return
	}
	verifC02samePad(b, b0, n, nrhs, ldb, "Dtrtrs: padding of B untouched")
	for i := 0; i < n; i++ {
		for j := 0; j < nrhs; j++ {
			var s float64
			for k := 0; k < n; k++ {
				var t float64
				if trans == blas.NoTrans {
					t = verifC02tri(uplo, diag, a0, lda, i, k)
				} else {
					t = verifC02tri(uplo, diag, a0, lda, k, i)
				}
				s += t * b[k*ldb+j]
			}
			verifAssertEqF(s, b0[i*ldb+j], "Dtrtrs: op(T)*X == B")
		}
	}
	verifReach("end")
}

// verifC02lauuCheck: referenced triangle of the result equals U*U^T (Upper) or L^T*L (Lower).
func verifC02lauuCheck(who string, uplo blas.Uplo, n, lda int, a, a0 []float64) {
	verifC02otherTriSame(uplo, blas.NonUnit, a, a0, n, lda, who+": other triangle and padding untouched")
	for i := 0; i < n; i++ {
		for j := 0; j < n; j++ {
			if !verifC02inTri(uplo, i, j) {
				continue
			}
			var s float64
			for k := 0; k < n; k++ {
				if uplo == blas.Upper {
					s += verifC02tri(uplo, blas.NonUnit, a0, lda, i, k) * verifC02tri(uplo, blas.NonUnit, a0, lda, j, k)
				} else {
					s += verifC02tri(uplo, blas.NonUnit, a0, lda, k, i) * verifC02tri(uplo, blas.NonUnit, a0, lda, k, j)
				}
			}
			verifAssertEqF(a[i*lda+j], s, who+": result == U*U^T (L^T*L)")
		}
	}
}

func VerifC02_Dlauu2() {
	n := verifChoose("n", 0, verifParam("lauun", 4))
	uplo := verifC02uplo("uplo")
	lda := verifC02ld("ldaPad", n)
	a := verifC02mat("a", n, n, lda)
	a0 := verifC02clone(a)
	Implementation{}.Dlauu2(uplo, n, a, lda)
	verifC02lauuCheck("Dlauu2", uplo, n, lda, a, a0)
	verifReach("end")
}

func VerifC02_Dlauum() {
	n := verifChoose("n", 0, verifParam("lauun", 4))
	uplo := verifC02uplo("uplo")
	lda := verifC02ld("ldaPad", n)
	a := verifC02mat("a", n, n, lda)
	a0 := verifC02clone(a)
	Implementation{}.Dlauum(uplo, n, a, lda)
	verifC02lauuCheck("Dlauum", uplo, n, lda, a, a0)
	verifReach("end")
}

// VerifC02_DpotrfFromFactor: every positive definite matrix is R^T*R (L*L^T) for a
// triangular R with positive diagonal. For A built that way from a symbolic R,
// Dpotrf/Dpotf2 must succeed and return exactly R (uniqueness of the Cholesky
// factor). Together with "ok implies A == U^T*U with positive diagonal" this is
// "ok exactly when A is positive definite" without determinants.
func VerifC02_DpotrfFromFactor() {
	n := verifChoose("n", verifParam("cholnmin", 0), verifParam("cholfn", 3))
	uplo := verifC02uplo("uplo")
	blocked := verifChoose("blocked", 0, 1) == 1
	lda := verifC02ld("ldaPad", n)
	r := verifC02mat("r", n, n, lda)
	for i := 0; i < n; i++ {
		verifAssume(r[i*lda+i] > 0)
	}
	a := verifC02mat("a", n, n, lda) // unreferenced triangle and padding stay arbitrary
	for i := 0; i < n; i++ {
		for j := 0; j < n; j++ {
			if !verifC02inTri(uplo, i, j) {
				continue
			}
			var s float64
			for k := 0; k < n; k++ {
				if uplo == blas.Upper {
					s += verifC02tri(uplo, blas.NonUnit, r, lda, k, i) * verifC02tri(uplo, blas.NonUnit, r, lda, k, j)
				} else {
					s += verifC02tri(uplo, blas.NonUnit, r, lda, i, k) * verifC02tri(uplo, blas.NonUnit, r, lda, j, k)
				}
			}
			a[i*lda+j] = s
		}
	}
	var ok bool
	if blocked {
		ok = Implementation{}.Dpotrf(uplo, n, a, lda)
	} else {
		ok = Implementation{}.Dpotf2(uplo, n, a, lda)
	}
	verifAssert(ok, "Dpotrf: a positive definite matrix is factored successfully")
	if !ok {
		return
	}
	for i := 0; i < n; i++ {
		for j := 0; j < n; j++ {
			if verifC02inTri(uplo, i, j) {
				verifAssertEqF(a[i*lda+j], r[i*lda+j], "Dpotrf: the factor of R^T*R is R")
			}
		}
	}
	verifReach("end")
}
