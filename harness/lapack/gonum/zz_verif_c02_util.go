package gonum

import (
	"gonum.org/v1/gonum/blas"
	"gonum.org/v1/gonum/lapack"
)

// VerifC02_Dlaswp: row interchanges k <-> ipiv[k] applied for k = k1..k2 (incX = 1)
// or k2..k1 (incX = -1); other incX panic; rows/cells not involved untouched.
func VerifC02_Dlaswp() {
	rows := verifChoose("rows", 1, verifParam("swprows", 4))
	n := verifChoose("n", 0, verifParam("swpn", 2))
	lda := verifC02ld("ldaPad", n)
	k2 := verifChoose("k2", 0, rows-1)
	k1 := verifChoose("k1", 0, k2)
	incX := verifChoose("incX", -2, 2)
	a := verifFloats("a", (rows-1)*lda+n+verifChoose("slack", 0, 1))
	a0 := verifC02clone(a)
	ipiv := verifInts("ipiv", k2+1, 0, rows-1)
	ip0 := append([]int(nil), ipiv...)
	panicked, fault, msg := verifCatch(func() { Implementation{}.Dlaswp(n, a, lda, k1, k2, ipiv, incX) })
	verifAssert(!fault, "Dlaswp: no runtime fault")
	if incX != 1 && incX != -1 {
		verifAssert(verifAnd(panicked, msg == absIncNotOne), "Dlaswp: |incX| != 1 panics with the documented message")
		verifC02sameAll(a, a0, "Dlaswp: nothing modified on panic")
		return
	}
	verifAssert(!panicked, "Dlaswp: admissible arguments do not panic")
	for i := range ipiv {
		verifAssert(ipiv[i] == ip0[i], "Dlaswp: ipiv unchanged")
	}
	want := verifC02clone(a0)
	swap := func(k int) {
		p := ip0[k]
		for c := 0; c < n; c++ {
			t := want[k*lda+c]
			want[k*lda+c] = want[p*lda+c]
			want[p*lda+c] = t
		}
	}
	if incX == 1 {
		for k := k1; k <= k2; k++ {
			swap(k)
		}
	} else {
		for k := k2; k >= k1; k-- {
			swap(k)
		}
	}
	for i := range a {
		verifAssert(verifSame(a[i], want[i]), "Dlaswp: result is the documented sequence of row swaps, everything else untouched")
	}
	verifReach("end")
}

// verifC02perm returns a symbolic permutation of 0..n-1 (pairwise distinct entries).
func verifC02perm(name string, n int) []int {
	k := verifInts(name, n, 0, n-1)
	for i := 0; i < n; i++ {
		for j := i + 1; j < n; j++ {
			verifAssume(k[i] != k[j])
		}
	}
	return k
}

// VerifC02_Dlapmt: column permutation; k restored.
func VerifC02_Dlapmt() {
	m := verifChoose("m", 0, verifParam("pmm", 2))
	n := verifChoose("n", 0, verifParam("pmn", 4))
	forward := verifChoose("forward", 0, 1) == 1
	ldx := verifC02ld("ldxPad", n)
	x := verifC02mat("x", m, n, ldx)
	x0 := verifC02clone(x)
	k := verifC02perm("k", n)
	k0 := append([]int(nil), k...)
	Implementation{}.Dlapmt(forward, m, n, x, ldx, k)
	for i := range k {
		verifAssert(k[i] == k0[i], "Dlapmt: k restored on return")
	}
	verifC02samePad(x, x0, m, n, ldx, "Dlapmt: padding untouched")
	for i := 0; i < m; i++ {
		for j := 0; j < n; j++ {
			if forward {
				verifAssert(verifSame(x[i*ldx+j], x0[i*ldx+k0[j]]), "Dlapmt forward: X[:,k[j]] moved to X[:,j]")
			} else {
				verifAssert(verifSame(x[i*ldx+k0[j]], x0[i*ldx+j]), "Dlapmt backward: X[:,j] moved to X[:,k[j]]")
			}
		}
	}
	verifReach("end")
}

// VerifC02_Dlapmr: row permutation; k restored.
func VerifC02_Dlapmr() {
	m := verifChoose("m", 0, verifParam("pmn", 4))
	n := verifChoose("n", 0, verifParam("pmm", 2))
	forward := verifChoose("forward", 0, 1) == 1
	ldx := verifC02ld("ldxPad", n)
	x := verifC02mat("x", m, n, ldx)
	x0 := verifC02clone(x)
	k := verifC02perm("k", m)
	k0 := append([]int(nil), k...)
	Implementation{}.Dlapmr(forward, m, n, x, ldx, k)
	for i := range k {
		verifAssert(k[i] == k0[i], "Dlapmr: k restored on return")
	}
	verifC02samePad(x, x0, m, n, ldx, "Dlapmr: padding untouched")
	for i := 0; i < m; i++ {
		for j := 0; j < n; j++ {
			if forward {
				verifAssert(verifSame(x[i*ldx+j], x0[k0[i]*ldx+j]), "Dlapmr forward: X[k[i],:] moved to X[i,:]")
			} else {
				verifAssert(verifSame(x[k0[i]*ldx+j], x0[i*ldx+j]), "Dlapmr backward: X[i,:] moved to X[k[i],:]")
			}
		}
	}
	verifReach("end")
}

func verifC02uploAll(name string) blas.Uplo {
	switch verifChoose(name, 0, 2) {
	case 0:
		return blas.Upper
	case 1:
		return blas.Lower
	}
	return blas.All
}

// verifC02inPart: (i,j) belongs to the part of a rectangular matrix selected by uplo.
func verifC02inPart(uplo blas.Uplo, i, j int) bool {
	switch uplo {
	case blas.Upper:
		return i <= j
	case blas.Lower:
		return i >= j
	}
	return true
}

func verifC02dlacpy() {
	maxN := verifParam("utiln", 3)
	m := verifChoose("m", 0, maxN)
	n := verifChoose("n", 0, maxN)
	uplo := verifC02uploAll("uplo")
	lda := verifC02ld("ldaPad", n)
	ldb := verifC02ld("ldbPad", n)
	a := verifC02mat("a", m, n, lda)
	b := verifC02mat("b", m, n, ldb)
	a0, b0 := verifC02clone(a), verifC02clone(b)
	Implementation{}.Dlacpy(uplo, m, n, a, lda, b, ldb)
	verifC02sameAll(a, a0, "Dlacpy: A unchanged")
	for i := range b {
		r, c := i/ldb, i%ldb
		if r < m && c < n && verifC02inPart(uplo, r, c) {
			verifAssert(verifSame(b[i], a0[r*lda+c]), "Dlacpy: selected part copied")
		} else {
			verifAssert(verifSame(b[i], b0[i]), "Dlacpy: rest of B untouched")
		}
	}
	verifReach("end")
}

func VerifC02_Dlacpy() { verifC02dlacpy() }

func verifC02dlaset() {
	maxN := verifParam("utiln", 3)
	m := verifChoose("m", 0, maxN)
	n := verifChoose("n", 0, maxN)
	uplo := verifC02uploAll("uplo")
	lda := verifC02ld("ldaPad", n)
	a := verifC02mat("a", m, n, lda)
	a0 := verifC02clone(a)
	alpha, beta := verifFloat("alpha"), verifFloat("beta")
	Implementation{}.Dlaset(uplo, m, n, alpha, beta, a, lda)
	for i := range a {
		r, c := i/lda, i%lda
		switch {
		case r < m && c < n && r == c:
			verifAssert(verifSame(a[i], beta), "Dlaset: diagonal set to beta")
		case r < m && c < n && verifC02inPart(uplo, r, c):
			verifAssert(verifSame(a[i], alpha), "Dlaset: selected off-diagonal part set to alpha")
		default:
			verifAssert(verifSame(a[i], a0[i]), "Dlaset: rest of A untouched")
		}
	}
	verifReach("end")
}

func VerifC02_Dlaset() { verifC02dlaset() }

// verifC02isMax asserts v == max(0, vals...) : an upper bound that is attained.
func verifC02isMax(v float64, vals []float64, floor float64, msg string) {
	att := v == floor
	verifAssert(v >= floor, msg+" (lower bound)")
	for _, x := range vals {
		verifAssert(v >= x, msg+" (upper bound of all candidates)")
		att = verifOr(att, v == x)
	}
	verifAssert(att, msg+" (attained)")
}

func verifC02normKind(name string) lapack.MatrixNorm {
	switch verifChoose(name, 0, 2) {
	case 0:
		return lapack.MaxAbs
	case 1:
		return lapack.MaxColumnSum
	}
	return lapack.MaxRowSum
}

// verifC02normOf computes the candidates of a norm from an element accessor.
func verifC02normOf(norm lapack.MatrixNorm, m, n int, el func(i, j int) float64) []float64 {
	var c []float64
	switch norm {
	case lapack.MaxAbs:
		for i := 0; i < m; i++ {
			for j := 0; j < n; j++ {
				c = append(c, verifAbsF(el(i, j)))
			}
		}
	case lapack.MaxColumnSum:
		for j := 0; j < n; j++ {
			var s float64
			for i := 0; i < m; i++ {
				s += verifAbsF(el(i, j))
			}
			c = append(c, s)
		}
	case lapack.MaxRowSum:
		for i := 0; i < m; i++ {
			var s float64
			for j := 0; j < n; j++ {
				s += verifAbsF(el(i, j))
			}
			c = append(c, s)
		}
	}
	return c
}

// VerifC02_Dlange: max-abs, one and infinity norms equal their definitions; A untouched.
func VerifC02_Dlange() {
	maxN := verifParam("normn", 3)
	m := verifChoose("m", 0, maxN)
	n := verifChoose("n", 0, maxN)
	norm := verifC02normKind("norm")
	lda := verifC02ld("ldaPad", n)
	a := verifC02mat("a", m, n, lda)
	a0 := verifC02clone(a)
	work := verifFloats("work", n)
	v := Implementation{}.Dlange(norm, m, n, a, lda, work)
	verifC02sameAll(a, a0, "Dlange: A unchanged")
	verifC02isMax(v, verifC02normOf(norm, m, n, func(i, j int) float64 { return a0[i*lda+j] }), 0, "Dlange: norm equals its definition")
	verifReach("end")
}

// VerifC02_Dlansy: norms of the symmetric matrix defined by the referenced triangle only.
func VerifC02_Dlansy() {
	n := verifChoose("n", 0, verifParam("normn", 3))
	norm := verifC02normKind("norm")
	uplo := verifC02uplo("uplo")
	lda := verifC02ld("ldaPad", n)
	a := verifC02mat("a", n, n, lda)
	a0 := verifC02clone(a)
	work := verifFloats("work", n)
	v := Implementation{}.Dlansy(norm, uplo, n, a, lda, work)
	verifC02sameAll(a, a0, "Dlansy: A unchanged")
	verifC02isMax(v, verifC02normOf(norm, n, n, func(i, j int) float64 { return verifC02sym(uplo, a0, lda, i, j) }), 0,
		"Dlansy: norm of the symmetric matrix given by the referenced triangle")
	verifReach("end")
}

// VerifC02_Dlantr: norms of the trapezoidal matrix (unit or non-unit diagonal).
func VerifC02_Dlantr() {
	maxN := verifParam("normn", 3)
	m := verifChoose("m", 0, maxN)
	n := verifChoose("n", 0, maxN)
	norm := verifC02normKind("norm")
	uplo := verifC02uplo("uplo")
	diag := verifC02diag("diag")
	lda := verifC02ld("ldaPad", n)
	a := verifC02mat("a", m, n, lda)
	a0 := verifC02clone(a)
	work := verifFloats("work", n)
	v := Implementation{}.Dlantr(norm, uplo, diag, m, n, a, lda, work)
	verifC02sameAll(a, a0, "Dlantr: A unchanged")
	if m == 0 || n == 0 {
		verifAssert(v == 0, "Dlantr: empty matrix has norm 0")
		return
	}
	verifC02isMax(v, verifC02normOf(norm, m, n, func(i, j int) float64 { return verifC02tri(uplo, diag, a0, lda, i, j) }), 0,
		"Dlantr: norm of the trapezoidal matrix given by the referenced part")
	verifReach("end")
}

// VerifC02_Dlanst: norms of the symmetric tridiagonal matrix.
func VerifC02_Dlanst() {
	n := verifChoose("n", 0, verifParam("stn", 5))
	norm := verifC02normKind("norm")
	d := verifFloats("d", n)
	e := verifFloats("e", verifC02max(n-1, 0))
	d0, e0 := verifC02clone(d), verifC02clone(e)
	v := Implementation{}.Dlanst(norm, n, d, e)
	verifC02sameAll(d, d0, "Dlanst: d unchanged")
	verifC02sameAll(e, e0, "Dlanst: e unchanged")
	verifC02isMax(v, verifC02normOf(norm, n, n, func(i, j int) float64 {
		switch {
		case i == j:
			return d0[i]
		case i == j+1:
			return e0[j]
		case j == i+1:
			return e0[i]
		}
		return 0
	}), 0, "Dlanst: norm equals its definition")
	verifReach("end")
}
