package gonum

import (
	"math"
	"sort"

	"gonum.org/v1/gonum/blas"
	"gonum.org/v1/gonum/lapack"
)

// C03, graded block-diagonal inputs: a symmetric matrix diag(s1*B1, s2*B2) with
// power-of-two factors of very different magnitude (2^-500, 1, 2^500). The
// tridiagonal QL/QR kernels (Dsterf, Dsteqr) split such a matrix into
// independent blocks and scale EACH block into [ssfmin, ssfmax] on its own, so
// the scaling decision of one block must not leak into the next. The eigenvalues
// of the whole are exactly the scaled eigenvalues of the blocks (computed here
// from the unscaled blocks on their own), each accurate relative to ITS block.
// Concrete data; the case split is over block sizes, the pair of exponents,
// the triangle and the job.
func VerifC03_ConfigGraded() {
	impl := Implementation{}
	n1 := verifChoose("n1", 2, verifParam("gradedn", 3))
	n2 := verifChoose("n2", 2, verifParam("gradedn", 3))
	exps := []int{-500, 0, 500}
	x1 := exps[verifChoose("exp1", 0, 2)]
	x2 := exps[verifChoose("exp2", 0, 2)]
	if x1 == x2 {
		return // uniform scaling: VerifC03_ConfigScaled
	}
	vecs := verifChoose("vectors", 0, 1) == 1
	uplo := []blas.Uplo{blas.Upper, blas.Lower}[verifChoose("uplo", 0, 1)]
	jobz := lapack.EVNone
	if vecs {
		jobz = lapack.EVCompute
	}
	syev := func(job lapack.EVJob, n int, a []float64) (w, z []float64) {
		w = make([]float64, n)
		z = verifC03cClone(a)
		q := make([]float64, 1)
		impl.Dsyev(job, uplo, n, verifC03cClone(a), n, w, q, -1)
		work := make([]float64, int(q[0]))
		ok := impl.Dsyev(job, uplo, n, z, n, w, work, len(work))
		verifAssert(ok, "Dsyev: converged")
		return
	}
	b1 := verifC03cMat(n1, n1, n1, 41*n1+1)
	verifC03cSym(n1, n1, b1)
	b2 := verifC03cMat(n2, n2, n2, 43*n2+2)
	verifC03cSym(n2, n2, b2)
	w1, _ := syev(lapack.EVNone, n1, b1)
	w2, _ := syev(lapack.EVNone, n2, b2)
	s1, s2 := math.Ldexp(1, x1), math.Ldexp(1, x2)
	big1 := math.Max(math.Abs(w1[0]), math.Abs(w1[n1-1]))
	big2 := math.Max(math.Abs(w2[0]), math.Abs(w2[n2-1]))

	n := n1 + n2
	a := make([]float64, n*n)
	for i := 0; i < n1; i++ {
		for j := 0; j < n1; j++ {
			a[i*n+j] = s1 * b1[i*n1+j]
		}
	}
	for i := 0; i < n2; i++ {
		for j := 0; j < n2; j++ {
			a[(n1+i)*n+n1+j] = s2 * b2[i*n2+j]
		}
	}
	type ev struct{ v, tol float64 }
	const rel = 1e-9
	var want []ev
	for _, x := range w1 {
		want = append(want, ev{s1 * x, rel * s1 * big1})
	}
	for _, x := range w2 {
		want = append(want, ev{s2 * x, rel * s2 * big2})
	}
	sort.Slice(want, func(i, j int) bool { return want[i].v < want[j].v })

	w, z := syev(jobz, n, a)
	ok := true
	for i := 0; i < n; i++ {
		ok = ok && math.Abs(w[i]-want[i].v) <= want[i].tol
		if i > 0 {
			ok = ok && w[i-1] <= w[i]
		}
	}
	verifAssert(ok, "Dsyev: the eigenvalues of diag(s1*B1, s2*B2) are the scaled eigenvalues of the blocks, each accurate relative to its block, ascending")
	if vecs {
		rowScale := func(i int) float64 {
			if i < n1 {
				return s1 * big1
			}
			return s2 * big2
		}
		ok = true
		for j := 0; j < n; j++ {
			nrm := 0.0
			for i := 0; i < n; i++ {
				r := -w[j] * z[i*n+j]
				for k := 0; k < n; k++ {
					r += a[i*n+k] * z[k*n+j]
				}
				ok = ok && math.Abs(r) <= rel*(rowScale(i)+math.Abs(w[j]))
				nrm += z[i*n+j] * z[i*n+j]
			}
			ok = ok && math.Abs(nrm-1) <= 1e-10
		}
		verifAssert(ok, "Dsyev: A*z = lambda*z row by row relative to the row's block, unit-norm eigenvectors")
	}
	verifReach("end")
}

// VerifC03_ConfigGradedSVD: the same graded block-diagonal construction for
// Dgesvd with general (non-symmetric) blocks: the singular values of
// diag(s1*B1, s2*B2) are the scaled singular values of the blocks. Dgebrd keeps
// the exact zero structure and Dbdsqr splits the bidiagonal at the exact zero,
// so each value is accurate relative to its own block; the singular vectors
// satisfy A*v = sigma*u row by row relative to the row's block.
func VerifC03_ConfigGradedSVD() {
	impl := Implementation{}
	n1 := verifChoose("n1", 1, verifParam("gradedn", 3))
	n2 := verifChoose("n2", 1, verifParam("gradedn", 3))
	exps := []int{-500, 0, 500}
	x1 := exps[verifChoose("exp1", 0, 2)]
	x2 := exps[verifChoose("exp2", 0, 2)]
	if x1 == x2 {
		return
	}
	vecs := verifChoose("vectors", 0, 1) == 1
	job := lapack.SVDNone
	if vecs {
		job = lapack.SVDAll
	}
	svd := func(job lapack.SVDJob, n int, a []float64) (sv, u, vt []float64) {
		sv = make([]float64, n)
		u, vt = make([]float64, n*n), make([]float64, n*n)
		q := make([]float64, 1)
		impl.Dgesvd(job, job, n, n, verifC03cClone(a), n, sv, u, n, vt, n, q, -1)
		work := make([]float64, int(q[0]))
		ok := impl.Dgesvd(job, job, n, n, verifC03cClone(a), n, sv, u, n, vt, n, work, len(work))
		verifAssert(ok, "Dgesvd: converged")
		return
	}
	b1 := verifC03cMat(n1, n1, n1, 47*n1+3)
	b2 := verifC03cMat(n2, n2, n2, 53*n2+4)
	sv1, _, _ := svd(lapack.SVDNone, n1, b1)
	sv2, _, _ := svd(lapack.SVDNone, n2, b2)
	s1, s2 := math.Ldexp(1, x1), math.Ldexp(1, x2)
	n := n1 + n2
	a := make([]float64, n*n)
	for i := 0; i < n1; i++ {
		for j := 0; j < n1; j++ {
			a[i*n+j] = s1 * b1[i*n1+j]
		}
	}
	for i := 0; i < n2; i++ {
		for j := 0; j < n2; j++ {
			a[(n1+i)*n+n1+j] = s2 * b2[i*n2+j]
		}
	}
	type sval struct{ v, tol float64 }
	const rel = 1e-9
	var want []sval
	for _, x := range sv1 {
		want = append(want, sval{s1 * x, rel * s1 * sv1[0]})
	}
	for _, x := range sv2 {
		want = append(want, sval{s2 * x, rel * s2 * sv2[0]})
	}
	sort.Slice(want, func(i, j int) bool { return want[i].v > want[j].v })
	sv, u, vt := svd(job, n, a)
	ok := true
	for i := 0; i < n; i++ {
		ok = ok && math.Abs(sv[i]-want[i].v) <= want[i].tol && sv[i] >= 0
		if i > 0 {
			ok = ok && sv[i-1] >= sv[i]
		}
	}
	verifAssert(ok, "Dgesvd: the singular values of diag(s1*B1, s2*B2) are the scaled singular values of the blocks, each accurate relative to its block, descending")
	if vecs {
		rowScale := func(i int) float64 {
			if i < n1 {
				return s1 * sv1[0]
			}
			return s2 * sv2[0]
		}
		ok = true
		for j := 0; j < n; j++ {
			// A * v_j = sigma_j * u_j, v_j = row j of vt
			nu, nv := 0.0, 0.0
			for i := 0; i < n; i++ {
				r := -sv[j] * u[i*n+j]
				for k := 0; k < n; k++ {
					r += a[i*n+k] * vt[j*n+k]
				}
				ok = ok && math.Abs(r) <= rel*(rowScale(i)+sv[j])
				nu += u[i*n+j] * u[i*n+j]
				nv += vt[j*n+i] * vt[j*n+i]
			}
			ok = ok && math.Abs(nu-1) <= 1e-10 && math.Abs(nv-1) <= 1e-10
		}
		verifAssert(ok, "Dgesvd: A*v = sigma*u row by row relative to the row's block, unit-norm singular vectors")
	}
	verifReach("end")
}

// VerifC03_ConfigGradedGeev: the graded block-diagonal construction for Dgeev
// (the non-symmetric path: Dgebal, Dgehrd, Dhseqr/Dlahqr, Dtrevc3) with
// symmetric blocks, so that all eigenvalues are real and known from Dsyev on
// the unscaled blocks: wi = 0 up to rounding relative to the block, wr is the
// union of the scaled block eigenvalues (order unspecified: compared sorted),
// right eigenvectors satisfy A*v = lambda*v row by row relative to the block.
func VerifC03_ConfigGradedGeev() {
	impl := Implementation{}
	n1 := verifChoose("n1", 2, verifParam("gradedn", 3))
	n2 := verifChoose("n2", 2, verifParam("gradedn", 3))
	exps := []int{-500, 0, 500}
	x1 := exps[verifChoose("exp1", 0, 2)]
	x2 := exps[verifChoose("exp2", 0, 2)]
	if x1 == x2 {
		return
	}
	vecs := verifChoose("vectors", 0, 1) == 1
	jobvr := lapack.RightEVNone
	if vecs {
		jobvr = lapack.RightEVCompute
	}
	eig := func(n int, b []float64) []float64 {
		w := make([]float64, n)
		q := make([]float64, 1)
		impl.Dsyev(lapack.EVNone, blas.Upper, n, verifC03cClone(b), n, w, q, -1)
		work := make([]float64, int(q[0]))
		ok := impl.Dsyev(lapack.EVNone, blas.Upper, n, verifC03cClone(b), n, w, work, len(work))
		verifAssert(ok, "Dsyev: converged")
		return w
	}
	b1 := verifC03cMat(n1, n1, n1, 59*n1+5)
	verifC03cSym(n1, n1, b1)
	b2 := verifC03cMat(n2, n2, n2, 61*n2+6)
	verifC03cSym(n2, n2, b2)
	w1, w2 := eig(n1, b1), eig(n2, b2)
	s1, s2 := math.Ldexp(1, x1), math.Ldexp(1, x2)
	big1 := math.Max(math.Abs(w1[0]), math.Abs(w1[n1-1]))
	big2 := math.Max(math.Abs(w2[0]), math.Abs(w2[n2-1]))
	n := n1 + n2
	a := make([]float64, n*n)
	for i := 0; i < n1; i++ {
		for j := 0; j < n1; j++ {
			a[i*n+j] = s1 * b1[i*n1+j]
		}
	}
	for i := 0; i < n2; i++ {
		for j := 0; j < n2; j++ {
			a[(n1+i)*n+n1+j] = s2 * b2[i*n2+j]
		}
	}
	type ev struct{ v, tol float64 }
	const rel = 1e-9
	var want []ev
	for _, x := range w1 {
		want = append(want, ev{s1 * x, rel * s1 * big1})
	}
	for _, x := range w2 {
		want = append(want, ev{s2 * x, rel * s2 * big2})
	}
	sort.Slice(want, func(i, j int) bool { return want[i].v < want[j].v })

	wr, wi := make([]float64, n), make([]float64, n)
	vr := make([]float64, n*n)
	q := make([]float64, 1)
	impl.Dgeev(lapack.LeftEVNone, jobvr, n, verifC03cClone(a), n, wr, wi, nil, 1, vr, n, q, -1)
	work := make([]float64, int(q[0]))
	first := impl.Dgeev(lapack.LeftEVNone, jobvr, n, verifC03cClone(a), n, wr, wi, nil, 1, vr, n, work, len(work))
	verifAssert(first == 0, "Dgeev: converged")
	idx := make([]int, n)
	for i := range idx {
		idx[i] = i
	}
	sort.Slice(idx, func(i, j int) bool { return wr[idx[i]] < wr[idx[j]] })
	ok := true
	for k := 0; k < n; k++ {
		i := idx[k]
		ok = ok && math.Abs(wr[i]-want[k].v) <= want[k].tol && math.Abs(wi[i]) <= want[k].tol
	}
	verifAssert(ok, "Dgeev: the eigenvalues of diag(s1*B1, s2*B2) with symmetric blocks are real and equal the scaled eigenvalues of the blocks, each accurate relative to its block")
	if vecs && ok {
		rowScale := func(i int) float64 {
			if i < n1 {
				return s1 * big1
			}
			return s2 * big2
		}
		good := true
		for j := 0; j < n; j++ {
			if wi[j] != 0 {
				continue // a rounding-level complex pair: vectors stored as a pair, not checked here
			}
			nrm := 0.0
			for i := 0; i < n; i++ {
				r := -wr[j] * vr[i*n+j]
				for k := 0; k < n; k++ {
					r += a[i*n+k] * vr[k*n+j]
				}
				good = good && math.Abs(r) <= rel*(rowScale(i)+math.Abs(wr[j]))
				nrm += vr[i*n+j] * vr[i*n+j]
			}
			good = good && math.Abs(nrm-1) <= 1e-10
		}
		verifAssert(good, "Dgeev: A*v = lambda*v row by row relative to the row's block, unit-norm right eigenvectors")
	}
	verifReach("end")
}
