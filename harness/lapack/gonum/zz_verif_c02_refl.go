package gonum

import (
	"gonum.org/v1/gonum/blas"
	"gonum.org/v1/gonum/lapack"
)

func verifC02side(name string) blas.Side {
	if verifChoose(name, 0, 1) == 0 {
		return blas.Left
	}
	return blas.Right
}

// verifC02applyH overwrites the m x n matrix c with (I - tau*v*v^T)*c (Left) or
// c*(I - tau*v*v^T) (Right), straight from the definition.
func verifC02applyH(side blas.Side, m, n int, c []float64, ldc int, v []float64, tau float64) {
	old := verifC02clone(c)
	for i := 0; i < m; i++ {
		for j := 0; j < n; j++ {
			var s float64
			if side == blas.Left {
				// sum_r (delta_ir - tau v_i v_r) c[r][j]
				for r := 0; r < m; r++ {
					h := -tau * v[i] * v[r]
					if r == i {
						h += 1
					}
					s += h * old[r*ldc+j]
				}
			} else {
				for r := 0; r < n; r++ {
					h := -tau * v[r] * v[j]
					if r == j {
						h += 1
					}
					s += old[i*ldc+r] * h
				}
			}
			c[i*ldc+j] = s
		}
	}
}

// VerifC02_Dlarf: C := H*C or C*H with H = I - tau*v*v^T for arbitrary v, tau
// (including zero entries, which drive the lastv/lastc scans), incv in {1,2}.
func VerifC02_Dlarf() { verifC02dlarf(verifChoose("incv", 1, 2)) }

// VerifC02_DlarfNegIncv: the same for incv in {-1,-2} (admitted by the argument
// checks; BLAS convention: element i at (n-1-i)*|incv|). This harness found finding F6 (fixed in /repo 0f4d828), see notes/C02.md.
func VerifC02_DlarfNegIncv() { verifC02dlarf(-verifChoose("negincv", 1, 2)) }

func verifC02dlarf(incv int) {
	maxN := verifParam("larfn", 3)
	m := verifChoose("m", 0, maxN)
	n := verifChoose("n", 0, maxN)
	side := verifC02side("side")
	ldc := verifC02ld("ldcPad", n)
	lenV := n
	lenW := m
	if side == blas.Left {
		lenV, lenW = m, n
	}
	ainc := incv
	if ainc < 0 {
		ainc = -ainc
	}
	nv := 0
	if lenV > 0 {
		nv = 1 + (lenV-1)*ainc
	}
	v := verifFloats("v", nv)
	tau := verifFloat("tau")
	c := verifC02mat("c", m, n, ldc)
	work := verifFloats("work", lenW)
	v0, c0 := verifC02clone(v), verifC02clone(c)
	Implementation{}.Dlarf(side, m, n, v, incv, tau, c, ldc, work)
	verifC02sameAll(v, v0, "Dlarf: v unchanged")
	verifC02samePad(c, c0, m, n, ldc, "Dlarf: padding of C untouched")
	// logical v
	lv := make([]float64, lenV)
	for i := 0; i < lenV; i++ {
		if incv > 0 {
			lv[i] = v0[i*incv]
		} else {
			lv[i] = v0[(lenV-1-i)*(-incv)]
		}
	}
	want := verifC02clone(c0)
	verifC02applyH(side, m, n, want, ldc, lv, tau)
	for i := 0; i < m; i++ {
		for j := 0; j < n; j++ {
			verifAssertEqF(c[i*ldc+j], want[i*ldc+j], "Dlarf: C == (I - tau v v^T) C resp. C (I - tau v v^T)")
		}
	}
	verifReach("end")
}

// verifC02reflVec extracts reflector i (length nv) from V for the four
// (direct, store) layouts documented at Dlarfb: implicit 1 and 0 entries.
func verifC02reflVec(direct lapack.Direct, store lapack.StoreV, nv, k int, v []float64, ldv, i int) []float64 {
	out := make([]float64, nv)
	el := func(r int) float64 {
		if store == lapack.ColumnWise {
			return v[r*ldv+i]
		}
		return v[i*ldv+r]
	}
	one := i
	if direct == lapack.Backward {
		one = nv - k + i
	}
	for r := 0; r < nv; r++ {
		switch {
		case r == one:
			out[r] = 1
		case direct == lapack.Forward && r > one, direct == lapack.Backward && r < one:
			out[r] = el(r)
		}
	}
	return out
}

// VerifC02_DlarftDlarfb: the block reflector formed by Dlarft and applied by
// Dlarfb equals the documented product of the individual reflectors
// H_i = I - tau_i v_i v_i^T, for arbitrary V and tau.
func VerifC02_DlarftDlarfb() {
	maxN := verifParam("larfbn", 3)
	m := verifChoose("m", 1, maxN)
	n := verifChoose("n", 1, maxN)
	side := verifC02side("side")
	trans := blas.NoTrans
	if verifChoose("trans", 0, 1) == 1 {
		trans = blas.Trans
	}
	direct := lapack.Forward
	if verifChoose("direct", 0, 1) == 1 {
		direct = lapack.Backward
	}
	store := lapack.ColumnWise
	if verifChoose("store", 0, 1) == 1 {
		store = lapack.RowWise
	}
	nv, nw := m, n
	if side == blas.Right {
		nv, nw = n, m
	}
	k := verifChoose("k", 1, verifC02min(nv, verifParam("larfbk", 2)))
	pad := verifChoose("pad", 0, 1)
	var ldv int
	var v []float64
	// vslack extra rows of storage behind V (default 0: exactly the minimal
	// admissible length; before the fix of finding F7 Dlarft(Forward, ColumnWise)
	// faulted on that when k == nv, see VerifC02_DlarftExactV).
	vslack := verifParam("vslack", 0)
	if store == lapack.ColumnWise {
		ldv = k + pad
		v = verifC02mat("v", nv+vslack, k, ldv)
	} else {
		ldv = nv + pad
		v = verifC02mat("v", k+vslack, nv, ldv)
	}
	tau := verifFloats("tau", k)
	ldt := k + pad
	t := verifC02mat("t", k, k, ldt)
	ldc := n + pad
	c := verifC02mat("c", m, n, ldc)
	ldwork := k + pad
	work := verifC02mat("work", nw, k, ldwork)
	v0, c0, tau0 := verifC02clone(v), verifC02clone(c), verifC02clone(tau)

	Implementation{}.Dlarft(direct, store, nv, k, v, ldv, tau, t, ldt)
	verifC02sameAll(v, v0, "Dlarft: V unchanged")
	verifC02sameAll(tau, tau0, "Dlarft: tau unchanged")
	t1 := verifC02clone(t)
	Implementation{}.Dlarfb(side, trans, direct, store, m, n, k, v, ldv, t, ldt, c, ldc, work, ldwork)
	verifC02sameAll(v, v0, "Dlarfb: V unchanged")
	verifC02sameAll(t, t1, "Dlarfb: T unchanged")
	verifC02samePad(c, c0, m, n, ldc, "Dlarfb: padding of C untouched")

	// product order of the factors of op(H)
	order := make([]int, k)
	fwdProduct := (direct == lapack.Forward) == (trans == blas.NoTrans)
	for i := 0; i < k; i++ {
		if fwdProduct {
			order[i] = i
		} else {
			order[i] = k - 1 - i
		}
	}
	want := verifC02clone(c0)
	for s := 0; s < k; s++ {
		// Left: op(H)*C applies the last factor first; Right: C*op(H) applies the first factor first.
		i := order[s]
		if side == blas.Left {
			i = order[k-1-s]
		}
		verifC02applyH(side, m, n, want, ldc, verifC02reflVec(direct, store, nv, k, v0, ldv, i), tau0[i])
	}
	for i := 0; i < m; i++ {
		for j := 0; j < n; j++ {
			verifAssertEqF(c[i*ldc+j], want[i*ldc+j], "Dlarft+Dlarfb: C == op(H_.. * .. * H_..) applied as documented")
		}
	}
	verifReach("end")
}

// VerifC02_Dorg2r: Q = H_0*...*H_{k-1} restricted to its first n columns, arbitrary reflectors.
func VerifC02_Dorg2r() {
	maxN := verifParam("orgn", 3)
	m := verifChoose("m", 0, maxN)
	n := verifChoose("n", 0, m)
	k := verifChoose("k", 0, n)
	lda := verifC02ld("ldaPad", n)
	a := verifC02mat("a", m, n, lda)
	tau := verifFloats("tau", k)
	work := verifFloats("work", n)
	a0, tau0 := verifC02clone(a), verifC02clone(tau)
	Implementation{}.Dorg2r(m, n, k, a, lda, tau, work)
	verifC02sameAll(tau, tau0, "Dorg2r: tau unchanged")
	verifC02samePad(a, a0, m, n, lda, "Dorg2r: padding untouched")
	want := make([]float64, len(a))
	for i := 0; i < m && i < n; i++ {
		want[i*lda+i] = 1
	}
	for i := k - 1; i >= 0; i-- {
		verifC02applyH(blas.Left, m, n, want, lda, verifC02reflVec(lapack.Forward, lapack.ColumnWise, m, k, a0, lda, i), tau0[i])
	}
	for i := 0; i < m; i++ {
		for j := 0; j < n; j++ {
			verifAssertEqF(a[i*lda+j], want[i*lda+j], "Dorg2r: Q == (H_0 ... H_{k-1})[:, :n]")
		}
	}
	verifReach("end")
}

// VerifC02_Dorm2r: C := op(Q)*C or C*op(Q), Q = H_0*...*H_{k-1}, arbitrary reflectors.
func VerifC02_Dorm2r() {
	maxN := verifParam("ormn", 3)
	m := verifChoose("m", 0, maxN)
	n := verifChoose("n", 0, maxN)
	side := verifC02side("side")
	trans := blas.NoTrans
	if verifChoose("trans", 0, 1) == 1 {
		trans = blas.Trans
	}
	nq, nw := m, n
	if side == blas.Right {
		nq, nw = n, m
	}
	k := verifChoose("k", 0, verifC02min(nq, verifParam("ormk", 2)))
	lda := verifC02ld("ldaPad", k)
	ldc := verifC02ld("ldcPad", n)
	a := verifC02mat("a", nq, k, lda)
	tau := verifFloats("tau", k)
	c := verifC02mat("c", m, n, ldc)
	work := verifFloats("work", nw)
	a0, tau0, c0 := verifC02clone(a), verifC02clone(tau), verifC02clone(c)
	Implementation{}.Dorm2r(side, trans, m, n, k, a, lda, tau, c, ldc, work)
	verifC02sameAll(a, a0, "Dorm2r: A restored")
	verifC02sameAll(tau, tau0, "Dorm2r: tau unchanged")
	verifC02samePad(c, c0, m, n, ldc, "Dorm2r: padding of C untouched")
	want := verifC02clone(c0)
	for s := 0; s < k; s++ {
		// op(Q) = H_0..H_{k-1} (NoTrans) or H_{k-1}..H_0 (Trans)
		first := s // index in product order applied at step s
		if side == blas.Left {
			first = k - 1 - s
		}
		i := first
		if trans == blas.Trans {
			i = k - 1 - first
		}
		verifC02applyH(side, m, n, want, ldc, verifC02reflVec(lapack.Forward, lapack.ColumnWise, nq, k, a0, lda, i), tau0[i])
	}
	for i := 0; i < m; i++ {
		for j := 0; j < n; j++ {
			verifAssertEqF(c[i*ldc+j], want[i*ldc+j], "Dorm2r: C == op(Q) C resp. C op(Q)")
		}
	}
	verifReach("end")
}

// VerifC02_DlarftExactV: Dlarft with V, tau, T of exactly the minimal admissible
// lengths must not fault (index/slice out of range) and must give T such that
// I - V*T*V^T (resp. I - V^T*T*V) equals the documented product of reflectors.
// This harness found finding F7 (Forward/ColumnWise, k == n; fixed in /repo f174302), see notes/C02.md.
func VerifC02_DlarftExactV() {
	n := verifChoose("n", 1, verifParam("larftn", 3))
	k := verifChoose("k", 1, verifC02min(n, 2))
	direct := lapack.Forward
	if verifChoose("direct", 0, 1) == 1 {
		direct = lapack.Backward
	}
	store := lapack.ColumnWise
	if verifChoose("store", 0, 1) == 1 {
		store = lapack.RowWise
	}
	pad := verifChoose("pad", 0, 1)
	var ldv int
	var v []float64
	if store == lapack.ColumnWise {
		ldv = k + pad
		v = verifC02mat("v", n, k, ldv)
	} else {
		ldv = n + pad
		v = verifC02mat("v", k, n, ldv)
	}
	tau := verifFloats("tau", k)
	ldt := k + pad
	t := verifC02mat("t", k, k, ldt)
	v0, tau0 := verifC02clone(v), verifC02clone(tau)
	panicked, fault, _ := verifCatch(func() { Implementation{}.Dlarft(direct, store, n, k, v, ldv, tau, t, ldt) })
	verifAssert(!fault, "Dlarft: no runtime fault for arguments of minimal admissible length")
	verifAssert(!panicked, "Dlarft: admissible arguments do not panic")
	if panicked {
		return
	}
	verifC02sameAll(v, v0, "Dlarft: V unchanged")
	// H = I - sum_{a,b} T[a][b] v_a v_b^T over the referenced triangle of T
	h := make([]float64, n*n)
	for a := 0; a < k; a++ {
		va := verifC02reflVec(direct, store, n, k, v0, ldv, a)
		for b := 0; b < k; b++ {
			if (direct == lapack.Forward && a > b) || (direct == lapack.Backward && a < b) {
				continue
			}
			vb := verifC02reflVec(direct, store, n, k, v0, ldv, b)
			for i := 0; i < n; i++ {
				for j := 0; j < n; j++ {
					h[i*n+j] -= t[a*ldt+b] * va[i] * vb[j]
				}
			}
		}
	}
	for i := 0; i < n; i++ {
		h[i*n+i] += 1
	}
	// product H_0*...*H_{k-1} (Forward) or H_{k-1}*...*H_0 (Backward), built by left-multiplying I
	want := make([]float64, n*n)
	for i := 0; i < n; i++ {
		want[i*n+i] = 1
	}
	for s := 0; s < k; s++ {
		i := k - 1 - s // Forward: H_{k-1} is applied to I first
		if direct == lapack.Backward {
			i = s
		}
		verifC02applyH(blas.Left, n, n, want, n, verifC02reflVec(direct, store, n, k, v0, ldv, i), tau0[i])
	}
	for i := range h {
		verifAssertEqF(h[i], want[i], "Dlarft: I - V*T*V^T == product of the elementary reflectors")
	}
	verifReach("end")
}
