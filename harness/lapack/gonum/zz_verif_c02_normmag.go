package gonum

import (
	"math"

	"gonum.org/v1/gonum/blas"
	"gonum.org/v1/gonum/lapack"
)

// C02, extreme magnitudes of the matrix-norm routines: every norm is
// absolutely homogeneous, and the Frobenius norms are computed with the scaled
// sum of squares (Dlassq) precisely so that they neither overflow nor
// underflow: norm(s*A) = s*norm(A) for exact power-of-two factors 2^±500..
// whose squares over/underflow. Concrete data (non-unit triangles), every norm
// kind, general / Hessenberg / symmetric / triangular / tridiagonal / band
// storage.
func VerifC02_NormMagnitude() {
	impl := Implementation{}
	n := verifChoose("n", 1, verifParam("nmagn", 3))
	norm := []lapack.MatrixNorm{lapack.MaxAbs, lapack.MaxColumnSum, lapack.MaxRowSum, lapack.Frobenius}[verifChoose("norm", 0, 3)]
	s := []float64{math.Ldexp(1, 500), math.Ldexp(1, -500), math.Ldexp(1, 520), math.Ldexp(1, -530)}[verifChoose("scale", 0, 3)]
	uplo := []blas.Uplo{blas.Upper, blas.Lower}[verifChoose("uplo", 0, 1)]
	a := verifC03cMat(n, n, n, 73*n+7)
	verifC03cSym(n, n, a)
	as := verifC03cClone(a)
	for i := range as {
		as[i] *= s
	}
	work := make([]float64, 2*n+2)
	close := func(got, want float64) bool { return math.Abs(got-want) <= 1e-12*want && !math.IsInf(got, 0) }
	kind := verifChoose("kind", 0, 5)
	var v, vs float64
	name := ""
	switch kind {
	case 0:
		name = "Dlange"
		v, vs = impl.Dlange(norm, n, n, a, n, work), impl.Dlange(norm, n, n, as, n, work)
	case 1:
		name = "Dlansy"
		v, vs = impl.Dlansy(norm, uplo, n, a, n, work), impl.Dlansy(norm, uplo, n, as, n, work)
	case 2:
		name = "Dlantr"
		v, vs = impl.Dlantr(norm, uplo, blas.NonUnit, n, n, a, n, work), impl.Dlantr(norm, uplo, blas.NonUnit, n, n, as, n, work)
	case 3:
		name = "Dlanhs"
		v, vs = impl.Dlanhs(norm, n, a, n, work), impl.Dlanhs(norm, n, as, n, work)
	case 4:
		name = "Dlanst"
		d, e := make([]float64, n), make([]float64, n)
		ds, es := make([]float64, n), make([]float64, n)
		for i := 0; i < n; i++ {
			d[i], ds[i] = a[i*n+i], as[i*n+i]
			if i+1 < n {
				e[i], es[i] = a[i*n+i+1], as[i*n+i+1]
			}
		}
		v, vs = impl.Dlanst(norm, n, d, e[:n-1]), impl.Dlanst(norm, n, ds, es[:n-1])
	case 5:
		name = "Dlangt"
		d, du, dl := make([]float64, n), make([]float64, n), make([]float64, n)
		ds, dus, dls := make([]float64, n), make([]float64, n), make([]float64, n)
		for i := 0; i < n; i++ {
			d[i], ds[i] = a[i*n+i], as[i*n+i]
			if i+1 < n {
				du[i], dus[i] = a[i*n+i+1], as[i*n+i+1]
				dl[i], dls[i] = a[(i+1)*n+i]+0.5, s*(a[(i+1)*n+i]+0.5)
			}
		}
		v, vs = impl.Dlangt(norm, n, dl[:n-1], d, du[:n-1]), impl.Dlangt(norm, n, dls[:n-1], ds, dus[:n-1])
	}
	verifAssert(v > 0, name+": the norm of a non-zero matrix is positive")
	verifAssert(close(vs, s*v), name+": norm(s*A) = s*norm(A) for a power of two whose square over/underflows")
	verifReach("end")
}
