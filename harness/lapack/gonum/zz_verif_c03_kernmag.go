package gonum

import "math"

// C03, extreme magnitudes of the 2x2 kernels beneath the eigenvalue and SVD
// drivers. Each is documented (or designed, following the reference) to be
// safe against overflow/underflow of intermediate squares; all are
// homogeneous: scaling the arguments by an exact power of two s scales the
// values by s and leaves the rotations unchanged. Concrete arguments drawn
// from a small grid (signs, zero, dominance either way), s = 2^±500.. .
func VerifC03_KernelMagnitude() {
	impl := Implementation{}
	vals := []float64{3, -2, 0.5, 0, -7, 1}
	f := vals[verifChoose("f", 0, len(vals)-1)]
	g := vals[verifChoose("g", 0, len(vals)-1)]
	h := vals[verifChoose("h", 0, len(vals)-1)]
	s := []float64{math.Ldexp(1, 500), math.Ldexp(1, -500), math.Ldexp(1, 510), math.Ldexp(1, -505)}[verifChoose("scale", 0, 3)]
	closeS := func(got, want float64) bool { // value that scales with s
		return math.Abs(got-s*want) <= 1e-12*s*(math.Abs(want)+math.Abs(f)+math.Abs(g)+math.Abs(h)) && !math.IsInf(got, 0) && !math.IsNaN(got)
	}
	close1 := func(got, want float64) bool { return math.Abs(got-want) <= 1e-12 }
	switch verifChoose("kernel", 0, 6) {
	case 0:
		cs, sn, r := impl.Dlartg(f, g)
		cs2, sn2, r2 := impl.Dlartg(s*f, s*g)
		verifAssert(close1(cs*f+sn*g, r) && close1(-sn*f+cs*g, 0) && close1(cs*cs+sn*sn, 1), "Dlartg: [cs sn; -sn cs]*[f; g] = [r; 0]")
		verifAssert(close1(cs2, cs) && close1(sn2, sn) && closeS(r2, r), "Dlartg(s*f, s*g) = (cs, sn, s*r)")
	case 1:
		verifAssert(close1(impl.Dlapy2(f, g), math.Sqrt(f*f+g*g)), "Dlapy2 = sqrt(x^2+y^2)")
		verifAssert(closeS(impl.Dlapy2(s*f, s*g), impl.Dlapy2(f, g)), "Dlapy2(s*x, s*y) = s*Dlapy2(x, y)")
	case 2:
		rt1, rt2 := impl.Dlae2(f, g, h)
		verifAssert(close1(rt1+rt2, f+h) && math.Abs(rt1*rt2-(f*h-g*g)) <= 1e-10 && math.Abs(rt1) >= math.Abs(rt2), "Dlae2: trace, determinant, |rt1| >= |rt2|")
		a1, a2 := impl.Dlae2(s*f, s*g, s*h)
		verifAssert(closeS(a1, rt1) && closeS(a2, rt2), "Dlae2(s*a, s*b, s*c) = s*Dlae2(a, b, c)")
	case 3:
		rt1, rt2, cs1, sn1 := impl.Dlaev2(f, g, h)
		a1, a2, c2, s2 := impl.Dlaev2(s*f, s*g, s*h)
		verifAssert(close1(cs1*cs1+sn1*sn1, 1) && math.Abs(f*cs1+g*sn1-rt1*cs1) <= 1e-10 && math.Abs(g*cs1+h*sn1-rt1*sn1) <= 1e-10, "Dlaev2: (cs1, sn1) is a unit eigenvector for rt1")
		verifAssert(closeS(a1, rt1) && closeS(a2, rt2) && close1(c2, cs1) && close1(s2, sn1), "Dlaev2 scaled: values scale, the eigenvector does not change")
	case 4:
		mn, mx := impl.Dlas2(f, g, h)
		verifAssert(mn >= 0 && mx >= mn && math.Abs(mn*mx-math.Abs(f*h)) <= 1e-10 && math.Abs(mn*mn+mx*mx-(f*f+g*g+h*h)) <= 1e-9, "Dlas2: singular values of [f g; 0 h]")
		a1, a2 := impl.Dlas2(s*f, s*g, s*h)
		verifAssert(closeS(a1, mn) && closeS(a2, mx), "Dlas2 scaled")
	case 5:
		mn, mx, snr, csr, snl, csl := impl.Dlasv2(f, g, h)
		verifAssert(close1(csr*csr+snr*snr, 1) && close1(csl*csl+snl*snl, 1) && math.Abs(math.Abs(mn)*math.Abs(mx)-math.Abs(f*h)) <= 1e-10, "Dlasv2: rotations are orthogonal, |ssmin*ssmax| = |f*h|")
		// [csl snl; -snl csl] * [f g; 0 h] * [csr -snr; snr csr] = diag(ssmax, ssmin)
		m00 := csl*f*csr + (csl*g+snl*h)*snr
		m11 := snl*f*snr + (-snl*g+csl*h)*csr
		m01 := -csl*f*snr + (csl*g+snl*h)*csr
		m10 := -snl*f*csr + (-snl*g+csl*h)*snr
		verifAssert(math.Abs(m00-mx) <= 1e-10 && math.Abs(m11-mn) <= 1e-10 && math.Abs(m01) <= 1e-10 && math.Abs(m10) <= 1e-10, "Dlasv2: the rotations diagonalise [f g; 0 h] to diag(ssmax, ssmin)")
		a1, a2, b1, b2, b3, b4 := impl.Dlasv2(s*f, s*g, s*h)
		verifAssert(closeS(a1, mn) && closeS(a2, mx) && close1(b1, snr) && close1(b2, csr) && close1(b3, snl) && close1(b4, csl), "Dlasv2 scaled: values scale, rotations do not change")
	case 6:
		d := vals[verifChoose("d", 0, len(vals)-1)]
		a, b, c := f, g, h
		// check runs Dlanv2 on t*(a, b, c, d) and verifies the returned Schur
		// form against the input, relative to t; it returns the eigenvalues
		// divided by t with the real parts in ascending order. (Which of two
		// real eigenvalues comes first is not specified and does depend on the
		// magnitude of the input: the real/complex decision uses an absolute
		// threshold, as in the reference.)
		check := func(t float64, who string) (r1, i1, r2, i2 float64) {
			aa, bb, cc, dd, rt1r, rt1i, rt2r, rt2i, cs, sn := impl.Dlanv2(t*a, t*b, t*c, t*d)
			t00, t01 := cs*aa-sn*cc, cs*bb-sn*dd
			t10, t11 := sn*aa+cs*cc, sn*bb+cs*dd
			tol := 1e-12 * t * (math.Abs(a) + math.Abs(b) + math.Abs(c) + math.Abs(d) + 1)
			verifAssert(math.Abs(t00*cs-t01*sn-t*a) <= tol && math.Abs(t00*sn+t01*cs-t*b) <= tol && math.Abs(t10*cs-t11*sn-t*c) <= tol && math.Abs(t10*sn+t11*cs-t*d) <= tol && close1(cs*cs+sn*sn, 1), who+": the rotation maps the input to the returned Schur form")
			verifAssert(cc == 0 || (aa == dd && bb*cc < 0), who+": standardised form: cc = 0, or aa = dd with bb*cc < 0")
			verifAssert(rt1r == aa && rt2r == dd && rt1i == -rt2i && (cc == 0) == (rt1i == 0) && !math.IsNaN(aa+bb+cc+dd) && !math.IsInf(aa+bb+cc+dd, 0), who+": eigenvalues reported from the diagonal, conjugate pair iff cc != 0, all finite")
			r1, i1, r2, i2 = rt1r/t, rt1i/t, rt2r/t, rt2i/t
			if r1 > r2 {
				r1, i1, r2, i2 = r2, i2, r1, i1
			}
			return
		}
		r1, i1, r2, i2 := check(1, "Dlanv2")
		q1, j1, q2, j2 := check(s, "Dlanv2 (scaled)")
		etol := 1e-7 * (math.Abs(a) + math.Abs(b) + math.Abs(c) + math.Abs(d) + 1) // a double eigenvalue is only sqrt(eps)-accurate
		verifAssert(math.Abs(q1-r1) <= etol && math.Abs(q2-r2) <= etol && math.Abs(math.Abs(j1)-math.Abs(i1)) <= etol && math.Abs(math.Abs(j2)-math.Abs(i2)) <= etol, "Dlanv2 scaled: the eigenvalues of s*M are s times those of M")
	}
	verifReach("end")
}
