package gonum

import (
	"math"

	"gonum.org/v1/gonum/blas"
	"gonum.org/v1/gonum/lapack"
)

// C03, configuration harnesses: CONCRETE well-conditioned matrices, the
// CONFIGURATION (job flags, shape, leading dimensions: case-split; workspace
// length lwork: symbolic, or case-split over the thresholds where stated) is
// what is quantified over. All float data is concrete on every path, so the
// iterative numerics run natively inside the interpreter and the documented
// identities are compared with a tolerance.

const verifC03cTol = 1e-10

// verifC03cRand is a small LCG; values are multiples of 1/16 in (-4, 4).
type verifC03cRand struct{ x uint32 }

func (r *verifC03cRand) next() float64 {
	r.x = r.x*1664525 + 1013904223
	return float64(int(r.x>>16)%127-63) / 16
}

// verifC03cMat returns a rows x cols matrix with leading dimension ld of
// exactly the minimal length; padding cells hold recognisable sentinels.
func verifC03cMat(rows, cols, ld, seed int) []float64 {
	if rows <= 0 || cols <= 0 {
		return []float64{}
	}
	r := verifC03cRand{uint32(seed)*2654435761 + 977}
	a := make([]float64, (rows-1)*ld+cols)
	for i := range a {
		a[i] = 7e7 + float64(i)
	}
	for i := 0; i < rows; i++ {
		for j := 0; j < cols; j++ {
			a[i*ld+j] = r.next()
		}
	}
	return a
}

// verifC03cSym makes the matrix symmetric (upper triangle mirrored).
func verifC03cSym(n, ld int, a []float64) {
	for i := 0; i < n; i++ {
		for j := 0; j < i; j++ {
			a[i*ld+j] = a[j*ld+i]
		}
	}
}

// verifC03cBlank returns storage for a rows x cols result, all sentinels.
func verifC03cBlank(rows, cols, ld int, tag float64) []float64 {
	n := 1
	if rows > 0 && cols > 0 {
		n = (rows-1)*ld + cols
	}
	a := make([]float64, n)
	for i := range a {
		a[i] = tag + float64(i)
	}
	return a
}

func verifC03cClone(a []float64) []float64 { return append([]float64(nil), a...) }

// verifC03cRepack copies the rows x cols matrix a (stride lda) to stride ldb storage.
func verifC03cRepack(rows, cols int, a []float64, lda, ldb int) []float64 {
	b := verifC03cBlank(rows, cols, ldb, 3e7)
	for i := 0; i < rows; i++ {
		for j := 0; j < cols; j++ {
			b[i*ldb+j] = a[i*lda+j]
		}
	}
	return b
}

// verifC03cPadSame: the cells between columns cols..ld-1 are bit-identical to a0.
func verifC03cPadSame(rows, cols, ld int, a, a0 []float64, msg string) {
	ok := len(a) == len(a0)
	for i := 0; i+1 < rows; i++ {
		for j := cols; j < ld; j++ {
			if math.Float64bits(a[i*ld+j]) != math.Float64bits(a0[i*ld+j]) {
				ok = false
			}
		}
	}
	verifAssert(ok, msg)
}

func verifC03cAllSame(a, a0 []float64, msg string) {
	ok := len(a) == len(a0)
	for i := range a {
		if math.Float64bits(a[i]) != math.Float64bits(a0[i]) {
			ok = false
		}
	}
	verifAssert(ok, msg)
}

// verifC03cMaxAbs is max |a[i][j]|.
func verifC03cMaxAbs(rows, cols int, a []float64, ld int) float64 {
	mx := 0.0
	for i := 0; i < rows; i++ {
		for j := 0; j < cols; j++ {
			if v := math.Abs(a[i*ld+j]); v > mx || v != v {
				mx = v
			}
		}
	}
	return mx
}

// verifC03cMul returns the dense product op(A)*op(B) (row major, tight stride):
// A is ra x ca (stride lda) before op, B is rb x cb (stride ldb) before op.
func verifC03cMul(ta bool, ra, ca int, a []float64, lda int, tb bool, rb, cb int, b []float64, ldb int) (c []float64, m, n int) {
	m, k := ra, ca
	if ta {
		m, k = ca, ra
	}
	n = cb
	if tb {
		n = rb
	}
	// x = op(A) as m x k, y = op(B)ᵀ as n x k, both tight.
	x, y := make([]float64, m*k), make([]float64, n*k)
	for i := 0; i < ra; i++ {
		for j := 0; j < ca; j++ {
			if ta {
				x[j*k+i] = a[i*lda+j]
			} else {
				x[i*k+j] = a[i*lda+j]
			}
		}
	}
	for i := 0; i < rb; i++ {
		for j := 0; j < cb; j++ {
			if tb {
				y[i*k+j] = b[i*ldb+j]
			} else {
				y[j*k+i] = b[i*ldb+j]
			}
		}
	}
	c = make([]float64, m*n)
	for i := 0; i < m; i++ {
		xi := x[i*k : i*k+k]
		for j := 0; j < n; j++ {
			yj := y[j*k : j*k+k]
			s := 0.0
			for l, v := range xi {
				s += v * yj[l]
			}
			c[i*n+j] = s
		}
	}
	return c, m, n
}

// verifC03cDist is max |a - b| over rows x cols (NaN propagates as +Inf).
func verifC03cDist(rows, cols int, a []float64, lda int, b []float64, ldb int) float64 {
	mx := 0.0
	for i := 0; i < rows; i++ {
		for j := 0; j < cols; j++ {
			d := math.Abs(a[i*lda+j] - b[i*ldb+j])
			if d != d {
				return math.Inf(1)
			}
			if d > mx {
				mx = d
			}
		}
	}
	return mx
}

// verifC03cOrthoCols: max |QᵀQ - I| for the rows x cols matrix q.
func verifC03cOrthoCols(rows, cols int, q []float64, ld int) float64 {
	g, _, _ := verifC03cMul(true, rows, cols, q, ld, false, rows, cols, q, ld)
	for i := 0; i < cols; i++ {
		g[i*cols+i] -= 1
	}
	return verifC03cMaxAbs(cols, cols, g, cols)
}

// verifC03cOrthoRows: max |Q Qᵀ - I|.
func verifC03cOrthoRows(rows, cols int, q []float64, ld int) float64 {
	g, _, _ := verifC03cMul(false, rows, cols, q, ld, true, rows, cols, q, ld)
	for i := 0; i < rows; i++ {
		g[i*rows+i] -= 1
	}
	return verifC03cMaxAbs(rows, rows, g, rows)
}

// verifC03cPads: the nine (quick) or 27 (full) combinations of three paddings from {0,1,3};
// the nine form an orthogonal array (every pair of values occurs for every pair of operands).
func verifC03cPads(name string) (p0, p1, p2 int) {
	v := [3]int{0, 1, 3}
	if verifParam("ldfull", 0) != 0 {
		i := verifChoose(name, 0, 26)
		return v[i%3], v[(i/3)%3], v[i/9]
	}
	i := verifChoose(name, 0, 8)
	return v[i%3], v[i/3], v[(i%3+i/3)%3]
}

// verifC03cWork returns a workspace of length lwork. sym: lwork is SYMBOLIC in [lo, big]
// (every branch on it is a solver-decided fork, a path stands for a class of lengths);
// otherwise lwork is case-split over the candidate lengths that lie in [lo, big]
// (used where the code under test loops over the whole workspace, e.g. Dorg2r clears
// work[0:len(work)], which would enumerate a symbolic length value by value).
func verifC03cWork(sym bool, lo, big int, cand []int) (work []float64, lwork int) {
	return verifC03cWorkN("lwork", sym, lo, big, cand)
}

func verifC03cWorkN(name string, sym bool, lo, big int, cand []int) (work []float64, lwork int) {
	backing := make([]float64, big)
	for i := range backing {
		backing[i] = 5e7 + float64(i)
	}
	if sym {
		lwork = verifInt(name, lo, big)
		return verifSetLen(backing, lwork), lwork
	}
	var c []int
	for _, v := range cand {
		if v < lo || v > big {
			continue
		}
		dup := false
		for _, w := range c {
			if w == v {
				dup = true
			}
		}
		if !dup {
			c = append(c, v)
		}
	}
	lwork = c[verifChoose(name+"Idx", 0, len(c)-1)]
	return backing[:lwork], lwork
}

// verifC03cAround appends t-1, t, t+1.
func verifC03cAround(c []int, t int) []int { return append(c, t-1, t, t+1) }

var verifC03cSVDJobs = [3]lapack.SVDJob{lapack.SVDNone, lapack.SVDStore, lapack.SVDAll}

// verifC03cSVDShapes: tall shapes with m >= int(1.6*n) (paths 1-9), tall/square below
// (path 10); the wide twins are obtained by transposition.
var verifC03cSVDShapes = [][2]int{
	{5, 3}, {3, 3}, {5, 4}, {8, 5}, {1, 1}, {3, 1}, {6, 5}, {7, 2}, {2, 2}, {8, 8},
}

// VerifC03_ConfigDgesvd: every jobU/jobVT in {None, Store, All}² (Overwrite is documented
// as not implemented), shapes of all reachable paths 1,4,6,7,9,10 and 1t..10t, lda/ldu/ldvt
// paddings {0,1,3}, lwork symbolic in [documented minimum, big] with big above the largest
// internal threshold wrkbl+lda*max(m,n).
func VerifC03_ConfigDgesvd() { verifC03cDgesvd(false) }

// VerifC03_ConfigDgesvdDense (thorough tier): the same obligations with lwork case-split
// over EVERY length in [minimum, big], paddings (3,3,1), first "svddense" shapes.
func VerifC03_ConfigDgesvdDense() { verifC03cDgesvd(true) }

func verifC03cDgesvd(dense bool) {
	impl := Implementation{}
	ns := verifParam("svdshapes", 3)
	if dense {
		ns = verifParam("svddense", 0)
		if ns == 0 {
			verifReach("end") // quick tier: switched off
			return
		}
	}
	sh := verifChoose("shape", verifParam("svdlo", 0), ns-1)
	m, n := verifC03cSVDShapes[sh][0], verifC03cSVDShapes[sh][1]
	if verifChoose("wide", 0, 1) == 1 {
		if m == n {
			verifAssume(false)
		}
		m, n = n, m
	}
	jobU := verifC03cSVDJobs[verifChoose("jobU", 0, 2)]
	jobVT := verifC03cSVDJobs[verifChoose("jobVT", 0, 2)]
	pa, pu, pv := 3, 3, 1
	if !dense {
		pa, pu, pv = verifC03cPads("pads")
	}
	mn := min(m, n)
	lda := n + pa
	ucols, vtrows := 0, 0
	switch jobU {
	case lapack.SVDAll:
		ucols = m
	case lapack.SVDStore:
		ucols = mn
	}
	switch jobVT {
	case lapack.SVDAll:
		vtrows = n
	case lapack.SVDStore:
		vtrows = mn
	}
	ldu, ldvt := max(1, ucols)+pu, max(1, n)+pv
	if jobVT == lapack.SVDNone {
		ldvt = 1 + pv
	}
	a0 := verifC03cMat(m, n, lda, 100*m+n)
	anorm := verifC03cMaxAbs(m, n, a0, lda)
	tol := verifC03cTol * float64(m+n) * math.Max(1, anorm)
	minw := max(3*mn+max(m, n), 5*mn)

	// reference: singular values only, minimal workspace, tight strides.
	q := make([]float64, 1)
	impl.Dgesvd(jobU, jobVT, m, n, verifC03cClone(a0), lda, nil, nil, ldu, nil, ldvt, q, -1)
	opt := int(q[0])
	sref := make([]float64, mn)
	impl.Dgesvd(lapack.SVDNone, lapack.SVDNone, m, n, verifC03cRepack(m, n, a0, lda, n), n, sref, nil, 1, nil, 1, make([]float64, minw), minw)

	a := verifC03cClone(a0)
	s := verifC03cBlank(1, mn, mn, 1e7)
	var u0, vt0 []float64
	if ucols > 0 {
		u0 = verifC03cBlank(m, ucols, ldu, 2e7)
	}
	if vtrows > 0 {
		vt0 = verifC03cBlank(vtrows, n, ldvt, 4e7)
	}
	u, vt := verifC03cClone(u0), verifC03cClone(vt0)
	big := opt + (max(m, n)+3)*max(m, n) + 7
	// Thresholds of the routine (reference LAPACK documentation): the n*n scratch matrix
	// is used from mn*mn+max(4*mn, bdspac[, m+n]) on and gets stride lda from wrkbl+lda*mn
	// on, where wrkbl = optimum - mn*mn.
	cand := []int{minw, minw + 1, opt - 1, opt, opt + 1, big}
	cand = verifC03cAround(cand, mn*mn+max(4*mn, 5*mn))
	cand = verifC03cAround(cand, mn*mn+max(m+n, 5*mn))
	cand = verifC03cAround(cand, opt-mn*mn+lda*mn)
	cand = verifC03cAround(cand, opt-mn*mn+lda*max(m, n))
	// Dorg2r (under Dorgqr, reached whenever U is wanted) loops over the whole workspace.
	sym := jobU == lapack.SVDNone && !dense
	if dense {
		cand = cand[:0]
		for v := minw; v <= big; v++ {
			cand = append(cand, v)
		}
	}
	work, lwork := verifC03cWork(sym, minw, big, cand)
	var ok bool
	panicked, _, msg := verifCatch(func() {
		ok = impl.Dgesvd(jobU, jobVT, m, n, a, lda, s, u, ldu, vt, ldvt, work, lwork)
	})
	verifAssert(!panicked, "Dgesvd: no panic or runtime fault for an admissible workspace length ("+msg+")")
	if panicked {
		return
	}
	verifAssert(ok, "Dgesvd: converged")
	verifObserveF("s0", s[0])
	verifAssert(work[0] >= float64(opt), "Dgesvd: work[0] on return is at least the queried optimum")
	desc := true
	for i := 0; i < mn; i++ {
		if !(s[i] >= 0) || (i > 0 && !(s[i-1] >= s[i])) {
			desc = false
		}
	}
	verifAssert(desc, "Dgesvd: singular values non-negative and descending")
	verifAssert(verifC03cDist(1, mn, s, mn, sref, mn) <= 1e-9*math.Max(1, sref[0]),
		"Dgesvd: singular values agree with the values-only run at minimal workspace")
	verifC03cPadSame(m, n, lda, a, a0, "Dgesvd: padding of a untouched")
	if ucols > 0 {
		verifC03cPadSame(m, ucols, ldu, u, u0, "Dgesvd: padding of u untouched")
		verifAssert(verifC03cOrthoCols(m, ucols, u, ldu) <= tol, "Dgesvd: columns of U orthonormal")
	}
	if vtrows > 0 {
		verifC03cPadSame(vtrows, n, ldvt, vt, vt0, "Dgesvd: padding of vt untouched")
		verifAssert(verifC03cOrthoRows(vtrows, n, vt, ldvt) <= tol, "Dgesvd: rows of VT orthonormal")
	}
	s2 := make([]float64, mn*mn)
	for i := 0; i < mn; i++ {
		s2[i*mn+i] = s[i] * s[i]
	}
	switch {
	case ucols > 0 && vtrows > 0:
		us := make([]float64, m*mn)
		for i := 0; i < m; i++ {
			for k := 0; k < mn; k++ {
				us[i*mn+k] = u[i*ldu+k] * s[k]
			}
		}
		p, _, _ := verifC03cMul(false, m, mn, us, mn, false, mn, n, vt, ldvt)
		verifAssert(verifC03cDist(m, n, p, n, a0, lda) <= tol, "Dgesvd: A = U*Sigma*VT")
	case ucols > 0: // (Aᵀ U1)ᵀ (Aᵀ U1) = Sigma²
		b, _, _ := verifC03cMul(true, m, n, a0, lda, false, m, mn, u, ldu)
		g, _, _ := verifC03cMul(true, n, mn, b, mn, false, n, mn, b, mn)
		verifAssert(verifC03cDist(mn, mn, g, mn, s2, mn) <= tol*math.Max(1, anorm), "Dgesvd: U1ᵀ A Aᵀ U1 = Sigma²")
	case vtrows > 0: // (A V1)ᵀ (A V1) = Sigma²
		b, _, _ := verifC03cMul(false, m, n, a0, lda, true, mn, n, vt, ldvt)
		g, _, _ := verifC03cMul(true, m, mn, b, mn, false, m, mn, b, mn)
		verifAssert(verifC03cDist(mn, mn, g, mn, s2, mn) <= tol*math.Max(1, anorm), "Dgesvd: V1ᵀ Aᵀ A V1 = Sigma²")
	default:
		fro, ss := 0.0, 0.0
		for i := 0; i < m; i++ {
			for j := 0; j < n; j++ {
				fro += a0[i*lda+j] * a0[i*lda+j]
			}
		}
		for i := 0; i < mn; i++ {
			ss += s[i] * s[i]
		}
		verifAssert(math.Abs(fro-ss) <= tol*math.Max(1, anorm)*float64(mn), "Dgesvd: sum of squared singular values is the squared Frobenius norm")
	}
	verifReach("end")
}

var verifC03cUplos = [2]blas.Uplo{blas.Upper, blas.Lower}

// verifC03cSmallN is the list of small orders; index >= len selects the order 34 that
// is just above the Dsytrd blocking crossover (nb = nx = 32).
var verifC03cSmallN = []int{1, 2, 3, 5, 8, 34}

// verifC03cBlockCand appends both ends of the lwork classes off+nb*unit .. off+(nb+1)*unit-1
// on which a routine derives the block size nb = (lwork-off)/unit arithmetically (such a
// length cannot stay symbolic: nb becomes a stride of the scratch matrices). Quick: the
// classes nb in {lo-1, lo, hi-1, hi}; with the parameter "nbfull" every nb in lo-1..hi.
func verifC03cBlockCand(c []int, off, unit, lo, hi int) []int {
	for nb := lo - 1; nb <= hi; nb++ {
		if verifParam("nbfull", 0) == 0 && nb > lo && nb < hi-1 {
			continue
		}
		c = append(c, off+nb*unit, off+(nb+1)*unit-1)
	}
	return c
}

// VerifC03_ConfigDsyev: jobz, uplo, lda padding case-split; n in {1,2,3,5,8} and 34 (the
// blocked Dsytrd with nb = (lwork-2n)/n in 2..32 or unblocked); lwork symbolic in
// [3n-1, big] for n <= 8 except for (Compute, Lower), where Dorgtr -> Dorgqr -> Dorg2r
// loops over the workspace; there and for n = 34 (block size computed from lwork) lwork
// is case-split over the ends of the block-size classes, minimum, optimum +-1 and big.
func VerifC03_ConfigDsyev() {
	impl := Implementation{}
	n := verifC03cSmallN[verifChoose("ni", verifParam("syevlo", 0), verifParam("syevn", 5))]
	jobz := []lapack.EVJob{lapack.EVNone, lapack.EVCompute}[verifChoose("jobz", 0, 1)]
	uplo := verifC03cUplos[verifChoose("uplo", 0, 1)]
	pad := []int{0, 1, 3}[verifChoose("pad", 0, 2)]
	if n > 32 && pad != 3 && verifParam("bigfull", 0) == 0 {
		verifAssume(false) // quick tier: the order-34 cases only with padding 3
	}
	lda := n + pad
	afull := verifC03cMat(n, n, lda, 7*n+1)
	verifC03cSym(n, lda, afull)
	// the routine sees only the uplo triangle; the other one holds sentinels.
	a0 := verifC03cClone(afull)
	for i := 0; i < n; i++ {
		for j := 0; j < n; j++ {
			if (uplo == blas.Upper && j < i) || (uplo == blas.Lower && j > i) {
				a0[i*lda+j] = 6e7 + float64(i*lda+j)
			}
		}
	}
	anorm := verifC03cMaxAbs(n, n, afull, lda)
	tol := verifC03cTol * float64(n) * math.Max(1, anorm)
	minw := max(1, 3*n-1)
	q := make([]float64, 1)
	impl.Dsyev(jobz, uplo, n, verifC03cClone(a0), lda, nil, q, -1)
	opt := int(q[0])
	wref := make([]float64, n)
	impl.Dsyev(lapack.EVNone, uplo, n, verifC03cClone(a0), lda, wref, make([]float64, minw), minw)

	big := opt + 2*n + 7
	cand := []int{minw, minw + 1, opt - 1, opt, opt + 1, big}
	if n > 32 {
		cand = verifC03cBlockCand(cand, 2*n, n, 2, 32)
	}
	sym := !(jobz == lapack.EVCompute && uplo == blas.Lower) && n <= 32
	a, w := verifC03cClone(a0), verifC03cBlank(1, n, n, 1e7)
	work, lwork := verifC03cWork(sym, minw, big, cand)
	var ok bool
	panicked, _, msg := verifCatch(func() { ok = impl.Dsyev(jobz, uplo, n, a, lda, w, work, lwork) })
	verifAssert(!panicked, "Dsyev: no panic or runtime fault for an admissible workspace length ("+msg+")")
	if panicked {
		return
	}
	verifAssert(ok, "Dsyev: converged")
	verifObserveF("w0", w[0])
	asc := true
	for i := 1; i < n; i++ {
		if !(w[i-1] <= w[i]) {
			asc = false
		}
	}
	verifAssert(asc && w[0] == w[0], "Dsyev: eigenvalues ascending")
	verifAssert(verifC03cDist(1, n, w, n, wref, n) <= 1e-9*math.Max(1, anorm)*float64(n),
		"Dsyev: eigenvalues agree with the values-only run at minimal workspace")
	verifC03cPadSame(n, n, lda, a, a0, "Dsyev: padding of a untouched")
	if jobz == lapack.EVCompute {
		verifAssert(verifC03cOrthoCols(n, n, a, lda) <= tol, "Dsyev: eigenvectors orthonormal")
		av, _, _ := verifC03cMul(false, n, n, afull, lda, false, n, n, a, lda)
		vl := make([]float64, n*n)
		for i := 0; i < n; i++ {
			for j := 0; j < n; j++ {
				vl[i*n+j] = a[i*lda+j] * w[j]
			}
		}
		verifAssert(verifC03cDist(n, n, av, n, vl, n) <= tol, "Dsyev: A*V = V*Lambda")
	} else {
		tr, sw := 0.0, 0.0
		for i := 0; i < n; i++ {
			tr += afull[i*lda+i]
			sw += w[i]
		}
		verifAssert(math.Abs(tr-sw) <= tol, "Dsyev: sum of eigenvalues is the trace")
	}
	verifReach("end")
}

// VerifC03_ConfigDsytrd: Dsytrd with symbolic lwork in [1, big] (n <= 8; n = 34: case
// split over the ends of the block-size classes) followed by Dorgtr
// (lwork = minimum or optimum): Q orthogonal, A = Q*T*Qᵀ, T agrees with the unblocked run.
func VerifC03_ConfigDsytrd() {
	impl := Implementation{}
	n := verifC03cSmallN[verifChoose("ni", verifParam("sytrdlo", 0), verifParam("sytrdn", 5))]
	uplo := verifC03cUplos[verifChoose("uplo", 0, 1)]
	pad := []int{0, 1, 3}[verifChoose("pad", 0, 2)]
	lda := n + pad
	afull := verifC03cMat(n, n, lda, 11*n+3)
	verifC03cSym(n, lda, afull)
	a0 := verifC03cClone(afull)
	for i := 0; i < n; i++ {
		for j := 0; j < n; j++ {
			if (uplo == blas.Upper && j < i) || (uplo == blas.Lower && j > i) {
				a0[i*lda+j] = 6e7 + float64(i*lda+j)
			}
		}
	}
	anorm := verifC03cMaxAbs(n, n, afull, lda)
	tol := verifC03cTol * float64(n) * math.Max(1, anorm)
	q := make([]float64, 1)
	impl.Dsytrd(uplo, n, verifC03cClone(a0), lda, nil, nil, nil, q, -1)
	opt := int(q[0])
	dref, eref, tref := make([]float64, n), make([]float64, n-1), make([]float64, n-1)
	impl.Dsytrd(uplo, n, verifC03cClone(a0), lda, dref, eref, tref, make([]float64, 1), 1)

	orgMin := verifChoose("orgMin", 0, 1) == 1
	if n > 32 && (pad != 3 || orgMin) && verifParam("bigfull", 0) == 0 {
		verifAssume(false) // quick tier: the order-34 cases only with padding 3, Dorgtr at its optimum
	}
	a := verifC03cClone(a0)
	d, e, tau := verifC03cBlank(1, n, n, 1e7), verifC03cBlank(1, n-1, n, 1e7)[:n-1], verifC03cBlank(1, n-1, n, 1e7)[:n-1]
	big := opt + n + 5
	cand := []int{1, 2, opt - 1, opt, opt + 1, big}
	if n > 32 {
		cand = verifC03cBlockCand(cand, 0, n, 2, 32)
	}
	work, lwork := verifC03cWork(n <= 32, 1, big, cand)
	panicked, _, msg := verifCatch(func() { impl.Dsytrd(uplo, n, a, lda, d, e, tau, work, lwork) })
	verifAssert(!panicked, "Dsytrd: no panic or runtime fault for an admissible workspace length ("+msg+")")
	if panicked {
		return
	}
	verifC03cPadSame(n, n, lda, a, a0, "Dsytrd: padding of a untouched")
	other := true
	for i := 0; i < n; i++ {
		for j := 0; j < n; j++ {
			if (uplo == blas.Upper && j < i) || (uplo == blas.Lower && j > i) {
				if math.Float64bits(a[i*lda+j]) != math.Float64bits(a0[i*lda+j]) {
					other = false
				}
			}
		}
	}
	verifAssert(other, "Dsytrd: the triangle not named by uplo is untouched")
	verifAssert(verifC03cDist(1, n, d, n, dref, n) <= 1e-9*math.Max(1, anorm)*float64(n) &&
		verifC03cDist(1, n-1, e, n, eref, n) <= 1e-9*math.Max(1, anorm)*float64(n),
		"Dsytrd: T agrees with the unblocked (lwork = 1) run")
	// generate Q
	owork := max(1, n-1)
	if !orgMin {
		impl.Dorgtr(uplo, n, a, lda, tau, q, -1)
		owork = int(q[0])
	}
	a1 := verifC03cClone(a)
	panicked, _, msg = verifCatch(func() { impl.Dorgtr(uplo, n, a, lda, tau, make([]float64, owork), owork) })
	verifAssert(!panicked, "Dorgtr: no panic or runtime fault ("+msg+")")
	if panicked {
		return
	}
	verifC03cPadSame(n, n, lda, a, a1, "Dorgtr: padding of a untouched")
	verifAssert(verifC03cOrthoCols(n, n, a, lda) <= tol, "Dorgtr: Q orthogonal")
	// T
	t := make([]float64, n*n)
	for i := 0; i < n; i++ {
		t[i*n+i] = d[i]
		if i+1 < n {
			t[i*n+i+1] = e[i]
			t[(i+1)*n+i] = e[i]
		}
	}
	qt, _, _ := verifC03cMul(false, n, n, a, lda, false, n, n, t, n)
	qtq, _, _ := verifC03cMul(false, n, n, qt, n, true, n, n, a, lda)
	verifAssert(verifC03cDist(n, n, qtq, n, afull, lda) <= tol, "Dsytrd/Dorgtr: A = Q*T*Qᵀ")
	verifReach("end")
}

// verifC03cShapes: tall, wide, square, incl. order 1.
var verifC03cShapes = [][2]int{{3, 3}, {5, 3}, {3, 5}, {1, 1}, {4, 1}, {1, 4}, {2, 2}, {6, 6}, {8, 5}, {5, 8}}

// verifC03cBidiag returns the rows x cols matrix B with diagonal d and off-diagonal e
// (upper bidiagonal if m >= n, lower otherwise), mn = min(m, n).
func verifC03cBidiag(rows, cols, m, n int, d, e []float64) []float64 {
	b := make([]float64, rows*cols)
	mn := min(m, n)
	for i := 0; i < mn; i++ {
		b[i*cols+i] = d[i]
		if i+1 < mn {
			if m >= n {
				b[i*cols+i+1] = e[i]
			} else {
				b[(i+1)*cols+i] = e[i]
			}
		}
	}
	return b
}

// VerifC03_ConfigDgebrd: Dgebrd (lwork symbolic in [max(m,n), big]; below the blocking
// crossover min(m,n) > 128 the length only enters comparisons) followed by Dorgbr for Q
// and Pᵀ (thin or full, lwork = minimum or optimum+1): Qᵀ*A*P = B bidiagonal, Q and P
// orthogonal, paddings untouched.
func VerifC03_ConfigDgebrd() {
	impl := Implementation{}
	sh := verifChoose("shape", 0, verifParam("brdshapes", 9))
	m, n := verifC03cShapes[sh][0], verifC03cShapes[sh][1]
	pad := []int{0, 1, 3}[verifChoose("pad", 0, 2)]
	full := verifChoose("full", 0, 1) == 1
	orgMin := verifChoose("orgMin", 0, 1) == 1
	mn, lda := min(m, n), n+pad
	a0 := verifC03cMat(m, n, lda, 31*m+n)
	anorm := verifC03cMaxAbs(m, n, a0, lda)
	tol := verifC03cTol * float64(m+n) * math.Max(1, anorm)
	q := make([]float64, 1)
	impl.Dgebrd(m, n, verifC03cClone(a0), lda, nil, nil, nil, nil, q, -1)
	opt := int(q[0])
	a := verifC03cClone(a0)
	d, e := verifC03cBlank(1, mn, mn, 1e7), verifC03cBlank(1, mn, mn, 1e7)[:mn-1]
	tauq, taup := verifC03cBlank(1, mn, mn, 1e7), verifC03cBlank(1, mn, mn, 1e7)
	work, lwork := verifC03cWork(true, max(m, n), opt+max(m, n)+5, nil)
	panicked, _, msg := verifCatch(func() { impl.Dgebrd(m, n, a, lda, d, e, tauq, taup, work, lwork) })
	verifAssert(!panicked, "Dgebrd: no panic or runtime fault for an admissible workspace length ("+msg+")")
	if panicked {
		return
	}
	verifC03cPadSame(m, n, lda, a, a0, "Dgebrd: padding of a untouched")
	// Q: m x qc, Pᵀ: pr x n.
	qc, pr := mn, mn
	if full {
		qc, pr = m, n
	}
	ldq, ldp := qc+pad, n+3-pad
	qm := verifC03cBlank(m, qc, ldq, 2e7)
	pm := verifC03cBlank(pr, n, ldp, 4e7)
	for i := 0; i < m; i++ {
		for j := 0; j < min(qc, n); j++ {
			qm[i*ldq+j] = a[i*lda+j]
		}
	}
	for i := 0; i < min(pr, m); i++ {
		for j := 0; j < n; j++ {
			pm[i*ldp+j] = a[i*lda+j]
		}
	}
	qm0, pm0 := verifC03cClone(qm), verifC03cClone(pm)
	lwq, lwp := max(1, min(m, qc)), max(1, min(pr, n))
	if !orgMin {
		impl.Dorgbr(lapack.GenerateQ, m, qc, n, qm, ldq, tauq, q, -1)
		lwq = int(q[0]) + 1
		impl.Dorgbr(lapack.GeneratePT, pr, n, m, pm, ldp, taup, q, -1)
		lwp = int(q[0]) + 1
	}
	panicked, _, msg = verifCatch(func() {
		impl.Dorgbr(lapack.GenerateQ, m, qc, n, qm, ldq, tauq, make([]float64, lwq), lwq)
		impl.Dorgbr(lapack.GeneratePT, pr, n, m, pm, ldp, taup, make([]float64, lwp), lwp)
	})
	verifAssert(!panicked, "Dorgbr: no panic or runtime fault ("+msg+")")
	if panicked {
		return
	}
	verifC03cPadSame(m, qc, ldq, qm, qm0, "Dorgbr: padding of Q untouched")
	verifC03cPadSame(pr, n, ldp, pm, pm0, "Dorgbr: padding of PT untouched")
	verifAssert(verifC03cOrthoCols(m, qc, qm, ldq) <= tol, "Dorgbr: columns of Q orthonormal")
	verifAssert(verifC03cOrthoRows(pr, n, pm, ldp) <= tol, "Dorgbr: rows of PT orthonormal")
	qa, _, _ := verifC03cMul(true, m, qc, qm, ldq, false, m, n, a0, lda)
	qap, _, _ := verifC03cMul(false, qc, n, qa, n, true, pr, n, pm, ldp)
	b := verifC03cBidiag(qc, pr, m, n, d, e)
	verifAssert(verifC03cDist(qc, pr, qap, pr, b, pr) <= tol, "Dgebrd/Dorgbr: Qᵀ*A*P = B (bidiagonal)")
	verifReach("end")
}

// verifC03cReflect applies H = I - tau*v*vᵀ to the rows x cols matrix c from the left
// (v has length rows) or from the right (length cols); definition-level oracle.
func verifC03cReflect(left bool, rows, cols int, c []float64, ldc int, v []float64, tau float64) {
	if left {
		for j := 0; j < cols; j++ {
			s := 0.0
			for i := 0; i < rows; i++ {
				s += v[i] * c[i*ldc+j]
			}
			for i := 0; i < rows; i++ {
				c[i*ldc+j] -= tau * v[i] * s
			}
		}
		return
	}
	for i := 0; i < rows; i++ {
		s := 0.0
		for j := 0; j < cols; j++ {
			s += c[i*ldc+j] * v[j]
		}
		for j := 0; j < cols; j++ {
			c[i*ldc+j] -= tau * s * v[j]
		}
	}
}

// VerifC03_ConfigDormbr: the eight vect/side/trans combinations of Dormbr.
// part 0: after a real Dgebrd of a small matrix, Qᵀ*A*P = B, Q*B*Pᵀ = A and their
// transposes (two Dormbr calls each, both workspace lengths symbolic).
// part 1: k = 34 reflectors of order 36 (synthetic v and tau = 2/vᵀv), C with 2 columns
// resp. rows: the blocked Dormqr/Dormlq paths with nb = (lwork-4096)/nw in 2..32, lwork
// case-split over the ends of these classes; oracle: the reflectors applied one by one.
func VerifC03_ConfigDormbr() {
	impl := Implementation{}
	if verifChoose("part", 0, verifParam("ormbrparts", 1)) == 1 {
		verifC03cDormbrBlocked(impl)
		return
	}
	sh := verifChoose("shape", 0, verifParam("ormbrshapes", 6))
	m, n := verifC03cShapes[sh][0], verifC03cShapes[sh][1]
	pad := []int{0, 1, 3}[verifChoose("pad", 0, 2)]
	variant := verifChoose("variant", 0, 3)
	mn, lda := min(m, n), n+pad
	a0 := verifC03cMat(m, n, lda, 17*m+n)
	anorm := verifC03cMaxAbs(m, n, a0, lda)
	tol := verifC03cTol * float64(m+n) * math.Max(1, anorm)
	a := verifC03cClone(a0)
	d, e, tauq, taup := make([]float64, mn), make([]float64, mn), make([]float64, mn), make([]float64, mn)
	lw := (m + n) * 32
	impl.Dgebrd(m, n, a, lda, d, e, tauq, taup, make([]float64, lw), lw)
	b := verifC03cBidiag(m, n, m, n, d, e)
	at := make([]float64, n*m)
	bt := make([]float64, n*m)
	for i := 0; i < m; i++ {
		for j := 0; j < n; j++ {
			at[j*m+i] = a0[i*lda+j]
			bt[j*m+i] = b[i*n+j]
		}
	}
	// start matrix, expected result, the two operations
	var c, want []float64
	var cr, cc int
	var v1, v2 lapack.ApplyOrtho
	var s1, s2 blas.Side
	var t1, t2 blas.Transpose
	switch variant {
	case 0: // Qᵀ*A*P = B
		cr, cc = m, n
		c, want = verifC03cRepack(m, n, a0, lda, n+3-pad), b
		v1, s1, t1 = lapack.ApplyQ, blas.Left, blas.Trans
		v2, s2, t2 = lapack.ApplyP, blas.Right, blas.NoTrans
	case 1: // Pᵀ*Aᵀ*Q = Bᵀ
		cr, cc = n, m
		c, want = verifC03cRepack(n, m, at, m, m+3-pad), bt
		v1, s1, t1 = lapack.ApplyP, blas.Left, blas.Trans
		v2, s2, t2 = lapack.ApplyQ, blas.Right, blas.NoTrans
	case 2: // Q*B*Pᵀ = A
		cr, cc = m, n
		c, want = verifC03cRepack(m, n, b, n, n+3-pad), verifC03cRepack(m, n, a0, lda, n)
		v1, s1, t1 = lapack.ApplyQ, blas.Left, blas.NoTrans
		v2, s2, t2 = lapack.ApplyP, blas.Right, blas.Trans
	default: // P*Bᵀ*Qᵀ = Aᵀ
		cr, cc = n, m
		c, want = verifC03cRepack(n, m, bt, m, m+3-pad), at
		v1, s1, t1 = lapack.ApplyP, blas.Left, blas.NoTrans
		v2, s2, t2 = lapack.ApplyQ, blas.Right, blas.Trans
	}
	ldc := cc + 3 - pad
	c0 := verifC03cClone(c)
	kOf := func(v lapack.ApplyOrtho) (int, []float64) {
		if v == lapack.ApplyQ {
			return n, tauq
		}
		return m, taup
	}
	nwOf := func(sd blas.Side) int {
		if sd == blas.Left {
			return cc
		}
		return cr
	}
	k1, tau1 := kOf(v1)
	k2, tau2 := kOf(v2)
	q := make([]float64, 1)
	impl.Dormbr(v1, s1, t1, cr, cc, k1, a, lda, tau1, c, ldc, q, -1)
	opt1 := int(q[0])
	impl.Dormbr(v2, s2, t2, cr, cc, k2, a, lda, tau2, c, ldc, q, -1)
	opt2 := int(q[0])
	a1 := verifC03cClone(a)
	w1, lw1 := verifC03cWorkN("lwork", true, max(1, nwOf(s1)), opt1+9, nil)
	w2, lw2 := verifC03cWorkN("lwork2", true, max(1, nwOf(s2)), opt2+9, nil)
	panicked, _, msg := verifCatch(func() {
		impl.Dormbr(v1, s1, t1, cr, cc, k1, a, lda, tau1, c, ldc, w1, lw1)
		impl.Dormbr(v2, s2, t2, cr, cc, k2, a, lda, tau2, c, ldc, w2, lw2)
	})
	verifAssert(!panicked, "Dormbr: no panic or runtime fault for an admissible workspace length ("+msg+")")
	if panicked {
		return
	}
	verifAssert(w1[0] >= float64(opt1) && w2[0] >= float64(opt2), "Dormbr: work[0] on return is at least the queried optimum")
	verifC03cAllSame(a, a1, "Dormbr: a (the reflectors) unchanged on return")
	verifC03cPadSame(cr, cc, ldc, c, c0, "Dormbr: padding of c untouched")
	verifAssert(verifC03cDist(cr, cc, c, ldc, want, cc) <= tol, "Dgebrd/Dormbr: Qᵀ*A*P = B resp. Q*B*Pᵀ = A")
	verifReach("end")
}

func verifC03cDormbrBlocked(impl Implementation) {
	const nq, k, nw = 36, 34, 2
	applyQ := verifChoose("vect", 0, 1) == 0
	left := verifChoose("side", 0, 1) == 0
	tr := verifChoose("trans", 0, 1) == 1
	pad := []int{0, 3}[verifChoose("pad", 0, 1)]
	// reflector i: v[0:i] = 0, v[i] = 1, v[i+1:nq] random, stored in column i below the
	// diagonal (ApplyQ, nq >= k: layout of Dgebrd for a tall nq x k matrix) or in row i right
	// of the diagonal (ApplyP, nq > k: layout of Dgebrd for a wide k x nq matrix); tau = 2/vᵀv.
	var a []float64
	var lda int
	vs := make([][]float64, k)
	tau := make([]float64, k)
	r := verifC03cRand{4242}
	if applyQ {
		lda = k + pad
		a = verifC03cBlank(nq, k, lda, 8e7)
	} else {
		lda = nq + pad
		a = verifC03cBlank(k, nq, lda, 8e7)
	}
	for i := 0; i < k; i++ {
		v := make([]float64, nq)
		one := i
		v[one] = 1
		vv := 1.0
		for l := one + 1; l < nq; l++ {
			v[l] = r.next() / 4
			vv += v[l] * v[l]
			if applyQ {
				a[l*lda+i] = v[l]
			} else {
				a[i*lda+l] = v[l]
			}
		}
		vs[i], tau[i] = v, 2/vv
	}
	cr, cc := nq, nw
	if !left {
		cr, cc = nw, nq
	}
	ldc := cc + pad
	c0 := verifC03cMat(cr, cc, ldc, 99)
	// oracle: Q = H_0 H_1 ... H_{k-1} (ApplyQ), P = H_0 ... H_{k-1} as well (P = G_0 G_1 ...).
	want := verifC03cClone(c0)
	// op(Q)*C: NoTrans -> apply H_{k-1} first; Trans -> H_0 first. C*op(Q): NoTrans -> H_0 first.
	fwd := (left && tr) || (!left && !tr)
	for ii := 0; ii < k; ii++ {
		i := ii
		if !fwd {
			i = k - 1 - ii
		}
		verifC03cReflect(left, cr, cc, want, ldc, vs[i], tau[i])
	}
	vect, side, trans := lapack.ApplyP, blas.Right, blas.NoTrans
	if applyQ {
		vect = lapack.ApplyQ
	}
	if left {
		side = blas.Left
	}
	if tr {
		trans = blas.Trans
	}
	q := make([]float64, 1)
	impl.Dormbr(vect, side, trans, cr, cc, k, a, lda, tau, c0, ldc, q, -1)
	opt := int(q[0])
	const tsize = 64 * 64
	big := tsize + nw*32 + 9
	cand := []int{nw, nw + 1, opt - 1, opt, opt + 1, tsize - 1, tsize, big}
	cand = verifC03cBlockCand(cand, tsize, nw, 2, 32)
	c, a1 := verifC03cClone(c0), verifC03cClone(a)
	work, lwork := verifC03cWork(false, nw, big, cand)
	panicked, _, msg := verifCatch(func() { impl.Dormbr(vect, side, trans, cr, cc, k, a, lda, tau, c, ldc, work, lwork) })
	verifAssert(!panicked, "Dormbr(k=34): no panic or runtime fault for an admissible workspace length ("+msg+")")
	if panicked {
		return
	}
	verifAssert(work[0] >= float64(opt), "Dormbr(k=34): work[0] on return is at least the queried optimum")
	verifC03cAllSame(a, a1, "Dormbr(k=34): a (the reflectors) unchanged on return")
	verifC03cPadSame(cr, cc, ldc, c, c0, "Dormbr(k=34): padding of c untouched")
	verifAssert(verifC03cDist(cr, cc, c, ldc, want, ldc) <= 1e-10*float64(nq), "Dormbr(k=34): result equals the reflectors applied one by one")
	verifReach("end")
}

// verifC03cIloIhi: the full range, or an inner block (rows/columns outside it are made
// upper triangular by the caller).
func verifC03cIloIhi(n int) (ilo, ihi int) {
	if n >= 4 && verifChoose("inner", 0, 1) == 1 {
		return 1, n - 2
	}
	return 0, n - 1
}

// verifC03cIsolate zeroes a[i][j] for i > j with j < ilo or i > ihi.
func verifC03cIsolate(n, ilo, ihi int, a []float64, lda int) {
	for i := 0; i < n; i++ {
		for j := 0; j < i; j++ {
			if j < ilo || i > ihi {
				a[i*lda+j] = 0
			}
		}
	}
}

// verifC03cHouse returns the orthogonal n x n matrix I - 2*u*uᵀ/(uᵀu) restricted to
// rows/columns lo..hi (identity elsewhere), stride ld, padding sentinels.
func verifC03cHouse(n, lo, hi, ld, seed int) []float64 {
	z := verifC03cBlank(n, n, ld, 9e7)
	r := verifC03cRand{uint32(seed)}
	u := make([]float64, n)
	uu := 0.0
	for i := lo; i <= hi; i++ {
		u[i] = r.next() + 0.03125
		uu += u[i] * u[i]
	}
	for i := 0; i < n; i++ {
		for j := 0; j < n; j++ {
			v := 0.0
			if i == j {
				v = 1
			}
			z[i*ld+j] = v - 2*u[i]*u[j]/uu
		}
	}
	return z
}

// VerifC03_ConfigDgehrd: Dgehrd (lwork symbolic in [n, big]) followed by Dorghr (lwork =
// minimum or optimum+1), full and inner [ilo, ihi]: Qᵀ*A*Q = H upper Hessenberg, Q
// orthogonal and the identity outside [ilo+1, ihi], tau zero outside [ilo, ihi).
func VerifC03_ConfigDgehrd() {
	impl := Implementation{}
	n := verifC03cSmallN[verifChoose("ni", 0, verifParam("hrdn", 4))]
	if n == 5 {
		n = 6
	}
	pad := []int{0, 1, 3}[verifChoose("pad", 0, 2)]
	orgMin := verifChoose("orgMin", 0, 1) == 1
	ilo, ihi := verifC03cIloIhi(n)
	lda := n + pad
	a0 := verifC03cMat(n, n, lda, 13*n+5)
	verifC03cIsolate(n, ilo, ihi, a0, lda)
	anorm := verifC03cMaxAbs(n, n, a0, lda)
	tol := verifC03cTol * float64(n) * math.Max(1, anorm)
	q := make([]float64, 1)
	impl.Dgehrd(n, ilo, ihi, verifC03cClone(a0), lda, nil, q, -1)
	opt := int(q[0])
	a, tau := verifC03cClone(a0), verifC03cBlank(1, n-1, n, 1e7)[:n-1]
	work, lwork := verifC03cWork(true, max(1, n), opt+n+5, nil)
	panicked, _, msg := verifCatch(func() { impl.Dgehrd(n, ilo, ihi, a, lda, tau, work, lwork) })
	verifAssert(!panicked, "Dgehrd: no panic or runtime fault for an admissible workspace length ("+msg+")")
	if panicked {
		return
	}
	if ihi-ilo+1 > 1 {
		verifAssert(work[0] >= float64(opt), "Dgehrd: work[0] on return is at least the queried optimum")
	}
	verifC03cPadSame(n, n, lda, a, a0, "Dgehrd: padding of a untouched")
	tz := true
	for i := 0; i < n-1; i++ {
		if (i < ilo || i >= ihi) && tau[i] != 0 {
			tz = false
		}
	}
	verifAssert(tz, "Dgehrd: tau[:ilo] and tau[ihi:] are zero")
	h := make([]float64, n*n)
	for i := 0; i < n; i++ {
		for j := max(0, i-1); j < n; j++ {
			h[i*n+j] = a[i*lda+j]
		}
	}
	lwq := max(1, ihi-ilo)
	if !orgMin {
		impl.Dorghr(n, ilo, ihi, a, lda, tau, q, -1)
		lwq = int(q[0]) + 1
	}
	a1 := verifC03cClone(a)
	wq := make([]float64, lwq)
	panicked, _, msg = verifCatch(func() { impl.Dorghr(n, ilo, ihi, a, lda, tau, wq, lwq) })
	verifAssert(!panicked, "Dorghr: no panic or runtime fault ("+msg+")")
	if panicked {
		return
	}
	verifC03cPadSame(n, n, lda, a, a1, "Dorghr: padding of a untouched")
	verifAssert(verifC03cOrthoCols(n, n, a, lda) <= tol, "Dorghr: Q orthogonal")
	id := true
	for i := 0; i < n; i++ {
		for j := 0; j < n; j++ {
			if (i <= ilo || i > ihi || j <= ilo || j > ihi) && ((i == j && a[i*lda+j] != 1) || (i != j && a[i*lda+j] != 0)) {
				id = false
			}
		}
	}
	verifAssert(id, "Dorghr: Q is the identity outside [ilo+1, ihi]")
	qa, _, _ := verifC03cMul(true, n, n, a, lda, false, n, n, a0, lda)
	qaq, _, _ := verifC03cMul(false, n, n, qa, n, false, n, n, a, lda)
	verifAssert(verifC03cDist(n, n, qaq, n, h, n) <= tol, "Dgehrd/Dorghr: Qᵀ*A*Q = H (upper Hessenberg)")
	verifReach("end")
}

// verifC03cEigSorted returns the eigenvalues sorted by (real part, imaginary part).
func verifC03cEigSorted(wr, wi []float64) (sr, si []float64) {
	sr, si = verifC03cClone(wr), verifC03cClone(wi)
	for i := 1; i < len(sr); i++ {
		for j := i; j > 0 && (sr[j] < sr[j-1]-1e-7 || (math.Abs(sr[j]-sr[j-1]) <= 1e-7 && si[j] < si[j-1])); j-- {
			sr[j], sr[j-1] = sr[j-1], sr[j]
			si[j], si[j-1] = si[j-1], si[j]
		}
	}
	return sr, si
}

// verifC03cPairs: complex eigenvalues are adjacent conjugate pairs, positive imaginary part first.
func verifC03cPairs(wr, wi []float64) bool {
	n := len(wr)
	for i := 0; i < n; i++ {
		switch {
		case wr[i] != wr[i] || wi[i] != wi[i]:
			return false
		case wi[i] > 0:
			if i+1 >= n || wi[i+1] != -wi[i] || wr[i+1] != wr[i] {
				return false
			}
			i++
		case wi[i] < 0:
			return false
		}
	}
	return true
}

// VerifC03_ConfigDhseqr: Hessenberg QR on concrete upper Hessenberg H (n <= 8: the Dlahqr
// regime), job x compz x paddings case-split, full and inner [ilo, ihi], lwork symbolic in
// [n, big]: Q0*H*Q0ᵀ = Z*T*Zᵀ, Z orthogonal, T quasi-triangular in standard form with
// wr/wi its block eigenvalues, conjugate pairs ordered, values-only run agrees.
func VerifC03_ConfigDhseqr() {
	impl := Implementation{}
	n := verifC03cSmallN[verifChoose("ni", 0, verifParam("hseqrn", 4))]
	if n == 5 {
		n = 6
	}
	job := []lapack.SchurJob{lapack.EigenvaluesOnly, lapack.EigenvaluesAndSchur}[verifChoose("job", 0, 1)]
	compz := []lapack.SchurComp{lapack.SchurNone, lapack.SchurHess, lapack.SchurOrig}[verifChoose("compz", 0, 2)]
	padh := []int{0, 1, 3}[verifChoose("pad", 0, 2)]
	padz := 3 - padh
	ilo, ihi := verifC03cIloIhi(n)
	ldh, ldz := n+padh, n+padz
	h0 := verifC03cMat(n, n, ldh, 19*n+2)
	for i := 0; i < n; i++ {
		for j := 0; j+1 < i; j++ {
			h0[i*ldh+j] = 0
		}
	}
	verifC03cIsolate(n, ilo, ihi, h0, ldh)
	hnorm := verifC03cMaxAbs(n, n, h0, ldh)
	tol := verifC03cTol * float64(n) * math.Max(1, hnorm)
	var z0 []float64
	switch compz {
	case lapack.SchurNone:
		ldz = 1 + padz
		z0 = verifC03cBlank(1, 1, ldz, 9e7)
	case lapack.SchurHess:
		z0 = verifC03cBlank(n, n, ldz, 9e7)
	default:
		z0 = verifC03cHouse(n, ilo, ihi, ldz, 5*n+1)
	}
	q := make([]float64, 1)
	impl.Dhseqr(job, compz, n, ilo, ihi, nil, ldh, nil, nil, nil, ldz, q, -1)
	opt := int(q[0])
	wr0, wi0 := make([]float64, n), make([]float64, n)
	impl.Dhseqr(lapack.EigenvaluesOnly, lapack.SchurNone, n, ilo, ihi, verifC03cClone(h0), ldh, wr0, wi0, nil, 1, make([]float64, n), n)

	h, z := verifC03cClone(h0), verifC03cClone(z0)
	wr, wi := verifC03cBlank(1, n, n, 1e7), verifC03cBlank(1, n, n, 1e7)
	work, lwork := verifC03cWork(true, max(1, n), opt+11*n+5, nil)
	unconv := -1
	panicked, _, msg := verifCatch(func() {
		unconv = impl.Dhseqr(job, compz, n, ilo, ihi, h, ldh, wr, wi, z, ldz, work, lwork)
	})
	verifAssert(!panicked, "Dhseqr: no panic or runtime fault for an admissible workspace length ("+msg+")")
	if panicked {
		return
	}
	verifAssert(unconv == 0, "Dhseqr: converged")
	verifAssert(verifC03cPairs(wr, wi), "Dhseqr: complex eigenvalues are adjacent conjugate pairs, positive imaginary part first")
	sr, si := verifC03cEigSorted(wr, wi)
	sr0, si0 := verifC03cEigSorted(wr0, wi0)
	verifAssert(verifC03cDist(1, n, sr, n, sr0, n) <= 1e-9*math.Max(1, hnorm)*float64(n) && verifC03cDist(1, n, si, n, si0, n) <= 1e-9*math.Max(1, hnorm)*float64(n),
		"Dhseqr: eigenvalues agree with the values-only run at minimal workspace")
	verifC03cPadSame(n, n, ldh, h, h0, "Dhseqr: padding of h untouched")
	if compz == lapack.SchurNone {
		verifC03cAllSame(z, z0, "Dhseqr: z not referenced for SchurNone")
	} else {
		verifC03cPadSame(n, n, ldz, z, z0, "Dhseqr: padding of z untouched")
		verifAssert(verifC03cOrthoCols(n, n, z, ldz) <= tol, "Dhseqr: Z orthogonal")
	}
	if job == lapack.EigenvaluesAndSchur {
		std := true
		for i := 0; i < n; i++ {
			for j := 0; j+1 < i; j++ {
				if h[i*ldh+j] != 0 {
					std = false
				}
			}
			if wr[i] != h[i*ldh+i] {
				std = false
			}
			if i+1 < n && h[(i+1)*ldh+i] != 0 {
				b, c := h[i*ldh+i+1], h[(i+1)*ldh+i]
				if h[i*ldh+i] != h[(i+1)*ldh+i+1] || !(b*c < 0) || math.Abs(wi[i]-math.Sqrt(-b*c)) > tol || (i+2 < n && h[(i+2)*ldh+i+1] != 0) {
					std = false
				}
			} else if (i == 0 || h[i*ldh+i-1] == 0) && wi[i] != 0 {
				std = false
			}
		}
		verifAssert(std, "Dhseqr: T is upper quasi-triangular in standard form and wr, wi are its block eigenvalues")
		if compz != lapack.SchurNone {
			// left = Q0*H0*Q0ᵀ (Q0 = I for SchurHess), right = Z*T*Zᵀ
			left := verifC03cRepack(n, n, h0, ldh, n)
			if compz == lapack.SchurOrig {
				x, _, _ := verifC03cMul(false, n, n, z0, ldz, false, n, n, h0, ldh)
				left, _, _ = verifC03cMul(false, n, n, x, n, true, n, n, z0, ldz)
			}
			y, _, _ := verifC03cMul(false, n, n, z, ldz, false, n, n, h, ldh)
			right, _, _ := verifC03cMul(false, n, n, y, n, true, n, n, z, ldz)
			verifAssert(verifC03cDist(n, n, left, n, right, n) <= tol, "Dhseqr: Q*H*Qᵀ = Z*T*Zᵀ")
		}
	}
	verifReach("end")
}

// verifC03cEigVecs checks the right (left == false: A*v = lambda*v) or left (uᴴ*A =
// lambda*uᴴ) eigenvectors stored as by Dgeev/Dtrevc3; returns the largest residual, the
// largest deviation of a Euclidean norm from 1 and whether a largest component is real.
func verifC03cEigVecs(left bool, n int, a []float64, lda int, wr, wi, v []float64, ldv int) (res, nrm float64, real bool) {
	real = true
	for j := 0; j < n; j++ {
		re, im := make([]float64, n), make([]float64, n)
		for i := 0; i < n; i++ {
			re[i] = v[i*ldv+j]
			if wi[j] != 0 {
				im[i] = v[i*ldv+j+1]
			}
		}
		lr, li := wr[j], wi[j]
		if left { // uᴴ A = lambda uᴴ  <=>  Aᵀ u = conj(lambda) u
			li = -li
		}
		s2, big2 := 0.0, 0.0
		for i := 0; i < n; i++ {
			ar, ai := 0.0, 0.0
			for l := 0; l < n; l++ {
				x := a[i*lda+l]
				if left {
					x = a[l*lda+i]
				}
				ar += x * re[l]
				ai += x * im[l]
			}
			res = math.Max(res, math.Max(math.Abs(ar-(lr*re[i]-li*im[i])), math.Abs(ai-(lr*im[i]+li*re[i]))))
			if ar != ar || ai != ai {
				res = math.Inf(1)
			}
			m2 := re[i]*re[i] + im[i]*im[i]
			s2 += m2
			big2 = math.Max(big2, m2)
		}
		nrm = math.Max(nrm, math.Abs(math.Sqrt(s2)-1))
		ok := false
		for i := 0; i < n; i++ {
			if re[i]*re[i]+im[i]*im[i] >= big2*(1-1e-9) && im[i] == 0 {
				ok = true
			}
		}
		real = real && ok
		if wi[j] != 0 {
			j++
		}
	}
	return res, nrm, real
}

// VerifC03_ConfigDgeev: jobvl x jobvr x paddings of a, vl, vr case-split, n in
// {1,2,3,4,6,8}; lwork symbolic in [3n, big] without vectors; with vectors (Dorghr ->
// Dorg2r loops over the workspace, Dtrevc3 derives its block size nb = (lwork-2n)/(2n)
// from the length) lwork is case-split over minimum, optimum +-1, the ends of the
// Dtrevc3 classes nb = 7 (unblocked), 8, 9, .., 127, 128 and big.
func VerifC03_ConfigDgeev() {
	impl := Implementation{}
	n := []int{3, 8, 1, 2, 4, 6}[verifChoose("ni", 0, verifParam("geevn", 5))]
	wantvl, wantvr := verifChoose("jobvl", 0, 1) == 1, verifChoose("jobvr", 0, 1) == 1
	jobvl, jobvr := lapack.LeftEVNone, lapack.RightEVNone
	if wantvl {
		jobvl = lapack.LeftEVCompute
	}
	if wantvr {
		jobvr = lapack.RightEVCompute
	}
	var pa, pl, pr int
	if verifParam("geevpads", 0) == 0 {
		i := verifChoose("pads", 0, 2)
		pa, pl, pr = []int{0, 1, 3}[i], []int{1, 3, 0}[i], []int{3, 0, 1}[i]
	} else {
		pa, pl, pr = verifC03cPads("pads")
	}
	lda, ldvl, ldvr := n+pa, 1+pl, 1+pr
	var vl0, vr0 []float64
	if wantvl {
		ldvl = n + pl
		vl0 = verifC03cBlank(n, n, ldvl, 2e7)
	}
	if wantvr {
		ldvr = n + pr
		vr0 = verifC03cBlank(n, n, ldvr, 4e7)
	}
	a0 := verifC03cMat(n, n, lda, 23*n+1)
	anorm := verifC03cMaxAbs(n, n, a0, lda)
	tol := 1e-9 * float64(n) * math.Max(1, anorm)
	minw := 3 * n
	if wantvl || wantvr {
		minw = 4 * n
	}
	q := make([]float64, 1)
	impl.Dgeev(jobvl, jobvr, n, verifC03cClone(a0), lda, nil, nil, nil, ldvl, nil, ldvr, q, -1)
	opt := int(q[0])
	wr0, wi0 := make([]float64, n), make([]float64, n)
	impl.Dgeev(lapack.LeftEVNone, lapack.RightEVNone, n, verifC03cClone(a0), lda, wr0, wi0, nil, 1, nil, 1, make([]float64, 3*n), 3*n)

	big := max(opt, 2*n+2*n*129) + 9
	cand := []int{minw, minw + 1, opt - 1, opt, opt + 1, big}
	cand = verifC03cBlockCand(cand, 2*n, 2*n, 8, 10)
	cand = verifC03cBlockCand(cand, 2*n, 2*n, 128, 128)
	a, vl, vr := verifC03cClone(a0), verifC03cClone(vl0), verifC03cClone(vr0)
	wr, wi := verifC03cBlank(1, n, n, 1e7), verifC03cBlank(1, n, n, 1e7)
	work, lwork := verifC03cWork(!wantvl && !wantvr, minw, big, cand)
	first := -1
	panicked, _, msg := verifCatch(func() {
		first = impl.Dgeev(jobvl, jobvr, n, a, lda, wr, wi, vl, ldvl, vr, ldvr, work, lwork)
	})
	verifAssert(!panicked, "Dgeev: no panic or runtime fault for an admissible workspace length ("+msg+")")
	if panicked {
		return
	}
	verifAssert(first == 0, "Dgeev: converged")
	verifObserveF("wr0", wr[0])
	verifAssert(work[0] >= float64(opt), "Dgeev: work[0] on return is at least the queried optimum")
	verifAssert(verifC03cPairs(wr, wi), "Dgeev: complex eigenvalues are adjacent conjugate pairs, positive imaginary part first")
	sr, si := verifC03cEigSorted(wr, wi)
	sr0, si0 := verifC03cEigSorted(wr0, wi0)
	verifAssert(verifC03cDist(1, n, sr, n, sr0, n) <= tol && verifC03cDist(1, n, si, n, si0, n) <= tol,
		"Dgeev: eigenvalues agree with the values-only run at minimal workspace")
	verifC03cPadSame(n, n, lda, a, a0, "Dgeev: padding of a untouched")
	if wantvr {
		verifC03cPadSame(n, n, ldvr, vr, vr0, "Dgeev: padding of vr untouched")
		res, nrm, real := verifC03cEigVecs(false, n, a0, lda, wr, wi, vr, ldvr)
		verifAssert(res <= tol, "Dgeev: A*v = lambda*v")
		verifAssert(nrm <= 1e-10 && real, "Dgeev: right eigenvectors have unit norm and a real largest component")
	}
	if wantvl {
		verifC03cPadSame(n, n, ldvl, vl, vl0, "Dgeev: padding of vl untouched")
		res, nrm, real := verifC03cEigVecs(true, n, a0, lda, wr, wi, vl, ldvl)
		verifAssert(res <= tol, "Dgeev: uᴴ*A = lambda*uᴴ")
		verifAssert(nrm <= 1e-10 && real, "Dgeev: left eigenvectors have unit norm and a real largest component")
	}
	verifReach("end")
}

// VerifC03_ConfigDhseqrWork0 (OPEN VIOLATION, not registered): the documentation of Dhseqr
// says "On return, work[0] will contain the optimal value of lwork". The value returned is
// max(n, work[0] on entry) on the Dlahqr path and work[0] is not written at all when
// ilo == ihi, because the initial assignment work[0] = max(1,n) of the reference is missing.
func VerifC03_ConfigDhseqrWork0() {
	impl := Implementation{}
	n := verifChoose("n", 1, 4)
	entry := []float64{0, 5e7}[verifChoose("entry", 0, 1)]
	h := verifC03cMat(n, n, n, 19*n+2)
	for i := 0; i < n; i++ {
		for j := 0; j+1 < i; j++ {
			h[i*n+j] = 0
		}
	}
	q := make([]float64, 1)
	impl.Dhseqr(lapack.EigenvaluesOnly, lapack.SchurNone, n, 0, n-1, nil, n, nil, nil, nil, 1, q, -1)
	work := make([]float64, n+3)
	work[0] = entry
	impl.Dhseqr(lapack.EigenvaluesOnly, lapack.SchurNone, n, 0, n-1, h, n, make([]float64, n), make([]float64, n), nil, 1, work, len(work))
	verifAssert(work[0] == q[0], "Dhseqr: work[0] on return is the optimal lwork reported by the query")
	verifReach("end")
}

// VerifC03_ConfigBlockedDgebrdTall / ...Wide / ...Dgehrd (thorough tier only; need max_steps
// 5e8): the blocked reductions whose crossover is nx = 128: Dgebrd 130x129, Dgebrd 129x130,
// Dgehrd n = 130. ONE path per harness (a path of this size needs about 3 GB in the
// interpreter, so the lwork classes are visited sequentially instead of by a case split):
// lwork = representatives of the classes unblocked (minimum+1), nb = 2 (lower end), nb = 31
// (upper end), nb = 32 (optimum). The result (a, d, e, tau) must agree to 1e-9 with the
// unblocked run (the same reflectors in exact arithmetic), whose identities are checked at
// small orders by the other harnesses; paddings untouched; no panic or runtime fault.
func VerifC03_ConfigBlockedDgebrdTall() { verifC03cBlockedBig(0) }
func VerifC03_ConfigBlockedDgebrdWide() { verifC03cBlockedBig(1) }
func VerifC03_ConfigBlockedDgehrd()     { verifC03cBlockedBig(2) }

func verifC03cBlockedBig(which int) {
	impl := Implementation{}
	pad := 3
	clo, chi := verifParam("bigclo", 0), verifParam("bigchi", 3)
	switch which {
	case 0, 1:
		m, n := 130, 129
		if which == 1 {
			m, n = n, m
		}
		lda, mn := n+pad, 129
		a0 := verifC03cMat(m, n, lda, 1000+which)
		anorm := verifC03cMaxAbs(m, n, a0, lda)
		tol := 1e-9 * math.Max(1, anorm) * float64(m+n)
		lw0 := max(m, n)
		aref := verifC03cClone(a0)
		dr, er, tqr, tpr := make([]float64, mn), make([]float64, mn-1), make([]float64, mn), make([]float64, mn)
		impl.Dgebrd(m, n, aref, lda, dr, er, tqr, tpr, make([]float64, lw0), lw0)
		for cls := clo; cls <= chi; cls++ {
			lwork := []int{lw0 + 1, (m + n) * 2, (m+n)*32 - 1, (m + n) * 32}[cls]
			a := verifC03cClone(a0)
			d, e, tq, tp := make([]float64, mn), make([]float64, mn-1), make([]float64, mn), make([]float64, mn)
			work := make([]float64, lwork)
			panicked, _, msg := verifCatch(func() { impl.Dgebrd(m, n, a, lda, d, e, tq, tp, work, lwork) })
			verifAssert(!panicked, "Dgebrd(blocked): no panic or runtime fault ("+msg+")")
			if panicked {
				return
			}
			verifC03cPadSame(m, n, lda, a, a0, "Dgebrd(blocked): padding of a untouched")
			verifAssert(verifC03cDist(m, n, a, lda, aref, lda) <= tol && verifC03cDist(1, mn, d, mn, dr, mn) <= tol &&
				verifC03cDist(1, mn-1, e, mn, er, mn) <= tol && verifC03cDist(1, mn, tq, mn, tqr, mn) <= tol && verifC03cDist(1, mn, tp, mn, tpr, mn) <= tol,
				"Dgebrd(blocked): agrees with the unblocked reduction")
		}
	default:
		n := 130
		lda := n + pad
		const tsize = 65 * 64
		a0 := verifC03cMat(n, n, lda, 1002)
		anorm := verifC03cMaxAbs(n, n, a0, lda)
		tol := 1e-9 * math.Max(1, anorm) * float64(n)
		aref, tr := verifC03cClone(a0), make([]float64, n-1)
		impl.Dgehrd(n, 0, n-1, aref, lda, tr, make([]float64, n), n)
		for cls := clo; cls <= chi; cls++ {
			lwork := []int{n + 1, tsize + n*2, tsize + n*32 - 1, tsize + n*32}[cls]
			a, tau := verifC03cClone(a0), make([]float64, n-1)
			work := make([]float64, lwork)
			panicked, _, msg := verifCatch(func() { impl.Dgehrd(n, 0, n-1, a, lda, tau, work, lwork) })
			verifAssert(!panicked, "Dgehrd(blocked): no panic or runtime fault ("+msg+")")
			if panicked {
				return
			}
			verifC03cPadSame(n, n, lda, a, a0, "Dgehrd(blocked): padding of a untouched")
			verifAssert(verifC03cDist(n, n, a, lda, aref, lda) <= tol && verifC03cDist(1, n-1, tau, n, tr, n) <= tol,
				"Dgehrd(blocked): agrees with the unblocked reduction")
		}
	}
	verifReach("end")
}
