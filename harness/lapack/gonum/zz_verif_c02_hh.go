package gonum

import "gonum.org/v1/gonum/blas"

// ---- Householder generation: Dlarfg and the unblocked QR/LQ/RQ/QL built on it ----
//
// Model R (exact reals; sqrt(x) is r >= 0 with r*r == x). Every entry of the
// input is assumed to be exactly 0 or at least verifC02tiny in magnitude, which
// keeps |beta| >= safmin and therefore stays out of Dlarfg's rescaling loop
// (whose trip count is unbounded for symbolic reals). The rescaling loop itself
// is NOT covered.

const verifC02tiny = 1e-100

// verifC02assumeNotTiny: v == 0 or |v| >= 1e-100.
func verifC02assumeNotTiny(v float64) {
	verifAssume(verifOr(v == 0, verifOr(v >= verifC02tiny, v <= -verifC02tiny)))
}

// VerifC02_Dlarfg: for (alpha, x) of order n: either x == 0 and H = I
// (tau == 0, beta == alpha, x untouched), or
// beta^2 == alpha^2 + |x|^2 with sign(beta) == -sign(alpha) (alpha == 0 counts as +),
// 1 <= tau <= 2, tau*|w|^2 == 2 (H orthogonal), and H*(alpha; x) == (beta; 0)
// for H = I - tau*w*w^T, w = (1; v), v the returned x. Cells of x between the
// increments are untouched.
func VerifC02_Dlarfg() {
	n := verifChoose("n", verifParam("larfgnmin", 0), verifParam("larfgn", 3))
	incX := verifChoose("incX", 1, 2)
	nx := 0
	if n >= 2 {
		nx = 1 + (n-2)*incX
	}
	x := verifFloats("x", nx+verifChoose("slack", 0, 1))
	alpha := verifFloat("alpha")
	verifC02assumeNotTiny(alpha)
	for i := 0; i < n-1; i++ {
		verifC02assumeNotTiny(x[i*incX])
	}
	x0 := verifC02clone(x)
	beta, tau := Implementation{}.Dlarfg(n, alpha, x, incX)
	for i := range x {
		if i%incX != 0 || i/incX >= n-1 {
			verifAssert(verifSame(x[i], x0[i]), "Dlarfg: cells of x that are not vector elements are untouched")
		}
	}
	allZero := true
	var ss float64
	for i := 0; i < n-1; i++ {
		allZero = verifAnd(allZero, x0[i*incX] == 0)
		ss += x0[i*incX] * x0[i*incX]
	}
	if allZero {
		verifAssert(tau == 0, "Dlarfg: x == 0 gives tau == 0 (H = I)")
		verifAssert(verifSame(beta, alpha), "Dlarfg: x == 0 gives beta == alpha")
		verifC02sameAll(x, x0, "Dlarfg: x == 0 leaves x untouched")
		verifReach("identity")
		return
	}
	verifAssertEqF(beta*beta, alpha*alpha+ss, "Dlarfg: beta^2 == alpha^2 + |x|^2")
	verifAssert(verifIff(alpha >= 0, beta < 0), "Dlarfg: beta has the sign opposite to alpha")
	verifAssert(verifAnd(1 <= tau, tau <= 2), "Dlarfg: 1 <= tau <= 2")
	// w = (1; v)
	ww := 1.0
	wx := alpha
	for i := 0; i < n-1; i++ {
		v := x[i*incX]
		ww += v * v
		wx += v * x0[i*incX]
	}
	verifAssertEqF(tau*ww, 2, "Dlarfg: tau*|w|^2 == 2, i.e. H is orthogonal")
	verifAssertEqF(alpha-tau*wx, beta, "Dlarfg: first component of H*(alpha;x) is beta")
	for i := 0; i < n-1; i++ {
		verifAssertEqF(x0[i*incX]-tau*wx*x[i*incX], 0, "Dlarfg: H*(alpha;x) is zero below the first component")
	}
	verifReach("end")
}

// verifC02qrFamily: Dgeqr2/Dgeqrf (A = Q*R), Dgelq2/Dgelqf (A = L*Q),
// Dgerq2/Dgerqf (A = R*Q), Dgeql2 (A = Q*L) for the shapes in which every
// generated reflector has order <= 2 (the order-3 generation is not decided by
// z3): QR, QL: m <= 2, n <= 3; LQ, RQ: n <= 2, m <= 3.
// Checked: every returned reflector is orthogonal, hence Q (the documented
// product) is; Q^T applied to the input gives exactly the documented
// triangular/trapezoidal part of the result and exact zeros elsewhere
// (equivalent to A == Q*R etc. for orthogonal Q); padding is untouched.
//
// One entry point per factorization (a combined harness makes the incremental
// solver contexts markedly slower).
func VerifC02_Dgeqr2QR() { verifC02qrFamily(0, 1) }
func VerifC02_Dgelq2LQ() { verifC02qrFamily(2, 3) }
func VerifC02_Dgerq2RQ() { verifC02qrFamily(4, 5) }
func VerifC02_Dgeql2QL() { verifC02qrFamily(6, 6) }

func verifC02qrFamily(rmin, rmax int) {
	routine := verifChoose("routine", rmin, rmax) // 0 Dgeqr2 1 Dgeqrf 2 Dgelq2 3 Dgelqf 4 Dgerq2 5 Dgerqf 6 Dgeql2
	big := verifParam("qrbig", 3)
	// lwork of the blocked drivers: the documented minimum (qrlw=0) or
	// minimum / minimum+1 / generous (qrlw=1); the independence of lwork is the
	// subject of VerifC02_LworkIndepF.
	lw := func(min int) int {
		if verifParam("qrlw", 0) == 0 {
			return min
		}
		return verifC02lworkChoice("lwork", min)
	}
	var m, n int
	colRefl := routine <= 1 || routine == 6 // reflectors act on columns: their order is bounded by m
	if colRefl {
		m = verifChoose("m", 0, 2)
		n = verifChoose("n", 0, big)
	} else {
		m = verifChoose("m", 0, big)
		n = verifChoose("n", 0, 2)
	}
	k := verifC02min(m, n)
	lda := verifC02ld("ldaPad", n)
	a := verifC02mat("a", m, n, lda)
	for i := 0; i < m; i++ {
		for j := 0; j < n; j++ {
			verifC02assumeNotTiny(a[i*lda+j])
		}
	}
	a0 := verifC02clone(a)
	tau := verifFloats("tau", k)
	impl := Implementation{}
	var who string
	var kind, nq int
	var ascending bool
	switch routine {
	case 0:
		who, kind, nq, ascending = "Dgeqr2", 0, m, true
		impl.Dgeqr2(m, n, a, lda, tau, verifFloats("work", n))
	case 1:
		who, kind, nq, ascending = "Dgeqrf", 0, m, true
		lwork := lw(verifC02max(1, n))
		impl.Dgeqrf(m, n, a, lda, tau, verifFloats("work", lwork), lwork)
	case 2:
		who, kind, nq, ascending = "Dgelq2", 1, n, false
		impl.Dgelq2(m, n, a, lda, tau, verifFloats("work", m))
	case 3:
		who, kind, nq, ascending = "Dgelqf", 1, n, false
		lwork := lw(verifC02max(1, m))
		impl.Dgelqf(m, n, a, lda, tau, verifFloats("work", lwork), lwork)
	case 4:
		who, kind, nq, ascending = "Dgerq2", 3, n, true
		impl.Dgerq2(m, n, a, lda, tau, verifFloats("work", m))
	case 5:
		who, kind, nq, ascending = "Dgerqf", 3, n, true
		lwork := lw(verifC02max(1, m))
		impl.Dgerqf(m, n, a, lda, tau, verifFloats("work", lwork), lwork)
	case 6:
		who, kind, nq, ascending = "Dgeql2", 2, m, false
		impl.Dgeql2(m, n, a, lda, tau, verifFloats("work", n))
	}
	verifC02samePad(a, a0, m, n, lda, who+": padding untouched")
	vs := verifC02vecs(kind, nq, k, m, n, a, lda)
	// Every H_i is orthogonal (H_i symmetric, H_i*H_i = I - tau*(2 - tau*|v|^2)*v*v^T),
	// hence so is their product Q.
	for i := 0; i < k; i++ {
		var vv float64
		for _, x := range vs[i] {
			vv += x * x
		}
		if tau[i] != 0 {
			verifAssertEqF(tau[i]*vv, 2, who+": every reflector is orthogonal (tau == 0 or tau*|v|^2 == 2)")
		}
	}
	// t(i,j): the triangular / trapezoidal factor as an m x n matrix.
	t := func(i, j int) float64 {
		in := false
		switch kind {
		case 0: // R upper trapezoidal
			in = i <= j
		case 1: // L lower trapezoidal
			in = j <= i
		case 3: // R: on and above the diagonal that ends in the bottom right corner
			in = j-(n-m) >= i
		case 2: // L: on and below the diagonal that ends in the bottom right corner
			in = i-(m-n) >= j
		}
		if in {
			return a[i*lda+j]
		}
		return 0
	}
	// With Q orthogonal, A == Q*T is equivalent to Q^T*A == T (QR, QL) and
	// A == T*Q to A*Q^T == T (LQ, RQ); this form follows the order of the
	// computation and is what z3 decides. It includes the exact zeros of T.
	want := verifC02clone(a0)
	side := blas.Left
	if kind == 1 || kind == 3 {
		side = blas.Right
	}
	verifC02applyQ(side, blas.Trans, m, n, want, lda, vs, tau, verifC02qOrder(k, ascending))
	for i := 0; i < m; i++ {
		for j := 0; j < n; j++ {
			verifAssertEqF(t(i, j), want[i*lda+j], who+": Q^T*A == R (QR), Q^T*A == L (QL), A*Q^T == L (LQ), A*Q^T == R (RQ)")
		}
	}
	verifReach("end")
}
