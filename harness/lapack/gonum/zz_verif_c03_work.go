package gonum

import (
	"gonum.org/v1/gonum/blas"
	"gonum.org/v1/gonum/lapack"
)

// Workspace-length contract of the eigenvalue / SVD drivers and reductions
// (dimensions and job flags are case-split over small concrete values: the
// drivers convert nested query results with int(work[0])).

const verifC03nWs = 14

var verifC03wsNames = [verifC03nWs]string{"Dsyev", "Dsytrd", "Dorgtr", "Dgebrd", "Dorgbr", "Dormbr", "Dgehrd", "Dorghr",
	"Dormhr", "Dhseqr", "Dtrevc3", "Dgeev", "Dgesvd", "Dggsvd3"}

// verifC03wsCase is one fully specified call.
type verifC03wsCase struct {
	call    func(work []float64, lwork int) // the routine with everything but the workspace bound
	minw    int                             // documented minimum lwork
	ops     [][]float64                     // float operands that a query must not touch
	iops    [][]int
	skipRun bool // no "minimum" run (only the queried length is documented to work)
}

func verifC03max(a ...int) int {
	m := a[0]
	for _, x := range a[1:] {
		if x > m {
			m = x
		}
	}
	return m
}

// verifC03arr returns a slice of n cells: symbolic (for the query / too-small
// checks, where bit-identity of every cell is asserted) or concrete data.
func verifC03arr(sym bool, name string, n int) []float64 {
	if n < 0 {
		n = 0
	}
	if sym {
		return verifFloats(name, n)
	}
	seed := 0
	for _, ch := range name {
		seed = seed*31 + int(ch)
	}
	return verifC02wsData(n, seed)
}

// verifC03wsBuild chooses the shape / flags of routine r and binds all arguments.
// lo is the smallest dimension explored (0 includes the quick-return shapes).
func verifC03wsBuild(r int, sym bool, lo int) verifC03wsCase {
	impl := Implementation{}
	hi := verifParam("ws3n", 3)
	pad := verifChoose("ldPad", 0, 1)
	ld := func(x int) int { return verifC03max(1, x) + pad }
	mat := func(name string, rows, cols, ldx int) []float64 {
		if rows <= 0 {
			return verifC03arr(sym, name, 0)
		}
		return verifC03arr(sym, name, (rows-1)*ldx+cols)
	}
	uplo := func() blas.Uplo { return verifC02uplo("uplo") }
	side := func() blas.Side { return verifC02side("side") }
	trans := func() blas.Transpose {
		if verifChoose("trans", 0, 1) == 1 {
			return blas.Trans
		}
		return blas.NoTrans
	}
	var c verifC03wsCase
	switch r {
	case 0: // Dsyev
		n := verifChoose("n", lo, hi)
		jobz := []lapack.EVJob{lapack.EVNone, lapack.EVCompute}[verifChoose("jobz", 0, 1)]
		ul := uplo()
		lda := ld(n)
		a, w := mat("a", n, n, lda), verifC03arr(sym, "w", n)
		if !sym { // symmetric data is irrelevant (only one triangle is read)
		}
		c.call = func(work []float64, lwork int) { impl.Dsyev(jobz, ul, n, a, lda, w, work, lwork) }
		c.minw = verifC03max(1, 3*n-1)
		c.ops = [][]float64{a, w}
	case 1: // Dsytrd
		n := verifChoose("n", lo, hi)
		ul := uplo()
		lda := ld(n)
		a, d, e, tau := mat("a", n, n, lda), verifC03arr(sym, "d", n), verifC03arr(sym, "e", n-1), verifC03arr(sym, "tau", n-1)
		c.call = func(work []float64, lwork int) { impl.Dsytrd(ul, n, a, lda, d, e, tau, work, lwork) }
		c.minw = 1
		c.ops = [][]float64{a, d, e, tau}
	case 2: // Dorgtr
		n := verifChoose("n", lo, hi)
		ul := uplo()
		lda := ld(n)
		a, tau := mat("a", n, n, lda), verifC03arr(sym, "tau", n-1)
		c.call = func(work []float64, lwork int) { impl.Dorgtr(ul, n, a, lda, tau, work, lwork) }
		c.minw = verifC03max(1, n-1)
		c.ops = [][]float64{a, tau}
	case 3: // Dgebrd
		m, n := verifChoose("m", lo, hi), verifChoose("n", lo, hi)
		mn := verifC02min(m, n)
		lda := ld(n)
		a := mat("a", m, n, lda)
		d, e, tq, tp := verifC03arr(sym, "d", mn), verifC03arr(sym, "e", mn-1), verifC03arr(sym, "tauq", mn), verifC03arr(sym, "taup", mn)
		c.call = func(work []float64, lwork int) { impl.Dgebrd(m, n, a, lda, d, e, tq, tp, work, lwork) }
		c.minw = verifC03max(1, m, n)
		c.ops = [][]float64{a, d, e, tq, tp}
	case 4: // Dorgbr
		m, n, k := verifChoose("m", lo, hi), verifChoose("n", lo, hi), verifChoose("k", lo, hi)
		wantq := verifChoose("vect", 0, 1) == 0
		vect := lapack.GeneratePT
		nt := verifC02min(n, k)
		if wantq {
			vect = lapack.GenerateQ
			nt = verifC02min(m, k)
			if n > m || n < verifC02min(m, k) {
				verifAssume(false)
			}
		} else if m > n || m < verifC02min(n, k) {
			verifAssume(false)
		}
		lda := ld(n)
		a, tau := mat("a", m, n, lda), verifC03arr(sym, "tau", nt)
		c.call = func(work []float64, lwork int) { impl.Dorgbr(vect, m, n, k, a, lda, tau, work, lwork) }
		c.minw = verifC03max(1, verifC02min(m, n))
		c.ops = [][]float64{a, tau}
	case 5: // Dormbr
		m, n, k := verifChoose("m", lo, hi), verifChoose("n", lo, hi), verifChoose("k", lo, hi)
		applyQ := verifChoose("vect", 0, 1) == 0
		vect := lapack.ApplyP
		if applyQ {
			vect = lapack.ApplyQ
		}
		sd, tr := side(), trans()
		nq, nw := n, m
		if sd == blas.Left {
			nq, nw = m, n
		}
		mk := verifC02min(nq, k)
		var lda int
		var a []float64
		if applyQ {
			lda = ld(mk)
			a = mat("a", nq, mk, lda)
		} else {
			lda = ld(nq)
			a = mat("a", mk, nq, lda)
		}
		ldc := ld(n)
		tau, cc := verifC03arr(sym, "tau", mk), mat("c", m, n, ldc)
		c.call = func(work []float64, lwork int) {
			impl.Dormbr(vect, sd, tr, m, n, k, a, lda, tau, cc, ldc, work, lwork)
		}
		c.minw = verifC03max(1, nw)
		c.ops = [][]float64{a, tau, cc}
	case 6, 7: // Dgehrd, Dorghr
		n := verifChoose("n", lo, hi)
		ilo, ihi := 0, -1
		if n > 0 {
			ilo = verifChoose("ilo", 0, n-1)
			ihi = verifChoose("ihi", ilo, n-1)
		}
		lda := ld(n)
		a, tau := mat("a", n, n, lda), verifC03arr(sym, "tau", n-1)
		if r == 6 {
			c.call = func(work []float64, lwork int) { impl.Dgehrd(n, ilo, ihi, a, lda, tau, work, lwork) }
			c.minw = verifC03max(1, n)
		} else {
			c.call = func(work []float64, lwork int) { impl.Dorghr(n, ilo, ihi, a, lda, tau, work, lwork) }
			c.minw = verifC03max(1, ihi-ilo)
		}
		c.ops = [][]float64{a, tau}
	case 8: // Dormhr
		m, n := verifChoose("m", lo, hi), verifChoose("n", lo, hi)
		sd, tr := side(), trans()
		nq, nw := n, m
		if sd == blas.Left {
			nq, nw = m, n
		}
		ilo, ihi := 0, -1
		if nq > 0 {
			ilo = verifChoose("ilo", 0, nq-1)
			ihi = verifChoose("ihi", ilo, nq-1)
		}
		lda, ldc := ld(nq), ld(n)
		a, tau, cc := mat("a", nq, nq, lda), verifC03arr(sym, "tau", nq-1), mat("c", m, n, ldc)
		c.call = func(work []float64, lwork int) {
			impl.Dormhr(sd, tr, m, n, ilo, ihi, a, lda, tau, cc, ldc, work, lwork)
		}
		c.minw = verifC03max(1, nw)
		c.ops = [][]float64{a, tau, cc}
	case 9: // Dhseqr
		n := verifChoose("n", lo, hi)
		job := []lapack.SchurJob{lapack.EigenvaluesOnly, lapack.EigenvaluesAndSchur}[verifChoose("job", 0, 1)]
		compz := []lapack.SchurComp{lapack.SchurNone, lapack.SchurHess, lapack.SchurOrig}[verifChoose("compz", 0, 2)]
		ilo, ihi := 0, n-1
		ldh, ldz := ld(n), ld(n)
		h, z := mat("h", n, n, ldh), mat("z", n, n, ldz)
		if !sym { // upper Hessenberg input
			for i := 0; i < n; i++ {
				for j := 0; j+1 < i; j++ {
					h[i*ldh+j] = 0
				}
			}
		}
		wr, wi := verifC03arr(sym, "wr", n), verifC03arr(sym, "wi", n)
		c.call = func(work []float64, lwork int) {
			impl.Dhseqr(job, compz, n, ilo, ihi, h, ldh, wr, wi, z, ldz, work, lwork)
		}
		c.minw = verifC03max(1, n)
		c.ops = [][]float64{h, z, wr, wi}
	case 10: // Dtrevc3 (howmny All / AllMulQ; Selected standardises `selected` even in a query, as reference LAPACK)
		n := verifChoose("n", lo, hi)
		sd := []lapack.EVSide{lapack.EVRight, lapack.EVLeft, lapack.EVBoth}[verifChoose("evside", 0, 2)]
		how := []lapack.EVHowMany{lapack.EVAll, lapack.EVAllMulQ}[verifChoose("howmny", 0, 1)]
		ldt, ldv := ld(n), ld(n)
		t, vl, vr := mat("t", n, n, ldt), mat("vl", n, n, ldv), mat("vr", n, n, ldv)
		if !sym { // upper triangular (real eigenvalues)
			for i := 0; i < n; i++ {
				for j := 0; j < i; j++ {
					t[i*ldt+j] = 0
				}
			}
		}
		c.call = func(work []float64, lwork int) {
			impl.Dtrevc3(sd, how, nil, n, t, ldt, vl, ldv, vr, ldv, n, work, lwork)
		}
		c.minw = verifC03max(1, 3*n)
		c.ops = [][]float64{t, vl, vr}
	case 11: // Dgeev
		n := verifChoose("n", lo, hi)
		wantvl, wantvr := verifChoose("jobvl", 0, 1) == 1, verifChoose("jobvr", 0, 1) == 1
		jobvl, jobvr := lapack.LeftEVNone, lapack.RightEVNone
		if wantvl {
			jobvl = lapack.LeftEVCompute
		}
		if wantvr {
			jobvr = lapack.RightEVCompute
		}
		lda, ldv := ld(n), ld(n)
		a, vl, vr := mat("a", n, n, lda), mat("vl", n, n, ldv), mat("vr", n, n, ldv)
		wr, wi := verifC03arr(sym, "wr", n), verifC03arr(sym, "wi", n)
		c.call = func(work []float64, lwork int) {
			impl.Dgeev(jobvl, jobvr, n, a, lda, wr, wi, vl, ldv, vr, ldv, work, lwork)
		}
		c.minw = verifC03max(1, 3*n)
		if wantvl || wantvr {
			c.minw = verifC03max(1, 4*n)
		}
		c.ops = [][]float64{a, vl, vr, wr, wi}
	case 12: // Dgesvd
		dims := []int{0, 1, 2, 3, 5}
		m := dims[verifChoose("mi", lo, verifParam("ws3svd", 4))]
		n := dims[verifChoose("ni", lo, verifParam("ws3svd", 4))]
		jobs := []lapack.SVDJob{lapack.SVDNone, lapack.SVDStore, lapack.SVDAll}
		jobU, jobVT := jobs[verifChoose("jobU", 0, 2)], jobs[verifChoose("jobVT", 0, 2)]
		mn := verifC02min(m, n)
		lda := ld(n)
		ucols, vtrows := m, n
		if jobU == lapack.SVDStore {
			ucols = mn
		}
		if jobVT == lapack.SVDStore {
			vtrows = mn
		}
		ldu, ldvt := ld(ucols), ld(n)
		if jobU == lapack.SVDAll {
			ldu = ld(m)
		}
		a, s := mat("a", m, n, lda), verifC03arr(sym, "s", mn)
		u, vt := mat("u", m, ucols, ldu), mat("vt", vtrows, n, ldvt)
		c.call = func(work []float64, lwork int) {
			impl.Dgesvd(jobU, jobVT, m, n, a, lda, s, u, ldu, vt, ldvt, work, lwork)
		}
		c.minw = 1
		if mn > 0 {
			c.minw = verifC03max(3*mn+verifC03max(m, n), 5*mn)
		}
		c.ops = [][]float64{a, s, u, vt}
	case 13: // Dggsvd3 (documented: lwork == -1 or lwork > n; only the queried length is promised to work)
		m, n, p := verifChoose("m", lo, hi), verifChoose("n", lo, hi), verifChoose("p", lo, hi)
		ju, jv, jq := lapack.GSVDNone, lapack.GSVDNone, lapack.GSVDNone
		if verifChoose("jobs", 0, 1) == 1 {
			ju, jv, jq = lapack.GSVDU, lapack.GSVDV, lapack.GSVDQ
		}
		lda, ldb, ldu, ldv, ldq := ld(n), ld(n), ld(m), ld(p), ld(n)
		a, b := mat("a", m, n, lda), mat("b", p, n, ldb)
		alpha, beta := verifC03arr(sym, "alpha", n), verifC03arr(sym, "beta", n)
		u, v, q := mat("u", m, m, ldu), mat("v", p, p, ldv), mat("q", n, n, ldq)
		iwork := make([]int, n)
		for i := range iwork {
			iwork[i] = 100 + i
		}
		c.call = func(work []float64, lwork int) {
			impl.Dggsvd3(ju, jv, jq, m, n, p, a, lda, b, ldb, alpha, beta, u, ldu, v, ldv, q, ldq, work, lwork, iwork)
		}
		c.minw = n + 1
		c.skipRun = true
		c.ops = [][]float64{a, b, alpha, beta, u, v, q}
		c.iops = [][]int{iwork}
	}
	return c
}

func verifC03wsSnapshot(ops [][]float64) [][]float64 {
	out := make([][]float64, len(ops))
	for i, o := range ops {
		out[i] = append([]float64(nil), o...)
	}
	return out
}

func verifC03wsSame(ops, ops0 [][]float64, msg string) {
	for i := range ops {
		for j := range ops[i] {
			verifAssert(verifSame(ops[i][j], ops0[i][j]), msg)
		}
	}
}

func verifC03wsQuery(lo int) {
	r := verifChoose("routine", 0, verifC03nWs-1)
	c := verifC03wsBuild(r, true, lo)
	who := verifC03wsNames[r]
	work := verifFloats("work", 3)
	work0 := append([]float64(nil), work...)
	ops0 := verifC03wsSnapshot(c.ops)
	panicked, _, msg := verifCatch(func() { c.call(work, -1) })
	verifAssert(!panicked, who+": workspace query does not panic ("+msg+")")
	if panicked {
		return
	}
	verifAssert(work[0] >= float64(c.minw), who+": queried length is at least the documented minimum")
	verifAssert(verifAnd(verifSame(work[1], work0[1]), verifSame(work[2], work0[2])), who+": query writes only work[0]")
	verifC03wsSame(c.ops, ops0, who+": query does not touch any operand")
	for _, io := range c.iops {
		for i := range io {
			verifAssert(io[i] == 100+i, who+": query does not touch iwork")
		}
	}
	verifReach("end")
}

// VerifC03_WorkspaceQuery: lwork == -1 (all dimensions >= 1).
func VerifC03_WorkspaceQuery() { verifC03wsQuery(1) }

// VerifC03_WorkspaceQueryEmpty: the same including zero dimensions (quick returns).
func VerifC03_WorkspaceQueryEmpty() { verifC03wsQuery(0) }

// VerifC03_WorkspaceTooSmall: lwork == documented minimum - 1 panics explicitly and writes nothing.
func VerifC03_WorkspaceTooSmall() {
	r := verifChoose("routine", 0, verifC03nWs-1)
	// Concrete operand data: the panic must come from the prologue, before any
	// operand is read; should a routine accept the short workspace it then runs
	// concretely and the missing panic is reported (instead of exploring an
	// iterative solver symbolically).
	c := verifC03wsBuild(r, false, 0)
	who := verifC03wsNames[r]
	lwork := c.minw - 1
	if lwork == -1 {
		return
	}
	work := verifC03arr(false, "work", verifC03max(3, lwork))
	work0 := append([]float64(nil), work...)
	ops0 := verifC03wsSnapshot(c.ops)
	panicked, fault, msg := verifCatch(func() { c.call(work, lwork) })
	verifAssert(verifAnd(panicked, verifNot(fault)), who+": lwork below the documented minimum panics explicitly")
	if r != 13 { // Dggsvd3 reports it through Dggsvp3
		verifAssert(msg == badLWork, who+": the panic message is badLWork")
		verifC03wsSame(c.ops, ops0, who+": nothing written before the panic")
		for i := range work {
			verifAssert(verifSame(work[i], work0[i]), who+": work untouched before the panic")
		}
	}
	verifReach("end")
}

// VerifC03_WorkspaceMinimum: each routine runs to completion on concrete data with
// lwork == documented minimum, == queried optimum and == optimum + 1.
func VerifC03_WorkspaceMinimum() { verifC03wsRun(1) }

// VerifC03_WorkspaceMinimumEmpty: the same including zero dimensions.
func VerifC03_WorkspaceMinimumEmpty() { verifC03wsRun(0) }

func verifC03wsRun(lo int) {
	r := verifChoose("routine", 0, verifC03nWs-1)
	c := verifC03wsBuild(r, false, lo)
	who := verifC03wsNames[r]
	kind := verifChoose("lworkKind", 0, 2)
	lwork := c.minw
	if kind > 0 || c.skipRun {
		q := make([]float64, 1)
		c.call(q, -1)
		lwork = int(q[0]) + verifC03max(kind-1, 0)
	}
	work := make([]float64, verifC03max(1, lwork))
	panicked, fault, msg := verifCatch(func() { c.call(work, lwork) })
	verifAssert(verifNot(fault), who+": no runtime fault with an admissible workspace length")
	verifAssert(verifNot(panicked), who+": an admissible workspace length does not panic ("+msg+")")
	verifReach("end")
}
