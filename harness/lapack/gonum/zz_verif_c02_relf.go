package gonum

import (
	"math"

	"gonum.org/v1/gonum/blas"
)

// ---- relational checks in model F: independence of leading dimension and workspace length ----
//
// Model F: floats are IEEE bit patterns (NaN/Inf/-0 allowed), comparisons are
// exact, + - * / sqrt hypot are uninterpreted functions. Two runs of a routine
// that perform the same operations on the same operands in the same order
// therefore produce IDENTICAL terms, and verifSame (bit identity) between their
// results is decided without any arithmetic reasoning. The harnesses run a
// routine twice on the same logical matrix: once densely stored (ld = number of
// columns) and once with ld = columns + {1,2} and symbolic junk in the padding
// (resp. with a different workspace length), and require bit-identical logical
// results, equal pivots / flags and untouched padding.
//
// This is stronger than the property's "does not depend, beyond rounding":
// a violation means that the order or kind of floating-point operations depends
// on ld / lwork. At these sizes all blocked drivers use their unblocked kernels.

// verifC02relStore stores the rows x cols matrix vals (dense, row major) with
// leading dimension ld; padding cells are fresh symbolic values.
func verifC02relStore(name string, vals []float64, rows, cols, ld int) []float64 {
	a := verifC02mat(name, rows, cols, ld)
	for i := 0; i < rows; i++ {
		for j := 0; j < cols; j++ {
			a[i*ld+j] = vals[i*cols+j]
		}
	}
	return a
}

// verifC02relSame: logical entries of the two stored matrices are bit-identical.
func verifC02relSame(a1 []float64, ld1 int, a2 []float64, ld2 int, rows, cols int, msg string) {
	for i := 0; i < rows; i++ {
		for j := 0; j < cols; j++ {
			verifAssert(verifSame(a1[i*ld1+j], a2[i*ld2+j]), msg)
		}
	}
}

// verifC02noRescale keeps Dlarfg(2, alpha, x) out of its safmin rescaling loop
// (unbounded trip count with uninterpreted multiplication): the loop is entered
// when |hypot(alpha, |x|)| < safmin; the same term is built here and excluded.
func verifC02noRescale(alpha, x float64) {
	safmin := dlamchS / dlamchE
	verifAssume(verifNot(math.Abs(math.Hypot(alpha, math.Abs(x))) < safmin))
}

// VerifC02_LdIndepF: Dgetrf, Dpotrf, Dgetrs, Dgetri, Dtrtri, Dgeqrf, Dgelqf give
// bit-identical logical results for ld = cols and ld = cols + {1,2}.
func VerifC02_LdIndepF() {
	maxN := verifParam("reln", 3)
	routine := verifChoose("routine", 0, 6)
	extra := verifChoose("extra", verifParam("relextramin", 1), 2) // ld = cols + extra
	impl := Implementation{}
	switch routine {
	case 0: // Dgetrf
		m := verifChoose("m", 1, maxN)
		n := verifChoose("n", 1, maxN)
		vals := verifFloats("v", m*n)
		ld1, ld2 := n, n+extra
		a1 := verifC02relStore("a1", vals, m, n, ld1)
		a2 := verifC02relStore("a2", vals, m, n, ld2)
		p2 := verifC02clone(a2)
		ip1 := make([]int, verifC02min(m, n))
		ip2 := make([]int, verifC02min(m, n))
		ok1 := impl.Dgetrf(m, n, a1, ld1, ip1)
		ok2 := impl.Dgetrf(m, n, a2, ld2, ip2)
		verifAssert(ok1 == ok2, "Dgetrf: ok independent of lda")
		for i := range ip1 {
			verifAssert(ip1[i] == ip2[i], "Dgetrf: ipiv independent of lda")
		}
		verifC02relSame(a1, ld1, a2, ld2, m, n, "Dgetrf: factors bit-identical for lda = n and lda > n")
		verifC02samePad(a2, p2, m, n, ld2, "Dgetrf: padding untouched")
	case 1: // Dpotrf
		n := verifChoose("n", 1, maxN)
		uplo := verifC02uplo("uplo")
		vals := verifFloats("v", n*n)
		ld1, ld2 := n, n+extra
		a1 := verifC02relStore("a1", vals, n, n, ld1)
		a2 := verifC02relStore("a2", vals, n, n, ld2)
		p2 := verifC02clone(a2)
		ok1 := impl.Dpotrf(uplo, n, a1, ld1)
		ok2 := impl.Dpotrf(uplo, n, a2, ld2)
		verifAssert(ok1 == ok2, "Dpotrf: ok independent of lda")
		verifC02relSame(a1, ld1, a2, ld2, n, n, "Dpotrf: result bit-identical for lda = n and lda > n")
		verifC02samePad(a2, p2, n, n, ld2, "Dpotrf: padding untouched")
	case 2: // Dgetrs
		n := verifChoose("n", 1, maxN)
		nrhs := verifChoose("nrhs", 1, 2)
		trans := verifC02trans("trans")
		vals := verifFloats("v", n*n)
		bv := verifFloats("bv", n*nrhs)
		ipiv := verifInts("ipiv", n, 0, n-1)
		for i := range ipiv {
			verifAssume(ipiv[i] >= i)
		}
		ld1, ld2 := n, n+extra
		lb1, lb2 := nrhs, nrhs+extra
		a1 := verifC02relStore("a1", vals, n, n, ld1)
		a2 := verifC02relStore("a2", vals, n, n, ld2)
		b1 := verifC02relStore("b1", bv, n, nrhs, lb1)
		b2 := verifC02relStore("b2", bv, n, nrhs, lb2)
		pa2, pb2 := verifC02clone(a2), verifC02clone(b2)
		impl.Dgetrs(trans, n, nrhs, a1, ld1, ipiv, b1, lb1)
		impl.Dgetrs(trans, n, nrhs, a2, ld2, ipiv, b2, lb2)
		verifC02relSame(b1, lb1, b2, lb2, n, nrhs, "Dgetrs: solution bit-identical for dense and padded storage")
		verifC02sameAll(a2, pa2, "Dgetrs: factor and its padding untouched")
		verifC02samePad(b2, pb2, n, nrhs, lb2, "Dgetrs: padding of B untouched")
	case 3: // Dgetri
		n := verifChoose("n", 1, maxN)
		vals := verifFloats("v", n*n)
		ipiv := verifInts("ipiv", n, 0, n-1)
		for i := range ipiv {
			verifAssume(ipiv[i] >= i)
		}
		ld1, ld2 := n, n+extra
		a1 := verifC02relStore("a1", vals, n, n, ld1)
		a2 := verifC02relStore("a2", vals, n, n, ld2)
		p2 := verifC02clone(a2)
		ok1 := impl.Dgetri(n, a1, ld1, ipiv, verifFloats("w1", n), n)
		ok2 := impl.Dgetri(n, a2, ld2, ipiv, verifFloats("w2", n), n)
		verifAssert(ok1 == ok2, "Dgetri: ok independent of lda")
		verifC02relSame(a1, ld1, a2, ld2, n, n, "Dgetri: inverse bit-identical for lda = n and lda > n")
		verifC02samePad(a2, p2, n, n, ld2, "Dgetri: padding untouched")
	case 4: // Dtrtri
		n := verifChoose("n", 1, maxN)
		uplo := verifC02uplo("uplo")
		diag := verifC02diag("diag")
		vals := verifFloats("v", n*n)
		ld1, ld2 := n, n+extra
		a1 := verifC02relStore("a1", vals, n, n, ld1)
		a2 := verifC02relStore("a2", vals, n, n, ld2)
		p2 := verifC02clone(a2)
		ok1 := impl.Dtrtri(uplo, diag, n, a1, ld1)
		ok2 := impl.Dtrtri(uplo, diag, n, a2, ld2)
		verifAssert(ok1 == ok2, "Dtrtri: ok independent of lda")
		verifC02relSame(a1, ld1, a2, ld2, n, n, "Dtrtri: result bit-identical for lda = n and lda > n")
		verifC02samePad(a2, p2, n, n, ld2, "Dtrtri: padding untouched")
	case 5, 6: // Dgeqrf (m <= 2), Dgelqf (n <= 2): every generated reflector has order <= 2
		var m, n int
		if routine == 5 {
			m = verifChoose("m", 1, 2)
			n = verifChoose("n", 1, maxN)
		} else {
			m = verifChoose("m", 1, maxN)
			n = verifChoose("n", 1, 2)
		}
		vals := verifFloats("v", m*n)
		if routine == 5 && m == 2 {
			verifC02noRescale(vals[0], vals[n])
		}
		if routine == 6 && n == 2 {
			verifC02noRescale(vals[0], vals[1])
		}
		k := verifC02min(m, n)
		ld1, ld2 := n, n+extra
		a1 := verifC02relStore("a1", vals, m, n, ld1)
		a2 := verifC02relStore("a2", vals, m, n, ld2)
		p2 := verifC02clone(a2)
		t1, t2 := verifFloats("t1", k), verifFloats("t2", k)
		if routine == 5 {
			impl.Dgeqrf(m, n, a1, ld1, t1, verifFloats("w1", n), n)
			impl.Dgeqrf(m, n, a2, ld2, t2, verifFloats("w2", n), n)
		} else {
			impl.Dgelqf(m, n, a1, ld1, t1, verifFloats("w1", m), m)
			impl.Dgelqf(m, n, a2, ld2, t2, verifFloats("w2", m), m)
		}
		for i := 0; i < k; i++ {
			verifAssert(verifSame(t1[i], t2[i]), "Dgeqrf/Dgelqf: tau bit-identical for lda = n and lda > n")
		}
		verifC02relSame(a1, ld1, a2, ld2, m, n, "Dgeqrf/Dgelqf: factors bit-identical for lda = n and lda > n")
		verifC02samePad(a2, p2, m, n, ld2, "Dgeqrf/Dgelqf: padding untouched")
	}
	verifReach("end")
}

// verifC02queried returns the workspace length reported by an lwork = -1 call.
func verifC02queried(call func(work []float64)) int {
	w := make([]float64, 1)
	call(w)
	return int(w[0])
}

// VerifC02_LworkIndepF: Dgetri, Dgeqrf, Dgelqf, Dgerqf, Dorgqr, Dormqr give
// bit-identical results with lwork = documented minimum, = queried optimum and
// = optimum + 3 (work holds symbolic junk on entry; run 2 additionally uses a
// padded leading dimension when ldvar = 1).
func VerifC02_LworkIndepF() {
	maxN := verifParam("reln", 3)
	routine := verifChoose("routine", 0, 5)
	plus := 3 * verifChoose("plus3", 0, 1)
	extra := verifChoose("ldvar", 0, 1)
	impl := Implementation{}
	switch routine {
	case 0: // Dgetri
		n := verifChoose("n", 1, maxN)
		vals := verifFloats("v", n*n)
		ipiv := verifInts("ipiv", n, 0, n-1)
		for i := range ipiv {
			verifAssume(ipiv[i] >= i)
		}
		ld1, ld2 := n, n+extra
		a1 := verifC02relStore("a1", vals, n, n, ld1)
		a2 := verifC02relStore("a2", vals, n, n, ld2)
		p2 := verifC02clone(a2)
		lw1 := n
		lw2 := verifC02queried(func(w []float64) { impl.Dgetri(n, nil, ld2, nil, w, -1) }) + plus
		verifAssert(lw2 >= lw1, "Dgetri: queried lwork >= minimum")
		ok1 := impl.Dgetri(n, a1, ld1, ipiv, verifFloats("w1", lw1), lw1)
		ok2 := impl.Dgetri(n, a2, ld2, ipiv, verifFloats("w2", lw2), lw2)
		verifAssert(ok1 == ok2, "Dgetri: ok independent of lwork")
		verifC02relSame(a1, ld1, a2, ld2, n, n, "Dgetri: inverse bit-identical for minimal and optimal lwork")
		verifC02samePad(a2, p2, n, n, ld2, "Dgetri: padding untouched")
	case 1, 2, 3: // Dgeqrf (m <= 2), Dgelqf (n <= 2), Dgerqf (n <= 2)
		var m, n int
		if routine == 1 {
			m = verifChoose("m", 1, 2)
			n = verifChoose("n", 1, maxN)
		} else {
			m = verifChoose("m", 1, maxN)
			n = verifChoose("n", 1, 2)
		}
		vals := verifFloats("v", m*n)
		switch {
		case routine == 1 && m == 2:
			verifC02noRescale(vals[0], vals[n])
		case routine == 2 && n == 2:
			verifC02noRescale(vals[0], vals[1])
		case routine == 3 && n == 2:
			// the first (and only) order-2 reflector annihilates A[m-1][0] against A[m-1][1]
			verifC02noRescale(vals[(m-1)*n+1], vals[(m-1)*n])
		}
		k := verifC02min(m, n)
		ld1, ld2 := n, n+extra
		a1 := verifC02relStore("a1", vals, m, n, ld1)
		a2 := verifC02relStore("a2", vals, m, n, ld2)
		p2 := verifC02clone(a2)
		t1, t2 := verifFloats("t1", k), verifFloats("t2", k)
		var lw1, lw2 int
		switch routine {
		case 1:
			lw1 = n
			lw2 = verifC02queried(func(w []float64) { impl.Dgeqrf(m, n, nil, ld2, nil, w, -1) }) + plus
			impl.Dgeqrf(m, n, a1, ld1, t1, verifFloats("w1", lw1), lw1)
			impl.Dgeqrf(m, n, a2, ld2, t2, verifFloats("w2", lw2), lw2)
		case 2:
			lw1 = m
			lw2 = verifC02queried(func(w []float64) { impl.Dgelqf(m, n, nil, ld2, nil, w, -1) }) + plus
			impl.Dgelqf(m, n, a1, ld1, t1, verifFloats("w1", lw1), lw1)
			impl.Dgelqf(m, n, a2, ld2, t2, verifFloats("w2", lw2), lw2)
		case 3:
			lw1 = m
			lw2 = verifC02queried(func(w []float64) { impl.Dgerqf(m, n, nil, ld2, nil, w, -1) }) + plus
			impl.Dgerqf(m, n, a1, ld1, t1, verifFloats("w1", lw1), lw1)
			impl.Dgerqf(m, n, a2, ld2, t2, verifFloats("w2", lw2), lw2)
		}
		verifAssert(lw2 >= lw1, "queried lwork >= minimum")
		for i := 0; i < k; i++ {
			verifAssert(verifSame(t1[i], t2[i]), "Dgeqrf/Dgelqf/Dgerqf: tau bit-identical for minimal and optimal lwork")
		}
		verifC02relSame(a1, ld1, a2, ld2, m, n, "Dgeqrf/Dgelqf/Dgerqf: factors bit-identical for minimal and optimal lwork")
		verifC02samePad(a2, p2, m, n, ld2, "Dgeqrf/Dgelqf/Dgerqf: padding untouched")
	case 4: // Dorgqr, arbitrary reflectors
		m := verifChoose("m", 1, maxN)
		n := verifChoose("n", 1, m)
		k := verifChoose("k", 0, n)
		vals := verifFloats("v", m*n)
		tau := verifFloats("tau", k)
		ld1, ld2 := n, n+extra
		a1 := verifC02relStore("a1", vals, m, n, ld1)
		a2 := verifC02relStore("a2", vals, m, n, ld2)
		p2 := verifC02clone(a2)
		lw1 := n
		lw2 := verifC02queried(func(w []float64) { impl.Dorgqr(m, n, k, nil, ld2, nil, w, -1) }) + plus
		verifAssert(lw2 >= lw1, "Dorgqr: queried lwork >= minimum")
		impl.Dorgqr(m, n, k, a1, ld1, tau, verifFloats("w1", lw1), lw1)
		impl.Dorgqr(m, n, k, a2, ld2, tau, verifFloats("w2", lw2), lw2)
		verifC02relSame(a1, ld1, a2, ld2, m, n, "Dorgqr: Q bit-identical for minimal and optimal lwork")
		verifC02samePad(a2, p2, m, n, ld2, "Dorgqr: padding untouched")
	case 5: // Dormqr, arbitrary reflectors
		m := verifChoose("m", 1, 2)
		n := verifChoose("n", 1, 2)
		side := verifC02side("side")
		trans := blas.NoTrans
		if verifChoose("trans", 0, 1) == 1 {
			trans = blas.Trans
		}
		nq, nw := m, n
		if side == blas.Right {
			nq, nw = n, m
		}
		k := verifChoose("k", 1, nq)
		av := verifFloats("av", nq*k)
		cv := verifFloats("cv", m*n)
		tau := verifFloats("tau", k)
		a := verifC02relStore("a", av, nq, k, k)
		lc1, lc2 := n, n+extra
		c1 := verifC02relStore("c1", cv, m, n, lc1)
		c2 := verifC02relStore("c2", cv, m, n, lc2)
		p2 := verifC02clone(c2)
		lw1 := nw
		lw2 := verifC02queried(func(w []float64) { impl.Dormqr(side, trans, m, n, k, nil, k, nil, nil, lc2, w, -1) }) + plus
		verifAssert(lw2 >= lw1, "Dormqr: queried lwork >= minimum")
		impl.Dormqr(side, trans, m, n, k, a, k, tau, c1, lc1, verifFloats("w1", lw1), lw1)
		impl.Dormqr(side, trans, m, n, k, a, k, tau, c2, lc2, verifFloats("w2", lw2), lw2)
		verifC02relSame(c1, lc1, c2, lc2, m, n, "Dormqr: C bit-identical for minimal and optimal lwork")
		verifC02samePad(c2, p2, m, n, lc2, "Dormqr: padding of C untouched")
	}
	verifReach("end")
}
