package gonum

import "gonum.org/v1/gonum/blas"

// verifC02tridiagDet returns the determinants of all leading principal
// submatrices of the tridiagonal matrix (dl, d, du): det[k] is the k x k minor
// (three-term recurrence, det[0] = 1).
func verifC02tridiagDet(n int, dl, d, du []float64) []float64 {
	det := make([]float64, n+1)
	det[0] = 1
	for k := 1; k <= n; k++ {
		det[k] = d[k-1] * det[k-1]
		if k >= 2 {
			det[k] -= dl[k-2] * du[k-2] * det[k-2]
		}
	}
	return det
}

// VerifC02_Dgtsv: tridiagonal solve with partial pivoting: A*X == B when ok,
// ok == false exactly when A is singular.
func VerifC02_Dgtsv() {
	n := verifChoose("n", 0, verifParam("gtn", 4))
	nrhs := verifChoose("nrhs", 0, verifParam("nrhs", 2))
	ldb := verifC02ld("ldbPad", nrhs)
	slack := verifChoose("slack", 0, 1) // dl, d, du longer than needed
	nm1 := verifC02max(n-1, 0)
	dl := verifFloats("dl", nm1+slack)
	d := verifFloats("d", n+slack)
	du := verifFloats("du", nm1+slack)
	b := verifC02mat("b", n, nrhs, ldb)
	dl0, d0, du0, b0 := verifC02clone(dl), verifC02clone(d), verifC02clone(du), verifC02clone(b)
	ok := Implementation{}.Dgtsv(n, nrhs, dl, d, du, b, ldb)
	verifC02samePad(b, b0, n, nrhs, ldb, "Dgtsv: padding of B untouched")
	if slack == 1 {
		verifAssert(verifSame(dl[nm1], dl0[nm1]), "Dgtsv: dl beyond n-1 untouched")
		verifAssert(verifSame(d[n], d0[n]), "Dgtsv: d beyond n untouched")
		verifAssert(verifSame(du[nm1], du0[nm1]), "Dgtsv: du beyond n-1 untouched")
	}
	if n == 0 || nrhs == 0 {
		verifAssert(ok, "Dgtsv: quick return reports success")
		verifC02sameAll(d, d0, "Dgtsv: quick return modifies nothing")
		return
	}
	det := verifC02tridiagDet(n, dl0, d0, du0)
	verifAssert(verifIff(ok, det[n] != 0), "Dgtsv: ok == false exactly when A is singular")
	if !ok {
		verifReach("singular")
		return
	}
	for i := 0; i < n; i++ {
		for j := 0; j < nrhs; j++ {
			s := d0[i] * b[i*ldb+j]
			if i > 0 {
				s += dl0[i-1] * b[(i-1)*ldb+j]
			}
			if i < n-1 {
				s += du0[i] * b[(i+1)*ldb+j]
			}
			verifAssertEqF(s, b0[i*ldb+j], "Dgtsv: A*X == B")
		}
	}
	verifReach("end")
}

// VerifC02_Dpttrf: A == L*D*L^T with positive D when ok; ok exactly when A is positive definite.
func VerifC02_Dpttrf() {
	n := verifChoose("n", 0, verifParam("ptn", 6))
	slack := verifChoose("slack", 0, 1)
	nm1 := verifC02max(n-1, 0)
	d := verifFloats("d", n+slack)
	e := verifFloats("e", nm1+slack)
	d0, e0 := verifC02clone(d), verifC02clone(e)
	ok := Implementation{}.Dpttrf(n, d, e)
	if slack == 1 {
		verifAssert(verifSame(d[n], d0[n]), "Dpttrf: d beyond n untouched")
		verifAssert(verifSame(e[nm1], e0[nm1]), "Dpttrf: e beyond n-1 untouched")
	}
	det := verifC02tridiagDet(n, e0, d0, e0)
	pd := true
	for k := 1; k <= n; k++ {
		pd = verifAnd(pd, det[k] > 0)
	}
	verifAssert(verifIff(ok, pd), "Dpttrf: ok exactly when A is positive definite (all leading minors > 0)")
	if !ok {
		verifReach("notposdef")
		return
	}
	for i := 0; i < n; i++ {
		verifAssert(d[i] > 0, "Dpttrf: D positive")
		// (L D L^T)[i][i] = d[i] + e[i-1]^2 d[i-1]; [i+1][i] = e[i] d[i]
		s := d[i]
		if i > 0 {
			s += e[i-1] * e[i-1] * d[i-1]
		}
		verifAssertEqF(s, d0[i], "Dpttrf: diagonal of L*D*L^T")
		if i < n-1 {
			verifAssertEqF(e[i]*d[i], e0[i], "Dpttrf: subdiagonal of L*D*L^T")
		}
	}
	verifReach("end")
}

// verifC02ldltMul returns (L*D*L^T * X)[i][j] for unit bidiagonal L (subdiagonal e) and diagonal D (d).
func verifC02ldltMul(n int, d, e, x []float64, ldx, i, j int) float64 {
	// A[i][i] = d[i] + e[i-1]^2 d[i-1], A[i+1][i] = A[i][i+1] = e[i] d[i]
	aii := d[i]
	if i > 0 {
		aii += e[i-1] * e[i-1] * d[i-1]
	}
	s := aii * x[i*ldx+j]
	if i > 0 {
		s += e[i-1] * d[i-1] * x[(i-1)*ldx+j]
	}
	if i < n-1 {
		s += e[i] * d[i] * x[(i+1)*ldx+j]
	}
	return s
}

// VerifC02_Dpttrs: for arbitrary D (non-zero) and L: (L*D*L^T)*X == B.
func VerifC02_Dpttrs() {
	n := verifChoose("n", 0, verifParam("ptsn", 4))
	nrhs := verifChoose("nrhs", 0, verifParam("nrhs", 2))
	ldb := verifC02ld("ldbPad", nrhs)
	d := verifFloats("d", n)
	e := verifFloats("e", verifC02max(n-1, 0))
	for i := 0; i < n; i++ {
		verifAssume(d[i] != 0)
	}
	b := verifC02mat("b", n, nrhs, ldb)
	d0, e0, b0 := verifC02clone(d), verifC02clone(e), verifC02clone(b)
	Implementation{}.Dpttrs(n, nrhs, d, e, b, ldb)
	verifC02sameAll(d, d0, "Dpttrs: d unchanged")
	verifC02sameAll(e, e0, "Dpttrs: e unchanged")
	verifC02samePad(b, b0, n, nrhs, ldb, "Dpttrs: padding of B untouched")
	for i := 0; i < n; i++ {
		for j := 0; j < nrhs; j++ {
			verifAssertEqF(verifC02ldltMul(n, d0, e0, b, ldb, i, j), b0[i*ldb+j], "Dpttrs: (L*D*L^T)*X == B")
		}
	}
	verifReach("end")
}

// VerifC02_Dptsv: A*X == B when ok; ok exactly when A is positive definite; B untouched otherwise.
func VerifC02_Dptsv() {
	n := verifChoose("n", 0, verifParam("ptsn", 4))
	nrhs := verifChoose("nrhs", 0, verifParam("nrhs", 2))
	ldb := verifC02ld("ldbPad", nrhs)
	d := verifFloats("d", n)
	e := verifFloats("e", verifC02max(n-1, 0))
	b := verifC02mat("b", n, nrhs, ldb)
	d0, e0, b0 := verifC02clone(d), verifC02clone(e), verifC02clone(b)
	ok := Implementation{}.Dptsv(n, nrhs, d, e, b, ldb)
	verifC02samePad(b, b0, n, nrhs, ldb, "Dptsv: padding of B untouched")
	if n == 0 || nrhs == 0 {
		verifAssert(ok, "Dptsv: quick return reports success")
		verifC02sameAll(d, d0, "Dptsv: quick return modifies nothing")
		verifC02sameAll(e, e0, "Dptsv: quick return modifies nothing")
		return
	}
	det := verifC02tridiagDet(n, e0, d0, e0)
	pd := true
	for k := 1; k <= n; k++ {
		pd = verifAnd(pd, det[k] > 0)
	}
	verifAssert(verifIff(ok, pd), "Dptsv: ok exactly when A is positive definite")
	if !ok {
		verifC02sameAll(b, b0, "Dptsv: B not modified when the factorization fails")
		verifReach("notposdef")
		return
	}
	for i := 0; i < n; i++ {
		for j := 0; j < nrhs; j++ {
			s := d0[i] * b[i*ldb+j]
			if i > 0 {
				s += e0[i-1] * b[(i-1)*ldb+j]
			}
			if i < n-1 {
				s += e0[i] * b[(i+1)*ldb+j]
			}
			verifAssertEqF(s, b0[i*ldb+j], "Dptsv: A*X == B")
		}
	}
	verifReach("end")
}

// ---- symmetric / triangular band storage (row-major gonum layout) ----

// verifC02bandIdx returns the index in ab of element (i,j) of the uplo triangle
// inside the band (|i-j| <= kd), or -1 when (i,j) is outside the stored band.
func verifC02bandIdx(uplo blas.Uplo, kd, ldab, i, j int) int {
	if uplo == blas.Upper {
		if j < i || j > i+kd {
			return -1
		}
		return i*ldab + j - i
	}
	if j > i || j < i-kd {
		return -1
	}
	return i*ldab + kd + j - i
}

// verifC02bandTri: element (i,j) of the triangular band matrix (0 outside; 1 on a unit diagonal).
func verifC02bandTri(uplo blas.Uplo, diag blas.Diag, kd int, ab []float64, ldab, i, j int) float64 {
	if i == j && diag == blas.Unit {
		return 1
	}
	k := verifC02bandIdx(uplo, kd, ldab, i, j)
	if k < 0 {
		return 0
	}
	return ab[k]
}

// verifC02bandSym: element (i,j) of the symmetric band matrix.
func verifC02bandSym(uplo blas.Uplo, kd int, ab []float64, ldab, i, j int) float64 {
	k := verifC02bandIdx(uplo, kd, ldab, i, j)
	if k < 0 {
		k = verifC02bandIdx(uplo, kd, ldab, j, i)
	}
	if k < 0 {
		return 0
	}
	return ab[k]
}

func verifC02bandAlloc(name string, n, kd, ldab int) []float64 {
	if n <= 0 {
		return verifFloats(name, 0)
	}
	return verifFloats(name, (n-1)*ldab+kd+1)
}

// verifC02bandUnrefSame: cells of ab that are not band elements of the n x n matrix are bit-identical.
func verifC02bandUnrefSame(uplo blas.Uplo, n, kd, ldab int, ab, ab0 []float64, skipDiag bool, msg string) {
	ref := make([]bool, len(ab))
	for i := 0; i < n; i++ {
		for j := 0; j < n; j++ {
			if k := verifC02bandIdx(uplo, kd, ldab, i, j); k >= 0 && !(skipDiag && i == j) {
				ref[k] = true
			}
		}
	}
	for i := range ab {
		if !ref[i] {
			verifAssert(verifSame(ab[i], ab0[i]), msg)
		}
	}
}

func verifC02pbCheck(who string, uplo blas.Uplo, n, kd, ldab int, ab, ab0 []float64, ok bool) {
	verifC02bandUnrefSame(uplo, n, kd, ldab, ab, ab0, false, who+": cells outside the band untouched")
	if n <= 3 {
		s := func(i, j int) float64 { return verifC02bandSym(uplo, kd, ab0, ldab, i, j) }
		pos := true
		if n >= 1 {
			pos = verifAnd(pos, s(0, 0) > 0)
		}
		if n >= 2 {
			pos = verifAnd(pos, s(0, 0)*s(1, 1)-s(0, 1)*s(1, 0) > 0)
		}
		if n >= 3 {
			d := s(0, 0)*(s(1, 1)*s(2, 2)-s(1, 2)*s(2, 1)) - s(0, 1)*(s(1, 0)*s(2, 2)-s(1, 2)*s(2, 0)) + s(0, 2)*(s(1, 0)*s(2, 1)-s(1, 1)*s(2, 0))
			pos = verifAnd(pos, d > 0)
		}
		verifAssert(verifIff(ok, pos), who+": ok exactly when A is positive definite")
	}
	if !ok {
		verifReach("notposdef")
		return
	}
	for i := 0; i < n; i++ {
		verifAssert(verifC02bandTri(uplo, blas.NonUnit, kd, ab, ldab, i, i) > 0, who+": diagonal of the factor is positive")
		for j := 0; j < n; j++ {
			// all (i,j), including positions outside the band where A is zero
			var s float64
			for k := 0; k < n; k++ {
				if uplo == blas.Upper {
					s += verifC02bandTri(uplo, blas.NonUnit, kd, ab, ldab, k, i) * verifC02bandTri(uplo, blas.NonUnit, kd, ab, ldab, k, j)
				} else {
					s += verifC02bandTri(uplo, blas.NonUnit, kd, ab, ldab, i, k) * verifC02bandTri(uplo, blas.NonUnit, kd, ab, ldab, j, k)
				}
			}
			verifAssertEqF(s, verifC02bandSym(uplo, kd, ab0, ldab, i, j), who+": A == U^T*U (L*L^T)")
		}
	}
}

func VerifC02_Dpbtf2() {
	n := verifChoose("n", 0, verifParam("pbn", 3))
	kd := verifChoose("kd", 0, verifParam("pbkd", 1))
	uplo := verifC02uplo("uplo")
	ldab := kd + 1 + verifChoose("ldabPad", 0, 1)
	ab := verifC02bandAlloc("ab", n, kd, ldab)
	ab0 := verifC02clone(ab)
	ok := Implementation{}.Dpbtf2(uplo, n, kd, ab, ldab)
	verifC02pbCheck("Dpbtf2", uplo, n, kd, ldab, ab, ab0, ok)
	verifReach("end")
}

func VerifC02_Dpbtrf() {
	n := verifChoose("n", 0, verifParam("pbn", 3))
	kd := verifChoose("kd", 0, verifParam("pbkd", 1))
	uplo := verifC02uplo("uplo")
	ldab := kd + 1 + verifChoose("ldabPad", 0, 1)
	ab := verifC02bandAlloc("ab", n, kd, ldab)
	ab0 := verifC02clone(ab)
	ok := Implementation{}.Dpbtrf(uplo, n, kd, ab, ldab)
	verifC02pbCheck("Dpbtrf", uplo, n, kd, ldab, ab, ab0, ok)
	verifReach("end")
}

// VerifC02_Dpbtrs: arbitrary band factor with non-zero diagonal: (U^T U) X == B.
func VerifC02_Dpbtrs() {
	n := verifChoose("n", 0, verifParam("pbn", 3))
	kd := verifChoose("kd", 0, verifParam("pbkd", 1))
	nrhs := verifChoose("nrhs", 0, verifParam("nrhs", 2))
	uplo := verifC02uplo("uplo")
	ldab := kd + 1 + verifChoose("ldabPad", 0, 1)
	ldb := verifC02ld("ldbPad", nrhs)
	ab := verifC02bandAlloc("ab", n, kd, ldab)
	b := verifC02mat("b", n, nrhs, ldb)
	for i := 0; i < n; i++ {
		verifAssume(ab[verifC02bandIdx(uplo, kd, ldab, i, i)] != 0)
	}
	ab0, b0 := verifC02clone(ab), verifC02clone(b)
	Implementation{}.Dpbtrs(uplo, n, kd, nrhs, ab, ldab, b, ldb)
	verifC02sameAll(ab, ab0, "Dpbtrs: factor unchanged")
	verifC02samePad(b, b0, n, nrhs, ldb, "Dpbtrs: padding of B untouched")
	for i := 0; i < n; i++ {
		for j := 0; j < nrhs; j++ {
			var s float64
			for k := 0; k < n; k++ {
				var mik float64
				for l := 0; l < n; l++ {
					if uplo == blas.Upper {
						mik += verifC02bandTri(uplo, blas.NonUnit, kd, ab0, ldab, l, i) * verifC02bandTri(uplo, blas.NonUnit, kd, ab0, ldab, l, k)
					} else {
						mik += verifC02bandTri(uplo, blas.NonUnit, kd, ab0, ldab, i, l) * verifC02bandTri(uplo, blas.NonUnit, kd, ab0, ldab, k, l)
					}
				}
				s += mik * b[k*ldb+j]
			}
			verifAssertEqF(s, b0[i*ldb+j], "Dpbtrs: (U^T U) X == B")
		}
	}
	verifReach("end")
}

func VerifC02_Dtbtrs() {
	n := verifChoose("n", 0, verifParam("pbn", 3))
	kd := verifChoose("kd", 0, verifParam("pbkd", 1))
	nrhs := verifChoose("nrhs", 0, verifParam("nrhs", 2))
	uplo := verifC02uplo("uplo")
	diag := verifC02diag("diag")
	trans := verifC02trans("trans")
	lda := kd + 1 + verifChoose("ldaPad", 0, 1)
	ldb := verifC02ld("ldbPad", nrhs)
	a := verifC02bandAlloc("a", n, kd, lda)
	b := verifC02mat("b", n, nrhs, ldb)
	a0, b0 := verifC02clone(a), verifC02clone(b)
	ok := Implementation{}.Dtbtrs(uplo, trans, diag, n, kd, nrhs, a, lda, b, ldb)
	verifC02sameAll(a, a0, "Dtbtrs: A unchanged")
	sing := false
	if diag == blas.NonUnit {
		for i := 0; i < n; i++ {
			sing = verifOr(sing, a0[verifC02bandIdx(uplo, kd, lda, i, i)] == 0)
		}
	}
	verifAssert(verifIff(ok, verifNot(sing)), "Dtbtrs: ok == false exactly when a diagonal entry is exactly zero")
	if !ok {
		verifC02sameAll(b, b0, "Dtbtrs: B not modified for a singular matrix")
		verifReach("singular")
		return
	}
	verifC02samePad(b, b0, n, nrhs, ldb, "Dtbtrs: padding of B untouched")
	for i := 0; i < n; i++ {
		for j := 0; j < nrhs; j++ {
			var s float64
			for k := 0; k < n; k++ {
				var t float64
				if trans == blas.NoTrans {
					t = verifC02bandTri(uplo, diag, kd, a0, lda, i, k)
				} else {
					t = verifC02bandTri(uplo, diag, kd, a0, lda, k, i)
				}
				s += t * b[k*ldb+j]
			}
			verifAssertEqF(s, b0[i*ldb+j], "Dtbtrs: op(T)*X == B")
		}
	}
	verifReach("end")
}

// VerifC02_DgtsvZeroColumnF (model F: IEEE comparisons exact, arithmetic
// uninterpreted, operands may be NaN/Inf): a tridiagonal matrix whose first
// column is exactly zero is singular, the first pivot search meets d[0] == dl[0]
// == 0, and Dgtsv must report ok == false (never divide 0/0 and carry on).
// Model R cannot see this case: a path that divides by an exact zero is pruned there.
func VerifC02_DgtsvZeroColumnF() {
	n := verifChoose("n", 1, verifParam("gtn", 4))
	nrhs := verifChoose("nrhs", 1, verifParam("nrhs", 2))
	ldb := verifC02ld("ldbPad", nrhs)
	nm1 := verifC02max(n-1, 0)
	dl := verifFloats("dl", nm1)
	d := verifFloats("d", n)
	du := verifFloats("du", nm1)
	b := verifC02mat("b", n, nrhs, ldb)
	d[0] = 0
	if n > 1 {
		dl[0] = 0
	}
	ok := Implementation{}.Dgtsv(n, nrhs, dl, d, du, b, ldb)
	verifAssert(!ok, "Dgtsv: exactly zero first column (zero pivot) must give ok == false")
	verifReach("end")
}
