package quad

import "sync"

// C09 for integrate/quad: Fixed with concurrent > 0 returns the serial value
// (exactly over the reals: only the order of the sum differs), evaluates f
// exactly n times with at most `concurrent` evaluations in flight, is free of
// data races and deadlocks on every explored schedule and leaves no goroutine
// behind. Two rules: the real Legendre (a FixedLocationSingler) and a harness
// rule that only implements FixedLocations with arbitrary symbolic nodes and
// weights.

type verifC09rule struct{ xs, ws []float64 }

func (r verifC09rule) FixedLocations(x, weight []float64, min, max float64) {
	copy(x, r.xs)
	copy(weight, r.ws)
}

func VerifC09_FixedConcurrent() {
	n := verifChoose("n", 1, verifParam("c09qn", 3))
	conc := verifChoose("concurrent", 1, n+1)
	kind := verifChoose("rule", 0, 1)
	c := verifFloats("c", 3)
	a, b := verifFloat("a"), verifFloat("b")
	verifAssume(a < b)
	var rule FixedLocationer = Legendre{}
	if kind == 1 {
		rule = verifC09rule{xs: verifFloats("xs", n), ws: verifFloats("ws", n)}
	} else {
		verifAssume(verifAnd(a >= -2, b <= 2))
	}
	var mu sync.Mutex
	calls, inflight, maxInflight := 0, 0, 0
	f := func(t float64) float64 {
		mu.Lock()
		calls++
		inflight++
		if inflight > maxInflight {
			maxInflight = inflight
		}
		mu.Unlock()
		v := verifC18qpoly(c, t)
		mu.Lock()
		inflight--
		mu.Unlock()
		return v
	}
	ser := Fixed(f, a, b, n, rule, 0)
	verifAssert(calls == n, "serial Fixed evaluates f n times")
	calls, maxInflight = 0, 0
	verifSched(verifParam("c09sched", 1))
	verifSchedPreempt(verifParam("c09preempt", 1) == 1)
	con := Fixed(f, a, b, n, rule, conc)
	verifAssert(verifSchedDrain() == 0, "Fixed(concurrent) leaves no goroutine behind")
	verifAssert(calls == n, "Fixed(concurrent) evaluates f n times")
	verifAssert(maxInflight <= conc, "at most `concurrent` simultaneous evaluations")
	verifAssertEqF(con, ser, "Fixed(concurrent) equals the serial value")
	verifReach("end")
}
