package quad

import "math"

// C18: Gauss-Legendre / Gauss-Hermite rules are exact on polynomials of degree
// <= 2n-1. Nodes and weights are concrete doubles for concrete n, polynomial
// coefficients and interval end points are symbolic exact reals (model R), so
// the only slack needed is for the rounding already present in the tabulated
// nodes/weights (tolerances below are ~1e4 times that, and ~1e6 times smaller
// than the effect of any wrong table entry).

func verifC18qpoly(c []float64, t float64) float64 {
	var s float64
	for i := len(c) - 1; i >= 0; i-- {
		s = s*t + c[i]
	}
	return s
}

func verifC18qprim(c []float64, t float64) float64 {
	var s float64
	for i := len(c) - 1; i >= 0; i-- {
		s = (s + c[i]/float64(i+1)) * t
	}
	return s
}

func verifC18qbox(c []float64) {
	for i := range c {
		verifAssume(verifAnd(-1 <= c[i], c[i] <= 1))
	}
}

// VerifC18_LegendreUnitInterval: on [-1,1] (linear in the coefficients).
func VerifC18_LegendreUnitInterval() {
	n := verifChoose("n", 1, verifParam("legn", 8))
	c := verifFloats("c", 2*n)
	verifC18qbox(c)
	got := Fixed(func(t float64) float64 { return verifC18qpoly(c, t) }, -1, 1, n, Legendre{}, 0)
	want := verifC18qprim(c, 1) - verifC18qprim(c, -1)
	d := got - want
	verifAssert(verifAnd(d <= 1e-12, -1e-12 <= d), "Gauss-Legendre exact on degree <= 2n-1 on [-1,1]")
	verifReach("end")
}

// VerifC18_LegendreInterval: symbolic interval -2 <= a < b <= 2.
func VerifC18_LegendreInterval() {
	n := verifChoose("n", 1, verifParam("legintn", 3))
	a := verifFloat("a")
	b := verifFloat("b")
	verifAssume(verifAnd(-2 <= a, verifAnd(a < b, b <= 2)))
	c := verifFloats("c", 2*n)
	verifC18qbox(c)
	got := Fixed(func(t float64) float64 { return verifC18qpoly(c, t) }, a, b, n, Legendre{}, 0)
	want := verifC18qprim(c, b) - verifC18qprim(c, a)
	d := got - want
	verifAssert(verifAnd(d <= 1e-9, -1e-9 <= d), "Gauss-Legendre exact on degree <= 2n-1 on [a,b]")
	verifReach("end")
}

// VerifC18_LegendreMonomialInterval: same, one monomial t^k at a time
// (k <= 2n-1): fewer symbols, so larger n are reachable on a symbolic interval.
func VerifC18_LegendreMonomialInterval() {
	n := verifChoose("n", 1, verifParam("legmonn", 4))
	k := verifChoose("k", 0, 2*n-1)
	a := verifFloat("a")
	b := verifFloat("b")
	verifAssume(verifAnd(-2 <= a, verifAnd(a < b, b <= 2)))
	mono := func(t float64) float64 {
		s := 1.0
		for i := 0; i < k; i++ {
			s *= t
		}
		return s
	}
	got := Fixed(mono, a, b, n, Legendre{}, 0)
	want := (mono(b)*b - mono(a)*a) / float64(k+1)
	d := got - want
	verifAssert(verifAnd(d <= 1e-9, -1e-9 <= d), "Gauss-Legendre exact on t^k, k <= 2n-1, on [a,b]")
	verifReach("end")
}

// VerifC18_LegendreWeights: weights positive, sum to b-a, nodes strictly
// distinct inside (a,b) and mirrored about the midpoint; FixedLocations and
// FixedLocationSingle agree.
func VerifC18_LegendreWeights() {
	n := verifChoose("n", 1, verifParam("legwn", 12))
	a := verifFloat("a")
	b := verifFloat("b")
	verifAssume(verifAnd(-2 <= a, verifAnd(a < b, b <= 2)))
	x := make([]float64, n)
	w := make([]float64, n)
	Legendre{}.FixedLocations(x, w, a, b)
	var sum float64
	for i := 0; i < n; i++ {
		verifAssert(w[i] > 0, "Legendre weight positive")
		verifAssert(verifAnd(a < x[i], x[i] < b), "Legendre node inside (a,b)")
		for j := 0; j < i; j++ {
			verifAssert(x[j] != x[i], "Legendre nodes pairwise distinct")
		}
		m := x[i] + x[n-1-i] - (a + b)
		verifAssert(verifAnd(m <= 1e-14, -1e-14 <= m), "Legendre nodes mirrored about the midpoint")
		verifAssertEqF(w[i], w[n-1-i], "Legendre weights mirrored")
		xs, ws := Legendre{}.FixedLocationSingle(n, i, a, b)
		verifAssertEqF(xs, x[i], "FixedLocationSingle node == FixedLocations node")
		verifAssertEqF(ws, w[i], "FixedLocationSingle weight == FixedLocations weight")
		sum += w[i]
	}
	d := sum - (b - a)
	verifAssert(verifAnd(d <= 1e-13, -1e-13 <= d), "Legendre weights sum to b-a")
	verifReach("end")
}

// VerifC18_Hermite: sum w_i p(x_i) = int p(x) exp(-x^2) dx for degree <= 2n-1;
// the moments are Gamma((j+1)/2) for even j and 0 for odd j.
func VerifC18_Hermite() {
	n := verifChoose("n", 1, verifParam("hermn", 6))
	c := verifFloats("c", 2*n)
	verifC18qbox(c)
	got := Fixed(func(t float64) float64 { return verifC18qpoly(c, t) }, math.Inf(-1), math.Inf(1), n, Hermite{}, 0)
	var want, scale float64
	mom := math.Sqrt(math.Pi) // Gamma(1/2)
	for j := 0; j < 2*n; j += 2 {
		want += c[j] * mom
		scale += mom
		mom *= float64(j+1) / 2 // Gamma(z+1) = z Gamma(z), z = (j+1)/2
	}
	// the moments grow like Gamma(n): tolerance relative to their sum
	d := got - want
	tol := 1e-11 * scale
	verifAssert(verifAnd(d <= tol, -tol <= d), "Gauss-Hermite exact on degree <= 2n-1")
	x := make([]float64, n)
	w := make([]float64, n)
	Hermite{}.FixedLocations(x, w, math.Inf(-1), math.Inf(1))
	for i := range w {
		verifAssert(w[i] > 0, "Hermite weight positive")
	}
	verifReach("end")
}

// VerifC18_FixedValidation: documented panics and the empty interval.
func VerifC18_FixedValidation() {
	n := verifInt("n", -2, 3)
	a := verifFloat("a")
	b := verifFloat("b")
	var got float64
	panicked, fault, _ := verifCatch(func() {
		got = Fixed(func(t float64) float64 { return 1 + t }, a, b, n, Legendre{}, 0)
	})
	verifAssert(!fault, "Fixed: no runtime fault")
	verifAssert(verifIff(panicked, verifOr(n <= 0, a > b)), "Fixed panics iff n <= 0 or min > max")
	if !panicked {
		if a == b {
			verifAssert(got == 0, "Fixed over an empty interval is 0")
		} else {
			// n >= 1 integrates 1+t exactly
			d := got - ((b - a) + (b*b-a*a)/2)
			verifAssume(verifAnd(-2 <= a, b <= 2))
			verifAssert(verifAnd(d <= 1e-12, -1e-12 <= d), "Fixed integrates a linear function")
		}
	}
	verifReach("end")
}

// --- non-vacuity twins (expected to be violated; not in the check spec).

func VerifC18_TwinLegendreDegree2n() {
	n := verifChoose("n", 1, 3)
	c := verifFloats("c", 2*n+1)
	verifC18qbox(c)
	got := Fixed(func(t float64) float64 { return verifC18qpoly(c, t) }, -1, 1, n, Legendre{}, 0)
	d := got - (verifC18qprim(c, 1) - verifC18qprim(c, -1))
	verifAssert(verifAnd(d <= 1e-12, -1e-12 <= d), "TWIN (must fail): Gauss-Legendre exact on degree 2n")
}

// verifC18bigN: node counts on both sides of the tabulated (n <= 100) /
// asymptotic (n > 100) switch of Legendre.location.
func verifC18bigN(id int) int {
	return []int{20, 26, 32, 64, 99, 100, 101, 102, 150, 300}[id]
}

// VerifC18_LegendreLargeN: exactness for large n, including the asymptotic
// branch. The polynomial is written in the Legendre basis, p = sum c_k P_k with
// symbolic c_k in [-1,1], k <= 2n-1 (P_k at the concrete nodes is evaluated
// natively by the three-term recurrence), so that int_{-1}^{1} p = 2 c_0.
func VerifC18_LegendreLargeN() {
	n := verifC18bigN(verifChoose("nid", 0, verifParam("legbig", 6)))
	c := verifFloats("c", 2*n)
	verifC18qbox(c)
	f := func(t float64) float64 {
		p0, p1 := 1.0, t
		s := c[0]*p0 + c[1]*p1
		for k := 2; k < 2*n; k++ {
			p0, p1 = p1, (float64(2*k-1)*t*p1-float64(k-1)*p0)/float64(k)
			s += c[k] * p1
		}
		return s
	}
	got := Fixed(f, -1, 1, n, Legendre{}, 0)
	d := got - 2*c[0]
	verifAssert(verifAnd(d <= 1e-9, -1e-9 <= d), "Gauss-Legendre exact on degree <= 2n-1 (Legendre basis), large n")
	verifReach("end")
}

// VerifC18_LegendreWeightsLarge: weights positive, sum to b-a, nodes inside
// (a,b) and mirrored, for the large node counts.
func VerifC18_LegendreWeightsLarge() {
	n := verifC18bigN(verifChoose("nid", 0, verifParam("legbig", 6)))
	a := verifFloat("a")
	b := verifFloat("b")
	verifAssume(verifAnd(-2 <= a, verifAnd(a < b, b <= 2)))
	x := make([]float64, n)
	w := make([]float64, n)
	Legendre{}.FixedLocations(x, w, a, b)
	var sum float64
	for i := 0; i < n; i++ {
		verifAssert(w[i] > 0, "Legendre weight positive")
		verifAssert(verifAnd(a < x[i], x[i] < b), "Legendre node inside (a,b)")
		if i > 0 {
			verifAssert(x[i-1] != x[i], "adjacent Legendre nodes distinct")
		}
		m := x[i] + x[n-1-i] - (a + b)
		verifAssert(verifAnd(m <= 1e-13, -1e-13 <= m), "Legendre nodes mirrored about the midpoint")
		mw := w[i] - w[n-1-i]
		verifAssert(verifAnd(mw <= 1e-15, -1e-15 <= mw), "Legendre weights mirrored")
		sum += w[i]
	}
	d := sum - (b - a)
	verifAssert(verifAnd(d <= 1e-12, -1e-12 <= d), "Legendre weights sum to b-a")
	verifReach("end")
}
