package integrate

// C18: trapezoid / Simpson / Romberg are exact on their design classes.
// Model R: grid points, polynomial coefficients and step are exact reals.

func verifC18name(p string, i int) string { return p + string(rune('0'+i)) }

// verifC18grid returns n symbolic strictly increasing abscissae
// (x[0] arbitrary, every gap an arbitrary positive real).
func verifC18grid(n int) []float64 {
	x := make([]float64, n)
	x[0] = verifFloat("x0")
	for i := 1; i < n; i++ {
		g := verifFloat(verifC18name("gap", i))
		verifAssume(g > 0)
		x[i] = x[i-1] + g
	}
	return x
}

// verifC18uniform returns n points x0 + i*h with symbolic x0 and h > 0.
func verifC18uniform(n int) ([]float64, float64) {
	x0 := verifFloat("x0")
	h := verifFloat("h")
	verifAssume(h > 0)
	x := make([]float64, n)
	for i := range x {
		x[i] = x0 + float64(i)*h
	}
	return x, h
}

// verifC18poly evaluates c[0] + c[1] t + ... (Horner).
func verifC18poly(c []float64, t float64) float64 {
	var s float64
	for i := len(c) - 1; i >= 0; i-- {
		s = s*t + c[i]
	}
	return s
}

// verifC18prim evaluates the primitive sum c[i] t^(i+1)/(i+1).
func verifC18prim(c []float64, t float64) float64 {
	var s float64
	for i := len(c) - 1; i >= 0; i-- {
		s = (s + c[i]/float64(i+1)) * t
	}
	return s
}

func verifC18samples(c, x []float64) []float64 {
	f := make([]float64, len(x))
	for i := range x {
		f[i] = verifC18poly(c, x[i])
	}
	return f
}

// VerifC18_TrapezoidalLinear: on an arbitrary strictly sorted grid the
// trapezoidal rule integrates every polynomial of degree <= 1 exactly.
func VerifC18_TrapezoidalLinear() {
	n := verifChoose("n", 2, verifParam("trapn", 5))
	x := verifC18grid(n)
	c := verifFloats("c", 2)
	f := verifC18samples(c, x)
	got := Trapezoidal(x, f)
	verifAssertEqF(got, verifC18prim(c, x[n-1])-verifC18prim(c, x[0]), "Trapezoidal exact on degree <= 1")
	verifReach("end")
}

// VerifC18_TrapezoidalPiecewise: the result is the sum of the documented
// per-panel estimates for arbitrary sample values (definition level), also on
// grids with repeated abscissae (sorted, not strictly).
func VerifC18_TrapezoidalPiecewise() {
	n := verifChoose("n", 2, verifParam("trapn", 5))
	x := make([]float64, n)
	for i := range x {
		x[i] = verifFloat(verifC18name("x", i))
	}
	for i := 1; i < n; i++ {
		verifAssume(x[i-1] <= x[i])
	}
	f := verifFloats("f", n)
	got := Trapezoidal(x, f)
	var want float64
	for i := 0; i+1 < n; i++ {
		want += (x[i+1] - x[i]) * (f[i] + f[i+1]) / 2
	}
	verifAssertEqF(got, want, "Trapezoidal equals the sum of panel estimates")
	verifReach("end")
}

// VerifC18_SimpsonsQuadratic: on an arbitrary strictly sorted grid (odd and
// even point counts) Simpsons integrates every polynomial of degree <= 2 exactly.
func VerifC18_SimpsonsQuadratic() {
	n := verifChoose("n", 3, verifParam("simpn", 5))
	x := verifC18grid(n)
	c := verifFloats("c", 3)
	f := verifC18samples(c, x)
	got := Simpsons(x, f)
	verifAssertEqF(got, verifC18prim(c, x[n-1])-verifC18prim(c, x[0]), "Simpsons exact on degree <= 2")
	verifReach("end")
}

// VerifC18_SimpsonsCubicUniform: on a uniform grid with an odd number of
// points (whole Simpson panels) Simpsons integrates cubics exactly.
func VerifC18_SimpsonsCubicUniform() {
	m := verifChoose("panels", 1, verifParam("simppanels", 2))
	n := 2*m + 1
	x, _ := verifC18uniform(n)
	c := verifFloats("c", 4)
	f := verifC18samples(c, x)
	got := Simpsons(x, f)
	verifAssertEqF(got, verifC18prim(c, x[n-1])-verifC18prim(c, x[0]), "Simpsons exact on cubics, uniform grid, odd count")
	verifReach("end")
}

// VerifC18_Romberg: with 2^k+1 equally spaced samples Romberg integrates
// polynomials of degree <= 2k+1 exactly.
func VerifC18_Romberg() {
	k := verifChoose("k", 1, verifParam("rombk", 3))
	n := 1<<uint(k) + 1
	x, h := verifC18uniform(n)
	c := verifFloats("c", 2*k+2)
	f := verifC18samples(c, x)
	got := Romberg(f, h)
	verifAssertEqF(got, verifC18prim(c, x[n-1])-verifC18prim(c, x[0]), "Romberg exact on degree <= 2k+1")
	verifReach("end")
}

// VerifC18_IntegrateValidation: documented argument validation.
func VerifC18_IntegrateValidation() {
	which := verifChoose("which", 0, 2)
	nx := verifChoose("nx", 0, 5)
	nf := verifChoose("nf", 0, 5)
	x := verifFloats("x", nx)
	f := verifFloats("f", nf)
	sorted := true
	strict := true
	for i := 1; i < nx; i++ {
		sorted = verifAnd(sorted, x[i-1] <= x[i])
		strict = verifAnd(strict, x[i-1] < x[i])
	}
	switch which {
	case 0:
		panicked, fault, _ := verifCatch(func() { Trapezoidal(x, f) })
		verifAssert(!fault, "Trapezoidal: no runtime fault")
		bad := verifOr(nx != nf || nx < 2, !sorted)
		verifAssert(verifIff(panicked, bad), "Trapezoidal panics iff lengths differ, n<2 or x unsorted")
	case 1:
		panicked, fault, _ := verifCatch(func() { Simpsons(x, f) })
		verifAssert(!fault, "Simpsons: no runtime fault")
		bad := verifOr(nx != nf || nx < 3, !strict)
		verifAssert(verifIff(panicked, bad), "Simpsons panics iff lengths differ, n<3 or x not strictly increasing")
	case 2:
		dx := verifFloat("dx")
		panicked, fault, _ := verifCatch(func() { Romberg(f, dx) })
		verifAssert(!fault, "Romberg: no runtime fault")
		bad := verifOr(!(nf == 3 || nf == 5), !(dx > 0))
		verifAssert(verifIff(panicked, bad), "Romberg panics iff len(f) is not 2^k+1 (k>=1) or dx <= 0")
	}
	verifReach("end")
}

// --- non-vacuity twins: one degree above the design class must be violable.
// These are EXPECTED to report violations; they are not part of the check spec.

func VerifC18_TwinTrapezoidalQuadratic() {
	n := verifChoose("n", 2, 3)
	x := verifC18grid(n)
	c := verifFloats("c", 3)
	got := Trapezoidal(x, verifC18samples(c, x))
	verifAssertEqF(got, verifC18prim(c, x[n-1])-verifC18prim(c, x[0]), "TWIN (must fail): Trapezoidal exact on quadratics")
}

func VerifC18_TwinSimpsonsCubic() {
	n := verifChoose("n", 3, 4)
	x := verifC18grid(n)
	c := verifFloats("c", 4)
	got := Simpsons(x, verifC18samples(c, x))
	verifAssertEqF(got, verifC18prim(c, x[n-1])-verifC18prim(c, x[0]), "TWIN (must fail): Simpsons exact on cubics, arbitrary grid")
}

func VerifC18_TwinSimpsonsQuarticUniform() {
	x, _ := verifC18uniform(3)
	c := verifFloats("c", 5)
	got := Simpsons(x, verifC18samples(c, x))
	verifAssertEqF(got, verifC18prim(c, x[2])-verifC18prim(c, x[0]), "TWIN (must fail): Simpsons exact on quartics")
}

func VerifC18_TwinRomberg() {
	k := verifChoose("k", 1, 2)
	n := 1<<uint(k) + 1
	x, h := verifC18uniform(n)
	c := verifFloats("c", 2*k+3)
	got := Romberg(verifC18samples(c, x), h)
	verifAssertEqF(got, verifC18prim(c, x[n-1])-verifC18prim(c, x[0]), "TWIN (must fail): Romberg exact on degree 2k+2")
}
