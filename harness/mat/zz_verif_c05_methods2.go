package mat

// C05 layer 2, continued: Stack/Augment, MulVec with an aliasing matrix,
// SymDense and TriDense receivers.

// VerifC05_DenseStackAugment: m.Stack(a, b) / m.Augment(a, b) where one of a, b
// is a window of m's backing. Both are built on Copy, which is documented to be
// overlap-safe for untransposed *Dense sources, so the obligation is the
// "no silently corrupted result" half of the property: if the call returns,
// the receiver holds the stacked/augmented values the operands had BEFORE the
// call and nothing outside the receiver window was written; if it panics it is
// a "mat: bad region" panic without writes; disjoint windows never panic.
// (OPEN VIOLATION on the unchanged tree, see notes/C05_methods.md.)
func VerifC05_DenseStackAugment() { verifC05stackAugment(true) }

// VerifC05_DenseStackAugmentDisjoint: the element-disjoint half.
func VerifC05_DenseStackAugmentDisjoint() { verifC05stackAugment(false) }

func verifC05stackAugment(overlapping bool) {
	side := verifParam("c05side", 3)
	aug := verifChoose("augment", 0, 1) == 1
	pos := verifChoose("pos", 0, 1) // which operand is the aliased window
	// receiver: 2×c (Stack of two 1×c) or r×2 (Augment of two r×1)
	k := verifChoose("k", 1, verifParam("c05n", 2))
	mr, mc, or, oc := 2, k, 1, k
	if aug {
		mr, mc, or, oc = k, 2, k, 1
	}
	ri := verifChoose("ri", 0, side-mr)
	rj := verifChoose("rj", 0, side-mc)
	ai := verifChoose("ai", 0, side-or)
	aj := verifChoose("aj", 0, side-oc)
	share := verifC05rectShare(ri, rj, mr, mc, ai, aj, or, oc)
	if share != overlapping {
		return
	}
	g := verifC05newGeo("back", side)
	m := g.win(ri, rj, mr, mc)
	w := g.win(ai, aj, or, oc)
	fd := verifFloats("f", or*oc)
	f := NewDense(or, oc, fd)
	wv := make([]float64, or*oc)
	for i := 0; i < or; i++ {
		for j := 0; j < oc; j++ {
			wv[i*oc+j] = w.At(i, j)
		}
	}
	var a, b Matrix = w, f
	av, bv := wv, fd
	if pos == 1 {
		a, b = f, w
		av, bv = fd, wv
	}
	want := make([]float64, mr*mc)
	for i := 0; i < mr; i++ {
		for j := 0; j < mc; j++ {
			switch {
			case !aug && i < or:
				want[i*mc+j] = av[i*oc+j]
			case !aug:
				want[i*mc+j] = bv[(i-or)*oc+j]
			case j < oc:
				want[i*mc+j] = av[i*oc+j]
			default:
				want[i*mc+j] = bv[i*oc+j-oc]
			}
		}
	}
	name := "Stack"
	call := func() { m.Stack(a, b) }
	if aug {
		name = "Augment"
		call = func() { m.Augment(a, b) }
	}
	panicked, fault, pmsg := verifCatch(call)
	verifAssert(!fault, name+": no runtime fault")
	if panicked {
		verifAssert(share, name+": element-disjoint windows must not panic")
		verifAssert(verifC05isBadRegion(pmsg), name+": panic message starts with \"mat: bad region\"")
		g.allUntouched(name)
	} else {
		g.checkWin(ri, rj, mr, mc, want, name+" (returned)")
	}
	verifReach("end")
}

// VerifC05_VecMulVecMatrix: v.MulVec(A, b) where A is a *Dense window (possibly
// under T()) of the backing that also holds v (v is a column view, Inc = side).
func VerifC05_VecMulVecMatrix() {
	side := verifParam("c05side", 3)
	maxN := verifParam("c05n", 2)
	r := verifChoose("r", 1, maxN)
	c := verifChoose("c", 1, maxN)
	trans := verifChoose("trans", 0, 1) == 1
	wr, wc := r, c
	if trans {
		wr, wc = c, r
	}
	ai := verifChoose("ai", 0, side-wr)
	aj := verifChoose("aj", 0, side-wc)
	vi := verifChoose("vi", 0, side-r)
	vj := verifChoose("vj", 0, side-1)
	share := verifC05rectShare(ai, aj, wr, wc, vi, vj, r, 1)
	g := verifC05newGeo("back", side)
	v := g.col(vi, vj, r)
	wd := g.win(ai, aj, wr, wc)
	var a Matrix = wd
	if trans {
		a = wd.T()
	}
	bd := verifFloats("b", c)
	want := make([]float64, r)
	for i := 0; i < r; i++ {
		var s float64
		for j := 0; j < c; j++ {
			s += a.At(i, j) * bd[j]
		}
		want[i] = s
	}
	panicked, fault, pmsg := verifCatch(func() { v.MulVec(a, NewVecDense(c, bd)) })
	if share {
		g.expectOverlapPanic(panicked, fault, pmsg, "MulVec (matrix operand)")
	} else {
		verifAssert(!panicked, "MulVec: element-disjoint matrix operand must not panic")
		if !panicked {
			g.checkWin(vi, vj, r, 1, want, "MulVec (matrix operand)")
		}
	}
	verifReach("end")
}

// ---------------------------------------------------------------------------
// SymDense receivers: windows are SliceSym blocks on the diagonal of one parent.
// ---------------------------------------------------------------------------

type verifC05sgeo struct {
	side  int
	back  []float64
	back0 []float64
	p     *SymDense
}

func verifC05newSGeo(name string, side int) *verifC05sgeo {
	g := &verifC05sgeo{side: side}
	g.back = verifFloats(name, side*side)
	g.back0 = append([]float64(nil), g.back...)
	g.p = NewSymDense(side, g.back)
	return g
}

func (g *verifC05sgeo) allUntouched(msg string) {
	for i := range g.back {
		verifAssert(verifSame(g.back[i], g.back0[i]), msg+": no cell of the backing modified")
	}
}

// checkSym: s (the n×n block at i0) holds want through At; cells outside the
// block are untouched (the strictly lower cells inside the block are storage
// SymDense never reads: nothing is claimed about them).
func (g *verifC05sgeo) checkSym(s *SymDense, i0, n int, want []float64, msg string) {
	for i := 0; i < n; i++ {
		for j := 0; j < n; j++ {
			verifAssertEqF(s.At(i, j), want[i*n+j], msg+": result as with an unaliased receiver")
		}
	}
	for i := 0; i < g.side; i++ {
		for j := 0; j < g.side; j++ {
			if !(i >= i0 && i < i0+n && j >= i0 && j < i0+n) {
				verifAssert(verifSame(g.back[i*g.side+j], g.back0[i*g.side+j]), msg+": cells outside the receiver window untouched")
			}
		}
	}
}

const verifC05nSymOps = 6

func verifC05symOp(op int, tag string, s *SymDense, w Symmetric, n int) (call func(), want []float64, name string) {
	want = make([]float64, n*n)
	wv := make([]float64, n*n)
	for i := 0; i < n; i++ {
		for j := 0; j < n; j++ {
			wv[i*n+j] = w.At(i, j)
		}
	}
	fd := verifFloats("f"+tag, n*n)
	f := NewSymDense(n, fd)
	fv := make([]float64, n*n)
	for i := 0; i < n; i++ {
		for j := 0; j < n; j++ {
			fv[i*n+j] = f.At(i, j)
		}
	}
	alpha := verifFloat("al" + tag)
	xd := verifFloats("x"+tag, n)
	yd := verifFloats("y"+tag, n)
	switch op {
	case 0:
		name = "AddSym(w,f)"
		call = func() { s.AddSym(w, f) }
		for i := range want {
			want[i] = wv[i] + fv[i]
		}
	case 1:
		name = "AddSym(f,w)"
		call = func() { s.AddSym(f, w) }
		for i := range want {
			want[i] = fv[i] + wv[i]
		}
	case 2:
		name = "ScaleSym"
		call = func() { s.ScaleSym(alpha, w) }
		for i := range want {
			want[i] = alpha * wv[i]
		}
	case 3:
		name = "SymRankOne"
		call = func() { s.SymRankOne(w, alpha, NewVecDense(n, xd)) }
		for i := 0; i < n; i++ {
			for j := 0; j < n; j++ {
				want[i*n+j] = wv[i*n+j] + alpha*xd[i]*xd[j]
			}
		}
	case 4:
		name = "RankTwo"
		call = func() { s.RankTwo(w, alpha, NewVecDense(n, xd), NewVecDense(n, yd)) }
		for i := 0; i < n; i++ {
			for j := 0; j < n; j++ {
				want[i*n+j] = wv[i*n+j] + alpha*(xd[i]*yd[j]+yd[i]*xd[j])
			}
		}
	case 5:
		name = "SymRankK"
		call = func() { s.SymRankK(w, alpha, NewDense(n, 1, xd)) }
		for i := 0; i < n; i++ {
			for j := 0; j < n; j++ {
				want[i*n+j] = wv[i*n+j] + alpha*xd[i]*xd[j]
			}
		}
	}
	return call, want, name
}

// VerifC05_SymWindows: receiver and operand are diagonal blocks of one parent
// SymDense (different *SymDense values), or the very same value (self=1).
func VerifC05_SymWindows() {
	side := verifParam("c05symside", 4)
	n := verifChoose("n", 1, verifParam("c05n", 2))
	self := verifChoose("self", 0, 1) == 1
	i1 := verifChoose("i1", 0, side-n)
	i2 := i1
	if !self {
		i2 = verifChoose("i2", 0, side-n)
	}
	share := i1 < i2+n && i2 < i1+n
	for op := 0; op < verifC05nSymOps; op++ {
		tag := string(rune('a' + op))
		g := verifC05newSGeo("back"+tag, side)
		s := g.p.sliceSym(i1, i1+n)
		w := s
		if !self {
			w = g.p.sliceSym(i2, i2+n)
		}
		call, want, name := verifC05symOp(op, tag, s, w, n)
		panicked, fault, pmsg := verifCatch(call)
		verifAssert(!fault, name+": no runtime fault")
		switch {
		case self:
			verifAssert(!panicked, name+": receiver identical to an operand must not panic")
			if !panicked {
				g.checkSym(s, i1, n, want, name+" (receiver is an operand)")
			}
		case !share:
			verifAssert(!panicked, name+": element-disjoint blocks of one backing must not panic")
			if !panicked {
				g.checkSym(s, i1, n, want, name)
			}
		case i1 == i2 && !panicked:
			g.checkSym(s, i1, n, want, name+" (identical window, other pointer, returned)")
		default:
			verifAssert(panicked, name+": partially overlapping receiver and operand must panic")
			if panicked && !fault {
				verifAssert(verifC05isBadRegion(pmsg), name+": panic message starts with \"mat: bad region\"")
			}
			g.allUntouched(name)
		}
	}
	verifReach("end")
}

// ---------------------------------------------------------------------------
// TriDense receivers: windows are SliceTri blocks of one parent.
// ---------------------------------------------------------------------------

// VerifC05_TriWindows: t.MulTri(w, f), t.MulTri(f, w), t.ScaleTri(alpha, w),
// and with self=1 additionally t.MulTri(t, t).
func VerifC05_TriWindows() {
	side := verifParam("c05symside", 4)
	n := verifChoose("n", 1, verifParam("c05n", 2))
	upper := verifChoose("upper", 0, 1) == 1
	self := verifChoose("self", 0, 1) == 1
	i1 := verifChoose("i1", 0, side-n)
	i2 := i1
	if !self {
		i2 = verifChoose("i2", 0, side-n)
	}
	share := i1 < i2+n && i2 < i1+n
	for op := 0; op <= 3; op++ {
		if op == 3 && !self {
			continue
		}
		tag := string(rune('a' + op))
		back := verifFloats("back"+tag, side*side)
		back0 := append([]float64(nil), back...)
		p := NewTriDense(side, TriKind(upper), back)
		t := p.sliceTri(i1, i1+n)
		w := t
		if !self {
			w = p.sliceTri(i2, i2+n)
		}
		wv := make([]float64, n*n)
		for i := 0; i < n; i++ {
			for j := 0; j < n; j++ {
				wv[i*n+j] = w.At(i, j)
			}
		}
		fd := verifFloats("f"+tag, n*n)
		f := NewTriDense(n, TriKind(upper), fd)
		fv := make([]float64, n*n)
		for i := 0; i < n; i++ {
			for j := 0; j < n; j++ {
				fv[i*n+j] = f.At(i, j)
			}
		}
		alpha := verifFloat("al" + tag)
		want := make([]float64, n*n)
		mul := func(x, y []float64) {
			for i := 0; i < n; i++ {
				for j := 0; j < n; j++ {
					var s float64
					for l := 0; l < n; l++ {
						s += x[i*n+l] * y[l*n+j]
					}
					want[i*n+j] = s
				}
			}
		}
		name := ""
		var call func()
		switch op {
		case 0:
			name = "MulTri(w,f)"
			call = func() { t.MulTri(w, f) }
			mul(wv, fv)
		case 1:
			name = "MulTri(f,w)"
			call = func() { t.MulTri(f, w) }
			mul(fv, wv)
		case 2:
			name = "ScaleTri"
			call = func() { t.ScaleTri(alpha, w) }
			for i := range want {
				want[i] = alpha * wv[i]
			}
		case 3:
			name = "MulTri(t,t)"
			call = func() { t.MulTri(t, t) }
			mul(wv, wv)
		}
		panicked, fault, pmsg := verifCatch(call)
		verifAssert(!fault, name+": no runtime fault")
		check := func(msg string) {
			for i := 0; i < n; i++ {
				for j := 0; j < n; j++ {
					verifAssertEqF(t.At(i, j), want[i*n+j], msg+": result as with an unaliased receiver")
				}
			}
			for i := 0; i < side; i++ {
				for j := 0; j < side; j++ {
					if !(i >= i1 && i < i1+n && j >= i1 && j < i1+n) {
						verifAssert(verifSame(back[i*side+j], back0[i*side+j]), msg+": cells outside the receiver window untouched")
					}
				}
			}
		}
		switch {
		case self:
			verifAssert(!panicked, name+": receiver identical to an operand must not panic")
			if !panicked {
				check(name + " (receiver is an operand)")
			}
		case !share:
			verifAssert(!panicked, name+": element-disjoint blocks of one backing must not panic")
			if !panicked {
				check(name)
			}
		case i1 == i2 && !panicked:
			check(name + " (identical window, other pointer, returned)")
		default:
			verifAssert(panicked, name+": partially overlapping receiver and operand must panic")
			if panicked && !fault {
				verifAssert(verifC05isBadRegion(pmsg), name+": panic message starts with \"mat: bad region\"")
			}
			for i := range back {
				verifAssert(verifSame(back[i], back0[i]), name+": no cell of the backing modified")
			}
		}
	}
	verifReach("end")
}
