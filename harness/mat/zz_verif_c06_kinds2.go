package mat

import "math"

// VerifC06_UpdateKindsConcrete: Cholesky.SymRankOne (update and downdate) on a
// CONCRETE positive definite matrix of order 2..4 with x given as a contiguous
// *VecDense, a strided *VecDense (the skipped cells hold concrete sentinels: they must not
// matter) and a Vector-only type. The symbolic statement for n >= 2 is out of
// the solver's reach (Drotg square roots, §6 of the C06 notes); this case
// split at least puts every representation through the n >= 2 code and checks
// the result against the definition UᵀU = A + alpha*x*xᵀ and against the
// contiguous run.
func VerifC06_UpdateKindsConcrete() {
	n := verifChoose("n", 2, verifParam("c06kcn", 4))
	kind := verifChoose("xkind", 1, 2)
	alpha := []float64{0.5, -0.125, 2}[verifChoose("alpha", 0, 2)]
	a := NewSymDense(n, nil)
	xd := make([]float64, n)
	for i := 0; i < n; i++ {
		xd[i] = float64(1+i) * (1 - 2*float64(i%2)) / 4
		for j := i; j < n; j++ {
			v := 1 / float64(1+i+j)
			if i == j {
				v += float64(n)
			}
			a.SetSym(i, j, v)
		}
	}
	var c0, c1 Cholesky
	verifAssert(c0.Factorize(a) && c1.Factorize(a), "Factorize: positive definite")
	ok0 := c0.SymRankOne(&c0, alpha, verifC06vec(0, "x", xd))
	var x1 Vector = &verifC04basicVec{n: n, data: append([]float64(nil), xd...)}
	if kind == 1 {
		back := make([]float64, 2*n)
		for i := range back {
			back[i] = 1000 + float64(i) // sentinels in the skipped cells
		}
		for i := range xd {
			back[2*i] = xd[i]
		}
		v := &VecDense{}
		v.mat.N, v.mat.Inc, v.mat.Data = n, 2, back[:2*(n-1)+1]
		x1 = v
	}
	ok1 := c1.SymRankOne(&c1, alpha, x1)
	verifAssert(ok0 && ok1, "SymRankOne succeeds (the downdate keeps the matrix positive definite)")
	if ok0 && ok1 {
		var u0, u1 TriDense
		c0.UTo(&u0)
		c1.UTo(&u1)
		for i := 0; i < n; i++ {
			for j := i; j < n; j++ {
				verifAssertEqF(u1.At(i, j), u0.At(i, j), "SymRankOne: the updated factor does not depend on the representation of x")
				var s float64
				for k := 0; k <= i; k++ {
					s += u1.At(k, i) * u1.At(k, j)
				}
				verifAssert(math.Abs(s-(a.At(i, j)+alpha*xd[i]*xd[j])) <= 1e-12*float64(n), "SymRankOne: UᵀU = A + alpha*x*xᵀ")
			}
		}
	}
	verifReach("end")
}
