package mat

import "gonum.org/v1/gonum/blas/blas64"

// VerifC05_VecOverlapPredicate: (*VecDense).checkOverlap panics iff the two
// equal-increment vector views of one backing array share an element.
func VerifC05_VecOverlapPredicate() {
	capN := verifParam("veccap", 10)
	maxN := verifParam("vecn", 4)
	back := verifFloats("back", capN)
	inc := verifInt("inc", 1, 4)
	o1 := verifInt("o1", 0, capN-1)
	n1 := verifInt("n1", 1, maxN)
	o2 := verifInt("o2", 0, capN-1)
	n2 := verifInt("n2", 1, maxN)
	l1 := (n1-1)*inc + 1
	l2 := (n2-1)*inc + 1
	verifAssume(o1+l1 <= capN)
	verifAssume(o2+l2 <= capN)
	v := VecDense{mat: blas64.Vector{N: n1, Inc: inc, Data: back[o1 : o1+l1]}}
	a := blas64.Vector{N: n2, Inc: inc, Data: back[o2 : o2+l2]}
	panicked, fault, _ := verifCatch(func() { v.checkOverlap(a) })
	share := false
	for j := 0; j < maxN; j++ {
		for k := 0; k < maxN; k++ {
			share = verifOr(share, verifAnd(verifAnd(j < n1, k < n2), o1+j*inc == o2+k*inc))
		}
	}
	verifAssert(!fault, "checkOverlap never faults")
	verifAssert(verifImplies(share, panicked), "vector views sharing an element must panic")
	verifAssert(verifImplies(panicked, share), "element-disjoint equal-increment vector views must not panic")
	verifReach("end")
}

// VerifC05_DenseOverlapPredicate: checkOverlap on two equal-stride windows of
// one backing array panics iff the windows share an element.
func VerifC05_DenseOverlapPredicate() {
	side := verifParam("denseside", 4)
	capN := side * side
	back := verifFloats("back", capN)
	stride := verifChoose("stride", 1, side)
	r1 := verifInt("r1", 1, side)
	c1 := verifInt("c1", 1, side)
	r2 := verifInt("r2", 1, side)
	c2 := verifInt("c2", 1, side)
	o1 := verifInt("o1", 0, capN-1)
	o2 := verifInt("o2", 0, capN-1)
	verifAssume(verifAnd(c1 <= stride, c2 <= stride))
	l1 := (r1-1)*stride + c1
	l2 := (r2-1)*stride + c2
	verifAssume(verifAnd(o1+l1 <= capN, o2+l2 <= capN))
	a := blas64.General{Rows: r1, Cols: c1, Stride: stride, Data: back[o1 : o1+l1]}
	b := blas64.General{Rows: r2, Cols: c2, Stride: stride, Data: back[o2 : o2+l2]}
	panicked, fault, _ := verifCatch(func() { checkOverlap(a, b) })
	share := false
	for i1 := 0; i1 < side; i1++ {
		for j1 := 0; j1 < side; j1++ {
			in1 := verifAnd(i1 < r1, j1 < c1)
			p1 := o1 + i1*stride + j1
			for i2 := 0; i2 < side; i2++ {
				for j2 := 0; j2 < side; j2++ {
					in2 := verifAnd(i2 < r2, j2 < c2)
					share = verifOr(share, verifAnd(verifAnd(in1, in2), p1 == o2+i2*stride+j2))
				}
			}
		}
	}
	verifAssert(!fault, "checkOverlap never faults")
	verifAssert(verifImplies(share, panicked), "windows sharing an element must panic")
	verifAssert(verifImplies(panicked, share), "element-disjoint equal-stride windows must not panic")
	verifReach("end")
}


// VerifC05_VecOverlapMixedInc: views with DIFFERENT increments. The property
// promises nothing about rejecting disjoint views here (the code is
// documented as conservative), but a shared element must always panic.
func VerifC05_VecOverlapMixedInc() {
	capN := verifParam("veccap", 10)
	maxN := verifParam("vecn", 4)
	back := verifFloats("back", capN)
	inc1 := verifChoose("inc1", 1, 3)
	inc2 := verifChoose("inc2", 1, 3)
	o1 := verifInt("o1", 0, capN-1)
	n1 := verifInt("n1", 1, maxN)
	o2 := verifInt("o2", 0, capN-1)
	n2 := verifInt("n2", 1, maxN)
	l1 := (n1-1)*inc1 + 1
	l2 := (n2-1)*inc2 + 1
	verifAssume(o1+l1 <= capN)
	verifAssume(o2+l2 <= capN)
	v := VecDense{mat: blas64.Vector{N: n1, Inc: inc1, Data: back[o1 : o1+l1]}}
	a := blas64.Vector{N: n2, Inc: inc2, Data: back[o2 : o2+l2]}
	panicked, fault, _ := verifCatch(func() { v.checkOverlap(a) })
	share := false
	for j := 0; j < maxN; j++ {
		for k := 0; k < maxN; k++ {
			share = verifOr(share, verifAnd(verifAnd(j < n1, k < n2), o1+j*inc1 == o2+k*inc2))
		}
	}
	verifAssert(!fault, "checkOverlap never faults")
	verifAssert(verifImplies(share, panicked), "vector views sharing an element must panic (any increments)")
	verifReach("end")
}

// VerifC05_DenseOverlapMixedStride: windows with different strides sharing an
// element must panic (the code may also reject disjoint ones: documented).
func VerifC05_DenseOverlapMixedStride() {
	side := verifParam("denseside", 3)
	capN := side * side
	back := verifFloats("back", capN)
	s1 := verifChoose("stride1", 1, side)
	s2 := verifChoose("stride2", 1, side)
	r1 := verifInt("r1", 1, side)
	c1 := verifInt("c1", 1, side)
	r2 := verifInt("r2", 1, side)
	c2 := verifInt("c2", 1, side)
	o1 := verifInt("o1", 0, capN-1)
	o2 := verifInt("o2", 0, capN-1)
	verifAssume(verifAnd(c1 <= s1, c2 <= s2))
	l1 := (r1-1)*s1 + c1
	l2 := (r2-1)*s2 + c2
	verifAssume(verifAnd(o1+l1 <= capN, o2+l2 <= capN))
	a := blas64.General{Rows: r1, Cols: c1, Stride: s1, Data: back[o1 : o1+l1]}
	b := blas64.General{Rows: r2, Cols: c2, Stride: s2, Data: back[o2 : o2+l2]}
	panicked, fault, _ := verifCatch(func() { checkOverlap(a, b) })
	share := false
	for i1 := 0; i1 < side; i1++ {
		for j1 := 0; j1 < side; j1++ {
			in1 := verifAnd(i1 < r1, j1 < c1)
			p1 := o1 + i1*s1 + j1
			for i2 := 0; i2 < side; i2++ {
				for j2 := 0; j2 < side; j2++ {
					in2 := verifAnd(i2 < r2, j2 < c2)
					share = verifOr(share, verifAnd(verifAnd(in1, in2), p1 == o2+i2*s2+j2))
				}
			}
		}
	}
	verifAssert(!fault, "checkOverlap never faults")
	verifAssert(verifImplies(share, panicked), "windows sharing an element must panic (any strides)")
	verifReach("end")
}
