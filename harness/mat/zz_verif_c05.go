package mat

import "gonum.org/v1/gonum/blas/blas64"

// VerifC05_VecOverlapPredicate: (*VecDense).checkOverlap panics iff the two
// equal-increment vector views of one backing array share an element.
func VerifC05_VecOverlapPredicate() {
	capN := verifParam("veccap", 10)
	maxN := verifParam("vecn", 4)
	back := verifFloats("back", capN)
	inc := verifInt("inc", 1, 4)
	o1 := verifInt("o1", 0, capN-1)
	n1 := verifInt("n1", 1, maxN)
	o2 := verifInt("o2", 0, capN-1)
	n2 := verifInt("n2", 1, maxN)
	l1 := (n1-1)*inc + 1
	l2 := (n2-1)*inc + 1
	verifAssume(o1+l1 <= capN)
	verifAssume(o2+l2 <= capN)
	v := VecDense{mat: blas64.Vector{N: n1, Inc: inc, Data: back[o1 : o1+l1]}}
	a := blas64.Vector{N: n2, Inc: inc, Data: back[o2 : o2+l2]}
	panicked, fault, _ := verifCatch(func() { v.checkOverlap(a) })
	share := false
	for j := 0; j < maxN; j++ {
		for k := 0; k < maxN; k++ {
			share = verifOr(share, verifAnd(verifAnd(j < n1, k < n2), o1+j*inc == o2+k*inc))
		}
	}
	verifAssert(!fault, "checkOverlap never faults")
	verifAssert(verifImplies(share, panicked), "vector views sharing an element must panic")
	verifAssert(verifImplies(panicked, share), "element-disjoint equal-increment vector views must not panic")
	verifReach("end")
}
