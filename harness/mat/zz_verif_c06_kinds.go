package mat

// C06 x representation: the update / extension / solve methods of the
// factorization types take Vector and Matrix INTERFACES; the result must depend
// on the operand's values only, not on whether it is a contiguous *VecDense, a
// strided one (column view), a Vector-only user type, or (for Solve) an
// implicit transpose of the very matrix that is the other operand.

// verifC06vec builds the vector xd in representation kind:
// 0 contiguous *VecDense, 1 strided *VecDense (Inc 2, symbolic filler between
// the elements), 2 Vector-only harness type.
func verifC06vec(kind int, name string, xd []float64) Vector {
	n := len(xd)
	switch kind {
	case 0:
		return NewVecDense(n, append([]float64(nil), xd...))
	case 1:
		back := verifFloats(name+"fill", 2*n)
		for i := range xd {
			back[2*i] = xd[i]
		}
		v := &VecDense{}
		v.mat.N, v.mat.Inc, v.mat.Data = n, 2, back[:2*(n-1)+1]
		return v
	}
	return &verifC04basicVec{n: n, data: append([]float64(nil), xd...)}
}

// VerifC06_CholSymRankOneVectorKinds: SymRankOne with alpha > 0 for every
// representation of x; all representations give the factorization of
// A + alpha*x*xᵀ.
func VerifC06_CholSymRankOneVectorKinds() {
	verifDivZeroPrune(true)
	n := verifChoose("n", 1, verifParam("c06kn", 2))
	kind := verifChoose("xkind", 0, 2)
	verifC06stubCond()
	st := verifC06mkChol("u", n, 1)
	xd := verifFloats("x", n)
	alpha := verifFloat("alpha")
	verifAssume(alpha > 0)
	x := verifC06vec(kind, "x", xd)
	ok := st.c.SymRankOne(st.c, alpha, x)
	verifAssert(ok, "SymRankOne: an update with alpha > 0 always succeeds")
	if ok {
		na := verifC06utu(verifC06cholFactor(st.c, n), n)
		for i := 0; i < n; i++ {
			for j := 0; j < n; j++ {
				verifAssertEqF(na[i*n+j], st.a[i*n+j]+alpha*xd[i]*xd[j], "SymRankOne: updated factor represents A + alpha*x*xᵀ for every representation of x")
			}
		}
	}
	for i := 0; i < n; i++ {
		verifAssert(verifSame(x.AtVec(i), xd[i]), "SymRankOne leaves x unchanged")
	}
	verifReach("end")
}

// VerifC06_LURankOneVectorKinds: LU.RankOne for every representation of x and y.
func VerifC06_LURankOneVectorKinds() {
	verifDivZeroPrune(true)
	n := verifChoose("n", 1, verifParam("c06kn", 2))
	xk := verifChoose("xkind", 0, 2)
	yk := verifChoose("ykind", 0, 2)
	verifC06stubCond()
	st := verifC06mkLU("f", n, 1)
	xd, yd := verifFloats("x", n), verifFloats("y", n)
	alpha := verifFloat("alpha")
	st.lu.RankOne(st.lu, alpha, verifC06vec(xk, "x", xd), verifC06vec(yk, "y", yd))
	for i := 0; i < n; i++ {
		for j := 0; j < n; j++ {
			verifAssertEqF(st.lu.At(i, j), st.a[i*n+j]+alpha*xd[i]*yd[j], "LU.RankOne: updated factors represent A + alpha*x*yᵀ for every representation of x and y")
		}
	}
	verifReach("end")
}

// VerifC06_CholSolveVecKinds: Cholesky.SolveVecTo and LU.SolveVecTo for every
// representation of b.
func VerifC06_SolveVecKinds() {
	verifDivZeroPrune(true)
	n := verifChoose("n", 1, verifParam("c06kn", 2))
	bk := verifChoose("bkind", 0, 2)
	which := verifChoose("fact", 0, 1)
	verifC06stubCond()
	bd := verifFloats("b", n)
	b := verifC06vec(bk, "b", bd)
	var x VecDense
	var a []float64
	if which == 0 {
		st := verifC06mkChol("u", n, 1)
		a = st.a
		err := st.c.SolveVecTo(&x, b)
		verifAssert(err == nil, "Cholesky.SolveVecTo: no error for a well conditioned factorization")
	} else {
		st := verifC06mkLU("f", n, 1)
		a = st.a
		err := st.lu.SolveVecTo(&x, false, b)
		verifAssert(err == nil, "LU.SolveVecTo: no error for a well conditioned factorization")
	}
	verifAssert(x.Len() == n, "solution length")
	if x.Len() == n {
		for i := 0; i < n; i++ {
			var s float64
			for k := 0; k < n; k++ {
				s += a[i*n+k] * x.AtVec(k)
			}
			verifAssertEqF(s, bd[i], "SolveVecTo: A*x == b for every representation of b")
		}
	}
	verifReach("end")
}

// VerifC06_DenseSolveOperandKinds: X.Solve(a, b) with a given as a *Dense, as
// the implicit transpose of a *Dense, or as a Matrix-only type, and b either an
// independent matrix or THE SAME object that underlies a (X.Solve(A.T(), A) is
// Aᵀ⁻¹·A, not the identity).
func VerifC06_DenseSolveOperandKinds() {
	verifDivZeroPrune(true)
	n := verifChoose("n", 1, verifParam("c06kdn", 2))
	ak := verifChoose("akind", 0, 2)
	same := verifChoose("bIsA", 0, 1) == 1
	verifC06stubCond()
	ad := verifFloats("a", n*n)
	A := NewDense(n, n, append([]float64(nil), ad...))
	var a Matrix
	opA := make([]float64, n*n) // the matrix a denotes
	switch ak {
	case 0:
		a = A
		copy(opA, ad)
	case 1:
		a = A.T()
		for i := 0; i < n; i++ {
			for j := 0; j < n; j++ {
				opA[i*n+j] = ad[j*n+i]
			}
		}
	default:
		a = &verifC04basic{r: n, c: n, data: append([]float64(nil), ad...)}
		copy(opA, ad)
	}
	var b Matrix
	bd := verifFloats("b", n*n)
	if same {
		b = A
		bd = ad
	} else {
		b = NewDense(n, n, append([]float64(nil), bd...))
	}
	var x Dense
	err := x.Solve(a, b)
	if err == nil {
		r, c := x.Dims()
		verifAssert(r == n && c == n, "Solve: result shape")
		if r == n && c == n {
			for i := 0; i < n; i++ {
				for j := 0; j < n; j++ {
					var s float64
					for k := 0; k < n; k++ {
						s += opA[i*n+k] * x.At(k, j)
					}
					verifAssertEqF(s, bd[i*n+j], "Solve: a*X == b for every representation of a, also when b is the matrix underlying a")
				}
			}
		}
	}
	for i := 0; i < n; i++ {
		for j := 0; j < n; j++ {
			verifAssert(verifSame(A.At(i, j), ad[i*n+j]), "Solve leaves its operands unchanged")
		}
	}
	verifReach("end")
}

// VerifC06_UpdateKindsF (model F: IEEE values, arithmetic uninterpreted): the
// same update applied with x given as a contiguous *VecDense and as a strided
// *VecDense / Vector-only type yields BIT-IDENTICAL factors - the result
// depends on the values of x only. Cheap where the exact-real identity is out
// of the solver's reach (Cholesky update n >= 2: Drotg square roots).
func VerifC06_UpdateKindsF() {
	which := verifChoose("op", 0, 1)
	nmax := verifParam("c06kfn", 1) // Cholesky update: path count explodes at n = 2 (Drotg comparisons)
	if which == 1 {
		nmax = verifParam("c06kfln", 2)
	}
	n := verifChoose("n", 1, nmax)
	kind := verifChoose("xkind", 1, 2)
	verifC06stubCond()
	xd := verifFloats("x", n)
	alpha := verifFloat("alpha")
	if which == 0 {
		ud := verifFloats("u", n*n)
		mk := func() *Cholesky {
			c := &Cholesky{chol: NewTriDense(n, Upper, nil), cond: 1}
			for i := 0; i < n; i++ {
				for j := i; j < n; j++ {
					c.chol.SetTri(i, j, ud[i*n+j])
				}
			}
			return c
		}
		for i := 0; i < n; i++ {
			verifAssume(ud[i*n+i] > 0)
		}
		verifAssume(alpha > 0)
		c1, c2 := mk(), mk()
		ok1 := c1.SymRankOne(c1, alpha, verifC06vec(0, "x", xd))
		ok2 := c2.SymRankOne(c2, alpha, verifC06vec(kind, "x", xd))
		verifAssert(ok1 == ok2, "SymRankOne: success does not depend on the representation of x")
		if ok1 && ok2 {
			for i := 0; i < n; i++ {
				for j := i; j < n; j++ {
					verifAssert(verifSame(c1.chol.At(i, j), c2.chol.At(i, j)), "SymRankOne: the updated factor does not depend on the representation of x")
				}
			}
		}
	} else {
		yd := verifFloats("y", n)
		fd := verifFloats("f", n*n)
		mk := func() *LU {
			lu := &LU{lu: NewDense(n, n, append([]float64(nil), fd...)), swaps: make([]int, n), piv: make([]int, n), cond: 1, ok: true}
			for i := range lu.swaps {
				lu.swaps[i] = i
				lu.piv[i] = i
			}
			return lu
		}
		l1, l2 := mk(), mk()
		l1.RankOne(l1, alpha, verifC06vec(0, "x", xd), verifC06vec(0, "y", yd))
		l2.RankOne(l2, alpha, verifC06vec(kind, "x", xd), verifC06vec(3-kind, "y", yd))
		for i := 0; i < n*n; i++ {
			verifAssert(verifSame(l1.lu.mat.Data[i], l2.lu.mat.Data[i]), "LU.RankOne: the updated factors do not depend on the representation of x and y")
		}
	}
	verifReach("end")
}
