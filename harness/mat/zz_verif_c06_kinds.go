package mat

// C06 x representation: the update / extension / solve methods of the
// factorization types take Vector and Matrix INTERFACES; the result must depend
// on the operand's values only, not on whether it is a contiguous *VecDense, a
// strided one (column view), a Vector-only user type, or (for Solve) an
// implicit transpose of the very matrix that is the other operand.

// verifC06vec builds the vector xd in representation kind:
// 0 contiguous *VecDense, 1 strided *VecDense (Inc 2, symbolic filler between
// the elements), 2 Vector-only harness type.
func verifC06vec(kind int, name string, xd []float64) Vector {
	n := len(xd)
	switch kind {
	case 0:
		return NewVecDense(n, append([]float64(nil), xd...))
	case 1:
		back := verifFloats(name+"fill", 2*n)
		for i := range xd {
			back[2*i] = xd[i]
		}
		v := &VecDense{}
		v.mat.N, v.mat.Inc, v.mat.Data = n, 2, back[:2*(n-1)+1]
		return v
	}
	return &verifC04basicVec{n: n, data: append([]float64(nil), xd...)}
}

// VerifC06_CholSymRankOneVectorKinds: SymRankOne with alpha > 0 for every
// representation of x; all representations give the factorization of
// A + alpha*x*xᵀ.
func VerifC06_CholSymRankOneVectorKinds() {
	verifDivZeroPrune(true)
	n := verifChoose("n", 1, verifParam("c06kn", 2))
	kind := verifChoose("xkind", 0, 2)
	verifC06stubCond()
	st := verifC06mkChol("u", n, 1)
	xd := verifFloats("x", n)
	alpha := verifFloat("alpha")
	verifAssume(alpha > 0)
	x := verifC06vec(kind, "x", xd)
	ok := st.c.SymRankOne(st.c, alpha, x)
	verifAssert(ok, "SymRankOne: an update with alpha > 0 always succeeds")
	if ok {
		na := verifC06utu(verifC06cholFactor(st.c, n), n)
		for i := 0; i < n; i++ {
			for j := 0; j < n; j++ {
				verifAssertEqF(na[i*n+j], st.a[i*n+j]+alpha*xd[i]*xd[j], "SymRankOne: updated factor represents A + alpha*x*xᵀ for every representation of x")
			}
		}
	}
	for i := 0; i < n; i++ {
		verifAssert(verifSame(x.AtVec(i), xd[i]), "SymRankOne leaves x unchanged")
	}
	verifReach("end")
}

// VerifC06_LURankOneVectorKinds: LU.RankOne for every representation of x and y.
func VerifC06_LURankOneVectorKinds() {
	verifDivZeroPrune(true)
	n := verifChoose("n", 1, verifParam("c06kn", 2))
	xk := verifChoose("xkind", 0, 2)
	yk := verifChoose("ykind", 0, 2)
	verifC06stubCond()
	st := verifC06mkLU("f", n, 1)
	xd, yd := verifFloats("x", n), verifFloats("y", n)
	alpha := verifFloat("alpha")
	st.lu.RankOne(st.lu, alpha, verifC06vec(xk, "x", xd), verifC06vec(yk, "y", yd))
	for i := 0; i < n; i++ {
		for j := 0; j < n; j++ {
			verifAssertEqF(st.lu.At(i, j), st.a[i*n+j]+alpha*xd[i]*yd[j], "LU.RankOne: updated factors represent A + alpha*x*yᵀ for every representation of x and y")
		}
	}
	verifReach("end")
}

// VerifC06_CholSolveVecKinds: Cholesky.SolveVecTo and LU.SolveVecTo for every
// representation of b.
func VerifC06_SolveVecKinds() {
	verifDivZeroPrune(true)
	n := verifChoose("n", 1, verifParam("c06kn", 2))
	bk := verifChoose("bkind", 0, 2)
	which := verifChoose("fact", 0, 1)
	verifC06stubCond()
	bd := verifFloats("b", n)
	b := verifC06vec(bk, "b", bd)
	var x VecDense
	var a []float64
	if which == 0 {
		st := verifC06mkChol("u", n, 1)
		a = st.a
		err := st.c.SolveVecTo(&x, b)
		verifAssert(err == nil, "Cholesky.SolveVecTo: no error for a well conditioned factorization")
	} else {
		st := verifC06mkLU("f", n, 1)
		a = st.a
		err := st.lu.SolveVecTo(&x, false, b)
		verifAssert(err == nil, "LU.SolveVecTo: no error for a well conditioned factorization")
	}
	verifAssert(x.Len() == n, "solution length")
	if x.Len() == n {
		for i := 0; i < n; i++ {
			var s float64
			for k := 0; k < n; k++ {
				s += a[i*n+k] * x.AtVec(k)
			}
			verifAssertEqF(s, bd[i], "SolveVecTo: A*x == b for every representation of b")
		}
	}
	verifReach("end")
}

// VerifC06_DenseSolveOperandKinds: X.Solve(a, b) with a given as a *Dense, as
// the implicit transpose of a *Dense, or as a Matrix-only type, and b either an
// independent matrix or THE SAME object that underlies a (X.Solve(A.T(), A) is
// Aᵀ⁻¹·A, not the identity).
func VerifC06_DenseSolveOperandKinds() {
	verifDivZeroPrune(true)
	n := verifChoose("n", 1, verifParam("c06kdn", 2))
	ak := verifChoose("akind", 0, 2)
	same := verifChoose("bIsA", 0, 1) == 1
	verifC06stubCond()
	ad := verifFloats("a", n*n)
	A := NewDense(n, n, append([]float64(nil), ad...))
	var a Matrix
	opA := make([]float64, n*n) // the matrix a denotes
	switch ak {
	case 0:
		a = A
		copy(opA, ad)
	case 1:
		a = A.T()
		for i := 0; i < n; i++ {
			for j := 0; j < n; j++ {
				opA[i*n+j] = ad[j*n+i]
			}
		}
	default:
		a = &verifC04basic{r: n, c: n, data: append([]float64(nil), ad...)}
		copy(opA, ad)
	}
	var b Matrix
	bd := verifFloats("b", n*n)
	if same {
		b = A
		bd = ad
	} else {
		b = NewDense(n, n, append([]float64(nil), bd...))
	}
	var x Dense
	err := x.Solve(a, b)
	if err == nil {
		r, c := x.Dims()
		verifAssert(r == n && c == n, "Solve: result shape")
		if r == n && c == n {
			for i := 0; i < n; i++ {
				for j := 0; j < n; j++ {
					var s float64
					for k := 0; k < n; k++ {
						s += opA[i*n+k] * x.At(k, j)
					}
					verifAssertEqF(s, bd[i*n+j], "Solve: a*X == b for every representation of a, also when b is the matrix underlying a")
				}
			}
		}
	}
	for i := 0; i < n; i++ {
		for j := 0; j < n; j++ {
			verifAssert(verifSame(A.At(i, j), ad[i*n+j]), "Solve leaves its operands unchanged")
		}
	}
	verifReach("end")
}
