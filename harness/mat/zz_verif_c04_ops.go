package mat

import "math"

// The harnesses below case-split (verifChoose) over shapes and operand kinds
// and LOOP, inside one path, over receiver states and operations: geometry is
// concrete, so the loops are straight-line code for the engine, and the fixed
// per-path cost is paid once per operand combination.

// verifC04nm builds a unique symbolic-variable name for iteration (i, j).
func verifC04nm(base string, i, j int) string {
	return base + string(rune('0'+i)) + string(rune('a'+j))
}

// VerifC04_Mul: m.Mul(a, b) for every pair of operand kinds, shape and
// receiver state equals the generic sum_l a(i,l)*b(l,j).
func VerifC04_Mul() {
	maxN := verifParam("c04n", 2)
	r := verifChoose("r", 1, maxN)
	k := verifChoose("k", 1, maxN)
	c := verifChoose("c", 1, maxN)
	ka := verifC04pick("ka", r, k)
	kb := verifC04pick("kb", k, c)
	a := verifC04mk("a", ka, r, k)
	b := verifC04mk("b", kb, k, c)
	want := make([]float64, r*c)
	for i := 0; i < r; i++ {
		for j := 0; j < c; j++ {
			var s float64
			for l := 0; l < k; l++ {
				s += a.at(i, l) * b.at(l, j)
			}
			want[i*c+j] = s
		}
	}
	for st := 0; st <= 2; st++ {
		rv := verifC04mkRecv(verifC04nm("m", st, 0), st, r, c)
		rv.d.Mul(a.m, b.m)
		rv.check(want, "Mul")
		a.unchanged("Mul a")
		b.unchanged("Mul b")
	}
	verifReach("end")
}

// VerifC04_Elementwise: Add, Sub, MulElem (and DivElem when b has no
// structural zeros).
func VerifC04_Elementwise() {
	maxN := verifParam("c04n", 2)
	r := verifChoose("r", 1, maxN)
	c := verifChoose("c", 1, maxN)
	ka := verifC04pick("ka", r, c)
	kb := verifC04pick("kb", r, c)
	a := verifC04mk("a", ka, r, c)
	b := verifC04mk("b", kb, r, c)
	want := make([]float64, r*c)
	for st := 0; st <= 2; st++ {
		for op := 0; op <= 2; op++ {
			rv := verifC04mkRecv(verifC04nm("m", st, op), st, r, c)
			name := ""
			switch op {
			case 0:
				name = "Add"
				rv.d.Add(a.m, b.m)
				for i := range want {
					want[i] = a.val[i] + b.val[i]
				}
			case 1:
				name = "Sub"
				rv.d.Sub(a.m, b.m)
				for i := range want {
					want[i] = a.val[i] - b.val[i]
				}
			case 2:
				name = "MulElem"
				rv.d.MulElem(a.m, b.m)
				for i := range want {
					want[i] = a.val[i] * b.val[i]
				}
			}
			rv.check(want, name)
			a.unchanged(name + " a")
			b.unchanged(name + " b")
		}
	}
	verifReach("end")
}

// VerifC04_DivElem: the divisor is drawn from the kinds without structural
// zeros and its elements are assumed non-zero.
func VerifC04_DivElem() {
	maxN := verifParam("c04n", 2)
	r := verifChoose("r", 1, maxN)
	c := verifChoose("c", 1, maxN)
	ka := verifC04pick("ka", r, c)
	ks := verifC04kindsFor(r, c, 0)
	kb := ks[verifChoose("kb", 0, len(ks)-1)]
	a := verifC04mk("a", ka, r, c)
	b := verifC04mk("b", kb, r, c)
	for i := range b.val {
		verifAssume(b.val[i] != 0)
	}
	want := make([]float64, r*c)
	for i := range want {
		want[i] = a.val[i] / b.val[i]
	}
	for st := 0; st <= 2; st++ {
		rv := verifC04mkRecv(verifC04nm("m", st, 0), st, r, c)
		rv.d.DivElem(a.m, b.m)
		rv.check(want, "DivElem")
		a.unchanged("DivElem a")
		b.unchanged("DivElem b")
	}
	verifReach("end")
}

func verifC04fn(i, j int, v float64) float64 {
	return v*float64(i+2) + float64(3*j+1)
}

// VerifC04_Unary: Scale, Apply, CloneFrom.
func VerifC04_Unary() {
	maxN := verifParam("c04n", 2)
	r := verifChoose("r", 1, maxN)
	c := verifChoose("c", 1, maxN)
	ka := verifC04pick("ka", r, c)
	a := verifC04mk("a", ka, r, c)
	want := make([]float64, r*c)
	f := verifFloat("f")
	for st := 0; st <= 2; st++ {
		for op := 0; op <= 2; op++ {
			rv := verifC04mkRecv(verifC04nm("m", st, op), st, r, c)
			name := ""
			switch op {
			case 0:
				name = "Scale"
				rv.d.Scale(f, a.m)
				for i := range want {
					want[i] = f * a.val[i]
				}
			case 1:
				name = "Apply"
				rv.d.Apply(verifC04fn, a.m)
				for i := 0; i < r; i++ {
					for j := 0; j < c; j++ {
						want[i*c+j] = verifC04fn(i, j, a.at(i, j))
					}
				}
			case 2:
				name = "CloneFrom"
				rv.d.CloneFrom(a.m)
				copy(want, a.val)
				// CloneFrom may give the receiver new storage; whatever it
				// does, a view's backing outside the window stays as it was.
				rv.outsideUntouched("CloneFrom")
				rv.state = 0
			}
			rv.check(want, name)
			a.unchanged(name + " a")
		}
	}
	verifReach("end")
}

// VerifC04_Copy: m.Copy(a) copies the common top-left block and nothing else.
func VerifC04_Copy() {
	maxN := verifParam("c04n", 2)
	rr := verifChoose("rr", 1, maxN)
	cc := verifChoose("cc", 1, maxN)
	r := verifChoose("r", 1, maxN)
	c := verifChoose("c", 1, maxN)
	ka := verifC04pick("ka", r, c)
	a := verifC04mk("a", ka, r, c)
	for st := 1; st <= 2; st++ {
		rv := verifC04mkRecv(verifC04nm("m", st, 0), st, rr, cc)
		old := make([]float64, rr*cc)
		for i := 0; i < rr; i++ {
			for j := 0; j < cc; j++ {
				old[i*cc+j] = rv.d.At(i, j)
			}
		}
		gr, gc := rv.d.Copy(a.m)
		verifAssert(gr == verifC04min(r, rr) && gc == verifC04min(c, cc), "Copy: returned extent is the common block")
		want := make([]float64, rr*cc)
		for i := 0; i < rr; i++ {
			for j := 0; j < cc; j++ {
				if i < r && j < c {
					want[i*cc+j] = a.at(i, j)
				} else {
					want[i*cc+j] = old[i*cc+j]
				}
			}
		}
		rv.check(want, "Copy")
		a.unchanged("Copy a")
	}
	verifReach("end")
}

// VerifC04_StackAugment: Stack(a, b) and Augment(a, b).
func VerifC04_StackAugment() {
	maxN := verifParam("c04n", 2)
	op := verifChoose("op", 0, 1)
	r1 := verifChoose("r1", 1, maxN)
	r2 := verifChoose("r2", 1, maxN)
	c := verifChoose("c", 1, maxN)
	var a, b *verifC04op
	if op == 0 {
		ka := verifC04pick("ka", r1, c)
		kb := verifC04pick("kb", r2, c)
		a = verifC04mk("a", ka, r1, c)
		b = verifC04mk("b", kb, r2, c)
		want := make([]float64, (r1+r2)*c)
		for i := 0; i < r1+r2; i++ {
			for j := 0; j < c; j++ {
				if i < r1 {
					want[i*c+j] = a.at(i, j)
				} else {
					want[i*c+j] = b.at(i-r1, j)
				}
			}
		}
		for st := 0; st <= 2; st++ {
			rv := verifC04mkRecv(verifC04nm("m", st, 0), st, r1+r2, c)
			rv.d.Stack(a.m, b.m)
			rv.check(want, "Stack")
			a.unchanged("Stack a")
			b.unchanged("Stack b")
		}
	} else {
		// here r1, r2 are the column counts and c the common row count
		ka := verifC04pick("ka", c, r1)
		kb := verifC04pick("kb", c, r2)
		a = verifC04mk("a", ka, c, r1)
		b = verifC04mk("b", kb, c, r2)
		w := r1 + r2
		want := make([]float64, c*w)
		for i := 0; i < c; i++ {
			for j := 0; j < w; j++ {
				if j < r1 {
					want[i*w+j] = a.at(i, j)
				} else {
					want[i*w+j] = b.at(i, j-r1)
				}
			}
		}
		for st := 0; st <= 2; st++ {
			rv := verifC04mkRecv(verifC04nm("m", st, 0), st, c, w)
			rv.d.Augment(a.m, b.m)
			rv.check(want, "Augment")
			a.unchanged("Augment a")
			b.unchanged("Augment b")
		}
	}
	verifReach("end")
}

// VerifC04_Kronecker.
func VerifC04_Kronecker() {
	maxN := verifParam("c04kron", 2)
	ra := verifChoose("ra", 1, maxN)
	ca := verifChoose("ca", 1, maxN)
	rb := verifChoose("rb", 1, maxN)
	cb := verifChoose("cb", 1, maxN)
	ka := verifC04pick("ka", ra, ca)
	kb := verifC04pick("kb", rb, cb)
	a := verifC04mk("a", ka, ra, ca)
	b := verifC04mk("b", kb, rb, cb)
	w := ca * cb
	want := make([]float64, ra*rb*w)
	for i := 0; i < ra*rb; i++ {
		for j := 0; j < w; j++ {
			want[i*w+j] = a.at(i/rb, j/cb) * b.at(i%rb, j%cb)
		}
	}
	for st := 0; st <= 2; st++ {
		rv := verifC04mkRecv(verifC04nm("m", st, 0), st, ra*rb, w)
		rv.d.Kronecker(a.m, b.m)
		rv.check(want, "Kronecker")
		a.unchanged("Kronecker a")
		b.unchanged("Kronecker b")
	}
	verifReach("end")
}

// VerifC04_RankOneOuter: m.RankOne(a, alpha, x, y) and m.Outer(alpha, x, y).
func VerifC04_RankOneOuter() {
	maxN := verifParam("c04n", 2)
	r := verifChoose("r", 1, maxN)
	c := verifChoose("c", 1, maxN)
	kx := verifChoose("kx", 0, verifC04nVecKinds-1)
	ky := verifChoose("ky", 0, verifC04nVecKinds-1)
	ka := verifC04pick("ka", r, c)
	x := verifC04mkVec("x", kx, r)
	y := verifC04mkVec("y", ky, c)
	a := verifC04mk("a", ka, r, c)
	alpha := verifFloat("alpha")
	want := make([]float64, r*c)
	for st := 0; st <= 2; st++ {
		rv := verifC04mkRecv(verifC04nm("m", st, 0), st, r, c)
		rv.d.RankOne(a.m, alpha, x.v, y.v)
		for i := 0; i < r; i++ {
			for j := 0; j < c; j++ {
				want[i*c+j] = a.at(i, j) + alpha*x.val[i]*y.val[j]
			}
		}
		rv.check(want, "RankOne")
		a.unchanged("RankOne a")
		x.unchanged("RankOne x")
		y.unchanged("RankOne y")
		if ka != verifC04kDense {
			continue // Outer has no matrix operand: once per (x, y) pair
		}
		rv = verifC04mkRecv(verifC04nm("m", st, 1), st, r, c)
		rv.d.Outer(alpha, x.v, y.v)
		for i := 0; i < r; i++ {
			for j := 0; j < c; j++ {
				want[i*c+j] = alpha * x.val[i] * y.val[j]
			}
		}
		rv.check(want, "Outer")
		x.unchanged("Outer x")
		y.unchanged("Outer y")
	}
	verifReach("end")
}

// VerifC04_MulVec: v.MulVec(a, b).
func VerifC04_MulVec() {
	maxN := verifParam("c04n", 2)
	r := verifChoose("r", 1, maxN)
	c := verifChoose("c", 1, maxN)
	ka := verifC04pick("ka", r, c)
	kb := verifChoose("kb", 0, verifC04nVecKinds-1)
	a := verifC04mk("a", ka, r, c)
	b := verifC04mkVec("b", kb, c)
	want := make([]float64, r)
	for i := 0; i < r; i++ {
		var s float64
		for j := 0; j < c; j++ {
			s += a.at(i, j) * b.val[j]
		}
		want[i] = s
	}
	for st := 0; st <= 2; st++ {
		rv := verifC04mkVRecv(verifC04nm("v", st, 0), st, r)
		rv.v.MulVec(a.m, b.v)
		rv.check(want, "MulVec")
		a.unchanged("MulVec a")
		b.unchanged("MulVec b")
	}
	verifReach("end")
}

// VerifC04_VecOps: AddVec, SubVec, MulElemVec, DivElemVec, AddScaledVec
// (general alpha and the special values 0, 1, -1), ScaleVec, CopyVec.
func VerifC04_VecOps() {
	maxN := verifParam("c04vn", 3)
	n := verifChoose("n", 1, maxN)
	ka := verifChoose("ka", 0, verifC04nVecKinds-1)
	kb := verifChoose("kb", 0, verifC04nVecKinds-1)
	div := verifChoose("div", 0, 1) // 1: DivElemVec only (needs b != 0)
	a := verifC04mkVec("a", ka, n)
	b := verifC04mkVec("b", kb, n)
	alpha := verifFloat("alpha")
	alphaG := verifFloat("alphaG") // AddScaledVec's general case; 0, 1, -1 are run separately
	verifAssume(verifAnd(alphaG != 0, verifAnd(alphaG != 1, alphaG != -1)))
	want := make([]float64, n)
	if div == 1 {
		for i := range b.val {
			verifAssume(b.val[i] != 0)
		}
		for i := range want {
			want[i] = a.val[i] / b.val[i]
		}
		for st := 0; st <= 2; st++ {
			rv := verifC04mkVRecv(verifC04nm("v", st, 0), st, n)
			rv.v.DivElemVec(a.v, b.v)
			rv.check(want, "DivElemVec")
			a.unchanged("DivElemVec a")
			b.unchanged("DivElemVec b")
		}
		verifReach("end")
		return
	}
	for st := 0; st <= 2; st++ {
		for op := 0; op <= 8; op++ {
			if op >= 7 && kb != 0 {
				continue // unary operations: once per a-kind
			}
			if op == 8 && st == 0 {
				continue // CopyVec into an empty receiver copies nothing
			}
			rv := verifC04mkVRecv(verifC04nm("v", st, op), st, n)
			name := ""
			switch op {
			case 0:
				name = "AddVec"
				rv.v.AddVec(a.v, b.v)
				for i := range want {
					want[i] = a.val[i] + b.val[i]
				}
			case 1:
				name = "SubVec"
				rv.v.SubVec(a.v, b.v)
				for i := range want {
					want[i] = a.val[i] - b.val[i]
				}
			case 2:
				name = "MulElemVec"
				rv.v.MulElemVec(a.v, b.v)
				for i := range want {
					want[i] = a.val[i] * b.val[i]
				}
			case 3, 4, 5, 6:
				name = "AddScaledVec"
				al := alphaG
				switch op {
				case 4:
					al = 0
				case 5:
					al = 1
				case 6:
					al = -1
				}
				rv.v.AddScaledVec(a.v, al, b.v)
				for i := range want {
					want[i] = a.val[i] + al*b.val[i]
				}
			case 7:
				name = "ScaleVec"
				rv.v.ScaleVec(alpha, a.v)
				for i := range want {
					want[i] = alpha * a.val[i]
				}
			case 8:
				name = "CopyVec"
				got := rv.v.CopyVec(a.v)
				verifAssert(got == n, "CopyVec: returned count")
				copy(want, a.val)
			}
			rv.check(want, name)
			a.unchanged(name + " a")
			b.unchanged(name + " b")
		}
	}
	verifReach("end")
}

// VerifC04_CloneFromVec: v.CloneFromVec(a) gives v the value of a; when v was a
// strided view of a larger matrix, the matrix cells that are not elements of v
// keep their values. (OPEN VIOLATION on the unchanged tree, see notes/C04.md.)
func VerifC04_CloneFromVec() {
	maxN := verifParam("c04vn", 3)
	n := verifChoose("n", 1, maxN)
	ka := verifChoose("ka", 0, verifC04nVecKinds-1)
	a := verifC04mkVec("a", ka, n)
	for st := 0; st <= 2; st++ {
		rv := verifC04mkVRecv(verifC04nm("v", st, 0), st, n)
		rv.v.CloneFromVec(a.v)
		rv.outsideUntouched("CloneFromVec")
		rv.state = 0
		rv.check(a.val, "CloneFromVec")
		a.unchanged("CloneFromVec a")
	}
	verifReach("end")
}

// VerifC04_DotInner: Dot(x, y) and Inner(x, A, y).
func VerifC04_DotInner() {
	maxN := verifParam("c04n", 2)
	r := verifChoose("r", 1, maxN)
	c := verifChoose("c", 1, maxN)
	kx := verifChoose("kx", 0, verifC04nVecKinds-1)
	ky := verifChoose("ky", 0, verifC04nVecKinds-1)
	ka := verifC04pick("ka", r, c)
	x := verifC04mkVec("x", kx, r)
	y := verifC04mkVec("y", ky, c)
	a := verifC04mk("a", ka, r, c)
	if r == c && ka == verifC04kDense {
		got := Dot(x.v, y.v)
		var s float64
		for i := 0; i < r; i++ {
			s += x.val[i] * y.val[i]
		}
		verifAssertEqF(got, s, "Dot equals sum x_i*y_i")
		x.unchanged("Dot x")
		y.unchanged("Dot y")
	}
	got := Inner(x.v, a.m, y.v)
	var s float64
	for i := 0; i < r; i++ {
		for j := 0; j < c; j++ {
			s += x.val[i] * a.at(i, j) * y.val[j]
		}
	}
	verifAssertEqF(got, s, "Inner equals sum x_i*a_ij*y_j")
	x.unchanged("Inner x")
	y.unchanged("Inner y")
	a.unchanged("Inner a")
	verifReach("end")
}

// VerifC04_SumTrace: Sum, Trace (no data-dependent branches).
func VerifC04_SumTrace() {
	maxN := verifParam("c04n", 2)
	r := verifChoose("r", 1, maxN)
	c := verifChoose("c", 1, maxN)
	ka := verifC04pick("ka", r, c)
	a := verifC04mk("a", ka, r, c)
	{
		got := Sum(a.m)
		var s float64
		for i := range a.val {
			s += a.val[i]
		}
		verifAssertEqF(got, s, "Sum equals the sum of all elements")
	}
	if r == c {
		got := Trace(a.m)
		var s float64
		for i := 0; i < r; i++ {
			s += a.at(i, i)
		}
		verifAssertEqF(got, s, "Trace equals the sum of the diagonal")
	}
	a.unchanged("Sum/Trace operand")
	verifReach("end")
}

// VerifC04_MaxMinNorm: Max, Min, Norm(1), Norm(Inf): these branch on
// comparisons of the data (one case-split each; run with -merge).
// Norm(2) is not included: for the built-in types it goes through Dlassq's
// three-accumulator safe scaling, which drops tiny terms when a huge term is
// present: equal to sqrt(sum of squares) only to rounding, not exactly.
func VerifC04_MaxMinNorm() {
	maxN := verifParam("c04n", 2)
	op := verifChoose("op", 0, 3)
	r := verifChoose("r", 1, maxN)
	c := verifChoose("c", 1, maxN)
	ka := verifC04pick("ka", r, c)
	a := verifC04mk("a", ka, r, c)
	switch op {
	case 0:
		got := Max(a.m)
		attained := false
		for i := range a.val {
			verifAssert(got >= a.val[i], "Max is an upper bound of the elements")
			attained = verifOr(attained, got == a.val[i])
		}
		verifAssert(attained, "Max is attained by an element")
	case 1:
		got := Min(a.m)
		attained := false
		for i := range a.val {
			verifAssert(got <= a.val[i], "Min is a lower bound of the elements")
			attained = verifOr(attained, got == a.val[i])
		}
		verifAssert(attained, "Min is attained by an element")
	case 2:
		got := Norm(a.m, 1)
		attained := false
		for j := 0; j < c; j++ {
			var s float64
			for i := 0; i < r; i++ {
				s += verifAbsF(a.at(i, j))
			}
			verifAssert(got >= s, "Norm(1) bounds every absolute column sum")
			attained = verifOr(attained, got == s)
		}
		verifAssert(attained, "Norm(1) is attained by a column")
	case 3:
		got := Norm(a.m, math.Inf(1))
		attained := false
		for i := 0; i < r; i++ {
			var s float64
			for j := 0; j < c; j++ {
				s += verifAbsF(a.at(i, j))
			}
			verifAssert(got >= s, "Norm(Inf) bounds every absolute row sum")
			attained = verifOr(attained, got == s)
		}
		verifAssert(attained, "Norm(Inf) is attained by a row")
	}
	a.unchanged("reduction operand")
	verifReach("end")
}
