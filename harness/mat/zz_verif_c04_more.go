package mat

import (
	"math"

	"gonum.org/v1/gonum/blas"
	"gonum.org/v1/gonum/lapack"
	lapackgonum "gonum.org/v1/gonum/lapack/gonum"
	"gonum.org/v1/gonum/lapack/lapack64"
)

// ---------------------------------------------------------------------------
// C04, second wave: the operations that the first wave left outside. The
// operand / receiver builders of zz_verif_c04_core.go and zz_verif_c04_symtri.go
// are reused; helpers of this file are prefixed verifC04m.
// ---------------------------------------------------------------------------

func verifC04mN(base string, i int) string { return base + string(rune('0'+i)) }

// verifC04mSnap reads an r×c matrix through At.
func verifC04mSnap(m Matrix) []float64 {
	r, c := m.Dims()
	v := make([]float64, r*c)
	for i := 0; i < r; i++ {
		for j := 0; j < c; j++ {
			v[i*c+j] = m.At(i, j)
		}
	}
	return v
}

// verifC04mMul is the definition of the product of a (r×k) and b (k×c).
func verifC04mMul(a []float64, r, k int, b []float64, c int) []float64 {
	w := make([]float64, r*c)
	for i := 0; i < r; i++ {
		for j := 0; j < c; j++ {
			var s float64
			for l := 0; l < k; l++ {
				s += a[i*k+l] * b[l*c+j]
			}
			w[i*c+j] = s
		}
	}
	return w
}

func verifC04mTrans(a []float64, r, c int) []float64 {
	w := make([]float64, r*c)
	for i := 0; i < r; i++ {
		for j := 0; j < c; j++ {
			w[j*r+i] = a[i*c+j]
		}
	}
	return w
}

// verifC04mPerm case-splits over all permutations of 0..n-1.
func verifC04mPerm(name string, n int) []int {
	rest := make([]int, n)
	for i := range rest {
		rest[i] = i
	}
	p := make([]int, 0, n)
	for i := 0; i < n; i++ {
		k := 0
		if len(rest) > 1 {
			k = verifChoose(verifC04mN(name, i), 0, len(rest)-1)
		}
		p = append(p, rest[k])
		rest = append(rest[:k:k], rest[k+1:]...)
	}
	return p
}

// reduced kind list used for the positions that are not under the full
// cross product.
var verifC04mReduced = []int{verifC04kDense, verifC04kDenseViewT, verifC04kBasic}

// ---------------------------------------------------------------------------
// 1. Dense.Product
// ---------------------------------------------------------------------------

// verifC04mConcretize overwrites the (symbolic) storage behind an operand with
// distinct small non-zero numbers and re-takes the snapshots.
func verifC04mConcretize(o *verifC04op, seed int) {
	for i := range o.back {
		o.back[i] = float64(2 + (5*i+7*seed)%11)
	}
	o.back0 = append([]float64(nil), o.back...)
	for i := 0; i < o.r; i++ {
		for j := 0; j < o.c; j++ {
			o.val[i*o.c+j] = o.m.At(i, j)
		}
	}
}

// VerifC04_Product: m.Product(f0, ..., f_{nf-1}) for 1..3 factors equals the
// chain product computed from the At snapshots, for every receiver state.
// One and two factors: all data symbolic, full cross product of kinds.
// Three factors: one position pos (case-split) holds symbolic data and ranges
// over every applicable kind; the other two hold concrete non-zero numbers
// (c04psym=1: symbolic as well - a degree-3 identity per element, expensive)
// and range over {Dense, T() of a strided window, Matrix-only type}
// (c04pfull=1: over every applicable kind).
func VerifC04_Product() {
	maxN := verifParam("c04pn", 2)
	full := verifParam("c04pfull", 0)
	sym := verifParam("c04psym", 0)
	nf := verifChoose("nf", verifParam("c04pnfmin", 1), 3)
	d := make([]int, nf+1)
	for i := range d {
		d[i] = verifChoose(verifC04mN("d", i), 1, maxN)
	}
	pos := -1
	if nf == 3 {
		pos = verifChoose("pos", 0, 2)
	}
	ops := make([]*verifC04op, nf)
	ms := make([]Matrix, nf)
	for f := 0; f < nf; f++ {
		var k int
		if pos >= 0 && f != pos && full == 0 {
			k = verifC04mReduced[verifChoose(verifC04mN("k", f), 0, len(verifC04mReduced)-1)]
		} else {
			k = verifC04pick(verifC04mN("k", f), d[f], d[f+1])
		}
		ops[f] = verifC04mk(verifC04mN("f", f), k, d[f], d[f+1])
		if pos >= 0 && f != pos && sym == 0 {
			verifC04mConcretize(ops[f], f)
		}
		ms[f] = ops[f].m
	}
	want := ops[0].val
	for f := 1; f < nf; f++ {
		want = verifC04mMul(want, d[0], d[f], ops[f].val, d[f+1])
	}
	for st := 0; st <= 2; st++ {
		rv := verifC04mkRecv(verifC04nm("m", st, 0), st, d[0], d[nf])
		rv.d.Product(ms...)
		rv.check(want, "Product")
		for f := 0; f < nf; f++ {
			ops[f].unchanged("Product factor")
		}
	}
	verifReach("end")
}

// VerifC04_ProductAlias: the receiver itself (or, for two and three factors,
// its implicit transpose) is one of the factors: the product is formed from the
// receiver's old value.
func VerifC04_ProductAlias() {
	maxN := verifParam("c04pn", 2)
	nf := verifChoose("nf", 1, 3)
	p := verifChoose("p", 0, 2)
	tr := verifChoose("tr", 0, 1) == 1
	if p >= nf || (tr && nf == 1) {
		return
	}
	d := make([]int, nf+1)
	for i := range d {
		d[i] = verifChoose(verifC04mN("d", i), 1, maxN)
	}
	r, c := d[0], d[nf]
	if tr {
		if d[p] != c || d[p+1] != r {
			return
		}
	} else if d[p] != r || d[p+1] != c {
		return
	}
	ops := make([]*verifC04op, nf)
	for f := 0; f < nf; f++ {
		if f == p {
			continue
		}
		var k int
		if nf == 3 && verifParam("c04pfull", 0) == 0 {
			k = verifC04mReduced[verifChoose(verifC04mN("k", f), 0, len(verifC04mReduced)-1)]
		} else {
			k = verifC04pick(verifC04mN("k", f), d[f], d[f+1])
		}
		ops[f] = verifC04mk(verifC04mN("f", f), k, d[f], d[f+1])
		if nf == 3 && verifParam("c04psym", 0) == 0 {
			// three factors: only the receiver holds symbolic data (see VerifC04_Product)
			verifC04mConcretize(ops[f], f)
		}
	}
	for st := 1; st <= 2; st++ {
		rv := verifC04mkRecv(verifC04nm("m", st, 0), st, r, c)
		old := verifC04mSnap(rv.d)
		if tr {
			old = verifC04mTrans(old, r, c)
		}
		ms := make([]Matrix, nf)
		var want []float64
		for f := 0; f < nf; f++ {
			v := old
			if f == p {
				ms[f] = rv.d
				if tr {
					ms[f] = rv.d.T()
				}
			} else {
				ms[f] = ops[f].m
				v = ops[f].val
			}
			if f == 0 {
				want = v
			} else {
				want = verifC04mMul(want, d[0], d[f], v, d[f+1])
			}
		}
		rv.d.Product(ms...)
		rv.check(want, "Product (receiver is a factor)")
		for f := 0; f < nf; f++ {
			if f != p {
				ops[f].unchanged("Product factor")
			}
		}
	}
	verifReach("end")
}

// ---------------------------------------------------------------------------
// 2. Equal / EqualApprox, Row / Col
// ---------------------------------------------------------------------------

// VerifC04_Equal: Equal(a, b) <=> same shape and all elements equal, for
// every pair of representations; EqualApprox with epsilon 0 is the same
// relation.
func VerifC04_Equal() {
	maxN := verifParam("c04n", 2)
	r := verifChoose("r", 1, maxN)
	c := verifChoose("c", 1, maxN)
	ka := verifC04pick("ka", r, c)
	kb := verifC04pick("kb", r, c)
	a := verifC04mk("a", ka, r, c)
	b := verifC04mk("b", kb, r, c)
	allEq := true
	for i := range a.val {
		allEq = verifAnd(allEq, a.val[i] == b.val[i])
	}
	got := Equal(a.m, b.m)
	verifAssert(verifIff(got, allEq), "Equal(a, b) <=> every element of a equals the element of b")
	got0 := EqualApprox(a.m, b.m, 0)
	verifAssert(verifIff(got0, allEq), "EqualApprox(a, b, 0) <=> every element of a equals the element of b")
	a.unchanged("Equal a")
	b.unchanged("Equal b")
	verifReach("end")
}

// VerifC04_EqualSameValues: two representations of the same values compare
// equal, with Equal and with EqualApprox for every tolerance.
func VerifC04_EqualSameValues() {
	maxN := verifParam("c04n", 2)
	r := verifChoose("r", 1, maxN)
	c := verifChoose("c", 1, maxN)
	ka := verifC04pick("ka", r, c)
	kb := verifC04pick("kb", r, c)
	a := verifC04mk("a", ka, r, c)
	b := verifC04mk("b", kb, r, c)
	for i := range a.val {
		verifAssume(a.val[i] == b.val[i])
	}
	eps := verifFloat("eps")
	verifAssert(Equal(a.m, b.m), "Equal: equal values in different representations compare equal")
	verifAssert(EqualApprox(a.m, b.m, eps), "EqualApprox: equal values in different representations compare equal for every epsilon")
	a.unchanged("Equal a")
	b.unchanged("Equal b")
	verifReach("end")
}

// VerifC04_EqualShape: matrices of different shape are never equal.
func VerifC04_EqualShape() {
	maxN := verifParam("c04n", 2)
	r := verifChoose("r", 1, maxN)
	c := verifChoose("c", 1, maxN)
	r2 := verifChoose("r2", 1, maxN)
	c2 := verifChoose("c2", 1, maxN)
	if r == r2 && c == c2 {
		return
	}
	ka := verifC04pick("ka", r, c)
	kb := verifC04pick("kb", r2, c2)
	a := verifC04mk("a", ka, r, c)
	b := verifC04mk("b", kb, r2, c2)
	eps := verifFloat("eps")
	verifAssert(!Equal(a.m, b.m), "Equal: shapes differ => false")
	verifAssert(!EqualApprox(a.m, b.m, eps), "EqualApprox: shapes differ => false")
	verifReach("end")
}

// VerifC04_RowCol: Row(dst, i, a) and Col(dst, j, a) with dst nil and
// pre-sized, for every kind and every index.
func VerifC04_RowCol() {
	maxN := verifParam("c04n", 2)
	r := verifChoose("r", 1, maxN)
	c := verifChoose("c", 1, maxN)
	ka := verifC04pick("ka", r, c)
	a := verifC04mk("a", ka, r, c)
	for i := 0; i < r; i++ {
		got := Row(nil, i, a.m)
		verifAssert(len(got) == c, "Row(nil): length")
		dst := verifFloats(verifC04mN("rd", i), c)
		ret := Row(dst, i, a.m)
		verifAssert(len(ret) == c, "Row(dst): length")
		for j := 0; j < c; j++ {
			verifAssert(verifSame(got[j], a.at(i, j)), "Row(nil) element")
			verifAssert(verifSame(dst[j], a.at(i, j)), "Row(dst) fills dst")
			verifAssert(verifSame(ret[j], a.at(i, j)), "Row(dst) returned slice")
		}
	}
	for j := 0; j < c; j++ {
		got := Col(nil, j, a.m)
		verifAssert(len(got) == r, "Col(nil): length")
		dst := verifFloats(verifC04mN("cd", j), r)
		ret := Col(dst, j, a.m)
		verifAssert(len(ret) == r, "Col(dst): length")
		for i := 0; i < r; i++ {
			verifAssert(verifSame(got[i], a.at(i, j)), "Col(nil) element")
			verifAssert(verifSame(dst[i], a.at(i, j)), "Col(dst) fills dst")
			verifAssert(verifSame(ret[i], a.at(i, j)), "Col(dst) returned slice")
		}
	}
	a.unchanged("Row/Col operand")
	verifReach("end")
}

// ---------------------------------------------------------------------------
// 2b. Dense views, copies, permutations, Trace, Zero/Reset/ReuseAs, SetRow/SetCol
// ---------------------------------------------------------------------------

// VerifC04_DenseViews: RowView, ColView, Slice, Grow, DiagView and T of a
// compact Dense and of a strided window read the values of the parent.
func VerifC04_DenseViews() {
	maxN := verifParam("c04n", 2)
	r := verifChoose("r", 1, maxN)
	c := verifChoose("c", 1, maxN)
	st := verifChoose("st", 1, 2)
	rv := verifC04mkRecv("m", st, r, c)
	m := rv.d
	val := verifC04mSnap(m)
	for i := 0; i < r; i++ {
		v := m.RowView(i)
		verifAssert(v.Len() == c, "RowView: length")
		for j := 0; j < c; j++ {
			verifAssert(verifSame(v.AtVec(j), val[i*c+j]), "RowView reads the row")
		}
	}
	for j := 0; j < c; j++ {
		v := m.ColView(j)
		verifAssert(v.Len() == r, "ColView: length")
		for i := 0; i < r; i++ {
			verifAssert(verifSame(v.AtVec(i), val[i*c+j]), "ColView reads the column")
		}
	}
	for i := 0; i < r; i++ {
		for k := i + 1; k <= r; k++ {
			for j := 0; j < c; j++ {
				for l := j + 1; l <= c; l++ {
					s := m.Slice(i, k, j, l)
					sr, sc := s.Dims()
					verifAssert(sr == k-i && sc == l-j, "Slice: shape")
					for x := 0; x < k-i; x++ {
						for y := 0; y < l-j; y++ {
							verifAssert(verifSame(s.At(x, y), val[(i+x)*c+j+y]), "Slice reads the window")
						}
					}
				}
			}
		}
	}
	dv := m.DiagView()
	verifAssert(dv.Diag() == verifC04min(r, c), "DiagView: size")
	for i := 0; i < verifC04min(r, c); i++ {
		verifAssert(verifSame(dv.At(i, i), val[i*c+i]), "DiagView reads the diagonal")
	}
	t := m.T()
	for i := 0; i < r; i++ {
		for j := 0; j < c; j++ {
			verifAssert(verifSame(t.At(j, i), val[i*c+j]), "T reads the transpose")
		}
	}
	// Grow: the old elements are kept; inside the capacity the grown matrix is a
	// view of the same backing, beyond it a copy.
	for dr := 0; dr <= 2; dr++ {
		for dc := 0; dc <= 2; dc++ {
			g := m.Grow(dr, dc)
			gr, gc := g.Dims()
			verifAssert(gr == r+dr && gc == c+dc, "Grow: shape")
			for i := 0; i < r; i++ {
				for j := 0; j < c; j++ {
					verifAssert(verifSame(g.At(i, j), val[i*c+j]), "Grow keeps the elements")
				}
			}
			if st == 2 && dr <= 1 && dc <= 1 {
				// inside the capacity (r+1)×(c+1) of the window: no allocation
				s := c + 2
				for i := 0; i < r+dr; i++ {
					for j := 0; j < c+dc; j++ {
						verifAssert(verifSame(g.At(i, j), rv.back[(i+1)*s+j+1]), "Grow inside the capacity is a view of the backing")
					}
				}
			}
		}
	}
	mr, mc := m.Dims()
	verifAssert(mr == r && mc == c, "views leave the shape of the parent unchanged")
	for i := range rv.back {
		verifAssert(verifSame(rv.back[i], rv.back0[i]), "views leave the parent's storage unchanged")
	}
	verifReach("end")
}

// VerifC04_CopyOf: DenseCopyOf(a) and VecDenseCopyOf(v).
func VerifC04_CopyOf() {
	maxN := verifParam("c04n", 2)
	r := verifChoose("r", 1, maxN)
	c := verifChoose("c", 1, maxN)
	ka := verifC04pick("ka", r, c)
	a := verifC04mk("a", ka, r, c)
	d := DenseCopyOf(a.m)
	dr, dc := d.Dims()
	verifAssert(dr == r && dc == c, "DenseCopyOf: shape")
	if dr == r && dc == c {
		for i := 0; i < r; i++ {
			for j := 0; j < c; j++ {
				verifAssert(verifSame(d.At(i, j), a.at(i, j)), "DenseCopyOf: element")
			}
		}
		// the copy does not share storage with a
		d.Set(0, 0, d.At(0, 0)+1)
	}
	a.unchanged("DenseCopyOf a")
	if c == 1 && ka == verifC04kDense {
		for kv := 0; kv < verifC04mNVecKinds; kv++ {
			v := verifC04mMkVec(verifC04mN("v", kv), kv, r)
			w := VecDenseCopyOf(v.v)
			verifAssert(w.Len() == r, "VecDenseCopyOf: length")
			if w.Len() == r {
				for i := 0; i < r; i++ {
					verifAssert(verifSame(w.AtVec(i), v.val[i]), "VecDenseCopyOf: element")
				}
				verifAssert(w.mat.Inc == 1, "VecDenseCopyOf: compact")
				w.SetVec(0, w.AtVec(0)+1)
			}
			v.unchanged("VecDenseCopyOf v")
		}
	}
	verifReach("end")
}

// VerifC04_Permutation: m.Permutation(n, p): P[i, p[i]] = 1, 0 elsewhere.
func VerifC04_Permutation() {
	maxN := verifParam("c04sn", 3)
	n := verifChoose("n", 1, maxN)
	p := verifC04mPerm("p", n)
	p0 := append([]int(nil), p...)
	want := make([]float64, n*n)
	for i := 0; i < n; i++ {
		want[i*n+p[i]] = 1
	}
	for st := 0; st <= 2; st++ {
		rv := verifC04mkRecv(verifC04nm("m", st, 0), st, n, n)
		rv.d.Permutation(n, p)
		rv.check(want, "Permutation")
		for i := range p {
			verifAssert(p[i] == p0[i], "Permutation: p unchanged")
		}
	}
	verifReach("end")
}

// VerifC04_Permute: PermuteRows / PermuteCols on a compact Dense and on a
// strided window, VecDense.Permute on a compact and a strided vector.
func VerifC04_Permute() {
	maxN := verifParam("c04sn", 3)
	op := verifChoose("op", 0, 2)
	r := verifChoose("r", 1, maxN)
	c := 1
	if op != 2 {
		c = verifChoose("c", 1, maxN)
	}
	inverse := verifChoose("inverse", 0, 1) == 1
	np := r
	if op == 1 {
		np = c
	}
	p := verifC04mPerm("p", np)
	p0 := append([]int(nil), p...)
	if op == 2 {
		for st := 1; st <= 2; st++ {
			rv := verifC04mkVRecv(verifC04nm("v", st, 0), st, r)
			old := make([]float64, r)
			for i := range old {
				old[i] = rv.v.AtVec(i)
			}
			rv.v.Permute(p, inverse)
			want := make([]float64, r)
			for i := 0; i < r; i++ {
				if inverse {
					want[p[i]] = old[i]
				} else {
					want[i] = old[p[i]]
				}
			}
			rv.check(want, "VecDense.Permute")
			for i := range p {
				verifAssert(p[i] == p0[i], "Permute: p unchanged")
			}
		}
		verifReach("end")
		return
	}
	for st := 1; st <= 2; st++ {
		rv := verifC04mkRecv(verifC04nm("m", st, 0), st, r, c)
		old := verifC04mSnap(rv.d)
		want := make([]float64, r*c)
		name := "PermuteRows"
		if op == 0 {
			rv.d.PermuteRows(p, inverse)
			for i := 0; i < r; i++ {
				for j := 0; j < c; j++ {
					if inverse {
						want[p[i]*c+j] = old[i*c+j]
					} else {
						want[i*c+j] = old[p[i]*c+j]
					}
				}
			}
		} else {
			name = "PermuteCols"
			rv.d.PermuteCols(p, inverse)
			for i := 0; i < r; i++ {
				for j := 0; j < c; j++ {
					if inverse {
						want[i*c+p[j]] = old[i*c+j]
					} else {
						want[i*c+j] = old[i*c+p[j]]
					}
				}
			}
		}
		rv.check(want, name)
		for i := range p {
			verifAssert(p[i] == p0[i], name+": p unchanged")
		}
	}
	verifReach("end")
}

// VerifC04_TraceMethods: the Trace method of every concrete type equals the
// sum of the diagonal read through At.
func VerifC04_TraceMethods() {
	maxN := verifParam("c04sn", 3)
	n := verifChoose("n", 1, maxN)
	ks := []int{verifC04kDense, verifC04kDenseView, verifC04kSym, verifC04kTriU, verifC04kTriL, verifC04kDiag,
		verifC04kBand, verifC04kSymBand, verifC04kTriBandU, verifC04kTridiag}
	ki := verifChoose("k", 0, len(ks)+2)
	var m Matrix
	var a *verifC04op
	switch {
	case ki < len(ks):
		a = verifC04mk("a", ks[ki], n, n)
		m = a.m
	case ki == len(ks): // SliceSym window
		s := verifC04mkSym("a", verifC04sSymView, n)
		m = s.s
	case ki == len(ks)+1: // SliceTri window
		t, _ := verifC04mkTri("a", verifC04tTriView, n, true)
		m = t.t
	default: // lower TriBandDense
		k := verifC04min(1, n-1)
		m = NewTriBandDense(n, k, Lower, verifFloats("a", n*(k+1)))
	}
	var want float64
	for i := 0; i < n; i++ {
		want += m.At(i, i)
	}
	var got float64
	switch t := m.(type) {
	case *Dense:
		got = t.Trace()
	case *SymDense:
		got = t.Trace()
	case *TriDense:
		got = t.Trace()
	case *DiagDense:
		got = t.Trace()
	case *BandDense:
		got = t.Trace()
	case *SymBandDense:
		got = t.Trace()
	case *TriBandDense:
		got = t.Trace()
	case *Tridiag:
		got = t.Trace()
	default:
		panic("verifC04m: TraceMethods kind")
	}
	verifAssertEqF(got, want, "Trace method equals the sum of the diagonal")
	verifAssertEqF(Trace(m), want, "Trace function equals the sum of the diagonal")
	if a != nil {
		a.unchanged("Trace operand")
	}
	verifReach("end")
}

// VerifC04_ZeroResetReuse: Zero clears exactly the receiver's window;
// Reset empties; ReuseAs after Reset gives an all-zero matrix of the new shape
// (the old backing may be reused); ReuseAs on a non-empty receiver panics.
func VerifC04_ZeroResetReuse() {
	maxN := verifParam("c04n", 2)
	r := verifChoose("r", 1, maxN)
	c := verifChoose("c", 1, maxN)
	r2 := verifChoose("r2", 1, maxN)
	c2 := verifChoose("c2", 1, maxN)
	zero := make([]float64, r*c)
	for st := 1; st <= 2; st++ {
		rv := verifC04mkRecv(verifC04nm("m", st, 0), st, r, c)
		rv.d.Zero()
		rv.check(zero, "Dense.Zero")
	}
	rv := verifC04mkRecv("q", 1, r, c)
	pan, fault, _ := verifCatch(func() { rv.d.ReuseAs(r2, c2) })
	verifAssert(pan && !fault, "ReuseAs on a non-empty receiver panics")
	rv.d.Reset()
	verifAssert(rv.d.IsEmpty(), "Reset: IsEmpty")
	gr, gc := rv.d.Dims()
	verifAssert(gr == 0 && gc == 0, "Reset: Dims are 0, 0")
	rv.d.ReuseAs(r2, c2)
	gr, gc = rv.d.Dims()
	verifAssert(gr == r2 && gc == c2, "ReuseAs: shape")
	for i := 0; i < r2; i++ {
		for j := 0; j < c2; j++ {
			verifAssert(rv.d.At(i, j) == 0, "ReuseAs: the matrix is zero")
		}
	}
	// the emptied and re-used receiver works as the receiver of an operation
	a := verifC04mk("a", verifC04kDense, r2, c2)
	rv.d.Scale(2, a.m)
	for i := 0; i < r2; i++ {
		for j := 0; j < c2; j++ {
			verifAssertEqF(rv.d.At(i, j), 2*a.at(i, j), "operation into a ReuseAs receiver")
		}
	}
	// VecDense
	for st := 1; st <= 2; st++ {
		vv := verifC04mkVRecv(verifC04nm("v", st, 0), st, r)
		vv.v.Zero()
		vv.check(make([]float64, r), "VecDense.Zero")
	}
	vv := verifC04mkVRecv("w", 1, r)
	pan, fault, _ = verifCatch(func() { vv.v.ReuseAsVec(r2) })
	verifAssert(pan && !fault, "ReuseAsVec on a non-empty receiver panics")
	vv.v.Reset()
	verifAssert(vv.v.IsEmpty() && vv.v.Len() == 0, "VecDense.Reset: empty")
	vv.v.ReuseAsVec(r2)
	verifAssert(vv.v.Len() == r2, "ReuseAsVec: length")
	for i := 0; i < r2; i++ {
		verifAssert(vv.v.AtVec(i) == 0, "ReuseAsVec: the vector is zero")
	}
	verifReach("end")
}

// VerifC04_ZeroStructured: Zero of SymDense, TriDense, DiagDense, BandDense,
// SymBandDense, TriBandDense, Tridiag: every element reads 0 afterwards; for
// windows the parent's cells outside the window keep their values.
func VerifC04_ZeroStructured() {
	maxN := verifParam("c04sn", 3)
	which := verifChoose("which", 0, 8)
	n := verifChoose("n", 1, maxN)
	switch which {
	case 0: // SymDense, compact and window
		for st := 1; st <= 2; st++ {
			rv := verifC04mkSRecv(verifC04nm("s", st, 0), st, n)
			rv.s.Zero()
			rv.check(make([]float64, n*n), "SymDense.Zero")
		}
		{
			n2 := verifChoose("n2", 1, maxN)
			rv := verifC04mkSRecv("q", 1, n)
			pan, fault, _ := verifCatch(func() { rv.s.ReuseAsSym(n2) })
			verifAssert(pan && !fault, "ReuseAsSym on a non-empty receiver panics")
			rv.s.Reset()
			verifAssert(rv.s.IsEmpty() && rv.s.SymmetricDim() == 0, "SymDense.Reset: empty")
			rv.s.ReuseAsSym(n2)
			verifAssert(rv.s.SymmetricDim() == n2, "ReuseAsSym: size")
			for i := 0; i < n2; i++ {
				for j := 0; j < n2; j++ {
					verifAssert(rv.s.At(i, j) == 0, "ReuseAsSym: the matrix is zero")
				}
			}
		}
	case 1, 2: // TriDense
		for st := 1; st <= 2; st++ {
			rv := verifC04mkTRecv(verifC04nm("t", st, 0), st, n, which == 1)
			rv.t.Zero()
			rv.check(make([]float64, n*n), "TriDense.Zero")
		}
		{
			n2 := verifChoose("n2", 1, maxN)
			up2 := verifChoose("up2", 0, 1) == 1
			rv := verifC04mkTRecv("q", 1, n, which == 1)
			pan, fault, _ := verifCatch(func() { rv.t.ReuseAsTri(n2, TriKind(up2)) })
			verifAssert(pan && !fault, "ReuseAsTri on a non-empty receiver panics")
			rv.t.Reset()
			verifAssert(rv.t.IsEmpty(), "TriDense.Reset: empty")
			rv.t.ReuseAsTri(n2, TriKind(up2))
			gn, gk := rv.t.Triangle()
			verifAssert(gn == n2 && gk == TriKind(up2), "ReuseAsTri: size and kind")
			for i := 0; i < n2; i++ {
				for j := 0; j < n2; j++ {
					verifAssert(rv.t.At(i, j) == 0, "ReuseAsTri: the matrix is zero")
				}
			}
		}
	case 3: // DiagDense compact and the strided diagonal view of a Dense
		d := NewDiagDense(n, verifFloats("d", n))
		d.Zero()
		for i := 0; i < n; i++ {
			verifAssert(d.At(i, i) == 0, "DiagDense.Zero")
		}
		back := verifFloats("b", n*n)
		back0 := append([]float64(nil), back...)
		dv := NewDense(n, n, back).DiagView().(*DiagDense)
		dv.Zero()
		for i := 0; i < n; i++ {
			for j := 0; j < n; j++ {
				if i == j {
					verifAssert(back[i*n+j] == 0, "DiagDense.Zero on a diagonal view clears the diagonal")
				} else {
					verifAssert(verifSame(back[i*n+j], back0[i*n+j]), "DiagDense.Zero on a diagonal view keeps the off-diagonal cells of the parent")
				}
			}
		}
	case 4: // BandDense, square, every bandwidth (rectangular: VerifC04_BandZeroRect)
		c := n
		kl := verifChoose("kl", 0, n-1)
		ku := verifChoose("ku", 0, c-1)
		b := NewBandDense(n, c, kl, ku, verifFloats("b", verifC04min(n, c+kl)*(kl+ku+1)))
		b.Zero()
		for i := 0; i < n; i++ {
			for j := 0; j < c; j++ {
				verifAssert(b.At(i, j) == 0, "BandDense.Zero: every element is zero")
			}
		}
	case 5:
		k := verifChoose("k", 0, n-1)
		b := NewSymBandDense(n, k, verifFloats("b", n*(k+1)))
		b.Zero()
		for i := 0; i < n; i++ {
			for j := 0; j < n; j++ {
				verifAssert(b.At(i, j) == 0, "SymBandDense.Zero: every element is zero")
			}
		}
	case 6, 7:
		k := verifChoose("k", 0, n-1)
		b := NewTriBandDense(n, k, TriKind(which == 6), verifFloats("b", n*(k+1)))
		b.Zero()
		for i := 0; i < n; i++ {
			for j := 0; j < n; j++ {
				verifAssert(b.At(i, j) == 0, "TriBandDense.Zero: every element is zero")
			}
		}
	case 8:
		a := verifC04mk("a", verifC04kTridiag, n, n)
		a.m.(*Tridiag).Zero()
		for i := 0; i < n; i++ {
			for j := 0; j < n; j++ {
				verifAssert(a.m.At(i, j) == 0, "Tridiag.Zero: every element is zero")
			}
		}
	}
	verifReach("end")
}

// VerifC04_SetRowCol: SetRow / SetCol replace exactly one row / column.
func VerifC04_SetRowCol() {
	maxN := verifParam("c04n", 2)
	r := verifChoose("r", 1, maxN)
	c := verifChoose("c", 1, maxN)
	for st := 1; st <= 2; st++ {
		for i := 0; i < r; i++ {
			rv := verifC04mkRecv(verifC04nm("m", st, i), st, r, c)
			want := verifC04mSnap(rv.d)
			src := verifFloats(verifC04nm("sr", st, i), c)
			src0 := append([]float64(nil), src...)
			rv.d.SetRow(i, src)
			copy(want[i*c:(i+1)*c], src0)
			rv.check(want, "SetRow")
			for j := range src {
				verifAssert(verifSame(src[j], src0[j]), "SetRow: src unchanged")
			}
		}
		for j := 0; j < c; j++ {
			rv := verifC04mkRecv(verifC04nm("n", st, j), st, r, c)
			want := verifC04mSnap(rv.d)
			src := verifFloats(verifC04nm("sc", st, j), r)
			src0 := append([]float64(nil), src...)
			rv.d.SetCol(j, src)
			for i := 0; i < r; i++ {
				want[i*c+j] = src0[i]
			}
			rv.check(want, "SetCol")
			for i := range src {
				verifAssert(verifSame(src[i], src0[i]), "SetCol: src unchanged")
			}
		}
	}
	verifReach("end")
}

// ---------------------------------------------------------------------------
// vector kinds, extended: adds a single TVec (a row vector), SliceVec, RowView
// ---------------------------------------------------------------------------

const (
	verifC04mvSlice   = verifC04nVecKinds + iota // SliceVec(1, n+1) of a strided VecDense
	verifC04mvRowView                            // RowView(1) of a Dense
	verifC04mvTVec                               // TVec() of a VecDense: a 1×n Vector
	verifC04mvTVecStr                            // TVec() of a strided VecDense
	verifC04mNVecKinds
)

func verifC04mMkVec(name string, kind, n int) *verifC04vop {
	if kind < verifC04nVecKinds {
		return verifC04mkVec(name, kind, n)
	}
	o := &verifC04vop{n: n}
	switch kind {
	case verifC04mvSlice:
		o.back = verifFloats(name, (n+2)*2)
		o.v = NewDense(n+2, 2, o.back).ColView(1).(*VecDense).SliceVec(1, n+1)
	case verifC04mvRowView:
		o.back = verifFloats(name, 3*n)
		o.v = NewDense(3, n, o.back).RowView(1)
	case verifC04mvTVec:
		o.back = verifFloats(name, n)
		o.v = NewVecDense(n, o.back).TVec()
	case verifC04mvTVecStr:
		o.back = verifFloats(name, n*2)
		o.v = NewDense(n, 2, o.back).ColView(1).(*VecDense).TVec()
	default:
		panic("verifC04mMkVec: kind")
	}
	verifAssert(o.v.Len() == n, "C04: vector builder length")
	o.back0 = append([]float64(nil), o.back...)
	o.val = make([]float64, n)
	for i := 0; i < n; i++ {
		o.val[i] = o.v.AtVec(i)
	}
	return o
}

// VerifC04_BandZeroRect: BandDense.Zero on a rectangular band matrix: every
// element reads 0 afterwards. (OPEN VIOLATION on the unchanged tree, see
// notes/C04_more.md.)
func VerifC04_BandZeroRect() {
	maxN := verifParam("c04sn", 3)
	r := verifChoose("r", 1, maxN)
	c := verifChoose("c", 1, maxN)
	if r == c {
		return
	}
	kl := verifChoose("kl", 0, r-1)
	ku := verifChoose("ku", 0, c-1)
	b := NewBandDense(r, c, kl, ku, verifFloats("b", verifC04min(r, c+kl)*(kl+ku+1)))
	b.Zero()
	for i := 0; i < r; i++ {
		for j := 0; j < c; j++ {
			verifAssert(b.At(i, j) == 0, "BandDense.Zero: every element is zero")
		}
	}
	verifReach("end")
}

// ---------------------------------------------------------------------------
// 3. SymDense: SubsetSym, SliceSym / GrowSym views
// ---------------------------------------------------------------------------

// VerifC04_SubsetSym: s.SubsetSym(a, set): s(i,j) == a(set[i], set[j]) for every
// Symmetric kind of a, every index list (repeats allowed) and receiver state;
// ka == verifC04nSymKinds: a is the receiver itself.
func VerifC04_SubsetSym() {
	maxN := verifParam("c04sn", 3)
	n := verifChoose("n", 1, maxN)
	m := verifChoose("m", 1, maxN)
	ka := verifChoose("ka", 0, verifC04nSymKinds)
	set := make([]int, m)
	for i := range set {
		set[i] = verifChoose(verifC04mN("s", i), 0, n-1)
	}
	set0 := append([]int(nil), set...)
	if ka == verifC04nSymKinds {
		if m != n {
			return
		}
		for st := 1; st <= 2; st++ {
			rv := verifC04mkSRecv(verifC04nm("s", st, 0), st, n)
			old := verifC04mSnap(rv.s)
			rv.s.SubsetSym(rv.s, set)
			want := make([]float64, n*n)
			for i := 0; i < n; i++ {
				for j := 0; j < n; j++ {
					want[i*n+j] = old[set[i]*n+set[j]]
				}
			}
			rv.check(want, "SubsetSym (a is the receiver)")
		}
		verifReach("end")
		return
	}
	a := verifC04mkSym("a", ka, n)
	want := make([]float64, m*m)
	for i := 0; i < m; i++ {
		for j := 0; j < m; j++ {
			want[i*m+j] = a.at(set[i], set[j])
		}
	}
	for st := 0; st <= 2; st++ {
		rv := verifC04mkSRecv(verifC04nm("s", st, 0), st, m)
		rv.s.SubsetSym(a.s, set)
		rv.check(want, "SubsetSym")
		a.unchanged("SubsetSym a")
		for i := range set {
			verifAssert(set[i] == set0[i], "SubsetSym: set unchanged")
		}
	}
	verifReach("end")
}

// VerifC04_SymViews: SliceSym and GrowSym of a compact SymDense and of a
// SliceSym window read the values of the parent; DiagView.
func VerifC04_SymViews() {
	maxN := verifParam("c04sn", 3)
	n := verifChoose("n", 1, maxN)
	st := verifChoose("st", 1, 2)
	rv := verifC04mkSRecv("s", st, n)
	s := rv.s
	val := verifC04mSnap(s)
	for i := 0; i < n; i++ {
		for k := i + 1; k <= n; k++ {
			w := s.SliceSym(i, k)
			verifAssert(w.SymmetricDim() == k-i, "SliceSym: size")
			for x := 0; x < k-i; x++ {
				for y := 0; y < k-i; y++ {
					verifAssert(verifSame(w.At(x, y), val[(i+x)*n+i+y]), "SliceSym reads the window")
				}
			}
		}
	}
	for dn := 0; dn <= 2; dn++ {
		g := s.GrowSym(dn)
		verifAssert(g.SymmetricDim() == n+dn, "GrowSym: size")
		for i := 0; i < n; i++ {
			for j := 0; j < n; j++ {
				verifAssert(verifSame(g.At(i, j), val[i*n+j]), "GrowSym keeps the elements")
			}
		}
		if st == 2 && dn <= 1 {
			// inside the capacity n+1 of the window: a view of the backing
			w := n + 2
			for i := 0; i < n+dn; i++ {
				for j := i; j < n+dn; j++ {
					verifAssert(verifSame(g.At(i, j), rv.back[(i+1)*w+j+1]), "GrowSym inside the capacity is a view of the backing")
					verifAssert(verifSame(g.At(j, i), rv.back[(i+1)*w+j+1]), "GrowSym inside the capacity is a view of the backing (symmetric element)")
				}
			}
		}
	}
	dv := s.DiagView()
	verifAssert(dv.Diag() == n, "SymDense.DiagView: size")
	for i := 0; i < n; i++ {
		verifAssert(verifSame(dv.At(i, i), val[i*n+i]), "SymDense.DiagView reads the diagonal")
	}
	verifAssert(s.SymmetricDim() == n, "views leave the size of the parent unchanged")
	for i := range rv.back {
		verifAssert(verifSame(rv.back[i], rv.back0[i]), "views leave the parent's storage unchanged")
	}
	verifReach("end")
}

// ---------------------------------------------------------------------------
// 3b. TriDense: InverseTri, SolveTo
// ---------------------------------------------------------------------------

// verifC04mLapack is the real LAPACK implementation with the iterative
// reciprocal-condition estimator of triangular matrices (Hager/Higham Dlacn2
// iteration with Dlatrs safe scaling: it explodes on symbolic data and its
// value is an FP-magnitude statement) replaced by a harness-chosen value.
type verifC04mLapack struct {
	lapackgonum.Implementation
	rcond float64
}

func (l verifC04mLapack) Dtrcon(norm lapack.MatrixNorm, uplo blas.Uplo, diag blas.Diag, n int, a []float64, lda int, work []float64, iwork []int) float64 {
	return l.rcond
}

func verifC04mStubCond() {
	r := verifFloat("rcond")
	verifAssume(verifAnd(r >= 1e-15, r <= 1))
	lapack64.Use(verifC04mLapack{rcond: r})
}

// VerifC04_InverseTri: t.InverseTri(a) for every Triangular kind of a with a
// non-zero diagonal: no error, a*t == I, t has a's kind.
func VerifC04_InverseTri() {
	maxN := verifParam("c04tn", 2)
	n := verifChoose("n", 1, maxN)
	upper := verifChoose("upper", 0, 1) == 1
	ka := verifChoose("ka", 0, verifC04nTriKinds-1)
	verifC04mStubCond()
	a, ok := verifC04mkTri("a", ka, n, upper)
	if !ok {
		return
	}
	for i := 0; i < n; i++ {
		verifAssume(a.at(i, i) != 0)
	}
	for st := 0; st <= 2; st++ {
		rv := verifC04mkTRecv(verifC04nm("t", st, 0), st, n, upper)
		err := rv.t.InverseTri(a.t)
		verifAssert(err == nil, "InverseTri: no error for a non-zero diagonal")
		gn, gk := rv.t.Triangle()
		verifAssert(gn == n && gk == TriKind(upper), "InverseTri: result size and kind")
		if gn != n {
			continue
		}
		inv := verifC04mSnap(rv.t)
		prod := verifC04mMul(a.val, n, n, inv, n)
		for i := 0; i < n; i++ {
			for j := 0; j < n; j++ {
				w := 0.0
				if i == j {
					w = 1
				}
				verifAssertEqF(prod[i*n+j], w, "InverseTri: a * t == I")
			}
		}
		rv.check(inv, "InverseTri") // outside a window receiver untouched
		a.unchanged("InverseTri a")
	}
	verifReach("end")
}

// VerifC04_TriSolveTo: t.SolveTo(dst, trans, b): op(T)*X == B for every kind of
// b, T compact or a SliceTri window, upper and lower, three dst states.
func VerifC04_TriSolveTo() {
	maxN := verifParam("c04tn", 2)
	n := verifChoose("n", 1, maxN)
	nrhs := verifChoose("nrhs", 1, maxN)
	upper := verifChoose("upper", 0, 1) == 1
	trans := verifChoose("trans", 0, 1) == 1
	tst := verifChoose("tst", 1, 2)
	kb := verifC04pick("kb", n, nrhs)
	verifC04mStubCond()
	tr := verifC04mkTRecv("t", tst, n, upper)
	tval := verifC04mSnap(tr.t)
	for i := 0; i < n; i++ {
		verifAssume(tval[i*n+i] != 0)
	}
	if trans {
		tval = verifC04mTrans(tval, n, n)
	}
	b := verifC04mk("b", kb, n, nrhs)
	for st := 0; st <= 2; st++ {
		rv := verifC04mkRecv(verifC04nm("x", st, 0), st, n, nrhs)
		err := tr.t.SolveTo(rv.d, trans, b.m)
		verifAssert(err == nil, "TriDense.SolveTo: no error for a non-zero diagonal")
		gr, gc := rv.d.Dims()
		verifAssert(gr == n && gc == nrhs, "TriDense.SolveTo: result shape")
		if gr != n || gc != nrhs {
			continue
		}
		x := verifC04mSnap(rv.d)
		prod := verifC04mMul(tval, n, n, x, nrhs)
		for i := range prod {
			verifAssertEqF(prod[i], b.val[i], "TriDense.SolveTo: op(T) * X == B")
		}
		rv.check(x, "TriDense.SolveTo")
		b.unchanged("TriDense.SolveTo b")
		for i := range tr.back {
			verifAssert(verifSame(tr.back[i], tr.back0[i]), "TriDense.SolveTo: T unchanged")
		}
	}
	verifReach("end")
}

// ---------------------------------------------------------------------------
// 3c. DiagDense: DiagFrom, DiagView of every type, SetDiag through the view
// ---------------------------------------------------------------------------

// VerifC04_DiagFrom: d.DiagFrom(m) for every Matrix kind and shape; receiver
// zero value, pre-sized, or the diagonal view of a Dense window (Inc > 1).
func VerifC04_DiagFrom() {
	maxN := verifParam("c04n", 2)
	r := verifChoose("r", 1, maxN)
	c := verifChoose("c", 1, maxN)
	var a *verifC04op
	switch src := verifChoose("src", 0, 2); src {
	case 0: // the core kinds
		a = verifC04mk("a", verifC04pick("ka", r, c), r, c)
	case 1: // the banded / structured types with every bandwidth
		which := verifChoose("which", 0, 8)
		if which != 0 && r != c {
			return
		}
		a = verifC04mBandFamily("a", which, r, c)
	default: // transpose wrappers and factorization types
		wks := verifC04mWKindsFor(r, c)
		kw := wks[verifChoose("kw", 0, len(wks)-1)]
		if kw == verifC04wQR && r < c || kw == verifC04wLQ && r > c {
			return
		}
		a = verifC04mMkW("a", kw, r, c)
	}
	n := verifC04min(r, c)
	for st := 0; st <= 2; st++ {
		var d *DiagDense
		var back, back0 []float64
		switch st {
		case 0:
			d = &DiagDense{}
		case 1:
			back = verifFloats(verifC04mN("d", st), n)
			d = NewDiagDense(n, back)
		case 2:
			back = verifFloats(verifC04mN("d", st), (n+1)*(n+1))
			d = NewDense(n+1, n+1, back).Slice(1, n+1, 1, n+1).(*Dense).DiagView().(*DiagDense)
		}
		back0 = append([]float64(nil), back...)
		d.DiagFrom(a.m)
		verifAssert(d.Diag() == n, "DiagFrom: size")
		if d.Diag() != n {
			continue
		}
		for i := 0; i < n; i++ {
			verifAssert(verifSame(d.At(i, i), a.at(i, i)), "DiagFrom: diagonal element")
		}
		switch st {
		case 1:
			for i := 0; i < n; i++ {
				verifAssert(verifSame(back[i], a.at(i, i)), "DiagFrom: pre-sized receiver storage holds the result")
			}
		case 2:
			w := n + 1
			for i := 0; i < w; i++ {
				for j := 0; j < w; j++ {
					if i == j && i >= 1 {
						verifAssert(verifSame(back[i*w+j], a.at(i-1, i-1)), "DiagFrom: the diagonal view holds the result")
					} else {
						verifAssert(verifSame(back[i*w+j], back0[i*w+j]), "DiagFrom: cells of the parent off the viewed diagonal untouched")
					}
				}
			}
		}
		a.unchanged("DiagFrom m")
	}
	verifReach("end")
}

// verifC04mBandFamily builds the banded / structured types with every
// bandwidth. which: 0 BandDense r×c, 1 SymBandDense, 2 TriBandDense upper,
// 3 TriBandDense lower, 4 Tridiag, 5 DiagDense, 6 SymDense, 7 TriDense upper,
// 8 TriDense lower (1..8 square: c is ignored).
func verifC04mBandFamily(name string, which, r, c int) *verifC04op {
	o := &verifC04op{r: r, c: r}
	switch which {
	case 0:
		o.c = c
		kl := verifChoose(name+"kl", 0, r-1)
		ku := verifChoose(name+"ku", 0, c-1)
		o.back = verifFloats(name, verifC04min(r, c+kl)*(kl+ku+1))
		o.m = NewBandDense(r, c, kl, ku, o.back)
	case 1:
		k := verifChoose(name+"k", 0, r-1)
		o.back = verifFloats(name, r*(k+1))
		o.m = NewSymBandDense(r, k, o.back)
	case 2, 3:
		k := verifChoose(name+"k", 0, r-1)
		o.back = verifFloats(name, r*(k+1))
		o.m = NewTriBandDense(r, k, TriKind(which == 2), o.back)
	case 4:
		o.back = verifFloats(name, 3*r)
		var dl, du []float64
		if r > 1 {
			dl, du = o.back[r:2*r-1], o.back[2*r:3*r-1]
		}
		o.m = NewTridiag(r, dl, o.back[:r], du)
	case 5:
		o.back = verifFloats(name, r)
		o.m = NewDiagDense(r, o.back)
	case 6:
		o.back = verifFloats(name, r*r)
		o.m = NewSymDense(r, o.back)
	case 7, 8:
		o.back = verifFloats(name, r*r)
		o.m = NewTriDense(r, TriKind(which == 7), o.back)
	default:
		panic("verifC04mBandFamily: which")
	}
	verifC04mFinish(o)
	return o
}

func verifC04mFinish(o *verifC04op) {
	gr, gc := o.m.Dims()
	verifAssert(gr == o.r && gc == o.c, "C04: operand builder shape")
	o.back0 = append([]float64(nil), o.back...)
	o.val = verifC04mSnap(o.m)
}

// VerifC04_DiagViews: DiagView() of every structured type reads the diagonal
// of the parent; SetDiag through the view changes exactly that element of the
// parent.
func VerifC04_DiagViews() {
	maxN := verifParam("c04sn", 3)
	which := verifChoose("which", 0, 8)
	r := verifChoose("r", 1, maxN)
	c := r
	if which == 0 {
		c = verifChoose("c", 1, maxN)
	}
	a := verifC04mBandFamily("a", which, r, c)
	n := verifC04min(r, c)
	dv := a.m.(interface{ DiagView() Diagonal }).DiagView()
	verifAssert(dv.Diag() == n, "DiagView: size")
	dr, dc := dv.Dims()
	verifAssert(dr == n && dc == n, "DiagView: Dims")
	for i := 0; i < n; i++ {
		for j := 0; j < n; j++ {
			w := 0.0
			if i == j {
				w = a.at(i, i)
			}
			verifAssert(verifSame(dv.At(i, j), w), "DiagView reads the diagonal")
		}
	}
	a.unchanged("DiagView parent")
	md := dv.(MutableDiagonal)
	for k := 0; k < n; k++ {
		x := verifFloat(verifC04mN("x", k))
		md.SetDiag(k, x)
		a.val[k*a.c+k] = x
		for i := 0; i < a.r; i++ {
			for j := 0; j < a.c; j++ {
				verifAssert(verifSame(a.m.At(i, j), a.val[i*a.c+j]), "SetDiag through the view changes exactly one element of the parent")
			}
		}
	}
	verifReach("end")
}

// ---------------------------------------------------------------------------
// 3d. band family: transposes, MulVecTo, SolveTo / SolveVecTo
// ---------------------------------------------------------------------------

// VerifC04_BandTranspose: At / T / TBand / TTri / TTriBand / Untranspose*
// consistency of BandDense, SymBandDense, TriBandDense, Tridiag, DiagDense;
// elements outside the reported bandwidth / triangle read 0.
func VerifC04_BandTranspose() {
	maxN := verifParam("c04sn", 3)
	which := verifChoose("which", 0, 5)
	r := verifChoose("r", 1, maxN)
	c := r
	if which == 0 {
		c = verifChoose("c", 1, maxN)
	}
	a := verifC04mBandFamily("a", which, r, c)
	r, c = a.r, a.c
	bd := a.m.(Banded)
	kl, ku := bd.Bandwidth()
	for i := 0; i < r; i++ {
		for j := 0; j < c; j++ {
			if j-i > ku || i-j > kl {
				verifAssert(a.at(i, j) == 0, "elements outside the band read 0")
			}
		}
	}
	chk := func(t Matrix, msg string) {
		tr, tc := t.Dims()
		verifAssert(tr == c && tc == r, msg+": Dims are swapped")
		if tr != c || tc != r {
			return
		}
		for i := 0; i < r; i++ {
			for j := 0; j < c; j++ {
				verifAssert(verifSame(t.At(j, i), a.at(i, j)), msg+": At(j, i) == parent At(i, j)")
			}
		}
	}
	same := func(t Matrix, msg string) {
		tr, tc := t.Dims()
		verifAssert(tr == r && tc == c, msg+": Dims")
		if tr != r || tc != c {
			return
		}
		for i := 0; i < r; i++ {
			for j := 0; j < c; j++ {
				verifAssert(verifSame(t.At(i, j), a.at(i, j)), msg+": At")
			}
		}
	}
	chk(a.m.T(), "T()")
	same(a.m.T().T(), "T().T()")
	tb := bd.TBand()
	chk(tb, "TBand()")
	tkl, tku := tb.Bandwidth()
	verifAssert(tkl == ku && tku == kl, "TBand(): bandwidths are swapped")
	same(tb.TBand(), "TBand().TBand()")
	chk(tb.T().T(), "TBand().T().T()")
	if ut, ok := tb.(UntransposeBander); ok {
		same(ut.UntransposeBand(), "UntransposeBand")
	}
	if ut, ok := tb.(Untransposer); ok {
		same(ut.Untranspose(), "Untranspose")
	}
	if sb, ok := a.m.(SymBanded); ok {
		sn, sk := sb.SymBand()
		verifAssert(sn == r && sk == kl && sk == ku, "SymBand agrees with Dims and Bandwidth")
		verifAssert(sb.SymmetricDim() == r, "SymmetricDim")
		for i := 0; i < r; i++ {
			for j := 0; j < c; j++ {
				verifAssert(verifSame(a.at(i, j), a.at(j, i)), "symmetric At")
			}
		}
	}
	if tbd, ok := a.m.(TriBanded); ok {
		tn, tk, kind := tbd.TriBand()
		gn, gkind := tbd.Triangle()
		verifAssert(tn == r && gn == r && kind == gkind, "TriBand agrees with Triangle")
		if kind == Upper {
			verifAssert(kl == 0 && ku == tk, "upper TriBand: Bandwidth is (0, k)")
		} else {
			verifAssert(ku == 0 && kl == tk, "lower TriBand: Bandwidth is (k, 0)")
		}
		ttb := tbd.TTriBand()
		chk(ttb, "TTriBand()")
		n2, k2, kind2 := ttb.TriBand()
		verifAssert(n2 == r && k2 == tk && kind2 == !kind, "TTriBand(): kind is flipped")
		g2, gk2 := ttb.Triangle()
		verifAssert(g2 == r && gk2 == !kind, "TTriBand(): Triangle kind is flipped")
		bkl, bku := ttb.Bandwidth()
		verifAssert(bkl == ku && bku == kl, "TTriBand(): bandwidths are swapped")
		same(ttb.TTriBand(), "TTriBand().TTriBand()")
		same(ttb.TTri(), "TTriBand().TTri()")
		same(ttb.TBand(), "TTriBand().TBand()")
		same(ttb.T(), "TTriBand().T()")
		if ut, ok := ttb.(UntransposeTriBander); ok {
			same(ut.UntransposeTriBand(), "UntransposeTriBand")
		}
		if ut, ok := ttb.(UntransposeTrier); ok {
			same(ut.UntransposeTri(), "UntransposeTri")
		}
		tt := tbd.TTri()
		chk(tt, "TTri()")
		g3, gk3 := tt.Triangle()
		verifAssert(g3 == r && gk3 == !kind, "TTri(): kind is flipped")
		same(tt.TTri(), "TTri().TTri()")
	}
	a.unchanged("transposes")
	verifReach("end")
}

// verifC04mVecArg builds the vector argument for the MulVecTo / SolveVecTo
// harnesses. kind < verifC04mNVecKinds: a fresh vector; otherwise nil (the
// destination itself is used).
func verifC04mVecArg(name string, kind, n int) *verifC04vop {
	if kind >= verifC04mNVecKinds {
		return nil
	}
	return verifC04mMkVec(name, kind, n)
}

// VerifC04_BandMulVecTo: MulVecTo of BandDense (every shape and bandwidth),
// SymBandDense and Tridiag: dst == op(A)*x for every Vector kind of x
// (including x == dst) and every dst state.
func VerifC04_BandMulVecTo() {
	maxN := verifParam("c04sn", 3)
	wi := verifChoose("which", 0, 2)
	which := []int{0, 1, 4}[wi]
	r := verifChoose("r", 1, maxN)
	c := r
	if which == 0 {
		c = verifChoose("c", 1, maxN)
	}
	trans := verifChoose("trans", 0, 1) == 1
	kx := verifChoose("kx", 0, verifC04mNVecKinds)
	a := verifC04mBandFamily("a", which, r, c)
	av := a.val
	m, n := r, c
	if trans {
		av = verifC04mTrans(av, r, c)
		m, n = c, r
	}
	x := verifC04mVecArg("x", kx, n)
	if x == nil && m != n {
		return
	}
	for st := 0; st <= 2; st++ {
		if x == nil && st == 0 {
			continue
		}
		rv := verifC04mkVRecv(verifC04nm("y", st, 0), st, m)
		var xv Vector
		var xval []float64
		if x != nil {
			xv, xval = x.v, x.val
		} else {
			xv = rv.v
			xval = make([]float64, n)
			for i := range xval {
				xval[i] = rv.v.AtVec(i)
			}
		}
		want := verifC04mMul(av, m, n, xval, 1)
		switch t := a.m.(type) {
		case *BandDense:
			t.MulVecTo(rv.v, trans, xv)
		case *SymBandDense:
			t.MulVecTo(rv.v, trans, xv)
		case *Tridiag:
			t.MulVecTo(rv.v, trans, xv)
		}
		rv.check(want, "MulVecTo")
		a.unchanged("MulVecTo A")
		if x != nil {
			x.unchanged("MulVecTo x")
		}
	}
	verifReach("end")
}

// verifC04mTridet is the determinant of a tridiagonal matrix (continuant).
func verifC04mTridet(a []float64, n int) float64 {
	f0, f1 := 1.0, a[0]
	for k := 1; k < n; k++ {
		f0, f1 = f1, a[k*n+k]*f1-a[k*n+k-1]*a[(k-1)*n+k]*f0
	}
	return f1
}

// VerifC04_BandSolveVec: SolveVecTo of TriBandDense (upper / lower, every
// bandwidth) and Tridiag: nil error => op(A)*x == b; an error only for a
// singular A; every Vector kind of b (including b == dst), every dst state.
func VerifC04_BandSolveVec() {
	maxN := verifParam("c04bn", 2)
	wi := verifChoose("which", 0, 2)
	which := []int{2, 3, 4}[wi]
	n := verifChoose("n", 1, maxN)
	trans := verifChoose("trans", 0, 1) == 1
	kb := verifChoose("kb", 0, verifC04mvRowView+1)
	if kb == verifC04mvRowView+1 {
		kb = verifC04mNVecKinds // b is dst
	}
	a := verifC04mBandFamily("a", which, n, n)
	av := a.val
	if trans {
		av = verifC04mTrans(av, n, n)
	}
	var det float64
	if which == 4 {
		det = verifC04mTridet(a.val, n)
	} else {
		det = 1
		for i := 0; i < n; i++ {
			det *= a.at(i, i)
		}
	}
	b := verifC04mVecArg("b", kb, n)
	for st := 0; st <= 2; st++ {
		if b == nil && st == 0 {
			continue
		}
		rv := verifC04mkVRecv(verifC04nm("x", st, 0), st, n)
		var bv Vector
		var bval []float64
		if b != nil {
			bv, bval = b.v, b.val
		} else {
			bv = rv.v
			bval = make([]float64, n)
			for i := range bval {
				bval[i] = rv.v.AtVec(i)
			}
		}
		var err error
		switch t := a.m.(type) {
		case *TriBandDense:
			err = t.SolveVecTo(rv.v, trans, bv)
		case *Tridiag:
			err = t.SolveVecTo(rv.v, trans, bv)
		}
		if err != nil {
			verifAssert(det == 0, "SolveVecTo: an error is returned only for a singular matrix")
			rv.outsideUntouched("SolveVecTo (singular)")
		} else {
			verifAssert(rv.v.Len() == n, "SolveVecTo: result length")
			if rv.v.Len() == n {
				x := make([]float64, n)
				for i := range x {
					x[i] = rv.v.AtVec(i)
				}
				prod := verifC04mMul(av, n, n, x, 1)
				for i := range prod {
					verifAssertEqF(prod[i], bval[i], "SolveVecTo: op(A) * x == b")
				}
				rv.check(x, "SolveVecTo")
			}
		}
		a.unchanged("SolveVecTo A")
		if b != nil {
			b.unchanged("SolveVecTo b")
		}
	}
	verifReach("end")
}

// VerifC04_BandSolve: SolveTo of TriBandDense and Tridiag with B of every
// Matrix kind.
func VerifC04_BandSolve() {
	maxN := verifParam("c04bn", 2)
	maxR := verifParam("c04brhs", 2)
	wi := verifChoose("which", 0, 2)
	which := []int{2, 3, 4}[wi]
	n := verifChoose("n", 1, maxN)
	nrhs := verifChoose("nrhs", 1, maxR)
	trans := verifChoose("trans", 0, 1) == 1
	kb := verifC04pick("kb", n, nrhs)
	a := verifC04mBandFamily("a", which, n, n)
	av := a.val
	if trans {
		av = verifC04mTrans(av, n, n)
	}
	var det float64
	if which == 4 {
		det = verifC04mTridet(a.val, n)
	} else {
		det = 1
		for i := 0; i < n; i++ {
			det *= a.at(i, i)
		}
	}
	b := verifC04mk("b", kb, n, nrhs)
	for st := 0; st <= 2; st++ {
		rv := verifC04mkRecv(verifC04nm("x", st, 0), st, n, nrhs)
		var err error
		switch t := a.m.(type) {
		case *TriBandDense:
			err = t.SolveTo(rv.d, trans, b.m)
		case *Tridiag:
			err = t.SolveTo(rv.d, trans, b.m)
		}
		if err != nil {
			verifAssert(det == 0, "SolveTo: an error is returned only for a singular matrix")
			rv.outsideUntouched("SolveTo (singular)")
		} else {
			gr, gc := rv.d.Dims()
			verifAssert(gr == n && gc == nrhs, "SolveTo: result shape")
			if gr == n && gc == nrhs {
				x := verifC04mSnap(rv.d)
				prod := verifC04mMul(av, n, n, x, nrhs)
				for i := range prod {
					verifAssertEqF(prod[i], b.val[i], "SolveTo: op(A) * X == B")
				}
				rv.check(x, "SolveTo")
			}
		}
		a.unchanged("SolveTo A")
		b.unchanged("SolveTo B")
	}
	verifReach("end")
}

// ---------------------------------------------------------------------------
// 4. CDense and the CMatrix kinds
// ---------------------------------------------------------------------------

// verifC04mCbasic exposes only the CMatrix interface.
type verifC04mCbasic struct {
	r, c int
	data []complex128
}

func (b *verifC04mCbasic) Dims() (int, int) { return b.r, b.c }
func (b *verifC04mCbasic) At(i, j int) complex128 {
	if i < 0 || i >= b.r || j < 0 || j >= b.c {
		panic("verifC04mCbasic: index out of range")
	}
	return b.data[i*b.c+j]
}
func (b *verifC04mCbasic) H() CMatrix { return ConjTranspose{b} }
func (b *verifC04mCbasic) T() CMatrix { return CTranspose{b} }

const (
	verifC04mcDense  = iota // compact *CDense
	verifC04mcView          // *CDense window, stride > cols
	verifC04mcT             // T() of a compact *CDense
	verifC04mcH             // H() of a *CDense window
	verifC04mcBasic         // CMatrix-only type
	verifC04mcBasicH        // H() of it
	verifC04mcTH            // T() of H() of a compact *CDense: element-wise conjugate
	verifC04mNCKinds
)

type verifC04mCop struct {
	m     CMatrix
	r, c  int
	back  []complex128
	back0 []complex128
	val   []complex128
}

func (o *verifC04mCop) at(i, j int) complex128 { return o.val[i*o.c+j] }

func verifC04mSameC(a, b complex128) bool {
	return verifAnd(verifSame(real(a), real(b)), verifSame(imag(a), imag(b)))
}

func verifC04mConj(z complex128) complex128 { return complex(real(z), -imag(z)) }

func verifC04mCSnap(m CMatrix) []complex128 {
	r, c := m.Dims()
	v := make([]complex128, r*c)
	for i := 0; i < r; i++ {
		for j := 0; j < c; j++ {
			v[i*c+j] = m.At(i, j)
		}
	}
	return v
}

func verifC04mMkC(name string, kind, r, c int) *verifC04mCop {
	o := &verifC04mCop{r: r, c: c}
	switch kind {
	case verifC04mcDense:
		o.back = verifComplexes(name, r*c)
		o.m = NewCDense(r, c, o.back)
	case verifC04mcView:
		o.back = verifComplexes(name, (r+2)*(c+2))
		o.m = NewCDense(r+2, c+2, o.back).Slice(1, r+1, 1, c+1)
	case verifC04mcT:
		o.back = verifComplexes(name, r*c)
		o.m = NewCDense(c, r, o.back).T()
	case verifC04mcH:
		o.back = verifComplexes(name, (r+2)*(c+2))
		o.m = NewCDense(c+2, r+2, o.back).Slice(1, c+1, 1, r+1).H()
	case verifC04mcBasic:
		o.back = verifComplexes(name, r*c)
		o.m = &verifC04mCbasic{r: r, c: c, data: o.back}
	case verifC04mcBasicH:
		o.back = verifComplexes(name, r*c)
		o.m = (&verifC04mCbasic{r: c, c: r, data: o.back}).H()
	case verifC04mcTH:
		o.back = verifComplexes(name, r*c)
		o.m = NewCDense(r, c, o.back).H().T()
	default:
		panic("verifC04mMkC: kind")
	}
	gr, gc := o.m.Dims()
	verifAssert(gr == r && gc == c, "C04: complex operand builder shape")
	o.back0 = append([]complex128(nil), o.back...)
	o.val = verifC04mCSnap(o.m)
	return o
}

func (o *verifC04mCop) unchanged(msg string) {
	for i := range o.back {
		verifAssert(verifC04mSameC(o.back[i], o.back0[i]), msg+": operand storage unchanged")
	}
	gr, gc := o.m.Dims()
	verifAssert(gr == o.r && gc == o.c, msg+": operand shape unchanged")
	for i := 0; i < o.r; i++ {
		for j := 0; j < o.c; j++ {
			verifAssert(verifC04mSameC(o.m.At(i, j), o.val[i*o.c+j]), msg+": operand At unchanged")
		}
	}
}

// verifC04mCrecv: *CDense receiver, states as verifC04recv.
type verifC04mCrecv struct {
	d     *CDense
	state int
	r, c  int
	back  []complex128
	back0 []complex128
}

func verifC04mMkCRecv(name string, state, r, c int) *verifC04mCrecv {
	rv := &verifC04mCrecv{state: state, r: r, c: c}
	switch state {
	case 0:
		rv.d = &CDense{}
	case 1:
		rv.back = verifComplexes(name, r*c)
		rv.d = NewCDense(r, c, rv.back)
	case 2:
		rv.back = verifComplexes(name, (r+2)*(c+2))
		rv.d = NewCDense(r+2, c+2, rv.back).Slice(1, r+1, 1, c+1).(*CDense)
	default:
		panic("verifC04mMkCRecv: state")
	}
	rv.back0 = append([]complex128(nil), rv.back...)
	return rv
}

func (rv *verifC04mCrecv) check(want []complex128, msg string) {
	gr, gc := rv.d.Dims()
	verifAssert(gr == rv.r && gc == rv.c, msg+": result shape")
	if gr != rv.r || gc != rv.c {
		return
	}
	for i := 0; i < rv.r; i++ {
		for j := 0; j < rv.c; j++ {
			verifAssertEqC(rv.d.At(i, j), want[i*rv.c+j], msg+": result element equals the generic definition")
		}
	}
	switch rv.state {
	case 1:
		for i := range want {
			verifAssertEqC(rv.back[i], want[i], msg+": pre-sized receiver storage holds the result")
		}
	case 2:
		s := rv.c + 2
		for i := 0; i < rv.r+2; i++ {
			for j := 0; j < s; j++ {
				if i >= 1 && i <= rv.r && j >= 1 && j <= rv.c {
					verifAssertEqC(rv.back[i*s+j], want[(i-1)*rv.c+j-1], msg+": view window holds the result")
				} else {
					verifAssert(verifC04mSameC(rv.back[i*s+j], rv.back0[i*s+j]), msg+": backing outside the receiver window untouched")
				}
			}
		}
	}
}

// VerifC04_CDenseWrappers: H() and T() of every CMatrix kind: conjugate
// transpose / transpose of the At values, involutions, CEqual over pairs of
// kinds.
func VerifC04_CDenseWrappers() {
	maxN := verifParam("c04n", 2)
	r := verifChoose("r", 1, maxN)
	c := verifChoose("c", 1, maxN)
	ka := verifChoose("ka", 0, verifC04mNCKinds-1)
	kb := verifChoose("kb", 0, verifC04mNCKinds-1)
	a := verifC04mMkC("a", ka, r, c)
	h, t := a.m.H(), a.m.T()
	hr, hc := h.Dims()
	tr, tc := t.Dims()
	verifAssert(hr == c && hc == r && tr == c && tc == r, "H(), T(): Dims are swapped")
	for i := 0; i < r; i++ {
		for j := 0; j < c; j++ {
			verifAssert(verifC04mSameC(h.At(j, i), verifC04mConj(a.at(i, j))), "H().At(j, i) == conj(At(i, j))")
			verifAssert(verifC04mSameC(t.At(j, i), a.at(i, j)), "T().At(j, i) == At(i, j)")
			verifAssert(verifC04mSameC(h.H().At(i, j), a.at(i, j)), "H().H() is the matrix")
			verifAssert(verifC04mSameC(t.T().At(i, j), a.at(i, j)), "T().T() is the matrix")
			verifAssert(verifC04mSameC(h.T().At(i, j), verifC04mConj(a.at(i, j))), "H().T() is the element-wise conjugate")
			verifAssert(verifC04mSameC(t.H().At(i, j), verifC04mConj(a.at(i, j))), "T().H() is the element-wise conjugate")
		}
	}
	b := verifC04mMkC("b", kb, r, c)
	allEq := true
	for i := range a.val {
		allEq = verifAnd(allEq, a.val[i] == b.val[i])
	}
	verifAssert(verifIff(CEqual(a.m, b.m), allEq), "CEqual(a, b) <=> every element of a equals the element of b")
	verifAssert(!CEqual(a.m, b.m.T()) || r == c, "CEqual: shapes differ => false")
	a.unchanged("a")
	b.unchanged("b")
	verifReach("end")
}

// VerifC04_CDenseCopyConj: m.Copy(a) (common block, every receiver shape) and
// m.Conj(a) for every CMatrix kind and receiver state.
func VerifC04_CDenseCopyConj() {
	maxN := verifParam("c04n", 2)
	r := verifChoose("r", 1, maxN)
	c := verifChoose("c", 1, maxN)
	ka := verifChoose("ka", 0, verifC04mNCKinds-1)
	a := verifC04mMkC("a", ka, r, c)
	want := make([]complex128, r*c)
	for i := range want {
		want[i] = verifC04mConj(a.val[i])
	}
	for st := 0; st <= 2; st++ {
		rv := verifC04mMkCRecv(verifC04nm("m", st, 0), st, r, c)
		rv.d.Conj(a.m)
		rv.check(want, "CDense.Conj")
		a.unchanged("CDense.Conj a")
	}
	for rr := 1; rr <= maxN; rr++ {
		for cc := 1; cc <= maxN; cc++ {
			for st := 1; st <= 2; st++ {
				rv := verifC04mMkCRecv("c"+verifC04nm("m", st, rr*4+cc), st, rr, cc)
				old := verifC04mCSnap(rv.d)
				gr, gc := rv.d.Copy(a.m)
				verifAssert(gr == verifC04min(r, rr) && gc == verifC04min(c, cc), "CDense.Copy: returned extent is the common block")
				w := make([]complex128, rr*cc)
				for i := 0; i < rr; i++ {
					for j := 0; j < cc; j++ {
						if i < r && j < c {
							w[i*cc+j] = a.at(i, j)
						} else {
							w[i*cc+j] = old[i*cc+j]
						}
					}
				}
				rv.check(w, "CDense.Copy")
				a.unchanged("CDense.Copy a")
			}
		}
	}
	verifReach("end")
}

// VerifC04_CDenseViews: Set/At, Zero, Slice, Grow, Reset/ReuseAs of a compact
// CDense and of a strided window.
func VerifC04_CDenseViews() {
	maxN := verifParam("c04n", 2)
	r := verifChoose("r", 1, maxN)
	c := verifChoose("c", 1, maxN)
	st := verifChoose("st", 1, 2)
	rv := verifC04mMkCRecv("m", st, r, c)
	m := rv.d
	val := verifC04mCSnap(m)
	for i := 0; i < r; i++ {
		for k := i + 1; k <= r; k++ {
			for j := 0; j < c; j++ {
				for l := j + 1; l <= c; l++ {
					s := m.Slice(i, k, j, l)
					sr, sc := s.Dims()
					verifAssert(sr == k-i && sc == l-j, "CDense.Slice: shape")
					for x := 0; x < k-i; x++ {
						for y := 0; y < l-j; y++ {
							verifAssert(verifC04mSameC(s.At(x, y), val[(i+x)*c+j+y]), "CDense.Slice reads the window")
						}
					}
				}
			}
		}
	}
	for dr := 0; dr <= 2; dr++ {
		for dc := 0; dc <= 2; dc++ {
			g := m.Grow(dr, dc)
			gr, gc := g.Dims()
			verifAssert(gr == r+dr && gc == c+dc, "CDense.Grow: shape")
			for i := 0; i < r; i++ {
				for j := 0; j < c; j++ {
					verifAssert(verifC04mSameC(g.At(i, j), val[i*c+j]), "CDense.Grow keeps the elements")
				}
			}
			if st == 2 && dr <= 1 && dc <= 1 {
				s := c + 2
				for i := 0; i < r+dr; i++ {
					for j := 0; j < c+dc; j++ {
						verifAssert(verifC04mSameC(g.At(i, j), rv.back[(i+1)*s+j+1]), "CDense.Grow inside the capacity is a view of the backing")
					}
				}
			}
		}
	}
	for i := range rv.back {
		verifAssert(verifC04mSameC(rv.back[i], rv.back0[i]), "views leave the parent's storage unchanged")
	}
	// Set changes exactly one element
	zs := verifComplexes("z", r*c)
	for i := 0; i < r; i++ {
		for j := 0; j < c; j++ {
			m.Set(i, j, zs[i*c+j])
			val[i*c+j] = zs[i*c+j]
			rv.check(val, "CDense.Set")
		}
	}
	// Zero clears exactly the window
	m.Zero()
	rv.check(make([]complex128, r*c), "CDense.Zero")
	if st == 1 {
		r2 := verifChoose("r2", 1, maxN)
		c2 := verifChoose("c2", 1, maxN)
		pan, fault, _ := verifCatch(func() { m.ReuseAs(r2, c2) })
		verifAssert(pan && !fault, "CDense.ReuseAs on a non-empty receiver panics")
		m.Set(0, 0, 1)
		m.Reset()
		gr, gc := m.Dims()
		verifAssert(m.IsEmpty() && gr == 0 && gc == 0, "CDense.Reset: empty")
		m.ReuseAs(r2, c2)
		gr, gc = m.Dims()
		verifAssert(gr == r2 && gc == c2, "CDense.ReuseAs: shape")
		for i := 0; i < r2; i++ {
			for j := 0; j < c2; j++ {
				verifAssert(m.At(i, j) == 0, "CDense.ReuseAs: the matrix is zero")
			}
		}
	}
	verifReach("end")
}

// ---------------------------------------------------------------------------
// 5. VecDense: Norm on views, views, CloneFromVec, Dot / Inner with every kind
// ---------------------------------------------------------------------------

// VerifC04_VecNorm: v.Norm(1) == sum |v_i|, v.Norm(Inf) == max |v_i| for a
// compact VecDense, strided views and their SliceVec windows. (-merge)
func VerifC04_VecNorm() {
	maxN := verifParam("c04vn", 3)
	n := verifChoose("n", 1, maxN)
	ks := []int{verifC04vVec, verifC04vStrided, verifC04mvSlice, verifC04mvRowView}
	k := ks[verifChoose("k", 0, len(ks)-1)]
	o := verifC04mMkVec("v", k, n)
	v := o.v.(*VecDense)
	var s float64
	for i := 0; i < n; i++ {
		s += verifAbsF(o.val[i])
	}
	verifAssertEqF(v.Norm(1), s, "VecDense.Norm(1) is the sum of the magnitudes")
	got := v.Norm(math.Inf(1))
	attained := false
	for i := 0; i < n; i++ {
		verifAssert(got >= verifAbsF(o.val[i]), "VecDense.Norm(Inf) bounds every magnitude")
		attained = verifOr(attained, got == verifAbsF(o.val[i]))
	}
	verifAssert(attained, "VecDense.Norm(Inf) is attained")
	o.unchanged("Norm operand")
	verifReach("end")
}

// VerifC04_VecViews: SliceVec, ColViewOf, RowViewOf, CloneFromVec (zero value
// and compact receivers; the strided receiver is VerifC04_CloneFromVec).
func VerifC04_VecViews() {
	maxN := verifParam("c04vn", 3)
	n := verifChoose("n", 1, maxN)
	k := verifChoose("k", 0, verifC04mNVecKinds-1)
	o := verifC04mMkVec("v", k, n)
	if v, ok := o.v.(*VecDense); ok {
		for i := 0; i < n; i++ {
			for e := i + 1; e <= n; e++ {
				w := v.SliceVec(i, e)
				verifAssert(w.Len() == e-i, "SliceVec: length")
				wr, wc := w.Dims()
				verifAssert(wr == e-i && wc == 1, "SliceVec: Dims")
				for x := 0; x < e-i; x++ {
					verifAssert(verifSame(w.AtVec(x), o.val[i+x]), "SliceVec reads the window")
				}
			}
		}
	}
	// CloneFromVec into a zero value and into a compact vector of another length
	for st := 0; st <= 1; st++ {
		n2 := verifChoose(verifC04mN("n2", st), 1, maxN)
		rv := verifC04mkVRecv(verifC04nm("w", st, 0), st, n2)
		rv.v.CloneFromVec(o.v)
		verifAssert(rv.v.Len() == n, "CloneFromVec: length")
		if rv.v.Len() == n {
			for i := 0; i < n; i++ {
				verifAssert(verifSame(rv.v.AtVec(i), o.val[i]), "CloneFromVec: element")
			}
		}
		o.unchanged("CloneFromVec a")
		if st == 0 {
			break // one zero-value receiver is enough (no second choice needed)
		}
	}
	verifReach("end")
}

// VerifC04_VecViewOf: v.ColViewOf(m, j) / v.RowViewOf(m, i) for a compact
// Dense and a strided window, receiver empty or of the matching length; a
// receiver of another length panics.
func VerifC04_VecViewOf() {
	maxN := verifParam("c04n", 2)
	r := verifChoose("r", 1, maxN)
	c := verifChoose("c", 1, maxN)
	st := verifChoose("st", 1, 2)
	rv := verifC04mkRecv("m", st, r, c)
	val := verifC04mSnap(rv.d)
	for pre := 0; pre <= 1; pre++ {
		for j := 0; j < c; j++ {
			v := &VecDense{}
			if pre == 1 {
				v = NewVecDense(r, nil)
			}
			v.ColViewOf(rv.d, j)
			verifAssert(v.Len() == r, "ColViewOf: length")
			for i := 0; i < r; i++ {
				verifAssert(verifSame(v.AtVec(i), val[i*c+j]), "ColViewOf reads the column")
			}
			x := verifFloat("x" + verifC04nm("c", pre, j))
			v.SetVec(0, x)
			verifAssert(verifSame(rv.d.At(0, j), x), "ColViewOf: writes reach the matrix")
			rv.d.Set(0, j, val[j])
		}
		for i := 0; i < r; i++ {
			v := &VecDense{}
			if pre == 1 {
				v = NewVecDense(c, nil)
			}
			v.RowViewOf(rv.d, i)
			verifAssert(v.Len() == c, "RowViewOf: length")
			for j := 0; j < c; j++ {
				verifAssert(verifSame(v.AtVec(j), val[i*c+j]), "RowViewOf reads the row")
			}
			x := verifFloat("x" + verifC04nm("r", pre, i))
			v.SetVec(0, x)
			verifAssert(verifSame(rv.d.At(i, 0), x), "RowViewOf: writes reach the matrix")
			rv.d.Set(i, 0, val[i*c])
		}
	}
	w := NewVecDense(r+1, nil)
	pan, fault, _ := verifCatch(func() { w.ColViewOf(rv.d, 0) })
	verifAssert(pan && !fault, "ColViewOf: a receiver of another length panics")
	w = NewVecDense(c+1, nil)
	pan, fault, _ = verifCatch(func() { w.RowViewOf(rv.d, 0) })
	verifAssert(pan && !fault, "RowViewOf: a receiver of another length panics")
	rv.check(val, "view parent")
	verifReach("end")
}

// VerifC04_DotKinds: Dot(x, y) for every pair of column Vector kinds,
// including SliceVec / RowView views. (The row vectors x.TVec() are in
// VerifC04_DotRowVector.)
func VerifC04_DotKinds() {
	verifC04mDot(false)
}

// VerifC04_DotRowVector: Dot(x, y) where at least one argument is the row
// vector v.TVec() (a Vector of the same length holding the same elements).
// (OPEN VIOLATION on the unchanged tree, see notes/C04_more.md.)
func VerifC04_DotRowVector() {
	verifC04mDot(true)
}

func verifC04mDot(row bool) {
	maxN := verifParam("c04vn", 3)
	n := verifChoose("n", 1, maxN)
	kx := verifChoose("kx", 0, verifC04mNVecKinds-1)
	ky := verifChoose("ky", 0, verifC04mNVecKinds-1)
	if (kx >= verifC04mvTVec || ky >= verifC04mvTVec) != row {
		return
	}
	x := verifC04mMkVec("x", kx, n)
	y := verifC04mMkVec("y", ky, n)
	var s float64
	for i := 0; i < n; i++ {
		s += x.val[i] * y.val[i]
	}
	verifAssertEqF(Dot(x.v, y.v), s, "Dot equals sum x_i*y_i")
	x.unchanged("Dot x")
	y.unchanged("Dot y")
	verifReach("end")
}

// VerifC04_InnerKinds: Inner(x, A, y) with x and y of the extended Vector
// kinds (views, row vectors) and A of every Matrix kind.
func VerifC04_InnerKinds() {
	maxN := verifParam("c04n", 2)
	r := verifChoose("r", 1, maxN)
	c := verifChoose("c", 1, maxN)
	kx := verifChoose("kx", verifC04nVecKinds, verifC04mNVecKinds-1)
	ky := verifChoose("ky", verifC04nVecKinds, verifC04mNVecKinds-1)
	ka := verifC04pick("ka", r, c)
	x := verifC04mMkVec("x", kx, r)
	y := verifC04mMkVec("y", ky, c)
	a := verifC04mk("a", ka, r, c)
	var s float64
	for i := 0; i < r; i++ {
		for j := 0; j < c; j++ {
			s += x.val[i] * a.at(i, j) * y.val[j]
		}
	}
	verifAssertEqF(Inner(x.v, a.m, y.v), s, "Inner equals sum x_i*a_ij*y_j")
	x.unchanged("Inner x")
	y.unchanged("Inner y")
	a.unchanged("Inner a")
	verifReach("end")
}

// ---------------------------------------------------------------------------
// 6. wrapper matrices and factorizations as operands of Dense.Mul / Add
// ---------------------------------------------------------------------------

const (
	verifC04wBandTBand = iota // TBand() of a c×r BandDense
	verifC04wBandT            // T() of a c×r BandDense
	verifC04wVecTVec          // r == 1: TVec() of a compact VecDense used as a Matrix
	verifC04wVecTT            // c == 1: T() of T() of a strided VecDense
	// square only
	verifC04wSymBandTBand
	verifC04wTriBandL
	verifC04wTriBandUTBand
	verifC04wTriBandUTTriBand
	verifC04wTriBandLTTri
	verifC04wTriBandLT
	verifC04wTridiagT
	verifC04wTridiagTBand
	verifC04wDiagTBand
	verifC04wDiagTTriBand
	verifC04wDiagTTri
	verifC04wTriTTriT // T() of TTri() of an upper TriDense
	verifC04wLU
	verifC04wChol
	verifC04wQR
	verifC04wLQ
	verifC04wNKinds
)

func verifC04mWKindsFor(r, c int) []int {
	ks := []int{verifC04wBandTBand, verifC04wBandT, verifC04wQR, verifC04wLQ}
	if r == 1 {
		ks = append(ks, verifC04wVecTVec)
	}
	if c == 1 {
		ks = append(ks, verifC04wVecTT)
	}
	if r == c {
		for k := verifC04wSymBandTBand; k <= verifC04wChol; k++ {
			ks = append(ks, k)
		}
	}
	return ks
}

// verifC04mMkW builds an r×c operand of a wrapper kind.
func verifC04mMkW(name string, kind, r, c int) *verifC04op {
	o := &verifC04op{r: r, c: c}
	kb := verifC04min(1, r-1) // band width used for the square band types
	switch kind {
	case verifC04wBandTBand, verifC04wBandT:
		// the c×r parent has kl = min(1, c-1), ku = min(1, r-1)
		kl, ku := verifC04min(1, c-1), verifC04min(1, r-1)
		o.back = verifFloats(name, verifC04min(c, r+kl)*(kl+ku+1))
		b := NewBandDense(c, r, kl, ku, o.back)
		if kind == verifC04wBandTBand {
			o.m = b.TBand()
		} else {
			o.m = b.T()
		}
	case verifC04wVecTVec:
		o.back = verifFloats(name, c)
		o.m = NewVecDense(c, o.back).TVec()
	case verifC04wVecTT:
		o.back = verifFloats(name, r*2)
		o.m = NewDense(r, 2, o.back).ColView(1).T().T()
	case verifC04wSymBandTBand:
		o.back = verifFloats(name, r*(kb+1))
		o.m = NewSymBandDense(r, kb, o.back).TBand()
	case verifC04wTriBandL:
		o.back = verifFloats(name, r*(kb+1))
		o.m = NewTriBandDense(r, kb, Lower, o.back)
	case verifC04wTriBandUTBand:
		o.back = verifFloats(name, r*(kb+1))
		o.m = NewTriBandDense(r, kb, Upper, o.back).TBand()
	case verifC04wTriBandUTTriBand:
		o.back = verifFloats(name, r*(kb+1))
		o.m = NewTriBandDense(r, kb, Upper, o.back).TTriBand()
	case verifC04wTriBandLTTri:
		o.back = verifFloats(name, r*(kb+1))
		o.m = NewTriBandDense(r, kb, Lower, o.back).TTri()
	case verifC04wTriBandLT:
		o.back = verifFloats(name, r*(kb+1))
		o.m = NewTriBandDense(r, kb, Lower, o.back).T()
	case verifC04wTridiagT, verifC04wTridiagTBand:
		o.back = verifFloats(name, 3*r)
		var dl, du []float64
		if r > 1 {
			dl, du = o.back[r:2*r-1], o.back[2*r:3*r-1]
		}
		t := NewTridiag(r, dl, o.back[:r], du)
		if kind == verifC04wTridiagT {
			o.m = t.T()
		} else {
			o.m = t.TBand()
		}
	case verifC04wDiagTBand:
		o.back = verifFloats(name, r)
		o.m = NewDiagDense(r, o.back).TBand()
	case verifC04wDiagTTriBand:
		o.back = verifFloats(name, r)
		o.m = NewDiagDense(r, o.back).TTriBand()
	case verifC04wDiagTTri:
		o.back = verifFloats(name, r)
		o.m = NewDiagDense(r, o.back).TTri()
	case verifC04wTriTTriT:
		o.back = verifFloats(name, r*r)
		o.m = NewTriDense(r, Upper, o.back).TTri().T()
	case verifC04wLU:
		// an arbitrary packed factor with an arbitrary pivot permutation
		o.back = verifFloats(name, r*r)
		o.m = &LU{lu: NewDense(r, r, o.back), piv: verifC04mPerm(name+"p", r), swaps: make([]int, r), cond: 1, ok: true}
	case verifC04wChol:
		o.back = verifFloats(name, r*r)
		o.m = &Cholesky{chol: NewTriDense(r, Upper, o.back), cond: 1}
	case verifC04wQR:
		// A = Q*R with arbitrary r×r Q and the upper trapezoid of an r×c qr
		o.back = verifFloats(name, r*c+r*r)
		o.m = &QR{qr: NewDense(r, c, o.back[:r*c]), q: NewDense(r, r, o.back[r*c:]), tau: make([]float64, verifC04min(r, c)), cond: 1}
	case verifC04wLQ:
		o.back = verifFloats(name, r*c+c*c)
		o.m = &LQ{lq: NewDense(r, c, o.back[:r*c]), q: NewDense(c, c, o.back[r*c:]), tau: make([]float64, verifC04min(r, c)), cond: 1}
	default:
		panic("verifC04mMkW: kind")
	}
	verifC04mFinish(o)
	return o
}

// VerifC04_WrapperOperands: Dense.Mul and Dense.Add accept the transpose
// wrappers of the banded / triangular / vector types and the factorization
// types (used as plain matrices) in either argument position and agree with
// the generic definition computed from At. The other operand ranges over
// {Dense, T() of a strided window, Matrix-only type}. (-merge)
func VerifC04_WrapperOperands() {
	maxN := verifParam("c04n", 2)
	op := verifChoose("op", 0, 1) // 0 Mul, 1 Add
	pos := verifChoose("pos", 0, 1)
	r := verifChoose("r", 1, maxN)
	c := verifChoose("c", 1, maxN)
	k := r
	if op == 0 {
		k = verifChoose("k", 1, maxN)
	}
	// shape of the wrapper operand and of the other one
	var wr, wc, orr, oc int
	switch {
	case op == 1:
		wr, wc, orr, oc = r, c, r, c
	case pos == 0:
		wr, wc, orr, oc = r, k, k, c
	default:
		wr, wc, orr, oc = k, c, r, k
	}
	wks := verifC04mWKindsFor(wr, wc)
	kw := wks[verifChoose("kw", 0, len(wks)-1)]
	if kw == verifC04wQR && wr < wc || kw == verifC04wLQ && wr > wc {
		return
	}
	ko := verifC04mReduced[verifChoose("ko", 0, len(verifC04mReduced)-1)]
	w := verifC04mMkW("w", kw, wr, wc)
	o := verifC04mk("o", ko, orr, oc)
	a, b := w, o
	if pos == 1 {
		a, b = o, w
	}
	var want []float64
	if op == 0 {
		want = verifC04mMul(a.val, r, k, b.val, c)
	} else {
		want = make([]float64, r*c)
		for i := range want {
			want[i] = a.val[i] + b.val[i]
		}
	}
	for st := 0; st <= 2; st++ {
		rv := verifC04mkRecv(verifC04nm("m", st, 0), st, r, c)
		if op == 0 {
			rv.d.Mul(a.m, b.m)
		} else {
			rv.d.Add(a.m, b.m)
		}
		rv.check(want, "wrapper operand")
		a.unchanged("wrapper operand a")
		b.unchanged("wrapper operand b")
	}
	verifReach("end")
}

// VerifC04_WrapperPairs: both operands of Mul are wrappers (square shapes).
func VerifC04_WrapperPairs() {
	maxN := verifParam("c04n", 2)
	n := verifChoose("n", 1, maxN)
	wks := verifC04mWKindsFor(n, n)
	ka := wks[verifChoose("ka", 0, len(wks)-1)]
	kb := wks[verifChoose("kb", 0, len(wks)-1)]
	a := verifC04mMkW("a", ka, n, n)
	b := verifC04mMkW("b", kb, n, n)
	want := verifC04mMul(a.val, n, n, b.val, n)
	for st := 0; st <= 2; st++ {
		rv := verifC04mkRecv(verifC04nm("m", st, 0), st, n, n)
		rv.d.Mul(a.m, b.m)
		rv.check(want, "Mul of two wrappers")
		a.unchanged("wrapper a")
		b.unchanged("wrapper b")
	}
	verifReach("end")
}
