package mat

import (
	"math"

	"gonum.org/v1/gonum/blas"
	"gonum.org/v1/gonum/lapack"
	lapackgonum "gonum.org/v1/gonum/lapack/gonum"
	"gonum.org/v1/gonum/lapack/lapack64"
)

// ---------------------------------------------------------------------------
// C04, second wave: the operations that the first wave left outside. The
// operand / receiver builders of zz_verif_c04_core.go and zz_verif_c04_symtri.go
// are reused; helpers of this file are prefixed verifC04m.
// ---------------------------------------------------------------------------

func verifC04mN(base string, i int) string { return base + string(rune('0'+i)) }

// verifC04mSnap reads an r×c matrix through At.
func verifC04mSnap(m Matrix) []float64 {
	r, c := m.Dims()
	v := make([]float64, r*c)
	for i := 0; i < r; i++ {
		for j := 0; j < c; j++ {
			v[i*c+j] = m.At(i, j)
		}
	}
	return v
}

// verifC04mMul is the definition of the product of a (r×k) and b (k×c).
func verifC04mMul(a []float64, r, k int, b []float64, c int) []float64 {
	w := make([]float64, r*c)
	for i := 0; i < r; i++ {
		for j := 0; j < c; j++ {
			var s float64
			for l := 0; l < k; l++ {
				s += a[i*k+l] * b[l*c+j]
			}
			w[i*c+j] = s
		}
	}
	return w
}

func verifC04mTrans(a []float64, r, c int) []float64 {
	w := make([]float64, r*c)
	for i := 0; i < r; i++ {
		for j := 0; j < c; j++ {
			w[j*r+i] = a[i*c+j]
		}
	}
	return w
}

// verifC04mPerm case-splits over all permutations of 0..n-1.
func verifC04mPerm(name string, n int) []int {
	rest := make([]int, n)
	for i := range rest {
		rest[i] = i
	}
	p := make([]int, 0, n)
	for i := 0; i < n; i++ {
		k := 0
		if len(rest) > 1 {
			k = verifChoose(verifC04mN(name, i), 0, len(rest)-1)
		}
		p = append(p, rest[k])
		rest = append(rest[:k:k], rest[k+1:]...)
	}
	return p
}

// reduced kind list used for the positions that are not under the full
// cross product.
var verifC04mReduced = []int{verifC04kDense, verifC04kDenseViewT, verifC04kBasic}

// ---------------------------------------------------------------------------
// 1. Dense.Product
// ---------------------------------------------------------------------------

// VerifC04_Product: m.Product(f0, ..., f_{nf-1}) for 1..3 factors equals the
// chain product computed from the At snapshots, for every receiver state.
// c04pfull=0: with three factors one position (case-split) ranges over every
// applicable kind and the other two over {Dense, T() of a strided window,
// Matrix-only type}; c04pfull=1: the full cross product of kinds.
func VerifC04_Product() {
	maxN := verifParam("c04pn", 2)
	full := verifParam("c04pfull", 0)
	nf := verifChoose("nf", 1, 3)
	d := make([]int, nf+1)
	for i := range d {
		d[i] = verifChoose(verifC04mN("d", i), 1, maxN)
	}
	pos := -1
	if nf == 3 && full == 0 {
		pos = verifChoose("pos", 0, 2)
	}
	ops := make([]*verifC04op, nf)
	ms := make([]Matrix, nf)
	for f := 0; f < nf; f++ {
		var k int
		if pos >= 0 && f != pos {
			k = verifC04mReduced[verifChoose(verifC04mN("k", f), 0, len(verifC04mReduced)-1)]
		} else {
			k = verifC04pick(verifC04mN("k", f), d[f], d[f+1])
		}
		ops[f] = verifC04mk(verifC04mN("f", f), k, d[f], d[f+1])
		ms[f] = ops[f].m
	}
	want := ops[0].val
	for f := 1; f < nf; f++ {
		want = verifC04mMul(want, d[0], d[f], ops[f].val, d[f+1])
	}
	for st := 0; st <= 2; st++ {
		rv := verifC04mkRecv(verifC04nm("m", st, 0), st, d[0], d[nf])
		rv.d.Product(ms...)
		rv.check(want, "Product")
		for f := 0; f < nf; f++ {
			ops[f].unchanged("Product factor")
		}
	}
	verifReach("end")
}

// VerifC04_ProductAlias: the receiver itself (or, for two and three factors,
// its implicit transpose) is one of the factors: the product is formed from the
// receiver's old value.
func VerifC04_ProductAlias() {
	maxN := verifParam("c04pn", 2)
	nf := verifChoose("nf", 1, 3)
	p := verifChoose("p", 0, 2)
	tr := verifChoose("tr", 0, 1) == 1
	if p >= nf || (tr && nf == 1) {
		return
	}
	d := make([]int, nf+1)
	for i := range d {
		d[i] = verifChoose(verifC04mN("d", i), 1, maxN)
	}
	r, c := d[0], d[nf]
	if tr {
		if d[p] != c || d[p+1] != r {
			return
		}
	} else if d[p] != r || d[p+1] != c {
		return
	}
	ops := make([]*verifC04op, nf)
	for f := 0; f < nf; f++ {
		if f == p {
			continue
		}
		k := verifC04pick(verifC04mN("k", f), d[f], d[f+1])
		ops[f] = verifC04mk(verifC04mN("f", f), k, d[f], d[f+1])
	}
	for st := 1; st <= 2; st++ {
		rv := verifC04mkRecv(verifC04nm("m", st, 0), st, r, c)
		old := verifC04mSnap(rv.d)
		if tr {
			old = verifC04mTrans(old, r, c)
		}
		ms := make([]Matrix, nf)
		var want []float64
		for f := 0; f < nf; f++ {
			v := old
			if f == p {
				ms[f] = rv.d
				if tr {
					ms[f] = rv.d.T()
				}
			} else {
				ms[f] = ops[f].m
				v = ops[f].val
			}
			if f == 0 {
				want = v
			} else {
				want = verifC04mMul(want, d[0], d[f], v, d[f+1])
			}
		}
		rv.d.Product(ms...)
		rv.check(want, "Product (receiver is a factor)")
		for f := 0; f < nf; f++ {
			if f != p {
				ops[f].unchanged("Product factor")
			}
		}
	}
	verifReach("end")
}

// ---------------------------------------------------------------------------
// 2. Equal / EqualApprox, Row / Col
// ---------------------------------------------------------------------------

// VerifC04_Equal: Equal(a, b) <=> same shape and all elements equal, for
// every pair of representations; EqualApprox with epsilon 0 is the same
// relation.
func VerifC04_Equal() {
	maxN := verifParam("c04n", 2)
	r := verifChoose("r", 1, maxN)
	c := verifChoose("c", 1, maxN)
	ka := verifC04pick("ka", r, c)
	kb := verifC04pick("kb", r, c)
	a := verifC04mk("a", ka, r, c)
	b := verifC04mk("b", kb, r, c)
	allEq := true
	for i := range a.val {
		allEq = verifAnd(allEq, a.val[i] == b.val[i])
	}
	got := Equal(a.m, b.m)
	verifAssert(verifIff(got, allEq), "Equal(a, b) <=> every element of a equals the element of b")
	got0 := EqualApprox(a.m, b.m, 0)
	verifAssert(verifIff(got0, allEq), "EqualApprox(a, b, 0) <=> every element of a equals the element of b")
	a.unchanged("Equal a")
	b.unchanged("Equal b")
	verifReach("end")
}

// VerifC04_EqualSameValues: two representations of the same values compare
// equal, with Equal and with EqualApprox for every tolerance.
func VerifC04_EqualSameValues() {
	maxN := verifParam("c04n", 2)
	r := verifChoose("r", 1, maxN)
	c := verifChoose("c", 1, maxN)
	ka := verifC04pick("ka", r, c)
	kb := verifC04pick("kb", r, c)
	a := verifC04mk("a", ka, r, c)
	b := verifC04mk("b", kb, r, c)
	for i := range a.val {
		verifAssume(a.val[i] == b.val[i])
	}
	eps := verifFloat("eps")
	verifAssert(Equal(a.m, b.m), "Equal: equal values in different representations compare equal")
	verifAssert(EqualApprox(a.m, b.m, eps), "EqualApprox: equal values in different representations compare equal for every epsilon")
	a.unchanged("Equal a")
	b.unchanged("Equal b")
	verifReach("end")
}

// VerifC04_EqualShape: matrices of different shape are never equal.
func VerifC04_EqualShape() {
	maxN := verifParam("c04n", 2)
	r := verifChoose("r", 1, maxN)
	c := verifChoose("c", 1, maxN)
	r2 := verifChoose("r2", 1, maxN)
	c2 := verifChoose("c2", 1, maxN)
	if r == r2 && c == c2 {
		return
	}
	ka := verifC04pick("ka", r, c)
	kb := verifC04pick("kb", r2, c2)
	a := verifC04mk("a", ka, r, c)
	b := verifC04mk("b", kb, r2, c2)
	eps := verifFloat("eps")
	verifAssert(!Equal(a.m, b.m), "Equal: shapes differ => false")
	verifAssert(!EqualApprox(a.m, b.m, eps), "EqualApprox: shapes differ => false")
	verifReach("end")
}

// VerifC04_RowCol: Row(dst, i, a) and Col(dst, j, a) with dst nil and
// pre-sized, for every kind and every index.
func VerifC04_RowCol() {
	maxN := verifParam("c04n", 2)
	r := verifChoose("r", 1, maxN)
	c := verifChoose("c", 1, maxN)
	ka := verifC04pick("ka", r, c)
	a := verifC04mk("a", ka, r, c)
	for i := 0; i < r; i++ {
		got := Row(nil, i, a.m)
		verifAssert(len(got) == c, "Row(nil): length")
		dst := verifFloats(verifC04mN("rd", i), c)
		ret := Row(dst, i, a.m)
		verifAssert(len(ret) == c, "Row(dst): length")
		for j := 0; j < c; j++ {
			verifAssert(verifSame(got[j], a.at(i, j)), "Row(nil) element")
			verifAssert(verifSame(dst[j], a.at(i, j)), "Row(dst) fills dst")
			verifAssert(verifSame(ret[j], a.at(i, j)), "Row(dst) returned slice")
		}
	}
	for j := 0; j < c; j++ {
		got := Col(nil, j, a.m)
		verifAssert(len(got) == r, "Col(nil): length")
		dst := verifFloats(verifC04mN("cd", j), r)
		ret := Col(dst, j, a.m)
		verifAssert(len(ret) == r, "Col(dst): length")
		for i := 0; i < r; i++ {
			verifAssert(verifSame(got[i], a.at(i, j)), "Col(nil) element")
			verifAssert(verifSame(dst[i], a.at(i, j)), "Col(dst) fills dst")
			verifAssert(verifSame(ret[i], a.at(i, j)), "Col(dst) returned slice")
		}
	}
	a.unchanged("Row/Col operand")
	verifReach("end")
}

// ---------------------------------------------------------------------------
// 2b. Dense views, copies, permutations, Trace, Zero/Reset/ReuseAs, SetRow/SetCol
// ---------------------------------------------------------------------------

// VerifC04_DenseViews: RowView, ColView, Slice, Grow, DiagView and T of a
// compact Dense and of a strided window read the values of the parent.
func VerifC04_DenseViews() {
	maxN := verifParam("c04n", 2)
	r := verifChoose("r", 1, maxN)
	c := verifChoose("c", 1, maxN)
	st := verifChoose("st", 1, 2)
	rv := verifC04mkRecv("m", st, r, c)
	m := rv.d
	val := verifC04mSnap(m)
	for i := 0; i < r; i++ {
		v := m.RowView(i)
		verifAssert(v.Len() == c, "RowView: length")
		for j := 0; j < c; j++ {
			verifAssert(verifSame(v.AtVec(j), val[i*c+j]), "RowView reads the row")
		}
	}
	for j := 0; j < c; j++ {
		v := m.ColView(j)
		verifAssert(v.Len() == r, "ColView: length")
		for i := 0; i < r; i++ {
			verifAssert(verifSame(v.AtVec(i), val[i*c+j]), "ColView reads the column")
		}
	}
	for i := 0; i < r; i++ {
		for k := i + 1; k <= r; k++ {
			for j := 0; j < c; j++ {
				for l := j + 1; l <= c; l++ {
					s := m.Slice(i, k, j, l)
					sr, sc := s.Dims()
					verifAssert(sr == k-i && sc == l-j, "Slice: shape")
					for x := 0; x < k-i; x++ {
						for y := 0; y < l-j; y++ {
							verifAssert(verifSame(s.At(x, y), val[(i+x)*c+j+y]), "Slice reads the window")
						}
					}
				}
			}
		}
	}
	dv := m.DiagView()
	verifAssert(dv.Diag() == verifC04min(r, c), "DiagView: size")
	for i := 0; i < verifC04min(r, c); i++ {
		verifAssert(verifSame(dv.At(i, i), val[i*c+i]), "DiagView reads the diagonal")
	}
	t := m.T()
	for i := 0; i < r; i++ {
		for j := 0; j < c; j++ {
			verifAssert(verifSame(t.At(j, i), val[i*c+j]), "T reads the transpose")
		}
	}
	// Grow: the old elements are kept; inside the capacity the grown matrix is a
	// view of the same backing, beyond it a copy.
	for dr := 0; dr <= 2; dr++ {
		for dc := 0; dc <= 2; dc++ {
			g := m.Grow(dr, dc)
			gr, gc := g.Dims()
			verifAssert(gr == r+dr && gc == c+dc, "Grow: shape")
			for i := 0; i < r; i++ {
				for j := 0; j < c; j++ {
					verifAssert(verifSame(g.At(i, j), val[i*c+j]), "Grow keeps the elements")
				}
			}
			if st == 2 && dr <= 1 && dc <= 1 {
				// inside the capacity (r+1)×(c+1) of the window: no allocation
				s := c + 2
				for i := 0; i < r+dr; i++ {
					for j := 0; j < c+dc; j++ {
						verifAssert(verifSame(g.At(i, j), rv.back[(i+1)*s+j+1]), "Grow inside the capacity is a view of the backing")
					}
				}
			}
		}
	}
	mr, mc := m.Dims()
	verifAssert(mr == r && mc == c, "views leave the shape of the parent unchanged")
	for i := range rv.back {
		verifAssert(verifSame(rv.back[i], rv.back0[i]), "views leave the parent's storage unchanged")
	}
	verifReach("end")
}

// VerifC04_CopyOf: DenseCopyOf(a) and VecDenseCopyOf(v).
func VerifC04_CopyOf() {
	maxN := verifParam("c04n", 2)
	r := verifChoose("r", 1, maxN)
	c := verifChoose("c", 1, maxN)
	ka := verifC04pick("ka", r, c)
	a := verifC04mk("a", ka, r, c)
	d := DenseCopyOf(a.m)
	dr, dc := d.Dims()
	verifAssert(dr == r && dc == c, "DenseCopyOf: shape")
	if dr == r && dc == c {
		for i := 0; i < r; i++ {
			for j := 0; j < c; j++ {
				verifAssert(verifSame(d.At(i, j), a.at(i, j)), "DenseCopyOf: element")
			}
		}
		// the copy does not share storage with a
		d.Set(0, 0, d.At(0, 0)+1)
	}
	a.unchanged("DenseCopyOf a")
	if c == 1 && ka == verifC04kDense {
		for kv := 0; kv < verifC04mNVecKinds; kv++ {
			v := verifC04mMkVec(verifC04mN("v", kv), kv, r)
			w := VecDenseCopyOf(v.v)
			verifAssert(w.Len() == r, "VecDenseCopyOf: length")
			if w.Len() == r {
				for i := 0; i < r; i++ {
					verifAssert(verifSame(w.AtVec(i), v.val[i]), "VecDenseCopyOf: element")
				}
				verifAssert(w.mat.Inc == 1, "VecDenseCopyOf: compact")
				w.SetVec(0, w.AtVec(0)+1)
			}
			v.unchanged("VecDenseCopyOf v")
		}
	}
	verifReach("end")
}

// VerifC04_Permutation: m.Permutation(n, p): P[i, p[i]] = 1, 0 elsewhere.
func VerifC04_Permutation() {
	maxN := verifParam("c04sn", 3)
	n := verifChoose("n", 1, maxN)
	p := verifC04mPerm("p", n)
	p0 := append([]int(nil), p...)
	want := make([]float64, n*n)
	for i := 0; i < n; i++ {
		want[i*n+p[i]] = 1
	}
	for st := 0; st <= 2; st++ {
		rv := verifC04mkRecv(verifC04nm("m", st, 0), st, n, n)
		rv.d.Permutation(n, p)
		rv.check(want, "Permutation")
		for i := range p {
			verifAssert(p[i] == p0[i], "Permutation: p unchanged")
		}
	}
	verifReach("end")
}

// VerifC04_Permute: PermuteRows / PermuteCols on a compact Dense and on a
// strided window, VecDense.Permute on a compact and a strided vector.
func VerifC04_Permute() {
	maxN := verifParam("c04sn", 3)
	op := verifChoose("op", 0, 2)
	r := verifChoose("r", 1, maxN)
	c := 1
	if op != 2 {
		c = verifChoose("c", 1, maxN)
	}
	inverse := verifChoose("inverse", 0, 1) == 1
	np := r
	if op == 1 {
		np = c
	}
	p := verifC04mPerm("p", np)
	p0 := append([]int(nil), p...)
	if op == 2 {
		for st := 1; st <= 2; st++ {
			rv := verifC04mkVRecv(verifC04nm("v", st, 0), st, r)
			old := make([]float64, r)
			for i := range old {
				old[i] = rv.v.AtVec(i)
			}
			rv.v.Permute(p, inverse)
			want := make([]float64, r)
			for i := 0; i < r; i++ {
				if inverse {
					want[p[i]] = old[i]
				} else {
					want[i] = old[p[i]]
				}
			}
			rv.check(want, "VecDense.Permute")
			for i := range p {
				verifAssert(p[i] == p0[i], "Permute: p unchanged")
			}
		}
		verifReach("end")
		return
	}
	for st := 1; st <= 2; st++ {
		rv := verifC04mkRecv(verifC04nm("m", st, 0), st, r, c)
		old := verifC04mSnap(rv.d)
		want := make([]float64, r*c)
		name := "PermuteRows"
		if op == 0 {
			rv.d.PermuteRows(p, inverse)
			for i := 0; i < r; i++ {
				for j := 0; j < c; j++ {
					if inverse {
						want[p[i]*c+j] = old[i*c+j]
					} else {
						want[i*c+j] = old[p[i]*c+j]
					}
				}
			}
		} else {
			name = "PermuteCols"
			rv.d.PermuteCols(p, inverse)
			for i := 0; i < r; i++ {
				for j := 0; j < c; j++ {
					if inverse {
						want[i*c+p[j]] = old[i*c+j]
					} else {
						want[i*c+j] = old[i*c+p[j]]
					}
				}
			}
		}
		rv.check(want, name)
		for i := range p {
			verifAssert(p[i] == p0[i], name+": p unchanged")
		}
	}
	verifReach("end")
}

// VerifC04_TraceMethods: the Trace method of every concrete type equals the
// sum of the diagonal read through At.
func VerifC04_TraceMethods() {
	maxN := verifParam("c04sn", 3)
	n := verifChoose("n", 1, maxN)
	ks := []int{verifC04kDense, verifC04kDenseView, verifC04kSym, verifC04kTriU, verifC04kTriL, verifC04kDiag,
		verifC04kBand, verifC04kSymBand, verifC04kTriBandU, verifC04kTridiag}
	ki := verifChoose("k", 0, len(ks)+2)
	var m Matrix
	var a *verifC04op
	switch {
	case ki < len(ks):
		a = verifC04mk("a", ks[ki], n, n)
		m = a.m
	case ki == len(ks): // SliceSym window
		s := verifC04mkSym("a", verifC04sSymView, n)
		m = s.s
	case ki == len(ks)+1: // SliceTri window
		t, _ := verifC04mkTri("a", verifC04tTriView, n, true)
		m = t.t
	default: // lower TriBandDense
		k := verifC04min(1, n-1)
		m = NewTriBandDense(n, k, Lower, verifFloats("a", n*(k+1)))
	}
	var want float64
	for i := 0; i < n; i++ {
		want += m.At(i, i)
	}
	var got float64
	switch t := m.(type) {
	case *Dense:
		got = t.Trace()
	case *SymDense:
		got = t.Trace()
	case *TriDense:
		got = t.Trace()
	case *DiagDense:
		got = t.Trace()
	case *BandDense:
		got = t.Trace()
	case *SymBandDense:
		got = t.Trace()
	case *TriBandDense:
		got = t.Trace()
	case *Tridiag:
		got = t.Trace()
	default:
		panic("verifC04m: TraceMethods kind")
	}
	verifAssertEqF(got, want, "Trace method equals the sum of the diagonal")
	verifAssertEqF(Trace(m), want, "Trace function equals the sum of the diagonal")
	if a != nil {
		a.unchanged("Trace operand")
	}
	verifReach("end")
}

// VerifC04_ZeroResetReuse: Zero clears exactly the receiver's window;
// Reset empties; ReuseAs after Reset gives an all-zero matrix of the new shape
// (the old backing may be reused); ReuseAs on a non-empty receiver panics.
func VerifC04_ZeroResetReuse() {
	maxN := verifParam("c04n", 2)
	r := verifChoose("r", 1, maxN)
	c := verifChoose("c", 1, maxN)
	r2 := verifChoose("r2", 1, maxN)
	c2 := verifChoose("c2", 1, maxN)
	zero := make([]float64, r*c)
	for st := 1; st <= 2; st++ {
		rv := verifC04mkRecv(verifC04nm("m", st, 0), st, r, c)
		rv.d.Zero()
		rv.check(zero, "Dense.Zero")
	}
	rv := verifC04mkRecv("q", 1, r, c)
	pan, fault, _ := verifCatch(func() { rv.d.ReuseAs(r2, c2) })
	verifAssert(pan && !fault, "ReuseAs on a non-empty receiver panics")
	rv.d.Reset()
	verifAssert(rv.d.IsEmpty(), "Reset: IsEmpty")
	gr, gc := rv.d.Dims()
	verifAssert(gr == 0 && gc == 0, "Reset: Dims are 0, 0")
	rv.d.ReuseAs(r2, c2)
	gr, gc = rv.d.Dims()
	verifAssert(gr == r2 && gc == c2, "ReuseAs: shape")
	for i := 0; i < r2; i++ {
		for j := 0; j < c2; j++ {
			verifAssert(rv.d.At(i, j) == 0, "ReuseAs: the matrix is zero")
		}
	}
	// the emptied and re-used receiver works as the receiver of an operation
	a := verifC04mk("a", verifC04kDense, r2, c2)
	rv.d.Scale(2, a.m)
	for i := 0; i < r2; i++ {
		for j := 0; j < c2; j++ {
			verifAssertEqF(rv.d.At(i, j), 2*a.at(i, j), "operation into a ReuseAs receiver")
		}
	}
	// VecDense
	for st := 1; st <= 2; st++ {
		vv := verifC04mkVRecv(verifC04nm("v", st, 0), st, r)
		vv.v.Zero()
		vv.check(make([]float64, r), "VecDense.Zero")
	}
	vv := verifC04mkVRecv("w", 1, r)
	pan, fault, _ = verifCatch(func() { vv.v.ReuseAsVec(r2) })
	verifAssert(pan && !fault, "ReuseAsVec on a non-empty receiver panics")
	vv.v.Reset()
	verifAssert(vv.v.IsEmpty() && vv.v.Len() == 0, "VecDense.Reset: empty")
	vv.v.ReuseAsVec(r2)
	verifAssert(vv.v.Len() == r2, "ReuseAsVec: length")
	for i := 0; i < r2; i++ {
		verifAssert(vv.v.AtVec(i) == 0, "ReuseAsVec: the vector is zero")
	}
	verifReach("end")
}

// VerifC04_ZeroStructured: Zero of SymDense, TriDense, DiagDense, BandDense,
// SymBandDense, TriBandDense, Tridiag: every element reads 0 afterwards; for
// windows the parent's cells outside the window keep their values.
func VerifC04_ZeroStructured() {
	maxN := verifParam("c04sn", 3)
	which := verifChoose("which", 0, 8)
	n := verifChoose("n", 1, maxN)
	switch which {
	case 0: // SymDense, compact and window
		for st := 1; st <= 2; st++ {
			rv := verifC04mkSRecv(verifC04nm("s", st, 0), st, n)
			rv.s.Zero()
			rv.check(make([]float64, n*n), "SymDense.Zero")
		}
	case 1, 2: // TriDense
		for st := 1; st <= 2; st++ {
			rv := verifC04mkTRecv(verifC04nm("t", st, 0), st, n, which == 1)
			rv.t.Zero()
			rv.check(make([]float64, n*n), "TriDense.Zero")
		}
	case 3: // DiagDense compact and the strided diagonal view of a Dense
		d := NewDiagDense(n, verifFloats("d", n))
		d.Zero()
		for i := 0; i < n; i++ {
			verifAssert(d.At(i, i) == 0, "DiagDense.Zero")
		}
		back := verifFloats("b", n*n)
		back0 := append([]float64(nil), back...)
		dv := NewDense(n, n, back).DiagView().(*DiagDense)
		dv.Zero()
		for i := 0; i < n; i++ {
			for j := 0; j < n; j++ {
				if i == j {
					verifAssert(back[i*n+j] == 0, "DiagDense.Zero on a diagonal view clears the diagonal")
				} else {
					verifAssert(verifSame(back[i*n+j], back0[i*n+j]), "DiagDense.Zero on a diagonal view keeps the off-diagonal cells of the parent")
				}
			}
		}
	case 4: // BandDense, every shape and bandwidth
		c := verifChoose("c", 1, maxN)
		kl := verifChoose("kl", 0, n-1)
		ku := verifChoose("ku", 0, c-1)
		b := NewBandDense(n, c, kl, ku, verifFloats("b", verifC04min(n, c+kl)*(kl+ku+1)))
		b.Zero()
		for i := 0; i < n; i++ {
			for j := 0; j < c; j++ {
				verifAssert(b.At(i, j) == 0, "BandDense.Zero: every element is zero")
			}
		}
	case 5:
		k := verifChoose("k", 0, n-1)
		b := NewSymBandDense(n, k, verifFloats("b", n*(k+1)))
		b.Zero()
		for i := 0; i < n; i++ {
			for j := 0; j < n; j++ {
				verifAssert(b.At(i, j) == 0, "SymBandDense.Zero: every element is zero")
			}
		}
	case 6, 7:
		k := verifChoose("k", 0, n-1)
		b := NewTriBandDense(n, k, TriKind(which == 6), verifFloats("b", n*(k+1)))
		b.Zero()
		for i := 0; i < n; i++ {
			for j := 0; j < n; j++ {
				verifAssert(b.At(i, j) == 0, "TriBandDense.Zero: every element is zero")
			}
		}
	case 8:
		a := verifC04mk("a", verifC04kTridiag, n, n)
		a.m.(*Tridiag).Zero()
		for i := 0; i < n; i++ {
			for j := 0; j < n; j++ {
				verifAssert(a.m.At(i, j) == 0, "Tridiag.Zero: every element is zero")
			}
		}
	}
	verifReach("end")
}

// VerifC04_SetRowCol: SetRow / SetCol replace exactly one row / column.
func VerifC04_SetRowCol() {
	maxN := verifParam("c04n", 2)
	r := verifChoose("r", 1, maxN)
	c := verifChoose("c", 1, maxN)
	for st := 1; st <= 2; st++ {
		for i := 0; i < r; i++ {
			rv := verifC04mkRecv(verifC04nm("m", st, i), st, r, c)
			want := verifC04mSnap(rv.d)
			src := verifFloats(verifC04nm("sr", st, i), c)
			src0 := append([]float64(nil), src...)
			rv.d.SetRow(i, src)
			copy(want[i*c:(i+1)*c], src0)
			rv.check(want, "SetRow")
			for j := range src {
				verifAssert(verifSame(src[j], src0[j]), "SetRow: src unchanged")
			}
		}
		for j := 0; j < c; j++ {
			rv := verifC04mkRecv(verifC04nm("n", st, j), st, r, c)
			want := verifC04mSnap(rv.d)
			src := verifFloats(verifC04nm("sc", st, j), r)
			src0 := append([]float64(nil), src...)
			rv.d.SetCol(j, src)
			for i := 0; i < r; i++ {
				want[i*c+j] = src0[i]
			}
			rv.check(want, "SetCol")
			for i := range src {
				verifAssert(verifSame(src[i], src0[i]), "SetCol: src unchanged")
			}
		}
	}
	verifReach("end")
}

// ---------------------------------------------------------------------------
// vector kinds, extended: adds a single TVec (a row vector), SliceVec, RowView
// ---------------------------------------------------------------------------

const (
	verifC04mvSlice   = verifC04nVecKinds + iota // SliceVec(1, n+1) of a strided VecDense
	verifC04mvRowView                            // RowView(1) of a Dense
	verifC04mvTVec                               // TVec() of a VecDense: a 1×n Vector
	verifC04mvTVecStr                            // TVec() of a strided VecDense
	verifC04mNVecKinds
)

func verifC04mMkVec(name string, kind, n int) *verifC04vop {
	if kind < verifC04nVecKinds {
		return verifC04mkVec(name, kind, n)
	}
	o := &verifC04vop{n: n}
	switch kind {
	case verifC04mvSlice:
		o.back = verifFloats(name, (n+2)*2)
		o.v = NewDense(n+2, 2, o.back).ColView(1).(*VecDense).SliceVec(1, n+1)
	case verifC04mvRowView:
		o.back = verifFloats(name, 3*n)
		o.v = NewDense(3, n, o.back).RowView(1)
	case verifC04mvTVec:
		o.back = verifFloats(name, n)
		o.v = NewVecDense(n, o.back).TVec()
	case verifC04mvTVecStr:
		o.back = verifFloats(name, n*2)
		o.v = NewDense(n, 2, o.back).ColView(1).(*VecDense).TVec()
	default:
		panic("verifC04mMkVec: kind")
	}
	verifAssert(o.v.Len() == n, "C04: vector builder length")
	o.back0 = append([]float64(nil), o.back...)
	o.val = make([]float64, n)
	for i := 0; i < n; i++ {
		o.val[i] = o.v.AtVec(i)
	}
	return o
}

var (
	_ = math.Inf
	_ = blas.Upper
	_ lapack.MatrixNorm
	_ lapackgonum.Implementation
	_ = lapack64.Use
)
