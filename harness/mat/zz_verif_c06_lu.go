package mat

import (
	"math"

	"gonum.org/v1/gonum/blas"
	"gonum.org/v1/gonum/lapack"
	lapackgonum "gonum.org/v1/gonum/lapack/gonum"
	"gonum.org/v1/gonum/lapack/lapack64"
)

// ---------------------------------------------------------------------------
// C06 infrastructure
// ---------------------------------------------------------------------------

// verifC06lapack is the real LAPACK implementation with the three iterative
// reciprocal-condition estimators replaced by a stub that returns a fixed,
// harness-chosen (symbolic) value. It is installed through the public
// lapack64.Use. Everything else (Dgetrf, Dgetrs, Dgetri, Dpotrf, Dpotrs,
// Dpotri, Dtrtrs, Dlange, Dlantr, Dlansy ...) is the code of /repo.
type verifC06lapack struct {
	lapackgonum.Implementation
	rcond float64
}

func (l verifC06lapack) Dgecon(norm lapack.MatrixNorm, n int, a []float64, lda int, anorm float64, work []float64, iwork []int) float64 {
	return l.rcond
}
func (l verifC06lapack) Dpocon(uplo blas.Uplo, n int, a []float64, lda int, anorm float64, work []float64, iwork []int) float64 {
	return l.rcond
}
func (l verifC06lapack) Dtrcon(norm lapack.MatrixNorm, uplo blas.Uplo, diag blas.Diag, n int, a []float64, lda int, work []float64, iwork []int) float64 {
	return l.rcond
}

// verifC06stubCond installs the stub with an arbitrary reciprocal condition
// number in [1e-15, 1] (so 1/rcond stays clear of ConditionTolerance = 1e16;
// the boundary itself is a rounding question) and returns it.
func verifC06stubCond() float64 {
	r := verifFloat("rcond")
	verifAssume(verifAnd(r >= 1e-15, r <= 1))
	lapack64.Use(verifC06lapack{rcond: r})
	return r
}

// verifC06det is the Leibniz determinant of a row-major n×n matrix, n <= 3.
func verifC06det(a []float64, n int) float64 {
	switch n {
	case 1:
		return a[0]
	case 2:
		return a[0]*a[3] - a[1]*a[2]
	case 3:
		return a[0]*(a[4]*a[8]-a[5]*a[7]) - a[1]*(a[3]*a[8]-a[5]*a[6]) + a[2]*(a[3]*a[7]-a[4]*a[6])
	}
	panic("verifC06det: n")
}

// verifC06luState is an LU object holding an ARBITRARY valid factorization:
// a symbolic packed factor (unit-lower L below the diagonal, U on and above),
// a case-split row-swap vector swaps[i] in [i, n-1] (LAPACK ipiv semantics) and
// the pivot permutation derived from it by the real updatePivots.
type verifC06luState struct {
	lu *LU
	n  int
	f  []float64 // the packed factor (copy)
	lm []float64 // L*U
	a  []float64 // the matrix represented: swaps applied in reverse to the rows of L*U
}

func verifC06reconstruct(f []float64, stride int, swaps []int, n int) (lm, a []float64) {
	lm = make([]float64, n*n)
	for i := 0; i < n; i++ {
		for j := 0; j < n; j++ {
			var s float64
			for k := 0; k <= i && k <= j; k++ {
				l := 1.0
				if k < i {
					l = f[i*stride+k]
				}
				s += l * f[k*stride+j]
			}
			lm[i*n+j] = s
		}
	}
	a = append([]float64(nil), lm...)
	for i := n - 1; i >= 0; i-- {
		v := swaps[i]
		if v != i {
			for j := 0; j < n; j++ {
				a[i*n+j], a[v*n+j] = a[v*n+j], a[i*n+j]
			}
		}
	}
	return lm, a
}

func verifC06mkLU(name string, n int, cond float64) *verifC06luState {
	st := &verifC06luState{n: n}
	st.f = verifFloats(name, n*n)
	for i := 0; i < n; i++ {
		verifAssume(st.f[i*n+i] != 0) // nonsingular U
	}
	swaps := make([]int, n)
	for i := 0; i < n; i++ {
		swaps[i] = i
		if i < n-1 {
			swaps[i] = verifChoose(name+"swap"+string(rune('0'+i)), i, n-1)
		}
	}
	lu := &LU{lu: NewDense(n, n, append([]float64(nil), st.f...)), swaps: swaps, piv: make([]int, n), cond: cond, ok: true}
	lu.updatePivots(lu.swaps)
	st.lu = lu
	st.lm, st.a = verifC06reconstruct(st.f, n, swaps, n)
	return st
}

// ---------------------------------------------------------------------------
// LU
// ---------------------------------------------------------------------------

// VerifC06_LUExtract: for an arbitrary valid factorization, At, LTo, UTo,
// RowPivots and the sign of LogDet describe the same matrix A = P*L*U.
func VerifC06_LUExtract() {
	n := verifChoose("n", 1, verifParam("c06n", 3))
	st := verifC06mkLU("f", n, 1)
	lu := st.lu
	r, c := lu.Dims()
	verifAssert(r == n && c == n, "LU.Dims")
	for i := 0; i < n; i++ {
		for j := 0; j < n; j++ {
			verifAssertEqF(lu.At(i, j), st.a[i*n+j], "LU.At(i,j) is the element of the factorized matrix")
		}
	}
	for dstState := 0; dstState <= 1; dstState++ {
		var l, u *TriDense
		if dstState == 0 {
			l, u = &TriDense{}, &TriDense{}
		} else {
			l = NewTriDense(n, Lower, verifFloats("lold", n*n))
			u = NewTriDense(n, Upper, verifFloats("uold", n*n))
		}
		lu.LTo(l)
		lu.UTo(u)
		for i := 0; i < n; i++ {
			for j := 0; j < n; j++ {
				switch {
				case i == j:
					verifAssertEqF(l.At(i, j), 1, "LTo: unit diagonal")
					verifAssertEqF(u.At(i, j), st.f[i*n+j], "UTo: upper part of the factor")
				case i > j:
					verifAssertEqF(l.At(i, j), st.f[i*n+j], "LTo: strictly lower part of the factor")
					verifAssertEqF(u.At(i, j), 0, "UTo: zero below the diagonal")
				default:
					verifAssertEqF(l.At(i, j), 0, "LTo: zero above the diagonal")
					verifAssertEqF(u.At(i, j), st.f[i*n+j], "UTo: upper part of the factor")
				}
			}
		}
		// A = P*L*U with P given by RowPivots and applied by PermuteRows
		var prod Dense
		prod.Mul(l, u)
		piv := lu.RowPivots(nil)
		prod.PermuteRows(piv, false)
		for i := 0; i < n; i++ {
			for j := 0; j < n; j++ {
				verifAssertEqF(prod.At(i, j), st.a[i*n+j], "PermuteRows(RowPivots)(LTo*UTo) reconstructs A")
			}
		}
	}
	// sign of the determinant (the magnitude goes through math.Log/math.Exp,
	// which are uninterpreted in model R: outside)
	_, sign := lu.LogDet()
	verifAssert(sign*verifC06det(st.a, n) > 0, "LogDet: sign is the sign of det(A)")
	verifReach("end")
}

// VerifC06_LUSolve: SolveTo / SolveVecTo with an arbitrary valid factorization
// solve A*X = B (trans=false) and Aᵀ*X = B (trans=true); B is not modified; err
// is nil exactly when the stored condition number is within tolerance.
func VerifC06_LUSolve() {
	n := verifChoose("n", 1, verifParam("c06lsn", 2))
	nrhs := verifChoose("nrhs", 1, verifParam("c06nrhs", 2))
	cond := verifFloat("cond")
	verifAssume(cond >= 1)
	st := verifC06mkLU("f", n, cond)
	lu := st.lu
	bd := verifFloats("b", n*nrhs)
	for tr := 0; tr <= 1; tr++ {
		trans := tr == 1
		for dstState := 0; dstState <= 2; dstState++ {
			b := NewDense(n, nrhs, append([]float64(nil), bd...))
			var dst *Dense
			switch dstState {
			case 0:
				dst = &Dense{}
			case 1:
				dst = NewDense(n, nrhs, verifFloats(verifC04nm("xold", tr, dstState), n*nrhs))
			case 2:
				dst = b // dst aliases b
			}
			err := lu.SolveTo(dst, trans, b)
			verifAssert((err == nil) == (cond <= ConditionTolerance), "LU.SolveTo: error iff the condition number exceeds the tolerance")
			verifC06checkSolve(st.a, n, dst, bd, nrhs, trans, "LU.SolveTo")
			if dstState != 2 {
				for i := range bd {
					verifAssert(verifSame(b.mat.Data[i], bd[i]), "LU.SolveTo: b unchanged")
				}
			}
		}
		// vectors
		for dstState := 0; dstState <= 2; dstState++ {
			bv := NewVecDense(n, append([]float64(nil), bd[:n]...))
			var dst *VecDense
			switch dstState {
			case 0:
				dst = &VecDense{}
			case 1:
				dst = NewVecDense(n, verifFloats(verifC04nm("vold", tr, dstState), n))
			case 2:
				dst = bv
			}
			err := lu.SolveVecTo(dst, trans, bv)
			verifAssert((err == nil) == (cond <= ConditionTolerance), "LU.SolveVecTo: error iff the condition number exceeds the tolerance")
			verifAssert(dst.Len() == n, "LU.SolveVecTo: result length")
			for i := 0; i < n; i++ {
				var s float64
				for k := 0; k < n; k++ {
					aik := st.a[i*n+k]
					if trans {
						aik = st.a[k*n+i]
					}
					s += aik * dst.AtVec(k)
				}
				verifAssertEqF(s, bd[i], "LU.SolveVecTo: op(A)*x == b")
			}
		}
	}
	verifReach("end")
}

func verifC06checkSolve(a []float64, n int, x *Dense, bd []float64, nrhs int, trans bool, msg string) {
	xr, xc := x.Dims()
	verifAssert(xr == n && xc == nrhs, msg+": result shape")
	if xr != n || xc != nrhs {
		return
	}
	for i := 0; i < n; i++ {
		for j := 0; j < nrhs; j++ {
			var s float64
			for k := 0; k < n; k++ {
				aik := a[i*n+k]
				if trans {
					aik = a[k*n+i]
				}
				s += aik * x.At(k, j)
			}
			verifAssertEqF(s, bd[i*nrhs+j], msg+": op(A)*X == B")
		}
	}
}

// VerifC06_LURankOne: one rank-one update step from an arbitrary valid
// factorization: the updated object represents A + alpha*x*yᵀ. Receiver
// states: 0 the receiver is orig (in place), 1 a zero-value receiver, 2 a
// REUSED receiver that already holds another valid factorization of the same
// size with its own (case-split) pivot sequence. orig is not modified when the
// receiver is another object. The update formula divides by the old pivots
// (assumed non-zero: valid factor) and by theta_j (zero iff an updated leading
// block is singular): paths with theta_j == 0 are pruned (verifDivZeroPrune).
func VerifC06_LURankOne() {
	verifDivZeroPrune(true)
	n := verifChoose("n", 1, verifParam("c06rn", 2))
	recv := verifChoose("recv", 0, 2)
	verifC06stubCond()
	st := verifC06mkLU("f", n, 1)
	xd := verifFloats("x", n)
	yd := verifFloats("y", n)
	alpha := verifFloat("alpha")
	x := NewVecDense(n, append([]float64(nil), xd...))
	y := NewVecDense(n, append([]float64(nil), yd...))
	var dst *LU
	switch recv {
	case 0:
		dst = st.lu
	case 1:
		dst = &LU{}
	case 2:
		dst = verifC06mkLU("g", n, 1).lu
	}
	dst.RankOne(st.lu, alpha, x, y)
	nf := dst.lu.mat
	_, na := verifC06reconstruct(nf.Data, nf.Stride, dst.swaps, n)
	for i := 0; i < n; i++ {
		for j := 0; j < n; j++ {
			want := st.a[i*n+j] + alpha*xd[i]*yd[j]
			verifAssertEqF(na[i*n+j], want, "LU.RankOne: updated factors reconstruct A + alpha*x*yᵀ")
		}
	}
	// the pivot permutation used by At/RowPivots is the one derived from the
	// swaps (then At agrees with the reconstruction: VerifC06_LUExtract)
	wantPiv := make([]int, n)
	for i := range wantPiv {
		wantPiv[i] = i
	}
	for i := n - 1; i >= 0; i-- {
		v := dst.swaps[i]
		wantPiv[i], wantPiv[v] = wantPiv[v], wantPiv[i]
	}
	got := dst.RowPivots(nil)
	for i := range wantPiv {
		verifAssert(got[i] == wantPiv[i], "LU.RankOne: RowPivots consistent with the row swaps")
	}
	for i := 0; i < n; i++ {
		verifAssert(verifSame(x.AtVec(i), xd[i]) && verifSame(y.AtVec(i), yd[i]), "LU.RankOne: x, y unchanged")
	}
	if recv != 0 {
		for i := range st.f {
			verifAssert(verifSame(st.lu.lu.mat.Data[i], st.f[i]), "LU.RankOne: orig unchanged")
		}
	}
	verifReach("end")
}

// VerifC06_LURankOneThenSolve: the factorization produced by RankOne into a
// fresh receiver is usable: for nonsingular A + alpha*x*yᵀ (all updated pivots
// non-zero) and a condition estimate within tolerance, SolveTo returns nil and
// the solution. (OPEN VIOLATION on the unchanged tree, see notes/C06.md.)
func VerifC06_LURankOneThenSolve() {
	n := verifChoose("n", 1, verifParam("c06n", 2))
	verifC06stubCond()
	st := verifC06mkLU("f", n, 1)
	xd := verifFloats("x", n)
	yd := verifFloats("y", n)
	alpha := verifFloat("alpha")
	bd := verifFloats("b", n)
	upd := make([]float64, n*n)
	for i := 0; i < n; i++ {
		for j := 0; j < n; j++ {
			upd[i*n+j] = st.a[i*n+j] + alpha*xd[i]*yd[j]
		}
	}
	verifAssume(verifC06det(upd, n) != 0)
	var dst LU
	dst.RankOne(st.lu, alpha, NewVecDense(n, xd), NewVecDense(n, yd))
	var xs Dense
	err := dst.SolveTo(&xs, false, NewDense(n, 1, append([]float64(nil), bd...)))
	verifAssert(err == nil, "LU.RankOne then SolveTo: a nonsingular, well-conditioned updated matrix must not be reported singular")
	if err == nil {
		verifC06checkSolve(upd, n, &xs, bd, 1, false, "LU.RankOne then SolveTo")
	}
	verifReach("end")
}

// VerifC06_LUFactorize: the real Factorize (Dlange, Dgetrf, updatePivots; only
// the condition estimate is stubbed) on a symbolic matrix: the factors
// reconstruct A, Det's sign and zero-ness agree with the Leibniz determinant,
// SolveTo solves; exactly singular input is reported by SolveTo as
// Condition(+Inf) and by Det() == 0.
func VerifC06_LUFactorize() {
	n := verifChoose("n", 1, verifParam("c06fn", 2))
	verifC06stubCond()
	ad := verifFloats("a", n*n)
	a := NewDense(n, n, append([]float64(nil), ad...))
	var lu LU
	lu.Factorize(a)
	for i := range ad {
		verifAssert(verifSame(a.mat.Data[i], ad[i]), "LU.Factorize: a unchanged")
	}
	nf := lu.lu.mat
	_, ra := verifC06reconstruct(nf.Data, nf.Stride, lu.swaps, n)
	for i := 0; i < n; i++ {
		for j := 0; j < n; j++ {
			verifAssertEqF(ra[i*n+j], ad[i*n+j], "LU.Factorize: P*L*U == A")
			verifAssertEqF(lu.At(i, j), ad[i*n+j], "LU.Factorize: At reproduces A")
		}
	}
	det := verifC06det(ad, n)
	bd := verifFloats("b", n)
	var xs Dense
	err := lu.SolveTo(&xs, false, NewDense(n, 1, append([]float64(nil), bd...)))
	if c, ok := err.(Condition); ok && math.IsInf(float64(c), 1) {
		verifAssert(det == 0, "LU: Condition(+Inf) only for an exactly singular matrix")
		verifAssert(lu.Det() == 0, "LU.Det is 0 for an exactly singular matrix")
	} else {
		verifAssert(det != 0, "LU: an exactly singular matrix is reported as Condition(+Inf)")
		verifAssert(err == nil, "LU.SolveTo: no error for a nonsingular matrix with condition estimate within tolerance")
		verifC06checkSolve(ad, n, &xs, bd, 1, false, "LU.Factorize+SolveTo")
		_, sign := lu.LogDet()
		verifAssert(sign*det > 0, "LogDet: sign is the sign of det(A)")
	}
	verifReach("end")
}
