package mat

import "sync"

// C09, last sentence: independent operations on disjoint data issued from
// several goroutines, sharing mat's internal workspace pools, give the same
// results as when run one at a time, without data races. Two goroutines each
// run one pool-using operation (case split over the pair) on their own
// symbolic 2x2 data under the scheduler with preemption at every pool Get/Put;
// sync.Pool is modelled precisely (Put keeps the object, Get returns the most
// recently Put one with arbitrary contents), so an operation that keeps using
// a workspace after returning it to the pool, or relies on its contents, shows
// up as a data race or a wrong value.

const verifC09nOps = 14

// verifC09op runs operation id on the data (a: 2x2, b: 2x2, v: 2) and returns
// the result as a flat slice.
func verifC09op(id int, ad, bd, vd []float64) []float64 {
	a := NewDense(2, 2, append([]float64(nil), ad...))
	b := NewDense(2, 2, append([]float64(nil), bd...))
	v := NewVecDense(2, append([]float64(nil), vd...))
	switch id {
	case 0: // aliased product: needs a workspace copy
		a.Mul(a, b)
		return a.RawMatrix().Data
	case 1: // aliased product on the other side
		b.Mul(a, b)
		return b.RawMatrix().Data
	case 2: // aliased matrix-vector product
		v.MulVec(a, v)
		return v.RawVector().Data
	case 3:
		var c Dense
		c.Product(a, b, a)
		return c.RawMatrix().Data
	case 4:
		var c Dense
		c.Pow(a, 3)
		return c.RawMatrix().Data
	case 5:
		var s SymDense
		s.SymOuterK(1, a)
		return s.RawSymmetric().Data
	case 6: // aliased element-wise with transposed operand
		a.Add(a.T(), b)
		return a.RawMatrix().Data
	case 7:
		var c Dense
		c.Kronecker(a, b)
		return c.RawMatrix().Data
	case 8: // aliased triangular product
		t := NewTriDense(2, Upper, append([]float64(nil), ad...))
		u := NewTriDense(2, Upper, append([]float64(nil), bd...))
		t.MulTri(t, u)
		return t.RawTriangular().Data
	case 9: // in-place subset: SymDense.isolatedWorkspace and its restore callback
		s := NewSymDense(2, append([]float64(nil), ad...))
		s.SubsetSym(s, []int{1, 0})
		return s.RawSymmetric().Data
	case 10: // self outer product: symmetric workspace
		s := NewSymDense(2, append([]float64(nil), ad...))
		s.SymOuterK(1, s)
		return s.RawSymmetric().Data
	case 11: // aliased band matrix-vector product: vector workspace
		bm := NewBandDense(2, 2, 1, 1, append(append([]float64(nil), ad...), bd[0], bd[1]))
		bm.MulVecTo(v, false, v)
		return v.RawVector().Data
	case 12: // aliased symmetric band product
		sb := NewSymBandDense(2, 1, append([]float64(nil), bd...))
		sb.MulVecTo(v, false, v)
		return v.RawVector().Data
	case 13: // aliased tridiagonal product
		td := NewTridiag(2, []float64{ad[0]}, []float64{ad[1], ad[2]}, []float64{ad[3]})
		td.MulVecTo(v, false, v)
		return v.RawVector().Data
	}
	panic("verifC09op: id")
}

func VerifC09_PoolSharing() {
	i := verifChoose("op1", verifParam("c09oplo", 0), verifParam("c09ophi", verifC09nOps-1))
	j := verifChoose("op2", i, verifC09nOps-1)
	a1, b1, v1 := verifFloats("a1", 4), verifFloats("b1", 4), verifFloats("v1", 2)
	a2, b2, v2 := verifFloats("a2", 4), verifFloats("b2", 4), verifFloats("v2", 2)
	// positive data: the BLAS kernels skip zero multipliers (`if tmp != 0`),
	// which would fork on every product; with positive entries every
	// intermediate value of these operations is positive
	for _, d := range [][]float64{a1, b1, v1, a2, b2, v2} {
		for _, x := range d {
			verifAssume(x > 0)
		}
	}
	want1 := append([]float64(nil), verifC09op(i, a1, b1, v1)...)
	want2 := append([]float64(nil), verifC09op(j, a2, b2, v2)...)

	verifSched(verifParam("c09psched", 1))
	verifSchedPreempt(true)
	var wg sync.WaitGroup
	var got1, got2 []float64
	rounds := 1
	if !verifInEngine() {
		rounds = 400 // native replay: give the real pools a chance to be shared
	}
	for r := 0; r < rounds; r++ {
		wg.Add(2)
		go func() {
			defer wg.Done()
			got1 = verifC09op(i, a1, b1, v1)
		}()
		go func() {
			defer wg.Done()
			got2 = verifC09op(j, a2, b2, v2)
		}()
		wg.Wait()
	}
	verifAssert(verifSchedDrain() == 0, "no goroutine left behind")
	verifAssert(len(got1) >= len(want1) && len(got2) >= len(want2), "result shapes")
	for k := range want1 {
		verifAssertEqF(got1[k], want1[k], "operation 1 run concurrently equals the operation run alone")
	}
	for k := range want2 {
		verifAssertEqF(got2[k], want2[k], "operation 2 run concurrently equals the operation run alone")
	}
	verifReach("end")
}
