package mat

import (
	"io"
	"math"

	"gonum.org/v1/gonum/blas/blas64"
)

// ---- helpers (C16) ----

// verifC16u64 reads a little-endian uint64 straight from the wire bytes
// (independent of encoding/binary).
func verifC16u64(b []byte, off int) uint64 {
	var v uint64
	for i := 7; i >= 0; i-- {
		v = v<<8 | uint64(b[off+i])
	}
	return v
}

// verifC16headerOK states the documented header: version 1, 'G','F','A', 0,
// and zero KU/KL.
func verifC16headerOK(b []byte) bool {
	ok := verifAnd(b[0] == 1, verifAnd(b[1] == 0, verifAnd(b[2] == 0, b[3] == 0)))
	ok = verifAnd(ok, verifAnd(b[4] == 'G', verifAnd(b[5] == 'F', verifAnd(b[6] == 'A', b[7] == 0))))
	ok = verifAnd(ok, verifAnd(verifC16u64(b, 24) == 0, verifC16u64(b, 32) == 0))
	return ok
}

// verifC16reader serves a byte slice in chunks of at most chunk bytes.
type verifC16reader struct {
	buf   []byte
	pos   int
	chunk int
}

func (r *verifC16reader) Read(p []byte) (int, error) {
	if r.pos >= len(r.buf) {
		return 0, io.EOF
	}
	n := len(p)
	if n > r.chunk {
		n = r.chunk
	}
	if n > len(r.buf)-r.pos {
		n = len(r.buf) - r.pos
	}
	copy(p[:n], r.buf[r.pos:r.pos+n])
	r.pos += n
	return n, nil
}

// verifC16writer appends to a byte slice.
type verifC16writer struct {
	buf []byte
}

func (w *verifC16writer) Write(p []byte) (int, error) {
	w.buf = append(w.buf, p...)
	return len(p), nil
}

// verifC16chunk picks the reader chunk size.
func verifC16chunk() int {
	return []int{1, 3, 64}[verifChoose("chunk", 0, 2)]
}

// verifC16denseDecoded states the internal consistency of a successfully
// decoded Dense against the wire bytes.
func verifC16denseDecoded(m *Dense, data []byte, consumed int) {
	r, c, s, n := m.mat.Rows, m.mat.Cols, m.mat.Stride, len(m.mat.Data)
	verifAssert(verifAnd(r > 0, c > 0), "decoded Dense has positive dimensions")
	verifAssert(s == c, "decoded Dense has Stride == Cols")
	verifAssert(verifAnd(r <= n, c <= n), "decoded Dense: Rows, Cols <= len(Data) (no wrapped product)")
	verifAssert(r*c == n, "decoded Dense: Rows*Cols == len(Data)")
	verifAssert(verifAnd(m.capRows == r, m.capCols == c), "decoded Dense: cap dims equal dims")
	verifAssert(n*8+headerSize == consumed, "decoded Dense consumed exactly header + 8*len(Data) bytes")
	verifAssert(verifC16headerOK(data), "accepted header is the documented one")
	verifAssert(verifAnd(verifC16u64(data, 8) == uint64(r), verifC16u64(data, 16) == uint64(c)), "decoded dims are the header dims")
	for i := 0; i < n; i++ {
		verifAssert(verifSame(m.mat.Data[i], math.Float64frombits(verifC16u64(data, headerSize+8*i))), "decoded element is the wire element")
	}
}

func verifC16vecDecoded(v *VecDense, data []byte, consumed int) {
	n, inc, l := v.mat.N, v.mat.Inc, len(v.mat.Data)
	verifAssert(n > 0, "decoded VecDense has positive length")
	verifAssert(inc == 1, "decoded VecDense has Inc == 1")
	verifAssert(n == l, "decoded VecDense: N == len(Data)")
	verifAssert(l*8+headerSize == consumed, "decoded VecDense consumed exactly header + 8*len(Data) bytes")
	verifAssert(verifC16headerOK(data), "accepted header is the documented one")
	verifAssert(verifAnd(verifC16u64(data, 8) == uint64(n), verifC16u64(data, 16) == 1), "decoded length is the header length, header cols is 1")
	for i := 0; i < l; i++ {
		verifAssert(verifSame(v.mat.Data[i], math.Float64frombits(verifC16u64(data, headerSize+8*i))), "decoded element is the wire element")
	}
}

// verifC16mulLemma hands the solver arithmetic facts that are valid for all
// values (so assuming them prunes nothing): for r >= 1, c >= 1 and r <= M/c
// the product r*c does not wrap, hence r*c <= M, r <= r*c and c <= r*c (stated
// on the wrapped product, which then equals the true one). Given for M = 2^60-1
// (= maxLen/8, the form the decoders use) and M = 2^63-1. It spares z3 a 64-bit
// divider/multiplier proof; if the decoder does not establish r <= M/c on a
// path, the facts are vacuous there.
func verifC16mulLemma(r, c int64) {
	if r < 1 || c < 1 {
		return
	}
	p := r * c
	for _, M := range []int64{1<<60 - 1, 1<<63 - 1} {
		verifAssume(verifImplies(r <= M/c, verifAnd(verifAnd(0 < p, p <= M), verifAnd(r <= p, c <= p))))
	}
}

// verifC16denseSlice: Dense.UnmarshalBinary on arbitrary bytes (fully symbolic
// 40 byte header, payload up to maxel elements plus one stray byte): never a
// fault or panic; on a nil error the matrix is internally consistent and the
// header was the documented one. With nowrap the header dimensions are assumed
// to be < 2^30 (as signed numbers), which excludes int64 wrap of rows*cols.
func verifC16denseSlice(nowrap bool) {
	maxEl := verifParam("c16maxel", 4)
	lo := verifParam("c16lenlo", 0)
	L := verifChoose("len", lo, headerSize+8*maxEl+1)
	data := verifBytes("d", L)
	if L >= headerSize {
		verifC16mulLemma(int64(verifC16u64(data, 8)), int64(verifC16u64(data, 16)))
	}
	if nowrap && L >= headerSize {
		hr, hc := verifC16u64(data, 8), verifC16u64(data, 16)
		verifAssume(verifAnd(int64(hr) < 1<<30, int64(hc) < 1<<30))
		// redundant (implied by the line above; stated to spare the solver a
		// 64-bit multiplier proof): non-negative dims below 2^30 have a product below 2^60
		verifAssume(verifOr(verifOr(int64(hr) < 0, int64(hc) < 0), hr*hc < 1<<60))
	}
	var m Dense
	var err error
	panicked, fault, _ := verifCatch(func() { err = m.UnmarshalBinary(data) })
	verifAssert(!fault, "Dense.UnmarshalBinary: no runtime fault")
	verifAssert(!panicked, "Dense.UnmarshalBinary: no panic on an empty receiver")
	if panicked {
		return
	}
	if err != nil {
		verifAssert(m.IsEmpty(), "Dense.UnmarshalBinary: receiver still empty on error")
		verifReach("error")
		return
	}
	verifReach("decoded")
	verifC16denseDecoded(&m, data, L)
	verifReach("end")
}

// VerifC16_DenseUnmarshalTotal: unconditional form (every header).
func VerifC16_DenseUnmarshalTotal() { verifC16denseSlice(false) }

// VerifC16_DenseUnmarshalNoWrap: header dimensions < 2^30.
func VerifC16_DenseUnmarshalNoWrap() { verifC16denseSlice(true) }

func verifC16vecSlice(nowrap bool) {
	maxEl := verifParam("c16maxel", 4)
	lo := verifParam("c16lenlo", 0)
	L := verifChoose("len", lo, headerSize+8*maxEl+1)
	data := verifBytes("d", L)
	if nowrap && L >= headerSize {
		verifAssume(int64(verifC16u64(data, 8)) < 1<<60)
	}
	var v VecDense
	var err error
	panicked, fault, _ := verifCatch(func() { err = v.UnmarshalBinary(data) })
	verifAssert(!fault, "VecDense.UnmarshalBinary: no runtime fault")
	verifAssert(!panicked, "VecDense.UnmarshalBinary: no panic on an empty receiver")
	if panicked {
		return
	}
	if err != nil {
		verifAssert(v.IsEmpty(), "VecDense.UnmarshalBinary: receiver still empty on error")
		verifReach("error")
		return
	}
	verifReach("decoded")
	verifC16vecDecoded(&v, data, L)
	verifReach("end")
}

// VerifC16_VecUnmarshalTotal: unconditional form (every header).
func VerifC16_VecUnmarshalTotal() { verifC16vecSlice(false) }

// VerifC16_VecUnmarshalNoWrap: header length < 2^60 (8*n cannot wrap).
func VerifC16_VecUnmarshalNoWrap() { verifC16vecSlice(true) }

// verifC16denseStream: Dense.UnmarshalBinaryFrom reading arbitrary bytes from a
// reader that serves them in chunks. Assumption (allocation not modelled, and
// documented as unbounded): the wrapped product of the header dimensions, which
// is what the decoder allocates, is at most maxel+1.
func verifC16denseStream(nowrap bool) {
	maxEl := verifParam("c16maxel", 4)
	lo := verifParam("c16lenlo", 0)
	L := verifChoose("len", lo, headerSize+8*maxEl+1)
	data := verifBytes("d", L)
	if L >= headerSize {
		hr, hc := verifC16u64(data, 8), verifC16u64(data, 16)
		verifC16mulLemma(int64(hr), int64(hc))
		verifAssume(hr*hc <= uint64(maxEl+1))
		if nowrap {
			verifAssume(verifAnd(int64(hr) < 1<<30, int64(hc) < 1<<30))
		}
	}
	rd := &verifC16reader{buf: data, chunk: verifC16chunk()}
	var m Dense
	var err error
	var n int
	panicked, fault, _ := verifCatch(func() { n, err = m.UnmarshalBinaryFrom(rd) })
	verifAssert(!fault, "Dense.UnmarshalBinaryFrom: no runtime fault")
	verifAssert(!panicked, "Dense.UnmarshalBinaryFrom: no panic on an empty receiver")
	if panicked {
		return
	}
	verifAssert(n == rd.pos, "Dense.UnmarshalBinaryFrom reports the number of bytes taken from the reader")
	if err != nil {
		verifReach("error")
		return
	}
	verifReach("decoded")
	verifC16denseDecoded(&m, data, n)
	verifReach("end")
}

func VerifC16_DenseUnmarshalFromTotal()  { verifC16denseStream(false) }
func VerifC16_DenseUnmarshalFromNoWrap() { verifC16denseStream(true) }

// VerifC16_VecUnmarshalFromTotal: VecDense.UnmarshalBinaryFrom on arbitrary
// bytes; assumption: header length field <= maxel+1 (allocation).
func VerifC16_VecUnmarshalFromTotal() {
	maxEl := verifParam("c16maxel", 4)
	lo := verifParam("c16lenlo", 0)
	L := verifChoose("len", lo, headerSize+8*maxEl+1)
	data := verifBytes("d", L)
	if L >= headerSize {
		verifAssume(int64(verifC16u64(data, 8)) <= int64(maxEl+1))
	}
	rd := &verifC16reader{buf: data, chunk: verifC16chunk()}
	var v VecDense
	var err error
	var n int
	panicked, fault, _ := verifCatch(func() { n, err = v.UnmarshalBinaryFrom(rd) })
	verifAssert(!fault, "VecDense.UnmarshalBinaryFrom: no runtime fault")
	verifAssert(!panicked, "VecDense.UnmarshalBinaryFrom: no panic on an empty receiver")
	if panicked {
		return
	}
	verifAssert(n == rd.pos, "VecDense.UnmarshalBinaryFrom reports the number of bytes taken from the reader")
	if err != nil {
		verifReach("error")
		return
	}
	verifReach("decoded")
	verifC16vecDecoded(&v, data, n)
	verifReach("end")
}

// verifC16wire states the documented layout of the encoding buf of an r x c
// matrix with elements at(i,j).
func verifC16wire(buf []byte, r, c int, at func(i, j int) float64) {
	verifAssert(len(buf) == headerSize+8*r*c, "encoding has header + 8*r*c bytes")
	if len(buf) != headerSize+8*r*c {
		return
	}
	verifAssert(verifC16headerOK(buf), "encoding starts with the documented header")
	verifAssert(verifAnd(verifC16u64(buf, 8) == uint64(r), verifC16u64(buf, 16) == uint64(c)), "header carries the dimensions")
	for i := 0; i < r; i++ {
		for j := 0; j < c; j++ {
			verifAssert(verifC16u64(buf, headerSize+8*(i*c+j)) == math.Float64bits(at(i, j)), "element (i,j) is stored little-endian at 40+8*(i*c+j)")
		}
	}
}

func verifC16sameBytes(a, b []byte) bool {
	if len(a) != len(b) {
		return false
	}
	same := true
	for i := range a {
		same = verifAnd(same, a[i] == b[i])
	}
	return same
}

// VerifC16_DenseRoundTrip: for every r x c Dense (1 <= r,c <= maxdim, stride c
// or c+1, elements arbitrary bit patterns incl. NaN payloads and -0):
// MarshalBinary has the documented layout, MarshalBinaryTo writes the same
// bytes and reports their number, and UnmarshalBinary / UnmarshalBinaryFrom
// give back an r x c matrix with bit-identical elements.
func VerifC16_DenseRoundTrip() {
	maxDim := verifParam("c16maxdim", 2)
	r := verifChoose("r", 1, maxDim)
	c := verifChoose("c", 1, maxDim)
	stride := c + verifChoose("gap", 0, 1)
	back := verifFloats("a", (r-1)*stride+c)
	m := Dense{mat: blas64.General{Rows: r, Cols: c, Stride: stride, Data: back}, capRows: r, capCols: c}
	at := func(i, j int) float64 { return back[i*stride+j] }

	buf, err := m.MarshalBinary()
	verifAssert(err == nil, "MarshalBinary succeeds")
	verifC16wire(buf, r, c, at)

	w := &verifC16writer{}
	nw, err := m.MarshalBinaryTo(w)
	verifAssert(err == nil, "MarshalBinaryTo succeeds")
	verifAssert(nw == len(w.buf), "MarshalBinaryTo reports the bytes written")
	verifAssert(verifC16sameBytes(buf, w.buf), "MarshalBinaryTo writes the MarshalBinary bytes")

	var m2 Dense
	err = m2.UnmarshalBinary(buf)
	verifAssert(err == nil, "UnmarshalBinary(MarshalBinary(m)) succeeds")
	if err == nil {
		verifAssert(verifAnd(m2.mat.Rows == r, verifAnd(m2.mat.Cols == c, m2.mat.Stride == c)), "round trip keeps the shape")
		if m2.mat.Rows == r && m2.mat.Cols == c {
			for i := 0; i < r; i++ {
				for j := 0; j < c; j++ {
					verifAssert(verifSame(m2.at(i, j), at(i, j)), "round trip keeps every element bit for bit")
				}
			}
		}
	}

	rd := &verifC16reader{buf: w.buf, chunk: verifC16chunk()}
	var m3 Dense
	nr, err := m3.UnmarshalBinaryFrom(rd)
	verifAssert(err == nil, "UnmarshalBinaryFrom(MarshalBinaryTo(m)) succeeds")
	verifAssert(nr == nw, "UnmarshalBinaryFrom consumes what MarshalBinaryTo wrote")
	if err == nil {
		verifAssert(verifAnd(m3.mat.Rows == r, verifAnd(m3.mat.Cols == c, m3.mat.Stride == c)), "stream round trip keeps the shape")
		if m3.mat.Rows == r && m3.mat.Cols == c {
			for i := 0; i < r; i++ {
				for j := 0; j < c; j++ {
					verifAssert(verifSame(m3.at(i, j), at(i, j)), "stream round trip keeps every element bit for bit")
				}
			}
		}
	}
	verifReach("end")
}

// VerifC16_VecRoundTrip: same for VecDense of length 1..maxlen with increment
// 1 or 2.
func VerifC16_VecRoundTrip() {
	maxN := verifParam("c16maxvec", 4)
	n := verifChoose("n", 1, maxN)
	inc := verifChoose("inc", 1, 2)
	back := verifFloats("a", (n-1)*inc+1)
	v := VecDense{mat: blas64.Vector{N: n, Inc: inc, Data: back}}
	at := func(i, j int) float64 { return back[i*inc] }

	buf, err := v.MarshalBinary()
	verifAssert(err == nil, "MarshalBinary succeeds")
	verifC16wire(buf, n, 1, at)

	w := &verifC16writer{}
	nw, err := v.MarshalBinaryTo(w)
	verifAssert(err == nil, "MarshalBinaryTo succeeds")
	verifAssert(nw == len(w.buf), "MarshalBinaryTo reports the bytes written")
	verifAssert(verifC16sameBytes(buf, w.buf), "MarshalBinaryTo writes the MarshalBinary bytes")

	var v2 VecDense
	err = v2.UnmarshalBinary(buf)
	verifAssert(err == nil, "UnmarshalBinary(MarshalBinary(v)) succeeds")
	if err == nil {
		verifAssert(verifAnd(v2.mat.N == n, v2.mat.Inc == 1), "round trip keeps the length")
		if v2.mat.N == n {
			for i := 0; i < n; i++ {
				verifAssert(verifSame(v2.at(i), at(i, 0)), "round trip keeps every element bit for bit")
			}
		}
	}

	rd := &verifC16reader{buf: w.buf, chunk: verifC16chunk()}
	var v3 VecDense
	nr, err := v3.UnmarshalBinaryFrom(rd)
	verifAssert(err == nil, "UnmarshalBinaryFrom(MarshalBinaryTo(v)) succeeds")
	verifAssert(nr == nw, "UnmarshalBinaryFrom consumes what MarshalBinaryTo wrote")
	if err == nil {
		verifAssert(verifAnd(v3.mat.N == n, v3.mat.Inc == 1), "stream round trip keeps the length")
		if v3.mat.N == n {
			for i := 0; i < n; i++ {
				verifAssert(verifSame(v3.at(i), at(i, 0)), "stream round trip keeps every element bit for bit")
			}
		}
	}
	verifReach("end")
}

// VerifC16_EmptyMarshal: the empty Dense / VecDense encode without fault, and
// the decoder rejects that encoding with an error leaving the receiver empty.
func VerifC16_EmptyMarshal() {
	var m Dense
	buf, err := m.MarshalBinary()
	verifAssert(err == nil, "MarshalBinary of the empty Dense succeeds")
	var m2 Dense
	err = m2.UnmarshalBinary(buf)
	verifAssert(verifOr(err != nil, m2.IsEmpty()) && m2.IsEmpty(), "decoding the empty encoding gives an error and an empty Dense")
	var v VecDense
	buf, err = v.MarshalBinary()
	verifAssert(err == nil, "MarshalBinary of the empty VecDense succeeds")
	var v2 VecDense
	err = v2.UnmarshalBinary(buf)
	verifAssert(err != nil && v2.IsEmpty(), "decoding the empty vector encoding gives an error and an empty VecDense")
	verifReach("end")
}
