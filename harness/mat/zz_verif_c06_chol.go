package mat

import "math"

// verifC06cholState is a Cholesky object holding an ARBITRARY valid factor: a
// symbolic upper-triangular U with positive diagonal; a = UᵀU.
type verifC06cholState struct {
	c *Cholesky
	n int
	u []float64 // row-major n×n, zeros below the diagonal
	a []float64 // UᵀU
}

func verifC06utu(u []float64, n int) []float64 {
	a := make([]float64, n*n)
	for i := 0; i < n; i++ {
		for j := 0; j < n; j++ {
			var s float64
			for k := 0; k <= i && k <= j; k++ {
				s += u[k*n+i] * u[k*n+j]
			}
			a[i*n+j] = s
		}
	}
	return a
}

func verifC06mkChol(name string, n int, cond float64) *verifC06cholState {
	st := &verifC06cholState{n: n}
	raw := verifFloats(name, n*n)
	st.u = make([]float64, n*n)
	for i := 0; i < n; i++ {
		verifAssume(raw[i*n+i] > 0)
		for j := i; j < n; j++ {
			st.u[i*n+j] = raw[i*n+j]
		}
	}
	// the storage below the diagonal holds arbitrary values: never read
	st.c = &Cholesky{chol: NewTriDense(n, Upper, append([]float64(nil), raw...)), cond: cond}
	st.a = verifC06utu(st.u, n)
	return st
}

// verifC06cholFactor reads the factor held by c as a row-major upper matrix.
func verifC06cholFactor(c *Cholesky, n int) []float64 {
	u := make([]float64, n*n)
	for i := 0; i < n; i++ {
		for j := i; j < n; j++ {
			u[i*n+j] = c.chol.At(i, j)
		}
	}
	return u
}

// VerifC06_CholExtract: At, UTo, LTo, ToSym, RawU, Clone of an arbitrary valid
// factor all describe A = UᵀU.
func VerifC06_CholExtract() {
	n := verifChoose("n", 1, verifParam("c06n", 3))
	cond := verifFloat("cond")
	st := verifC06mkChol("u", n, cond)
	c := st.c
	verifAssert(c.SymmetricDim() == n, "Cholesky.SymmetricDim")
	for i := 0; i < n; i++ {
		for j := 0; j < n; j++ {
			verifAssertEqF(c.At(i, j), st.a[i*n+j], "Cholesky.At is the element of UᵀU")
		}
	}
	for dstState := 0; dstState <= 1; dstState++ {
		var u, l *TriDense
		var s *SymDense
		if dstState == 0 {
			u, l, s = &TriDense{}, &TriDense{}, &SymDense{}
		} else {
			u = NewTriDense(n, Upper, verifFloats("uold", n*n))
			l = NewTriDense(n, Lower, verifFloats("lold", n*n))
			s = NewSymDense(n, verifFloats("sold", n*n))
		}
		c.UTo(u)
		c.LTo(l)
		c.ToSym(s)
		for i := 0; i < n; i++ {
			for j := 0; j < n; j++ {
				verifAssertEqF(u.At(i, j), st.u[i*n+j], "UTo is the factor")
				verifAssertEqF(l.At(i, j), st.u[j*n+i], "LTo is the transposed factor")
				verifAssertEqF(s.At(i, j), st.a[i*n+j], "ToSym is UᵀU")
			}
		}
	}
	ru := c.RawU()
	for i := 0; i < n; i++ {
		for j := 0; j < n; j++ {
			verifAssertEqF(ru.At(i, j), st.u[i*n+j], "RawU is the factor")
		}
	}
	for dstState := 0; dstState <= 1; dstState++ {
		var cl Cholesky
		if dstState == 1 {
			m := verifChoose("cloneold", 1, n+1)
			cl.chol = NewTriDense(m, Upper, verifFloats("clold", m*m))
		}
		cl.Clone(c)
		verifAssert(cl.SymmetricDim() == n, "Clone: size")
		for i := 0; i < n; i++ {
			for j := 0; j < n; j++ {
				verifAssertEqF(cl.At(i, j), st.a[i*n+j], "Clone represents the same matrix")
			}
		}
		verifAssert(verifSame(cl.Cond(), cond), "Clone copies the condition number")
		verifAssert(cl.chol != c.chol, "Clone does not share the factor")
	}
	for i := 0; i < n; i++ {
		for j := i; j < n; j++ {
			verifAssert(verifSame(c.chol.At(i, j), st.u[i*n+j]), "extraction leaves the factorization unchanged")
		}
	}
	verifReach("end")
}

// VerifC06_CholSolve: SolveTo, SolveVecTo, SolveCholTo with an arbitrary valid
// factor solve A*X = B.
func VerifC06_CholSolve() {
	n := verifChoose("n", 1, verifParam("c06n", 3))
	nrhs := verifChoose("nrhs", 1, verifParam("c06nrhs", 2))
	cond := verifFloat("cond")
	verifAssume(cond >= 1)
	st := verifC06mkChol("u", n, cond)
	c := st.c
	bd := verifFloats("b", n*nrhs)
	for dstState := 0; dstState <= 2; dstState++ {
		b := NewDense(n, nrhs, append([]float64(nil), bd...))
		var dst *Dense
		switch dstState {
		case 0:
			dst = &Dense{}
		case 1:
			dst = NewDense(n, nrhs, verifFloats(verifC04nm("xold", dstState, 0), n*nrhs))
		case 2:
			dst = b
		}
		err := c.SolveTo(dst, b)
		verifAssert((err == nil) == (cond <= ConditionTolerance), "Cholesky.SolveTo: error iff the condition number exceeds the tolerance")
		verifC06checkSolve(st.a, n, dst, bd, nrhs, false, "Cholesky.SolveTo")
		if dstState != 2 {
			for i := range bd {
				verifAssert(verifSame(b.mat.Data[i], bd[i]), "Cholesky.SolveTo: b unchanged")
			}
		}
	}
	for dstState := 0; dstState <= 2; dstState++ {
		bv := NewVecDense(n, append([]float64(nil), bd[:n]...))
		var dst *VecDense
		switch dstState {
		case 0:
			dst = &VecDense{}
		case 1:
			dst = NewVecDense(n, verifFloats(verifC04nm("vold", dstState, 0), n))
		case 2:
			dst = bv
		}
		err := c.SolveVecTo(dst, bv)
		verifAssert((err == nil) == (cond <= ConditionTolerance), "Cholesky.SolveVecTo: error iff the condition number exceeds the tolerance")
		verifAssert(dst.Len() == n, "Cholesky.SolveVecTo: result length")
		for i := 0; i < n; i++ {
			var s float64
			for k := 0; k < n; k++ {
				s += st.a[i*n+k] * dst.AtVec(k)
			}
			verifAssertEqF(s, bd[i], "Cholesky.SolveVecTo: A*x == b")
		}
	}
	verifReach("end")
}

// VerifC06_CholSolveChol: a.SolveCholTo(dst, b) solves A*X = B for B given by
// its own factor.
func VerifC06_CholSolveChol() {
	n := verifChoose("n", 1, verifParam("c06scn", 2))
	sa := verifC06mkChol("u", n, 1)
	sb := verifC06mkChol("w", n, 1)
	var dst Dense
	err := sa.c.SolveCholTo(&dst, sb.c)
	verifAssert(err == nil, "SolveCholTo: no error within tolerance")
	verifC06checkSolve(sa.a, n, &dst, sb.a, n, false, "Cholesky.SolveCholTo")
	verifReach("end")
}

// VerifC06_CholInverse: InverseTo gives the symmetric inverse: A*Ainv == I.
func VerifC06_CholInverse() {
	n := verifChoose("n", 1, verifParam("c06invn", 2))
	st := verifC06mkChol("u", n, 1)
	for dstState := 0; dstState <= 1; dstState++ {
		dst := &SymDense{}
		if dstState == 1 {
			dst = NewSymDense(n, verifFloats("old", n*n))
		}
		err := st.c.InverseTo(dst)
		verifAssert(err == nil, "InverseTo: no error within tolerance")
		verifAssert(dst.SymmetricDim() == n, "InverseTo: size")
		for i := 0; i < n; i++ {
			for j := 0; j < n; j++ {
				var s float64
				for k := 0; k < n; k++ {
					s += st.a[i*n+k] * dst.At(k, j)
				}
				want := 0.0
				if i == j {
					want = 1
				}
				verifAssertEqF(s, want, "InverseTo: A*Ainv == I")
			}
		}
	}
	verifReach("end")
}

// VerifC06_CholScale: Scale(f, orig) represents f*A (f > 0), in place and into
// another receiver; orig unchanged in the latter case.
func VerifC06_CholScale() {
	n := verifChoose("n", 1, verifParam("c06n", 3))
	inPlace := verifChoose("inplace", 0, 1) == 1
	cond := verifFloat("cond")
	st := verifC06mkChol("u", n, cond)
	f := verifFloat("f")
	verifAssume(f > 0)
	dst := st.c
	if !inPlace {
		dst = &Cholesky{}
	}
	dst.Scale(f, st.c)
	for i := 0; i < n; i++ {
		for j := 0; j < n; j++ {
			verifAssertEqF(dst.At(i, j), f*st.a[i*n+j], "Cholesky.Scale represents f*A")
		}
		verifAssert(dst.chol.At(i, i) > 0, "Cholesky.Scale keeps a positive diagonal")
	}
	if !inPlace {
		for i := 0; i < n; i++ {
			for j := i; j < n; j++ {
				verifAssert(verifSame(st.c.chol.At(i, j), st.u[i*n+j]), "Cholesky.Scale: orig unchanged")
			}
		}
	}
	verifReach("end")
}

// VerifC06_CholSetFromU: SetFromU(t) represents tᵀt and copies t.
func VerifC06_CholSetFromU() {
	n := verifChoose("n", 1, verifParam("c06n", 3))
	kind := verifChoose("kind", 0, 2)
	verifC06stubCond()
	raw := verifFloats("t", n*n)
	u := make([]float64, n*n)
	for i := 0; i < n; i++ {
		verifAssume(raw[i*n+i] > 0)
		for j := i; j < n; j++ {
			u[i*n+j] = raw[i*n+j]
		}
	}
	var t Triangular
	switch kind {
	case 0:
		t = NewTriDense(n, Upper, raw)
	case 1:
		// TTri of a lower TriDense holding the transposed data
		tr := make([]float64, n*n)
		for i := 0; i < n; i++ {
			for j := 0; j < n; j++ {
				tr[j*n+i] = raw[i*n+j]
			}
		}
		t = NewTriDense(n, Lower, tr).TTri()
	case 2:
		t = &verifC04basicTri{n: n, upper: true, data: raw}
	}
	var c Cholesky
	if verifChoose("recv", 0, 1) == 1 {
		c.chol = NewTriDense(n, Upper, verifFloats("old", n*n))
	}
	c.SetFromU(t)
	a := verifC06utu(u, n)
	for i := 0; i < n; i++ {
		for j := 0; j < n; j++ {
			verifAssertEqF(c.At(i, j), a[i*n+j], "SetFromU represents tᵀt")
		}
	}
	if td, ok := t.(*TriDense); ok {
		verifAssert(c.chol != td, "SetFromU copies t")
		for i := range raw {
			verifAssert(verifSame(td.mat.Data[i], raw[i]), "SetFromU: t unchanged")
		}
	}
	verifReach("end")
}

// VerifC06_CholSymRankOneUpdate: one update step (alpha > 0, and the alpha == 0
// identity) from an arbitrary valid factor: SymRankOne succeeds, the new
// factor is upper triangular with positive diagonal and represents
// A + alpha*x*xᵀ. In place and into another receiver (orig then unchanged).
func VerifC06_CholSymRankOneUpdate() { verifC06cholSymRankOne(0, 1) }

// VerifC06_CholSymRankOneDowndate: the same for alpha < 0 (ok may be false;
// then nothing is claimed about the result, and an in-place receiver is
// unchanged). NOT REGISTERED: at n=1 the solver returns unknown on the
// reconstruction obligation (Dnrm2/Drotg safe-scaling + sqrt), see notes/C06.md.
func VerifC06_CholSymRankOneDowndate() { verifC06cholSymRankOne(-1, -1) }

func verifC06cholSymRankOne(sgnLo, sgnHi int) {
	verifDivZeroPrune(true)
	n := verifChoose("n", 1, verifParam("c06srn", 1))
	inPlace := verifChoose("inplace", 0, 1) == 1
	sgn := verifChoose("sign", sgnLo, sgnHi)
	verifC06stubCond()
	st := verifC06mkChol("u", n, 1)
	xd := verifFloats("x", n)
	alpha := verifFloat("alpha")
	switch sgn {
	case -1:
		verifAssume(alpha < 0)
	case 0:
		alpha = 0
	case 1:
		verifAssume(alpha > 0)
	}
	dst := st.c
	if !inPlace {
		dst = &Cholesky{}
	}
	ok := dst.SymRankOne(st.c, alpha, NewVecDense(n, append([]float64(nil), xd...)))
	if sgn >= 0 {
		verifAssert(ok, "SymRankOne: an update with alpha >= 0 always succeeds")
	}
	if ok {
		nu := verifC06cholFactor(dst, n)
		na := verifC06utu(nu, n)
		for i := 0; i < n; i++ {
			verifAssert(nu[i*n+i] > 0, "SymRankOne: updated factor has a positive diagonal")
			for j := 0; j < n; j++ {
				want := st.a[i*n+j] + alpha*xd[i]*xd[j]
				verifAssertEqF(na[i*n+j], want, "SymRankOne: updated factor represents A + alpha*x*xᵀ")
			}
		}
	} else if inPlace {
		for i := 0; i < n; i++ {
			for j := i; j < n; j++ {
				verifAssert(verifSame(st.c.chol.At(i, j), st.u[i*n+j]), "SymRankOne: a failed downdate leaves the factorization unchanged")
			}
		}
	}
	if !inPlace {
		for i := 0; i < n; i++ {
			for j := i; j < n; j++ {
				verifAssert(verifSame(st.c.chol.At(i, j), st.u[i*n+j]), "SymRankOne: orig unchanged")
			}
		}
	}
	verifReach("end")
}

// VerifC06_CholSymRankOneGenericVector: x is a Vector that is not a
// RawVectorer. (OPEN VIOLATION on the unchanged tree, see notes/C06.md.)
func VerifC06_CholSymRankOneGenericVector() {
	verifDivZeroPrune(true)
	n := verifChoose("n", 1, verifParam("c06srn", 1))
	verifC06stubCond()
	st := verifC06mkChol("u", n, 1)
	xd := verifFloats("x", n)
	alpha := verifFloat("alpha")
	verifAssume(alpha > 0)
	panicked, fault, _ := verifCatch(func() {
		st.c.SymRankOne(st.c, alpha, &verifC04basicVec{n: n, data: xd})
	})
	verifAssert(!fault, "SymRankOne with a non-RawVectorer x: no runtime fault")
	verifAssert(!panicked, "SymRankOne with a non-RawVectorer x: no panic")
	if !panicked {
		na := verifC06utu(verifC06cholFactor(st.c, n), n)
		for i := 0; i < n; i++ {
			for j := 0; j < n; j++ {
				verifAssertEqF(na[i*n+j], st.a[i*n+j]+alpha*xd[i]*xd[j], "SymRankOne: updated factor represents A + alpha*x*xᵀ")
			}
		}
	}
	verifReach("end")
}

// VerifC06_CholExtendVecSym: extending an arbitrary valid n×n factor by a
// vector v gives, when ok, the factor of [[A, v[:n]], [v[:n]ᵀ, v[n]]]; ok is
// false exactly when the extended matrix is not positive definite (Schur
// complement v[n] - wᵀw <= 0).
func VerifC06_CholExtendVecSym() {
	verifDivZeroPrune(true)
	n := verifChoose("n", 1, verifParam("c06en", 2))
	verifC06stubCond()
	st := verifC06mkChol("u", n, 1)
	vd := verifFloats("v", n+1)
	var dst Cholesky
	ok := dst.ExtendVecSym(st.c, NewVecDense(n+1, append([]float64(nil), vd...)))
	m := n + 1
	if ok {
		verifAssert(dst.SymmetricDim() == m, "ExtendVecSym: size n+1")
		nu := verifC06cholFactor(&dst, m)
		na := verifC06utu(nu, m)
		for i := 0; i < m; i++ {
			verifAssert(nu[i*m+i] > 0, "ExtendVecSym: factor has a positive diagonal")
			for j := 0; j < m; j++ {
				var want float64
				switch {
				case i < n && j < n:
					want = st.a[i*n+j]
				case i == n:
					want = vd[j]
				default:
					want = vd[i]
				}
				verifAssertEqF(na[i*m+j], want, "ExtendVecSym: factor represents the extended matrix")
			}
		}
	}
	for i := 0; i < n; i++ {
		for j := i; j < n; j++ {
			verifAssert(verifSame(st.c.chol.At(i, j), st.u[i*n+j]), "ExtendVecSym: a unchanged")
		}
	}
	verifReach("end")
}

// VerifC06_CholFactorize: the real Factorize (Dlansy, Dpotrf; only the
// condition estimate stubbed) on a symbolic symmetric matrix: ok is true
// exactly when all leading principal minors are positive, and then UᵀU == A
// and SolveTo solves.
func VerifC06_CholFactorize() {
	n := verifChoose("n", 1, verifParam("c06cfn", 2))
	verifC06stubCond()
	ad := verifFloats("a", n*n)
	a := NewSymDense(n, append([]float64(nil), ad...))
	full := make([]float64, n*n)
	for i := 0; i < n; i++ {
		for j := 0; j < n; j++ {
			full[i*n+j] = a.At(i, j)
		}
	}
	var c Cholesky
	ok := c.Factorize(a)
	pd := true
	for k := 1; k <= n; k++ {
		sub := make([]float64, k*k)
		for i := 0; i < k; i++ {
			for j := 0; j < k; j++ {
				sub[i*k+j] = full[i*n+j]
			}
		}
		pd = verifAnd(pd, verifC06det(sub, k) > 0)
	}
	verifAssert(ok == pd, "Cholesky.Factorize: ok iff all leading principal minors are positive")
	for i := range ad {
		verifAssert(verifSame(a.mat.Data[i], ad[i]), "Cholesky.Factorize: a unchanged")
	}
	if ok {
		nu := verifC06cholFactor(&c, n)
		na := verifC06utu(nu, n)
		for i := 0; i < n; i++ {
			verifAssert(nu[i*n+i] > 0, "Cholesky.Factorize: positive diagonal")
			for j := 0; j < n; j++ {
				verifAssertEqF(na[i*n+j], full[i*n+j], "Cholesky.Factorize: UᵀU == A")
			}
		}
		bd := verifFloats("b", n)
		var xs Dense
		err := c.SolveTo(&xs, NewDense(n, 1, append([]float64(nil), bd...)))
		verifAssert(err == nil, "Cholesky.SolveTo: no error within tolerance")
		verifC06checkSolve(full, n, &xs, bd, 1, false, "Cholesky.Factorize+SolveTo")
	} else {
		verifAssert(c.IsEmpty(), "Cholesky.Factorize: a failed factorization leaves the receiver empty")
	}
	verifReach("end")
}

// VerifC06_DenseSolveInverse: Dense.Solve (square, LU route), Dense.Inverse and
// Dense.Pow against their definitions; an exactly singular matrix gives
// Condition(+Inf).
func VerifC06_DenseSolveInverse() {
	n := verifChoose("n", 1, verifParam("c06dn", 2))
	op := verifChoose("op", 0, 1)
	verifC06stubCond()
	ad := verifFloats("a", n*n)
	a := NewDense(n, n, append([]float64(nil), ad...))
	det := verifC06det(ad, n)
	switch op {
	case 0:
		nrhs := verifChoose("nrhs", 1, verifParam("c06nrhs", 2))
		bd := verifFloats("b", n*nrhs)
		var x Dense
		err := x.Solve(a, NewDense(n, nrhs, append([]float64(nil), bd...)))
		if cnd, ok := err.(Condition); ok && math.IsInf(float64(cnd), 1) {
			verifAssert(det == 0, "Dense.Solve: Condition(+Inf) only for an exactly singular matrix")
		} else {
			verifAssert(det != 0, "Dense.Solve: an exactly singular matrix is reported as Condition(+Inf)")
			verifAssert(err == nil, "Dense.Solve: no error within tolerance")
			verifC06checkSolve(ad, n, &x, bd, nrhs, false, "Dense.Solve")
		}
	case 1:
		var inv Dense
		err := inv.Inverse(a)
		if cnd, ok := err.(Condition); ok && math.IsInf(float64(cnd), 1) {
			verifAssert(det == 0, "Dense.Inverse: Condition(+Inf) only for an exactly singular matrix")
		} else {
			verifAssert(det != 0, "Dense.Inverse: an exactly singular matrix is reported as Condition(+Inf)")
			verifAssert(err == nil, "Dense.Inverse: no error within tolerance")
			for i := 0; i < n; i++ {
				for j := 0; j < n; j++ {
					var s float64
					for k := 0; k < n; k++ {
						s += ad[i*n+k] * inv.At(k, j)
					}
					want := 0.0
					if i == j {
						want = 1
					}
					verifAssertEqF(s, want, "Dense.Inverse: A*Ainv == I")
				}
			}
		}
	}
	for i := range ad {
		verifAssert(verifSame(a.mat.Data[i], ad[i]), "Solve/Inverse: a unchanged")
	}
	verifReach("end")
}

// VerifC06_DensePow: m.Pow(a, k) equals the k-fold product, k = 0..5, also
// with the receiver being a.
func VerifC06_DensePow() {
	n := verifChoose("n", 1, verifParam("c06pn", 2))
	k := verifChoose("k", 0, verifParam("c06pk", 5))
	self := verifChoose("self", 0, 1) == 1
	ad := verifFloats("a", n*n)
	a := NewDense(n, n, append([]float64(nil), ad...))
	want := make([]float64, n*n)
	for i := 0; i < n; i++ {
		want[i*n+i] = 1
	}
	for p := 0; p < k; p++ {
		next := make([]float64, n*n)
		for i := 0; i < n; i++ {
			for j := 0; j < n; j++ {
				var s float64
				for l := 0; l < n; l++ {
					s += want[i*n+l] * ad[l*n+j]
				}
				next[i*n+j] = s
			}
		}
		want = next
	}
	m := &Dense{}
	if self {
		m = a
	}
	m.Pow(a, k)
	for i := 0; i < n; i++ {
		for j := 0; j < n; j++ {
			verifAssertEqF(m.At(i, j), want[i*n+j], "Dense.Pow equals the k-fold product")
		}
	}
	if !self {
		for i := range ad {
			verifAssert(verifSame(a.mat.Data[i], ad[i]), "Dense.Pow: a unchanged")
		}
	}
	verifReach("end")
}
