package mat

import "math"

// verifC04opaque hides every optional method of a matrix: mat.Norm then takes
// its generic At-based arm.
type verifC04opaque struct{ m Matrix }

func (o verifC04opaque) Dims() (int, int)    { return o.m.Dims() }
func (o verifC04opaque) At(i, j int) float64 { return o.m.At(i, j) }
func (o verifC04opaque) T() Matrix           { return Transpose{o} }

// VerifC04_NormMagnitude: Norm(A, p) depends on the elements of A only - the
// same matrix stored as Dense, SymDense, TriDense, BandDense, SymBandDense,
// TriBandDense, DiagDense, Tridiag, VecDense, transposed, or behind a type
// that offers nothing but Dims/At gives the same value - also when the
// elements are so large or small that their squares over/underflow (exact
// power-of-two factors 2^±500..; the representable answer is s times the norm
// of the unscaled matrix).
func VerifC04_NormMagnitude() {
	n := verifChoose("n", 1, verifParam("nmagn", 3))
	p := []float64{1, 2, math.Inf(1)}[verifChoose("norm", 0, 2)]
	s := []float64{1, math.Ldexp(1, 500), math.Ldexp(1, -500), math.Ldexp(1, 520), math.Ldexp(1, -530)}[verifChoose("scale", 0, 4)]
	kind := verifChoose("kind", 0, 8)
	val := func(i, j int) float64 {
		if j < i {
			i, j = j, i
		}
		return float64(1+2*i+j) * (1 - 2*float64((i+j)%2))
	}
	build := func(f float64) Matrix {
		switch kind {
		case 0:
			d := NewDense(n, n, nil)
			for i := 0; i < n; i++ {
				for j := 0; j < n; j++ {
					d.Set(i, j, f*val(i, j))
				}
			}
			return d
		case 1:
			d := NewSymDense(n, nil)
			for i := 0; i < n; i++ {
				for j := i; j < n; j++ {
					d.SetSym(i, j, f*val(i, j))
				}
			}
			return d
		case 2:
			d := NewTriDense(n, Upper, nil)
			for i := 0; i < n; i++ {
				for j := i; j < n; j++ {
					d.SetTri(i, j, f*val(i, j))
				}
			}
			return d
		case 3:
			k := min(1, n-1)
			d := NewBandDense(n, n, k, k, nil)
			for i := 0; i < n; i++ {
				for j := max(0, i-k); j <= min(n-1, i+k); j++ {
					d.SetBand(i, j, f*val(i, j))
				}
			}
			return d
		case 4:
			k := min(1, n-1)
			d := NewSymBandDense(n, k, nil)
			for i := 0; i < n; i++ {
				for j := i; j <= min(n-1, i+k); j++ {
					d.SetSymBand(i, j, f*val(i, j))
				}
			}
			return d
		case 5:
			k := min(1, n-1)
			d := NewTriBandDense(n, k, Lower, nil)
			for i := 0; i < n; i++ {
				for j := max(0, i-k); j <= i; j++ {
					d.SetTriBand(i, j, f*val(i, j))
				}
			}
			return d
		case 6:
			d := NewDiagDense(n, nil)
			for i := 0; i < n; i++ {
				d.SetDiag(i, f*val(i, i))
			}
			return d
		case 7:
			d := NewTridiag(n, nil, nil, nil)
			for i := 0; i < n; i++ {
				for j := max(0, i-1); j <= min(n-1, i+1); j++ {
					d.SetBand(i, j, f*val(i, j))
				}
			}
			return d
		}
		d := NewVecDense(n, nil)
		for i := 0; i < n; i++ {
			d.SetVec(i, f*val(i, 0))
		}
		return d
	}
	a, as := build(1), build(s)
	// reference from the definition on the unscaled elements
	r, c := a.Dims()
	var want float64
	switch p {
	case 1:
		for j := 0; j < c; j++ {
			var sum float64
			for i := 0; i < r; i++ {
				sum += math.Abs(a.At(i, j))
			}
			want = math.Max(want, sum)
		}
	case 2:
		for i := 0; i < r; i++ {
			for j := 0; j < c; j++ {
				want += a.At(i, j) * a.At(i, j)
			}
		}
		want = math.Sqrt(want)
	default:
		for i := 0; i < r; i++ {
			var sum float64
			for j := 0; j < c; j++ {
				sum += math.Abs(a.At(i, j))
			}
			want = math.Max(want, sum)
		}
	}
	close := func(got, w float64) bool { return math.Abs(got-w) <= 1e-12*w && !math.IsInf(got, 0) }
	verifAssert(close(Norm(a, p), want), "Norm equals its definition on the elements")
	verifAssert(close(Norm(as, p), s*want), "Norm(s*A) = s*Norm(A) for a power of two whose square over/underflows")
	verifAssert(close(Norm(verifC04opaque{as}, p), s*want), "Norm of the same elements behind a Dims/At-only type is the same value")
	pt := p
	switch p {
	case 1:
		pt = math.Inf(1)
	case math.Inf(1):
		pt = 1
	}
	verifAssert(close(Norm(as.T(), pt), s*want), "Norm of the transpose: 1 and Inf swap, 2 unchanged")
	verifAssert(close(Norm(verifC04opaque{as}.T(), pt), s*want), "Norm of the transposed Dims/At-only matrix")
	verifReach("end")
}
