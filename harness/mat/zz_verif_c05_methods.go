package mat

import "gonum.org/v1/gonum/blas/blas64"

// ---------------------------------------------------------------------------
// C05 layer 2: per-method aliasing behaviour. Receiver and one operand are
// windows of ONE symbolic backing array.
// ---------------------------------------------------------------------------

// verifC05geo is a side×side symbolic backing with its parent matrix.
type verifC05geo struct {
	side  int
	back  []float64
	back0 []float64
	p     *Dense
}

func verifC05newGeo(name string, side int) *verifC05geo {
	g := &verifC05geo{side: side}
	g.back = verifFloats(name, side*side)
	g.back0 = append([]float64(nil), g.back...)
	g.p = NewDense(side, side, g.back)
	return g
}

// win returns the r×c window at (i, j): same stride as the parent.
func (g *verifC05geo) win(i, j, r, c int) *Dense {
	return g.p.Slice(i, i+r, j, j+c).(*Dense)
}

// col returns the n-vector at rows i..i+n-1 of column j (Inc = side).
func (g *verifC05geo) col(i, j, n int) *VecDense {
	return g.p.Slice(i, i+n, 0, g.side).(*Dense).ColView(j).(*VecDense)
}

func (g *verifC05geo) at0(i, j int) float64 { return g.back0[i*g.side+j] }

// allUntouched: no cell of the backing was written.
func (g *verifC05geo) allUntouched(msg string) {
	for i := range g.back {
		verifAssert(verifSame(g.back[i], g.back0[i]), msg+": no cell of the backing modified")
	}
}

// checkWin: the r×c window at (wi, wj) holds want, every other cell of the
// backing is untouched.
func (g *verifC05geo) checkWin(wi, wj, r, c int, want []float64, msg string) {
	for i := 0; i < g.side; i++ {
		for j := 0; j < g.side; j++ {
			if i >= wi && i < wi+r && j >= wj && j < wj+c {
				verifAssertEqF(g.back[i*g.side+j], want[(i-wi)*c+j-wj], msg+": result as with an unaliased receiver")
			} else {
				verifAssert(verifSame(g.back[i*g.side+j], g.back0[i*g.side+j]), msg+": cells outside the receiver window untouched")
			}
		}
	}
}

func verifC05isBadRegion(msg string) bool {
	const p = "mat: bad region"
	return len(msg) >= len(p) && msg[:len(p)] == p
}

// expectOverlapPanic: the call panicked with a "mat: bad region" message
// before writing anything.
func (g *verifC05geo) expectOverlapPanic(panicked, fault bool, pmsg string, msg string) {
	verifAssert(!fault, msg+": no runtime fault")
	verifAssert(panicked, msg+": partially overlapping receiver and operand must panic")
	if panicked && !fault {
		verifAssert(verifC05isBadRegion(pmsg), msg+": panic message starts with \"mat: bad region\"")
	}
	g.allUntouched(msg)
}

func verifC05rectShare(i1, j1, r1, c1, i2, j2, r2, c2 int) bool {
	return i1 < i2+r2 && i2 < i1+r1 && j1 < j2+c2 && j2 < j1+c1
}

// verifC05other builds the non-aliased operand: kind 0 *Dense, 1 harness type
// exposing only Matrix (forces the generic paths).
func verifC05other(name string, kind, r, c int) (Matrix, []float64) {
	d := verifFloats(name, r*c)
	if kind == 0 {
		return NewDense(r, c, d), d
	}
	return &verifC04basic{r: r, c: c, data: d}, d
}

const verifC05nDenseOps = 13

// verifC05denseOp runs operation op on receiver m with the aliased operand w
// (already transposed if requested; r×c) and returns the expected r×c result
// computed from the values before the call. ok=false: op not applicable.
func verifC05denseOp(op int, tag string, okind int, m *Dense, w Matrix, wval []float64, r, c int, fdiv []float64) (call func(), want []float64, name string, ok bool) {
	want = make([]float64, r*c)
	ok = true
	switch op {
	case 0, 1, 2, 3, 4, 5:
		f, fv := verifC05other("f"+tag, okind, r, c)
		a, b := w, f
		av, bv := wval, fv
		if op%2 == 1 {
			a, b = f, w
			av, bv = fv, wval
		}
		switch op / 2 {
		case 0:
			name = "Add"
			call = func() { m.Add(a, b) }
			for i := range want {
				want[i] = av[i] + bv[i]
			}
		case 1:
			name = "Sub"
			call = func() { m.Sub(a, b) }
			for i := range want {
				want[i] = av[i] - bv[i]
			}
		case 2:
			name = "MulElem"
			call = func() { m.MulElem(a, b) }
			for i := range want {
				want[i] = av[i] * bv[i]
			}
		}
	case 6:
		name = "Scale"
		if okind != 0 {
			return nil, nil, "", false
		}
		f := verifFloat("s" + tag)
		call = func() { m.Scale(f, w) }
		for i := range want {
			want[i] = f * wval[i]
		}
	case 7:
		name = "Apply"
		if okind != 0 {
			return nil, nil, "", false
		}
		call = func() { m.Apply(verifC04fn, w) }
		for i := 0; i < r; i++ {
			for j := 0; j < c; j++ {
				want[i*c+j] = verifC04fn(i, j, wval[i*c+j])
			}
		}
	case 8:
		name = "Mul(w,f)"
		f, fv := verifC05other("f"+tag, okind, c, c)
		call = func() { m.Mul(w, f) }
		for i := 0; i < r; i++ {
			for j := 0; j < c; j++ {
				var s float64
				for l := 0; l < c; l++ {
					s += wval[i*c+l] * fv[l*c+j]
				}
				want[i*c+j] = s
			}
		}
	case 9:
		name = "Mul(f,w)"
		f, fv := verifC05other("f"+tag, okind, r, r)
		call = func() { m.Mul(f, w) }
		for i := 0; i < r; i++ {
			for j := 0; j < c; j++ {
				var s float64
				for l := 0; l < r; l++ {
					s += fv[i*r+l] * wval[l*c+j]
				}
				want[i*c+j] = s
			}
		}
	case 10:
		name = "RankOne"
		if okind != 0 {
			return nil, nil, "", false
		}
		x := verifFloats("x"+tag, r)
		y := verifFloats("y"+tag, c)
		alpha := verifFloat("al" + tag)
		call = func() { m.RankOne(w, alpha, NewVecDense(r, x), NewVecDense(c, y)) }
		for i := 0; i < r; i++ {
			for j := 0; j < c; j++ {
				want[i*c+j] = wval[i*c+j] + alpha*x[i]*y[j]
			}
		}
	case 11:
		name = "DivElem(w,f)"
		// fdiv: non-zero data created (and assumed) by the caller before any call
		fv := fdiv
		var f Matrix = NewDense(r, c, fv)
		if okind == 1 {
			f = &verifC04basic{r: r, c: c, data: fv}
		}
		call = func() { m.DivElem(w, f) }
		for i := range want {
			want[i] = wval[i] / fv[i]
		}
	case 12:
		name = "Kronecker(f1x1,w)"
		f, fv := verifC05other("f"+tag, okind, 1, 1)
		call = func() { m.Kronecker(f, w) }
		for i := range want {
			want[i] = fv[0] * wval[i]
		}
	default:
		panic("verifC05denseOp")
	}
	return call, want, name, ok
}

// verifC05divisors: two non-zero r*c data sets (for okind 0 and 1).
func verifC05divisors(n int) [][]float64 {
	d := [][]float64{verifFloats("fdiv0", n), verifFloats("fdiv1", n)}
	for k := range d {
		for i := range d[k] {
			verifAssume(d[k][i] != 0)
		}
	}
	return d
}

func verifC05tag(op, okind int) string {
	return string(rune('a'+op)) + string(rune('0'+okind))
}

// VerifC05_DenseWindows: receiver window and operand window (optionally under
// T()) of one backing, different *Dense values. Element-disjoint => no panic,
// correct result, nothing but the receiver window written. Sharing an element
// (partial overlap, or the identical window through another *Dense) => panic
// "mat: bad region..." and no cell written.
func VerifC05_DenseWindows() {
	side := verifParam("c05side", 3)
	maxN := verifParam("c05n", 2)
	r := verifChoose("r", 1, maxN)
	c := verifChoose("c", 1, maxN)
	trans := verifChoose("trans", 0, 1) == 1
	wr, wc := r, c
	if trans {
		wr, wc = c, r
	}
	ri := verifChoose("ri", 0, side-r)
	rj := verifChoose("rj", 0, side-c)
	ai := verifChoose("ai", 0, side-wr)
	aj := verifChoose("aj", 0, side-wc)
	share := verifC05rectShare(ri, rj, r, c, ai, aj, wr, wc)
	identical := ri == ai && rj == aj && r == wr && c == wc
	fdiv := verifC05divisors(r * c)
	for op := 0; op < verifC05nDenseOps; op++ {
		for okind := 0; okind <= 1; okind++ {
			tag := verifC05tag(op, okind)
			g := verifC05newGeo("back"+tag, side)
			m := g.win(ri, rj, r, c)
			wd := g.win(ai, aj, wr, wc)
			var w Matrix = wd
			if trans {
				w = wd.T()
			}
			wval := make([]float64, r*c)
			for i := 0; i < r; i++ {
				for j := 0; j < c; j++ {
					wval[i*c+j] = w.At(i, j)
				}
			}
			call, want, name, ok := verifC05denseOp(op, tag, okind, m, w, wval, r, c, fdiv[okind])
			if !ok {
				continue
			}
			panicked, fault, pmsg := verifCatch(call)
			switch {
			case !share:
				verifAssert(!panicked, name+": element-disjoint windows of one backing must not panic")
				if !panicked {
					g.checkWin(ri, rj, r, c, want, name)
				}
			case identical && !trans && !panicked:
				// the same window through another *Dense: not a partial
				// overlap; returning the right result is acceptable too
				g.checkWin(ri, rj, r, c, want, name+" (identical window, other pointer, returned)")
			default:
				g.expectOverlapPanic(panicked, fault, pmsg, name)
			}
		}
	}
	verifReach("end")
}

// VerifC05_DenseSelf: the receiver IS an operand (pointer identity), possibly
// under T(): result as with an unaliased receiver (the generic definition on
// the values before the call), nothing outside the receiver window written.
func VerifC05_DenseSelf() {
	side := verifParam("c05side", 3)
	maxN := verifParam("c05n", 2)
	r := verifChoose("r", 1, maxN)
	c := verifChoose("c", 1, maxN)
	trans := verifChoose("trans", 0, 1) == 1
	if trans && r != c {
		return
	}
	ri := verifChoose("ri", 0, side-r)
	rj := verifChoose("rj", 0, side-c)
	fdiv := verifC05divisors(r * c)
	for op := 0; op < verifC05nDenseOps; op++ {
		for okind := 0; okind <= 1; okind++ {
			if op == 10 && trans {
				continue // RankOne(m.T(), ...): see VerifC05_DenseSelfRankOneT
			}
			if op == 12 {
				continue // Kronecker sizes its blocks from the receiver: separate harness
			}
			tag := verifC05tag(op, okind)
			g := verifC05newGeo("back"+tag, side)
			m := g.win(ri, rj, r, c)
			var w Matrix = m
			if trans {
				w = m.T()
			}
			wval := make([]float64, r*c)
			for i := 0; i < r; i++ {
				for j := 0; j < c; j++ {
					wval[i*c+j] = w.At(i, j)
				}
			}
			call, want, name, ok := verifC05denseOp(op, tag, okind, m, w, wval, r, c, fdiv[okind])
			if !ok {
				continue
			}
			panicked, _, _ := verifCatch(call)
			verifAssert(!panicked, name+": receiver identical to an operand (or its transpose) must not panic")
			if !panicked {
				g.checkWin(ri, rj, r, c, want, name+" (receiver is an operand)")
			}
		}
	}
	verifReach("end")
}

// VerifC05_DenseSelfRankOneT: m.RankOne(m.T(), alpha, x, y) for square m.
// doc.go: pointer identity after untransposing does not panic.
// (OPEN VIOLATION on the unchanged tree, see notes/C05_methods.md.)
func VerifC05_DenseSelfRankOneT() {
	side := verifParam("c05side", 3)
	n := verifChoose("n", 1, verifParam("c05n", 2))
	g := verifC05newGeo("back", side)
	m := g.win(0, 0, n, n)
	w := m.T()
	wval := make([]float64, n*n)
	for i := 0; i < n; i++ {
		for j := 0; j < n; j++ {
			wval[i*n+j] = w.At(i, j)
		}
	}
	call, want, name, _ := verifC05denseOp(10, "a0", 0, m, w, wval, n, n, nil)
	panicked, _, _ := verifCatch(call)
	verifAssert(!panicked, name+": receiver identical to the transposed operand must not panic")
	if !panicked {
		g.checkWin(0, 0, n, n, want, name)
	}
	verifReach("end")
}

// VerifC05_DenseSelfBoth: both operands are the receiver (m.Add(m, m),
// m.Mul(m, m.T()) ...).
func VerifC05_DenseSelfBoth() {
	side := verifParam("c05side", 3)
	n := verifChoose("n", 1, verifParam("c05n", 2))
	r := n
	c := verifChoose("c", 1, verifParam("c05n", 2))
	ta := verifChoose("ta", 0, 1) == 1
	tb := verifChoose("tb", 0, 1) == 1
	if (ta || tb) && r != c {
		return
	}
	ri := verifChoose("ri", 0, side-r)
	rj := verifChoose("rj", 0, side-c)
	for op := 0; op <= 3; op++ {
		if op == 3 && r != c {
			continue
		}
		g := verifC05newGeo("back"+string(rune('a'+op)), side)
		m := g.win(ri, rj, r, c)
		var a, b Matrix = m, m
		if ta {
			a = m.T()
		}
		if tb {
			b = m.T()
		}
		av := make([]float64, r*c)
		bv := make([]float64, r*c)
		for i := 0; i < r; i++ {
			for j := 0; j < c; j++ {
				av[i*c+j] = a.At(i, j)
				bv[i*c+j] = b.At(i, j)
			}
		}
		want := make([]float64, r*c)
		name := ""
		var call func()
		switch op {
		case 0:
			name = "Add(self,self)"
			call = func() { m.Add(a, b) }
			for i := range want {
				want[i] = av[i] + bv[i]
			}
		case 1:
			name = "Sub(self,self)"
			call = func() { m.Sub(a, b) }
			for i := range want {
				want[i] = av[i] - bv[i]
			}
		case 2:
			name = "MulElem(self,self)"
			call = func() { m.MulElem(a, b) }
			for i := range want {
				want[i] = av[i] * bv[i]
			}
		case 3:
			name = "Mul(self,self)"
			call = func() { m.Mul(a, b) }
			for i := 0; i < r; i++ {
				for j := 0; j < c; j++ {
					var s float64
					for l := 0; l < c; l++ {
						s += av[i*c+l] * bv[l*c+j]
					}
					want[i*c+j] = s
				}
			}
		}
		panicked, _, _ := verifCatch(call)
		verifAssert(!panicked, name+": receiver identical to both operands must not panic")
		if !panicked {
			g.checkWin(ri, rj, r, c, want, name)
		}
	}
	verifReach("end")
}

// VerifC05_DenseCopy: m.Copy(w) for windows of one backing. Copy is documented
// to behave like the built-in copy (direction-aware) for untransposed Dense
// sources, and to panic for an aliasing transposed source. So: whenever it
// returns, the receiver holds the values w had BEFORE the call and only the
// receiver window was written; if it panics the message is "mat: bad
// region..." and nothing was written; disjoint windows never panic.
func VerifC05_DenseCopy() {
	side := verifParam("c05side", 3)
	maxN := verifParam("c05n", 2)
	r := verifChoose("r", 1, maxN)
	c := verifChoose("c", 1, maxN)
	trans := verifChoose("trans", 0, 1) == 1
	self := verifChoose("self", 0, 1) == 1
	wr, wc := r, c
	if trans {
		wr, wc = c, r
	}
	ri := verifChoose("ri", 0, side-r)
	rj := verifChoose("rj", 0, side-c)
	ai, aj := ri, rj
	if !self {
		ai = verifChoose("ai", 0, side-wr)
		aj = verifChoose("aj", 0, side-wc)
	} else if r != c && trans {
		return
	}
	g := verifC05newGeo("back", side)
	m := g.win(ri, rj, r, c)
	wd := g.win(ai, aj, wr, wc)
	if self {
		wd = m
	}
	var w Matrix = wd
	if trans {
		w = wd.T()
	}
	want := make([]float64, r*c)
	for i := 0; i < r; i++ {
		for j := 0; j < c; j++ {
			want[i*c+j] = w.At(i, j)
		}
	}
	share := verifC05rectShare(ri, rj, r, c, ai, aj, wr, wc)
	panicked, fault, pmsg := verifCatch(func() { m.Copy(w) })
	verifAssert(!fault, "Copy: no runtime fault")
	if panicked {
		verifAssert(share, "Copy: element-disjoint windows must not panic")
		verifAssert(verifC05isBadRegion(pmsg), "Copy: panic message starts with \"mat: bad region\"")
		g.allUntouched("Copy")
	} else {
		g.checkWin(ri, rj, r, c, want, "Copy (returned)")
	}
	verifReach("end")
}

// VerifC05_DenseVecOperand: the aliased operand is a column view (Inc = side)
// of the receiver's backing: RankOne(a, alpha, x, y) and Mul(a, x).
func VerifC05_DenseVecOperand() { verifC05denseVecOperand(1, 2) }

// VerifC05_DenseOuterVecOperand: the same for Outer(alpha, x, y).
// (OPEN VIOLATION on the unchanged tree, see notes/C05_methods.md.)
func VerifC05_DenseOuterVecOperand() { verifC05denseVecOperand(0, 0) }

func verifC05denseVecOperand(opLo, opHi int) {
	side := verifParam("c05side", 3)
	maxN := verifParam("c05n", 2)
	r := verifChoose("r", 1, maxN)
	c := verifChoose("c", 1, maxN)
	ri := verifChoose("ri", 0, side-r)
	rj := verifChoose("rj", 0, side-c)
	pos := verifChoose("pos", 0, 1) // 0: x aliased (length r), 1: y aliased (length c)
	n := r
	if pos == 1 {
		n = c
	}
	vi := verifChoose("vi", 0, side-n)
	vj := verifChoose("vj", 0, side-1)
	share := verifC05rectShare(ri, rj, r, c, vi, vj, n, 1)
	for op := opLo; op <= opHi; op++ {
		tag := string(rune('a' + op))
		g := verifC05newGeo("back"+tag, side)
		m := g.win(ri, rj, r, c)
		v := g.col(vi, vj, n)
		vv := make([]float64, n)
		for i := range vv {
			vv[i] = v.AtVec(i)
		}
		fx := verifFloats("fx"+tag, r)
		fy := verifFloats("fy"+tag, c)
		alpha := verifFloat("al" + tag)
		var x, y Vector = NewVecDense(r, fx), NewVecDense(c, fy)
		xv, yv := fx, fy
		if pos == 0 {
			x, xv = v, vv
		} else {
			y, yv = v, vv
		}
		want := make([]float64, r*c)
		name := ""
		var call func()
		switch op {
		case 0:
			name = "Outer"
			call = func() { m.Outer(alpha, x, y) }
			for i := 0; i < r; i++ {
				for j := 0; j < c; j++ {
					want[i*c+j] = alpha * xv[i] * yv[j]
				}
			}
		case 1:
			name = "RankOne"
			ad := verifFloats("a"+tag, r*c)
			call = func() { m.RankOne(NewDense(r, c, ad), alpha, x, y) }
			for i := 0; i < r; i++ {
				for j := 0; j < c; j++ {
					want[i*c+j] = ad[i*c+j] + alpha*xv[i]*yv[j]
				}
			}
		case 2:
			name = "Mul(a,vec)"
			if c != 1 || pos != 0 {
				continue
			}
			// m (r×1) = a (r×r) * x (r×1)
			ad := verifFloats("a"+tag, r*r)
			call = func() { m.Mul(NewDense(r, r, ad), x) }
			for i := 0; i < r; i++ {
				var s float64
				for l := 0; l < r; l++ {
					s += ad[i*r+l] * xv[l]
				}
				want[i] = s
			}
		}
		panicked, fault, pmsg := verifCatch(call)
		if share {
			g.expectOverlapPanic(panicked, fault, pmsg, name+" (vector operand)")
		} else {
			verifAssert(!panicked, name+": element-disjoint vector operand must not panic")
			if !panicked {
				g.checkWin(ri, rj, r, c, want, name+" (vector operand)")
			}
		}
	}
	verifReach("end")
}

// ---------------------------------------------------------------------------
// VecDense receivers
// ---------------------------------------------------------------------------

type verifC05vgeo struct {
	back  []float64
	back0 []float64
}

func verifC05newVGeo(name string, capN int) *verifC05vgeo {
	g := &verifC05vgeo{back: verifFloats(name, capN)}
	g.back0 = append([]float64(nil), g.back...)
	return g
}

func (g *verifC05vgeo) vec(off, n, inc int) *VecDense {
	return &VecDense{mat: blas64.Vector{N: n, Inc: inc, Data: g.back[off : off+(n-1)*inc+1]}}
}

func (g *verifC05vgeo) allUntouched(msg string) {
	for i := range g.back {
		verifAssert(verifSame(g.back[i], g.back0[i]), msg+": no cell of the backing modified")
	}
}

func (g *verifC05vgeo) checkVec(off, n, inc int, want []float64, msg string) {
	for i := range g.back {
		k := i - off
		if k >= 0 && k%inc == 0 && k/inc < n {
			verifAssertEqF(g.back[i], want[k/inc], msg+": result as with an unaliased receiver")
		} else {
			verifAssert(verifSame(g.back[i], g.back0[i]), msg+": cells that are not receiver elements untouched")
		}
	}
}

func verifC05vecShare(o1, n1, o2, n2, inc int) bool {
	for i := 0; i < n1; i++ {
		for j := 0; j < n2; j++ {
			if o1+i*inc == o2+j*inc {
				return true
			}
		}
	}
	return false
}

const verifC05nVecOps = 13

// verifC05vecOp: op on receiver v with aliased operand w (values wv).
// okind: 0 = other operand is a fresh *VecDense, 1 = harness Vector type.
//
// alpha (assumed by the caller to differ from 0, 1, -1) and the non-aliased
// operand's data fd (assumed non-zero) are created by the caller BEFORE any
// call so that all assumptions precede the code under test.
func verifC05vecOp(op int, tag string, okind int, v *VecDense, w Vector, wv []float64, n int, alpha float64, fd []float64) (call func(), want []float64, name string, ok bool) {
	want = make([]float64, n)
	ok = true
	var f Vector = NewVecDense(n, fd)
	if okind == 1 {
		f = &verifC04basicVec{n: n, data: fd}
	}
	switch op {
	case 0, 1, 2, 3, 4, 5:
		a, b := w, f
		av, bv := wv, fd
		if op%2 == 1 {
			a, b = f, w
			av, bv = fd, wv
		}
		switch op / 2 {
		case 0:
			name = "AddVec"
			call = func() { v.AddVec(a, b) }
			for i := range want {
				want[i] = av[i] + bv[i]
			}
		case 1:
			name = "SubVec"
			call = func() { v.SubVec(a, b) }
			for i := range want {
				want[i] = av[i] - bv[i]
			}
		case 2:
			name = "MulElemVec"
			call = func() { v.MulElemVec(a, b) }
			for i := range want {
				want[i] = av[i] * bv[i]
			}
		}
	case 6, 7:
		name = "AddScaledVec"
		a, b := w, f
		av, bv := wv, fd
		if op == 7 {
			a, b = f, w
			av, bv = fd, wv
		}
		call = func() { v.AddScaledVec(a, alpha, b) }
		for i := range want {
			want[i] = av[i] + alpha*bv[i]
		}
	case 8:
		name = "AddScaledVec(alpha=0)"
		call = func() { v.AddScaledVec(w, 0, f) }
		copy(want, wv)
	case 9:
		name = "ScaleVec"
		if okind != 0 {
			return nil, nil, "", false
		}
		call = func() { v.ScaleVec(alpha, w) }
		for i := range want {
			want[i] = alpha * wv[i]
		}
	case 10:
		name = "DivElemVec(w,f)"
		call = func() { v.DivElemVec(w, f) }
		for i := range want {
			want[i] = wv[i] / fd[i]
		}
	case 11:
		name = "MulVec(A,w)"
		if okind != 0 {
			return nil, nil, "", false
		}
		ad := verifFloats("A"+tag, n*n)
		call = func() { v.MulVec(NewDense(n, n, ad), w) }
		for i := 0; i < n; i++ {
			var s float64
			for l := 0; l < n; l++ {
				s += ad[i*n+l] * wv[l]
			}
			want[i] = s
		}
	case 12:
		name = "AddScaledVec(f,0,w)"
		call = func() { v.AddScaledVec(f, 0, w) }
		copy(want, fd)
	default:
		panic("verifC05vecOp")
	}
	return call, want, name, ok
}

// verifC05vecPre creates, before any call, the scalar and the non-aliased
// operand data used by the op table, with their assumptions.
func verifC05vecPre(n int) (alpha float64, fds [][]float64) {
	alpha = verifFloat("alpha")
	verifAssume(verifAnd(alpha != 0, verifAnd(alpha != 1, alpha != -1)))
	fds = make([][]float64, verifC05nVecOps*2)
	for k := range fds {
		fds[k] = verifFloats("f"+verifC05tag(k/2, k%2), n)
		for i := range fds[k] {
			verifAssume(fds[k][i] != 0)
		}
	}
	return alpha, fds
}

// verifC05vecWindows: receiver and operand are equal-increment views of one
// backing array (different *VecDense values). Classes: element-disjoint =>
// no panic, correct result, only receiver elements written; identical window
// through another *VecDense => either a "mat: bad region" panic without
// writes or the correct result; partial overlap => panic without writes.
func verifC05vecWindows(okind int, ops []int) {
	capN := verifParam("c05veccap", 7)
	n := verifChoose("n", 1, verifParam("c05vecn", 2))
	inc := verifChoose("inc", 1, verifParam("c05vecinc", 2))
	span := (n-1)*inc + 1
	if span > capN {
		return
	}
	o1 := verifChoose("o1", 0, capN-span)
	o2 := verifChoose("o2", 0, capN-span)
	share := verifC05vecShare(o1, n, o2, n, inc)
	identical := o1 == o2
	alpha, fds := verifC05vecPre(n)
	for _, op := range ops {
		tag := verifC05tag(op, okind)
		g := verifC05newVGeo("back"+tag, capN)
		v := g.vec(o1, n, inc)
		w := g.vec(o2, n, inc)
		wv := make([]float64, n)
		for i := range wv {
			wv[i] = w.AtVec(i)
		}
		call, want, name, ok := verifC05vecOp(op, tag, okind, v, w, wv, n, alpha, fds[op*2+okind])
		if !ok {
			continue
		}
		panicked, fault, pmsg := verifCatch(call)
		verifAssert(!fault, name+": no runtime fault")
		switch {
		case !share:
			verifAssert(!panicked, name+": element-disjoint views of one backing must not panic")
			if !panicked {
				g.checkVec(o1, n, inc, want, name)
			}
		case panicked:
			if !fault {
				verifAssert(verifC05isBadRegion(pmsg), name+": panic message starts with \"mat: bad region\"")
			}
			g.allUntouched(name)
		case identical:
			g.checkVec(o1, n, inc, want, name+" (identical window, other pointer, returned)")
		default:
			verifAssert(false, name+": partially overlapping receiver and operand must panic")
		}
	}
	verifReach("end")
}

// VerifC05_VecWindows: every operand is a *VecDense (the BLAS-backed paths).
func VerifC05_VecWindows() {
	verifC05vecWindows(0, []int{0, 1, 2, 3, 4, 5, 6, 7, 8, 9, 10, 11, 12})
}

// VerifC05_VecWindowsGeneric: the non-aliased operand is a Vector that is not
// a *VecDense, which sends AddVec/SubVec/MulElemVec/DivElemVec down their
// generic loops; the aliased operand is still a *VecDense.
// (OPEN VIOLATION on the unchanged tree, see notes/C05_methods.md.)
func VerifC05_VecWindowsGeneric() { verifC05vecWindows(1, []int{0, 1, 2, 3, 4, 5, 10}) }

// VerifC05_VecWindowsGenericRest: the same for AddScaledVec (which checks the
// *VecDense operand before choosing its path).
func VerifC05_VecWindowsGenericRest() { verifC05vecWindows(1, []int{6, 7, 8, 12}) }

// verifC05vecSelf: the receiver is the operand (pointer identity).
func verifC05vecSelf(opLo, opHi int, both bool) {
	capN := verifParam("c05veccap", 7)
	n := verifChoose("n", 1, verifParam("c05vecn", 2))
	inc := verifChoose("inc", 1, verifParam("c05vecinc", 2))
	span := (n-1)*inc + 1
	if span+1 > capN {
		return
	}
	o1 := 1
	alpha, fds := verifC05vecPre(n)
	for op := opLo; op <= opHi; op++ {
		for okind := 0; okind <= 1; okind++ {
			tag := verifC05tag(op, okind)
			g := verifC05newVGeo("back"+tag, capN)
			v := g.vec(o1, n, inc)
			wv := make([]float64, n)
			for i := range wv {
				wv[i] = v.AtVec(i)
			}
			call, want, name, ok := verifC05vecOp(op, tag, okind, v, v, wv, n, alpha, fds[op*2+okind])
			if !ok {
				continue
			}
			panicked, _, _ := verifCatch(call)
			verifAssert(!panicked, name+": receiver identical to an operand must not panic")
			if !panicked {
				g.checkVec(o1, n, inc, want, name+" (receiver is an operand)")
			}
		}
	}
	if !both {
		verifReach("end")
		return
	}
	// both operands are the receiver
	for op := 0; op <= 3; op++ {
		g := verifC05newVGeo("backboth"+string(rune('a'+op)), capN)
		v := g.vec(o1, n, inc)
		wv := make([]float64, n)
		for i := range wv {
			wv[i] = v.AtVec(i)
		}
		want := make([]float64, n)
		name := ""
		switch op {
		case 0:
			name = "AddVec(v,v)"
			v.AddVec(v, v)
			for i := range want {
				want[i] = wv[i] + wv[i]
			}
		case 1:
			name = "SubVec(v,v)"
			v.SubVec(v, v)
			for i := range want {
				want[i] = wv[i] - wv[i]
			}
		case 2:
			name = "MulElemVec(v,v)"
			v.MulElemVec(v, v)
			for i := range want {
				want[i] = wv[i] * wv[i]
			}
		case 3:
			name = "AddScaledVec(v,alpha,v)"
			v.AddScaledVec(v, alpha, v)
			for i := range want {
				want[i] = wv[i] + alpha*wv[i]
			}
		}
		g.checkVec(o1, n, inc, want, name)
	}
	verifReach("end")
}

// VerifC05_VecSelf: all operations except DivElemVec.
func VerifC05_VecSelf() {
	verifC05vecSelfSplit(false)
}

// VerifC05_VecSelfDivElem: v.DivElemVec(v, f).
// (OPEN VIOLATION on the unchanged tree for Inc > 1, see notes/C05_methods.md.)
func VerifC05_VecSelfDivElem() {
	verifC05vecSelfSplit(true)
}

func verifC05vecSelfSplit(div bool) {
	if div {
		verifC05vecSelf(10, 10, false)
		return
	}
	if verifChoose("part", 0, 1) == 0 {
		verifC05vecSelf(0, 9, true)
	} else {
		verifC05vecSelf(11, verifC05nVecOps-1, false)
	}
}

// VerifC05_VecCopy: v.CopyVec(w) "is similar to the built-in copy": whenever
// it returns, v holds the values w had before the call (even if the views
// overlap); a panic must be a "mat: bad region" one without any write.
// (OPEN VIOLATION on the unchanged tree, see notes/C05_methods.md.)
func VerifC05_VecCopy() { verifC05vecCopy(true) }

// VerifC05_VecCopyDisjoint: the element-disjoint and the identical-window
// cases of the same statement.
func VerifC05_VecCopyDisjoint() { verifC05vecCopy(false) }

func verifC05vecCopy(partial bool) {
	capN := verifParam("c05veccap", 7)
	n := verifChoose("n", 1, verifParam("c05vecn", 2))
	inc := verifChoose("inc", 1, verifParam("c05vecinc", 2))
	span := (n-1)*inc + 1
	if span > capN {
		return
	}
	o1 := verifChoose("o1", 0, capN-span)
	o2 := verifChoose("o2", 0, capN-span)
	share := verifC05vecShare(o1, n, o2, n, inc)
	if (share && o1 != o2) != partial {
		return
	}
	g := verifC05newVGeo("back", capN)
	v := g.vec(o1, n, inc)
	w := g.vec(o2, n, inc)
	want := make([]float64, n)
	for i := range want {
		want[i] = w.AtVec(i)
	}
	panicked, fault, pmsg := verifCatch(func() { v.CopyVec(w) })
	verifAssert(!fault, "CopyVec: no runtime fault")
	if panicked {
		verifAssert(share, "CopyVec: element-disjoint views must not panic")
		verifAssert(verifC05isBadRegion(pmsg), "CopyVec: panic message starts with \"mat: bad region\"")
		g.allUntouched("CopyVec")
	} else {
		g.checkVec(o1, n, inc, want, "CopyVec (returned)")
	}
	verifReach("end")
}
