package mat

// ---------------------------------------------------------------------------
// Symmetric operands and receivers
// ---------------------------------------------------------------------------

// verifC04basicSym exposes only the Symmetric interface.
type verifC04basicSym struct {
	n    int
	data []float64 // row-major n×n, only i<=j read
}

func (b *verifC04basicSym) Dims() (int, int) { return b.n, b.n }
func (b *verifC04basicSym) At(i, j int) float64 {
	if i < 0 || i >= b.n || j < 0 || j >= b.n {
		panic("verifC04basicSym: index out of range")
	}
	if i > j {
		i, j = j, i
	}
	return b.data[i*b.n+j]
}
func (b *verifC04basicSym) T() Matrix         { return b }
func (b *verifC04basicSym) SymmetricDim() int { return b.n }

const (
	verifC04sSym = iota
	verifC04sSymView
	verifC04sBasic
	verifC04sDiag
	verifC04sSymBand
	verifC04nSymKinds
)

type verifC04sop struct {
	s     Symmetric
	n     int
	back  []float64
	back0 []float64
	val   []float64
}

func (o *verifC04sop) at(i, j int) float64 { return o.val[i*o.n+j] }

func verifC04mkSym(name string, kind, n int) *verifC04sop {
	o := &verifC04sop{n: n}
	switch kind {
	case verifC04sSym:
		o.back = verifFloats(name, n*n)
		o.s = NewSymDense(n, o.back)
	case verifC04sSymView:
		o.back = verifFloats(name, (n+2)*(n+2))
		o.s = NewSymDense(n+2, o.back).SliceSym(1, n+1)
	case verifC04sBasic:
		o.back = verifFloats(name, n*n)
		o.s = &verifC04basicSym{n: n, data: o.back}
	case verifC04sDiag:
		o.back = verifFloats(name, n)
		o.s = NewDiagDense(n, o.back)
	case verifC04sSymBand:
		k := verifC04min(1, n-1)
		o.back = verifFloats(name, n*(k+1))
		o.s = NewSymBandDense(n, k, o.back)
	default:
		panic("verifC04mkSym: kind")
	}
	verifAssert(o.s.SymmetricDim() == n, "C04: symmetric builder size")
	o.back0 = append([]float64(nil), o.back...)
	o.val = make([]float64, n*n)
	for i := 0; i < n; i++ {
		for j := 0; j < n; j++ {
			o.val[i*n+j] = o.s.At(i, j)
		}
	}
	return o
}

func (o *verifC04sop) unchanged(msg string) {
	for i := range o.back {
		verifAssert(verifSame(o.back[i], o.back0[i]), msg+": operand storage unchanged")
	}
	verifAssert(o.s.SymmetricDim() == o.n, msg+": operand size unchanged")
	for i := 0; i < o.n; i++ {
		for j := 0; j < o.n; j++ {
			verifAssert(verifSame(o.s.At(i, j), o.val[i*o.n+j]), msg+": operand At unchanged")
		}
	}
}

// verifC04srecv: *SymDense receiver; states 0 zero value, 1 pre-sized with
// symbolic content, 2 SliceSym(1, n+1) of a symbolic (n+2)×(n+2) SymDense.
type verifC04srecv struct {
	s     *SymDense
	state int
	n     int
	back  []float64
	back0 []float64
}

func verifC04mkSRecv(name string, state, n int) *verifC04srecv {
	rv := &verifC04srecv{state: state, n: n}
	switch state {
	case 0:
		rv.s = &SymDense{}
	case 1:
		rv.back = verifFloats(name, n*n)
		rv.s = NewSymDense(n, rv.back)
	case 2:
		rv.back = verifFloats(name, (n+2)*(n+2))
		rv.s = NewSymDense(n+2, rv.back).sliceSym(1, n+1)
	}
	rv.back0 = append([]float64(nil), rv.back...)
	return rv
}

func (rv *verifC04srecv) check(want []float64, msg string) {
	verifAssert(rv.s.SymmetricDim() == rv.n, msg+": result size")
	if rv.s.SymmetricDim() != rv.n {
		return
	}
	for i := 0; i < rv.n; i++ {
		for j := 0; j < rv.n; j++ {
			verifAssertEqF(rv.s.At(i, j), want[i*rv.n+j], msg+": result element equals the generic definition")
		}
	}
	if rv.state == 2 {
		s := rv.n + 2
		for i := 0; i < s; i++ {
			for j := 0; j < s; j++ {
				if !(i >= 1 && i <= rv.n && j >= 1 && j <= rv.n) {
					verifAssert(verifSame(rv.back[i*s+j], rv.back0[i*s+j]), msg+": backing outside the receiver window untouched")
				}
			}
		}
	}
}

// VerifC04_SymBinary: s.AddSym(a, b) over pairs of Symmetric kinds.
func VerifC04_SymBinary() {
	maxN := verifParam("c04sn", 3)
	n := verifChoose("n", 1, maxN)
	ka := verifChoose("ka", 0, verifC04nSymKinds-1)
	kb := verifChoose("kb", 0, verifC04nSymKinds-1)
	a := verifC04mkSym("a", ka, n)
	b := verifC04mkSym("b", kb, n)
	want := make([]float64, n*n)
	for i := range want {
		want[i] = a.val[i] + b.val[i]
	}
	for st := 0; st <= 2; st++ {
		rv := verifC04mkSRecv(verifC04nm("s", st, 0), st, n)
		rv.s.AddSym(a.s, b.s)
		rv.check(want, "AddSym")
		a.unchanged("AddSym a")
		b.unchanged("AddSym b")
	}
	verifReach("end")
}

// VerifC04_SymUpdates: ScaleSym, CopySym, SymRankOne, RankTwo over Symmetric
// kinds and Vector kinds.
func VerifC04_SymUpdates() {
	maxN := verifParam("c04sn", 3)
	n := verifChoose("n", 1, maxN)
	ka := verifChoose("ka", 0, verifC04nSymKinds-1)
	kx := verifChoose("kx", 0, verifC04nVecKinds-1)
	ky := verifChoose("ky", 0, verifC04nVecKinds-1)
	a := verifC04mkSym("a", ka, n)
	x := verifC04mkVec("x", kx, n)
	y := verifC04mkVec("y", ky, n)
	alpha := verifFloat("alpha")
	want := make([]float64, n*n)
	for st := 0; st <= 2; st++ {
		for op := 0; op <= 3; op++ {
			if op <= 2 && ky != 0 {
				continue
			}
			if op <= 1 && kx != 0 {
				continue
			}
			if op == 1 && st == 0 {
				continue // CopySym into an empty receiver copies nothing
			}
			if op == 3 && st == 0 {
				continue // RankTwo sizes from the receiver: see VerifC04_SymRankTwoEmpty
			}
			rv := verifC04mkSRecv(verifC04nm("s", st, op), st, n)
			name := ""
			switch op {
			case 0:
				name = "ScaleSym"
				rv.s.ScaleSym(alpha, a.s)
				for i := range want {
					want[i] = alpha * a.val[i]
				}
			case 1:
				name = "CopySym"
				got := rv.s.CopySym(a.s)
				verifAssert(got == n, "CopySym: returned size")
				copy(want, a.val)
			case 2:
				name = "SymRankOne"
				rv.s.SymRankOne(a.s, alpha, x.v)
				for i := 0; i < n; i++ {
					for j := 0; j < n; j++ {
						want[i*n+j] = a.at(i, j) + alpha*x.val[i]*x.val[j]
					}
				}
			case 3:
				name = "RankTwo"
				rv.s.RankTwo(a.s, alpha, x.v, y.v)
				for i := 0; i < n; i++ {
					for j := 0; j < n; j++ {
						want[i*n+j] = a.at(i, j) + alpha*(x.val[i]*y.val[j]+y.val[i]*x.val[j])
					}
				}
			}
			rv.check(want, name)
			a.unchanged(name + " a")
			x.unchanged(name + " x")
			y.unchanged(name + " y")
		}
	}
	verifReach("end")
}

// VerifC04_SymRankTwoEmpty: like every other arithmetic method, RankTwo on a
// zero-value receiver adopts the result shape.
func VerifC04_SymRankTwoEmpty() {
	maxN := verifParam("c04sn", 3)
	n := verifChoose("n", 1, maxN)
	a := verifC04mkSym("a", verifC04sSym, n)
	x := verifC04mkVec("x", verifC04vVec, n)
	y := verifC04mkVec("y", verifC04vVec, n)
	alpha := verifFloat("alpha")
	rv := verifC04mkSRecv("s", 0, n)
	rv.s.RankTwo(a.s, alpha, x.v, y.v)
	want := make([]float64, n*n)
	for i := 0; i < n; i++ {
		for j := 0; j < n; j++ {
			want[i*n+j] = a.at(i, j) + alpha*(x.val[i]*y.val[j]+y.val[i]*x.val[j])
		}
	}
	rv.check(want, "RankTwo (empty receiver)")
	verifReach("end")
}

// VerifC04_SymRankK: s.SymRankK(a, alpha, X) and s.SymOuterK(alpha, X) with X
// an n×k matrix of any kind.
func VerifC04_SymRankK() {
	maxN := verifParam("c04n", 2)
	n := verifChoose("n", 1, maxN)
	k := verifChoose("k", 1, maxN)
	ka := verifChoose("ka", 0, verifC04nSymKinds-1)
	kx := verifC04pick("kx", n, k)
	a := verifC04mkSym("a", ka, n)
	x := verifC04mk("x", kx, n, k)
	alpha := verifFloat("alpha")
	want := make([]float64, n*n)
	for st := 0; st <= 2; st++ {
		rv := verifC04mkSRecv(verifC04nm("s", st, 0), st, n)
		rv.s.SymRankK(a.s, alpha, x.m)
		for i := 0; i < n; i++ {
			for j := 0; j < n; j++ {
				var s float64
				for l := 0; l < k; l++ {
					s += x.at(i, l) * x.at(j, l)
				}
				want[i*n+j] = a.at(i, j) + alpha*s
			}
		}
		rv.check(want, "SymRankK")
		a.unchanged("SymRankK a")
		x.unchanged("SymRankK x")
		if ka != 0 {
			continue
		}
		rv = verifC04mkSRecv(verifC04nm("s", st, 1), st, n)
		rv.s.SymOuterK(alpha, x.m)
		for i := 0; i < n; i++ {
			for j := 0; j < n; j++ {
				var s float64
				for l := 0; l < k; l++ {
					s += x.at(i, l) * x.at(j, l)
				}
				want[i*n+j] = alpha * s
			}
		}
		rv.check(want, "SymOuterK")
		x.unchanged("SymOuterK x")
	}
	verifReach("end")
}

// ---------------------------------------------------------------------------
// Triangular operands and receivers
// ---------------------------------------------------------------------------

// verifC04basicTri exposes only the Triangular interface.
type verifC04basicTri struct {
	n     int
	upper bool
	data  []float64
}

func (b *verifC04basicTri) Dims() (int, int) { return b.n, b.n }
func (b *verifC04basicTri) At(i, j int) float64 {
	if i < 0 || i >= b.n || j < 0 || j >= b.n {
		panic("verifC04basicTri: index out of range")
	}
	if (b.upper && i > j) || (!b.upper && i < j) {
		return 0
	}
	return b.data[i*b.n+j]
}
func (b *verifC04basicTri) T() Matrix                { return Transpose{b} }
func (b *verifC04basicTri) Triangle() (int, TriKind) { return b.n, TriKind(b.upper) }
func (b *verifC04basicTri) TTri() Triangular         { return TransposeTri{b} }

const (
	verifC04tTri     = iota // *TriDense of the requested kind
	verifC04tTriView        // SliceTri window of a larger TriDense
	verifC04tTTri           // TTri() of a TriDense of the opposite kind
	verifC04tBasic          // harness type
	verifC04tBand           // *TriBandDense
	verifC04tBasicTT        // TTri() of the harness type of the opposite kind
	verifC04tDiag           // *DiagDense (upper only)
	verifC04nTriKinds
)

type verifC04top struct {
	t     Triangular
	n     int
	back  []float64
	back0 []float64
	val   []float64
}

func (o *verifC04top) at(i, j int) float64 { return o.val[i*o.n+j] }

// verifC04mkTri builds an n×n triangular operand whose Triangle() kind is
// upper/lower as requested. ok=false if the representation cannot have it.
func verifC04mkTri(name string, kind, n int, upper bool) (*verifC04top, bool) {
	o := &verifC04top{n: n}
	tk := TriKind(upper)
	switch kind {
	case verifC04tTri:
		o.back = verifFloats(name, n*n)
		o.t = NewTriDense(n, tk, o.back)
	case verifC04tTriView:
		o.back = verifFloats(name, (n+2)*(n+2))
		o.t = NewTriDense(n+2, tk, o.back).SliceTri(1, n+1)
	case verifC04tTTri:
		o.back = verifFloats(name, n*n)
		o.t = NewTriDense(n, !tk, o.back).TTri()
	case verifC04tBasic:
		o.back = verifFloats(name, n*n)
		o.t = &verifC04basicTri{n: n, upper: upper, data: o.back}
	case verifC04tBasicTT:
		o.back = verifFloats(name, n*n)
		o.t = (&verifC04basicTri{n: n, upper: !upper, data: o.back}).TTri()
	case verifC04tBand:
		k := verifC04min(1, n-1)
		o.back = verifFloats(name, n*(k+1))
		o.t = NewTriBandDense(n, k, tk, o.back)
	case verifC04tDiag:
		if !upper {
			return nil, false
		}
		o.back = verifFloats(name, n)
		o.t = NewDiagDense(n, o.back)
	default:
		panic("verifC04mkTri: kind")
	}
	gn, gk := o.t.Triangle()
	verifAssert(gn == n && gk == tk, "C04: triangular builder size and kind")
	o.back0 = append([]float64(nil), o.back...)
	o.val = make([]float64, n*n)
	for i := 0; i < n; i++ {
		for j := 0; j < n; j++ {
			o.val[i*n+j] = o.t.At(i, j)
		}
	}
	return o, true
}

func (o *verifC04top) unchanged(msg string) {
	for i := range o.back {
		verifAssert(verifSame(o.back[i], o.back0[i]), msg+": operand storage unchanged")
	}
	for i := 0; i < o.n; i++ {
		for j := 0; j < o.n; j++ {
			verifAssert(verifSame(o.t.At(i, j), o.val[i*o.n+j]), msg+": operand At unchanged")
		}
	}
}

// verifC04trecv: *TriDense receiver; 0 zero value, 1 pre-sized of the result's
// kind with symbolic content, 2 SliceTri(1, n+1) of an (n+2)×(n+2) TriDense.
type verifC04trecv struct {
	t     *TriDense
	state int
	n     int
	upper bool
	back  []float64
	back0 []float64
}

func verifC04mkTRecv(name string, state, n int, upper bool) *verifC04trecv {
	rv := &verifC04trecv{state: state, n: n, upper: upper}
	switch state {
	case 0:
		rv.t = &TriDense{}
	case 1:
		rv.back = verifFloats(name, n*n)
		rv.t = NewTriDense(n, TriKind(upper), rv.back)
	case 2:
		rv.back = verifFloats(name, (n+2)*(n+2))
		rv.t = NewTriDense(n+2, TriKind(upper), rv.back).sliceTri(1, n+1)
	}
	rv.back0 = append([]float64(nil), rv.back...)
	return rv
}

func (rv *verifC04trecv) check(want []float64, msg string) {
	gn, gk := rv.t.Triangle()
	verifAssert(gn == rv.n && gk == TriKind(rv.upper), msg+": result size and kind")
	if gn != rv.n {
		return
	}
	for i := 0; i < rv.n; i++ {
		for j := 0; j < rv.n; j++ {
			verifAssertEqF(rv.t.At(i, j), want[i*rv.n+j], msg+": result element equals the generic definition")
		}
	}
	if rv.state == 2 {
		s := rv.n + 2
		for i := 0; i < s; i++ {
			for j := 0; j < s; j++ {
				if !(i >= 1 && i <= rv.n && j >= 1 && j <= rv.n) {
					verifAssert(verifSame(rv.back[i*s+j], rv.back0[i*s+j]), msg+": backing outside the receiver window untouched")
				}
			}
		}
	}
}

// VerifC04_TriMul: t.MulTri(a, b) for same-kind triangular operands, and
// t.ScaleTri(f, a).
func VerifC04_TriMul() {
	maxN := verifParam("c04sn", 3)
	n := verifChoose("n", 1, maxN)
	upper := verifChoose("upper", 0, 1) == 1
	ka := verifChoose("ka", 0, verifC04nTriKinds-1)
	kb := verifChoose("kb", 0, verifC04nTriKinds-1)
	a, ok := verifC04mkTri("a", ka, n, upper)
	if !ok {
		return
	}
	b, ok := verifC04mkTri("b", kb, n, upper)
	if !ok {
		return
	}
	f := verifFloat("f")
	want := make([]float64, n*n)
	for st := 0; st <= 2; st++ {
		rv := verifC04mkTRecv(verifC04nm("t", st, 0), st, n, upper)
		rv.t.MulTri(a.t, b.t)
		for i := 0; i < n; i++ {
			for j := 0; j < n; j++ {
				var s float64
				for l := 0; l < n; l++ {
					s += a.at(i, l) * b.at(l, j)
				}
				want[i*n+j] = s
			}
		}
		rv.check(want, "MulTri")
		a.unchanged("MulTri a")
		b.unchanged("MulTri b")
		if kb != 0 {
			continue
		}
		rv = verifC04mkTRecv(verifC04nm("t", st, 1), st, n, upper)
		rv.t.ScaleTri(f, a.t)
		for i := range want {
			want[i] = f * a.val[i]
		}
		rv.check(want, "ScaleTri")
		a.unchanged("ScaleTri a")
	}
	verifReach("end")
}

// VerifC04_TriCopy: t.Copy(a) for a of any Matrix kind: inside the receiver's
// triangle (and the common block) the receiver takes a's elements - including
// the zeros of a triangular a of the opposite kind -, elsewhere it keeps its own.
//
// A *TriDense source of the opposite kind (n > 1) is excluded here and checked
// by VerifC04_TriCopyOppositeKind (OPEN VIOLATION, see notes/C04.md).
func VerifC04_TriCopy() {
	verifC04triCopy(false)
}

// VerifC04_TriCopyOppositeKind: the same statement for a *TriDense source
// whose kind is the opposite of the receiver's.
func VerifC04_TriCopyOppositeKind() {
	verifC04triCopy(true)
}

func verifC04triCopy(opposite bool) {
	maxN := verifParam("c04sn", 3)
	n := verifChoose("n", 1, maxN)
	na := verifChoose("na", 1, maxN)
	upper := verifChoose("upper", 0, 1) == 1
	var ka int
	if opposite {
		ka = verifC04kTriL
		if !upper {
			ka = verifC04kTriU
		}
	} else {
		ka = verifC04pick("ka", na, na)
		if (upper && ka == verifC04kTriL) || (!upper && ka == verifC04kTriU) {
			return
		}
	}
	a := verifC04mk("a", ka, na, na)
	for st := 1; st <= 2; st++ {
		rv := verifC04mkTRecv(verifC04nm("t", st, 0), st, n, upper)
		old := make([]float64, n*n)
		for i := 0; i < n; i++ {
			for j := 0; j < n; j++ {
				old[i*n+j] = rv.t.At(i, j)
			}
		}
		gr, gc := rv.t.Copy(a.m)
		m := verifC04min(n, na)
		verifAssert(gr == m && gc == m, "TriDense.Copy: returned extent")
		want := make([]float64, n*n)
		for i := 0; i < n; i++ {
			for j := 0; j < n; j++ {
				inTri := (upper && i <= j) || (!upper && i >= j)
				if inTri && i < na && j < na {
					want[i*n+j] = a.at(i, j)
				} else {
					want[i*n+j] = old[i*n+j]
				}
			}
		}
		rv.check(want, "TriDense.Copy")
		a.unchanged("TriDense.Copy a")
	}
	verifReach("end")
}
