package mat

import "gonum.org/v1/gonum/blas"

// ---------------------------------------------------------------------------
// C04 infrastructure: one mathematical operand in many representations.
// ---------------------------------------------------------------------------

// verifC04basic exposes only the Matrix interface (Dims, At, T); none of the
// Raw* fast paths of mat can see through it.
type verifC04basic struct {
	r, c int
	data []float64
}

func (b *verifC04basic) Dims() (int, int) { return b.r, b.c }
func (b *verifC04basic) At(i, j int) float64 {
	if i < 0 || i >= b.r || j < 0 || j >= b.c {
		panic("verifC04basic: index out of range")
	}
	return b.data[i*b.c+j]
}
func (b *verifC04basic) T() Matrix { return Transpose{b} }

// verifC04basicVec exposes only the Vector interface.
type verifC04basicVec struct {
	n    int
	data []float64
}

func (b *verifC04basicVec) Dims() (int, int) { return b.n, 1 }
func (b *verifC04basicVec) At(i, j int) float64 {
	if i < 0 || i >= b.n || j != 0 {
		panic("verifC04basicVec: index out of range")
	}
	return b.data[i]
}
func (b *verifC04basicVec) T() Matrix           { return Transpose{b} }
func (b *verifC04basicVec) AtVec(i int) float64 { return b.At(i, 0) }
func (b *verifC04basicVec) Len() int            { return b.n }

// operand kinds
const (
	verifC04kDense     = iota // compact *Dense
	verifC04kDenseView        // *Dense window of a larger backing, stride > cols
	verifC04kDenseT           // T() of a compact *Dense
	verifC04kDenseViewT       // T() of a strided *Dense window
	verifC04kBasic            // harness type exposing only Matrix
	verifC04kBasicT           // T() of it
	verifC04kBand             // *BandDense (kl=min(1,r-1), ku=0... see builder)
	// square only
	verifC04kSym
	verifC04kTriU
	verifC04kTriL
	verifC04kTriUT   // T() of upper *TriDense (mathematically lower)
	verifC04kTriLTT  // TTri() of lower *TriDense (TransposeTri wrapper)
	verifC04kDiag
	verifC04kSymBand
	verifC04kTriBandU
	verifC04kTridiag
	// column vectors only (c == 1)
	verifC04kVec
	verifC04kVecStrided // ColView of a wider Dense: Inc > 1
	// row vectors only (r == 1)
	verifC04kVecT    // T() of *VecDense
	verifC04kVecTVec // TVec() of strided *VecDense (TransposeVec wrapper)
	verifC04nKinds
)

// verifC04op is one built operand.
type verifC04op struct {
	m     Matrix
	r, c  int
	back  []float64 // every symbolic storage cell behind the operand
	back0 []float64 // its value before the call
	val   []float64 // dense r*c snapshot through At before the call
}

func (o *verifC04op) at(i, j int) float64 { return o.val[i*o.c+j] }

// verifC04kindsFor lists the kinds applicable to an r×c operand. level limits
// the list: 0 = Dense family + basic, 1 = + structured types, 2 = everything.
func verifC04kindsFor(r, c, level int) []int {
	ks := []int{verifC04kDense, verifC04kDenseView, verifC04kDenseT, verifC04kDenseViewT, verifC04kBasic, verifC04kBasicT}
	if c == 1 {
		ks = append(ks, verifC04kVec, verifC04kVecStrided)
	}
	if r == 1 {
		ks = append(ks, verifC04kVecT, verifC04kVecTVec)
	}
	if level >= 1 && r == c {
		ks = append(ks, verifC04kSym, verifC04kTriU, verifC04kTriL, verifC04kTriUT, verifC04kDiag)
	}
	if level >= 2 {
		ks = append(ks, verifC04kBand)
		if r == c {
			ks = append(ks, verifC04kTriLTT, verifC04kSymBand, verifC04kTriBandU, verifC04kTridiag)
		}
	}
	return ks
}

// verifC04pick case-splits over the kinds applicable to the shape.
func verifC04pick(name string, r, c int) int {
	ks := verifC04kindsFor(r, c, verifParam("c04kinds", 2))
	return ks[verifChoose(name, 0, len(ks)-1)]
}

func verifC04min(a, b int) int {
	if a < b {
		return a
	}
	return b
}

// verifC04mk builds an r×c operand of the given kind over fresh symbolic data.
func verifC04mk(name string, kind, r, c int) *verifC04op {
	o := &verifC04op{r: r, c: c}
	switch kind {
	case verifC04kDense:
		o.back = verifFloats(name, r*c)
		o.m = NewDense(r, c, o.back)
	case verifC04kDenseView:
		o.back = verifFloats(name, (r+2)*(c+2))
		o.m = NewDense(r+2, c+2, o.back).Slice(1, r+1, 1, c+1)
	case verifC04kDenseT:
		o.back = verifFloats(name, r*c)
		o.m = NewDense(c, r, o.back).T()
	case verifC04kDenseViewT:
		o.back = verifFloats(name, (r+2)*(c+2))
		o.m = NewDense(c+2, r+2, o.back).Slice(1, c+1, 1, r+1).T()
	case verifC04kBasic:
		o.back = verifFloats(name, r*c)
		o.m = &verifC04basic{r: r, c: c, data: o.back}
	case verifC04kBasicT:
		o.back = verifFloats(name, r*c)
		o.m = (&verifC04basic{r: c, c: r, data: o.back}).T()
	case verifC04kBand:
		kl, ku := verifC04min(1, r-1), 0
		if c > r {
			ku = 1
		}
		o.back = verifFloats(name, verifC04min(r, c+kl)*(kl+ku+1))
		o.m = NewBandDense(r, c, kl, ku, o.back)
	case verifC04kSym:
		o.back = verifFloats(name, r*r)
		o.m = NewSymDense(r, o.back)
	case verifC04kTriU:
		o.back = verifFloats(name, r*r)
		o.m = NewTriDense(r, Upper, o.back)
	case verifC04kTriL:
		o.back = verifFloats(name, r*r)
		o.m = NewTriDense(r, Lower, o.back)
	case verifC04kTriUT:
		o.back = verifFloats(name, r*r)
		o.m = NewTriDense(r, Upper, o.back).T()
	case verifC04kTriLTT:
		o.back = verifFloats(name, r*r)
		o.m = NewTriDense(r, Lower, o.back).TTri()
	case verifC04kDiag:
		o.back = verifFloats(name, r)
		o.m = NewDiagDense(r, o.back)
	case verifC04kSymBand:
		k := verifC04min(1, r-1)
		o.back = verifFloats(name, r*(k+1))
		o.m = NewSymBandDense(r, k, o.back)
	case verifC04kTriBandU:
		k := verifC04min(1, r-1)
		o.back = verifFloats(name, r*(k+1))
		o.m = NewTriBandDense(r, k, Upper, o.back)
	case verifC04kTridiag:
		o.back = verifFloats(name, 3*r)
		var dl, du []float64
		if r > 1 {
			dl, du = o.back[r:2*r-1], o.back[2*r:3*r-1]
		}
		o.m = NewTridiag(r, dl, o.back[:r], du)
	case verifC04kVec:
		o.back = verifFloats(name, r)
		o.m = NewVecDense(r, o.back)
	case verifC04kVecStrided:
		o.back = verifFloats(name, r*3)
		o.m = NewDense(r, 3, o.back).ColView(1)
	case verifC04kVecT:
		o.back = verifFloats(name, c)
		o.m = NewVecDense(c, o.back).T()
	case verifC04kVecTVec:
		o.back = verifFloats(name, c*3)
		o.m = NewDense(c, 3, o.back).ColView(1).(*VecDense).TVec()
	default:
		panic("verifC04mk: unknown kind")
	}
	gr, gc := o.m.Dims()
	verifAssert(gr == r && gc == c, "C04: operand builder shape")
	o.back0 = append([]float64(nil), o.back...)
	o.val = make([]float64, r*c)
	for i := 0; i < r; i++ {
		for j := 0; j < c; j++ {
			o.val[i*c+j] = o.m.At(i, j)
		}
	}
	return o
}

// unchanged asserts that neither the storage nor the At-view of the operand
// was modified by the call.
func (o *verifC04op) unchanged(msg string) {
	for i := range o.back {
		verifAssert(verifSame(o.back[i], o.back0[i]), msg+": operand storage unchanged")
	}
	gr, gc := o.m.Dims()
	verifAssert(gr == o.r && gc == o.c, msg+": operand shape unchanged")
	for i := 0; i < o.r; i++ {
		for j := 0; j < o.c; j++ {
			verifAssert(verifSame(o.m.At(i, j), o.val[i*o.c+j]), msg+": operand At unchanged")
		}
	}
}

// vector-kind helpers: an n-vector in several representations.
const (
	verifC04vVec = iota
	verifC04vStrided
	verifC04vBasic
	verifC04vTT // T().T() of a VecDense: Transpose{Transpose{v}} is not a Vector; use TVec of TVec
	verifC04nVecKinds
)

type verifC04vop struct {
	v     Vector
	n     int
	back  []float64
	back0 []float64
	val   []float64
}

func verifC04mkVec(name string, kind, n int) *verifC04vop {
	o := &verifC04vop{n: n}
	switch kind {
	case verifC04vVec:
		o.back = verifFloats(name, n)
		o.v = NewVecDense(n, o.back)
	case verifC04vStrided:
		o.back = verifFloats(name, n*3)
		o.v = NewDense(n, 3, o.back).ColView(1)
	case verifC04vBasic:
		o.back = verifFloats(name, n)
		o.v = &verifC04basicVec{n: n, data: o.back}
	case verifC04vTT:
		o.back = verifFloats(name, n*2)
		o.v = TransposeVec{TransposeVec{NewDense(n, 2, o.back).ColView(0)}}
	default:
		panic("verifC04mkVec: unknown kind")
	}
	verifAssert(o.v.Len() == n, "C04: vector builder length")
	o.back0 = append([]float64(nil), o.back...)
	o.val = make([]float64, n)
	for i := 0; i < n; i++ {
		o.val[i] = o.v.AtVec(i)
	}
	return o
}

func (o *verifC04vop) unchanged(msg string) {
	for i := range o.back {
		verifAssert(verifSame(o.back[i], o.back0[i]), msg+": vector operand storage unchanged")
	}
	verifAssert(o.v.Len() == o.n, msg+": vector operand length unchanged")
	for i := 0; i < o.n; i++ {
		verifAssert(verifSame(o.v.AtVec(i), o.val[i]), msg+": vector operand AtVec unchanged")
	}
}

// ---------------------------------------------------------------------------
// receivers
// ---------------------------------------------------------------------------

// verifC04recv is a *Dense receiver in one of three states:
// 0 zero value, 1 pre-sized with arbitrary (symbolic) old content, 2 an r×c
// window at (1,1) of a symbolic (r+2)×(c+2) backing (stride = c+2 > cols).
type verifC04recv struct {
	d     *Dense
	state int
	r, c  int
	back  []float64
	back0 []float64
}

func verifC04mkRecv(name string, state, r, c int) *verifC04recv {
	rv := &verifC04recv{state: state, r: r, c: c}
	switch state {
	case 0:
		rv.d = &Dense{}
	case 1:
		rv.back = verifFloats(name, r*c)
		rv.d = NewDense(r, c, rv.back)
	case 2:
		rv.back = verifFloats(name, (r+2)*(c+2))
		rv.d = NewDense(r+2, c+2, rv.back).Slice(1, r+1, 1, c+1).(*Dense)
	default:
		panic("verifC04mkRecv: state")
	}
	rv.back0 = append([]float64(nil), rv.back...)
	return rv
}

// check asserts the receiver holds want (row-major r×c) and, for a view, that
// the backing outside the window still holds identical values.
func (rv *verifC04recv) check(want []float64, msg string) {
	gr, gc := rv.d.Dims()
	verifAssert(gr == rv.r && gc == rv.c, msg+": result shape")
	if gr != rv.r || gc != rv.c {
		return
	}
	for i := 0; i < rv.r; i++ {
		for j := 0; j < rv.c; j++ {
			verifAssertEqF(rv.d.At(i, j), want[i*rv.c+j], msg+": result element equals the generic definition")
		}
	}
	switch rv.state {
	case 1:
		// the pre-sized receiver keeps using the storage it was given
		for i := 0; i < rv.r; i++ {
			for j := 0; j < rv.c; j++ {
				verifAssertEqF(rv.back[i*rv.c+j], want[i*rv.c+j], msg+": pre-sized receiver storage holds the result")
			}
		}
	case 2:
		s := rv.c + 2
		for i := 0; i < rv.r+2; i++ {
			for j := 0; j < s; j++ {
				if i >= 1 && i <= rv.r && j >= 1 && j <= rv.c {
					verifAssertEqF(rv.back[i*s+j], want[(i-1)*rv.c+j-1], msg+": view window holds the result")
				} else {
					verifAssert(verifSame(rv.back[i*s+j], rv.back0[i*s+j]), msg+": backing outside the receiver window untouched")
				}
			}
		}
	}
}

// outsideUntouched asserts, for a view receiver, that the backing cells outside
// the window hold their old values.
func (rv *verifC04recv) outsideUntouched(msg string) {
	if rv.state != 2 {
		return
	}
	s := rv.c + 2
	for i := 0; i < rv.r+2; i++ {
		for j := 0; j < s; j++ {
			if !(i >= 1 && i <= rv.r && j >= 1 && j <= rv.c) {
				verifAssert(verifSame(rv.back[i*s+j], rv.back0[i*s+j]), msg+": backing outside the receiver window untouched")
			}
		}
	}
}

// verifC04vrecv: *VecDense receiver, states as above (2 = column 1 of an
// (n+2)×3 backing starting at row 1: Inc = 3).
type verifC04vrecv struct {
	v     *VecDense
	state int
	n     int
	back  []float64
	back0 []float64
}

func verifC04mkVRecv(name string, state, n int) *verifC04vrecv {
	rv := &verifC04vrecv{state: state, n: n}
	switch state {
	case 0:
		rv.v = &VecDense{}
	case 1:
		rv.back = verifFloats(name, n)
		rv.v = NewVecDense(n, rv.back)
	case 2:
		rv.back = verifFloats(name, (n+2)*3)
		rv.v = NewDense(n+2, 3, rv.back).Slice(1, n+1, 0, 3).(*Dense).ColView(1).(*VecDense)
	default:
		panic("verifC04mkVRecv: state")
	}
	rv.back0 = append([]float64(nil), rv.back...)
	return rv
}

func (rv *verifC04vrecv) check(want []float64, msg string) {
	verifAssert(rv.v.Len() == rv.n, msg+": result length")
	if rv.v.Len() != rv.n {
		return
	}
	for i := 0; i < rv.n; i++ {
		verifAssertEqF(rv.v.AtVec(i), want[i], msg+": result element equals the generic definition")
	}
	switch rv.state {
	case 1:
		for i := 0; i < rv.n; i++ {
			verifAssertEqF(rv.back[i], want[i], msg+": pre-sized receiver storage holds the result")
		}
	case 2:
		for i := 0; i < rv.n+2; i++ {
			for j := 0; j < 3; j++ {
				if j == 1 && i >= 1 && i <= rv.n {
					verifAssertEqF(rv.back[i*3+j], want[i-1], msg+": view window holds the result")
				} else {
					verifAssert(verifSame(rv.back[i*3+j], rv.back0[i*3+j]), msg+": backing outside the receiver window untouched")
				}
			}
		}
	}
}

func (rv *verifC04vrecv) outsideUntouched(msg string) {
	if rv.state != 2 {
		return
	}
	for i := 0; i < rv.n+2; i++ {
		for j := 0; j < 3; j++ {
			if !(j == 1 && i >= 1 && i <= rv.n) {
				verifAssert(verifSame(rv.back[i*3+j], rv.back0[i*3+j]), msg+": backing outside the receiver window untouched")
			}
		}
	}
}

var _ = blas.Upper
