package mat

// VerifC05_DenseStackAugmentWidths: Stack/Augment with operands of DIFFERENT
// heights (Stack) or widths (Augment) - a is p×k / k×p and b is q×k / k×q with
// p, q in 1..2 - where one operand is a window of the receiver's backing. The
// region of the receiver that must not be shared with b is the block written
// for a (p rows / columns), which differs from b's own size when p != q; the
// same obligations as VerifC05_DenseStackAugment: a returning call leaves the
// stacked/augmented values the operands had before the call, a panic is a
// "mat: bad region" panic without writes, element-disjoint operands never panic.
func VerifC05_DenseStackAugmentWidths() {
	side := verifParam("c05wside", 4)
	aug := verifChoose("augment", 0, 1) == 1
	pos := verifChoose("pos", 0, 1) // which operand is the aliased window
	k := verifChoose("k", 1, verifParam("c05wn", 2))
	p := verifChoose("p", 1, 2)
	q := verifChoose("q", 1, 2)
	if p == q {
		return // equal sizes: VerifC05_DenseStackAugment
	}
	// receiver (p+q)×k (Stack) or k×(p+q) (Augment)
	mr, mc := p+q, k
	ar, ac, br, bc := p, k, q, k
	if aug {
		mr, mc = k, p+q
		ar, ac, br, bc = k, p, k, q
	}
	or, oc := ar, ac // shape of the aliased window
	if pos == 1 {
		or, oc = br, bc
	}
	ri := verifChoose("ri", 0, side-mr)
	rj := verifChoose("rj", 0, side-mc)
	ai := verifChoose("ai", 0, side-or)
	aj := verifChoose("aj", 0, side-oc)
	share := verifC05rectShare(ri, rj, mr, mc, ai, aj, or, oc)
	g := verifC05newGeo("back", side)
	m := g.win(ri, rj, mr, mc)
	w := g.win(ai, aj, or, oc)
	fr, fc := br, bc // shape of the fresh operand
	if pos == 1 {
		fr, fc = ar, ac
	}
	fd := verifFloats("f", fr*fc)
	f := NewDense(fr, fc, fd)
	wv := make([]float64, or*oc)
	for i := 0; i < or; i++ {
		for j := 0; j < oc; j++ {
			wv[i*oc+j] = w.At(i, j)
		}
	}
	var a, b Matrix = w, f
	av, bv := wv, fd
	if pos == 1 {
		a, b = f, w
		av, bv = fd, wv
	}
	want := make([]float64, mr*mc)
	for i := 0; i < mr; i++ {
		for j := 0; j < mc; j++ {
			switch {
			case !aug && i < ar:
				want[i*mc+j] = av[i*ac+j]
			case !aug:
				want[i*mc+j] = bv[(i-ar)*bc+j]
			case j < ac:
				want[i*mc+j] = av[i*ac+j]
			default:
				want[i*mc+j] = bv[i*bc+j-ac]
			}
		}
	}
	name := "Stack"
	call := func() { m.Stack(a, b) }
	if aug {
		name = "Augment"
		call = func() { m.Augment(a, b) }
	}
	panicked, fault, pmsg := verifCatch(call)
	verifAssert(!fault, name+": no runtime fault")
	if panicked {
		verifAssert(share, name+": element-disjoint windows must not panic")
		verifAssert(verifC05isBadRegion(pmsg), name+": panic message starts with \"mat: bad region\"")
		g.allUntouched(name)
	} else {
		g.checkWin(ri, rj, mr, mc, want, name+" (returned)")
	}
	verifReach("end")
}
