package mat

// C07 for package mat: constructors, views and element accessors validate their arguments with
// the package's own panics (never a runtime fault), accept every argument tuple that satisfies the
// documented contract, and do not modify the operand before panicking.

func verifC07same(now, before []float64, msg string) {
	for i := range now {
		verifAssert(verifSame(now[i], before[i]), msg)
	}
}

// verifC07data: nil (kind 0) or a slice of symbolic length over a backing of capN cells (kind 1).
func verifC07data(name string, capN int) (backing, data []float64) {
	backing = verifFloats(name, capN)
	if verifChoose(name+"Nil", 0, 1) == 0 {
		return backing, nil
	}
	return backing, verifSetLen(backing, verifInt("len_"+name, 0, capN))
}

// VerifC07_NewDense: panics unless r > 0, c > 0 and (data == nil or len(data) == r*c).
func VerifC07_NewDense() {
	r := verifInt("r", -2, 4)
	c := verifInt("c", -2, 4)
	_, data := verifC07data("data", 17)
	var m *Dense
	panicked, fault, _ := verifCatch(func() { m = NewDense(r, c, data) })
	valid := verifAnd(verifAnd(r > 0, c > 0), verifOr(data == nil, len(data) == r*c))
	verifAssert(verifNot(fault), "NewDense: no runtime fault")
	verifAssert(verifIff(valid, verifNot(panicked)), "NewDense: panics exactly on contract violations")
	if !panicked {
		rr, cc := m.Dims()
		verifAssert(verifAnd(rr == r, cc == c), "NewDense: dimensions")
		verifAssert(verifAnd(m.mat.Stride == c, len(m.mat.Data) == r*c), "NewDense: stride and backing length")
		verifReach("return")
	} else {
		verifReach("panic")
	}
}

// verifC07dense: an r x c matrix (symbolic cells) that is either a whole matrix (view=0) or the
// top-left window of an (r+1) x (c+1) matrix (view=1: stride > cols, capacity > dims).
func verifC07dense(name string) (m *Dense, backing []float64, r, c int) {
	maxd := verifParam("matdim", 3)
	r = verifChoose(name+"r", 1, maxd)
	c = verifChoose(name+"c", 1, maxd)
	if verifChoose(name+"view", 0, 1) == 0 {
		backing = verifFloats(name, r*c)
		return NewDense(r, c, backing), backing, r, c
	}
	backing = verifFloats(name, (r+1)*(c+1))
	big := NewDense(r+1, c+1, backing)
	return big.slice(0, r, 0, c), backing, r, c
}

// VerifC07_DenseAtSet: At/Set accept exactly 0 <= i < rows, 0 <= j < cols; At returns the cell
// i*stride+j; Set writes only that cell; a rejected call writes nothing.
func VerifC07_DenseAtSet() {
	m, backing, r, c := verifC07dense("m")
	i := verifInt("i", -2, 5)
	j := verifInt("j", -2, 5)
	v := verifFloat("v")
	b0 := append([]float64(nil), backing...)
	valid := verifAnd(verifAnd(i >= 0, i < r), verifAnd(j >= 0, j < c))
	stride := m.mat.Stride

	var got float64
	panicked, fault, _ := verifCatch(func() { got = m.At(i, j) })
	verifAssert(verifNot(fault), "Dense.At: no runtime fault")
	verifAssert(verifIff(valid, verifNot(panicked)), "Dense.At: panics exactly for out-of-range indices")
	verifC07same(backing, b0, "Dense.At: matrix unchanged")
	if !panicked {
		verifAssert(verifSame(got, b0[i*stride+j]), "Dense.At: returns element (i,j)")
	}

	panicked, fault, _ = verifCatch(func() { m.Set(i, j, v) })
	verifAssert(verifNot(fault), "Dense.Set: no runtime fault")
	verifAssert(verifIff(valid, verifNot(panicked)), "Dense.Set: panics exactly for out-of-range indices")
	if panicked {
		verifC07same(backing, b0, "Dense.Set: nothing written before the panic")
		verifReach("panic")
	} else {
		for p := range backing {
			want := verifIteF(p == i*stride+j, v, b0[p])
			verifAssert(verifSame(backing[p], want), "Dense.Set: writes exactly element (i,j)")
		}
		verifReach("return")
	}
}

// VerifC07_DenseSlice: Slice(i,k,j,l) accepts exactly 0 <= i < k <= capRows, 0 <= j < l <= capCols
// (a window inside the capacity with at least one row and one column) and returns the aliasing
// window; every other tuple panics with a mat error (ErrIndexOutOfRange / ErrZeroLength), never
// with a runtime slice-bounds fault.
func VerifC07_DenseSlice() {
	m, backing, _, _ := verifC07dense("m")
	mr, mc := m.Caps()
	i := verifInt("i", -1, 6)
	k := verifInt("k", -1, 6)
	j := verifInt("j", -1, 6)
	l := verifInt("l", -1, 6)
	b0 := append([]float64(nil), backing...)
	stride := m.mat.Stride
	var s *Dense
	panicked, fault, _ := verifCatch(func() { s = m.Slice(i, k, j, l).(*Dense) })
	valid := verifAnd(verifAnd(verifAnd(i >= 0, i < k), k <= mr), verifAnd(verifAnd(j >= 0, j < l), l <= mc))
	verifAssert(verifNot(fault), "Dense.Slice: no runtime fault")
	verifAssert(verifIff(valid, verifNot(panicked)), "Dense.Slice: panics exactly when the window is empty or outside the capacity")
	verifC07same(backing, b0, "Dense.Slice: matrix unchanged")
	if !panicked {
		rr, cc := s.Dims()
		verifAssert(verifAnd(rr == k-i, cc == l-j), "Dense.Slice: dimensions of the window")
		verifAssert(s.mat.Stride == stride, "Dense.Slice: stride inherited")
		sr, sc := s.Caps()
		verifAssert(verifAnd(sr == mr-i, sc == mc-j), "Dense.Slice: capacity of the window")
		// the window aliases the receiver: first and last element
		verifAssert(verifSame(s.At(0, 0), b0[i*stride+j]), "Dense.Slice: element (0,0) is (i,j) of the receiver")
		verifAssert(len(s.mat.Data) == (k-i-1)*stride+(l-j), "Dense.Slice: backing extent")
		verifReach("return")
	} else {
		verifReach("panic")
	}
}

// VerifC07_DenseRowColView: RowView/ColView/RawRowView/SetRow/SetCol index and length contracts.
func VerifC07_DenseRowColView() {
	m, backing, r, c := verifC07dense("m")
	idx := verifInt("idx", -2, 5)
	b0 := append([]float64(nil), backing...)
	stride := m.mat.Stride
	which := verifChoose("which", 0, 4)
	switch which {
	case 0: // RowView
		var v Vector
		panicked, fault, _ := verifCatch(func() { v = m.RowView(idx) })
		verifAssert(verifNot(fault), "Dense.RowView: no runtime fault")
		verifAssert(verifIff(verifAnd(idx >= 0, idx < r), verifNot(panicked)), "Dense.RowView: panics exactly for a row out of range")
		if !panicked {
			verifAssert(v.Len() == c, "Dense.RowView: length")
			for q := 0; q < c; q++ {
				verifAssert(verifSame(v.AtVec(q), b0[idx*stride+q]), "Dense.RowView: elements of row idx")
			}
		}
	case 1: // ColView
		var v Vector
		panicked, fault, _ := verifCatch(func() { v = m.ColView(idx) })
		verifAssert(verifNot(fault), "Dense.ColView: no runtime fault")
		verifAssert(verifIff(verifAnd(idx >= 0, idx < c), verifNot(panicked)), "Dense.ColView: panics exactly for a column out of range")
		if !panicked {
			verifAssert(v.Len() == r, "Dense.ColView: length")
			for q := 0; q < r; q++ {
				verifAssert(verifSame(v.AtVec(q), b0[q*stride+idx]), "Dense.ColView: elements of column idx")
			}
		}
	case 2: // RawRowView
		var row []float64
		panicked, fault, _ := verifCatch(func() { row = m.RawRowView(idx) })
		verifAssert(verifNot(fault), "Dense.RawRowView: no runtime fault")
		verifAssert(verifIff(verifAnd(idx >= 0, idx < r), verifNot(panicked)), "Dense.RawRowView: panics exactly for a row out of range")
		if !panicked {
			verifAssert(len(row) == c, "Dense.RawRowView: length")
		}
	case 3: // SetRow
		_, src := verifC07data("src", 5)
		panicked, fault, _ := verifCatch(func() { m.SetRow(idx, src) })
		valid := verifAnd(verifAnd(idx >= 0, idx < r), len(src) == c)
		verifAssert(verifNot(fault), "Dense.SetRow: no runtime fault")
		verifAssert(verifIff(valid, verifNot(panicked)), "Dense.SetRow: panics exactly for a bad row or length")
		if panicked {
			verifC07same(backing, b0, "Dense.SetRow: nothing written before the panic")
		} else {
			for p := range backing {
				in := verifAnd(p >= idx*stride, p < idx*stride+c)
				if src != nil {
					q := verifIteInt(in, p-idx*stride, 0)
					verifAssert(verifSame(backing[p], verifIteF(in, src[q], b0[p])), "Dense.SetRow: writes exactly row idx")
				}
			}
		}
	case 4: // SetCol
		_, src := verifC07data("src", 5)
		panicked, fault, _ := verifCatch(func() { m.SetCol(idx, src) })
		valid := verifAnd(verifAnd(idx >= 0, idx < c), len(src) == r)
		verifAssert(verifNot(fault), "Dense.SetCol: no runtime fault")
		verifAssert(verifIff(valid, verifNot(panicked)), "Dense.SetCol: panics exactly for a bad column or length")
		if panicked {
			verifC07same(backing, b0, "Dense.SetCol: nothing written before the panic")
		}
	}
	if which < 3 {
		verifC07same(backing, b0, "Dense views: matrix unchanged")
	}
	verifReach("end")
}

// VerifC07_NewVecDense: panics unless n > 0 and (data == nil or len(data) == n).
func VerifC07_NewVecDense() {
	n := verifInt("n", -2, 6)
	_, data := verifC07data("data", 7)
	var v *VecDense
	panicked, fault, _ := verifCatch(func() { v = NewVecDense(n, data) })
	valid := verifAnd(n > 0, verifOr(data == nil, len(data) == n))
	verifAssert(verifNot(fault), "NewVecDense: no runtime fault")
	verifAssert(verifIff(valid, verifNot(panicked)), "NewVecDense: panics exactly on contract violations")
	if !panicked {
		verifAssert(verifAnd(v.Len() == n, v.mat.Inc == 1), "NewVecDense: length and increment")
		verifAssert(len(v.mat.Data) == n, "NewVecDense: backing length")
	}
	verifReach("end")
}

// verifC07vec: a vector of n elements with increment 1 (kind 0) or a column view of an n x 2
// matrix (increment 2, kind 1).
func verifC07vec(name string) (v *VecDense, backing []float64, n, inc int) {
	n = verifChoose(name+"n", 1, verifParam("vecn", 4))
	if verifChoose(name+"kind", 0, 1) == 0 {
		backing = verifFloats(name, n)
		return NewVecDense(n, backing), backing, n, 1
	}
	backing = verifFloats(name, 2*n)
	m := NewDense(n, 2, backing)
	return m.ColView(0).(*VecDense), backing, n, 2
}

// VerifC07_VecDenseAtSetSlice: AtVec/SetVec/At/SliceVec index contracts on unit and strided vectors.
func VerifC07_VecDenseAtSetSlice() {
	v, backing, n, inc := verifC07vec("v")
	b0 := append([]float64(nil), backing...)
	i := verifInt("i", -2, 6)
	k := verifInt("k", -2, 6)
	val := verifFloat("val")
	valid := verifAnd(i >= 0, i < n)
	switch verifChoose("which", 0, 3) {
	case 0:
		var got float64
		panicked, fault, _ := verifCatch(func() { got = v.AtVec(i) })
		verifAssert(verifNot(fault), "VecDense.AtVec: no runtime fault")
		verifAssert(verifIff(valid, verifNot(panicked)), "VecDense.AtVec: panics exactly for an index out of range")
		if !panicked {
			verifAssert(verifSame(got, b0[i*inc]), "VecDense.AtVec: element i")
		}
		verifC07same(backing, b0, "VecDense.AtVec: vector unchanged")
	case 1:
		var got float64
		panicked, fault, _ := verifCatch(func() { got = v.At(i, k) })
		verifAssert(verifNot(fault), "VecDense.At: no runtime fault")
		verifAssert(verifIff(verifAnd(valid, k == 0), verifNot(panicked)), "VecDense.At: panics exactly for i out of range or j != 0")
		if !panicked {
			verifAssert(verifSame(got, b0[i*inc]), "VecDense.At: element i")
		}
		verifC07same(backing, b0, "VecDense.At: vector unchanged")
	case 2:
		panicked, fault, _ := verifCatch(func() { v.SetVec(i, val) })
		verifAssert(verifNot(fault), "VecDense.SetVec: no runtime fault")
		verifAssert(verifIff(valid, verifNot(panicked)), "VecDense.SetVec: panics exactly for an index out of range")
		if panicked {
			verifC07same(backing, b0, "VecDense.SetVec: nothing written before the panic")
		} else {
			for p := range backing {
				verifAssert(verifSame(backing[p], verifIteF(p == i*inc, val, b0[p])), "VecDense.SetVec: writes exactly element i")
			}
		}
	case 3:
		var s *VecDense
		panicked, fault, _ := verifCatch(func() { s = v.SliceVec(i, k).(*VecDense) })
		ok := verifAnd(verifAnd(i >= 0, i < k), k <= v.Cap())
		verifAssert(verifNot(fault), "VecDense.SliceVec: no runtime fault")
		verifAssert(verifIff(ok, verifNot(panicked)), "VecDense.SliceVec: panics exactly when the range is empty or outside the capacity")
		if !panicked {
			verifAssert(verifAnd(s.Len() == k-i, s.mat.Inc == inc), "VecDense.SliceVec: length and increment")
			verifAssert(verifSame(s.AtVec(0), b0[i*inc]), "VecDense.SliceVec: element 0 is element i of the receiver")
			verifAssert(len(s.mat.Data) == (k-i-1)*inc+1, "VecDense.SliceVec: backing extent")
		}
		verifC07same(backing, b0, "VecDense.SliceVec: vector unchanged")
	}
	verifReach("end")
}

// VerifC07_NewSymTriDense: NewSymDense / NewTriDense panic unless n > 0 and
// (data == nil or len(data) == n*n).
func VerifC07_NewSymTriDense() {
	n := verifInt("n", -2, 4)
	_, data := verifC07data("data", 17)
	valid := verifAnd(n > 0, verifOr(data == nil, len(data) == n*n))
	switch verifChoose("which", 0, 2) {
	case 0:
		var s *SymDense
		panicked, fault, _ := verifCatch(func() { s = NewSymDense(n, data) })
		verifAssert(verifNot(fault), "NewSymDense: no runtime fault")
		verifAssert(verifIff(valid, verifNot(panicked)), "NewSymDense: panics exactly on contract violations")
		if !panicked {
			verifAssert(verifAnd(s.SymmetricDim() == n, s.mat.Stride == n), "NewSymDense: dimension and stride")
		}
	default:
		kind := Upper
		if verifChoose("lower", 0, 1) == 1 {
			kind = Lower
		}
		var t *TriDense
		panicked, fault, _ := verifCatch(func() { t = NewTriDense(n, kind, data) })
		verifAssert(verifNot(fault), "NewTriDense: no runtime fault")
		verifAssert(verifIff(valid, verifNot(panicked)), "NewTriDense: panics exactly on contract violations")
		if !panicked {
			nn, k2 := t.Triangle()
			verifAssert(verifAnd(nn == n, k2 == kind), "NewTriDense: dimension and kind")
		}
	}
	verifReach("end")
}

// VerifC07_SymTriAtSet: SymDense.At/SetSym and TriDense.At/SetTri index contracts.
func VerifC07_SymTriAtSet() {
	n := verifChoose("n", 1, verifParam("matdim", 3))
	backing := verifFloats("a", n*n)
	b0 := append([]float64(nil), backing...)
	i := verifInt("i", -2, 5)
	j := verifInt("j", -2, 5)
	v := verifFloat("v")
	inRange := verifAnd(verifAnd(i >= 0, i < n), verifAnd(j >= 0, j < n))
	switch verifChoose("which", 0, 3) {
	case 0:
		s := NewSymDense(n, backing)
		var got float64
		panicked, fault, _ := verifCatch(func() { got = s.At(i, j) })
		verifAssert(verifNot(fault), "SymDense.At: no runtime fault")
		verifAssert(verifIff(inRange, verifNot(panicked)), "SymDense.At: panics exactly for out-of-range indices")
		if !panicked {
			lo, hi := verifIteInt(i < j, i, j), verifIteInt(i < j, j, i)
			verifAssert(verifSame(got, b0[lo*n+hi]), "SymDense.At: element of the upper triangle")
		}
		verifC07same(backing, b0, "SymDense.At: matrix unchanged")
	case 1:
		s := NewSymDense(n, backing)
		panicked, fault, _ := verifCatch(func() { s.SetSym(i, j, v) })
		verifAssert(verifNot(fault), "SymDense.SetSym: no runtime fault")
		verifAssert(verifIff(inRange, verifNot(panicked)), "SymDense.SetSym: panics exactly for out-of-range indices")
		if panicked {
			verifC07same(backing, b0, "SymDense.SetSym: nothing written before the panic")
		} else {
			lo, hi := verifIteInt(i < j, i, j), verifIteInt(i < j, j, i)
			for p := range backing {
				verifAssert(verifSame(backing[p], verifIteF(p == lo*n+hi, v, b0[p])), "SymDense.SetSym: writes exactly the upper-triangle cell")
			}
		}
	default:
		kind := Upper
		if verifChoose("lower", 0, 1) == 1 {
			kind = Lower
		}
		t := NewTriDense(n, kind, backing)
		var tri bool // (i,j) lies in the stored triangle
		if kind == Upper {
			tri = i <= j
		} else {
			tri = i >= j
		}
		if verifChoose("set", 0, 1) == 0 {
			var got float64
			panicked, fault, _ := verifCatch(func() { got = t.At(i, j) })
			verifAssert(verifNot(fault), "TriDense.At: no runtime fault")
			verifAssert(verifIff(inRange, verifNot(panicked)), "TriDense.At: panics exactly for out-of-range indices")
			if !panicked {
				p := verifIteInt(tri, i*n+j, 0)
				verifAssert(verifSame(got, verifIteF(tri, b0[p], 0)), "TriDense.At: stored element inside the triangle, zero outside")
			}
			verifC07same(backing, b0, "TriDense.At: matrix unchanged")
		} else {
			panicked, fault, _ := verifCatch(func() { t.SetTri(i, j, v) })
			verifAssert(verifNot(fault), "TriDense.SetTri: no runtime fault")
			verifAssert(verifIff(verifAnd(inRange, tri), verifNot(panicked)), "TriDense.SetTri: panics exactly for out-of-range or wrong-triangle indices")
			if panicked {
				verifC07same(backing, b0, "TriDense.SetTri: nothing written before the panic")
			} else {
				for p := range backing {
					verifAssert(verifSame(backing[p], verifIteF(p == i*n+j, v, b0[p])), "TriDense.SetTri: writes exactly element (i,j)")
				}
			}
		}
	}
	verifReach("end")
}

// VerifC07_NewBandDense: panics unless r,c > 0, kl,ku >= 0, kl+1 <= r, ku+1 <= c and
// (data == nil or len(data) == min(r, c+kl)*(kl+ku+1)).
func VerifC07_NewBandDense() {
	r := verifInt("r", -1, 3)
	c := verifInt("c", -1, 3)
	kl := verifInt("kl", -1, 3)
	ku := verifInt("ku", -1, 3)
	_, data := verifC07data("data", 16)
	var b *BandDense
	panicked, fault, _ := verifCatch(func() { b = NewBandDense(r, c, kl, ku, data) })
	rows := verifIteInt(r < c+kl, r, c+kl)
	valid := verifAnd(verifAnd(verifAnd(r > 0, c > 0), verifAnd(kl >= 0, ku >= 0)),
		verifAnd(verifAnd(kl+1 <= r, ku+1 <= c), verifOr(data == nil, len(data) == rows*(kl+ku+1))))
	verifAssert(verifNot(fault), "NewBandDense: no runtime fault")
	verifAssert(verifIff(valid, verifNot(panicked)), "NewBandDense: panics exactly on contract violations")
	if !panicked {
		rr, cc := b.Dims()
		bl, bu := b.Bandwidth()
		verifAssert(verifAnd(verifAnd(rr == r, cc == c), verifAnd(bl == kl, bu == ku)), "NewBandDense: dimensions and bandwidth")
	}
	verifReach("end")
}

// VerifC07_BandAtSet: BandDense.At/SetBand index contracts (At is zero outside the band,
// SetBand panics outside the band).
func VerifC07_BandAtSet() {
	maxd := verifParam("matdim", 3)
	r := verifChoose("r", 1, maxd)
	c := verifChoose("c", 1, maxd)
	kl := verifChoose("kl", 0, r-1)
	ku := verifChoose("ku", 0, c-1)
	rows := r
	if c+kl < rows {
		rows = c + kl
	}
	bc := kl + ku + 1
	backing := verifFloats("a", rows*bc)
	b0 := append([]float64(nil), backing...)
	b := NewBandDense(r, c, kl, ku, backing)
	i := verifInt("i", -2, 5)
	j := verifInt("j", -2, 5)
	v := verifFloat("v")
	inRange := verifAnd(verifAnd(i >= 0, i < r), verifAnd(j >= 0, j < c))
	inBand := verifAnd(j-i <= ku, i-j <= kl)
	if verifChoose("set", 0, 1) == 0 {
		var got float64
		panicked, fault, _ := verifCatch(func() { got = b.At(i, j) })
		verifAssert(verifNot(fault), "BandDense.At: no runtime fault")
		verifAssert(verifIff(inRange, verifNot(panicked)), "BandDense.At: panics exactly for out-of-range indices")
		if !panicked {
			p := verifIteInt(inBand, i*bc+kl+j-i, 0)
			verifAssert(verifSame(got, verifIteF(inBand, b0[p], 0)), "BandDense.At: stored element inside the band, zero outside")
		}
		verifC07same(backing, b0, "BandDense.At: matrix unchanged")
	} else {
		panicked, fault, _ := verifCatch(func() { b.SetBand(i, j, v) })
		verifAssert(verifNot(fault), "BandDense.SetBand: no runtime fault")
		verifAssert(verifIff(verifAnd(inRange, inBand), verifNot(panicked)), "BandDense.SetBand: panics exactly for out-of-range or out-of-band indices")
		if panicked {
			verifC07same(backing, b0, "BandDense.SetBand: nothing written before the panic")
		} else {
			for p := range backing {
				verifAssert(verifSame(backing[p], verifIteF(p == i*bc+kl+j-i, v, b0[p])), "BandDense.SetBand: writes exactly element (i,j)")
			}
		}
	}
	verifReach("end")
}
