package mat

import "gonum.org/v1/gonum/blas/blas64"

// C06: QR and LQ. Two kinds of harness:
//
//  * extraction from an ARBITRARY valid object (reflector vectors and tau
//    symbolic, no Householder generation): QTo equals the product of the
//    elementary reflectors H_i = I - tau_i v_i v_iᵀ, RTo/LTo the triangle,
//    At(i,j) == (Q*R)[i][j] on both of At's code paths (Q not yet formed /
//    Q cached), and extraction is idempotent;
//  * histories on ONE receiver through the real Factorize (Dgeqrf/Dgelqf with
//    Householder generation, sizes <= 2x2): after Factorize(A1), an optional
//    extraction of Q, and Factorize(A2), everything extracted describes A2.

// verifC06qrQ returns the m×m product H_0 H_1 ... H_{k-1} (row-major) for the
// reflectors stored LAPACK-style below the diagonal of the m×n matrix f.
func verifC06qrQ(f []float64, stride, m, n int, tau []float64) []float64 {
	q := make([]float64, m*m)
	for i := 0; i < m; i++ {
		q[i*m+i] = 1
	}
	k := n
	if m < k {
		k = m
	}
	for r := 0; r < k; r++ {
		v := make([]float64, m)
		v[r] = 1
		for i := r + 1; i < m; i++ {
			v[i] = f[i*stride+r]
		}
		// q = q * (I - tau v vᵀ)
		nq := make([]float64, m*m)
		for i := 0; i < m; i++ {
			var qv float64
			for l := 0; l < m; l++ {
				qv += q[i*m+l] * v[l]
			}
			for j := 0; j < m; j++ {
				nq[i*m+j] = q[i*m+j] - tau[r]*qv*v[j]
			}
		}
		q = nq
	}
	return q
}

// VerifC06_QRExtract: QTo / RTo / At from an arbitrary valid QR object.
func VerifC06_QRExtract() {
	m := verifChoose("m", 1, verifParam("c06qm", 3))
	n := verifChoose("n", 1, m)
	if n > verifParam("c06qn", 2) {
		verifAssume(false)
	}
	pad := verifChoose("pad", 0, 1)
	cached := verifChoose("cached", 0, 1) // 1: Q has been formed before At is called
	stride := n + pad
	back := verifFloats("f", m*stride)
	snap := append([]float64(nil), back...)
	tau := verifFloats("tau", n)
	qr := &QR{qr: &Dense{mat: verifC06general(m, n, stride, back), capRows: m, capCols: n}, tau: tau, cond: 1}
	wantQ := verifC06qrQ(snap, stride, m, n, tau)
	wantA := make([]float64, m*n)
	for i := 0; i < m; i++ {
		for j := 0; j < n; j++ {
			var s float64
			for l := 0; l <= j && l < m; l++ {
				s += wantQ[i*m+l] * snap[l*stride+j]
			}
			wantA[i*n+j] = s
		}
	}
	var q1, q2, r Dense
	if cached == 1 {
		qr.QTo(&q1)
	}
	for i := 0; i < m; i++ {
		for j := 0; j < n; j++ {
			verifAssertEqF(qr.At(i, j), wantA[i*n+j], "QR.At(i,j) == (Q*R)[i][j]")
		}
	}
	qr.QTo(&q2)
	qr.RTo(&r)
	qm, qn := q2.Dims()
	rm, rn := r.Dims()
	verifAssert(qm == m && qn == m && rm == m && rn == n, "QTo is m×m, RTo is m×n")
	for i := 0; i < m; i++ {
		for j := 0; j < m; j++ {
			verifAssertEqF(q2.At(i, j), wantQ[i*m+j], "QTo == H_0 H_1 ... H_{n-1}")
			if cached == 1 {
				verifAssertEqF(q1.At(i, j), q2.At(i, j), "QTo twice gives the same Q")
			}
		}
		for j := 0; j < n; j++ {
			want := 0.0
			if i <= j {
				want = snap[i*stride+j]
			}
			verifAssertEqF(r.At(i, j), want, "RTo == upper trapezoid of the packed factor")
		}
	}
	for i := range back {
		verifAssert(verifSame(back[i], snap[i]), "extraction leaves the packed factor untouched")
	}
	verifReach("end")
}

func verifC06general(r, c, stride int, data []float64) blas64.General {
	return blas64.General{Rows: r, Cols: c, Stride: stride, Data: data}
}

// verifC06lqQ returns the n×n product H_{k-1} ... H_1 H_0 applied as LAPACK's
// Dorglq defines it: Q = H_{k-1} ... H_0 with v_i stored in row i right of the
// diagonal of the m×n matrix f.
func verifC06lqQ(f []float64, stride, m, n int, tau []float64) []float64 {
	q := make([]float64, n*n)
	for i := 0; i < n; i++ {
		q[i*n+i] = 1
	}
	k := m
	if n < k {
		k = n
	}
	for r := 0; r < k; r++ {
		v := make([]float64, n)
		v[r] = 1
		for j := r + 1; j < n; j++ {
			v[j] = f[r*stride+j]
		}
		// q = (I - tau v vᵀ) * q
		nq := make([]float64, n*n)
		for j := 0; j < n; j++ {
			var vq float64
			for l := 0; l < n; l++ {
				vq += v[l] * q[l*n+j]
			}
			for i := 0; i < n; i++ {
				nq[i*n+j] = q[i*n+j] - tau[r]*v[i]*vq
			}
		}
		q = nq
	}
	return q
}

// VerifC06_LQExtract: QTo / LTo / At from an arbitrary valid LQ object.
func VerifC06_LQExtract() {
	n := verifChoose("n", 1, verifParam("c06qm", 3))
	m := verifChoose("m", 1, n)
	if m > verifParam("c06qn", 2) {
		verifAssume(false)
	}
	pad := verifChoose("pad", 0, 1)
	cached := verifChoose("cached", 0, 1)
	stride := n + pad
	back := verifFloats("f", m*stride)
	snap := append([]float64(nil), back...)
	tau := verifFloats("tau", m)
	lq := &LQ{lq: &Dense{mat: verifC06general(m, n, stride, back), capRows: m, capCols: n}, tau: tau, cond: 1}
	lq.updateQ() // LQ forms Q eagerly in factorize: a valid object carries it
	wantQ := verifC06lqQ(snap, stride, m, n, tau)
	var q1, q2, l Dense
	if cached == 1 {
		lq.QTo(&q1)
	}
	lq.QTo(&q2)
	lq.LTo(&l)
	qm, qn := q2.Dims()
	lm, ln := l.Dims()
	verifAssert(qm == n && qn == n && lm == m && ln == n, "QTo is n×n, LTo is m×n")
	for i := 0; i < n; i++ {
		for j := 0; j < n; j++ {
			if cached == 1 {
				verifAssertEqF(q1.At(i, j), q2.At(i, j), "QTo twice gives the same Q")
			}
		}
	}
	// Q's rows 0..m-1 are what A = L*Q uses; compare the full product.
	for i := 0; i < m; i++ {
		for j := 0; j < n; j++ {
			want := 0.0
			if j <= i {
				want = snap[i*stride+j]
			}
			verifAssertEqF(l.At(i, j), want, "LTo == lower trapezoid of the packed factor")
			var s float64
			for k := 0; k <= i && k < n; k++ {
				s += snap[i*stride+k] * q2.At(k, j)
			}
			verifAssertEqF(lq.At(i, j), s, "LQ.At(i,j) == (L*Q)[i][j]")
		}
	}
	// the leading m rows of Q equal the reflector product (Dorglq's definition
	// for the rows it is asked to generate; the remaining rows complete an
	// orthonormal basis and are compared too since QTo documents the full Q).
	for i := 0; i < n; i++ {
		for j := 0; j < n; j++ {
			verifAssertEqF(q2.At(i, j), wantQ[i*n+j], "QTo == H_{m-1} ... H_0")
		}
	}
	for i := range back {
		verifAssert(verifSame(back[i], snap[i]), "extraction leaves the packed factor untouched")
	}
	verifReach("end")
}

// VerifC06_QRHistory: Factorize(A1) [extract Q] Factorize(A2) on one receiver;
// afterwards Q*R == A2, QᵀQ == I, R upper trapezoidal, At == A2.
func VerifC06_QRHistory() {
	verifC06stubCond()
	m := verifChoose("m", 1, verifParam("c06hm", 2))
	n := verifChoose("n", 1, m)
	hist := verifChoose("hist", 0, 3) // 0: fresh receiver; 1: Factorize(A1); 2: +QTo; 3: +At
	// The first matrix is concrete (history effects such as a stale cached Q
	// do not need it symbolic; a concrete A1 leaves concrete stale state that
	// differs from every symbolic Q of A2), the second one is symbolic.
	a1 := []float64{3, 1, 4, 2}[:m*n]
	a2 := verifFloats("a2", m*n)
	verifC06notTiny(a2)
	var qr QR
	if hist >= 1 {
		qr.Factorize(NewDense(m, n, append([]float64(nil), a1...)))
		if hist == 2 {
			var q Dense
			qr.QTo(&q)
		}
		if hist == 3 {
			_ = qr.At(m-1, n-1)
		}
	}
	qr.Factorize(NewDense(m, n, append([]float64(nil), a2...)))
	// orthogonality of Q is a property of Dgeqrf/Dorgqr, independent of the
	// receiver's history: it is asserted for the fresh receiver only (the
	// NRA query is the expensive one)
	verifC06qrCheck(&qr, a2, m, n, hist == 0)
	verifReach("end")
}

func verifC06qrCheck(qr *QR, a []float64, m, n int, orth bool) {
	var q, r Dense
	qr.QTo(&q)
	qr.RTo(&r)
	for i := 0; i < m; i++ {
		for j := 0; j < n; j++ {
			var s float64
			for k := 0; k < m; k++ {
				s += q.At(i, k) * r.At(k, j)
			}
			verifAssertEqF(s, a[i*n+j], "Q*R == A for the matrix factorized last")
			verifAssertEqF(qr.At(i, j), a[i*n+j], "QR.At == A for the matrix factorized last")
			if i > j {
				verifAssertEqF(r.At(i, j), 0, "R is upper trapezoidal")
			}
		}
		for j := 0; j < m && orth; j++ {
			var s float64
			for k := 0; k < m; k++ {
				s += q.At(k, i) * q.At(k, j)
			}
			want := 0.0
			if i == j {
				want = 1
			}
			verifAssertEqF(s, want, "QᵀQ == I")
		}
	}
}

// VerifC06_LQHistory: the LQ twin of VerifC06_QRHistory.
func VerifC06_LQHistory() {
	verifC06stubCond()
	n := verifChoose("n", 1, verifParam("c06hm", 2))
	m := verifChoose("m", 1, n)
	hist := verifChoose("hist", 0, 3)
	a1 := []float64{3, 1, 4, 2}[:m*n]
	a2 := verifFloats("a2", m*n)
	verifC06notTiny(a2)
	var lq LQ
	if hist >= 1 {
		lq.Factorize(NewDense(m, n, append([]float64(nil), a1...)))
		if hist == 2 {
			var q Dense
			lq.QTo(&q)
		}
		if hist == 3 {
			_ = lq.At(m-1, n-1)
		}
	}
	lq.Factorize(NewDense(m, n, append([]float64(nil), a2...)))
	var q, l Dense
	lq.QTo(&q)
	lq.LTo(&l)
	for i := 0; i < m; i++ {
		for j := 0; j < n; j++ {
			var s float64
			for k := 0; k < n; k++ {
				s += l.At(i, k) * q.At(k, j)
			}
			verifAssertEqF(s, a2[i*n+j], "L*Q == A for the matrix factorized last")
			verifAssertEqF(lq.At(i, j), a2[i*n+j], "LQ.At == A for the matrix factorized last")
			if j > i {
				verifAssertEqF(l.At(i, j), 0, "L is lower trapezoidal")
			}
		}
	}
	for i := 0; i < n && hist == 0; i++ {
		for j := 0; j < n; j++ {
			var s float64
			for k := 0; k < n; k++ {
				s += q.At(i, k) * q.At(j, k)
			}
			want := 0.0
			if i == j {
				want = 1
			}
			verifAssertEqF(s, want, "QQᵀ == I")
		}
	}
	verifReach("end")
}

// verifC06notTiny keeps Dlarfg out of its safmin rescaling loop (up to 20
// data-dependent iterations): every entry is exactly zero or at least 1e-100
// in magnitude. Stated as a bound of the history harnesses.
func verifC06notTiny(a []float64) {
	for _, v := range a {
		verifAssume(verifOr(v == 0, verifOr(v >= 1e-100, v <= -1e-100)))
	}
}
