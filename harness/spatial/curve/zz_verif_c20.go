package curve

func verifAbsInt(x int) int { return verifIteInt(x < 0, -x, x) }

type verifCurve interface {
	Dims() []int
	Len() int
	Pos(v []int) int
	Coord(dst []int, pos int) []int
}

// verifHilbertBijection checks, for every position p and coordinate vector v
// (all symbolic), that Coord and Pos are mutually inverse, stay in range and
// that consecutive positions are unit-distance neighbours.
func verifHilbertBijection(h verifCurve, nd int) {
	verifMerge(true)
	ln := h.Len()
	dims := h.Dims()
	p := verifInt("p", 0, ln-1)
	c := h.Coord(nil, p)
	keep := make([]int, nd)
	for i := 0; i < nd; i++ {
		verifAssert(verifAnd(c[i] >= 0, c[i] < dims[i]), "Coord(p) lies inside Dims")
		keep[i] = c[i]
	}
	verifAssert(h.Pos(c) == p, "Pos(Coord(p)) == p")

	// adjacency
	q := verifInt("q", 0, ln-2)
	a := h.Coord(nil, q)
	b := h.Coord(nil, q+1)
	dist := 0
	for i := 0; i < nd; i++ {
		dist += verifAbsInt(a[i] - b[i])
	}
	verifAssert(dist == 1, "Coord(q) and Coord(q+1) are unit-step neighbours")

	// the other direction
	v := make([]int, nd)
	v0 := make([]int, nd)
	for i := 0; i < nd; i++ {
		v[i] = verifInt("v"+string(rune('0'+i)), 0, dims[i]-1)
		v0[i] = v[i]
	}
	pos := h.Pos(v)
	verifAssert(verifAnd(pos >= 0, pos < ln), "Pos(v) lies in [0, Len)")
	back := h.Coord(nil, pos)
	for i := 0; i < nd; i++ {
		verifAssert(back[i] == v0[i], "Coord(Pos(v)) == v")
	}
	verifReach("end")
}

func VerifC20_Hilbert2D() {
	order := verifChoose("order", 1, verifParam("h2order", 6))
	verifHilbertBijection(Hilbert2D{order: order}, 2)
}

func VerifC20_Hilbert3D() {
	order := verifChoose("order", 1, verifParam("h3order", 3))
	verifHilbertBijection(Hilbert3D{order: order}, 3)
}

func VerifC20_Hilbert4D() {
	order := verifChoose("order", 1, verifParam("h4order", 2))
	verifHilbertBijection(Hilbert4D{order: order}, 4)
}

// VerifC20_HilbertConstructors: the constructors reject exactly the orders
// whose Len would not fit an int.
func VerifC20_HilbertConstructors() {
	order := verifInt("order", -3, 70)
	_, e2 := NewHilbert2D(order)
	_, e3 := NewHilbert3D(order)
	_, e4 := NewHilbert4D(order)
	verifAssert(verifIff(e2 == nil, verifAnd(order >= 1, 2*order < 64)), "NewHilbert2D accepts exactly 1 <= order, 2*order < 64")
	verifAssert(verifIff(e3 == nil, verifAnd(order >= 1, 3*order < 64)), "NewHilbert3D accepts exactly 1 <= order, 3*order < 64")
	verifAssert(verifIff(e4 == nil, verifAnd(order >= 1, 4*order < 64)), "NewHilbert4D accepts exactly 1 <= order, 4*order < 64")
	verifReach("end")
}
