package barneshut

import (
	"gonum.org/v1/gonum/spatial/r2"
	"gonum.org/v1/gonum/spatial/r3"
)

// C20 (Barnes-Hut): with a zero opening angle ForceOn is the direct pairwise
// sum. The force function is ARBITRARY: the harness closure records its
// arguments and returns a fresh symbolic vector per call, so the assertion is
// "f is called exactly once per particle with the documented arguments and
// the result is the sum of what f returned".

type verifC20P2 struct{ x, y, m float64 }

func (p *verifC20P2) Coord2() r2.Vec { return r2.Vec{X: p.x, Y: p.y} }
func (p *verifC20P2) Mass() float64  { return p.m }

type verifC20P3 struct{ x, y, z, m float64 }

func (p *verifC20P3) Coord3() r3.Vec { return r3.Vec{X: p.x, Y: p.y, Z: p.z} }
func (p *verifC20P3) Mass() float64  { return p.m }

func verifC20Name(s string, i int) string { return s + string(rune('0'+i)) }

// VerifC20_BHDirect2: Plane.ForceOn with theta = 0 on n <= bhn particles with
// symbolic coordinates and masses (coincident particles included); the
// particle the force acts on is one of them (case split) or a separate one.
// "Reset must be called ... unless ForceOn is called with theta=0": the Plane
// is used both without Reset and (n = 0, 1: no subdivision needed) through NewPlane.
func VerifC20_BHDirect2() {
	n := verifChoose("n", 0, verifParam("bhn", 3))
	ps := make([]Particle2, n)
	raw := make([]*verifC20P2, n)
	for i := range ps {
		raw[i] = &verifC20P2{x: verifFloat(verifC20Name("x", i)), y: verifFloat(verifC20Name("y", i)), m: verifFloat(verifC20Name("m", i))}
		ps[i] = raw[i]
	}
	on := verifChoose("on", 0, n) // index of the particle acted on; n = a particle outside the set
	var p *verifC20P2
	if on < n {
		p = raw[on]
	} else {
		p = &verifC20P2{x: verifFloat("px"), y: verifFloat("py"), m: verifFloat("pm")}
	}
	var plane *Plane
	if n <= 1 && verifChoose("built", 0, 1) == 1 {
		var err error
		plane, err = NewPlane(ps)
		verifAssert(err == nil, "NewPlane succeeds")
	} else {
		plane = &Plane{Particles: ps}
	}
	calls := 0
	seen := make([]int, n)
	var sum r2.Vec
	f := func(p1, p2 Particle2, m1, m2 float64, v r2.Vec) r2.Vec {
		verifAssert(p1 == Particle2(p), "f receives the particle acted on as p1")
		verifAssertEqF(m1, p.m, "m1 is the mass of p1")
		hit := -1
		for i := range ps {
			if p2 == ps[i] {
				hit = i
			}
		}
		verifAssert(hit >= 0, "p2 is a particle of the plane (not an aggregate) when theta is zero")
		if hit >= 0 {
			seen[hit]++
			verifAssertEqF(m2, raw[hit].m, "m2 is the mass of p2")
			verifAssertEqF(v.X, raw[hit].x-p.x, "v is the vector from p1 to p2 (x)")
			verifAssertEqF(v.Y, raw[hit].y-p.y, "v is the vector from p1 to p2 (y)")
		}
		r := r2.Vec{X: verifFloat(verifC20Name("fx", calls)), Y: verifFloat(verifC20Name("fy", calls))}
		calls++
		sum = r2.Add(sum, r)
		return r
	}
	got := plane.ForceOn(p, 0, f)
	verifAssert(calls == n, "f is called once per particle")
	for i := range seen {
		verifAssert(seen[i] == 1, "every particle interacts exactly once")
	}
	verifAssertEqF(got.X, sum.X, "the force is the sum of the pairwise forces (x)")
	verifAssertEqF(got.Y, sum.Y, "the force is the sum of the pairwise forces (y)")
	verifReach("end")
}

// VerifC20_BHDirect3: the same for Volume.
func VerifC20_BHDirect3() {
	n := verifChoose("n", 0, verifParam("bhn", 3))
	ps := make([]Particle3, n)
	raw := make([]*verifC20P3, n)
	for i := range ps {
		raw[i] = &verifC20P3{x: verifFloat(verifC20Name("x", i)), y: verifFloat(verifC20Name("y", i)), z: verifFloat(verifC20Name("z", i)), m: verifFloat(verifC20Name("m", i))}
		ps[i] = raw[i]
	}
	on := verifChoose("on", 0, n)
	var p *verifC20P3
	if on < n {
		p = raw[on]
	} else {
		p = &verifC20P3{x: verifFloat("px"), y: verifFloat("py"), z: verifFloat("pz"), m: verifFloat("pm")}
	}
	var vol *Volume
	if n <= 1 && verifChoose("built", 0, 1) == 1 {
		var err error
		vol, err = NewVolume(ps)
		verifAssert(err == nil, "NewVolume succeeds")
	} else {
		vol = &Volume{Particles: ps}
	}
	calls := 0
	seen := make([]int, n)
	var sum r3.Vec
	f := func(p1, p2 Particle3, m1, m2 float64, v r3.Vec) r3.Vec {
		verifAssert(p1 == Particle3(p), "f receives the particle acted on as p1")
		verifAssertEqF(m1, p.m, "m1 is the mass of p1")
		hit := -1
		for i := range ps {
			if p2 == ps[i] {
				hit = i
			}
		}
		verifAssert(hit >= 0, "p2 is a particle of the volume (not an aggregate) when theta is zero")
		if hit >= 0 {
			seen[hit]++
			verifAssertEqF(m2, raw[hit].m, "m2 is the mass of p2")
			verifAssertEqF(v.X, raw[hit].x-p.x, "v is the vector from p1 to p2 (x)")
			verifAssertEqF(v.Y, raw[hit].y-p.y, "v is the vector from p1 to p2 (y)")
			verifAssertEqF(v.Z, raw[hit].z-p.z, "v is the vector from p1 to p2 (z)")
		}
		r := r3.Vec{X: verifFloat(verifC20Name("fx", calls)), Y: verifFloat(verifC20Name("fy", calls)), Z: verifFloat(verifC20Name("fz", calls))}
		calls++
		sum = r3.Add(sum, r)
		return r
	}
	got := vol.ForceOn(p, 0, f)
	verifAssert(calls == n, "f is called once per particle")
	for i := range seen {
		verifAssert(seen[i] == 1, "every particle interacts exactly once")
	}
	verifAssertEqF(got.X, sum.X, "the force is the sum of the pairwise forces (x)")
	verifAssertEqF(got.Y, sum.Y, "the force is the sum of the pairwise forces (y)")
	verifAssertEqF(got.Z, sum.Z, "the force is the sum of the pairwise forces (z)")
	verifReach("end")
}

// VerifC20_BHTreeWalk2: the tree walk itself. Particles sit on a small integer
// lattice (case split, pairwise distinct so that the quadtree is finite), the
// MASSES are symbolic and positive, and theta is positive but so small
// (1e-12) that no tile is ever far enough to be approximated. Then every
// interaction is with a non-aggregate mass centre, for which the Force2
// documentation promises p2 = that particle, m2 = its mass and v = the vector
// from p1 to p2: the walk must call f exactly like the direct sum does.
func VerifC20_BHTreeWalk2() {
	n := verifChoose("n", 1, verifParam("bhtreen", 2))
	g := verifParam("bhgrid", 2) // coordinates in 0..g-1
	ps := make([]Particle2, n)
	raw := make([]*verifC20P2, n)
	for i := range ps {
		cx, cy := verifChoose("cx", 0, g-1), verifChoose("cy", 0, g-1)
		for j := 0; j < i; j++ {
			verifAssume(raw[j].x != float64(cx) || raw[j].y != float64(cy))
		}
		m := verifFloat(verifC20Name("m", i))
		verifAssume(m > 0)
		raw[i] = &verifC20P2{x: float64(cx), y: float64(cy), m: m}
		ps[i] = raw[i]
	}
	plane, err := NewPlane(ps)
	verifAssert(err == nil, "NewPlane succeeds on a small lattice")
	if err != nil {
		return
	}
	p := raw[verifChoose("on", 0, n-1)]
	calls := 0
	seen := make([]int, n)
	var sum r2.Vec
	f := func(p1, p2 Particle2, m1, m2 float64, v r2.Vec) r2.Vec {
		hit := -1
		for i := range ps {
			if p2 == ps[i] {
				hit = i
			}
		}
		verifAssert(hit >= 0, "with a negligible opening angle every interaction is with a particle")
		if hit >= 0 {
			seen[hit]++
			verifAssertEqF(m2, raw[hit].m, "m2 is the mass of p2")
			verifAssertEqF(v.X, raw[hit].x-p.x, "v is the vector from p1 to p2 (x)")
			verifAssertEqF(v.Y, raw[hit].y-p.y, "v is the vector from p1 to p2 (y)")
		}
		r := r2.Vec{X: verifFloat(verifC20Name("fx", calls)), Y: verifFloat(verifC20Name("fy", calls))}
		calls++
		sum = r2.Add(sum, r)
		return r
	}
	got := plane.ForceOn(p, 1e-12, f)
	verifAssert(calls == n, "f is called once per particle")
	for i := range seen {
		verifAssert(seen[i] == 1, "every particle interacts exactly once")
	}
	verifAssertEqF(got.X, sum.X, "the force is the sum of the pairwise forces (x)")
	verifAssertEqF(got.Y, sum.Y, "the force is the sum of the pairwise forces (y)")
	verifReach("end")
}
