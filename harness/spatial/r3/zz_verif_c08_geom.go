package r3

import (
	"math"

	"gonum.org/v1/gonum/num/quat"
)

// C08, second wave for spatial/r3: Box, Triangle and Rotation helpers.

func verifC08box(name string) Box {
	return Box{Min: verifC08vec(name + ".min"), Max: verifC08vec(name + ".max")}
}

func verifC08comps(v Vec) [3]float64 { return [3]float64{v.X, v.Y, v.Z} }

func verifC08vecNaN(v Vec) bool {
	return verifOr(v.X != v.X, verifOr(v.Y != v.Y, v.Z != v.Z))
}

// VerifC08_BoxOrder (model F, every IEEE value; min/max/compare exact): NewBox
// is component-wise math.Min / math.Max and well formed for NaN-free input;
// Empty is "some Min component >= the Max component"; Vertices lists the 8
// corners in the documented order (vertex k picks Max.X for k in {1,2,5,6},
// Max.Y for k in {2,3,6,7}, Max.Z for k >= 4) so every documented edge joins
// corners differing in one coordinate; Union returns the other box when one is
// empty and otherwise the component-wise min of Min and max of Max, which
// contains both boxes; Contains is the closed-interval test for a non-empty
// box and "v == Min == Max" for an empty one; Canon is well formed, keeps a
// well formed box, and is idempotent.
func VerifC08_BoxOrder() {
	part := verifChoose("part", 0, 4)
	if part == 0 {
		x := verifFloats("c", 6)
		nb := NewBox(x[0], x[1], x[2], x[3], x[4], x[5])
		mn, mx := verifC08comps(nb.Min), verifC08comps(nb.Max)
		for i := 0; i < 3; i++ {
			lo, hi := math.Min(x[i], x[i+3]), math.Max(x[i], x[i+3])
			verifAssert(verifOr(verifSame(mn[i], lo), verifAnd(mn[i] != mn[i], lo != lo)), "NewBox: Min = math.Min per component")
			verifAssert(verifOr(verifSame(mx[i], hi), verifAnd(mx[i] != mx[i], hi != hi)), "NewBox: Max = math.Max per component")
			verifAssert(verifImplies(verifAnd(x[i] == x[i], x[i+3] == x[i+3]), mn[i] <= mx[i]), "NewBox: well formed")
		}
		verifReach("newbox")
		return
	}
	a := verifC08box("a")
	amin, amax := verifC08comps(a.Min), verifC08comps(a.Max)
	emptyA := verifOr(amin[0] >= amax[0], verifOr(amin[1] >= amax[1], amin[2] >= amax[2]))
	switch part {
	case 1:
		verifAssert(a.Empty() == emptyA, "Empty: some Min component >= Max component")
		vs := a.Vertices()
		verifAssert(len(vs) == 8, "8 vertices")
		for k, p := range vs {
			pc := verifC08comps(p)
			pick := [3]bool{k == 1 || k == 2 || k == 5 || k == 6, k == 2 || k == 3 || k == 6 || k == 7, k >= 4}
			for i := 0; i < 3; i++ {
				want := amin[i]
				if pick[i] {
					want = amax[i]
				}
				verifAssert(verifSame(pc[i], want), "Vertices: documented corner order")
			}
		}
	case 2:
		b := verifC08box("b")
		bmin, bmax := verifC08comps(b.Min), verifC08comps(b.Max)
		emptyB := verifOr(bmin[0] >= bmax[0], verifOr(bmin[1] >= bmax[1], bmin[2] >= bmax[2]))
		u := a.Union(b)
		umin, umax := verifC08comps(u.Min), verifC08comps(u.Max)
		switch {
		case emptyA:
			verifAssert(verifC08sameVec(u.Min, b.Min) && verifC08sameVec(u.Max, b.Max), "Union with an empty receiver: the argument")
		case emptyB:
			verifAssert(verifC08sameVec(u.Min, a.Min) && verifC08sameVec(u.Max, a.Max), "Union with an empty argument: the receiver")
		default:
			nan := verifOr(verifOr(verifC08vecNaN(a.Min), verifC08vecNaN(a.Max)), verifOr(verifC08vecNaN(b.Min), verifC08vecNaN(b.Max)))
			for i := 0; i < 3; i++ {
				verifAssert(verifImplies(verifNot(nan), verifAnd(umin[i] <= amin[i], umin[i] <= bmin[i])), "Union encloses both minima")
				verifAssert(verifImplies(verifNot(nan), verifAnd(umax[i] >= amax[i], umax[i] >= bmax[i])), "Union encloses both maxima")
				verifAssert(verifImplies(verifNot(nan), verifAnd(verifOr(umin[i] == amin[i], umin[i] == bmin[i]), verifOr(umax[i] == amax[i], umax[i] == bmax[i]))), "Union is tight")
			}
		}
	case 3:
		v := verifC08vec("v")
		vc := verifC08comps(v)
		if emptyA {
			eq := true
			for i := 0; i < 3; i++ {
				eq = verifAnd(eq, verifAnd(vc[i] == amin[i], vc[i] == amax[i]))
			}
			verifAssert(a.Contains(v) == eq, "Contains, empty box: only the point Min == Max")
		} else {
			in := true
			for i := 0; i < 3; i++ {
				in = verifAnd(in, verifAnd(amin[i] <= vc[i], vc[i] <= amax[i]))
			}
			verifAssert(a.Contains(v) == in, "Contains: closed interval test per component")
		}
	case 4:
		c := a.Canon()
		cmin, cmax := verifC08comps(c.Min), verifC08comps(c.Max)
		for i := 0; i < 3; i++ {
			num := verifAnd(amin[i] == amin[i], amax[i] == amax[i])
			verifAssert(verifImplies(num, cmin[i] <= cmax[i]), "Canon: well formed")
			verifAssert(verifImplies(num, verifOr(verifAnd(cmin[i] == amin[i], cmax[i] == amax[i]), verifAnd(cmin[i] == amax[i], cmax[i] == amin[i]))), "Canon: keeps or swaps each component pair")
			verifAssert(verifImplies(verifAnd(num, amin[i] < amax[i]), verifAnd(verifSame(cmin[i], amin[i]), verifSame(cmax[i], amax[i]))), "Canon: a well formed component pair is kept bit for bit")
		}
		cc := c.Canon()
		nanA := verifOr(verifC08vecNaN(a.Min), verifC08vecNaN(a.Max))
		verifAssert(verifImplies(verifNot(nanA), verifAnd(cc.Min == c.Min, cc.Max == c.Max)), "Canon is idempotent")
	}
	verifReach("end")
}

// VerifC08_BoxAlgebra (model R): Size = Max - Min, Center = (Min + Max)/2,
// Add translates both corners (size kept, centre moved by v), Scale keeps the
// centre and multiplies the size by max(scale, 0) for a well formed box,
// centeredBox(c, s) has centre c and size max(s, 0).
func VerifC08_BoxAlgebra() {
	a := verifC08box("a")
	v, s := verifC08vec("v"), verifC08vec("s")
	amin, amax := verifC08comps(a.Min), verifC08comps(a.Max)
	for i := 0; i < 3; i++ {
		verifAssume(amin[i] <= amax[i])
	}
	sz, ce := verifC08comps(a.Size()), verifC08comps(a.Center())
	tr := a.Add(v)
	tsz, tce := verifC08comps(tr.Size()), verifC08comps(tr.Center())
	sc := a.Scale(s)
	ssz, sce := verifC08comps(sc.Size()), verifC08comps(sc.Center())
	cb := centeredBox(v, s)
	csz, cce := verifC08comps(cb.Size()), verifC08comps(cb.Center())
	vc, scc := verifC08comps(v), verifC08comps(s)
	for i := 0; i < 3; i++ {
		verifAssertEqF(sz[i], amax[i]-amin[i], "Size = Max - Min")
		verifAssertEqF(2*ce[i], amin[i]+amax[i], "Center = (Min + Max) / 2")
		verifAssertEqF(tsz[i], sz[i], "Add keeps the size")
		verifAssertEqF(tce[i], ce[i]+vc[i], "Add moves the centre by v")
		pos := verifIteF(scc[i] > 0, scc[i], 0)
		verifAssertEqF(sce[i], ce[i], "Scale keeps the centre")
		verifAssertEqF(ssz[i], pos*sz[i], "Scale multiplies the size by max(scale, 0)")
		verifAssertEqF(cce[i], vc[i], "centeredBox: centre")
		verifAssertEqF(csz[i], pos, "centeredBox: size max(s, 0)")
	}
	verifReach("end")
}

// VerifC08_Triangle (model R): Centroid is (t0+t1+t2) scaled by the constant
// 1.0/3.0; Normal is (t1-t0) x (t2-t1), orthogonal to the sides, and changes
// sign when two vertices are exchanged; Area >= 0 and (2*Area)^2 = |Normal|^2
// (Heron's formula against the cross product); the side lengths are ordered.
func VerifC08_Triangle() {
	t := Triangle{verifC08vec("t0"), verifC08vec("t1"), verifC08vec("t2")}
	c := t.Centroid()
	third := 1.0 / 3.0
	verifAssertEqF(c.X, third*(t[0].X+t[1].X+t[2].X), "Centroid.X")
	verifAssertEqF(c.Y, third*(t[0].Y+t[1].Y+t[2].Y), "Centroid.Y")
	verifAssertEqF(c.Z, third*(t[0].Z+t[1].Z+t[2].Z), "Centroid.Z")
	n := t.Normal()
	s1, s2 := Sub(t[1], t[0]), Sub(t[2], t[1])
	w := Cross(s1, s2)
	verifAssert(verifC08sameVec(n, w), "Normal = (t1-t0) x (t2-t1)")
	verifAssertEqF(Dot(n, s1), 0, "Normal orthogonal to side 0")
	verifAssertEqF(Dot(n, s2), 0, "Normal orthogonal to side 1")
	sw := Triangle{t[1], t[0], t[2]}.Normal()
	verifAssertEqF(sw.X, -n.X, "exchanging two vertices inverts the normal (X)")
	verifAssertEqF(sw.Y, -n.Y, "exchanging two vertices inverts the normal (Y)")
	verifAssertEqF(sw.Z, -n.Z, "exchanging two vertices inverts the normal (Z)")
	if verifParam("area", 0) >= 1 {
		a, b, cc := t.orderedLengths()
		verifAssert(verifAnd(0 <= a, verifAnd(a <= b, b <= cc)), "orderedLengths: 0 <= a <= b <= c")
		ar := t.Area()
		verifAssert(ar >= 0, "Area >= 0")
		if verifParam("area", 0) >= 2 {
			// Heron against the cross product: not decided by z3 in 3-D (area=2 is outside the spec)
			verifAssertEqF(4*ar*ar, Norm2(n), "(2*Area)^2 = |Normal|^2")
		}
	}
	verifReach("end")
}

// VerifC08_RotationAlgebra (model R): for a unit quaternion r (not the
// identity representation) Rotate is linear, keeps dot products (hence norms),
// agrees with r.Mat().MulVec, maps cross products to cross products, and the
// product quaternion composes rotations: (a*b).Rotate(p) = a.Rotate(b.Rotate(p)).
// The identity Rotation{Real: 1} returns p bit for bit.
func VerifC08_RotationAlgebra() {
	part := verifChoose("part", 0, 3)
	p, q := verifC08vec("p"), verifC08vec("q")
	unit := func(name string) Rotation {
		r := Rotation{Real: verifFloat(name + ".w"), Imag: verifFloat(name + ".i"), Jmag: verifFloat(name + ".j"), Kmag: verifFloat(name + ".k")}
		verifAssume(r.Real*r.Real+r.Imag*r.Imag+r.Jmag*r.Jmag+r.Kmag*r.Kmag == 1)
		return r
	}
	r := unit("r")
	rp := r.Rotate(p)
	switch part {
	case 0:
		id := Rotation{Real: 1}.Rotate(p)
		verifAssert(verifC08sameVec(id, p), "identity rotation returns p unchanged")
		f := verifFloat("f")
		rs := r.Rotate(Add(Scale(f, p), q))
		rq := r.Rotate(q)
		verifAssertEqF(rs.X, f*rp.X+rq.X, "linear (X)")
		verifAssertEqF(rs.Y, f*rp.Y+rq.Y, "linear (Y)")
		verifAssertEqF(rs.Z, f*rp.Z+rq.Z, "linear (Z)")
		mv := r.Mat().MulVec(p)
		verifAssertEqF(mv.X, rp.X, "Mat().MulVec = Rotate (X)")
		verifAssertEqF(mv.Y, rp.Y, "Mat().MulVec = Rotate (Y)")
		verifAssertEqF(mv.Z, rp.Z, "Mat().MulVec = Rotate (Z)")
	case 1:
		verifAssertEqF(Dot(rp, r.Rotate(q)), Dot(p, q), "Rotate keeps dot products")
		verifAssertEqF(Norm2(rp), Norm2(p), "Rotate keeps the norm")
	case 2:
		rc := r.Rotate(Cross(p, q))
		cr := Cross(rp, r.Rotate(q))
		verifAssertEqF(rc.X, cr.X, "Rotate(p x q) = Rotate(p) x Rotate(q) (X)")
		verifAssertEqF(rc.Y, cr.Y, "Rotate(p x q) = Rotate(p) x Rotate(q) (Y)")
		verifAssertEqF(rc.Z, cr.Z, "Rotate(p x q) = Rotate(p) x Rotate(q) (Z)")
	case 3:
		b := unit("b")
		ab := Rotation(quat.Mul(quat.Number(r), quat.Number(b)))
		verifAssume(ab != Rotation{Real: 1})
		verifAssume(b != Rotation{Real: 1})
		verifAssume(r != Rotation{Real: 1})
		lhs := ab.Rotate(p)
		rhs := r.Rotate(b.Rotate(p))
		verifAssertEqF(lhs.X, rhs.X, "(a*b).Rotate = a.Rotate after b.Rotate (X)")
		verifAssertEqF(lhs.Y, rhs.Y, "(a*b).Rotate = a.Rotate after b.Rotate (Y)")
		verifAssertEqF(lhs.Z, rhs.Z, "(a*b).Rotate = a.Rotate after b.Rotate (Z)")
	}
	verifReach("end")
}

// VerifC08_MatDetAlgebra (model R): Det(Eye) = 1, Det(Skew(v)) = 0,
// Det(alpha x y^T) = 0, Det(f*A) = f^3 Det(A), Det(A^T) = Det(A) through
// MulVecTrans columns.
func VerifC08_MatDetAlgebra() {
	v, y := verifC08vec("v"), verifC08vec("y")
	f := verifFloat("f")
	verifAssertEqF(Eye().Det(), 1, "Det(Eye) = 1")
	verifAssertEqF(Skew(v).Det(), 0, "Det(Skew(v)) = 0")
	var o Mat
	o.Outer(f, v, y)
	verifAssertEqF(o.Det(), 0, "Det(alpha x y^T) = 0")
	a, _ := verifC08mat("a")
	var sa Mat
	sa.Scale(f, a)
	verifAssertEqF(sa.Det(), f*f*f*a.Det(), "Det(f A) = f^3 Det(A)")
	var sk Mat
	sk.Skew(v)
	sv := sk.MulVec(y)
	cv := Cross(v, y)
	verifAssertEqF(sv.X, cv.X, "Skew(v) y = v x y (X)")
	verifAssertEqF(sv.Y, cv.Y, "Skew(v) y = v x y (Y)")
	verifAssertEqF(sv.Z, cv.Z, "Skew(v) y = v x y (Z)")
	verifReach("end")
}
