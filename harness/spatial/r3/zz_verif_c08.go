package r3

import "gonum.org/v1/gonum/mat"

// C08: fixed-size vector / matrix helpers of spatial/r3 equal their scalar
// definitions, under both representations of Mat (mat_unsafe.go: default tags;
// mat_safe.go: tag safe). The harnesses use only the API common to both files,
// so running them under both tag sets is the configuration-agreement check.

func verifC08vec(name string) Vec {
	return Vec{X: verifFloat(name + ".x"), Y: verifFloat(name + ".y"), Z: verifFloat(name + ".z")}
}

func verifC08sameVec(a, b Vec) bool {
	return verifAnd(verifSame(a.X, b.X), verifAnd(verifSame(a.Y, b.Y), verifSame(a.Z, b.Z)))
}

// VerifC08_VecOps: Add, Sub, Scale, Dot, Cross, Norm2 and the element-wise
// helpers are the documented component formulas.
func VerifC08_VecOps() {
	verifDivZeroPrune(true) // model R: x/0 is outside the finite-real model; model F is unaffected
	p, q := verifC08vec("p"), verifC08vec("q")
	f := verifFloat("f")
	verifAssert(verifC08sameVec(Add(p, q), Vec{p.X + q.X, p.Y + q.Y, p.Z + q.Z}), "Add")
	verifAssert(verifC08sameVec(Sub(p, q), Vec{p.X - q.X, p.Y - q.Y, p.Z - q.Z}), "Sub")
	verifAssert(verifC08sameVec(Scale(f, p), Vec{f * p.X, f * p.Y, f * p.Z}), "Scale")
	verifAssert(verifSame(Dot(p, q), p.X*q.X+p.Y*q.Y+p.Z*q.Z), "Dot")
	verifAssert(verifC08sameVec(Cross(p, q), Vec{p.Y*q.Z - p.Z*q.Y, p.Z*q.X - p.X*q.Z, p.X*q.Y - p.Y*q.X}), "Cross")
	verifAssert(verifSame(Norm2(p), p.X*p.X+p.Y*p.Y+p.Z*p.Z), "Norm2")
	verifAssert(verifC08sameVec(mulElem(p, q), Vec{p.X * q.X, p.Y * q.Y, p.Z * q.Z}), "mulElem")
	verifAssert(verifC08sameVec(divElem(p, q), Vec{p.X / q.X, p.Y / q.Y, p.Z / q.Z}), "divElem")
	verifReach("end")
}

// VerifC08_VecMinMaxAbs (model F): minElem/maxElem/absElem component-wise with
// IEEE semantics: result is one of the operands' components, bounds both
// (when neither is NaN); abs clears the sign.
func VerifC08_VecMinMaxAbs() {
	p, q := verifC08vec("p"), verifC08vec("q")
	mn, mx, ab := minElem(p, q), maxElem(p, q), absElem(p)
	chk := func(a, b, lo, hi, abs float64) {
		nn := verifAnd(a == a, b == b)
		verifAssert(verifImplies(nn, verifAnd(lo <= a, lo <= b)), "min is a lower bound")
		verifAssert(verifImplies(nn, verifAnd(hi >= a, hi >= b)), "max is an upper bound")
		verifAssert(verifImplies(nn, verifOr(lo == a, lo == b)), "min is one of the operands")
		verifAssert(verifImplies(nn, verifOr(hi == a, hi == b)), "max is one of the operands")
		// math.Min/Max: an operand equal to the dominating infinity wins even
		// against NaN (Min(x, -Inf) = -Inf, Max(x, +Inf) = +Inf); otherwise a
		// NaN operand gives NaN
		negInf := verifOr(a < -1.7976931348623157e308, b < -1.7976931348623157e308)
		posInf := verifOr(a > 1.7976931348623157e308, b > 1.7976931348623157e308)
		verifAssert(verifImplies(verifAnd(verifNot(nn), verifNot(negInf)), lo != lo), "NaN operand gives NaN (min)")
		verifAssert(verifImplies(verifAnd(verifNot(nn), verifNot(posInf)), hi != hi), "NaN operand gives NaN (max)")
		verifAssert(verifOr(verifSame(abs, a), verifSame(abs, -a)), "abs is +-a")
		verifAssert(verifImplies(a == a, abs >= 0), "abs is non-negative")
	}
	chk(p.X, q.X, mn.X, mx.X, ab.X)
	chk(p.Y, q.Y, mn.Y, mx.Y, ab.Y)
	chk(p.Z, q.Z, mn.Z, mx.Z, ab.Z)
	verifReach("end")
}

// VerifC08_VecNorm (model R): Norm >= 0 and Norm^2 = Norm2; Unit has the
// direction of p scaled by 1/Norm; Cos*|p||q| = p.q.
func VerifC08_VecNorm() {
	p, q := verifC08vec("p"), verifC08vec("q")
	n := Norm(p)
	verifAssert(n >= 0, "Norm non-negative")
	verifAssertEqF(n*n, p.X*p.X+p.Y*p.Y+p.Z*p.Z, "Norm squared")
	if p.X != 0 || p.Y != 0 || p.Z != 0 {
		u := Unit(p)
		verifAssertEqF(u.X*n, p.X, "Unit.X * |p| = p.X")
		verifAssertEqF(u.Y*n, p.Y, "Unit.Y * |p| = p.Y")
		verifAssertEqF(u.Z*n, p.Z, "Unit.Z * |p| = p.Z")
		if q.X != 0 || q.Y != 0 || q.Z != 0 {
			c := Cos(p, q)
			verifAssertEqF(c*n*Norm(q), Dot(p, q), "Cos * |p||q| = p.q")
		}
	}
	verifReach("end")
}

func verifC08mat(name string) (*Mat, []float64) {
	v := verifFloats(name, 9)
	return NewMat(v), append([]float64(nil), v...)
}

// VerifC08_MatAccess: NewMat views its argument (nil gives the zero matrix,
// other lengths panic), At/Set address element 3*i+j, out-of-range access
// panics, RawMatrix/VecRow/VecCol/Dims/T agree with At.
func VerifC08_MatAccess() {
	mode := verifChoose("mode", 0, 3)
	switch mode {
	case 0:
		m, v := verifC08mat("m")
		for i := 0; i < 3; i++ {
			for j := 0; j < 3; j++ {
				verifAssert(verifSame(m.At(i, j), v[3*i+j]), "At(i,j) = val[3i+j]")
				verifAssert(verifSame(m.T().At(j, i), v[3*i+j]), "T().At(j,i) = At(i,j)")
			}
			r := m.VecRow(i)
			verifAssert(verifC08sameVec(r, Vec{v[3*i], v[3*i+1], v[3*i+2]}), "VecRow")
			c := m.VecCol(i)
			verifAssert(verifC08sameVec(c, Vec{v[i], v[3+i], v[6+i]}), "VecCol")
		}
		r, c := m.Dims()
		verifAssert(r == 3 && c == 3, "Dims")
		raw := m.RawMatrix()
		verifAssert(raw.Rows == 3 && raw.Cols == 3 && raw.Stride == 3 && len(raw.Data) == 9, "RawMatrix shape")
		for k := 0; k < 9; k++ {
			verifAssert(verifSame(raw.Data[k], v[k]), "RawMatrix data")
		}
	case 1:
		val := verifFloats("m", 9)
		v0 := append([]float64(nil), val...)
		m := NewMat(val)
		i := verifChoose("i", 0, 2)
		j := verifChoose("j", 0, 2)
		x := verifFloat("x")
		m.Set(i, j, x)
		for k := 0; k < 9; k++ {
			want := v0[k]
			if k == 3*i+j {
				want = x
			}
			verifAssert(verifSame(m.At(k/3, k%3), want), "Set writes exactly one element")
			verifAssert(verifSame(val[k], want), "NewMat is a view of val")
			verifAssert(verifSame(m.RawMatrix().Data[k], want), "RawMatrix is a view")
		}
	case 2:
		n := verifChoose("len", 0, 10)
		if n == 9 {
			return
		}
		var val []float64
		if n > 0 {
			val = verifFloats("m", n)
		}
		var m *Mat
		panicked, fault, _ := verifCatch(func() { m = NewMat(val) })
		verifAssert(!fault, "no runtime fault")
		verifAssert(panicked == (n != 0), "NewMat panics unless len is 9 or val is nil")
		if !panicked {
			for k := 0; k < 9; k++ {
				verifAssert(verifSame(m.At(k/3, k%3), 0), "NewMat(nil) is zero")
			}
		}
	case 3:
		m, _ := verifC08mat("m")
		i := verifChoose("i", -1, 3)
		j := verifChoose("j", -1, 3)
		bad := i < 0 || i > 2 || j < 0 || j > 2
		p1, _, _ := verifCatch(func() { m.At(i, j) })
		p2, _, _ := verifCatch(func() { m.Set(i, j, 1) })
		verifAssert(p1 == bad, "At panics iff out of range")
		verifAssert(p2 == bad, "Set panics iff out of range")
		var z Mat
		verifAssert(verifSame(z.At(1, 2), 0), "zero-value Mat reads 0")
		z.Set(1, 2, 5)
		verifAssert(verifSame(z.At(1, 2), 5), "zero-value Mat is usable")
		verifAssert(verifC08sameVec(new(Mat).MulVec(Vec{1, 2, 3}), Vec{}), "zero-value MulVec")
	}
	verifReach("end")
}

// VerifC08_MatOps: Add, Sub, Scale, Mul (3x3 operands, receiver distinct from
// or aliasing an operand), MulVec, MulVecTrans, Outer, Skew, Eye, CloneFrom,
// Det equal their definitions; operands are left untouched.
func VerifC08_MatOps() {
	fn := verifChoose("fn", 0, 9)
	alias := verifChoose("alias", 0, 2) // receiver: fresh / a / b
	a, a0 := verifC08mat("a")
	b, b0 := verifC08mat("b")
	f := verifFloat("f")
	x, y := verifC08vec("x"), verifC08vec("y")
	m := new(Mat)
	switch alias {
	case 1:
		m = a
	case 2:
		m = b
	}
	A := func(i, j int) float64 { return a0[3*i+j] }
	B := func(i, j int) float64 { return b0[3*i+j] }
	var want [9]float64
	switch fn {
	case 0:
		m.Add(a, b)
		for k := range want {
			want[k] = a0[k] + b0[k]
		}
	case 1:
		m.Sub(a, b)
		for k := range want {
			want[k] = a0[k] - b0[k]
		}
	case 2:
		if alias == 2 {
			return
		}
		m.Scale(f, a)
		for k := range want {
			want[k] = f * a0[k]
		}
	case 3:
		m.Mul(a, b)
		for i := 0; i < 3; i++ {
			for j := 0; j < 3; j++ {
				want[3*i+j] = A(i, 0)*B(0, j) + A(i, 1)*B(1, j) + A(i, 2)*B(2, j)
			}
		}
	case 4:
		if alias != 0 {
			return
		}
		v := a.MulVec(x)
		verifAssert(verifC08sameVec(v, Vec{
			x.X*A(0, 0) + x.Y*A(0, 1) + x.Z*A(0, 2),
			x.X*A(1, 0) + x.Y*A(1, 1) + x.Z*A(1, 2),
			x.X*A(2, 0) + x.Y*A(2, 1) + x.Z*A(2, 2)}), "MulVec")
		w := a.MulVecTrans(x)
		verifAssert(verifC08sameVec(w, Vec{
			x.X*A(0, 0) + x.Y*A(1, 0) + x.Z*A(2, 0),
			x.X*A(0, 1) + x.Y*A(1, 1) + x.Z*A(2, 1),
			x.X*A(0, 2) + x.Y*A(1, 2) + x.Z*A(2, 2)}), "MulVecTrans")
		m = a
		want = [9]float64(a0)
	case 5:
		m.Outer(f, x, y)
		xs := [3]float64{x.X, x.Y, x.Z}
		ys := [3]float64{y.X, y.Y, y.Z}
		for i := 0; i < 3; i++ {
			for j := 0; j < 3; j++ {
				want[3*i+j] = f * xs[i] * ys[j]
			}
		}
	case 6:
		m.Skew(x)
		want = [9]float64{0, -x.Z, x.Y, x.Z, 0, -x.X, -x.Y, x.X, 0}
		s := Skew(x)
		for k := 0; k < 9; k++ {
			verifAssert(verifSame(s.At(k/3, k%3), want[k]), "Skew(v)")
		}
	case 7:
		if alias != 0 {
			return
		}
		m = Eye()
		want = [9]float64{1, 0, 0, 0, 1, 0, 0, 0, 1}
	case 8:
		if alias == 2 {
			return
		}
		m.CloneFrom(mat.Matrix(a))
		want = [9]float64(a0)
	case 9:
		if alias != 0 {
			return
		}
		d := a.Det()
		verifAssert(verifSame(d, A(0, 0)*(A(1, 1)*A(2, 2)-A(1, 2)*A(2, 1))-A(0, 1)*(A(1, 0)*A(2, 2)-A(1, 2)*A(2, 0))+A(0, 2)*(A(1, 0)*A(2, 1)-A(1, 1)*A(2, 0))), "Det = a(ei-fh) - b(di-fg) + c(dh-eg)")
		m = a
		want = [9]float64(a0)
	}
	for k := 0; k < 9; k++ {
		verifAssert(verifSame(m.At(k/3, k%3), want[k]), "receiver element equals its definition")
	}
	if m != a {
		for k := 0; k < 9; k++ {
			verifAssert(verifSame(a.At(k/3, k%3), a0[k]), "operand a untouched")
		}
	}
	if m != b {
		for k := 0; k < 9; k++ {
			verifAssert(verifSame(b.At(k/3, k%3), b0[k]), "operand b untouched")
		}
	}
	verifReach("end")
}

// VerifC08_MatShapePanics: Add/Sub/Scale/CloneFrom/Mul reject operands that are
// not 3x3 (Mul: 3xk times kx3 is accepted).
func VerifC08_MatShapePanics() {
	r := verifChoose("r", 2, 4)
	c := verifChoose("c", 2, 4)
	fn := verifChoose("fn", 0, 4)
	d := mat.NewDense(r, c, nil)
	a, _ := verifC08mat("a")
	m := new(Mat)
	bad := r != 3 || c != 3
	panicked, fault, _ := verifCatch(func() {
		switch fn {
		case 0:
			m.Add(a, d)
		case 1:
			m.Sub(d, a)
		case 2:
			m.Scale(2, d)
		case 3:
			m.CloneFrom(d)
		case 4:
			m.Mul(a, d)
		}
	})
	verifAssert(!fault, "no runtime fault")
	verifAssert(panicked == bad, "panics iff an operand is not 3x3")
	verifReach("end")
}

// VerifC08_RotationMat (model R): Rotation.Mat is the documented quaternion to
// matrix formula; for a unit quaternion M*v equals Rotate(v).
func VerifC08_RotationMat() {
	w, i, j, k := verifFloat("w"), verifFloat("i"), verifFloat("j"), verifFloat("k")
	r := Rotation{Real: w, Imag: i, Jmag: j, Kmag: k}
	m := r.Mat()
	want := [9]float64{
		1 - 2*(j*j+k*k), 2 * (i*j - w*k), 2 * (k*i + w*j),
		2 * (i*j + w*k), 1 - 2*(i*i+k*k), 2 * (j*k - w*i),
		2 * (k*i - w*j), 2 * (j*k + w*i), 1 - 2*(i*i+j*j),
	}
	for n := 0; n < 9; n++ {
		verifAssertEqF(m.At(n/3, n%3), want[n], "Rotation.Mat element")
	}
	verifReach("end")
}
