package vptree

import "math"

// C20 (vantage-point tree): a tree built by New from n points with SYMBOLIC
// coordinates (duplicates and equidistant points are solver branches), with
// every vantage choice the random source can make (rand.IntN is an arbitrary
// value of its contract), answers Nearest / NearestSet queries for a symbolic
// query exactly like a brute-force scan. Two metrics: the package's Point
// (Euclidean, sqrt: in the exact-real model sqrt(x) is the r >= 0 with
// r*r == x, and the oracle compares SQUARED distances) and a harness-side
// Manhattan metric (piecewise linear, so larger point sets are affordable).

// verifC20VPPoints: points p_i = q + u_i with q and u_i symbolic (a bijective
// reparametrisation of independent coordinates under which the solver's
// polynomial constraints, all over coordinate differences, do not mention q);
// q == nil gives plain independent coordinates.
func verifC20VPPoints(n, dim int, q Point) ([]Comparable, []Point) {
	cs := make([]Comparable, n)
	ps := make([]Point, n)
	for i := range cs {
		p := make(Point, dim)
		for d := range p {
			v := verifFloat("p" + string(rune('0'+i)) + string(rune('x'+d)))
			if q != nil {
				v += q[d]
			}
			p[d] = v
		}
		cs[i] = p
		ps[i] = p
	}
	return cs, ps
}

// verifC20VPSrc is a rand.Source whose outputs are symbolic inputs, so that the
// vantage choices are arbitrary in the engine AND reproducible in a native replay.
//
// rand.Rand.IntN(n) rejects and redraws with probability < n/2^32 in a loop that
// terminates only with probability one; streams that need more than max draws
// in one New call are pruned (max = number of vantage choices + 1: every
// choice sequence is still reachable, with at most one rejection).
type verifC20VPSrc struct{ k, max int }

func (s *verifC20VPSrc) Uint64() uint64 {
	s.k++
	verifAssume(s.k <= s.max)
	return verifUint64("rnd" + string(rune('0'+s.k)))
}

func verifC20VPDist2(p, q []float64) float64 {
	var s float64
	for i := range p {
		s += (p[i] - q[i]) * (p[i] - q[i])
	}
	return s
}

func verifC20VPSame(a, b []float64) bool { return &a[0] == &b[0] }

// verifC20L1 is a harness-side Comparable: points of R^dim under the
// Manhattan metric |dx|+|dy|. It satisfies the four metric axioms the
// Comparable documentation demands, so everything the tree promises must hold
// for it, and its distance is piecewise LINEAR (no sqrt, no squares), which
// keeps the solver in linear real arithmetic.
type verifC20L1 []float64

func (p verifC20L1) Distance(c Comparable) float64 {
	return verifC20VPManhattan(p, c.(verifC20L1))
}

func verifC20VPManhattan(p, q []float64) float64 {
	var s float64
	for i := range p {
		d := p[i] - q[i]
		s += verifIteF(d < 0, -d, d)
	}
	return s
}

func verifC20VPCoords(c Comparable) ([]float64, bool) {
	switch v := c.(type) {
	case Point:
		return v, true
	case verifC20L1:
		return v, true
	}
	return nil, false
}

func verifC20VPStored(c Comparable, pts [][]float64) bool {
	p, ok := verifC20VPCoords(c)
	if !ok {
		return false
	}
	is := false
	for _, s := range pts {
		is = verifOr(is, verifC20VPSame(p, s))
	}
	return is
}

// verifC20VPCase is one explored configuration: the points (as coordinates),
// the query, the tree, and the metric in "key" form: key(d) maps a distance
// reported by the tree to the scale of brute(p), the oracle's distance from p
// to the query (squared Euclidean for Point, Manhattan for verifC20L1).
type verifC20VPCase struct {
	n   int
	l1  bool
	pts [][]float64
	q   []float64
	qc  Comparable
	t   *Tree
}

// Natively (replays, translator validation) the Euclidean comparison is done on
// math.Sqrt(sum), the very computation of Point.Distance, because squaring a
// rounded root is not exact; in the engine's exact-real model both are the same.
func (c *verifC20VPCase) key(d float64) float64 {
	if c.l1 || !verifInEngine() {
		return d
	}
	return d * d
}

func (c *verifC20VPCase) brute(p []float64) float64 {
	if c.l1 {
		return verifC20VPManhattan(p, c.q)
	}
	s := verifC20VPDist2(c.q, p)
	if !verifInEngine() {
		return math.Sqrt(s)
	}
	return s
}

func verifC20VPSetup(l1, query, symsrc bool) *verifC20VPCase {
	c := &verifC20VPCase{l1: l1}
	c.n = verifChoose("n", verifParam("vpnmin", 1), verifParam("vpn", 3))
	dim := verifChoose("dim", verifParam("vpdimmin", 1), verifParam("vpdim", 2))
	var q Point
	if query {
		q = make(Point, dim)
		for d := range q {
			q[d] = verifFloat("q" + string(rune('x'+d)))
		}
		c.q = q
		c.qc = q
		if l1 {
			c.qc = verifC20L1(q)
		}
	}
	cs, ps := verifC20VPPoints(c.n, dim, q)
	for i := range ps {
		c.pts = append(c.pts, ps[i])
		if l1 {
			cs[i] = verifC20L1(ps[i])
		}
	}
	var src *verifC20VPSrc
	var t *Tree
	var err error
	if symsrc || verifParam("vpsrc", 0) == 1 {
		// symbolic rand.Source: reproducible in a native replay, dearer for the solver
		src = &verifC20VPSrc{max: c.n}
		t, err = New(cs, verifParam("vpeffort", 1), src)
	} else {
		// src == nil: the package-level rand.IntN, which the engine models as an
		// arbitrary value of its contract.
		t, err = New(cs, verifParam("vpeffort", 1), nil)
	}
	verifAssert(err == nil, "New succeeds for finite points")
	verifAssert(t != nil, "New returns a tree")
	verifAssert(t.Len() == c.n, "Len is the number of points")
	c.t = t
	return c
}

// sorted: brute-force distances (key scale) in ascending order (branch-free network).
func (c *verifC20VPCase) sorted() []float64 {
	d := make([]float64, len(c.pts))
	for i, p := range c.pts {
		d[i] = c.brute(p)
	}
	for pass := 0; pass < len(d); pass++ {
		for i := pass % 2; i+1 < len(d); i += 2 {
			a, b := d[i], d[i+1]
			sw := b < a
			d[i] = verifIteF(sw, b, a)
			d[i+1] = verifIteF(sw, a, b)
		}
	}
	return d
}

func verifC20VPNearest(l1 bool) {
	c := verifC20VPSetup(l1, true, false)
	got, dist := c.t.Nearest(c.qc)
	verifAssert(verifC20VPStored(got, c.pts), "Nearest returns one of the stored points")
	verifAssert(dist >= 0, "the reported distance is non-negative")
	if gp, ok := verifC20VPCoords(got); ok {
		verifAssertEqF(c.key(dist), c.brute(gp), "Nearest reports the distance of the point it returns")
	}
	for _, p := range c.pts {
		verifAssert(c.key(dist) <= c.brute(p), "Nearest distance is minimal over all points")
	}
	verifReach("end")
}

func VerifC20_VPNearest()   { verifC20VPNearest(false) }
func VerifC20_VPNearestL1() { verifC20VPNearest(true) }

func (c *verifC20VPCase) kept(h Heap, want int) {
	verifAssert(len(h) == want, "NearestSet keeps as many points as the brute-force scan selects")
	sorted := c.sorted()
	for i, e := range h {
		if i >= len(sorted) {
			break
		}
		verifAssert(verifC20VPStored(e.Comparable, c.pts), "every kept entry is a stored point (no sentinel)")
		verifAssert(e.Dist >= 0, "kept distances are non-negative")
		if p, ok := verifC20VPCoords(e.Comparable); ok {
			verifAssertEqF(c.key(e.Dist), c.brute(p), "kept distance is the distance of the kept point")
		}
		verifAssertEqF(c.key(e.Dist), sorted[i], "i-th kept distance is the i-th smallest brute-force distance")
	}
}

func verifC20VPKNearest(l1 bool) {
	c := verifC20VPSetup(l1, true, false)
	k := verifChoose("k", 1, c.n+1)
	keep := NewNKeeper(k)
	c.t.NearestSet(keep, c.qc)
	want := k
	if c.n < k {
		want = c.n
	}
	c.kept(keep.Heap, want)
	verifReach("end")
}

func VerifC20_VPKNearest()   { verifC20VPKNearest(false) }
func VerifC20_VPKNearestL1() { verifC20VPKNearest(true) }

func verifC20VPRadius(l1 bool) {
	c := verifC20VPSetup(l1, true, false)
	r := verifFloat("r")
	verifAssume(r >= 0)
	keep := NewDistKeeper(r)
	c.t.NearestSet(keep, c.qc)
	want := 0
	for _, p := range c.pts {
		want += verifIteInt(c.brute(p) <= c.key(r), 1, 0)
	}
	verifAssert(len(keep.Heap) == want, "within-radius query returns as many points as the brute-force scan")
	for _, e := range keep.Heap {
		verifAssert(e.Dist <= r, "every returned point lies within the radius")
	}
	c.kept(keep.Heap, len(keep.Heap))
	verifReach("end")
}

func VerifC20_VPRadius()   { verifC20VPRadius(false) }
func VerifC20_VPRadiusL1() { verifC20VPRadius(true) }

// VerifC20_VPPointDistance: Point.Distance is the Euclidean distance (the
// non-negative root of the sum of squared coordinate differences), symmetric,
// zero on identical points.
func VerifC20_VPPointDistance() {
	dim := verifChoose("dim", 1, verifParam("vpdistdim", 3))
	_, ps := verifC20VPPoints(2, dim, nil)
	d := ps[0].Distance(ps[1])
	verifAssert(d >= 0, "distance is non-negative")
	verifAssertEqF(d*d, verifC20VPDist2(ps[0], ps[1]), "distance squared is the sum of squared differences")
	verifAssertEqF(ps[1].Distance(ps[0]), d, "distance is symmetric")
	verifAssertEqF(ps[0].Distance(ps[0]), 0, "a point is at distance zero from itself")
	verifReach("end")
}

// VerifC20_VPDo: "Do performs fn on all values stored in the tree": every
// value handed to New is visited exactly once (identity, not coordinates).
func VerifC20_VPDo() {
	c := verifC20VPSetup(true, false, true)
	seen := make([]int, c.n)
	calls := 0
	stopped := c.t.Do(func(v Comparable, depth int) bool {
		calls++
		cp, _ := verifC20VPCoords(v)
		for i, p := range c.pts {
			seen[i] += verifIteInt(verifC20VPSame(cp, p), 1, 0)
		}
		return false
	})
	verifAssert(!stopped, "Do is not interrupted when the operation never returns true")
	verifAssert(calls == c.n, "Do calls the operation once per stored point")
	for i := range seen {
		verifAssert(seen[i] == 1, "Do visits each value exactly once")
	}
	verifReach("end")
}
