package vptree

// C20 (vantage-point tree): a tree built by New from n points with SYMBOLIC
// coordinates (duplicates and equidistant points are solver branches), with
// every vantage choice the random source can make (rand.IntN is an arbitrary
// value of its contract), answers Nearest / NearestSet queries for a symbolic
// query exactly like a brute-force scan. Distances are Euclidean (sqrt): in the
// exact-real model sqrt(x) is the r >= 0 with r*r == x, and the oracle
// compares SQUARED distances.

// verifC20VPPoints: points p_i = q + u_i with q and u_i symbolic (a bijective
// reparametrisation of independent coordinates under which the solver's
// polynomial constraints, all over coordinate differences, do not mention q);
// q == nil gives plain independent coordinates.
func verifC20VPPoints(n, dim int, q Point) ([]Comparable, []Point) {
	cs := make([]Comparable, n)
	ps := make([]Point, n)
	for i := range cs {
		p := make(Point, dim)
		for d := range p {
			v := verifFloat("p" + string(rune('0'+i)) + string(rune('x'+d)))
			if q != nil {
				v += q[d]
			}
			p[d] = v
		}
		cs[i] = p
		ps[i] = p
	}
	return cs, ps
}

// verifC20VPSrc is a rand.Source whose outputs are symbolic inputs, so that the
// vantage choices are arbitrary in the engine AND reproducible in a native replay.
//
// rand.Rand.IntN(n) rejects and redraws with probability < n/2^32 in a loop that
// terminates only with probability one; streams that need more than max draws
// in one New call are pruned (max = number of vantage choices + 1: every
// choice sequence is still reachable, with at most one rejection).
type verifC20VPSrc struct{ k, max int }

func (s *verifC20VPSrc) Uint64() uint64 {
	s.k++
	verifAssume(s.k <= s.max)
	return verifUint64("rnd" + string(rune('0'+s.k)))
}

func verifC20VPDist2(p, q Point) float64 {
	var s float64
	for i := range p {
		s += (p[i] - q[i]) * (p[i] - q[i])
	}
	return s
}

func verifC20VPSame(a, b Point) bool { return &a[0] == &b[0] }

func verifC20VPStored(c Comparable, pts []Point) bool {
	p, ok := c.(Point)
	if !ok {
		return false
	}
	is := false
	for _, s := range pts {
		is = verifOr(is, verifC20VPSame(p, s))
	}
	return is
}

func verifC20VPSetup() (n, dim int, pts []Point, q Point, t *Tree) {
	n = verifChoose("n", verifParam("vpnmin", 1), verifParam("vpn", 3))
	dim = verifChoose("dim", verifParam("vpdimmin", 1), verifParam("vpdim", 2))
	q = make(Point, dim)
	for d := range q {
		q[d] = verifFloat("q" + string(rune('x'+d)))
	}
	cs, pts := verifC20VPPoints(n, dim, q)
	// src == nil: the package-level rand.IntN, which the engine models as an
	// arbitrary value of its contract (cheaper than the symbolic Source below).
	t, err := New(cs, verifParam("vpeffort", 1), nil)
	verifAssert(err == nil, "New succeeds for finite points")
	verifAssert(t != nil, "New returns a tree")
	return n, dim, pts, q, t
}

// verifC20VPSorted: squared brute-force distances in ascending order (branch-free network).
func verifC20VPSorted(pts []Point, q Point) []float64 {
	d := make([]float64, len(pts))
	for i, p := range pts {
		d[i] = verifC20VPDist2(p, q)
	}
	for pass := 0; pass < len(d); pass++ {
		for i := pass % 2; i+1 < len(d); i += 2 {
			a, b := d[i], d[i+1]
			sw := b < a
			d[i] = verifIteF(sw, b, a)
			d[i+1] = verifIteF(sw, a, b)
		}
	}
	return d
}

func VerifC20_VPNearest() {
	n, _, pts, q, t := verifC20VPSetup()
	verifAssert(t.Len() == n, "Len is the number of points")
	got, dist := t.Nearest(q)
	verifAssert(verifC20VPStored(got, pts), "Nearest returns one of the stored points")
	verifAssert(dist >= 0, "the reported distance is non-negative")
	if gp, ok := got.(Point); ok {
		verifAssertEqF(dist*dist, verifC20VPDist2(gp, q), "Nearest reports the distance of the point it returns")
	}
	for _, p := range pts {
		verifAssert(dist*dist <= verifC20VPDist2(p, q), "Nearest distance is minimal over all points")
	}
	verifReach("end")
}

func verifC20VPKept(h Heap, want int, pts []Point, q Point) {
	verifAssert(len(h) == want, "NearestSet keeps as many points as the brute-force scan selects")
	sorted := verifC20VPSorted(pts, q)
	for i, c := range h {
		if i >= len(sorted) {
			break
		}
		verifAssert(verifC20VPStored(c.Comparable, pts), "every kept entry is a stored point (no sentinel)")
		verifAssert(c.Dist >= 0, "kept distances are non-negative")
		if p, ok := c.Comparable.(Point); ok {
			verifAssertEqF(c.Dist*c.Dist, verifC20VPDist2(p, q), "kept distance is the distance of the kept point")
		}
		verifAssertEqF(c.Dist*c.Dist, sorted[i], "i-th kept distance is the i-th smallest brute-force distance")
	}
}

func VerifC20_VPKNearest() {
	n, _, pts, q, t := verifC20VPSetup()
	k := verifChoose("k", 1, n+1)
	keep := NewNKeeper(k)
	t.NearestSet(keep, q)
	want := k
	if n < k {
		want = n
	}
	verifC20VPKept(keep.Heap, want, pts, q)
	verifReach("end")
}

func VerifC20_VPRadius() {
	_, _, pts, q, t := verifC20VPSetup()
	r := verifFloat("r")
	verifAssume(r >= 0)
	keep := NewDistKeeper(r)
	t.NearestSet(keep, q)
	want := 0
	for _, p := range pts {
		want += verifIteInt(verifC20VPDist2(p, q) <= r*r, 1, 0)
	}
	verifAssert(len(keep.Heap) == want, "within-radius query returns as many points as the brute-force scan")
	for _, c := range keep.Heap {
		verifAssert(c.Dist <= r, "every returned point lies within the radius")
	}
	verifC20VPKept(keep.Heap, len(keep.Heap), pts, q)
	verifReach("end")
}

// VerifC20_VPDo: "Do performs fn on all values stored in the tree": every
// point handed to New is visited exactly once.
func VerifC20_VPDo() {
	n := verifChoose("n", 1, verifParam("vpn", 3))
	dim := verifChoose("dim", 1, verifParam("vpdim", 2))
	cs, pts := verifC20VPPoints(n, dim, nil)
	t, err := New(cs, verifParam("vpeffort", 1), &verifC20VPSrc{max: n})
	verifAssert(err == nil, "New succeeds for finite points")
	verifAssert(t.Len() == n, "Len is the number of points")
	seen := make([]int, n)
	calls := 0
	stopped := t.Do(func(c Comparable, depth int) bool {
		calls++
		cp := c.(Point)
		for i, p := range pts {
			seen[i] += verifIteInt(verifC20VPSame(cp, p), 1, 0)
		}
		return false
	})
	verifAssert(!stopped, "Do is not interrupted when the operation never returns true")
	verifAssert(calls == n, "Do calls the operation once per stored point")
	for i := range seen {
		verifAssert(seen[i] == 1, "Do visits each point exactly once")
	}
	verifReach("end")
}
