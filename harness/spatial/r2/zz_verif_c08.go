package r2

// C08: fixed-size vector helpers of spatial/r2 equal their scalar definitions.

func verifC08vec(name string) Vec {
	return Vec{X: verifFloat(name + ".x"), Y: verifFloat(name + ".y")}
}

func verifC08sameVec(a, b Vec) bool {
	return verifAnd(verifSame(a.X, b.X), verifSame(a.Y, b.Y))
}

// VerifC08_VecOps: Add, Sub, Scale, Dot, Cross, Norm2, mulElem, divElem and
// Rotation.Rotate (given sin/cos) are the documented component formulas.
func VerifC08_VecOps() {
	verifDivZeroPrune(true) // model R: x/0 is outside the finite-real model; model F is unaffected
	p, q := verifC08vec("p"), verifC08vec("q")
	f := verifFloat("f")
	verifAssert(verifC08sameVec(Add(p, q), Vec{p.X + q.X, p.Y + q.Y}), "Add")
	verifAssert(verifC08sameVec(Sub(p, q), Vec{p.X - q.X, p.Y - q.Y}), "Sub")
	verifAssert(verifC08sameVec(Scale(f, p), Vec{f * p.X, f * p.Y}), "Scale")
	verifAssert(verifSame(Dot(p, q), p.X*q.X+p.Y*q.Y), "Dot")
	verifAssert(verifSame(Cross(p, q), p.X*q.Y-p.Y*q.X), "Cross")
	verifAssert(verifSame(Norm2(p), p.X*p.X+p.Y*p.Y), "Norm2")
	verifAssert(verifC08sameVec(mulElem(p, q), Vec{p.X * q.X, p.Y * q.Y}), "mulElem")
	verifAssert(verifC08sameVec(divElem(p, q), Vec{p.X / q.X, p.Y / q.Y}), "divElem")
	s, c := verifFloat("sin"), verifFloat("cos")
	r := Rotation{sin: s, cos: c, p: q}
	got := r.Rotate(p)
	ox, oy := p.X-q.X, p.Y-q.Y
	want := Vec{(ox*c - oy*s) + q.X, (ox*s + oy*c) + q.Y}
	if s == 0 && c == 1 {
		want = p
	}
	verifAssert(verifC08sameVec(got, want), "Rotate about q (identity rotation returns p unchanged)")
	verifReach("end")
}

// VerifC08_VecMinMaxAbs (model F): IEEE min/max/abs per component.
func VerifC08_VecMinMaxAbs() {
	p, q := verifC08vec("p"), verifC08vec("q")
	mn, mx, ab := minElem(p, q), maxElem(p, q), absElem(p)
	chk := func(a, b, lo, hi, abs float64) {
		nn := verifAnd(a == a, b == b)
		verifAssert(verifImplies(nn, verifAnd(lo <= a, lo <= b)), "min is a lower bound")
		verifAssert(verifImplies(nn, verifAnd(hi >= a, hi >= b)), "max is an upper bound")
		verifAssert(verifImplies(nn, verifOr(lo == a, lo == b)), "min is one of the operands")
		verifAssert(verifImplies(nn, verifOr(hi == a, hi == b)), "max is one of the operands")
		// math.Min/Max: an operand equal to the dominating infinity wins even
		// against NaN (Min(x, -Inf) = -Inf, Max(x, +Inf) = +Inf); otherwise a
		// NaN operand gives NaN
		negInf := verifOr(a < -1.7976931348623157e308, b < -1.7976931348623157e308)
		posInf := verifOr(a > 1.7976931348623157e308, b > 1.7976931348623157e308)
		verifAssert(verifImplies(verifAnd(verifNot(nn), verifNot(negInf)), lo != lo), "NaN operand gives NaN (min)")
		verifAssert(verifImplies(verifAnd(verifNot(nn), verifNot(posInf)), hi != hi), "NaN operand gives NaN (max)")
		verifAssert(verifOr(verifSame(abs, a), verifSame(abs, -a)), "abs is +-a")
		verifAssert(verifImplies(a == a, abs >= 0), "abs is non-negative")
	}
	chk(p.X, q.X, mn.X, mx.X, ab.X)
	chk(p.Y, q.Y, mn.Y, mx.Y, ab.Y)
	verifReach("end")
}

// VerifC08_VecNorm (model R): Norm >= 0, Norm^2 = Norm2, Unit*|p| = p, Cos*|p||q| = p.q.
func VerifC08_VecNorm() {
	p, q := verifC08vec("p"), verifC08vec("q")
	n := Norm(p)
	verifAssert(n >= 0, "Norm non-negative")
	verifAssertEqF(n*n, p.X*p.X+p.Y*p.Y, "Norm squared")
	if p.X != 0 || p.Y != 0 {
		u := Unit(p)
		verifAssertEqF(u.X*n, p.X, "Unit.X * |p| = p.X")
		verifAssertEqF(u.Y*n, p.Y, "Unit.Y * |p| = p.Y")
		if q.X != 0 || q.Y != 0 {
			verifAssertEqF(Cos(p, q)*n*Norm(q), Dot(p, q), "Cos * |p||q| = p.q")
		}
	}
	verifReach("end")
}
