package r2

import "math"

// C08, second wave for spatial/r2: Box and Triangle helpers.

func verifC08box(name string) Box {
	return Box{Min: verifC08vec(name + ".min"), Max: verifC08vec(name + ".max")}
}

func verifC08comps(v Vec) [2]float64 { return [2]float64{v.X, v.Y} }

func verifC08vecNaN(v Vec) bool {
	return verifOr(v.X != v.X, v.Y != v.Y)
}

// VerifC08_BoxOrder (model F, every IEEE value; min/max/compare exact): NewBox
// is component-wise math.Min / math.Max and well formed for NaN-free input;
// Empty is "some Min component >= the Max component"; Vertices lists the 4
// corners counter-clockwise from the minimum; Union returns the other box when one is
// empty and otherwise the component-wise min of Min and max of Max, which
// contains both boxes; Contains is the closed-interval test for a non-empty
// box and "v == Min == Max" for an empty one; Canon is well formed, keeps a
// well formed box, and is idempotent.
func VerifC08_BoxOrder() {
	part := verifChoose("part", 0, 4)
	if part == 0 {
		x := verifFloats("c", 4)
		nb := NewBox(x[0], x[1], x[2], x[3])
		mn, mx := verifC08comps(nb.Min), verifC08comps(nb.Max)
		for i := 0; i < 2; i++ {
			lo, hi := math.Min(x[i], x[i+2]), math.Max(x[i], x[i+2])
			verifAssert(verifOr(verifSame(mn[i], lo), verifAnd(mn[i] != mn[i], lo != lo)), "NewBox: Min = math.Min per component")
			verifAssert(verifOr(verifSame(mx[i], hi), verifAnd(mx[i] != mx[i], hi != hi)), "NewBox: Max = math.Max per component")
			verifAssert(verifImplies(verifAnd(x[i] == x[i], x[i+2] == x[i+2]), mn[i] <= mx[i]), "NewBox: well formed")
		}
		verifReach("newbox")
		return
	}
	a := verifC08box("a")
	amin, amax := verifC08comps(a.Min), verifC08comps(a.Max)
	emptyA := verifOr(amin[0] >= amax[0], amin[1] >= amax[1])
	switch part {
	case 1:
		verifAssert(a.Empty() == emptyA, "Empty: some Min component >= Max component")
		vs := a.Vertices()
		verifAssert(len(vs) == 4, "4 vertices")
		for k, p := range vs {
			pc := verifC08comps(p)
			pick := [2]bool{k == 1 || k == 2, k == 2 || k == 3}
			for i := 0; i < 2; i++ {
				want := amin[i]
				if pick[i] {
					want = amax[i]
				}
				verifAssert(verifSame(pc[i], want), "Vertices: documented corner order")
			}
		}
	case 2:
		b := verifC08box("b")
		bmin, bmax := verifC08comps(b.Min), verifC08comps(b.Max)
		emptyB := verifOr(bmin[0] >= bmax[0], bmin[1] >= bmax[1])
		u := a.Union(b)
		umin, umax := verifC08comps(u.Min), verifC08comps(u.Max)
		switch {
		case emptyA:
			verifAssert(verifC08sameVec(u.Min, b.Min) && verifC08sameVec(u.Max, b.Max), "Union with an empty receiver: the argument")
		case emptyB:
			verifAssert(verifC08sameVec(u.Min, a.Min) && verifC08sameVec(u.Max, a.Max), "Union with an empty argument: the receiver")
		default:
			nan := verifOr(verifOr(verifC08vecNaN(a.Min), verifC08vecNaN(a.Max)), verifOr(verifC08vecNaN(b.Min), verifC08vecNaN(b.Max)))
			for i := 0; i < 2; i++ {
				verifAssert(verifImplies(verifNot(nan), verifAnd(umin[i] <= amin[i], umin[i] <= bmin[i])), "Union encloses both minima")
				verifAssert(verifImplies(verifNot(nan), verifAnd(umax[i] >= amax[i], umax[i] >= bmax[i])), "Union encloses both maxima")
				verifAssert(verifImplies(verifNot(nan), verifAnd(verifOr(umin[i] == amin[i], umin[i] == bmin[i]), verifOr(umax[i] == amax[i], umax[i] == bmax[i]))), "Union is tight")
			}
		}
	case 3:
		v := verifC08vec("v")
		vc := verifC08comps(v)
		if emptyA {
			eq := true
			for i := 0; i < 2; i++ {
				eq = verifAnd(eq, verifAnd(vc[i] == amin[i], vc[i] == amax[i]))
			}
			verifAssert(a.Contains(v) == eq, "Contains, empty box: only the point Min == Max")
		} else {
			in := true
			for i := 0; i < 2; i++ {
				in = verifAnd(in, verifAnd(amin[i] <= vc[i], vc[i] <= amax[i]))
			}
			verifAssert(a.Contains(v) == in, "Contains: closed interval test per component")
		}
	case 4:
		c := a.Canon()
		cmin, cmax := verifC08comps(c.Min), verifC08comps(c.Max)
		for i := 0; i < 2; i++ {
			num := verifAnd(amin[i] == amin[i], amax[i] == amax[i])
			verifAssert(verifImplies(num, cmin[i] <= cmax[i]), "Canon: well formed")
			verifAssert(verifImplies(num, verifOr(verifAnd(cmin[i] == amin[i], cmax[i] == amax[i]), verifAnd(cmin[i] == amax[i], cmax[i] == amin[i]))), "Canon: keeps or swaps each component pair")
			verifAssert(verifImplies(verifAnd(num, amin[i] < amax[i]), verifAnd(verifSame(cmin[i], amin[i]), verifSame(cmax[i], amax[i]))), "Canon: a well formed component pair is kept bit for bit")
		}
		cc := c.Canon()
		nanA := verifOr(verifC08vecNaN(a.Min), verifC08vecNaN(a.Max))
		verifAssert(verifImplies(verifNot(nanA), verifAnd(cc.Min == c.Min, cc.Max == c.Max)), "Canon is idempotent")
	}
	verifReach("end")
}

// VerifC08_BoxAlgebra (model R): Size = Max - Min, Center = (Min + Max)/2,
// Add translates both corners (size kept, centre moved by v), Scale keeps the
// centre and multiplies the size by max(scale, 0) for a well formed box,
// centeredBox(c, s) has centre c and size max(s, 0).
func VerifC08_BoxAlgebra() {
	a := verifC08box("a")
	v, s := verifC08vec("v"), verifC08vec("s")
	amin, amax := verifC08comps(a.Min), verifC08comps(a.Max)
	for i := 0; i < 2; i++ {
		verifAssume(amin[i] <= amax[i])
	}
	sz, ce := verifC08comps(a.Size()), verifC08comps(a.Center())
	tr := a.Add(v)
	tsz, tce := verifC08comps(tr.Size()), verifC08comps(tr.Center())
	sc := a.Scale(s)
	ssz, sce := verifC08comps(sc.Size()), verifC08comps(sc.Center())
	cb := centeredBox(v, s)
	csz, cce := verifC08comps(cb.Size()), verifC08comps(cb.Center())
	vc, scc := verifC08comps(v), verifC08comps(s)
	for i := 0; i < 2; i++ {
		verifAssertEqF(sz[i], amax[i]-amin[i], "Size = Max - Min")
		verifAssertEqF(2*ce[i], amin[i]+amax[i], "Center = (Min + Max) / 2")
		verifAssertEqF(tsz[i], sz[i], "Add keeps the size")
		verifAssertEqF(tce[i], ce[i]+vc[i], "Add moves the centre by v")
		pos := verifIteF(scc[i] > 0, scc[i], 0)
		verifAssertEqF(sce[i], ce[i], "Scale keeps the centre")
		verifAssertEqF(ssz[i], pos*sz[i], "Scale multiplies the size by max(scale, 0)")
		verifAssertEqF(cce[i], vc[i], "centeredBox: centre")
		verifAssertEqF(csz[i], pos, "centeredBox: size max(s, 0)")
	}
	verifReach("end")
}

// VerifC08_Triangle (model R): Centroid is (t0+t1+t2) scaled by the constant
// 1.0/3.0; the side lengths are ordered; Area >= 0 and (2*Area)^2 is the
// squared cross product of two sides (Heron's formula against the shoelace
// formula), so Area is invariant under a permutation of the vertices.
func VerifC08_Triangle() {
	t := Triangle{verifC08vec("t0"), verifC08vec("t1"), verifC08vec("t2")}
	c := t.Centroid()
	third := 1.0 / 3.0
	verifAssertEqF(c.X, third*(t[0].X+t[1].X+t[2].X), "Centroid.X")
	verifAssertEqF(c.Y, third*(t[0].Y+t[1].Y+t[2].Y), "Centroid.Y")
	if verifParam("area", 0) >= 1 {
		a, b, cc := t.orderedLengths()
		verifAssert(verifAnd(0 <= a, verifAnd(a <= b, b <= cc)), "orderedLengths: 0 <= a <= b <= c")
		ar := t.Area()
		verifAssert(ar >= 0, "Area >= 0")
		if verifParam("area", 0) >= 2 {
			x := Cross(Sub(t[1], t[0]), Sub(t[2], t[1]))
			verifAssertEqF(4*ar*ar, x*x, "(2*Area)^2 = ((t1-t0) x (t2-t1))^2")
		}
	}
	verifReach("end")
}
