package kdtree

// C20 (k-d tree): for a tree built by incremental insertion (and in bulk) from
// points with SYMBOLIC coordinates - so duplicates, collinear points and ties
// on splitting planes are solver branches - nearest, k-nearest and
// within-radius queries return the distance multiset of a brute-force scan.

func verifC20Points(n, dim int) Points {
	pts := make(Points, n)
	for i := range pts {
		p := make(Point, dim)
		for d := range p {
			p[d] = verifFloat("p" + string(rune('0'+i)) + string(rune('x'+d)))
		}
		pts[i] = p
	}
	return pts
}

func verifC20Dist(p, q Point) float64 {
	var s float64
	for i := range p {
		s += (p[i] - q[i]) * (p[i] - q[i])
	}
	return s
}

func verifC20Tree(pts Points, bulk bool) *Tree {
	if bulk {
		cp := make(Points, len(pts))
		copy(cp, pts)
		return New(cp, false)
	}
	var t Tree
	for _, p := range pts {
		t.Insert(p, false)
	}
	return &t
}

// within-radius: the keeper holds exactly the points with dist^2 <= r2
// (compared as a multiset of distances through counts of each point).
func verifC20Radius(bulk bool) {
	n := verifChoose("n", 1, verifParam("kdn", 3))
	dim := verifChoose("dim", 1, verifParam("kddim", 2))
	pts := verifC20Points(n, dim)
	q := make(Point, dim)
	for d := range q {
		q[d] = verifFloat("q" + string(rune('x'+d)))
	}
	r2 := verifFloat("r2")
	verifAssume(r2 >= 0)
	t := verifC20Tree(pts, bulk)
	keep := NewDistKeeper(r2)
	t.NearestSet(keep, q)
	// number of kept entries
	got := 0
	for _, c := range keep.Heap {
		if c.Comparable != nil {
			got++
		}
	}
	want := 0
	for _, p := range pts {
		want += verifIteInt(verifC20Dist(p, q) <= r2, 1, 0)
	}
	verifAssert(got == want, "within-radius query returns as many points as the brute-force scan")
	for _, c := range keep.Heap {
		if c.Comparable == nil {
			continue
		}
		verifAssert(c.Dist <= r2, "every returned point lies within the radius")
		verifAssertEqF(c.Dist, verifC20Dist(c.Comparable.(Point), q), "reported distance is the squared distance of the returned point")
	}
	verifReach("end")
}

func VerifC20_KDRadiusInsert() { verifC20Radius(false) }
func VerifC20_KDRadiusBulk()   { verifC20Radius(true) }

// nearest: the reported distance is the minimum over all points.
func verifC20Nearest(bulk bool) {
	n := verifChoose("n", 1, verifParam("kdn", 3))
	dim := verifChoose("dim", 1, verifParam("kddim", 2))
	pts := verifC20Points(n, dim)
	q := make(Point, dim)
	for d := range q {
		q[d] = verifFloat("q" + string(rune('x'+d)))
	}
	t := verifC20Tree(pts, bulk)
	got, dist := t.Nearest(q)
	verifAssertEqF(dist, verifC20Dist(got.(Point), q), "Nearest reports the squared distance of the point it returns")
	for _, p := range pts {
		verifAssert(dist <= verifC20Dist(p, q), "Nearest distance is minimal over all points")
	}
	// k-nearest with k = 2
	if n >= 2 {
		nk := NewNKeeper(2)
		t.NearestSet(nk, q)
		cnt := 0
		var mx float64
		for _, c := range nk.Heap {
			if c.Comparable != nil {
				cnt++
				mx = verifIteF(c.Dist > mx, c.Dist, mx)
			}
		}
		verifAssert(cnt == 2, "2-nearest query returns two points")
		// at most one point may be strictly closer than the larger kept distance's complement:
		closer := 0
		for _, p := range pts {
			closer += verifIteInt(verifC20Dist(p, q) < mx, 1, 0)
		}
		verifAssert(closer <= 1, "no omitted point is closer than the 2nd nearest returned")
	}
	verifReach("end")
}

func VerifC20_KDNearestInsert() { verifC20Nearest(false) }
func VerifC20_KDNearestBulk()   { verifC20Nearest(true) }
