package kdtree

// C20 (k-d tree). Every harness builds a tree from n points with SYMBOLIC
// coordinates (so duplicates, collinear points and ties on splitting planes
// are solver branches) through a HISTORY: the first nb points in bulk with
// New, the remaining n-nb points one by one with Insert. The query (point,
// radius, box) is symbolic too. Oracles are brute-force scans written with
// branch-free selects.
//
// Bulk construction draws random pivots (medians.go: Select calls rand.IntN
// in a loop that only terminates with probability one). The harness replaces
// rand.IntN by a case split over every value of its contract and prunes
// histories that need more than `kddraws` (default: points + 1) draws in one
// New call: a finite, exhaustive exploration of all pivot sequences up to that
// length. Natively the stub is not installed (real random pivots): every
// assertion holds for any pivots.

// verifC20Points returns the query q and n points p_i = q + u_i with q and all
// u_i symbolic: a bijective reparametrisation of "all points and the query
// symbolic" (every configuration is still reachable) under which the
// polynomial constraints the solver sees (differences of coordinates) do not
// mention q at all - two real variables less per query in dimension 2.
// q == nil gives plain independent coordinates.
func verifC20Points(n, dim int, q Point) Points {
	pts := make(Points, n)
	for i := range pts {
		p := make(Point, dim)
		for d := range p {
			v := verifFloat("p" + string(rune('0'+i)) + string(rune('x'+d)))
			if q != nil {
				v += q[d]
			}
			p[d] = v
		}
		pts[i] = p
	}
	return pts
}

func verifC20Query(name string, dim int) Point {
	q := make(Point, dim)
	for d := range q {
		q[d] = verifFloat(name + string(rune('x'+d)))
	}
	return q
}

func verifC20Dist(p, q Point) float64 {
	var s float64
	for i := range p {
		s += (p[i] - q[i]) * (p[i] - q[i])
	}
	return s
}

// verifC20Same reports whether a and b are the same stored point (identity of
// the backing array, not equality of coordinates: duplicates are distinct).
func verifC20Same(a, b Point) bool { return &a[0] == &b[0] }

// histories: 0 = Insert only, 1 = bulk only, 2 = bulk of 1..n-1 points followed by Inserts.
const (
	verifC20Insert = iota
	verifC20Bulk
	verifC20Mixed
)

func verifC20StubRand(n int) {
	max := verifParam("kddraws", 0)
	if max == 0 {
		max = n + 1
	}
	draws := 0
	verifStubFunc("math/rand/v2.IntN", func(n int) int {
		draws++
		verifAssume(draws <= max)
		return verifChoose("rnd", 0, n-1)
	})
}

// verifC20Tree builds the tree for the chosen history. It returns the tree.
func verifC20Tree(pts Points, hist int, bounding bool) *Tree {
	n := len(pts)
	nb := 0
	switch hist {
	case verifC20Bulk:
		nb = n
	case verifC20Mixed:
		nb = verifChoose("nbulk", 1, n-1)
	}
	var t *Tree
	if nb == 0 {
		t = &Tree{}
	} else {
		verifC20StubRand(nb)
		cp := make(Points, nb)
		copy(cp, pts[:nb])
		t = New(cp, bounding)
	}
	for _, p := range pts[nb:] {
		t.Insert(p, bounding)
	}
	return t
}

func verifC20Setup(hist int, query bool) (n, dim int, pts Points, q Point) {
	lo := 1
	if hist == verifC20Mixed {
		lo = 2
	}
	if m := verifParam("kdnmin", 1); m > lo {
		lo = m
	}
	n = verifChoose("n", lo, verifParam("kdn", 3))
	dim = verifChoose("dim", verifParam("kddimmin", 1), verifParam("kddim", 2))
	if query {
		q = verifC20Query("q", dim)
	}
	return n, dim, verifC20Points(n, dim, q), q
}

// verifC20Sorted returns the brute-force squared distances in ascending order
// (odd-even transposition network of branch-free compare-exchanges).
func verifC20Sorted(pts Points, q Point) []float64 {
	d := make([]float64, len(pts))
	for i, p := range pts {
		d[i] = verifC20Dist(p, q)
	}
	for pass := 0; pass < len(d); pass++ {
		for i := pass % 2; i+1 < len(d); i += 2 {
			a, b := d[i], d[i+1]
			sw := b < a
			d[i] = verifIteF(sw, b, a)
			d[i+1] = verifIteF(sw, a, b)
		}
	}
	return d
}

// verifC20Stored: c is one of the points given to the tree.
func verifC20Stored(c Comparable, pts Points) bool {
	p, ok := c.(Point)
	if !ok {
		return false
	}
	is := false
	for _, s := range pts {
		is = verifOr(is, verifC20Same(p, s))
	}
	return is
}

// ---- Nearest ---------------------------------------------------------------

func verifC20Nearest(hist int) {
	_, _, pts, q := verifC20Setup(hist, true)
	t := verifC20Tree(pts, hist, false)
	got, dist := t.Nearest(q)
	verifAssert(verifC20Stored(got, pts), "Nearest returns one of the stored points")
	verifAssertEqF(dist, verifC20Dist(got.(Point), q), "Nearest reports the squared distance of the point it returns")
	for _, p := range pts {
		verifAssert(dist <= verifC20Dist(p, q), "Nearest distance is minimal over all points")
	}
	verifReach("end")
}

func VerifC20_KDNearestInsert() { verifC20Nearest(verifC20Insert) }
func VerifC20_KDNearestBulk()   { verifC20Nearest(verifC20Bulk) }
func VerifC20_KDNearestMixed()  { verifC20Nearest(verifC20Mixed) }

// ---- k nearest ---------------------------------------------------------------

// verifC20Kept checks a keeper after NearestSet: entries ascending and equal to
// the prefix of the sorted brute-force distances, every entry a stored point
// with its own squared distance, no sentinel left.
func verifC20Kept(h Heap, want int, pts Points, q Point) {
	verifAssert(len(h) == want, "NearestSet keeps as many points as the brute-force scan selects")
	sorted := verifC20Sorted(pts, q)
	for i, c := range h {
		if i >= len(sorted) {
			break
		}
		verifAssert(verifC20Stored(c.Comparable, pts), "every kept entry is a stored point (no sentinel)")
		if p, ok := c.Comparable.(Point); ok {
			verifAssertEqF(c.Dist, verifC20Dist(p, q), "kept distance is the squared distance of the kept point")
		}
		verifAssertEqF(c.Dist, sorted[i], "i-th kept distance is the i-th smallest brute-force distance")
	}
}

func verifC20KNearest(hist int) {
	n, _, pts, q := verifC20Setup(hist, true)
	k := verifChoose("k", 1, n+1)
	t := verifC20Tree(pts, hist, false)
	keep := NewNKeeper(k)
	t.NearestSet(keep, q)
	want := k
	if n < k {
		want = n
	}
	verifC20Kept(keep.Heap, want, pts, q)
	verifReach("end")
}

func VerifC20_KDKNearestInsert() { verifC20KNearest(verifC20Insert) }
func VerifC20_KDKNearestBulk()   { verifC20KNearest(verifC20Bulk) }
func VerifC20_KDKNearestMixed()  { verifC20KNearest(verifC20Mixed) }

// ---- within radius -----------------------------------------------------------

func verifC20Radius(hist int) {
	_, _, pts, q := verifC20Setup(hist, true)
	r2 := verifFloat("r2")
	verifAssume(r2 >= 0)
	t := verifC20Tree(pts, hist, false)
	keep := NewDistKeeper(r2)
	t.NearestSet(keep, q)
	want := 0
	for _, p := range pts {
		want += verifIteInt(verifC20Dist(p, q) <= r2, 1, 0)
	}
	verifAssert(len(keep.Heap) == want, "within-radius query returns as many points as the brute-force scan")
	for _, c := range keep.Heap {
		verifAssert(c.Dist <= r2, "every returned point lies within the radius")
	}
	verifC20Kept(keep.Heap, len(keep.Heap), pts, q)
	verifReach("end")
}

func VerifC20_KDRadiusInsert() { verifC20Radius(verifC20Insert) }
func VerifC20_KDRadiusBulk()   { verifC20Radius(verifC20Bulk) }
func VerifC20_KDRadiusMixed()  { verifC20Radius(verifC20Mixed) }

// ---- bounding boxes, Contains, Len, Do ----------------------------------------

// verifC20In: branch-free "p lies in the closed box b".
func verifC20In(b *Bounding, p Point) bool {
	lo, hi := b.Min.(Point), b.Max.(Point)
	in := true
	for d := range p {
		in = verifAnd(in, verifAnd(lo[d] <= p[d], p[d] <= hi[d]))
	}
	return in
}

// verifC20Subtree appends the points stored below nd.
func verifC20Subtree(nd *Node, dst []Point) []Point {
	if nd == nil {
		return dst
	}
	dst = verifC20Subtree(nd.Left, dst)
	dst = append(dst, nd.Point.(Point))
	return verifC20Subtree(nd.Right, dst)
}

func verifC20CheckBoxes(nd *Node) {
	if nd == nil {
		return
	}
	verifAssert(nd.Bounding != nil, "a tree built with bounding=true has a box on every node")
	if nd.Bounding != nil {
		for _, p := range verifC20Subtree(nd, nil) {
			verifAssert(verifC20In(nd.Bounding, p), "a node's bounding box contains every point of its subtree")
		}
	}
	verifC20CheckBoxes(nd.Left)
	verifC20CheckBoxes(nd.Right)
}

func verifC20Bounds(hist int) {
	n, _, pts, _ := verifC20Setup(hist, false)
	t := verifC20Tree(pts, hist, true)
	verifAssert(t.Len() == n, "Len is the number of points given to the tree")
	all := verifC20Subtree(t.Root, nil)
	verifAssert(len(all) == n, "the tree holds n nodes")
	for _, p := range pts {
		cnt := 0
		for _, s := range all {
			cnt += verifIteInt(verifC20Same(p, s), 1, 0)
		}
		verifAssert(cnt == 1, "every point is stored in exactly one node")
	}
	verifC20CheckBoxes(t.Root)
	for _, p := range pts {
		verifAssert(t.Contains(p), "Tree.Contains holds for every stored point")
	}
	// Do visits every point once and hands out a box that contains it.
	seen := make([]int, n)
	calls := 0
	stopped := t.Do(func(c Comparable, b *Bounding, depth int) bool {
		calls++
		cp := c.(Point)
		for i, p := range pts {
			seen[i] += verifIteInt(verifC20Same(cp, p), 1, 0)
		}
		if b != nil {
			verifAssert(verifC20In(b, cp), "the box passed to a Do operation contains the visited point")
		}
		return false
	})
	verifAssert(!stopped, "Do is not interrupted when the operation never returns true")
	verifAssert(calls == n, "Do calls the operation once per stored point")
	for i := range seen {
		verifAssert(seen[i] == 1, "Do visits each point exactly once")
	}
	verifReach("end")
}

func VerifC20_KDBoundsInsert() { verifC20Bounds(verifC20Insert) }
func VerifC20_KDBoundsBulk()   { verifC20Bounds(verifC20Bulk) }
func VerifC20_KDBoundsMixed()  { verifC20Bounds(verifC20Mixed) }

// ---- DoBounded ------------------------------------------------------------------

// DoBounded "performs fn on all values stored in the tree that are within the
// specified bound": the visited multiset is exactly the points in the closed
// query box, each once.
func verifC20DoBounded(hist int) {
	n, dim, pts, _ := verifC20Setup(hist, false)
	lo := verifC20Query("lo", dim)
	hi := verifC20Query("hi", dim)
	for d := 0; d < dim; d++ {
		verifAssume(lo[d] <= hi[d])
	}
	t := verifC20Tree(pts, hist, verifChoose("bounding", 0, 1) == 1)
	box := &Bounding{Min: lo, Max: hi}
	seen := make([]int, n)
	t.DoBounded(box, func(c Comparable, b *Bounding, depth int) bool {
		cp := c.(Point)
		for i, p := range pts {
			seen[i] += verifIteInt(verifC20Same(cp, p), 1, 0)
		}
		return false
	})
	for i, p := range pts {
		verifAssert(seen[i] == verifIteInt(verifC20In(box, p), 1, 0), "DoBounded visits exactly the stored points inside the box, each once")
	}
	verifReach("end")
}

func VerifC20_KDDoBoundedInsert() { verifC20DoBounded(verifC20Insert) }
func VerifC20_KDDoBoundedBulk()   { verifC20DoBounded(verifC20Bulk) }

// ---- compositional variant: structure invariant + search over every valid tree ----
//
// (1) VerifC20_KDInvariant*: every history (Insert, New with any pivot draws,
//     New followed by Inserts) yields a tree that holds each point exactly
//     once, whose planes cycle with depth, and in which every point of a
//     node's Left subtree is <= the node on the node's plane and every point
//     of its Right subtree is >= the node there.
// (2) VerifC20_KDSearch*: for EVERY tree shape with n nodes (case split) and
//     symbolic points that satisfy exactly the invariant of (1), the queries
//     equal the brute-force scan.
// Together: the queries are right after every history, without multiplying
// the query exploration by the number of construction paths.

// verifC20Inv asserts (check=true) or assumes (check=false) the invariant below nd.
func verifC20Inv(nd *Node, depth, dim int, check bool) {
	if nd == nil {
		return
	}
	if check {
		verifAssert(int(nd.Plane) == depth%dim, "planes cycle with depth")
	}
	pl := int(nd.Plane)
	if pl < 0 || pl >= dim {
		return
	}
	np := nd.Point.(Point)
	for _, x := range verifC20Subtree(nd.Left, nil) {
		if check {
			verifAssert(x[pl] <= np[pl], "Left subtree lies on the non-positive side of the node's plane")
		} else {
			verifAssume(x[pl] <= np[pl])
		}
	}
	for _, x := range verifC20Subtree(nd.Right, nil) {
		if check {
			verifAssert(x[pl] >= np[pl], "Right subtree lies on the non-negative side of the node's plane")
		} else {
			verifAssume(x[pl] >= np[pl])
		}
	}
	verifC20Inv(nd.Left, depth+1, dim, check)
	verifC20Inv(nd.Right, depth+1, dim, check)
}

func verifC20Invariant(hist int) {
	n, dim, pts, _ := verifC20Setup(hist, false)
	t := verifC20Tree(pts, hist, false)
	verifAssert(t.Len() == n, "Len is the number of points given to the tree")
	all := verifC20Subtree(t.Root, nil)
	verifAssert(len(all) == n, "the tree holds n nodes")
	for _, p := range pts {
		cnt := 0
		for _, s := range all {
			cnt += verifIteInt(verifC20Same(p, s), 1, 0)
		}
		verifAssert(cnt == 1, "every point is stored in exactly one node")
	}
	verifC20Inv(t.Root, 0, dim, true)
	verifReach("end")
}

func VerifC20_KDInvariantInsert() { verifC20Invariant(verifC20Insert) }
func VerifC20_KDInvariantBulk()   { verifC20Invariant(verifC20Bulk) }
func VerifC20_KDInvariantMixed()  { verifC20Invariant(verifC20Mixed) }

// verifC20Shape builds an arbitrary tree shape over pts[*next:*next+k] (case split on the
// size of every left subtree), planes cycling with depth.
func verifC20Shape(pts Points, next *int, k, depth, dim int) *Node {
	if k == 0 {
		return nil
	}
	ls := 0
	if k > 1 {
		ls = verifChoose("left", 0, k-1)
	}
	nd := &Node{Plane: Dim(depth % dim)}
	nd.Left = verifC20Shape(pts, next, ls, depth+1, dim)
	nd.Point = pts[*next]
	*next++
	nd.Right = verifC20Shape(pts, next, k-1-ls, depth+1, dim)
	return nd
}

func verifC20AnyTree() (n int, q Point, pts Points, t *Tree) {
	n, dim, pts, q := verifC20Setup(verifC20Insert, true)
	next := 0
	root := verifC20Shape(pts, &next, n, 0, dim)
	verifC20Inv(root, 0, dim, false)
	return n, q, pts, &Tree{Root: root, Count: n}
}

func VerifC20_KDSearchNearest() {
	_, q, pts, t := verifC20AnyTree()
	got, dist := t.Nearest(q)
	verifAssert(verifC20Stored(got, pts), "Nearest returns one of the stored points")
	verifAssertEqF(dist, verifC20Dist(got.(Point), q), "Nearest reports the squared distance of the point it returns")
	for _, p := range pts {
		verifAssert(dist <= verifC20Dist(p, q), "Nearest distance is minimal over all points")
	}
	verifReach("end")
}

func VerifC20_KDSearchKNearest() {
	n, q, pts, t := verifC20AnyTree()
	k := verifChoose("k", 1, n+1)
	keep := NewNKeeper(k)
	t.NearestSet(keep, q)
	want := k
	if n < k {
		want = n
	}
	verifC20Kept(keep.Heap, want, pts, q)
	verifReach("end")
}

func VerifC20_KDSearchRadius() {
	_, q, pts, t := verifC20AnyTree()
	r2 := verifFloat("r2")
	verifAssume(r2 >= 0)
	keep := NewDistKeeper(r2)
	t.NearestSet(keep, q)
	want := 0
	for _, p := range pts {
		want += verifIteInt(verifC20Dist(p, q) <= r2, 1, 0)
	}
	verifAssert(len(keep.Heap) == want, "within-radius query returns as many points as the brute-force scan")
	for _, c := range keep.Heap {
		verifAssert(c.Dist <= r2, "every returned point lies within the radius")
	}
	verifC20Kept(keep.Heap, len(keep.Heap), pts, q)
	verifReach("end")
}
