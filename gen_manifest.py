#!/usr/bin/env python3
# Regenerates MANIFEST.json from checks/*.json and manifest_meta.json.
import json, os, glob
root = os.path.dirname(os.path.abspath(__file__))
meta = json.load(open(os.path.join(root, 'manifest_meta.json')))
props = [json.loads(l) for l in open(os.path.join(root, 'properties.jsonl'))]
checks = []
na = []
for p in props:
    pid = p['id']
    m = meta['checks'].get(pid)
    if m and os.path.exists(os.path.join(root, 'checks', pid + '.json')):
        checks.append({
            "property_id": pid,
            "quick_cmd": f"./verifctl check {pid} --tier quick",
            "thorough_cmd": f"./verifctl check {pid} --tier thorough",
            "evidence_file": f"/verif/evidence/{pid}.json",
            "replay_cmd_template": "./verifctl replay {path}",
            "engine": "gosmt",
            "level_claimed": {"category": "model_checking", "text": m['text'], "design_ref": m.get('design_ref', 'DESIGN.md §3 ' + pid)},
            "level_note": m['note'],
            "technique": m.get('technique', "bounded symbolic execution of the Go SSA of the real functions; each assertion decided by an SMT query (z3) over all inputs within the stated bounds; counterexamples replayed natively"),
        })
    else:
        na.append({"property_id": pid, "reason": meta['not_applicable'].get(pid, "check not built yet")})
man = {
    "version": 1,
    "setup_cmd": "./verifctl setup",
    "hooks": {
        "guard": "verif",
        "enable": "no hooks are needed: harnesses are injected into the real packages through go/packages and `go test -overlay` overlays; the tag `verif` is reserved and unused",
        "baseline_off_cmd": "cd /repo && GOFLAGS=-mod=mod go test -vet=off -count=1 -timeout 25m ./...",
        "source_commits": meta.get('source_commits', []),
        "add_only": True,
    },
    "engines": [{"name": "gosmt", "path": "/verif/engine", "serves_properties": [c['property_id'] for c in checks],
                 "kind_free_text": "symbolic interpreter for go/ssa (x/tools v0.29.0) with a live z3 5.1.0 process per worker; decision-trail exploration, state merging at post-dominators, native replay of counterexamples via go test -overlay"}],
    "checks": checks,
    "notes": meta.get('notes', ''),
    "not_applicable": na,
}
json.dump(man, open(os.path.join(root, 'MANIFEST.json'), 'w'), indent=1)
print(f"{len(checks)} checks, {len(na)} not applicable")
