package main

import (
	"unicode/utf8"
	"os"
	"fmt"
	"go/constant"
	"go/token"
	"go/types"
	"strings"

	"golang.org/x/tools/go/ssa"
)

type targetPanic struct {
	v       Value
	runtime bool   // runtime fault (index, nil deref, divide, ...)
	msg     string // for runtime faults
}

type deferred struct {
	fn   Value
	args []Value
	tail *deferred
}

type frame struct {
	w         *Worker
	caller    *frame
	fn        *ssa.Function
	block     *ssa.BasicBlock
	prevBlock *ssa.BasicBlock
	env       map[ssa.Value]Value
	locals    []Value
	defers    *deferred
	result    Value
	panicking bool
	panic     interface{}
	skipPhis  bool
	cur       ssa.Instruction
}

type engineErr struct{ msg string }


func (fr *frame) get(key ssa.Value) Value {
	switch key := key.(type) {
	case nil:
		return nil
	case *ssa.Function:
		return key
	case *ssa.Builtin:
		return key
	case *ssa.Const:
		if v, ok := fr.w.constCache[key]; ok {
			return v
		}
		v := fr.w.constValue(key)
		switch v.(type) {
		case *Term, StrV, ComplexV:
			fr.w.constCache[key] = v
		}
		return v
	case *ssa.Global:
		return Ptr{Slot: fr.w.global(key)}
	}
	if r, ok := fr.env[key]; ok {
		return r
	}
	panic(fmt.Sprintf("get: no value for %T: %v in %s", key, key.Name(), fr.fn))
}

func (w *Worker) global(g *ssa.Global) *Value {
	if p, ok := w.globals[g]; ok {
		return p
	}
	p := new(Value)
	*p = w.zero(deref(g.Type()))
	w.globals[g] = p
	return p
}

func (w *Worker) constValue(c *ssa.Const) Value {
	t := c.Type()
	if c.Value == nil {
		if _, ok := t.Underlying().(*types.Basic); ok && t.Underlying().(*types.Basic).Kind() == types.UntypedNil {
			return IfaceV{}
		}
		return w.zero(t)
	}
	if tp, ok := t.(*types.TypeParam); ok {
		_ = tp
		panic(unsupported("constant of type parameter type"))
	}
	b, ok := t.Underlying().(*types.Basic)
	if !ok {
		panic(fmt.Sprintf("constValue: non-basic %v", t))
	}
	info := b.Info()
	switch {
	case info&types.IsBoolean != 0:
		return w.tt.Bool(constant.BoolVal(c.Value))
	case info&types.IsInteger != 0:
		wd := w.intWidth(b)
		if info&types.IsUnsigned != 0 {
			u, _ := constant.Uint64Val(constant.ToInt(c.Value))
			return w.tt.BV(wd, u)
		}
		i, ok := constant.Int64Val(constant.ToInt(c.Value))
		if !ok {
			u, _ := constant.Uint64Val(constant.ToInt(c.Value))
			return w.tt.BV(wd, u)
		}
		return w.tt.BV(wd, uint64(i))
	case info&types.IsFloat != 0:
		f, _ := constant.Float64Val(c.Value)
		if b.Kind() == types.Float32 {
			f = float64(float32(f))
		}
		return w.floatConst(b, f)
	case info&types.IsComplex != 0:
		re, _ := constant.Float64Val(constant.Real(c.Value))
		im, _ := constant.Float64Val(constant.Imag(c.Value))
		et := types.Typ[types.Float64]
		if b.Kind() == types.Complex64 {
			et = types.Typ[types.Float32]
			re, im = float64(float32(re)), float64(float32(im))
		}
		return ComplexV{w.floatConst(et, re), w.floatConst(et, im)}
	case info&types.IsString != 0:
		if c.Value.Kind() == constant.String {
			return StrV{S: constant.StringVal(c.Value)}
		}
		i, _ := constant.Int64Val(c.Value)
		return StrV{S: string(rune(i))}
	}
	panic(fmt.Sprintf("constValue: unexpected %v", t))
}

func (w *Worker) floatConst(t types.Type, f float64) *Term {
	if w.cfg.FloatModel == "F" {
		wd := 64
		if b, ok := t.Underlying().(*types.Basic); ok && (b.Kind() == types.Float32) {
			wd = 32
		}
		return w.tt.FPConst(wd, f)
	}
	return w.tt.Real(f)
}

func isF32(t types.Type) bool {
	b, ok := t.Underlying().(*types.Basic)
	return ok && (b.Kind() == types.Float32 || b.Kind() == types.Complex64)
}

// ---- calls ----

func (w *Worker) runtimePanic(msg string) {
	panic(targetPanic{v: StrV{S: "runtime error: " + msg}, runtime: true, msg: msg})
}

func (w *Worker) callValue(fnv Value, args []Value) Value {
	switch fn := fnv.(type) {
	case *ssa.Function:
		if fn == nil {
			w.runtimePanic("call of nil function")
		}
		return w.callFunction(fn, args, nil)
	case *ClosureV:
		return w.callFunction(fn.Fn, args, fn.Env)
	case *ssa.Builtin:
		return w.callBuiltin(fn, args)
	case rtypeMethod:
		switch fn.name {
		case "Size":
			return w.tt.BV(64, uint64(w.sizeof(fn.t)))
		case "String", "Name":
			return StrV{S: fn.t.String()}
		}
		panic(unsupported("reflect.Type method %s", fn.name))
	case nil:
		w.runtimePanic("call of nil function")
	}
	panic(fmt.Sprintf("call of non-function %T", fnv))
}

func (w *Worker) callFunction(fn *ssa.Function, args []Value, env []Value) (res Value) {
	if r, ok := w.intrinsic(fn, args); ok {
		return r
	}
	if w.stubs != nil {
		if st, ok := w.stubs[fn.String()]; ok {
			return w.callValue(st, args)
		}
	}
	if fn.Pkg != nil && lazyInit[fn.Pkg.Pkg.Path()] && !w.lazyDone[fn.Pkg.Pkg.Path()] && fn.Name() != "init" {
		if w.lazyDone == nil {
			w.lazyDone = map[string]bool{}
		}
		w.lazyDone[fn.Pkg.Pkg.Path()] = true
		if initFn := fn.Pkg.Func("init"); initFn != nil {
			w.lazyForce = true
			w.callFunction(initFn, nil, nil)
			w.lazyForce = false
		}
	}
	if fn.Blocks == nil {
		if r, ok := w.external(fn, args); ok {
			return r
		}
		panic(unsupported("no body for function %s", fn.String()))
	}
	if r, ok := w.external(fn, args); ok {
		return r
	}
	w.depth++
	if w.depth > 400 {
		panic(budgetErr{"call depth exceeded in " + fn.String()})
	}
	w.callStack = append(w.callStack, fn)
	csLen := len(w.callStack) - 1
	defer func() {
		w.depth--
		if r := recover(); r != nil {
			if _, ok := r.(targetPanic); ok {
				w.callStack = w.callStack[:csLen]
			}
			panic(r)
		}
		w.callStack = w.callStack[:csLen]
	}()
	if _, ok := w.stats.Funcs[fn.String()]; !ok {
		n := 0
		for _, b := range fn.Blocks {
			n += len(b.Instrs)
		}
		w.stats.Funcs[fn.String()] = n
	}
	fr := &frame{w: w, fn: fn, env: make(map[ssa.Value]Value), block: fn.Blocks[0]}
	fr.locals = make([]Value, len(fn.Locals))
	for i, l := range fn.Locals {
		fr.locals[i] = w.zero(deref(l.Type()))
		fr.env[l] = Ptr{Slot: &fr.locals[i]}
	}
	for i, p := range fn.Params {
		fr.env[p] = args[i]
	}
	for i, fv := range fn.FreeVars {
		fr.env[fv] = env[i]
	}
	var s0 int
	if initProf && fn.Name() == "init" {
		s0 = w.steps
	}
	for fr.block != nil {
		fr.runBlocks()
	}
	if initProf && fn.Name() == "init" && w.steps-s0 > 200 {
		fmt.Fprintf(os.Stderr, "initprof %s %d\n", fn.String(), w.steps-s0)
	}
	return fr.result
}

// runBlocks executes until return; target panics run defers and may recover.
func (fr *frame) runBlocks() {
	defer func() {
		if fr.block == nil {
			return // normal return
		}
		r := recover()
		if r == nil {
			return
		}
		tp, ok := r.(targetPanic)
		if !ok {
			switch r.(type) {
			case pathEnd, unsupportedErr, budgetErr, mergeAbort, engineErr:
				panic(r)
			}
			pos := ""
			if fr.cur != nil {
				pos = fr.fn.Prog.Fset.Position(fr.cur.Pos()).String() + ": " + fr.cur.String()
			}
			st := ""
			for i := len(fr.w.callStack) - 1; i >= 0 && i >= len(fr.w.callStack)-12; i-- {
				st += "\n    called from " + fr.w.callStack[i].String()
			}
			panic(engineErr{fmt.Sprintf("%v\n  in %s at %s%s", r, fr.fn.String(), pos, st)})
		}
		fr.panicking = true
		fr.panic = tp
		fr.runDefers()
		// recovered: continue at Recover block
		fr.block = fr.fn.Recover
	}()
	for {
		fr.evalPhis()
		nphi := fr.countPhis()
		for _, instr := range fr.block.Instrs[nphi:] {
			fr.w.steps++
			if fr.w.steps > fr.w.cfg.MaxSteps {
				panic(budgetErr{fmt.Sprintf("step budget %d exceeded", fr.w.cfg.MaxSteps)})
			}
			fr.cur = instr
			switch fr.visit(instr) {
			case kReturn:
				return
			case kJump:
				goto next
			}
		}
	next:
	}
}

func (fr *frame) runDefers() {
	for d := fr.defers; d != nil; d = d.tail {
		fr.runDefer(d)
	}
	fr.defers = nil
	if fr.panicking {
		panic(fr.panic)
	}
}

func (fr *frame) runDefer(d *deferred) {
	var ok bool
	defer func() {
		if !ok {
			r := recover()
			if tp, isT := r.(targetPanic); isT {
				fr.panicking = true
				fr.panic = tp
			} else {
				panic(r)
			}
		}
	}()
	fr.w.callDeferred(fr, d)
	ok = true
}

func (w *Worker) callDeferred(fr *frame, d *deferred) {
	// recover() must see the frame that is panicking: we pass via w.recoverFrame
	old := w.recoverFrames
	w.recoverFrames = append(w.recoverFrames, fr)
	defer func() { w.recoverFrames = old }()
	w.callValue(d.fn, d.args)
}

type continuation int

const (
	kNext continuation = iota
	kReturn
	kJump
)

func (fr *frame) prepareCall(call *ssa.CallCommon) (Value, []Value) {
	w := fr.w
	v := fr.get(call.Value)
	var args []Value
	var fn Value
	if call.Method == nil {
		fn = v
	} else {
		recv, ok := v.(IfaceV)
		if !ok || recv.T == nil {
			w.runtimePanic("method value: interface conversion: interface is nil")
		}
		if recv.T == rtypeModelType {
			return rtypeMethod{call.Method.Name(), recv.V.(rtypeHolder).t}, nil
		}
		m := w.lookupMethod(recv.T, call.Method)
		if m == nil {
			panic(unsupported("method %s not found on %v", call.Method.Name(), recv.T))
		}
		fn = m
		args = append(args, recv.V)
	}
	for _, a := range call.Args {
		args = append(args, fr.get(a))
	}
	return fn, args
}

func (w *Worker) lookupMethod(t types.Type, meth *types.Func) *ssa.Function {
	return w.ex.prog.LookupMethod(t, meth.Pkg(), meth.Name())
}

func (fr *frame) visit(instr ssa.Instruction) continuation {
	w := fr.w
	switch instr := instr.(type) {
	case *ssa.DebugRef:
	case *ssa.UnOp:
		fr.env[instr] = w.unop(instr, fr.get(instr.X))
	case *ssa.BinOp:
		fr.env[instr] = w.binop(instr.Op, instr.X.Type(), fr.get(instr.X), fr.get(instr.Y))
	case *ssa.Call:
		fn, args := fr.prepareCall(&instr.Call)
		if b, ok := fn.(*ssa.Builtin); ok && b.Name() == "recover" {
			fr.env[instr] = w.doRecover(fr)
		} else {
			fr.env[instr] = w.callValue(fn, args)
		}
	case *ssa.ChangeInterface:
		fr.env[instr] = fr.get(instr.X)
	case *ssa.ChangeType:
		fr.env[instr] = fr.get(instr.X)
	case *ssa.Convert:
		fr.env[instr] = w.conv(instr.Type(), instr.X.Type(), fr.get(instr.X))
	case *ssa.MultiConvert:
		fr.env[instr] = w.conv(instr.Type(), instr.X.Type(), fr.get(instr.X))
	case *ssa.SliceToArrayPointer:
		s := w.concGeom(fr.get(instr.X).(SliceV))
		n := int(deref(instr.Type()).Underlying().(*types.Array).Len())
		l := w.concInt(s.Len, "slice to array pointer")
		if l < n {
			w.runtimePanic("cannot convert slice to array pointer: length too short")
		}
		if s.Nil && n == 0 {
			fr.env[instr] = Ptr{}
		} else {
			av := ArrayV(s.B.Cells[s.Off : s.Off+n : s.Off+n])
			var slot Value = av
			fr.env[instr] = Ptr{Slot: &slot, B: s.B, Idx: s.Off}
		}
	case *ssa.MakeInterface:
		fr.env[instr] = IfaceV{T: instr.X.Type(), V: fr.get(instr.X)}
	case *ssa.Extract:
		fr.env[instr] = fr.get(instr.Tuple).(TupleV)[instr.Index]
	case *ssa.Slice:
		fr.env[instr] = w.sliceOp(instr, fr.get(instr.X), fr.get(instr.Low), fr.get(instr.High), fr.get(instr.Max))
	case *ssa.Return:
		switch len(instr.Results) {
		case 0:
		case 1:
			fr.result = fr.get(instr.Results[0])
		default:
			var res TupleV
			for _, r := range instr.Results {
				res = append(res, fr.get(r))
			}
			fr.result = res
		}
		fr.block = nil
		return kReturn
	case *ssa.RunDefers:
		fr.runDefers()
	case *ssa.Panic:
		panic(targetPanic{v: fr.get(instr.X)})
	case *ssa.Send:
		ch := fr.get(instr.Chan).(*ChanV)
		w.chanSend(ch, fr.get(instr.X))
	case *ssa.Store:
		w.store(fr.get(instr.Addr).(Ptr), fr.get(instr.Val))
	case *ssa.If:
		c := fr.get(instr.Cond).(*Term)
		if !c.IsConst() && w.cfg.Merge {
			if fr.tryMerge(instr, c) {
				return kJump
			}
		}
		succ := 1
		if w.branch(c) {
			succ = 0
		}
		fr.prevBlock, fr.block = fr.block, fr.block.Succs[succ]
		return kJump
	case *ssa.Jump:
		fr.prevBlock, fr.block = fr.block, fr.block.Succs[0]
		return kJump
	case *ssa.Defer:
		fn, args := fr.prepareCall(&instr.Call)
		fr.defers = &deferred{fn: fn, args: args, tail: fr.defers}
	case *ssa.Go:
		fn, args := fr.prepareCall(&instr.Call)
		w.spawn(fn, args)
	case *ssa.MakeChan:
		fr.env[instr] = &ChanV{capT: fr.get(instr.Size).(*Term)}
	case *ssa.Alloc:
		var p Ptr
		if instr.Heap {
			slot := new(Value)
			p = Ptr{Slot: slot}
			fr.env[instr] = p
		} else {
			p = fr.env[instr].(Ptr)
		}
		w.storeInto(p.Slot, w.zero(deref(instr.Type())))
	case *ssa.MakeSlice:
		ln := w.concInt(fr.get(instr.Len).(*Term), "make len")
		cp := w.concInt(fr.get(instr.Cap).(*Term), "make cap")
		if ln < 0 || cp < ln {
			w.runtimePanic("makeslice: len out of range")
		}
		et := instr.Type().Underlying().(*types.Slice).Elem()
		if es := w.sizeof(et); es > 0 && (cp > (1<<48)/int(es)) {
			w.runtimePanic("makeslice: len out of range")
		}
		if cp > 1<<22 {
			panic(unsupported("make of %d elements (allocation this large is not modelled)", cp))
		}
		fr.env[instr] = w.newSlice(et, ln, cp)
	case *ssa.MakeMap:
		mt := instr.Type().Underlying().(*types.Map)
		fr.env[instr] = NewMapV(mt.Key(), mt.Elem())
	case *ssa.Range:
		fr.env[instr] = w.rangeIter(fr.get(instr.X))
	case *ssa.Next:
		fr.env[instr] = w.iterNext(fr.get(instr.Iter).(*RangeIter), instr)
	case *ssa.FieldAddr:
		p := fr.get(instr.X).(Ptr)
		if p.Sym != nil {
			p = w.concretizePtr(p)
		}
		if p.IsNil() {
			w.runtimePanic("invalid memory address or nil pointer dereference")
		}
		fr.env[instr] = Ptr{Slot: &(*p.Slot).(StructV)[instr.Field]}
	case *ssa.Field:
		fr.env[instr] = fr.get(instr.X).(StructV)[instr.Field]
	case *ssa.IndexAddr:
		fr.env[instr] = w.indexAddr(fr.get(instr.X), fr.get(instr.Index).(*Term), instr.Index.Type())
	case *ssa.Index:
		fr.env[instr] = w.indexVal(fr.get(instr.X), fr.get(instr.Index).(*Term), instr.Index.Type())
	case *ssa.Lookup:
		fr.env[instr] = w.lookup(instr, fr.get(instr.X), fr.get(instr.Index))
	case *ssa.MapUpdate:
		m := fr.get(instr.Map).(*MapV)
		if m == nil {
			w.runtimePanic("assignment to entry in nil map")
		}
		k := fr.get(instr.Key)
		w.noJournal("map update")
		m.set(w.keyString(k), k, copyVal(fr.get(instr.Value)))
	case *ssa.TypeAssert:
		fr.env[instr] = w.typeAssert(instr, fr.get(instr.X).(IfaceV))
	case *ssa.MakeClosure:
		var b []Value
		for _, x := range instr.Bindings {
			b = append(b, fr.get(x))
		}
		fr.env[instr] = &ClosureV{instr.Fn.(*ssa.Function), b}
	case *ssa.Phi:
		for i, pred := range instr.Block().Preds {
			if fr.prevBlock == pred {
				fr.env[instr] = fr.get(instr.Edges[i])
				break
			}
		}
	case *ssa.Select:
		fr.env[instr] = w.selectOp(instr, fr)
	default:
		panic(unsupported("instruction %T", instr))
	}
	return kNext
}

// Phi nodes must be evaluated in parallel at block entry: patch by evaluating
// all phis of a block against prevBlock before writing any.
func (fr *frame) enterBlockPhis() {}

func (w *Worker) doRecover(fr *frame) Value {
	// recover() is effective when called directly by a deferred function whose
	// caller frame is panicking.
	n := len(w.recoverFrames)
	if n == 0 {
		return IfaceV{}
	}
	pf := w.recoverFrames[n-1]
	if pf.panicking {
		pf.panicking = false
		tp := pf.panic.(targetPanic)
		pf.panic = nil
		if tp.runtime {
			return w.runtimeErrorValue(tp.msg)
		}
		if iv, ok := tp.v.(IfaceV); ok {
			return iv
		}
		return IfaceV{T: types.Typ[types.String], V: tp.v}
	}
	return IfaceV{}
}

func (w *Worker) runtimeErrorValue(msg string) Value {
	// modelled as a string-typed interface value carrying the message
	return IfaceV{T: runtimeErrorType, V: StrV{S: "runtime error: " + msg}}
}

type rtypeHolder struct{ t types.Type }
type rtypeMethod struct {
	name string
	t    types.Type
}

var rtypeModelType = types.NewNamed(types.NewTypeName(token.NoPos, nil, "reflect.Type(model)", nil), types.Typ[types.Int], nil)

var runtimeErrorType = types.NewNamed(types.NewTypeName(token.NoPos, nil, "runtime.Error(model)", nil), types.Typ[types.String], nil)

// ---- memory ----

func (w *Worker) newBacking(et types.Type, n int) *Backing {
	w.nextBack++
	b := &Backing{ID: w.nextBack, Cells: make([]Value, n), Elem: et, ESize: w.sizeof(et)}
	for i := range b.Cells {
		b.Cells[i] = w.zero(et)
	}
	return b
}

func (w *Worker) newSlice(et types.Type, ln, cp int) SliceV {
	b := w.newBacking(et, cp)
	return SliceV{B: b, Off: 0, Len: w.tt.BV(64, uint64(ln)), Cap: cp}
}

var stdSizes = types.SizesFor("gc", "amd64")

func (w *Worker) sizeof(t types.Type) int64 {
	defer func() { recover() }()
	return stdSizes.Sizeof(t)
}

func (w *Worker) load(p Ptr) Value {
	if p.Sym != nil {
		return w.loadSym(p.Sym)
	}
	if p.Slot == nil {
		w.runtimePanic("invalid memory address or nil pointer dereference")
	}
	if w.sched != nil {
		w.raceAccess(p.Slot, false)
	}
	return copyVal(*p.Slot)
}

func (w *Worker) store(p Ptr, v Value) {
	if p.Sym != nil {
		w.storeSym(p.Sym, v)
		return
	}
	if p.Slot == nil {
		w.runtimePanic("invalid memory address or nil pointer dereference")
	}
	w.storeInto(p.Slot, v)
}

// storeInto stores v into slot, element-wise for aggregates so that pointers
// to fields/elements stay valid; leaf writes are journalled while merging.
func (w *Worker) storeInto(slot *Value, v Value) {
	switch x := v.(type) {
	case StructV:
		if cur, ok := (*slot).(StructV); ok && len(cur) == len(x) {
			for i := range x {
				w.storeInto(&cur[i], x[i])
			}
			return
		}
	case ArrayV:
		if cur, ok := (*slot).(ArrayV); ok && len(cur) == len(x) {
			for i := range x {
				w.storeInto(&cur[i], x[i])
			}
			return
		}
	}
	if w.merging > 0 {
		w.journal = append(w.journal, journalEnt{slot, *slot})
	}
	if w.sched != nil {
		w.raceAccess(slot, true)
	}
	*slot = copyVal(v)
}

func (w *Worker) loadSym(s *SymRef) Value {
	// scalar cells only
	var res Value
	for i := s.Hi - 1; i >= s.Lo; i-- {
		c := s.B.Cells[i]
		if res == nil {
			res = c
			continue
		}
		res = w.iteValue(w.tt.Eq(s.Idx, w.tt.BV(64, uint64(i))), c, res)
	}
	if res == nil {
		panic(pathEnd{"empty symbolic window"})
	}
	return res
}

func (w *Worker) storeSym(s *SymRef, v Value) {
	for i := s.Lo; i < s.Hi; i++ {
		c := w.tt.Eq(s.Idx, w.tt.BV(64, uint64(i)))
		if w.merging > 0 {
			w.journal = append(w.journal, journalEnt{&s.B.Cells[i], s.B.Cells[i]})
		}
		s.B.Cells[i] = w.iteValue(c, v, s.B.Cells[i])
	}
}

// iteValue merges two values of identical shape.
func (w *Worker) iteValue(c *Term, a, b Value) Value {
	if c.IsConst() {
		if c.B {
			return a
		}
		return b
	}
	switch x := a.(type) {
	case *Term:
		y, ok := b.(*Term)
		if !ok {
			panic(mergeAbort{"shape mismatch"})
		}
		return w.tt.Ite(c, x, y)
	case ComplexV:
		y := b.(ComplexV)
		return ComplexV{w.tt.Ite(c, x.Re, y.Re), w.tt.Ite(c, x.Im, y.Im)}
	case StructV:
		y := b.(StructV)
		r := make(StructV, len(x))
		for i := range x {
			r[i] = w.iteValue(c, x[i], y[i])
		}
		return r
	case ArrayV:
		y := b.(ArrayV)
		r := make(ArrayV, len(x))
		for i := range x {
			r[i] = w.iteValue(c, x[i], y[i])
		}
		return r
	case TupleV:
		y := b.(TupleV)
		r := make(TupleV, len(x))
		for i := range x {
			r[i] = w.iteValue(c, x[i], y[i])
		}
		return r
	case SliceV:
		y, ok := b.(SliceV)
		if ok && x.B == y.B && x.Off == y.Off && x.Cap == y.Cap && x.Nil == y.Nil && x.SOff == y.SOff && x.SCap == y.SCap {
			return SliceV{B: x.B, Off: x.Off, Cap: x.Cap, Nil: x.Nil, Len: w.tt.Ite(c, x.Len, y.Len), SOff: x.SOff, SCap: x.SCap}
		}
	case Ptr:
		if y, ok := b.(Ptr); ok && x == y {
			return x
		}
	case StrV:
		if y, ok := b.(StrV); ok && x.Sym == nil && y.Sym == nil && x.S == y.S {
			return x
		}
	case IfaceV:
		if y, ok := b.(IfaceV); ok {
			if x.T == nil && y.T == nil {
				return x
			}
			if x.T != nil && y.T != nil && types.Identical(x.T, y.T) {
				return IfaceV{T: x.T, V: w.iteValue(c, x.V, y.V)}
			}
		}
	case *MapV:
		if y, ok := b.(*MapV); ok && x == y {
			return x
		}
	case *ssa.Function:
		if y, ok := b.(*ssa.Function); ok && x == y {
			return x
		}
	case *ClosureV:
		if y, ok := b.(*ClosureV); ok && x == y {
			return x
		}
	}
	panic(mergeAbort{fmt.Sprintf("cannot merge values of kind %T", a)})
}

func (w *Worker) concretizePtr(p Ptr) Ptr {
	s := p.Sym
	i := w.concInt(s.Idx, "symbolic element pointer")
	return Ptr{Slot: &s.B.Cells[i], B: s.B, Idx: i}
}

func isScalarVal(v Value) bool {
	switch v.(type) {
	case *Term, ComplexV:
		return true
	}
	return false
}

func (w *Worker) inBounds(idx *Term, signedIdx bool, n *Term) {
	// idx is BV64 after normalisation
	var ok *Term
	if signedIdx {
		ok = w.tt.And(w.tt.BVSle(w.tt.BV(64, 0), idx), w.tt.BVSlt(idx, n))
	} else {
		ok = w.tt.BVUlt(idx, n)
	}
	if !w.branch(ok) {
		w.runtimePanic("index out of range")
	}
}

func (w *Worker) idx64(idx *Term, it types.Type) (*Term, bool) {
	signed := isSigned(it)
	return w.tt.BVResize(idx, 64, signed), signed
}

func (w *Worker) indexAddr(x Value, idx *Term, it types.Type) Value {
	i64, signed := w.idx64(idx, it)
	switch x := x.(type) {
	case SliceV:
		w.inBounds(i64, signed, x.Len)
		if x.SOff != nil {
			abs := w.tt.BVAdd(x.SOff, i64)
			if abs.IsConst() {
				i := int(abs.U)
				return Ptr{Slot: &x.B.Cells[i], B: x.B, Idx: i}
			}
			if len(x.B.Cells) > 0 && !isScalarVal(x.B.Cells[0]) {
				i := w.concInt(abs, "index of non-scalar element")
				return Ptr{Slot: &x.B.Cells[i], B: x.B, Idx: i}
			}
			return Ptr{Sym: &SymRef{B: x.B, Lo: 0, Hi: len(x.B.Cells), Idx: abs}}
		}
		if i64.IsConst() {
			i := int(i64.U) + x.Off
			return Ptr{Slot: &x.B.Cells[i], B: x.B, Idx: i}
		}
		hi := x.Off + x.Cap
		if x.Len.IsConst() {
			hi = x.Off + int(x.Len.U)
		}
		if hi-x.Off > 0 && !isScalarVal(x.B.Cells[x.Off]) {
			i := w.concInt(i64, "index of non-scalar element") + x.Off
			return Ptr{Slot: &x.B.Cells[i], B: x.B, Idx: i}
		}
		return Ptr{Sym: &SymRef{B: x.B, Lo: x.Off, Hi: hi, Idx: w.tt.BVAdd(i64, w.tt.BV(64, uint64(x.Off)))}}
	case Ptr: // *array
		if x.IsNil() {
			w.runtimePanic("invalid memory address or nil pointer dereference")
		}
		arr := (*x.Slot).(ArrayV)
		w.inBounds(i64, signed, w.tt.BV(64, uint64(len(arr))))
		if i64.IsConst() {
			if x.B != nil {
				return Ptr{Slot: &arr[int(i64.U)], B: x.B, Idx: x.Idx + int(i64.U)}
			}
			return Ptr{Slot: &arr[int(i64.U)]}
		}
		if len(arr) > 0 && isScalarVal(arr[0]) {
			b := &Backing{ID: -1, Cells: arr}
			return Ptr{Sym: &SymRef{B: b, Lo: 0, Hi: len(arr), Idx: i64}}
		}
		i := w.concInt(i64, "index of array")
		return Ptr{Slot: &arr[i]}
	}
	panic(fmt.Sprintf("indexAddr on %T", x))
}

func (w *Worker) indexVal(x Value, idx *Term, it types.Type) Value {
	i64, signed := w.idx64(idx, it)
	switch x := x.(type) {
	case ArrayV:
		w.inBounds(i64, signed, w.tt.BV(64, uint64(len(x))))
		if i64.IsConst() {
			return x[int(i64.U)]
		}
		var res Value
		for i := len(x) - 1; i >= 0; i-- {
			if res == nil {
				res = x[i]
			} else {
				res = w.iteValue(w.tt.Eq(i64, w.tt.BV(64, uint64(i))), x[i], res)
			}
		}
		return res
	case StrV:
		w.inBounds(i64, signed, w.tt.BV(64, uint64(x.Len())))
		return w.strByte(x, i64)
	}
	panic(fmt.Sprintf("index on %T", x))
}

func (w *Worker) strByte(x StrV, i64 *Term) *Term {
	get := func(i int) *Term {
		if x.Sym != nil {
			return x.Sym[i]
		}
		return w.tt.BV(8, uint64(x.S[i]))
	}
	if i64.IsConst() {
		return get(int(i64.U))
	}
	var res *Term
	for i := x.Len() - 1; i >= 0; i-- {
		if res == nil {
			res = get(i)
		} else {
			res = w.tt.Ite(w.tt.Eq(i64, w.tt.BV(64, uint64(i))), get(i), res)
		}
	}
	return res
}

func (w *Worker) sliceOp(instr *ssa.Slice, x, lo, hi, max Value) Value {
	tt := w.tt
	toT := func(v Value, t ssa.Value) *Term {
		if v == nil {
			return nil
		}
		return tt.BVResize(v.(*Term), 64, isSigned(t.Type()))
	}
	var loT, hiT, maxT *Term
	if lo != nil {
		loT = toT(lo, instr.Low)
	} else {
		loT = tt.BV(64, 0)
	}
	if hi != nil {
		hiT = toT(hi, instr.High)
	}
	if max != nil {
		maxT = toT(max, instr.Max)
	}
	check := func(c *Term) {
		if !w.branch(c) {
			w.runtimePanic("slice bounds out of range")
		}
	}
	switch x := x.(type) {
	case StrV:
		n := x.Len()
		if hiT == nil {
			hiT = tt.BV(64, uint64(n))
		}
		check(tt.And(tt.BVSle(tt.BV(64, 0), loT), tt.BVSle(loT, hiT), tt.BVSle(hiT, tt.BV(64, uint64(n)))))
		l, h := w.concInt(loT, "string slice low"), w.concInt(hiT, "string slice high")
		if x.Sym != nil {
			return StrV{Sym: x.Sym[l:h:h]}
		}
		return StrV{S: x.S[l:h]}
	case SliceV:
		capT := tt.BV(64, uint64(x.Cap))
		offT := tt.BV(64, uint64(x.Off))
		if x.SOff != nil {
			capT, offT = x.SCap, x.SOff
		}
		if hiT == nil {
			hiT = x.Len
		}
		if maxT == nil {
			maxT = capT
		}
		check(tt.And(tt.BVSle(tt.BV(64, 0), loT), tt.BVSle(loT, hiT), tt.BVSle(hiT, maxT), tt.BVSle(maxT, capT)))
		if x.Nil {
			return x
		}
		nOff := tt.BVAdd(offT, loT)
		nCap := tt.BVSub(maxT, loT)
		nLen := tt.BVSub(hiT, loT)
		if nOff.IsConst() && nCap.IsConst() {
			return SliceV{B: x.B, Off: int(nOff.U), Len: nLen, Cap: int(nCap.U)}
		}
		if !w.cfg.SymSlices {
			l := w.concInt(loT, "slice low bound")
			m := w.concInt(maxT, "slice max bound")
			o := w.concInt(offT, "slice offset")
			return SliceV{B: x.B, Off: o + l, Len: tt.BVSub(hiT, tt.BV(64, uint64(l))), Cap: m - l}
		}
		return SliceV{B: x.B, Len: nLen, SOff: nOff, SCap: nCap}
	case Ptr: // *array
		if x.IsNil() {
			w.runtimePanic("invalid memory address or nil pointer dereference")
		}
		arr := (*x.Slot).(ArrayV)
		n := len(arr)
		if hiT == nil {
			hiT = tt.BV(64, uint64(n))
		}
		if maxT == nil {
			maxT = tt.BV(64, uint64(n))
		}
		check(tt.And(tt.BVSle(tt.BV(64, 0), loT), tt.BVSle(loT, hiT), tt.BVSle(hiT, maxT), tt.BVSle(maxT, tt.BV(64, uint64(n)))))
		l := w.concInt(loT, "slice low bound")
		m := w.concInt(maxT, "slice max bound")
		var b *Backing
		off := 0
		if x.B != nil {
			b, off = x.B, x.Idx
		} else {
			w.nextBack++
			et := deref(instr.X.Type()).Underlying().(*types.Array).Elem()
			b = &Backing{ID: w.nextBack, Cells: arr, Elem: et, ESize: w.sizeof(et)}
		}
		return SliceV{B: b, Off: off + l, Len: tt.BVSub(hiT, tt.BV(64, uint64(l))), Cap: m - l}
	}
	panic(fmt.Sprintf("slice of %T", x))
}

func (w *Worker) lookup(instr *ssa.Lookup, x, idx Value) Value {
	switch x := x.(type) {
	case StrV:
		return w.indexVal(x, idx.(*Term), instr.Index.Type())
	case *MapV:
		var v Value
		ok := false
		if x != nil {
			if e, found := x.get(w.keyString(idx)); found {
				v, ok = copyVal(e.V), true
			}
		}
		if !ok {
			v = w.zero(instr.X.Type().Underlying().(*types.Map).Elem())
		}
		if instr.CommaOk {
			return TupleV{v, w.tt.Bool(ok)}
		}
		return v
	}
	panic(fmt.Sprintf("lookup on %T", x))
}

func (w *Worker) rangeIter(x Value) *RangeIter {
	switch x := x.(type) {
	case *MapV:
		if x == nil {
			return &RangeIter{}
		}
		return &RangeIter{m: x, keys: append([]string(nil), x.keys...)}
	case StrV:
		if x.Sym != nil {
			panic(unsupported("range over symbolic string"))
		}
		return &RangeIter{s: x}
	}
	panic(fmt.Sprintf("range over %T", x))
}

func (w *Worker) iterNext(it *RangeIter, instr *ssa.Next) Value {
	tt := w.tt
	if instr.IsString {
		if it.pos >= len(it.s.S) {
			return TupleV{tt.Bool(false), tt.BV(64, 0), tt.BV(32, 0)}
		}
		{
			// exactly Go's semantics: an invalid encoding yields U+FFFD with
			// width 1, a correctly encoded U+FFFD has width 3
			r, size := utf8.DecodeRuneInString(it.s.S[it.pos:])
			p := it.pos
			it.pos += size
			return TupleV{tt.Bool(true), tt.BV(64, uint64(p)), tt.BV(32, uint64(r))}
		}
	}
	for it.m != nil && it.pos < len(it.keys) {
		k := it.keys[it.pos]
		it.pos++
		if e, ok := it.m.get(k); ok {
			return TupleV{tt.Bool(true), e.K, copyVal(e.V)}
		}
	}
	tup := instr.Type().(*types.Tuple)
	var kz, vz Value
	if _, ok := tup.At(1).Type().(*types.Basic); ok && tup.At(1).Type().(*types.Basic).Kind() == types.Invalid {
		kz = nil
	} else {
		kz = w.zeroOrNil(tup.At(1).Type())
	}
	vz = w.zeroOrNil(tup.At(2).Type())
	return TupleV{tt.Bool(false), kz, vz}
}

func (w *Worker) zeroOrNil(t types.Type) Value {
	if b, ok := t.(*types.Basic); ok && b.Kind() == types.Invalid {
		return nil
	}
	return w.zero(t)
}

func (w *Worker) typeAssert(instr *ssa.TypeAssert, itf IfaceV) Value {
	var v Value
	err := ""
	if itf.T == nil {
		err = fmt.Sprintf("interface conversion: interface is nil, not %s", instr.AssertedType)
	} else if idst, ok := instr.AssertedType.Underlying().(*types.Interface); ok {
		if types.IsInterface(instr.AssertedType) {
			if itf.T == runtimeErrorType {
				// model type: satisfies error only
				if idst.NumMethods() == 1 && idst.Method(0).Name() == "Error" {
					v = itf
				} else if idst.NumMethods() == 0 {
					v = itf
				} else {
					err = "interface conversion: runtime.Error model"
				}
			} else if m, _ := types.MissingMethod(itf.T, idst, true); m != nil {
				err = fmt.Sprintf("interface conversion: %v is not %v: missing method %s", itf.T, idst, m.Name())
			} else {
				v = itf
			}
		}
	} else if types.Identical(itf.T, instr.AssertedType) {
		v = itf.V
	} else {
		err = fmt.Sprintf("interface conversion: interface is %s, not %s", itf.T, instr.AssertedType)
	}
	if err != "" {
		if !instr.CommaOk {
			panic(targetPanic{v: StrV{S: err}, runtime: true, msg: err})
		}
		return TupleV{w.zero(instr.AssertedType), w.tt.Bool(false)}
	}
	if instr.CommaOk {
		return TupleV{v, w.tt.Bool(true)}
	}
	return v
}

// ---- channels / goroutines (sequentialised) ----

type pendingGo struct {
	fn   Value
	args []Value
}

func (w *Worker) spawn(fn Value, args []Value) {
	if w.sched != nil {
		w.spawnSched(fn, args)
		return
	}
	if w.merging > 0 {
		panic(mergeAbort{"go inside merge"})
	}
	w.stats.Stubs["go statement sequentialised (run to completion at spawn)"]++
	w.taskSeq++
	old := w.curTask
	w.curTask = w.taskSeq
	defer func() { w.curTask = old }()
	w.callValue(fn, args)
}

func (w *Worker) chanSend(ch *ChanV, v Value) {
	if w.sched != nil {
		w.chanSendSched(ch, v)
		return
	}
	if ch == nil {
		panic(unsupported("send on nil channel"))
	}
	if ch.closed {
		panic(targetPanic{v: StrV{S: "send on closed channel"}, runtime: true, msg: "send on closed channel"})
	}
	ch.buf = append(ch.buf, v)
}

func (w *Worker) chanRecv(ch *ChanV, elem types.Type) (Value, bool) {
	if w.sched != nil {
		return w.chanRecvSched(ch, elem)
	}
	if ch == nil {
		panic(unsupported("receive on nil channel"))
	}
	if len(ch.buf) > 0 {
		v := ch.buf[0]
		ch.buf = ch.buf[1:]
		return v, true
	}
	if ch.closed {
		return w.zero(elem), false
	}
	panic(unsupported("receive on empty open channel (no scheduler in this engine)"))
}

func (w *Worker) selectOp(instr *ssa.Select, fr *frame) Value {
	if w.sched != nil {
		return w.selectSched(instr, fr)
	}
	panic(unsupported("select statement (no scheduler: the harness did not call verifSched)"))
}

func (w *Worker) panicMessage(tp targetPanic) string {
	if tp.runtime {
		return "runtime error: " + tp.msg
	}
	return w.valueMessage(tp.v)
}

func (w *Worker) valueMessage(v Value) string {
	switch x := v.(type) {
	case StrV:
		if x.Sym != nil {
			return "<symbolic string>"
		}
		return x.S
	case IfaceV:
		if x.T == nil {
			return "<nil>"
		}
		if s, ok := x.V.(StrV); ok {
			return s.S
		}
		// error or Stringer
		for _, name := range []string{"Error", "String"} {
			ms := w.ex.prog.MethodSets.MethodSet(x.T)
			for i := 0; i < ms.Len(); i++ {
				sel := ms.At(i)
				if sel.Obj().Name() == name {
					fn := w.ex.prog.MethodValue(sel)
					if fn != nil {
						var res Value
						func() {
							defer func() {
								if r := recover(); r != nil {
									if _, ok := r.(targetPanic); !ok {
										if _, ok := r.(unsupportedErr); !ok {
											panic(r)
										}
									}
								}
							}()
							res = w.callFunction(fn, []Value{x.V}, nil)
						}()
						if s, ok := res.(StrV); ok {
							return s.S
						}
					}
				}
			}
		}
		return fmt.Sprintf("<%v>", x.T)
	}
	return fmt.Sprintf("<%T>", v)
}

func pkgPathOf(fn *ssa.Function) string {
	if fn.Pkg != nil {
		return fn.Pkg.Pkg.Path()
	}
	if o := fn.Origin(); o != nil && o.Pkg != nil {
		return o.Pkg.Pkg.Path()
	}
	if fn.Object() != nil && fn.Object().Pkg() != nil {
		return fn.Object().Pkg().Path()
	}
	return ""
}

func isIntrinsicName(n string) bool { return strings.HasPrefix(n, "verif") }

var initProf = os.Getenv("VERIF_INITPROF") != ""
