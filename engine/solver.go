package main

import (
	"os"
	"bufio"
	"fmt"
	"io"
	"os/exec"
	"strconv"
	"strings"
	"sync/atomic"
	"time"
)

// Solver wraps one live `z3 -in` process. Terms are defined once at the base
// level with define-fun; each query is (push) asserts (check-sat) (pop).

type Solver struct {
	bin     string
	args    []string
	cmd     *exec.Cmd
	in      io.WriteCloser
	out     *bufio.Reader
	tt      *TermTable
	defined map[int]bool
	nvars   int
	nufs    int
	naxioms int
	softMS  int
	curTimeout int
	fastMS  int // budget of the first, incremental attempt (<= softMS); unknowns escalate to fresh one-shot solvers
	// stats
	Queries   int
	Sat       int
	Unsat     int
	Unknown   int
	Errors    int
	Restarts  int
	FreshRetriesOK int
	SlowOK int // decided only by the last, full-budget one-shot stage (borderline for the solver)
	SolverSec float64
	logw      io.Writer
	noOneShot bool
}

var globalSolverSeconds int64 // microseconds, atomic

func NewSolver(bin string, tt *TermTable, softMS int) *Solver {
	s := &Solver{bin: bin, tt: tt, softMS: softMS}
	s.fastMS = 3000
	if v := os.Getenv("VERIF_FAST_MS"); v != "" {
		fmt.Sscanf(v, "%d", &s.fastMS)
	}
	if s.fastMS > softMS || s.fastMS <= 0 {
		s.fastMS = softMS
	}
	switch {
	case strings.Contains(bin, "cvc5"):
		s.args = []string{"--incremental", "--lang=smt2", "--produce-models"}
	default:
		s.args = []string{"-in"}
	}
	s.start()
	return s
}

func (s *Solver) start() {
	s.cmd = exec.Command(s.bin, s.args...)
	in, _ := s.cmd.StdinPipe()
	out, _ := s.cmd.StdoutPipe()
	s.cmd.Stderr = nil
	if err := s.cmd.Start(); err != nil {
		panic(err)
	}
	s.in = in
	s.out = bufio.NewReaderSize(out, 1<<20)
	s.defined = map[int]bool{}
	s.nvars, s.nufs, s.naxioms = 0, 0, 0
	if strings.Contains(s.bin, "cvc5") {
		s.send("(set-logic ALL)")
		s.send(fmt.Sprintf("(set-option :tlimit-per %d)", s.softMS))
	} else {
		s.send(fmt.Sprintf("(set-option :timeout %d)", s.fastMS))
		s.curTimeout = s.fastMS
		s.send("(set-option :model.completion true)")
	}
}

func (s *Solver) Close() {
	if s.cmd != nil && s.cmd.Process != nil {
		s.in.Close()
		s.cmd.Process.Kill()
		s.cmd.Wait()
	}
}

func (s *Solver) restart() {
	s.Close()
	s.Restarts++
	s.start()
}

func (s *Solver) send(line string) {
	if s.logw != nil {
		fmt.Fprintln(s.logw, line)
	}
	io.WriteString(s.in, line)
	io.WriteString(s.in, "\n")
}

// define emits definitions for t and everything below it (iteratively).
func (s *Solver) define(t *Term) {
	if t.Op == OpConst || s.defined[t.ID] {
		return
	}
	type fr struct {
		t *Term
		i int
	}
	stack := []fr{{t, 0}}
	for len(stack) > 0 {
		f := &stack[len(stack)-1]
		if f.t.Op == OpConst || s.defined[f.t.ID] {
			stack = stack[:len(stack)-1]
			continue
		}
		if f.i < len(f.t.Args) {
			a := f.t.Args[f.i]
			f.i++
			if a.Op != OpConst && !s.defined[a.ID] {
				stack = append(stack, fr{a, 0})
			}
			continue
		}
		tt := f.t
		stack = stack[:len(stack)-1]
		s.defined[tt.ID] = true
		if tt.Op == OpVar {
			s.send(fmt.Sprintf("(declare-const %s %s)", tt.ref(), tt.Sort.SMT()))
			continue
		}
		if tt.Op == OpUF {
			// declaration emitted lazily
			if d, ok := s.tt.ufs[tt.Name]; ok && !s.defined[-hashName(tt.Name)] {
				s.defined[-hashName(tt.Name)] = true
				s.send(d)
			}
		}
		s.send(fmt.Sprintf("(define-fun t%d () %s %s)", tt.ID, tt.Sort.SMT(), tt.body()))
	}
}

func hashName(n string) int {
	h := 7
	for _, c := range n {
		h = h*31 + int(c)
		h &= 0x3fffffff
	}
	return h + 1
}

type Model map[string]string

// Check decides satisfiability of the conjunction of assertions (plus the
// table's axioms). wantModel lists variables whose values should be returned
// on sat.
func (s *Solver) Check(assertions []*Term, wantModel []*Term) (res string, model Model) {
	defer func() {
		if r := recover(); r != nil {
			if ue, ok := r.(unsupportedErr); ok {
				panic(ue)
			}
			// broken pipe etc.
			s.Errors++
			s.restart()
			res, model = "unknown", nil
		}
	}()
	for _, a := range assertions {
		s.define(a)
	}
	for _, a := range s.tt.axioms {
		s.define(a)
	}
	for _, v := range wantModel {
		s.define(v)
	}
	s.send("(push 1)")
	for _, a := range s.tt.axioms {
		s.send("(assert " + a.ref() + ")")
	}
	for _, a := range assertions {
		s.send("(assert " + a.ref() + ")")
	}
	s.send("(check-sat)")
	s.Queries++
	t0 := time.Now()
	// Nonlinear real arithmetic profits from a short incremental attempt
	// followed by fresh one-shot solvers; bit-vector / FP queries are best
	// left to the incremental core for the whole budget.
	firstMS := s.fastMS
	if strings.Contains(s.bin, "cvc5") || s.tt.realVars == 0 {
		firstMS = s.softMS
	}
	if !strings.Contains(s.bin, "cvc5") && firstMS != s.curTimeout {
		s.send(fmt.Sprintf("(set-option :timeout %d)", firstMS))
		s.curTimeout = firstMS
	}
	line, ok := s.readLineTimeout(time.Duration(firstMS)*time.Millisecond*2 + 5*time.Second)
	dt := time.Since(t0)
	s.SolverSec += dt.Seconds()
	atomic.AddInt64(&globalSolverSeconds, dt.Microseconds())
	if !ok {
		s.restart()
		if r, m := s.oneShot(assertions, wantModel); r != "unknown" {
			if r == "sat" {
				s.Sat++
			} else {
				s.Unsat++
			}
			s.FreshRetriesOK++
			return r, m
		}
		s.Unknown++
		return "unknown", nil
	}
	line = strings.TrimSpace(line)
	switch {
	case line == "sat":
		s.Sat++
		if len(wantModel) > 0 {
			var names []string
			for _, v := range wantModel {
				names = append(names, v.ref())
			}
			s.send("(get-value (" + strings.Join(names, " ") + "))")
			txt, ok := s.readSexpTimeout(20 * time.Second)
			if ok && strings.Contains(txt, "root-obj") {
				// algebraic numbers: ask again for decimal approximations
				s.send("(set-option :pp.decimal true)")
				s.send("(set-option :pp.decimal_precision 20)")
				s.send("(get-value (" + strings.Join(names, " ") + "))")
				txt, ok = s.readSexpTimeout(20 * time.Second)
				s.send("(set-option :pp.decimal false)")
			}
			if ok {
				model = parseModel(txt)
			}
		}
		s.send("(pop 1)")
		return "sat", model
	case line == "unsat":
		s.Unsat++
		s.send("(pop 1)")
		return "unsat", nil
	case line == "unknown" || line == "timeout":
		s.send("(pop 1)")
		if r, m := s.oneShot(assertions, wantModel); r != "unknown" {
			if r == "sat" {
				s.Sat++
			} else {
				s.Unsat++
			}
			s.FreshRetriesOK++
			return r, m
		}
		s.Unknown++
		return "unknown", nil
	default:
		// (error ...) or anything else: inconclusive; restart for a clean state
		s.Errors++
		if s.logw != nil {
			fmt.Fprintln(s.logw, "; SOLVER OUTPUT: "+line)
		}
		lastSolverError = line
		s.restart()
		return "unknown", nil
	}
}

var lastSolverError string

func (s *Solver) readLineTimeout(d time.Duration) (string, bool) {
	type r struct {
		s   string
		err error
	}
	ch := make(chan r, 1)
	go func() {
		l, err := s.out.ReadString('\n')
		ch <- r{l, err}
	}()
	select {
	case x := <-ch:
		if x.err != nil {
			panic("solver pipe closed")
		}
		return x.s, true
	case <-time.After(d):
		// hard kill; the reader goroutine ends with an error
		s.cmd.Process.Kill()
		<-ch
		return "", false
	}
}

func (s *Solver) readSexpTimeout(d time.Duration) (string, bool) {
	var sb strings.Builder
	depth := 0
	started := false
	for {
		l, ok := s.readLineTimeout(d)
		if !ok {
			return "", false
		}
		sb.WriteString(l)
		instr := false
		for _, c := range l {
			if c == '|' {
				instr = !instr
			}
			if instr {
				continue
			}
			if c == '(' {
				depth++
				started = true
			} else if c == ')' {
				depth--
			}
		}
		if started && depth <= 0 {
			return sb.String(), true
		}
	}
}

// parseModel parses "((name value) (name value) ...)".
func parseModel(txt string) Model {
	m := Model{}
	toks := tokenize(txt)
	pos := 0
	var parse func() interface{}
	parse = func() interface{} {
		if pos >= len(toks) {
			return nil
		}
		t := toks[pos]
		pos++
		if t == "(" {
			var l []interface{}
			for pos < len(toks) && toks[pos] != ")" {
				l = append(l, parse())
			}
			pos++
			return l
		}
		return t
	}
	top, _ := parse().([]interface{})
	for _, e := range top {
		p, ok := e.([]interface{})
		if !ok || len(p) != 2 {
			continue
		}
		name, _ := p[0].(string)
		name = strings.Trim(name, "|")
		m[name] = sexpString(p[1])
	}
	return m
}

func sexpString(x interface{}) string {
	switch v := x.(type) {
	case string:
		return v
	case []interface{}:
		var parts []string
		for _, e := range v {
			parts = append(parts, sexpString(e))
		}
		return "(" + strings.Join(parts, " ") + ")"
	}
	return ""
}

func tokenize(s string) []string {
	var toks []string
	i := 0
	for i < len(s) {
		c := s[i]
		switch {
		case c == '(' || c == ')':
			toks = append(toks, string(c))
			i++
		case c == ' ' || c == '\n' || c == '\t' || c == '\r':
			i++
		case c == '|':
			j := i + 1
			for j < len(s) && s[j] != '|' {
				j++
			}
			toks = append(toks, s[i:j+1])
			i = j + 1
		default:
			j := i
			for j < len(s) && !strings.ContainsRune("() \n\t\r", rune(s[j])) {
				j++
			}
			toks = append(toks, s[i:j])
			i = j
		}
	}
	return toks
}

// evalModelValue converts a model value string to uint64 (BV/Bool) or float64.
func modelBV(v string) (uint64, bool) {
	if strings.HasPrefix(v, "#x") {
		u, err := strconv.ParseUint(v[2:], 16, 64)
		return u, err == nil
	}
	if strings.HasPrefix(v, "#b") {
		u, err := strconv.ParseUint(v[2:], 2, 64)
		return u, err == nil
	}
	if v == "true" {
		return 1, true
	}
	if v == "false" {
		return 0, true
	}
	return 0, false
}

func modelReal(v string) (float64, bool) {
	if r, ok := parseRat(v); ok {
		f, _ := r.Float64()
		return f, true
	}
	toks := tokenize(v)
	pos := 0
	var ev func() (float64, bool)
	ev = func() (float64, bool) {
		if pos >= len(toks) {
			return 0, false
		}
		t := toks[pos]
		pos++
		if t != "(" {
			t = strings.TrimSuffix(t, "?")
			f, err := strconv.ParseFloat(t, 64)
			return f, err == nil
		}
		op := toks[pos]
		pos++
		var args []float64
		for pos < len(toks) && toks[pos] != ")" {
			a, ok := ev()
			if !ok {
				return 0, false
			}
			args = append(args, a)
		}
		pos++
		switch op {
		case "-":
			if len(args) == 1 {
				return -args[0], true
			}
			if len(args) == 2 {
				return args[0] - args[1], true
			}
		case "/":
			if len(args) == 2 {
				return args[0] / args[1], true
			}
		case "+":
			if len(args) == 2 {
				return args[0] + args[1], true
			}
		case "*":
			if len(args) == 2 {
				return args[0] * args[1], true
			}
		}
		return 0, false
	}
	return ev()
}

// script renders a self-contained SMT-LIB script for the assertions.
func (s *Solver) script(assertions []*Term, wantModel []*Term) string {
	var sb strings.Builder
	seen := map[int]bool{}
	ufSeen := map[string]bool{}
	var emit func(t *Term)
	emit = func(root *Term) {
		type fr struct {
			t *Term
			i int
		}
		stack := []fr{{root, 0}}
		for len(stack) > 0 {
			f := &stack[len(stack)-1]
			if f.t.Op == OpConst || seen[f.t.ID] {
				stack = stack[:len(stack)-1]
				continue
			}
			if f.i < len(f.t.Args) {
				a := f.t.Args[f.i]
				f.i++
				if a.Op != OpConst && !seen[a.ID] {
					stack = append(stack, fr{a, 0})
				}
				continue
			}
			t := f.t
			stack = stack[:len(stack)-1]
			seen[t.ID] = true
			if t.Op == OpVar {
				fmt.Fprintf(&sb, "(declare-const %s %s)\n", t.ref(), t.Sort.SMT())
				continue
			}
			if t.Op == OpUF && !ufSeen[t.Name] {
				ufSeen[t.Name] = true
				sb.WriteString(s.tt.ufs[t.Name] + "\n")
			}
			fmt.Fprintf(&sb, "(define-fun t%d () %s %s)\n", t.ID, t.Sort.SMT(), t.body())
		}
	}
	all := append(append([]*Term(nil), s.tt.axioms...), assertions...)
	for _, a := range all {
		emit(a)
	}
	for _, v := range wantModel {
		emit(v)
	}
	for _, a := range all {
		sb.WriteString("(assert " + a.ref() + ")\n")
	}
	sb.WriteString("(check-sat)\n")
	if len(wantModel) > 0 {
		var names []string
		for _, v := range wantModel {
			names = append(names, v.ref())
		}
		sb.WriteString("(get-value (" + strings.Join(names, " ") + "))\n")
	}
	return sb.String()
}

// oneShot decides the query in a fresh, non-incremental solver process (z3's
// nonlinear real core is much stronger outside push/pop).
// oneShot re-asks a query in fresh, non-incremental solver processes: first
// with a short budget (z3's nlsat/bit-blasting tactics outside push/pop decide
// most of what the incremental core gives up on within seconds), then with the
// full budget derived from the soft timeout.
func (s *Solver) oneShot(assertions []*Term, wantModel []*Term) (string, Model) {
	if strings.Contains(s.bin, "cvc5") || s.noOneShot {
		return "unknown", nil
	}
	script := s.script(assertions, wantModel)
	full := s.softMS/1000*2 + 5
	if full > 15 {
		if r, m := s.oneShotT(script, 12); r != "unknown" {
			return r, m
		}
	}
	r, m := s.oneShotT(script, full)
	if r != "unknown" && full > 15 {
		s.SlowOK++
	}
	return r, m
}

func (s *Solver) oneShotT(script string, secs int) (string, Model) {
	cmd := exec.Command(s.bin, "-in", fmt.Sprintf("-T:%d", secs))
	cmd.Stdin = strings.NewReader(script)
	t0 := time.Now()
	done := make(chan struct{})
	var out []byte
	go func() {
		out, _ = cmd.Output()
		close(done)
	}()
	select {
	case <-done:
	case <-time.After(time.Duration(secs+10) * time.Second):
		if cmd.Process != nil {
			cmd.Process.Kill()
		}
		<-done
	}
	dt := time.Since(t0)
	s.SolverSec += dt.Seconds()
	s.Queries++
	txt := string(out)
	lines := strings.Split(strings.TrimSpace(txt), "\n")
	for i, l := range lines {
		l = strings.TrimSpace(l)
		if strings.HasPrefix(l, "(error") {
			// an error before the verdict may mean a dropped assertion
			lastSolverError = l
			return "unknown", nil
		}
		switch l {
		case "unsat":
			return "unsat", nil
		case "sat":
			rest := strings.Join(lines[i+1:], "\n")
			if strings.Contains(rest, "(error") {
				return "sat", nil
			}
			return "sat", parseModel(rest)
		case "unknown", "timeout":
			return "unknown", nil
		}
	}
	return "unknown", nil
}
