package main

import (
	_ "embed"
	"fmt"
	"go/parser"
	"go/token"
	"os"
	"path/filepath"
	"sort"
	"strings"

	"golang.org/x/tools/go/packages"
	"golang.org/x/tools/go/ssa"
	"golang.org/x/tools/go/ssa/ssautil"
)

//go:embed rt_template.go.txt
var rtTemplate string

type Loaded struct {
	Prog     *ssa.Program
	Pkg      *ssa.Package
	Overlay  map[string][]byte // virtual path -> contents (harness files + rt)
	PkgDir   string            // relative package dir
	PkgName  string
	Harness  []string // names of Verif* functions found
	LoadSecs float64
}

func goEnv() []string {
	env := os.Environ()
	env = append(env, "GOFLAGS=-mod=mod", "GOPROXY=off", "GOSUMDB=off", "GOTOOLCHAIN=local")
	return env
}

// harnessOverlay builds the overlay for the package directory rel (relative to
// the repository root) from the files in harnessDir/rel.
func harnessOverlay(repo, harnessRoot, rel string) (map[string][]byte, string, error) {
	dir := filepath.Join(harnessRoot, rel)
	ents, err := os.ReadDir(dir)
	if err != nil {
		return nil, "", err
	}
	ov := map[string][]byte{}
	pkgName := ""
	for _, e := range ents {
		if e.IsDir() || !strings.HasSuffix(e.Name(), ".go") {
			continue
		}
		b, err := os.ReadFile(filepath.Join(dir, e.Name()))
		if err != nil {
			return nil, "", err
		}
		ov[filepath.Join(repo, rel, e.Name())] = b
		if pkgName == "" && !strings.HasSuffix(e.Name(), "_test.go") {
			f, err := parser.ParseFile(token.NewFileSet(), e.Name(), b, parser.PackageClauseOnly)
			if err != nil {
				return nil, "", err
			}
			pkgName = f.Name.Name
		}
	}
	if pkgName == "" {
		return nil, "", fmt.Errorf("no harness files in %s", dir)
	}
	ov[filepath.Join(repo, rel, "zz_verif_rt.go")] = []byte(strings.Replace(rtTemplate, "package PKGNAME", "package "+pkgName, 1))
	return ov, pkgName, nil
}

func loadProgram(repo, harnessRoot, rel, tags string) (*Loaded, error) {
	ov, pkgName, err := harnessOverlay(repo, harnessRoot, rel)
	if err != nil {
		return nil, err
	}
	cfg := &packages.Config{
		Mode:       packages.NeedName | packages.NeedFiles | packages.NeedCompiledGoFiles | packages.NeedImports | packages.NeedDeps | packages.NeedTypes | packages.NeedSyntax | packages.NeedTypesInfo | packages.NeedTypesSizes | packages.NeedModule,
		Dir:        repo,
		Env:        goEnv(),
		Overlay:    ov,
		BuildFlags: []string{"-tags=" + tags},
	}
	pkgs, err := packages.Load(cfg, "./"+rel)
	if err != nil {
		return nil, err
	}
	nerr := 0
	var sb strings.Builder
	packages.Visit(pkgs, nil, func(p *packages.Package) {
		for _, e := range p.Errors {
			nerr++
			if nerr < 20 {
				fmt.Fprintf(&sb, "%s: %v\n", p.PkgPath, e)
			}
		}
	})
	if nerr > 0 {
		return nil, fmt.Errorf("package load errors:\n%s", sb.String())
	}
	prog, spkgs := ssautil.AllPackages(pkgs, ssa.InstantiateGenerics)
	prog.Build()
	if len(spkgs) == 0 || spkgs[0] == nil {
		return nil, fmt.Errorf("no ssa package for %s", rel)
	}
	l := &Loaded{Prog: prog, Pkg: spkgs[0], Overlay: ov, PkgDir: rel, PkgName: pkgName}
	for name, m := range spkgs[0].Members {
		if f, ok := m.(*ssa.Function); ok && strings.HasPrefix(name, "Verif") && f.Signature.Params().Len() == 0 {
			l.Harness = append(l.Harness, name)
		}
	}
	sort.Strings(l.Harness)
	return l, nil
}
