package main

import (
	"fmt"
	"go/types"
	"sort"
	"strings"

	"golang.org/x/tools/go/ssa"
)

type Value interface{}

type ComplexV struct{ Re, Im *Term }

// StrV is a Go string. Sym != nil means the bytes are symbolic (BV8 terms);
// the length is always concrete.
type StrV struct {
	S   string
	Sym []*Term
}

func (s StrV) Len() int {
	if s.Sym != nil {
		return len(s.Sym)
	}
	return len(s.S)
}

type StructV []Value
type ArrayV []Value
type TupleV []Value

type Backing struct {
	ID    int
	Cells []Value
	Elem  types.Type
	ESize int64
}

// Ptr is a pointer. Slot is the addressed cell (nil for the nil pointer and
// for symbolic element references). B/Idx identify slice/array elements.
type Ptr struct {
	Slot *Value
	B    *Backing
	Idx  int
	Sym  *SymRef
	// Fn for pointer-to-function-less cases unused
}

// SymRef addresses Cells[Idx] of a backing with a symbolic index already
// known to lie in [Lo,Hi).
type SymRef struct {
	B      *Backing
	Lo, Hi int
	Idx    *Term // BV64 absolute index into B.Cells
}

func (p Ptr) IsNil() bool { return p.Slot == nil && p.Sym == nil }

type SliceV struct {
	B   *Backing
	Off int
	Len *Term // BV64
	Cap int
	Nil bool
	// symbolic geometry: when SOff != nil the absolute offset into B.Cells is
	// SOff and the capacity SCap (both BV64); Off/Cap are then ignored.
	SOff *Term
	SCap *Term
}

type mapEntry struct {
	K, V Value
}

type MapV struct {
	keys  []string
	m     map[string]*mapEntry
	KeyT  types.Type
	ElemT types.Type
}

func NewMapV(k, e types.Type) *MapV {
	return &MapV{m: map[string]*mapEntry{}, KeyT: k, ElemT: e}
}

type IfaceV struct {
	T types.Type // nil for nil interface
	V Value
}

type ClosureV struct {
	Fn  *ssa.Function
	Env []Value
}

// BoundV is a bound method value / builtin wrappers not needed: ssa creates
// synthetic functions for bound methods.

type ChanV struct {
	buf    []Value
	capT   *Term
	closed bool
	// scheduler mode (sched.go)
	items       []chanItem
	capN        int
	capKnown    bool
	recvWaiting int
	sendCount   int
	recvVCs     []vclock
	closeVC     vclock
}

type RangeIter struct {
	// map
	m    *MapV
	keys []string
	// string
	s   StrV
	pos int
}

// ---- zero values ----

func (w *Worker) zero(t types.Type) Value {
	switch t := t.(type) {
	case *types.Basic:
		if t.Kind() == types.UntypedNil {
			panic("untyped nil has no zero value")
		}
		info := t.Info()
		switch {
		case info&types.IsBoolean != 0:
			return w.tt.Bool(false)
		case info&types.IsInteger != 0:
			return w.tt.BV(w.intWidth(t), 0)
		case info&types.IsFloat != 0:
			return w.floatConst(t, 0)
		case info&types.IsComplex != 0:
			et := types.Typ[types.Float64]
			if t.Kind() == types.Complex64 {
				et = types.Typ[types.Float32]
			}
			return ComplexV{w.floatConst(et, 0), w.floatConst(et, 0)}
		case info&types.IsString != 0:
			return StrV{}
		case t.Kind() == types.UnsafePointer:
			return Ptr{}
		}
	case *types.Pointer:
		return Ptr{}
	case *types.Array:
		if n, leaf := flatArrayInfo(t); leaf != nil && n > 0 && n <= 1<<16 {
			if _, nested := t.Elem().Underlying().(*types.Array); nested {
				flat := make([]Value, n)
				for i := range flat {
					flat[i] = w.zero(leaf)
				}
				return arrayView(t, flat)
			}
		}
		a := make(ArrayV, t.Len())
		for i := range a {
			a[i] = w.zero(t.Elem())
		}
		return a
	case *types.Named:
		return w.zero(t.Underlying())
	case *types.Alias:
		return w.zero(types.Unalias(t))
	case *types.Interface:
		return IfaceV{}
	case *types.Slice:
		return SliceV{Nil: true, Len: w.tt.BV(64, 0)}
	case *types.Struct:
		s := make(StructV, t.NumFields())
		for i := range s {
			s[i] = w.zero(t.Field(i).Type())
		}
		return s
	case *types.Tuple:
		if t.Len() == 1 {
			return w.zero(t.At(0).Type())
		}
		s := make(TupleV, t.Len())
		for i := range s {
			s[i] = w.zero(t.At(i).Type())
		}
		return s
	case *types.Chan:
		return (*ChanV)(nil)
	case *types.Map:
		return (*MapV)(nil)
	case *types.Signature:
		return (*ssa.Function)(nil)
	case *types.TypeParam:
		panic(unsupported("zero of type parameter"))
	}
	panic(fmt.Sprintf("zero: unexpected type %T %v", t, t))
}

func (w *Worker) intWidth(t *types.Basic) int {
	switch t.Kind() {
	case types.Int8, types.Uint8:
		return 8
	case types.Int16, types.Uint16:
		return 16
	case types.Int32, types.Uint32:
		return 32
	case types.UntypedRune:
		return 32
	}
	return 64
}

func isSigned(t types.Type) bool {
	b, ok := t.Underlying().(*types.Basic)
	if !ok {
		return false
	}
	return b.Info()&types.IsInteger != 0 && b.Info()&types.IsUnsigned == 0
}

// ---- copying (value semantics for aggregates) ----

func copyVal(v Value) Value {
	switch v := v.(type) {
	case StructV:
		a := make(StructV, len(v))
		for i := range v {
			a[i] = copyVal(v[i])
		}
		return a
	case ArrayV:
		a := make(ArrayV, len(v))
		for i := range v {
			a[i] = copyVal(v[i])
		}
		return a
	case TupleV:
		a := make(TupleV, len(v))
		for i := range v {
			a[i] = copyVal(v[i])
		}
		return a
	}
	return v
}

// ---- map keys ----

// keyString produces a canonical string for a concrete map key.
func (w *Worker) keyString(v Value) string {
	switch v := v.(type) {
	case *Term:
		if !v.IsConst() {
			c := w.concretize(v, "map key")
			return w.keyString(c)
		}
		switch v.Sort.K {
		case SBool:
			return fmt.Sprintf("b%v", v.B)
		case SBV:
			return fmt.Sprintf("i%d:%d", v.Sort.W, v.U)
		default:
			return fmt.Sprintf("f%v", v.F)
		}
	case StrV:
		if v.Sym != nil {
			var sb strings.Builder
			for _, b := range v.Sym {
				c := w.concretize(b, "map key byte")
				sb.WriteByte(byte(c.U))
			}
			return "s" + sb.String()
		}
		return "s" + v.S
	case StructV:
		var parts []string
		for _, e := range v {
			parts = append(parts, w.keyString(e))
		}
		return "{" + strings.Join(parts, ",") + "}"
	case ArrayV:
		var parts []string
		for _, e := range v {
			parts = append(parts, w.keyString(e))
		}
		return "[" + strings.Join(parts, ",") + "]"
	case Ptr:
		if v.B != nil {
			return fmt.Sprintf("p%d.%d", v.B.ID, v.Idx)
		}
		return fmt.Sprintf("p%p", v.Slot)
	case IfaceV:
		if v.T == nil {
			return "nil"
		}
		return "I(" + v.T.String() + ")" + w.keyString(v.V)
	case ComplexV:
		return "c" + w.keyString(v.Re) + "," + w.keyString(v.Im)
	case *ChanV:
		return fmt.Sprintf("ch%p", v)
	}
	panic(unsupported("map key of kind %T", v))
}

func (m *MapV) get(k string) (*mapEntry, bool) {
	e, ok := m.m[k]
	return e, ok
}

func (m *MapV) set(k string, key, val Value) {
	if e, ok := m.m[k]; ok {
		e.V = val
		return
	}
	m.m[k] = &mapEntry{key, val}
	m.keys = append(m.keys, k)
}

func (m *MapV) del(k string) {
	if _, ok := m.m[k]; !ok {
		return
	}
	delete(m.m, k)
	for i, kk := range m.keys {
		if kk == k {
			m.keys = append(m.keys[:i:i], m.keys[i+1:]...)
			break
		}
	}
}

func (m *MapV) sortedKeys() []string {
	ks := append([]string(nil), m.keys...)
	sort.Strings(ks)
	return ks
}

// flatArrayInfo returns the number of scalar leaves of a (nested) array type
// and the leaf type, or nil if the leaves are not basic scalars.
func flatArrayInfo(t types.Type) (int, types.Type) {
	n := 1
	for {
		a, ok := t.Underlying().(*types.Array)
		if !ok {
			break
		}
		n *= int(a.Len())
		t = a.Elem()
	}
	if b, ok := t.Underlying().(*types.Basic); ok && b.Info()&(types.IsNumeric|types.IsBoolean) != 0 {
		return n, t
	}
	return 0, nil
}

// arrayView builds a (nested) array value whose leaves alias the flat cells.
func arrayView(t types.Type, flat []Value) Value {
	a := t.Underlying().(*types.Array)
	n := int(a.Len())
	if inner, ok := a.Elem().Underlying().(*types.Array); ok {
		_ = inner
		per := len(flat) / max(n, 1)
		out := make(ArrayV, n)
		for i := range out {
			out[i] = arrayView(a.Elem(), flat[i*per:])
		}
		return out
	}
	return ArrayV(flat[:n])
}

// leafCells returns the flat leaf cells of a nested array value if they are
// contiguous in memory (built by arrayView), else nil.
func leafCells(v Value) []Value {
	a, ok := v.(ArrayV)
	if !ok || len(a) == 0 {
		return nil
	}
	if _, nested := a[0].(ArrayV); !nested {
		return a
	}
	first := leafCells(a[0])
	if first == nil {
		return nil
	}
	total := len(first) * len(a)
	if cap(first) < total {
		// not built as a view over one flat slice
		return nil
	}
	full := first[:total:total]
	// verify aliasing of the last inner array
	last := leafCells(a[len(a)-1])
	if last == nil || len(last) == 0 || &last[0] != &full[total-len(last)] {
		return nil
	}
	return full
}
