package main

// Exact evaluation of terms under a solver model; used as a counterexample
// cache so that one side of most branches is known feasible without a query.

import (
	"math/big"
	"strconv"
	"strings"
)

type eval struct {
	ok bool
	b  bool
	u  uint64
	r  *big.Rat
}

type evalModel struct {
	vars map[*Term]eval
	memo map[*Term]eval
}

func parseRat(v string) (*big.Rat, bool) {
	toks := tokenize(v)
	pos := 0
	var ev func() (*big.Rat, bool)
	ev = func() (*big.Rat, bool) {
		if pos >= len(toks) {
			return nil, false
		}
		t := toks[pos]
		pos++
		if t != "(" {
			if strings.HasSuffix(t, "?") {
				return nil, false
			}
			r := new(big.Rat)
			if _, ok := r.SetString(t); !ok {
				return nil, false
			}
			return r, true
		}
		op := toks[pos]
		pos++
		var args []*big.Rat
		for pos < len(toks) && toks[pos] != ")" {
			a, ok := ev()
			if !ok {
				return nil, false
			}
			args = append(args, a)
		}
		pos++
		switch {
		case op == "-" && len(args) == 1:
			return new(big.Rat).Neg(args[0]), true
		case op == "-" && len(args) == 2:
			return new(big.Rat).Sub(args[0], args[1]), true
		case op == "/" && len(args) == 2 && args[1].Sign() != 0:
			return new(big.Rat).Quo(args[0], args[1]), true
		case op == "+" && len(args) == 2:
			return new(big.Rat).Add(args[0], args[1]), true
		case op == "*" && len(args) == 2:
			return new(big.Rat).Mul(args[0], args[1]), true
		}
		return nil, false
	}
	return ev()
}

func (w *Worker) newEvalModel(m Model) *evalModel {
	em := &evalModel{vars: map[*Term]eval{}, memo: map[*Term]eval{}}
	for _, in := range w.inputs {
		s, ok := m[in.T.Name]
		if !ok {
			continue
		}
		switch in.T.Sort.K {
		case SBool:
			em.vars[in.T] = eval{ok: true, b: s == "true"}
		case SBV:
			if u, ok := modelBV(s); ok {
				em.vars[in.T] = eval{ok: true, u: u}
			}
		case SReal:
			if r, ok := parseRat(s); ok {
				em.vars[in.T] = eval{ok: true, r: r}
			}
		}
	}
	return em
}

var ratFromFloatCache = map[float64]*big.Rat{}

func (em *evalModel) eval(t *Term) eval {
	if t.Op == OpConst {
		switch t.Sort.K {
		case SBool:
			return eval{ok: true, b: t.B}
		case SBV:
			return eval{ok: true, u: t.U}
		case SReal:
			if !isFinite(t.F) {
				return eval{}
			}
			r := new(big.Rat)
			r.SetFloat64(t.F)
			return eval{ok: true, r: r}
		}
		return eval{}
	}
	if t.Op == OpVar {
		return em.vars[t]
	}
	if e, ok := em.memo[t]; ok {
		return e
	}
	e := em.eval1(t)
	em.memo[t] = e
	return e
}

func (em *evalModel) eval1(t *Term) eval {
	no := eval{}
	args := make([]eval, len(t.Args))
	switch t.Op {
	case OpAnd:
		all := true
		for _, a := range t.Args {
			e := em.eval(a)
			if e.ok && !e.b {
				return eval{ok: true, b: false}
			}
			if !e.ok {
				all = false
			}
		}
		if all {
			return eval{ok: true, b: true}
		}
		return no
	case OpOr:
		all := true
		for _, a := range t.Args {
			e := em.eval(a)
			if e.ok && e.b {
				return eval{ok: true, b: true}
			}
			if !e.ok {
				all = false
			}
		}
		if all {
			return eval{ok: true, b: false}
		}
		return no
	case OpIte:
		c := em.eval(t.Args[0])
		if !c.ok {
			return no
		}
		if c.b {
			return em.eval(t.Args[1])
		}
		return em.eval(t.Args[2])
	}
	for i, a := range t.Args {
		args[i] = em.eval(a)
		if !args[i].ok {
			return no
		}
	}
	bv := func(u uint64) eval { return eval{ok: true, u: u & mask(t.Sort.W)} }
	bl := func(b bool) eval { return eval{ok: true, b: b} }
	w := 0
	if len(t.Args) > 0 {
		w = t.Args[0].Sort.W
	}
	switch t.Op {
	case OpNot:
		return bl(!args[0].b)
	case OpEq:
		switch t.Args[0].Sort.K {
		case SBool:
			return bl(args[0].b == args[1].b)
		case SBV:
			return bl(args[0].u == args[1].u)
		case SReal:
			return bl(args[0].r.Cmp(args[1].r) == 0)
		}
		return no
	case OpBVAdd:
		return bv(args[0].u + args[1].u)
	case OpBVSub:
		return bv(args[0].u - args[1].u)
	case OpBVMul:
		return bv(args[0].u * args[1].u)
	case OpBVAnd:
		return bv(args[0].u & args[1].u)
	case OpBVOr:
		return bv(args[0].u | args[1].u)
	case OpBVXor:
		return bv(args[0].u ^ args[1].u)
	case OpBVNot:
		return bv(^args[0].u)
	case OpBVNeg:
		return bv(-args[0].u)
	case OpBVUDiv, OpBVSDiv, OpBVURem, OpBVSRem, OpBVShl, OpBVLshr, OpBVAshr:
		// reuse the constant folder through a scratch table-free computation
		x, y := args[0].u, args[1].u
		sx, sy := signExt(x, w), signExt(y, w)
		switch t.Op {
		case OpBVUDiv:
			if y == 0 {
				return bv(mask(w))
			}
			return bv(x / y)
		case OpBVURem:
			if y == 0 {
				return bv(x)
			}
			return bv(x % y)
		case OpBVSDiv:
			if sy == 0 {
				if sx >= 0 {
					return bv(mask(w))
				}
				return bv(1)
			}
			if sy == -1 {
				return bv(uint64(-sx))
			}
			return bv(uint64(sx / sy))
		case OpBVSRem:
			if sy == 0 {
				return bv(x)
			}
			if sy == -1 {
				return bv(0)
			}
			return bv(uint64(sx % sy))
		case OpBVShl:
			if y >= uint64(w) {
				return bv(0)
			}
			return bv(x << y)
		case OpBVLshr:
			if y >= uint64(w) {
				return bv(0)
			}
			return bv(x >> y)
		case OpBVAshr:
			if y >= uint64(w) {
				if sx < 0 {
					return bv(mask(w))
				}
				return bv(0)
			}
			return bv(uint64(sx >> y))
		}
	case OpBVUlt:
		return bl(args[0].u < args[1].u)
	case OpBVUle:
		return bl(args[0].u <= args[1].u)
	case OpBVSlt:
		return bl(signExt(args[0].u, w) < signExt(args[1].u, w))
	case OpBVSle:
		return bl(signExt(args[0].u, w) <= signExt(args[1].u, w))
	case OpBVExtract:
		lo := t.U & 0xffff
		return bv(args[0].u >> lo)
	case OpBVZext:
		return bv(args[0].u)
	case OpBVSext:
		return bv(uint64(signExt(args[0].u, w)))
	case OpBVConcat:
		return bv(args[0].u<<uint(t.Args[1].Sort.W) | args[1].u)
	case OpRAdd:
		return eval{ok: true, r: new(big.Rat).Add(args[0].r, args[1].r)}
	case OpRSub:
		return eval{ok: true, r: new(big.Rat).Sub(args[0].r, args[1].r)}
	case OpRMul:
		return eval{ok: true, r: new(big.Rat).Mul(args[0].r, args[1].r)}
	case OpRDiv:
		if args[1].r.Sign() == 0 {
			return no
		}
		return eval{ok: true, r: new(big.Rat).Quo(args[0].r, args[1].r)}
	case OpRNeg:
		return eval{ok: true, r: new(big.Rat).Neg(args[0].r)}
	case OpRLt:
		return bl(args[0].r.Cmp(args[1].r) < 0)
	case OpRLe:
		return bl(args[0].r.Cmp(args[1].r) <= 0)
	case OpRTruncBV:
		q := new(big.Int).Quo(args[0].r.Num(), args[0].r.Denom()) // truncated toward zero
		return bv(q.Uint64())
	case OpBV2Real:
		return eval{ok: true, r: new(big.Rat).SetInt64(signExt(args[0].u, w))}
	case OpUBV2Real:
		return eval{ok: true, r: new(big.Rat).SetInt(new(big.Int).SetUint64(args[0].u))}
	}
	return no
}

var _ = strconv.Itoa
