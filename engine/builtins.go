package main

import (
	"fmt"
	"go/types"
	"math"
	"strings"

	"golang.org/x/tools/go/ssa"
)

func (w *Worker) callBuiltin(fn *ssa.Builtin, args []Value) Value {
	tt := w.tt
	switch fn.Name() {
	case "append":
		if len(args) == 1 {
			return args[0]
		}
		s := w.concGeom(args[0].(SliceV))
		var add []Value
		switch t := args[1].(type) {
		case StrV:
			for _, b := range w.strBytes(t) {
				add = append(add, b)
			}
		case SliceV:
			t = w.concGeom(t)
			n := w.concInt(t.Len, "append source length")
			for i := 0; i < n; i++ {
				add = append(add, copyVal(t.B.Cells[t.Off+i]))
			}
		}
		if len(add) == 0 {
			return s
		}
		ln := w.concInt(s.Len, "append destination length")
		if !s.Nil && ln+len(add) <= s.Cap {
			for i, v := range add {
				w.storeCell(&s.B.Cells[s.Off+ln+i], v)
			}
			return SliceV{B: s.B, Off: s.Off, Len: tt.BV(64, uint64(ln+len(add))), Cap: s.Cap}
		}
		et := fn.Type().(*types.Signature).Params().At(0).Type().Underlying().(*types.Slice).Elem()
		ncap := ln + len(add)
		if ncap < 2*s.Cap {
			ncap = 2 * s.Cap
		}
		ns := w.newSlice(et, ln+len(add), ncap)
		for i := 0; i < ln; i++ {
			ns.B.Cells[i] = copyVal(s.B.Cells[s.Off+i])
		}
		for i, v := range add {
			ns.B.Cells[ln+i] = v
		}
		return ns
	case "copy":
		dst := w.concGeom(args[0].(SliceV))
		var src []Value
		var nsrc *Term
		switch t := args[1].(type) {
		case StrV:
			for _, b := range w.strBytes(t) {
				src = append(src, b)
			}
			nsrc = tt.BV(64, uint64(len(src)))
		case SliceV:
			nsrc = t.Len
		}
		n := tt.Ite(tt.BVSlt(nsrc, dst.Len), nsrc, dst.Len)
		nc := w.concInt(n, "copy length")
		if s, ok := args[1].(SliceV); ok {
			s = w.concGeom(s)
			// memmove semantics
			tmp := make([]Value, nc)
			for i := 0; i < nc; i++ {
				tmp[i] = copyVal(s.B.Cells[s.Off+i])
			}
			src = tmp
		}
		for i := 0; i < nc; i++ {
			w.storeCell(&dst.B.Cells[dst.Off+i], src[i])
		}
		return tt.BV(64, uint64(nc))
	case "len":
		switch x := args[0].(type) {
		case StrV:
			return tt.BV(64, uint64(x.Len()))
		case SliceV:
			return x.Len
		case ArrayV:
			return tt.BV(64, uint64(len(x)))
		case Ptr:
			return tt.BV(64, uint64(len((*x.Slot).(ArrayV))))
		case *MapV:
			if x == nil {
				return tt.BV(64, 0)
			}
			return tt.BV(64, uint64(len(x.m)))
		case *ChanV:
			if w.sched != nil {
				if x == nil || w.chanCap(x) == 0 {
					return tt.BV(64, 0)
				}
				return tt.BV(64, uint64(len(x.items)))
			}
			return tt.BV(64, uint64(len(x.buf)))
		}
	case "cap":
		switch x := args[0].(type) {
		case SliceV:
			if x.SOff != nil {
				return x.SCap
			}
			return tt.BV(64, uint64(x.Cap))
		case ArrayV:
			return tt.BV(64, uint64(len(x)))
		case Ptr:
			return tt.BV(64, uint64(len((*x.Slot).(ArrayV))))
		case *ChanV:
			return tt.BVResize(x.capT, 64, true)
		}
	case "delete":
		m := args[0].(*MapV)
		if m != nil {
			w.noJournal("map delete")
			m.del(w.keyString(args[1]))
		}
		return nil
	case "clear":
		switch x := args[0].(type) {
		case *MapV:
			if x != nil {
				w.noJournal("map clear")
				x.m = map[string]*mapEntry{}
				x.keys = nil
			}
		case SliceV:
			x = w.concGeom(x)
			n := w.concInt(x.Len, "clear length")
			for i := 0; i < n; i++ {
				w.storeCell(&x.B.Cells[x.Off+i], w.zero(x.B.Elem))
			}
		}
		return nil
	case "print", "println":
		return nil
	case "real":
		return args[0].(ComplexV).Re
	case "imag":
		return args[0].(ComplexV).Im
	case "complex":
		return ComplexV{args[0].(*Term), args[1].(*Term)}
	case "close":
		ch := args[0].(*ChanV)
		if w.sched != nil {
			w.chanCloseSched(ch)
			return nil
		}
		ch.closed = true
		return nil
	case "panic":
		panic(targetPanic{v: args[0]})
	case "min", "max":
		isMax := fn.Name() == "max"
		res := args[0]
		t := fn.Type().(*types.Signature).Params().At(0).Type()
		for _, a := range args[1:] {
			var lt *Term
			if isMax {
				lt = w.binop(tokenLSS, t, res, a).(*Term)
			} else {
				lt = w.binop(tokenLSS, t, a, res).(*Term)
			}
			res = w.iteValue(lt, a, res)
		}
		return res
	case "ssa:wrapnilchk":
		recv := args[0]
		if p, ok := recv.(Ptr); ok && p.IsNil() {
			w.runtimePanic("value method called using nil pointer")
		}
		return recv
	}
	panic(unsupported("builtin %s", fn.Name()))
}

func (w *Worker) storeCell(slot *Value, v Value) { w.storeInto(slot, v) }

// ---- package initialisation ----

var initWhitelist = map[string]bool{
	"math": true, "math/bits": true, "math/cmplx": true, "sort": true, "errors": false,
	"strconv": true, "unicode/utf8": true, "container/heap": true, "slices": true, "cmp": true,
	"encoding/binary": true, "bytes": true, "strings": true, "io": true, "unicode": true,
	"math/rand": false, "container/list": true,
}

// packages whose (expensive, table-building) init is run on first use only
var lazyInit = map[string]bool{"strconv": true, "unicode": true}

func allowInit(path string) bool {
	if strings.HasPrefix(path, "gonum.org/") || strings.HasPrefix(path, "golang.org/x/exp") {
		return true
	}
	return initWhitelist[path]
}

func (w *Worker) initPackages() {
	pkg := w.ex.fn.Pkg
	if pkg == nil {
		return
	}
	initFn := pkg.Func("init")
	if initFn != nil {
		w.inInit = true
		w.callFunction(initFn, nil, nil)
		w.inInit = false
	}
}

// ---- externals: functions intercepted by name ----

func (w *Worker) f1(args []Value) *Term { return args[0].(*Term) }

func (w *Worker) nativeF(name string, f func(float64) float64, x *Term, f32 bool) *Term {
	if x.IsConst() {
		return w.fconst(f32, f(x.F))
	}
	w.stats.Stubs["uninterpreted function "+name]++
	return w.tt.UF("uf_"+name, x.Sort, x)
}

func (w *Worker) external(fn *ssa.Function, args []Value) (Value, bool) {
	tt := w.tt
	name := fn.String()
	// package init of non-whitelisted packages is skipped
	if fn.Name() == "init" && fn.Pkg != nil && fn.Signature.Recv() == nil && fn.Parent() == nil && len(fn.Params) == 0 {
		if !allowInit(fn.Pkg.Pkg.Path()) {
			return nil, true
		}
		if lazyInit[fn.Pkg.Pkg.Path()] && !w.lazyForce {
			return nil, true // run on first use of the package (see callFunction)
		}
		return nil, false
	}
	pp := pkgPathOf(fn)
	switch pp {
	case "math":
		return w.mathExternal(fn, args)
	case "gonum.org/v1/gonum/internal/math32":
		switch fn.Name() {
		case "Sqrt":
			return w.sqrt(w.f1(args), true), true
		}
		return nil, false
	case "fmt":
		switch fn.Name() {
		case "Sprintf", "Sprint", "Sprintln":
			w.stats.Stubs["fmt."+fn.Name()+" returns an opaque string"]++
			return StrV{S: "<fmt>"}, true
		case "Errorf":
			w.stats.Stubs["fmt.Errorf returns an opaque error"]++
			return IfaceV{T: runtimeErrorType, V: StrV{S: "<fmt.Errorf>"}}, true
		case "Printf", "Println", "Print", "Fprintf", "Fprintln", "Fprint":
			return TupleV{tt.BV(64, 0), IfaceV{}}, true
		}
		panic(unsupported("fmt.%s", fn.Name()))
	case "sync":
		switch name {
		case "(*sync.Pool).Get":
			p := args[0].(Ptr)
			w.preemptPoint()
			if w.cfg.PoolReuse {
				// precise pool: Put keeps the object, Get hands out the most
				// recently put one (maximal sharing); what it contains is
				// whatever its previous user left, and with pool_havoc every
				// numeric cell of it is replaced by an arbitrary value (any
				// earlier history of the pool)
				w.stats.Stubs["sync.Pool: objects are reused (Get returns the most recently Put object); contents arbitrary when pool_havoc is set"]++
				if w.pools == nil {
					w.pools = map[*Value][]poolItem{}
				}
				if l := w.pools[p.Slot]; len(l) > 0 {
					it := l[len(l)-1]
					w.pools[p.Slot] = l[:len(l)-1]
					if w.sched != nil && it.vc != nil {
						w.sched.cur.vc.join(it.vc)
					}
					if w.cfg.PoolHavoc {
						w.havoc(it.v, 0)
					}
					return it.v, true
				}
			} else {
				w.stats.Stubs["sync.Pool.Get always calls New (pool reuse not modelled)"]++
			}
			st := (*p.Slot).(StructV)
			// field "New" is the last field
			newFn := st[len(st)-1]
			if f, ok := newFn.(*ssa.Function); ok && f == nil {
				return IfaceV{}, true
			}
			if newFn == nil {
				return IfaceV{}, true
			}
			v := w.callValue(newFn, nil)
			if w.cfg.PoolReuse && w.cfg.PoolHavoc {
				w.havoc(v, 0)
			}
			return v, true
		case "(*sync.Pool).Put":
			w.preemptPoint()
			if w.cfg.PoolReuse {
				p := args[0].(Ptr)
				if w.pools == nil {
					w.pools = map[*Value][]poolItem{}
				}
				it := poolItem{v: args[1]}
				if w.sched != nil {
					c := w.sched.cur
					it.vc = c.vc.copy()
					c.vc[c.id]++
				}
				w.pools[p.Slot] = append(w.pools[p.Slot], it)
			}
			return nil, true
		case "(*sync.Mutex).Lock", "(*sync.Mutex).Unlock", "(*sync.RWMutex).Lock", "(*sync.RWMutex).Unlock",
			"(*sync.RWMutex).RLock", "(*sync.RWMutex).RUnlock", "(*sync.WaitGroup).Add", "(*sync.WaitGroup).Done", "(*sync.WaitGroup).Wait":
			if w.sched != nil {
				w.syncCall(name, args)
			}
			return nil, true
		case "(*sync.Once).Do":
			p := args[0].(Ptr)
			if w.sched != nil {
				w.onceDo(p, args[1])
				return nil, true
			}
			if !w.onceDone[p.Slot] {
				w.onceDone[p.Slot] = true
				w.callValue(args[1], nil)
			}
			return nil, true
		}
		panic(unsupported("sync function %s", name))
	case "runtime":
		switch fn.Name() {
		case "GOMAXPROCS":
			w.stats.Stubs["runtime.GOMAXPROCS returns an arbitrary value >= 1"]++
			w.gmpSeq++
			v := w.declareInput(fmt.Sprintf("env.GOMAXPROCS#%d", w.gmpSeq), BVSort(64), "int")
			w.assume(tt.And(tt.BVSle(tt.BV(64, 1), v), tt.BVSle(v, tt.BV(64, 64))))
			return v, true
		case "Gosched":
			if w.sched != nil {
				w.yield()
			}
			return nil, true
		case "KeepAlive", "GC":
			return nil, true
		}
	case "time":
		switch name {
		case "time.Now":
			w.stats.Stubs["time.Now returns the zero Time; time.Since returns an arbitrary non-decreasing non-negative duration"]++
			return w.zero(fn.Signature.Results().At(0).Type()), true
		case "time.Since":
			w.timeSeq++
			v := w.declareInput(fmt.Sprintf("env.since#%d", w.timeSeq), BVSort(64), "int")
			lo := tt.BV(64, 0)
			if w.lastSince != nil {
				lo = w.lastSince
			}
			w.assume(tt.BVSle(lo, v))
			w.lastSince = v
			return v, true
		case "time.Sleep":
			if w.sched != nil {
				w.yield()
			}
			return nil, true
		}
		return nil, false
	case "os":
		panic(unsupported("os function %s", name))
	case "reflect":
		if r, ok := w.reflectShim(fn, name, args); ok {
			return r, true
		}
		if fn.Name() == "TypeOf" && fn.Signature.Recv() == nil {
			iv := args[0].(IfaceV)
			if iv.T != nil {
				w.stats.Stubs["reflect.TypeOf(x) modelled for Size()/String() only"]++
				return IfaceV{T: rtypeModelType, V: rtypeHolder{iv.T}}, true
			}
		}
		panic(unsupported("reflect function %s", name))
	case "unsafe":
		panic(unsupported("unsafe function %s", name))
	case "math/bits":
		return w.bitsExternal(fn, args)
	case "math/rand/v2", "math/rand", "golang.org/x/exp/rand":
		if r, ok := w.randExternal(fn, args); ok {
			return r, true
		}
	case "encoding/binary":
		if fn.Name() == "Size" {
			iv := args[0].(IfaceV)
			return tt.BV(64, uint64(int64(w.binarySize(iv.T, iv.V)))), true
		}
		if fn.Name() == "Read" || fn.Name() == "Write" {
			if r, ok := w.binaryReadWrite(fn, args); ok {
				return r, true
			}
		}
	case "errors":
		if fn.Name() == "New" {
			return nil, false
		}
	case "sort":
		switch fn.Name() {
		case "Slice", "SliceStable":
			// reflection-free model: stable insertion sort driven by the
			// caller's less function (any correct sort yields a sorted
			// permutation; the order of equal elements may differ from pdqsort)
			iv := args[0].(IfaceV)
			sl := w.concGeom(iv.V.(SliceV))
			n := w.concInt(sl.Len, "sort.Slice length")
			w.stats.Stubs["sort."+fn.Name()+" modelled as a stable insertion sort calling the real less function"]++
			for i := 1; i < n; i++ {
				for j := i; j > 0; j-- {
					lt := w.callValue(args[1], []Value{tt.BV(64, uint64(j)), tt.BV(64, uint64(j-1))}).(*Term)
					if !w.branch(lt) {
						break
					}
					a, b := &sl.B.Cells[sl.Off+j], &sl.B.Cells[sl.Off+j-1]
					va, vb := copyVal(*a), copyVal(*b)
					w.storeInto(a, vb)
					w.storeInto(b, va)
				}
			}
			return nil, true
		case "SliceIsSorted":
			iv := args[0].(IfaceV)
			sl := w.concGeom(iv.V.(SliceV))
			n := w.concInt(sl.Len, "sort.SliceIsSorted length")
			res := tt.Bool(true)
			for i := n - 1; i > 0; i-- {
				lt := w.callValue(args[1], []Value{tt.BV(64, uint64(i)), tt.BV(64, uint64(i-1))}).(*Term)
				res = tt.And(res, tt.Not(lt))
			}
			return res, true
		}
	case "internal/bytealg", "internal/cpu", "internal/abi", "internal/race", "internal/godebug":
		switch name {
		case "internal/bytealg.IndexByteString", "internal/bytealg.IndexByte":
			return nil, false
		case "internal/bytealg.CompareString":
			a, b := args[0].(StrV), args[1].(StrV)
			lt := w.binop(tokenLSS, types.Typ[types.String], a, b).(*Term)
			eq := w.strEq(a, b)
			return tt.Ite(eq, tt.BV(64, 0), tt.Ite(lt, tt.BV(64, ^uint64(0)), tt.BV(64, 1))), true
		case "internal/bytealg.MakeNoZero":
			n := w.concInt(args[0].(*Term), "MakeNoZero length")
			return w.newSlice(types.Typ[types.Uint8], n, n), true
		}
		if fn.Blocks == nil {
			panic(unsupported("runtime-internal function %s", name))
		}
	case "strings":
		switch name {
		case "(*strings.Builder).String":
			// interpret: uses unsafe.String
			p := args[0].(Ptr)
			st := (*p.Slot).(StructV)
			buf := st[1].(SliceV)
			return w.conv(types.Typ[types.String], types.NewSlice(types.Typ[types.Uint8]), buf), true
		case "(*strings.Builder).copyCheck":
			return nil, true
		}
	}
	return nil, false
}

func (w *Worker) sqrt(x *Term, f32 bool) *Term {
	tt := w.tt
	if x.IsConst() {
		if f32 {
			return w.fconst(true, float64(float32(math.Sqrt(float64(float32(x.F))))))
		}
		return w.fconst(false, math.Sqrt(x.F))
	}
	if w.isF() {
		return tt.UF(fmt.Sprintf("fsqrt%d", x.Sort.W), x.Sort, x)
	}
	// R+: r >= 0 and r*r = x whenever x >= 0 (definitional axiom)
	r := tt.UF("uf_sqrt", RealSort, x)
	ax := tt.Implies(tt.RLe(tt.Real(0), x), tt.And(tt.RLe(tt.Real(0), r), tt.Eq(tt.RMul(r, r), x)))
	known := false
	for _, a := range tt.axioms {
		if a == ax {
			known = true
		}
	}
	if !known {
		tt.axioms = append(tt.axioms, ax)
	}
	w.stats.Stubs["math.Sqrt(x) = r with r>=0, r*r=x (exact real square root; x<0 unconstrained)"]++
	return r
}

func (w *Worker) mathExternal(fn *ssa.Function, args []Value) (Value, bool) {
	tt := w.tt
	n := fn.Name()
	switch n {
	case "Abs":
		return w.fAbs(w.f1(args)), true
	case "Sqrt", "sqrt":
		return w.sqrt(w.f1(args), false), true
	case "IsNaN":
		return w.fIsNaN(w.f1(args)), true
	case "IsInf":
		s := args[1].(*Term)
		if !s.IsConst() {
			panic(unsupported("math.IsInf with symbolic sign"))
		}
		return w.fIsInf(w.f1(args), int(signExt(s.U, 64))), true
	case "Inf":
		s := args[0].(*Term)
		if !s.IsConst() {
			panic(unsupported("math.Inf with symbolic sign"))
		}
		if signExt(s.U, 64) >= 0 {
			return w.fconst(false, math.Inf(1)), true
		}
		return w.fconst(false, math.Inf(-1)), true
	case "NaN":
		return w.fconst(false, math.NaN()), true
	case "Max", "Min":
		a, b := args[0].(*Term), args[1].(*Term)
		if a.IsConst() && b.IsConst() {
			if n == "Max" {
				return w.fconst(false, math.Max(a.F, b.F)), true
			}
			return w.fconst(false, math.Min(a.F, b.F)), true
		}
		if w.isF() {
			// Go semantics: NaN if either is NaN; +Inf/-Inf dominate; signed zeros ordered
			nanr := tt.FPConst(64, math.NaN())
			isn := tt.Or(w.fIsNaN(a), w.fIsNaN(b))
			op := OpFPMax
			if n == "Min" {
				op = OpFPMin
			}
			// fp.max/min is unspecified for +0/-0: resolve with sign test
			m := tt.intern(Term{Op: op, Sort: a.Sort, Args: []*Term{a, b}})
			zero := tt.FPConst(64, 0)
			bothZero := tt.And(tt.Eq(a, zero), tt.Eq(b, zero))
			var zpick *Term
			if n == "Max" {
				zpick = tt.Ite(tt.fpUn(OpFPIsNeg, BoolSort, a), b, a)
			} else {
				zpick = tt.Ite(tt.fpUn(OpFPIsNeg, BoolSort, a), a, b)
			}
			// Go checks the dominating infinity BEFORE NaN:
			// Max(x, +Inf) = +Inf and Min(x, -Inf) = -Inf even for x = NaN.
			dom := math.Inf(1)
			if n == "Min" {
				dom = math.Inf(-1)
			}
			domc := tt.FPConst(64, dom)
			isDom := tt.Or(tt.Eq(a, domc), tt.Eq(b, domc))
			return tt.Ite(isDom, domc, tt.Ite(isn, nanr, tt.Ite(bothZero, zpick, m))), true
		}
		// R+: special constants
		for _, c := range []*Term{a, b} {
			if c.IsConst() && math.IsNaN(c.F) {
				return c, true
			}
		}
		if n == "Max" {
			return tt.Ite(w.fLt(a, b), b, a), true
		}
		return tt.Ite(w.fLt(b, a), b, a), true
	case "Copysign":
		a, b := args[0].(*Term), args[1].(*Term)
		if a.IsConst() && b.IsConst() {
			return w.fconst(false, math.Copysign(a.F, b.F)), true
		}
		if w.isF() {
			neg := w.signbitF(b)
			abs := w.fAbs(a)
			return tt.Ite(neg, w.fNeg(abs), abs), true
		}
		abs := w.fAbs(a)
		return tt.Ite(w.fLt(b, tt.Real(0)), tt.RNeg(abs), abs), true
	case "Signbit":
		a := w.f1(args)
		if a.IsConst() {
			return tt.Bool(math.Signbit(a.F)), true
		}
		if w.isF() {
			return w.signbitF(a), true
		}
		return w.fLt(a, tt.Real(0)), true
	case "Float64bits":
		a := w.f1(args)
		if a.IsConst() {
			return tt.BV(64, math.Float64bits(a.F)), true
		}
		if w.isF() {
			return w.fpToBits(a), true
		}
		// model R: an uninterpreted bit pattern of a finite value (never the
		// exponent of Inf/NaN); injectivity is not assumed
		bts := tt.UF("uf_realbits", BVSort(64), a)
		ax := tt.Not(tt.Eq(tt.BVExtract(bts, 62, 52), tt.BV(11, 0x7ff)))
		w.addAxiom(ax)
		w.stats.Stubs["R+ model: math.Float64bits(x) of a symbolic real is an uninterpreted finite bit pattern"]++
		return bts, true
	case "Float64frombits":
		a := w.f1(args)
		if a.IsConst() {
			return w.fconst(false, math.Float64frombits(a.U)), true
		}
		if w.isF() {
			return w.fpFromBits(a, 64), true
		}
		if a.Op == OpUF && a.Name == "uf_realbits" {
			return a.Args[0], true
		}
		panic(unsupported("math.Float64frombits of symbolic bits in the real model"))
	case "Float32bits":
		a := w.f1(args)
		if a.IsConst() {
			return tt.BV(32, uint64(math.Float32bits(float32(a.F)))), true
		}
		if w.isF() {
			return w.fpToBits(a), true
		}
		panic(unsupported("math.Float32bits of a symbolic real"))
	case "Float32frombits":
		a := w.f1(args)
		if a.IsConst() {
			return w.fconst(true, float64(math.Float32frombits(uint32(a.U)))), true
		}
		if w.isF() {
			return w.fpFromBits(a, 32), true
		}
		panic(unsupported("math.Float32frombits of symbolic bits in the real model"))
	case "Floor", "Ceil", "Trunc", "Round", "RoundToEven":
		f := map[string]func(float64) float64{"Floor": math.Floor, "Ceil": math.Ceil, "Trunc": math.Trunc, "Round": math.Round, "RoundToEven": math.RoundToEven}[n]
		return w.nativeF(strings.ToLower(n), f, w.f1(args), false), true
	case "Hypot":
		a, b := args[0].(*Term), args[1].(*Term)
		if a.IsConst() && b.IsConst() {
			return w.fconst(false, math.Hypot(a.F, b.F)), true
		}
		if w.isF() {
			return tt.UF("fhypot", a.Sort, a, b), true
		}
		return w.sqrt(tt.RAdd(tt.RMul(a, a), tt.RMul(b, b)), false), true
	case "Pow":
		a, b := args[0].(*Term), args[1].(*Term)
		if a.IsConst() && b.IsConst() {
			return w.fconst(false, math.Pow(a.F, b.F)), true
		}
		if !w.isF() && b.IsConst() && b.F == math.Trunc(b.F) && b.F >= 0 && b.F <= 16 {
			r := tt.Real(1)
			for i := 0; i < int(b.F); i++ {
				r = tt.RMul(r, a)
			}
			return r, true
		}
		w.stats.Stubs["uninterpreted function pow"]++
		return tt.UF("uf_pow", a.Sort, a, b), true
	case "Mod", "Atan2", "Dim", "Remainder", "Nextafter":
		a, b := args[0].(*Term), args[1].(*Term)
		f2 := map[string]func(float64, float64) float64{"Mod": math.Mod, "Atan2": math.Atan2, "Dim": math.Dim, "Remainder": math.Remainder, "Nextafter": math.Nextafter}[n]
		if a.IsConst() && b.IsConst() {
			return w.fconst(false, f2(a.F, b.F)), true
		}
		w.stats.Stubs["uninterpreted function "+strings.ToLower(n)]++
		return tt.UF("uf_"+strings.ToLower(n), a.Sort, a, b), true
	case "Exp", "Log", "Sin", "Cos", "Tan", "Asin", "Acos", "Atan", "Sinh", "Cosh", "Tanh", "Log1p", "Expm1",
		"Log2", "Log10", "Exp2", "Gamma", "Erf", "Erfc", "Erfinv", "Erfcinv", "Cbrt", "Asinh", "Acosh", "Atanh", "J0", "J1", "Y0", "Y1", "Logb":
		f := map[string]func(float64) float64{"Exp": math.Exp, "Log": math.Log, "Sin": math.Sin, "Cos": math.Cos, "Tan": math.Tan,
			"Asin": math.Asin, "Acos": math.Acos, "Atan": math.Atan, "Sinh": math.Sinh, "Cosh": math.Cosh, "Tanh": math.Tanh,
			"Log1p": math.Log1p, "Expm1": math.Expm1, "Log2": math.Log2, "Log10": math.Log10, "Exp2": math.Exp2, "Gamma": math.Gamma,
			"Erf": math.Erf, "Erfc": math.Erfc, "Erfinv": math.Erfinv, "Erfcinv": math.Erfcinv, "Cbrt": math.Cbrt,
			"Asinh": math.Asinh, "Acosh": math.Acosh, "Atanh": math.Atanh, "J0": math.J0, "J1": math.J1, "Y0": math.Y0, "Y1": math.Y1, "Logb": math.Logb}[n]
		return w.nativeF(strings.ToLower(n), f, w.f1(args), false), true
	case "Sincos":
		a := w.f1(args)
		return TupleV{w.nativeF("sin", math.Sin, a, false), w.nativeF("cos", math.Cos, a, false)}, true
	case "Lgamma":
		a := w.f1(args)
		if a.IsConst() {
			l, s := math.Lgamma(a.F)
			return TupleV{w.fconst(false, l), tt.BV(64, uint64(int64(s)))}, true
		}
		w.stats.Stubs["uninterpreted function lgamma"]++
		return TupleV{tt.UF("uf_lgamma", a.Sort, a), tt.UF("uf_lgamma_sign", BVSort(64), a)}, true
	case "Frexp":
		a := w.f1(args)
		if a.IsConst() {
			fr, e := math.Frexp(a.F)
			return TupleV{w.fconst(false, fr), tt.BV(64, uint64(int64(e)))}, true
		}
		panic(unsupported("math.Frexp of symbolic value"))
	case "Ldexp":
		a, e := args[0].(*Term), args[1].(*Term)
		if a.IsConst() && e.IsConst() {
			return w.fconst(false, math.Ldexp(a.F, int(signExt(e.U, 64)))), true
		}
		if !w.isF() && e.IsConst() {
			return tt.RMul(a, tt.Real(math.Ldexp(1, int(signExt(e.U, 64))))), true
		}
		panic(unsupported("math.Ldexp of symbolic value"))
	case "Modf":
		a := w.f1(args)
		if a.IsConst() {
			i, f := math.Modf(a.F)
			return TupleV{w.fconst(false, i), w.fconst(false, f)}, true
		}
		panic(unsupported("math.Modf of symbolic value"))
	case "FMA":
		a, b, c := args[0].(*Term), args[1].(*Term), args[2].(*Term)
		if a.IsConst() && b.IsConst() && c.IsConst() {
			return w.fconst(false, math.FMA(a.F, b.F, c.F)), true
		}
		if w.isF() {
			return tt.UF("ffma", a.Sort, a, b, c), true
		}
		return tt.RAdd(tt.RMul(a, b), c), true
	}
	if fn.Blocks == nil {
		panic(unsupported("math.%s", n))
	}
	return nil, false
}

func (w *Worker) signbitF(a *Term) *Term {
	if a.IsConst() {
		return w.tt.Bool(math.Signbit(a.F))
	}
	// sign bit incl. -0 and NaN sign: use bits
	return w.tt.Eq(w.tt.BVExtract(w.fpToBits(a), a.Sort.W-1, a.Sort.W-1), w.tt.BV(1, 1))
}

// fpToBits: a fresh BV b with to_fp(b) = a (definitional; NaN payloads are
// therefore arbitrary but fixed per term).
func (w *Worker) fpToBits(a *Term) *Term {
	tt := w.tt
	if a.Op == OpFPFromBV {
		// Go moves preserve NaN payloads: bits(frombits(b)) == b
		return a.Args[0]
	}
	b := tt.UF(fmt.Sprintf("fbits%d", a.Sort.W), BVSort(a.Sort.W), a)
	ax := tt.Same(tt.intern(Term{Op: OpFPFromBV, Sort: a.Sort, Args: []*Term{b}}), a)
	for _, x := range tt.axioms {
		if x == ax {
			return b
		}
	}
	tt.axioms = append(tt.axioms, ax)
	return b
}

func (w *Worker) fpFromBits(b *Term, wd int) *Term {
	return w.tt.intern(Term{Op: OpFPFromBV, Sort: Sort{SFP, wd}, Args: []*Term{b}})
}

func (w *Worker) bitsExternal(fn *ssa.Function, args []Value) (Value, bool) {
	// math/bits is pure Go and interpreted from source, except for symbolic
	// table lookups which work via ite chains. Nothing to intercept.
	return nil, false
}

func (w *Worker) binarySize(t types.Type, v Value) int {
	switch u := t.Underlying().(type) {
	case *types.Basic:
		switch u.Kind() {
		case types.Bool, types.Int8, types.Uint8:
			return 1
		case types.Int16, types.Uint16:
			return 2
		case types.Int32, types.Uint32, types.Float32:
			return 4
		case types.Int64, types.Uint64, types.Float64, types.Complex64:
			return 8
		case types.Complex128:
			return 16
		}
		return -1
	case *types.Struct:
		n := 0
		for i := 0; i < u.NumFields(); i++ {
			k := w.binarySize(u.Field(i).Type(), nil)
			if k < 0 {
				return -1
			}
			n += k
		}
		return n
	case *types.Array:
		k := w.binarySize(u.Elem(), nil)
		if k < 0 {
			return -1
		}
		return k * int(u.Len())
	case *types.Slice:
		if s, ok := v.(SliceV); ok {
			k := w.binarySize(u.Elem(), nil)
			if k < 0 {
				return -1
			}
			return k * w.concInt(s.Len, "binary.Size of slice")
		}
	case *types.Pointer:
		return w.binarySize(u.Elem(), nil)
	}
	return -1
}

// concGeom makes the geometry (offset, capacity) of a slice concrete, forking
// over the feasible values when it is symbolic.
func (w *Worker) concGeom(s SliceV) SliceV {
	if s.SOff == nil {
		return s
	}
	off := w.concInt(s.SOff, "slice offset")
	cp := w.concInt(s.SCap, "slice capacity")
	return SliceV{B: s.B, Off: off, Cap: cp, Len: s.Len, Nil: s.Nil}
}

// binaryReadWrite models encoding/binary.Read / Write for (pointers to)
// fixed-size structs of integer, bool and float fields without reflection.
// The reader's / writer's own methods are still interpreted.
func (w *Worker) binaryReadWrite(fn *ssa.Function, args []Value) (Value, bool) {
	tt := w.tt
	rw, ok0 := args[0].(IfaceV)
	ord, ok1 := args[1].(IfaceV)
	data, ok2 := args[2].(IfaceV)
	if !ok0 || !ok1 || !ok2 || data.T == nil || ord.T == nil || rw.T == nil {
		return nil, false
	}
	little := strings.Contains(ord.T.String(), "littleEndian")
	if !little && !strings.Contains(ord.T.String(), "bigEndian") {
		return nil, false
	}
	isRead := fn.Name() == "Read"
	var st *types.Struct
	var cells StructV
	switch t := data.T.Underlying().(type) {
	case *types.Pointer:
		s, ok := t.Elem().Underlying().(*types.Struct)
		if !ok {
			return nil, false
		}
		st = s
		p := data.V.(Ptr)
		if p.IsNil() {
			return nil, false
		}
		cells = (*p.Slot).(StructV)
	case *types.Struct:
		if isRead {
			return nil, false
		}
		st = t
		cells = data.V.(StructV)
	default:
		return nil, false
	}
	n := w.binarySize(st, nil)
	if n < 0 {
		return nil, false
	}
	for i := 0; i < st.NumFields(); i++ {
		if _, ok := st.Field(i).Type().Underlying().(*types.Basic); !ok {
			return nil, false
		}
	}
	w.stats.Stubs["encoding/binary."+fn.Name()+" on a fixed-size struct is modelled field by field (no reflection)"]++
	byteT := types.Typ[types.Uint8]
	buf := w.newSlice(byteT, n, n)
	if isRead {
		ioPkg := w.ex.prog.ImportedPackage("io")
		if ioPkg == nil || ioPkg.Func("ReadFull") == nil {
			return nil, false
		}
		res := w.callFunction(ioPkg.Func("ReadFull"), []Value{rw, buf}, nil).(TupleV)
		if e := res[1].(IfaceV); e.T != nil {
			return e, true
		}
		off := 0
		for i := 0; i < st.NumFields(); i++ {
			bt := st.Field(i).Type().Underlying().(*types.Basic)
			sz := w.binarySize(bt, nil)
			var v *Term
			for k := 0; k < sz; k++ {
				var b *Term
				if little {
					b = buf.B.Cells[off+sz-1-k].(*Term)
				} else {
					b = buf.B.Cells[off+k].(*Term)
				}
				if v == nil {
					v = b
				} else {
					v = tt.BVConcat(v, b)
				}
			}
			off += sz
			if st.Field(i).Name() == "_" {
				continue
			}
			var fv Value = v
			info := bt.Info()
			switch {
			case info&types.IsBoolean != 0:
				fv = tt.Not(tt.Eq(v, tt.BV(8, 0)))
			case info&types.IsFloat != 0:
				if v.IsConst() {
					if sz == 4 {
						fv = w.fconst(true, float64(float32frombits(uint32(v.U))))
					} else {
						fv = w.fconst(false, float64frombits(v.U))
					}
				} else if w.isF() {
					fv = w.fpFromBits(v, sz*8)
				} else {
					panic(unsupported("binary.Read of symbolic float bits in the real model"))
				}
			case info&types.IsComplex != 0:
				return nil, false
			}
			w.storeInto(&cells[i], fv)
		}
		return IfaceV{}, true
	}
	// Write
	off := 0
	for i := 0; i < st.NumFields(); i++ {
		bt := st.Field(i).Type().Underlying().(*types.Basic)
		sz := w.binarySize(bt, nil)
		var v *Term
		info := bt.Info()
		switch {
		case st.Field(i).Name() == "_":
			v = tt.BV(sz*8, 0)
		case info&types.IsBoolean != 0:
			v = tt.Ite(cells[i].(*Term), tt.BV(8, 1), tt.BV(8, 0))
		case info&types.IsFloat != 0:
			f := cells[i].(*Term)
			if f.IsConst() {
				if sz == 4 {
					v = tt.BV(32, uint64(math.Float32bits(float32(f.F))))
				} else {
					v = tt.BV(64, math.Float64bits(f.F))
				}
			} else if w.isF() {
				v = w.fpToBits(f)
			} else {
				panic(unsupported("binary.Write of a symbolic real"))
			}
		case info&types.IsComplex != 0:
			return nil, false
		default:
			v = cells[i].(*Term)
		}
		for k := 0; k < sz; k++ {
			b := tt.BVExtract(v, 8*k+7, 8*k)
			if little {
				buf.B.Cells[off+k] = b
			} else {
				buf.B.Cells[off+sz-1-k] = b
			}
		}
		off += sz
	}
	// w.Write(buf)
	wt := fn.Signature.Params().At(0).Type().Underlying().(*types.Interface)
	var wm *types.Func
	for i := 0; i < wt.NumMethods(); i++ {
		if wt.Method(i).Name() == "Write" {
			wm = wt.Method(i)
		}
	}
	if wm == nil {
		return nil, false
	}
	m := w.lookupMethod(rw.T, wm)
	if m == nil {
		return nil, false
	}
	res := w.callFunction(m, []Value{rw.V, buf}, nil).(TupleV)
	return res[1], true
}

func (w *Worker) addAxiom(ax *Term) {
	for _, a := range w.tt.axioms {
		if a == ax {
			return
		}
	}
	w.tt.axioms = append(w.tt.axioms, ax)
}

// randExternal: package-level random functions return arbitrary values of
// their contract (fresh symbolic inputs named env.rand#k).
func (w *Worker) randExternal(fn *ssa.Function, args []Value) (Value, bool) {
	tt := w.tt
	if fn.Signature.Recv() != nil || fn.Parent() != nil {
		return nil, false
	}
	fresh := func(kind string, s Sort) *Term {
		w.randSeq++
		return w.declareInput(fmt.Sprintf("env.rand#%d", w.randSeq), s, kind)
	}
	note := func() { w.stats.Stubs["package-level "+pkgPathOf(fn)+"."+fn.Name()+" returns an arbitrary value of its contract"]++ }
	switch fn.Name() {
	case "IntN", "Intn", "Int64N", "Int63n", "Int31n", "Int32N", "UintN", "Uint64N", "Uint32N", "N":
		n := args[0].(*Term)
		if !w.branch(tt.BVSlt(tt.BV(n.Sort.W, 0), n)) {
			panic(targetPanic{v: StrV{S: "invalid argument to " + fn.Name()}})
		}
		note()
		v := fresh("int", BVSort(n.Sort.W))
		w.assume(tt.And(tt.BVSle(tt.BV(n.Sort.W, 0), v), tt.BVSlt(v, n)))
		return v, true
	case "Int", "Int64", "Int63":
		note()
		v := fresh("int", BVSort(64))
		w.assume(tt.BVSle(tt.BV(64, 0), v))
		return v, true
	case "Uint64":
		note()
		return fresh("uint", BVSort(64)), true
	case "Uint32":
		note()
		return fresh("uint", BVSort(32)), true
	case "Float64":
		note()
		v := fresh("float", w.floatSort(false))
		if w.isF() {
			w.assume(tt.And(w.fLe(tt.FPConst(64, 0), v), w.fLt(v, tt.FPConst(64, 1))))
		} else {
			w.assume(tt.And(tt.RLe(tt.Real(0), v), tt.RLt(v, tt.Real(1))))
		}
		return v, true
	case "Perm":
		n := w.concInt(args[0].(*Term), "rand.Perm length")
		note()
		sl := w.newSlice(types.Typ[types.Int], n, n)
		var vs []*Term
		for i := 0; i < n; i++ {
			v := fresh("int", BVSort(64))
			w.assume(tt.And(tt.BVSle(tt.BV(64, 0), v), tt.BVSlt(v, tt.BV(64, uint64(n)))))
			for _, o := range vs {
				w.assume(tt.Not(tt.Eq(o, v)))
			}
			vs = append(vs, v)
			sl.B.Cells[i] = v
		}
		return sl, true
	case "Shuffle":
		n := w.concInt(args[0].(*Term), "rand.Shuffle length")
		note()
		for i := n - 1; i > 0; i-- {
			j := fresh("int", BVSort(64))
			w.assume(tt.And(tt.BVSle(tt.BV(64, 0), j), tt.BVSle(j, tt.BV(64, uint64(i)))))
			w.callValue(args[1], []Value{tt.BV(64, uint64(i)), j})
		}
		return nil, true
	}
	return nil, false
}

// ---- minimal reflect shim (enough for gonum's "safe" map iterators) ----

type rvHolder struct {
	t    types.Type
	v    Value  // the value (when not addressable)
	addr *Value // addressable location, if any
}

type mapIterState struct {
	m    *MapV
	keys []string
	pos  int // index of the current entry, -1 before the first Next
}

func (w *Worker) mkReflectValue(fn *ssa.Function, h *rvHolder) Value {
	var vt types.Type
	res := fn.Signature.Results()
	for i := 0; i < res.Len(); i++ {
		if strings.HasSuffix(res.At(i).Type().String(), "reflect.Value") {
			vt = res.At(i).Type()
		}
	}
	if vt == nil {
		panic(unsupported("reflect shim: no Value result in %s", fn.String()))
	}
	sv := w.zero(vt).(StructV)
	cell := new(Value)
	*cell = h
	sv[1] = Ptr{Slot: cell}
	return sv
}

func (w *Worker) rvOf(v Value) *rvHolder {
	sv, ok := v.(StructV)
	if !ok || len(sv) < 2 {
		panic(unsupported("reflect shim: not a reflect.Value"))
	}
	p, ok := sv[1].(Ptr)
	if !ok || p.Slot == nil {
		panic(unsupported("reflect shim: zero reflect.Value"))
	}
	h, ok := (*p.Slot).(*rvHolder)
	if !ok {
		panic(unsupported("reflect shim: foreign reflect.Value"))
	}
	return h
}

func (h *rvHolder) get() Value {
	if h.addr != nil {
		return copyVal(*h.addr)
	}
	return h.v
}

func (w *Worker) reflectShim(fn *ssa.Function, name string, args []Value) (Value, bool) {
	tt := w.tt
	if w.mapIters == nil {
		w.mapIters = map[*Value]*mapIterState{}
	}
	note := func() { w.stats.Stubs["reflect shim: "+name]++ }
	switch name {
	case "reflect.ValueOf":
		iv := args[0].(IfaceV)
		if iv.T == nil {
			return nil, false
		}
		note()
		return w.mkReflectValue(fn, &rvHolder{t: iv.T, v: iv.V}), true
	case "(reflect.Value).Elem":
		h := w.rvOf(args[0])
		pt, ok := h.t.Underlying().(*types.Pointer)
		if !ok {
			return nil, false
		}
		p := h.get().(Ptr)
		if p.IsNil() {
			return nil, false
		}
		note()
		return w.mkReflectValue(fn, &rvHolder{t: pt.Elem(), addr: p.Slot}), true
	case "(reflect.Value).Int":
		h := w.rvOf(args[0])
		t, ok := h.get().(*Term)
		if !ok || t.Sort.K != SBV {
			return nil, false
		}
		note()
		return tt.BVResize(t, 64, true), true
	case "(reflect.Value).Len":
		h := w.rvOf(args[0])
		switch x := h.get().(type) {
		case *MapV:
			if x == nil {
				return tt.BV(64, 0), true
			}
			return tt.BV(64, uint64(len(x.m))), true
		case SliceV:
			return x.Len, true
		}
		return nil, false
	case "(*reflect.MapIter).Reset":
		p := args[0].(Ptr)
		h := w.rvOf(args[1])
		m, ok := h.get().(*MapV)
		if !ok {
			return nil, false
		}
		note()
		st := &mapIterState{m: m, pos: -1}
		if m != nil {
			st.keys = append([]string(nil), m.keys...)
		}
		w.mapIters[p.Slot] = st
		return nil, true
	case "(*reflect.MapIter).Next":
		p := args[0].(Ptr)
		st := w.mapIters[p.Slot]
		if st == nil {
			panic(unsupported("reflect shim: MapIter.Next before Reset"))
		}
		for st.pos+1 < len(st.keys) {
			st.pos++
			if _, ok := st.m.get(st.keys[st.pos]); ok {
				return tt.Bool(true), true
			}
		}
		st.pos = len(st.keys)
		return tt.Bool(false), true
	case "(*reflect.MapIter).Key", "(*reflect.MapIter).Value":
		p := args[0].(Ptr)
		st := w.mapIters[p.Slot]
		if st == nil || st.pos < 0 || st.pos >= len(st.keys) {
			panic(unsupported("reflect shim: MapIter.Key/Value without a current entry"))
		}
		e, _ := st.m.get(st.keys[st.pos])
		if strings.HasSuffix(name, "Key") {
			return w.mkReflectValue(fn, &rvHolder{t: st.m.KeyT, v: e.K}), true
		}
		return w.mkReflectValue(fn, &rvHolder{t: st.m.ElemT, v: copyVal(e.V)}), true
	case "(reflect.Value).SetIterValue", "(reflect.Value).SetIterKey":
		h := w.rvOf(args[0])
		p := args[1].(Ptr)
		st := w.mapIters[p.Slot]
		if h.addr == nil || st == nil || st.pos < 0 || st.pos >= len(st.keys) {
			panic(unsupported("reflect shim: SetIterValue on a non-addressable value or idle iterator"))
		}
		e, _ := st.m.get(st.keys[st.pos])
		v := e.V
		vt := st.m.ElemT
		if strings.HasSuffix(name, "Key") {
			v, vt = e.K, st.m.KeyT
		}
		// assigning a concrete value to an interface-typed location wraps it
		if _, isIface := h.t.Underlying().(*types.Interface); isIface {
			if _, already := v.(IfaceV); !already {
				v = IfaceV{T: vt, V: v}
			}
		}
		w.storeInto(h.addr, copyVal(v))
		return nil, true
	}
	return nil, false
}


type poolItem struct {
	v  Value
	vc vclock
}

// havoc replaces every numeric leaf reachable from v (through pointers,
// structs, arrays and the full capacity of slices) by a fresh unconstrained
// value: the object may have been used by anything before.
func (w *Worker) havoc(v Value, depth int) {
	if depth > 6 {
		return
	}
	switch x := v.(type) {
	case IfaceV:
		w.havoc(x.V, depth+1)
	case Ptr:
		if x.Slot != nil {
			w.havocSlot(x.Slot, depth+1)
		}
	case SliceV:
		if x.B == nil || x.SOff != nil {
			return
		}
		for i := x.Off; i < x.Off+x.Cap && i < len(x.B.Cells); i++ {
			w.havocSlot(&x.B.Cells[i], depth+1)
		}
	}
}

func (w *Worker) havocSlot(slot *Value, depth int) {
	switch x := (*slot).(type) {
	case *Term:
		switch x.Sort.K {
		case SReal, SFP:
			*slot = w.tt.Fresh("pool", x.Sort)
		}
	case ComplexV:
		*slot = ComplexV{w.tt.Fresh("pool", x.Re.Sort), w.tt.Fresh("pool", x.Im.Sort)}
	case StructV:
		for i := range x {
			w.havocSlot(&x[i], depth+1)
		}
	case ArrayV:
		for i := range x {
			w.havocSlot(&x[i], depth+1)
		}
	default:
		w.havoc(*slot, depth)
	}
}
